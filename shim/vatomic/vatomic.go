// Package vatomic is a drop-in replacement for the parts of sync/atomic that
// golang/geo uses.  Under a controlled execution every operation is preceded by
// a scheduling point and carries happens-before (store -> observing load).
package vatomic

import (
	"sync/atomic"
	"unsafe"

	"github.com/golang/geo/verifshim/vsched"
)

func LoadInt32(addr *int32) int32 {
	if e := vsched.Active(); e != nil {
		e.AtomicLoad(addr)
		v := atomic.LoadInt32(addr)
		e.Observe(uint64(v))
		return v
	}
	return atomic.LoadInt32(addr)
}

func StoreInt32(addr *int32, val int32) {
	if e := vsched.Active(); e != nil {
		e.AtomicStore(addr)
	}
	atomic.StoreInt32(addr, val)
}

func AddInt32(addr *int32, delta int32) int32 {
	if e := vsched.Active(); e != nil {
		e.AtomicRMW(addr)
		v := atomic.AddInt32(addr, delta)
		e.Observe(uint64(v))
		return v
	}
	return atomic.AddInt32(addr, delta)
}

func SwapInt32(addr *int32, val int32) int32 {
	if e := vsched.Active(); e != nil {
		e.AtomicRMW(addr)
		v := atomic.SwapInt32(addr, val)
		e.Observe(uint64(v))
		return v
	}
	return atomic.SwapInt32(addr, val)
}

func CompareAndSwapInt32(addr *int32, old, val int32) bool {
	if e := vsched.Active(); e != nil {
		e.AtomicRMW(addr)
		v := atomic.CompareAndSwapInt32(addr, old, val)
		e.Observe(b2u(v))
		return v
	}
	return atomic.CompareAndSwapInt32(addr, old, val)
}

// Int32 replaces atomic.Int32.
type Int32 struct{ v int32 }

func (x *Int32) Load() int32                        { return LoadInt32(&x.v) }
func (x *Int32) Store(val int32)                    { StoreInt32(&x.v, val) }
func (x *Int32) Add(delta int32) int32              { return AddInt32(&x.v, delta) }
func (x *Int32) Swap(val int32) int32               { return SwapInt32(&x.v, val) }
func (x *Int32) CompareAndSwap(old, val int32) bool { return CompareAndSwapInt32(&x.v, old, val) }

func LoadInt64(addr *int64) int64 {
	if e := vsched.Active(); e != nil {
		e.AtomicLoad(addr)
		v := atomic.LoadInt64(addr)
		e.Observe(uint64(v))
		return v
	}
	return atomic.LoadInt64(addr)
}

func StoreInt64(addr *int64, val int64) {
	if e := vsched.Active(); e != nil {
		e.AtomicStore(addr)
	}
	atomic.StoreInt64(addr, val)
}

func AddInt64(addr *int64, delta int64) int64 {
	if e := vsched.Active(); e != nil {
		e.AtomicRMW(addr)
		v := atomic.AddInt64(addr, delta)
		e.Observe(uint64(v))
		return v
	}
	return atomic.AddInt64(addr, delta)
}

func SwapInt64(addr *int64, val int64) int64 {
	if e := vsched.Active(); e != nil {
		e.AtomicRMW(addr)
		v := atomic.SwapInt64(addr, val)
		e.Observe(uint64(v))
		return v
	}
	return atomic.SwapInt64(addr, val)
}

func CompareAndSwapInt64(addr *int64, old, val int64) bool {
	if e := vsched.Active(); e != nil {
		e.AtomicRMW(addr)
		v := atomic.CompareAndSwapInt64(addr, old, val)
		e.Observe(b2u(v))
		return v
	}
	return atomic.CompareAndSwapInt64(addr, old, val)
}

// Int64 replaces atomic.Int64.
type Int64 struct{ v int64 }

func (x *Int64) Load() int64                        { return LoadInt64(&x.v) }
func (x *Int64) Store(val int64)                    { StoreInt64(&x.v, val) }
func (x *Int64) Add(delta int64) int64              { return AddInt64(&x.v, delta) }
func (x *Int64) Swap(val int64) int64               { return SwapInt64(&x.v, val) }
func (x *Int64) CompareAndSwap(old, val int64) bool { return CompareAndSwapInt64(&x.v, old, val) }

func LoadUint32(addr *uint32) uint32 {
	if e := vsched.Active(); e != nil {
		e.AtomicLoad(addr)
		v := atomic.LoadUint32(addr)
		e.Observe(uint64(v))
		return v
	}
	return atomic.LoadUint32(addr)
}

func StoreUint32(addr *uint32, val uint32) {
	if e := vsched.Active(); e != nil {
		e.AtomicStore(addr)
	}
	atomic.StoreUint32(addr, val)
}

func AddUint32(addr *uint32, delta uint32) uint32 {
	if e := vsched.Active(); e != nil {
		e.AtomicRMW(addr)
		v := atomic.AddUint32(addr, delta)
		e.Observe(uint64(v))
		return v
	}
	return atomic.AddUint32(addr, delta)
}

func SwapUint32(addr *uint32, val uint32) uint32 {
	if e := vsched.Active(); e != nil {
		e.AtomicRMW(addr)
		v := atomic.SwapUint32(addr, val)
		e.Observe(uint64(v))
		return v
	}
	return atomic.SwapUint32(addr, val)
}

func CompareAndSwapUint32(addr *uint32, old, val uint32) bool {
	if e := vsched.Active(); e != nil {
		e.AtomicRMW(addr)
		v := atomic.CompareAndSwapUint32(addr, old, val)
		e.Observe(b2u(v))
		return v
	}
	return atomic.CompareAndSwapUint32(addr, old, val)
}

// Uint32 replaces atomic.Uint32.
type Uint32 struct{ v uint32 }

func (x *Uint32) Load() uint32                        { return LoadUint32(&x.v) }
func (x *Uint32) Store(val uint32)                    { StoreUint32(&x.v, val) }
func (x *Uint32) Add(delta uint32) uint32             { return AddUint32(&x.v, delta) }
func (x *Uint32) Swap(val uint32) uint32              { return SwapUint32(&x.v, val) }
func (x *Uint32) CompareAndSwap(old, val uint32) bool { return CompareAndSwapUint32(&x.v, old, val) }

func LoadUint64(addr *uint64) uint64 {
	if e := vsched.Active(); e != nil {
		e.AtomicLoad(addr)
		v := atomic.LoadUint64(addr)
		e.Observe(uint64(v))
		return v
	}
	return atomic.LoadUint64(addr)
}

func StoreUint64(addr *uint64, val uint64) {
	if e := vsched.Active(); e != nil {
		e.AtomicStore(addr)
	}
	atomic.StoreUint64(addr, val)
}

func AddUint64(addr *uint64, delta uint64) uint64 {
	if e := vsched.Active(); e != nil {
		e.AtomicRMW(addr)
		v := atomic.AddUint64(addr, delta)
		e.Observe(uint64(v))
		return v
	}
	return atomic.AddUint64(addr, delta)
}

func SwapUint64(addr *uint64, val uint64) uint64 {
	if e := vsched.Active(); e != nil {
		e.AtomicRMW(addr)
		v := atomic.SwapUint64(addr, val)
		e.Observe(uint64(v))
		return v
	}
	return atomic.SwapUint64(addr, val)
}

func CompareAndSwapUint64(addr *uint64, old, val uint64) bool {
	if e := vsched.Active(); e != nil {
		e.AtomicRMW(addr)
		v := atomic.CompareAndSwapUint64(addr, old, val)
		e.Observe(b2u(v))
		return v
	}
	return atomic.CompareAndSwapUint64(addr, old, val)
}

// Uint64 replaces atomic.Uint64.
type Uint64 struct{ v uint64 }

func (x *Uint64) Load() uint64                        { return LoadUint64(&x.v) }
func (x *Uint64) Store(val uint64)                    { StoreUint64(&x.v, val) }
func (x *Uint64) Add(delta uint64) uint64             { return AddUint64(&x.v, delta) }
func (x *Uint64) Swap(val uint64) uint64              { return SwapUint64(&x.v, val) }
func (x *Uint64) CompareAndSwap(old, val uint64) bool { return CompareAndSwapUint64(&x.v, old, val) }

func LoadUintptr(addr *uintptr) uintptr {
	if e := vsched.Active(); e != nil {
		e.AtomicLoad(addr)
		v := atomic.LoadUintptr(addr)
		e.Observe(uint64(v))
		return v
	}
	return atomic.LoadUintptr(addr)
}

func StoreUintptr(addr *uintptr, val uintptr) {
	if e := vsched.Active(); e != nil {
		e.AtomicStore(addr)
	}
	atomic.StoreUintptr(addr, val)
}

func AddUintptr(addr *uintptr, delta uintptr) uintptr {
	if e := vsched.Active(); e != nil {
		e.AtomicRMW(addr)
		v := atomic.AddUintptr(addr, delta)
		e.Observe(uint64(v))
		return v
	}
	return atomic.AddUintptr(addr, delta)
}

func SwapUintptr(addr *uintptr, val uintptr) uintptr {
	if e := vsched.Active(); e != nil {
		e.AtomicRMW(addr)
		v := atomic.SwapUintptr(addr, val)
		e.Observe(uint64(v))
		return v
	}
	return atomic.SwapUintptr(addr, val)
}

func CompareAndSwapUintptr(addr *uintptr, old, val uintptr) bool {
	if e := vsched.Active(); e != nil {
		e.AtomicRMW(addr)
		v := atomic.CompareAndSwapUintptr(addr, old, val)
		e.Observe(b2u(v))
		return v
	}
	return atomic.CompareAndSwapUintptr(addr, old, val)
}

// Uintptr replaces atomic.Uintptr.
type Uintptr struct{ v uintptr }

func (x *Uintptr) Load() uintptr                        { return LoadUintptr(&x.v) }
func (x *Uintptr) Store(val uintptr)                    { StoreUintptr(&x.v, val) }
func (x *Uintptr) Add(delta uintptr) uintptr            { return AddUintptr(&x.v, delta) }
func (x *Uintptr) Swap(val uintptr) uintptr             { return SwapUintptr(&x.v, val) }
func (x *Uintptr) CompareAndSwap(old, val uintptr) bool { return CompareAndSwapUintptr(&x.v, old, val) }

func LoadPointer(addr *unsafe.Pointer) unsafe.Pointer {
	if e := vsched.Active(); e != nil {
		e.AtomicLoad(addr)
	}
	return atomic.LoadPointer(addr)
}

func StorePointer(addr *unsafe.Pointer, val unsafe.Pointer) {
	if e := vsched.Active(); e != nil {
		e.AtomicStore(addr)
	}
	atomic.StorePointer(addr, val)
}

// Bool replaces atomic.Bool.
type Bool struct{ v uint32 }

func (x *Bool) Load() bool { return LoadUint32(&x.v) != 0 }
func (x *Bool) Store(val bool) {
	var u uint32
	if val {
		u = 1
	}
	StoreUint32(&x.v, u)
}

// Value replaces atomic.Value.
type Value struct{ real atomic.Value }

func (v *Value) Load() any {
	if e := vsched.Active(); e != nil {
		e.AtomicLoad(v)
	}
	return v.real.Load()
}

func (v *Value) Store(val any) {
	if e := vsched.Active(); e != nil {
		e.AtomicStore(v)
	}
	v.real.Store(val)
}

func b2u(b bool) uint64 {
	if b {
		return 1
	}
	return 0
}
