package vsched

import (
	"fmt"
	"unsafe"
)

// Full-memory race checking (only in binaries built with `vinstr -mem`, see mc/cmd/vinstr/mem.go):
// every access of package s2 to memory that another goroutine could reach reports here.  The check
// is the same vector-clock happens-before check as Access, per 8-byte word of the accessed range;
// it is not a scheduling point (the schedule space is unchanged), and it does not depend on the
// schedule actually interleaving the two accesses: two conflicting accesses with no happens-before
// path between them are reported even when one thread ran to completion before the other started.

// MemSites is the table of instrumented source sites (set by the generated hook file).
var MemSites []string

// MemAccesses counts the accesses checked (evidence).
var MemAccesses int64

const memMaxThreads = 4

type memCell struct {
	hasW  bool
	wTid  int32
	wClk  uint32
	wSite uint32
	rClk  [memMaxThreads]uint32
	rSite [memMaxThreads]uint32
}

var (
	memExec  *Exec
	memCells map[unsafe.Pointer]*memCell
	memSeen  map[uint64]bool
	memOff   int
)

// MemPause / MemResume bracket harness code (state dumps) that runs inside a controlled execution
// but is not part of any thread's behaviour.
func MemPause()  { memOff++ }
func MemResume() { memOff-- }

func siteName(i uint32) string {
	if int(i) < len(MemSites) {
		return MemSites[i]
	}
	return fmt.Sprintf("site %d", i)
}

// MemAccess checks one access of size bytes at p by the running controlled thread.
func MemAccess(p unsafe.Pointer, size uintptr, write bool, site uint32) {
	e := active
	if e == nil || memOff > 0 || e.aborted || e.current < 0 || size == 0 {
		return
	}
	if len(e.threads) > memMaxThreads {
		return
	}
	if memExec != e {
		memExec = e
		memCells = make(map[unsafe.Pointer]*memCell, 1<<12)
		memSeen = map[uint64]bool{}
	}
	t := e.threads[e.current]
	if t.done {
		return
	}
	MemAccesses++
	words := (size + 7) / 8
	if words > 8 {
		words = 8
	}
	for w := uintptr(0); w < words; w++ {
		k := unsafe.Add(p, w*8) // keeps the object alive for the rest of the execution: no address reuse
		c := memCells[k]
		if c == nil {
			c = &memCell{}
			memCells[k] = c
		}
		if c.hasW && int(c.wTid) != t.id && c.wClk > t.vc[c.wTid] {
			memReport(e, t, int(c.wTid), c.wSite, site)
		}
		if write {
			for u := range e.threads {
				if u != t.id && c.rClk[u] > t.vc[u] {
					memReport(e, t, u, c.rSite[u], site)
				}
			}
			c.hasW, c.wTid, c.wClk, c.wSite = true, int32(t.id), t.vc[t.id], site
			c.rClk = [memMaxThreads]uint32{}
		} else {
			c.rClk[t.id] = t.vc[t.id]
			c.rSite[t.id] = site
		}
	}
}

func memReport(e *Exec, t *thread, otid int, osite, site uint32) {
	a, b := osite, site
	if a > b {
		a, b = b, a
	}
	key := uint64(a)<<32 | uint64(b)
	if memSeen[key] {
		return
	}
	memSeen[key] = true
	e.res.Races = append(e.res.Races, Race{Loc: "memory", First: siteName(osite), Second: siteName(site), FirstThread: otid, SecondThread: t.id})
}
