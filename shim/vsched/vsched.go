// Package vsched is the controlled cooperative scheduler behind the sync /
// sync/atomic shims (vsync, vatomic).  It is injected into golang/geo as a
// virtual package with `go build -overlay`; golang/geo itself is not modified.
//
// Exactly one controlled goroutine runs at a time.  Every shim operation and
// every verifAccess hook calls Point, which hands control back to the explorer;
// the explorer chooses the next thread from a choice list.  While no controlled
// execution is active every shim operation passes straight through to the real
// sync / atomic implementation.
package vsched

import (
	"fmt"
	"runtime/debug"
	"sync"
)

// OpKind identifies the kind of a scheduling point.
type OpKind uint8

const (
	OpStart OpKind = iota
	OpLock
	OpUnlock
	OpRLock
	OpRUnlock
	OpLoad
	OpStore
	OpRMW
	OpRead
	OpWrite
	OpYield
	OpDone
	OpLockWait
	OpTryLock
	OpTryRLock
)

func (k OpKind) String() string {
	return [...]string{"start", "lock", "unlock", "rlock", "runlock", "load", "store", "rmw", "read", "write", "yield", "done", "lock-wait", "trylock", "tryrlock"}[k]
}

// MutexState is the simulated state of one (RW)mutex.
type MutexState struct {
	Writer  int // thread id+1 of the writer, 0 if none
	Readers map[int]int
	// Pending holds the threads that have called Lock and are waiting for the mutex to become free.
	// Like sync.RWMutex, a waiting writer blocks new readers (this is what makes a recursive read
	// lock deadlock against a concurrent Lock).
	Pending map[int]bool
	VC      []uint32 // release clock
}

// Point records one scheduling point of an execution.
type PointRec struct {
	Key                 uint64   // hash of the global state at this point (only if Exec.StateFn is set)
	Thread              int      // thread that was running before this point (-1 at the beginning)
	Enabled             []int    // enabled threads in canonical order
	Chosen              int      // index into Enabled
	RunningStillEnabled bool     // Enabled[0] is the previously running thread
	Ops                 []string // pending op per enabled thread (only if Trace)
}

// Race describes a pair of conflicting accesses unordered by happens-before.
type Race struct {
	Loc          string
	First        string
	Second       string
	FirstThread  int
	SecondThread int
}

// Result is everything observed in one execution.
type Result struct {
	Points    []PointRec
	Choices   []int
	Panics    []string // per-thread panic text ("" if none)
	Deadlock  bool
	DeadInfo  string
	Livelock  bool
	Races     []Race
	Steps     int
	Diverged  string // non-empty: replay prefix could not be followed (nondeterminism not owned)
	LockCount int
	Events    []string // trace of executed operations (only if Trace)
}

type thread struct {
	id      int
	wake    chan struct{}
	done    bool
	kind    OpKind
	obj     any
	loc     int
	vc      []uint32
	started bool
	hash    uint64 // rolling hash of everything this thread has done and observed
}

type accessState struct {
	wTid  int
	wClk  uint32
	wDesc string
	rClk  []uint32
	rDesc []string
	hasW  bool
}

type locKey struct {
	obj any
	loc int
}

// Exec is one controlled execution.
type Exec struct {
	threads  []*thread
	current  int
	back     chan struct{}
	res      *Result
	aborted  bool
	mutexes  map[any]*MutexState
	atomics  map[any][]uint32
	accesses map[locKey]*accessState
	Trace    bool
	MaxSteps int
	prefix   []int
	raceSeen map[string]bool
	stateFn  func() uint64
}

// StateFn, when non-nil, is installed into the next execution: it returns a hash of the shared state
// that the harness knows to be complete (used for state-caching exploration).
var StateFn func() uint64

// LocStateFn, when non-nil, returns a hash of exactly the part of the shared state that a plain read
// of (obj, loc) can observe; without it a read is assumed to observe the whole shared state (sound but
// prevents most state merging).
var LocStateFn func(obj any, loc int) uint64

func mix(h, v uint64) uint64 {
	h ^= v + 0x9e3779b97f4a7c15 + (h << 6) + (h >> 2)
	h *= 0xff51afd7ed558ccd
	return h ^ (h >> 33)
}

// Observe mixes a value the running thread has just read (e.g. the result of an atomic load) into its
// history hash.
func (e *Exec) Observe(v uint64) {
	if e.aborted || e.current < 0 {
		return
	}
	t := e.threads[e.current]
	t.hash = mix(t.hash, v)
}

var (
	active   *Exec
	activeMu sync.Mutex
)

// Active reports whether a controlled execution is running and the caller
// should be scheduled.  It is what the shims consult to decide between
// simulation and pass-through.
func Active() *Exec { return active }

type abortSentinel struct{}

// Run executes the thread bodies under the controlled scheduler following the
// given choice prefix (then choice 0, i.e. "keep running the current thread").
func Run(prefix []int, bodies []func(), trace bool, maxSteps int) *Result {
	activeMu.Lock()
	defer activeMu.Unlock()
	if maxSteps <= 0 {
		maxSteps = 1000000
	}
	e := &Exec{
		back:     make(chan struct{}),
		res:      &Result{Panics: make([]string, len(bodies))},
		mutexes:  map[any]*MutexState{},
		atomics:  map[any][]uint32{},
		accesses: map[locKey]*accessState{},
		Trace:    trace,
		MaxSteps: maxSteps,
		prefix:   prefix,
		current:  -1,
		raceSeen: map[string]bool{},
		stateFn:  StateFn,
	}
	n := len(bodies)
	for i := range bodies {
		t := &thread{id: i, wake: make(chan struct{}), kind: OpStart, vc: make([]uint32, n)}
		t.vc[i] = 1
		e.threads = append(e.threads, t)
	}
	active = e
	for i, body := range bodies {
		t := e.threads[i]
		body := body
		go func() {
			<-t.wake
			defer func() {
				if r := recover(); r != nil {
					if _, ok := r.(abortSentinel); !ok {
						e.res.Panics[t.id] = fmt.Sprintf("%v\n%s", r, debug.Stack())
					}
				}
				t.done = true
				t.kind = OpDone
				e.back <- struct{}{}
			}()
			if e.aborted {
				panic(abortSentinel{})
			}
			body()
		}()
	}
	e.loop()
	active = nil
	e.res.LockCount = len(e.mutexes)
	return e.res
}

func (e *Exec) enabled(t *thread) bool {
	if t.done {
		return false
	}
	switch t.kind {
	case OpLockWait:
		m := e.mutexes[t.obj]
		return m == nil || (m.Writer == 0 && len(m.Readers) == 0)
	case OpRLock:
		m := e.mutexes[t.obj]
		return m == nil || (m.Writer == 0 && len(m.Pending) == 0)
	}
	return true
}

func (e *Exec) loop() {
	for {
		var en []int
		runningEnabled := false
		if e.current >= 0 && e.enabled(e.threads[e.current]) {
			en = append(en, e.current)
			runningEnabled = true
		}
		allDone := true
		for _, t := range e.threads {
			if !t.done {
				allDone = false
			}
			if t.id != e.current && e.enabled(t) {
				en = append(en, t.id)
			}
		}
		if allDone {
			return
		}
		if len(en) == 0 {
			e.res.Deadlock = true
			info := ""
			for _, t := range e.threads {
				if !t.done {
					info += fmt.Sprintf("T%d blocked at %s; ", t.id, t.kind)
					if m := e.mutexes[t.obj]; m != nil {
						info += fmt.Sprintf("(mutex writer=T%d readers=%d waiting-writers=%d) ", m.Writer-1, len(m.Readers), len(m.Pending))
						if t.kind == OpRLock && m.Readers[t.id] > 0 {
							info += "read lock re-entered by a thread that already holds it while a writer waits; "
						}
						if m.Writer-1 == t.id {
							info += "re-entered by its own holder; "
						}
					}
				}
			}
			e.res.DeadInfo = info
			e.abort()
			return
		}
		e.res.Steps++
		if e.res.Steps > e.MaxSteps {
			e.res.Livelock = true
			e.abort()
			return
		}
		idx := 0
		pos := len(e.res.Choices)
		if pos < len(e.prefix) {
			idx = e.prefix[pos]
			if idx < 0 || idx >= len(en) {
				e.res.Diverged = fmt.Sprintf("choice %d at point %d out of range (enabled=%v)", idx, pos, en)
				e.abort()
				return
			}
		}
		rec := PointRec{Thread: e.current, Enabled: en, Chosen: idx, RunningStillEnabled: runningEnabled}
		if e.stateFn != nil {
			k := e.stateFn()
			for _, t := range e.threads {
				k = mix(k, t.hash)
				if t.done {
					k = mix(k, 0xd09e)
				}
			}
			rec.Key = k
		}
		if e.Trace {
			for _, id := range en {
				rec.Ops = append(rec.Ops, fmt.Sprintf("T%d:%s", id, e.threads[id].kind))
			}
		}
		e.res.Points = append(e.res.Points, rec)
		e.res.Choices = append(e.res.Choices, idx)
		t := e.threads[en[idx]]
		e.current = t.id
		t.wake <- struct{}{}
		<-e.back
	}
}

// abort releases every parked thread; each one unwinds with a sentinel panic.
func (e *Exec) abort() {
	e.aborted = true
	for _, t := range e.threads {
		if !t.done {
			t.wake <- struct{}{}
			<-e.back
		}
	}
}

// point parks the calling controlled thread until the explorer schedules it.
func (e *Exec) point(kind OpKind, obj any, loc int) *thread {
	if e.aborted {
		return nil
	}
	t := e.threads[e.current]
	t.kind, t.obj, t.loc = kind, obj, loc
	e.back <- struct{}{}
	<-t.wake
	if e.aborted {
		panic(abortSentinel{})
	}
	if e.stateFn != nil {
		// The thread's local state is a function of its inputs (fixed) and of what it has observed:
		// the sequence of its operations, the values of its atomic loads (Observe) and, for plain
		// reads of shared data, the shared state at the time of the read.
		t.hash = mix(t.hash, uint64(kind)<<8|uint64(loc))
		if kind == OpRead {
			if LocStateFn != nil {
				t.hash = mix(t.hash, LocStateFn(obj, loc))
			} else {
				t.hash = mix(t.hash, e.stateFn())
			}
		}
	}
	return t
}

func join(a, b []uint32) {
	for i := range b {
		if b[i] > a[i] {
			a[i] = b[i]
		}
	}
}

func (e *Exec) mutex(obj any) *MutexState {
	m := e.mutexes[obj]
	if m == nil {
		m = &MutexState{Readers: map[int]int{}, Pending: map[int]bool{}, VC: make([]uint32, len(e.threads))}
		e.mutexes[obj] = m
	}
	return m
}

func (e *Exec) ev(t *thread, s string) {
	if e.Trace {
		e.res.Events = append(e.res.Events, fmt.Sprintf("T%d %s", t.id, s))
	}
}

// Lock simulates Mutex.Lock / RWMutex.Lock.
func (e *Exec) Lock(obj any) {
	// The call itself is always possible; if the mutex is not free the caller becomes a waiting
	// writer (which blocks new readers) and parks until it is.
	t := e.point(OpLock, obj, 0)
	if t == nil {
		return
	}
	m := e.mutex(obj)
	if m.Writer != 0 || len(m.Readers) > 0 {
		m.Pending[t.id] = true
		e.ev(t, "lock-announced (waiting writer)")
		t = e.point(OpLockWait, obj, 0)
		if t == nil {
			return
		}
		delete(m.Pending, t.id)
	}
	m.Writer = t.id + 1
	join(t.vc, m.VC)
	e.ev(t, "lock")
}

// TryLock simulates Mutex.TryLock / RWMutex.TryLock: one scheduling point that never blocks and
// succeeds exactly when the mutex is neither write- nor read-locked at that point.
func (e *Exec) TryLock(obj any) bool {
	t := e.point(OpTryLock, obj, 0)
	if t == nil {
		return false
	}
	m := e.mutex(obj)
	if m.Writer != 0 || len(m.Readers) > 0 {
		e.ev(t, "trylock failed")
		t.hash = mix(t.hash, 0xfa11)
		return false
	}
	m.Writer = t.id + 1
	join(t.vc, m.VC)
	e.ev(t, "trylock")
	return true
}

// TryRLock simulates RWMutex.TryRLock: fails if a writer holds or is waiting for the mutex.
func (e *Exec) TryRLock(obj any) bool {
	t := e.point(OpTryRLock, obj, 0)
	if t == nil {
		return false
	}
	m := e.mutex(obj)
	if m.Writer != 0 || len(m.Pending) > 0 {
		e.ev(t, "tryrlock failed")
		t.hash = mix(t.hash, 0xfa11)
		return false
	}
	m.Readers[t.id]++
	join(t.vc, m.VC)
	e.ev(t, "tryrlock")
	return true
}

// Unlock simulates Mutex.Unlock / RWMutex.Unlock.
func (e *Exec) Unlock(obj any) {
	t := e.point(OpUnlock, obj, 0)
	if t == nil {
		return
	}
	m := e.mutex(obj)
	if m.Writer != t.id+1 {
		panic("vsched: unlock of a mutex not locked by this thread")
	}
	m.Writer = 0
	join(m.VC, t.vc)
	t.vc[t.id]++
	e.ev(t, "unlock")
}

// RLock simulates RWMutex.RLock.
func (e *Exec) RLock(obj any) {
	t := e.point(OpRLock, obj, 0)
	if t == nil {
		return
	}
	m := e.mutex(obj)
	m.Readers[t.id]++
	join(t.vc, m.VC)
	e.ev(t, "rlock")
}

// RUnlock simulates RWMutex.RUnlock.
func (e *Exec) RUnlock(obj any) {
	t := e.point(OpRUnlock, obj, 0)
	if t == nil {
		return
	}
	m := e.mutex(obj)
	if m.Readers[t.id] == 0 {
		panic("vsched: runlock of a mutex not read-locked by this thread")
	}
	m.Readers[t.id]--
	if m.Readers[t.id] == 0 {
		delete(m.Readers, t.id)
	}
	join(m.VC, t.vc)
	t.vc[t.id]++
	e.ev(t, "runlock")
}

// AtomicLoad is called before an atomic load executes.
func (e *Exec) AtomicLoad(addr any) {
	t := e.point(OpLoad, addr, 0)
	if t == nil {
		return
	}
	if vc := e.atomics[addr]; vc != nil {
		join(t.vc, vc)
	}
	e.ev(t, "atomic-load")
}

// AtomicStore is called before an atomic store executes.
func (e *Exec) AtomicStore(addr any) {
	t := e.point(OpStore, addr, 0)
	if t == nil {
		return
	}
	vc := make([]uint32, len(t.vc))
	copy(vc, t.vc)
	e.atomics[addr] = vc
	t.vc[t.id]++
	e.ev(t, "atomic-store")
}

// AtomicRMW is called before an atomic read-modify-write executes.
func (e *Exec) AtomicRMW(addr any) {
	t := e.point(OpRMW, addr, 0)
	if t == nil {
		return
	}
	vc := e.atomics[addr]
	if vc == nil {
		vc = make([]uint32, len(t.vc))
		e.atomics[addr] = vc
	}
	join(t.vc, vc)
	copy(vc, t.vc)
	t.vc[t.id]++
	e.ev(t, "atomic-rmw")
}

// Access is a scheduling point plus a happens-before race check for a plain
// (unsynchronised) access to shared data identified by (obj, loc).
func (e *Exec) Access(obj any, loc int, write bool, desc string) {
	kind := OpRead
	if write {
		kind = OpWrite
	}
	t := e.point(kind, obj, loc)
	if t == nil {
		return
	}
	k := locKey{obj, loc}
	a := e.accesses[k]
	if a == nil {
		a = &accessState{rClk: make([]uint32, len(e.threads)), rDesc: make([]string, len(e.threads))}
		e.accesses[k] = a
	}
	report := func(otid int, odesc string) {
		key := fmt.Sprintf("%d|%s|%s", loc, odesc, desc)
		if e.raceSeen[key] {
			return
		}
		e.raceSeen[key] = true
		e.res.Races = append(e.res.Races, Race{Loc: fmt.Sprintf("loc%d", loc), First: odesc, Second: desc, FirstThread: otid, SecondThread: t.id})
	}
	if a.hasW && a.wTid != t.id && a.wClk > t.vc[a.wTid] {
		report(a.wTid, a.wDesc)
	}
	if write {
		for u := range a.rClk {
			if u != t.id && a.rClk[u] > t.vc[u] {
				report(u, a.rDesc[u])
			}
		}
		a.hasW, a.wTid, a.wClk, a.wDesc = true, t.id, t.vc[t.id], desc
		for u := range a.rClk {
			a.rClk[u] = 0
		}
	} else {
		a.rClk[t.id] = t.vc[t.id]
		a.rDesc[t.id] = desc
	}
	if e.Trace {
		e.ev(t, fmt.Sprintf("%s loc%d %s", kind, loc, desc))
	}
}

// Yield is a plain scheduling point.
func (e *Exec) Yield() { e.point(OpYield, nil, 0) }

// CurrentThread returns the id of the running controlled thread.
func (e *Exec) CurrentThread() int { return e.current }
