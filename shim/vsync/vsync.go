// Package vsync is a drop-in replacement for the parts of package sync that
// golang/geo uses.  Under a controlled execution (vsched.Active() != nil) every
// operation is a scheduling point simulated by vsched; otherwise it passes
// through to the real sync implementation.
package vsync

import (
	"sync"

	"github.com/golang/geo/verifshim/vsched"
)

// Locker is sync.Locker.
type Locker = sync.Locker

// Mutex replaces sync.Mutex.
type Mutex struct {
	real sync.Mutex
	sim  bool
}

func (m *Mutex) Lock() {
	if e := vsched.Active(); e != nil {
		e.Lock(m)
		m.sim = true
		return
	}
	m.real.Lock()
}

func (m *Mutex) Unlock() {
	if e := vsched.Active(); e != nil && m.sim {
		m.sim = false
		e.Unlock(m)
		return
	}
	m.real.Unlock()
}

func (m *Mutex) TryLock() bool {
	if e := vsched.Active(); e != nil {
		if e.TryLock(m) {
			m.sim = true
			return true
		}
		return false
	}
	return m.real.TryLock()
}

// RWMutex replaces sync.RWMutex.
type RWMutex struct {
	real sync.RWMutex
}

func (m *RWMutex) Lock() {
	if e := vsched.Active(); e != nil {
		e.Lock(m)
		return
	}
	m.real.Lock()
}

func (m *RWMutex) Unlock() {
	if e := vsched.Active(); e != nil {
		e.Unlock(m)
		return
	}
	m.real.Unlock()
}

func (m *RWMutex) RLock() {
	if e := vsched.Active(); e != nil {
		e.RLock(m)
		return
	}
	m.real.RLock()
}

func (m *RWMutex) RUnlock() {
	if e := vsched.Active(); e != nil {
		e.RUnlock(m)
		return
	}
	m.real.RUnlock()
}

func (m *RWMutex) TryLock() bool {
	if e := vsched.Active(); e != nil {
		return e.TryLock(m)
	}
	return m.real.TryLock()
}

func (m *RWMutex) TryRLock() bool {
	if e := vsched.Active(); e != nil {
		return e.TryRLock(m)
	}
	return m.real.TryRLock()
}

func (m *RWMutex) RLocker() Locker { return (*rlocker)(m) }

type rlocker RWMutex

func (r *rlocker) Lock()   { (*RWMutex)(r).RLock() }
func (r *rlocker) Unlock() { (*RWMutex)(r).RUnlock() }

// Once replaces sync.Once.
type Once struct {
	real sync.Once
	done bool
	m    Mutex
}

func (o *Once) Do(f func()) {
	e := vsched.Active()
	if e == nil {
		o.real.Do(func() {
			f()
			o.done = true
		})
		return
	}
	e.AtomicLoad(&o.done)
	if o.done {
		return
	}
	o.m.Lock()
	defer o.m.Unlock()
	if !o.done {
		defer func() {
			e.AtomicStore(&o.done)
			o.done = true
		}()
		f()
	}
}
