#!/bin/bash
# Offline setup: builds the overlay generator and pre-warms the Go build cache (verif-tagged
# build of golang/geo with the sync shim, every property's harness, and the -race variant).
set -e
. /verif/bin/env.sh
mkdir -p /verif/build /verif/evidence /verif/replays
cd /verif/mc
go build -o /verif/build/vinstr ./cmd/vinstr
for f in checks/c[0-9][0-9].go; do
  p=$(basename "$f" .go | tr 'a-z' 'A-Z')
  VERIF_BUILD_ONLY=1 bash /verif/bin/check "$p" quick >/dev/null || { echo "setup: build of $p failed"; VERIF_BUILD_ONLY=1 bash /verif/bin/check "$p" quick | tail -20; exit 1; }
done
echo "setup ok"
