#!/bin/bash
# Offline setup: builds the overlay generator and pre-warms the Go build cache for the
# verif-tagged (and -race) builds of the harness against /repo's current tree.
set -e
. /verif/bin/env.sh
mkdir -p /verif/build /verif/evidence /verif/replays
cd /verif/mc
go build -o /verif/build/vinstr ./cmd/vinstr
B=/verif/build/setup.$$
mkdir -p "$B"; trap 'rm -rf "$B"' EXIT
/verif/build/vinstr /repo /verif/shim "$B/overlay"
sed "s#=> /repo#=> /repo#" go.mod > "$B/go.mod"; cp go.sum "$B/go.sum"
go build -modfile "$B/go.mod" -tags verif -overlay "$B/overlay/overlay.json" -o "$B/vcheck" ./cmd/vcheck
go build -race -modfile "$B/go.mod" -tags verif -overlay "$B/overlay/overlay.json" -o "$B/vcheck.race" ./cmd/vcheck
echo "setup ok"
