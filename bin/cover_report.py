#!/usr/bin/env python3
"""usage: bin/cover_report.py <file-regex> <profile.txt>...   (diagnostic)
Merges coverage profiles and prints, for the golang/geo files matching the regex, every
statement block no check executed, grouped by enclosing function, with the source lines."""
import re, sys, collections
rx = re.compile(sys.argv[1]); cov = collections.defaultdict(int)
for p in sys.argv[2:]:
    for l in open(p):
        if l.startswith('mode:'): continue
        m = re.match(r'(.*):(\d+)\.(\d+),(\d+)\.(\d+) (\d+) (\d+)', l)
        f, a, _, b, _, n, c = m.groups()
        cov[(f, int(a), int(b), int(n))] += int(c)
byfile = collections.defaultdict(list)
for (f, a, b, n), c in cov.items():
    if rx.search(f) and not re.search(r'verif_|_test\.go', f): byfile[f].append((a, b, n, c))
tot = unc = 0
for f in sorted(byfile):
    path = re.sub(r'^github.com/golang/geo', '/repo', f)
    try: src = open(path).read().split('\n')
    except OSError: continue
    funcs = [(i + 1, l) for i, l in enumerate(src) if l.startswith('func ')]
    blocks = sorted(byfile[f]); t = sum(n for _, _, n, _ in blocks); u = sum(n for _, _, n, c in blocks if c == 0)
    tot += t; unc += u
    print(f'== {f}: {t-u}/{t} statements executed')
    perfn = collections.OrderedDict()
    for a, b, n, c in blocks:
        fn = [l for i, l in funcs if i <= a]
        fn = fn[-1] if fn else '?'
        perfn.setdefault(fn, []).append((a, b, n, c))
    never = [fn for fn, bl in perfn.items() if all(c == 0 for _, _, _, c in bl)]
    if never:
        print('  NEVER CALLED:')
        for fn in never: print('    ' + fn.rstrip('{ ')[:120])
    for fn, bl in perfn.items():
        if fn in never or all(c for _, _, _, c in bl): continue
        print('  PARTIAL ' + fn.rstrip('{ ')[:110])
        for a, b, n, c in bl:
            if c: continue
            for i in range(a, min(b, a + 4) + 1): print(f'      {i:5d}  {src[i-1].strip()[:120]}')
            print('      --')
print(f'TOTAL {tot-unc}/{tot}')
