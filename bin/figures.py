#!/usr/bin/env python3
"""Rewrites the figures column of DESIGN.md section 14.3 from the evidence files
(quick: evidence/Cxx.json, thorough: evidence/thorough/Cxx.json)."""
import json, re, os
ADDED = {
 "C01": "cov-advance, cov-cellgeom, cov-siti, cov-latlng, cov-rectbound, first-use",
 "C02": "cov-* (stages of every predicate), sign-underflow, float-sign-reversal",
 "C03": "t-junctions, near-antipodal-edges",
 "C04": "nested-complements (incl. polar families), cov-*, decoded-polygons",
 "C05": "cap-grid, cap-bound-alignment, covering-histories, snapped-polygons, index-cell-corner-leaves, cov-*, corner-cut loops, east-west polyline",
 "C06": "index-histories, remove-last-histories, cov-* (shape contract of every constructor, leaf piles, clipping), small-loop-inside-huge-loop, three-face-edge",
 "C07": "cov-* (relation visitors, wedges, nesting), loop-reuse-relations, nested families",
 "C08": "45-51 indexes, interiors, derived limits, brute/optimized differential, reuse-histories, compact-index-targets, index-target-max-error",
 "C09": "encode/Invert/encode histories, reader-kinds",
 "C10": "wide-regions, bound-histories, hull-nested-polygons, subregion-bound-rotation, cov-*",
 "C11": "algebra-histories, face-3 universe, redundantly written arguments",
 "C12": "cell-relations, cell-scalars, areas, edge-pairs, bounds-polar, long edges, ancestor-containment",
 "C13": "deepKey, worker processes, M3 14-loop polygon, M5, full polygon in M1, M4-small-index",
 "C14": "full-memory pass, S7, F-first-use, RWMutex writer preference, TryLock, deferred vacuity guards",
 "C15": "decode-into-used-value, reader-kinds (worker), one-vertex-loop polygons; thorough: second-order faults",
 "C16": "tiny-at-endpoint",
 "C17": "cov-* (thresholds, point-on-line, polyline ops), edge-pair-thresholds",
 "C18": "cov-* (centroids, caps, rects, cells), loop-reuse-histories, band loops",
 "C19": "S1-expanded-near-full, COV-*, CHORD-near-supplementary",
 "C20": "snap-declared, snap-sites-*, snap-inverse, projection-api",
}

def fmt(n):
    if n >= 1e9: return "%.2f G" % (n/1e9)
    if n >= 1e6: return "%.1f M" % (n/1e6)
    if n >= 1e3: return "%.0f k" % (n/1e3)
    return str(n)
def fig(path):
    if not os.path.exists(path): return None
    d = json.load(open(path)); c = d["coverage"]
    return d["tier"], c.get("evaluations", 0), c.get("distinct_nontrivial", 0), d["wall_s"], c.get("exhaustive")
s = open("/verif/DESIGN.md").read()
lines = s.split("\n")
for i, l in enumerate(lines):
    m = re.match(r"\| (C\d\d) \|", l)
    if not m: continue
    cols = l.split(" | ")
    if len(cols) != 4: continue
    pid = m.group(1)
    q, t = fig("/verif/evidence/%s.json" % pid), fig("/verif/evidence/thorough/%s.json" % pid)
    if not q or q[0] != "quick": continue
    txt = "%s / %s / %.0f s" % (fmt(q[1]), fmt(q[2]), q[3])
    if t and t[0] == "thorough":
        txt += " (thorough: %s / %s / %.0f s%s)" % (fmt(t[1]), fmt(t[2]), t[3], "" if t[4] else ", caps hit: see evidence")
    cols[2] = txt
    if pid in ADDED and "; later: " not in cols[1]:
        cols[1] += "; later: " + ADDED[pid]
    if pid in ("C01","C02","C03","C04","C05","C06","C07","C08","C09","C10","C11","C12","C13","C15","C16","C17","C18","C19","C20") and "concurrent-use" not in cols[1]:
        cols[1] += "; concurrent-use panels"
    lines[i] = " | ".join(cols)
open("/verif/DESIGN.md", "w").write("\n".join(lines))
print("figures updated")
