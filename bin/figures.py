#!/usr/bin/env python3
"""Rewrites the figures column of DESIGN.md section 14.3 from the evidence files
(quick: evidence/Cxx.json, thorough: evidence/thorough/Cxx.json)."""
import json, re, os
def fmt(n):
    if n >= 1e9: return "%.2f G" % (n/1e9)
    if n >= 1e6: return "%.1f M" % (n/1e6)
    if n >= 1e3: return "%.0f k" % (n/1e3)
    return str(n)
def fig(path):
    if not os.path.exists(path): return None
    d = json.load(open(path)); c = d["coverage"]
    return d["tier"], c.get("evaluations", 0), c.get("distinct_nontrivial", 0), d["wall_s"], c.get("exhaustive")
s = open("/verif/DESIGN.md").read()
lines = s.split("\n")
for i, l in enumerate(lines):
    m = re.match(r"\| (C\d\d) \|", l)
    if not m: continue
    cols = l.split(" | ")
    if len(cols) != 4: continue
    pid = m.group(1)
    q, t = fig("/verif/evidence/%s.json" % pid), fig("/verif/evidence/thorough/%s.json" % pid)
    if not q or q[0] != "quick": continue
    txt = "%s / %s / %.0f s" % (fmt(q[1]), fmt(q[2]), q[3])
    if t and t[0] == "thorough":
        txt += " (thorough: %s / %s / %.0f s%s)" % (fmt(t[1]), fmt(t[2]), t[3], "" if t[4] else ", caps hit: see evidence")
    cols[2] = txt
    lines[i] = " | ".join(cols)
open("/verif/DESIGN.md", "w").write("\n".join(lines))
print("figures updated")
