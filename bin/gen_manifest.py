#!/usr/bin/env python3
"""Regenerates /verif/MANIFEST.json from the table below (kept in one place so that the
manifest is always valid and the not_applicable list is always current)."""
import json, subprocess

CLAIMED = {
 "C14": dict(level="model_checking", engine="E1 sched",
   technique="stateless model checking of the real code: (a) exhaustive preemption-bounded DFS over schedules of real goroutines under a controlled cooperative scheduler (sync/atomic shim injected by -overlay), (b) unbounded exploration of ALL interleavings with state caching on (per-thread observation hash, per-location shared state) keys; vector-clock happens-before race check on every execution; plus a separate free-running -race pass of the same scenario bodies",
   text="Every interleaving up to the stated preemption bound per scenario (quick: 2, thorough: 3-5) and, in the unbounded mode, every interleaving without a bound (quick: all 2-thread scenarios; thorough: 2 and 3 threads), of 2-3 goroutines running real read-only queries (Loop/Polygon ContainsPoint, Contains/IntersectsCell, loop relations, ContainsPointQuery, CrossingEdgeQuery, closest/furthest EdgeQuery) on fresh shared geometry (loops, polygons with 2 and 16 loops, mixed indexes) whose index is unbuilt, built, or becomes built mid-flight, is executed on the implementation; each execution is checked for serial answers, panics, deadlock, a sequentially-equal final index and happens-before races on the hooked shared state.",
   note="Sequentially consistent interleavings at sync/atomic operations and verifAccess hooks only (weak-memory behaviour is represented by the race check); unhooked shared locations are covered only by the non-exhaustive free-running -race pass; bounded number of threads/ops per scenario.",
   design="DESIGN.md §3.4, §6 C14"),

 "C13": dict(level="model_checking", engine="E2 opseq (+E1 shim for deadlock detection)",
   technique="explicit-state model checking: breadth-first search over operation histories on the real objects (replay-from-scratch successors, states merged on the implementation's own internal state), differential oracle against fresh objects; full no-merge enumeration for query-object reuse",
   text="All histories up to the stated depth over the alphabets add-shape/build/reset/query-panel/reused-query-panel (ShapeIndex), invert/query (Loop with 8/40/100 vertices incl. loops containing a pole, Polygon with hole / two shells), add-cluster/Reset under a long-lived EdgeQuery and FindEdges/Distance/IsDistanceLess/IsDistanceGreater/conservative tests on one reused Closest/FurthestEdgeQuery, CrossingEdgeQuery and ContainsPointQuery are executed on the implementation; after each history the last answer must equal the answer of fresh objects holding the same geometry and user options; deadlock and non-termination are detected structurally through the sync shim.",
   note="Bounded depth and alphabets; Remove is outside the property's alphabet; state merging uses a dump of the implementation's internal state (index status, pending position, cell contents, cached bounds, option values) plus the creation history of harness-side long-lived query objects (over-fine, so it can only cost time).",
   design="DESIGN.md §3.5, §6 C13"),

 "C15": dict(level="fault_enumeration", engine="E4 faults",
   technique="exhaustive fault enumeration: every truncation, single-byte substitution, spliced varint pattern, float pattern, count-field boundary value (and pairs) and version byte of a corpus of valid encodings, each fed to all nine real Decode methods in worker sub-processes (address-space capped), returned values exercised through a query panel",
   text="Every mutant of the stated classes of every corpus entry (all nine types, both polygon formats, snapped / off-centre / bound-encoded / zero-vertex loops, 13- and 14-loop polygons incl. a zero-vertex loop) is decoded by every Decode method; a panic, an abnormal process exit, a stall, an accepted over-limit count, more than 64 MB allocated for an over-limit count, or a panic while querying a returned value is a violation; every ordered pair of corpus entries of a type is also decoded into the same value (decode-into-used-value).",
   note="Enumeration is exhaustive over the corpus x mutation classes, not over all byte strings; mutants that declare a within-limit giant count are counted but not run (documented limits permit 1.2 GB allocations); termination is observed by a watchdog.",
   design="DESIGN.md §3.7, §6 C15"),

 "C02": dict(level="exploration", engine="E3 enum",
   technique="bounded-exhaustive enumeration: every triple / 5-subset over degenerate and ulp-neighbour point alphabets, against exact big.Int determinants, an independent definitional model of the symbolic perturbation, the chirotope axioms, and exact rational distance comparisons; each float fast path checked on its own through hooks",
   text="Every ordered triple over P-deg ∪ P-tiny, every K-ulp perturbation of the third point of every exactly coplanar triple, every 5-subset (Grassmann-Plücker), and every triple/pair for CompareDistances / CompareDistance / SignDotProd is evaluated; RobustSign must equal the exact sign (with the documented perturbation on ties), be rotation-invariant and swap-antisymmetric, and no fast path may return a wrong non-zero sign.",
   note="Universal claim over float64 inputs is only decided on the lattice (DESIGN L1); FMA cannot be exercised on amd64 (L4).",
   design="DESIGN.md §6 C02"),
 "C03": dict(level="model_checking", engine="E3 enum + E2 opseq",
   technique="exhaustive enumeration of all ordered quadruples over a degenerate point alphabet against the exact four-orientation criterion, plus explicit-state breadth-first search over the (c, acb) state of one EdgeCrosser per edge AB (every transition a real method call, state read through a hook) and all unmerged call sequences of length <= 3",
   text="CrossingSign / VertexCrossing / EdgeOrVertexCrossing equal the exact reference on every quadruple and are symmetric; every reachable EdgeCrosser state under RestartAt / ChainCrossingSign / EdgeOrVertexChainCrossing / CrossingSign / EdgeOrVertexCrossing with every argument gives the stateless exact answer for the chain edge.",
   note="Alphabets of 13-24 points (quadruples) and 8-12 points (crosser); the state merge relies on (c, acb) being the only mutable crosser fields.",
   design="DESIGN.md §6 C03"),

 "C04": dict(level="exploration", engine="E3 enum",
   technique="bounded-exhaustive enumeration: every probe point (vertices, edge points, 1-ulp neighbours, structural points) against every tile of sphere tilings (exactly-once counting needs no oracle) and against an exact crossing-parity reference on every evaluation path; every cyclic ray configuration for the vertex rule",
   text="Every probe is contained by exactly one tile of each tiling (faces, all cells of levels 1-3, meridian wedges with 42-102 vertices, loop+inverse, polygon+complement); brute force, ContainsPoint before/after the index exists, ContainsPointQuery and the one-loop polygon equal the exact parity of edge crossings on every catalogue loop and probe; containsCenter of every index cell equals the reference; loops inverted after their index was built and used are queried with a fresh history per probe.",
   note="Loops of 3..102 vertices (around the 32-vertex threshold), not 10^4 (DESIGN L2); reference uses exact determinants with the documented perturbation.",
   design="DESIGN.md §6 C04"),
 "C06": dict(level="exploration", engine="E3 enum",
   technique="bounded-exhaustive enumeration: every shape collection of a catalogue x every probe / query edge pair / index cell, against brute force over all edges with exact crossing tests; structural invariants checked directly on a dump of the index",
   text="Shape contract on every edge id of every shape type; ContainsPointQuery (3 vertex models: Contains, ShapeContains, ContainingShapes), CrossingEdgeQuery.Crossings/CrossingsEdgeMap (both crossing types), polygon/loop cell relations (one-sided) and the index structure (sorted, disjoint, every edge witness listed, containsCenter) equal brute force on every collection.",
   note="Collections of 1-8 shapes with up to ~250 edges; edge witnesses are asserted only when strictly inside a cell (1e-12 margin) so the check cannot accuse wrongly.",
   design="DESIGN.md §6 C06"),
 "C07": dict(level="exploration", engine="E3 enum",
   technique="bounded-exhaustive enumeration: all ordered pairs over loop and polygon catalogues (nested, crossing, sharing vertices/edges, > hemisphere, multi-cell indexes, inverses), algebraic laws without a reference plus point-set soundness against exact containment on every probe; every subset x input order of nested loop families for the hole rule",
   text="Intersects symmetric, reflexivity, A∩B iff not complement(A)⊇B, A⊇B iff complement(B)⊇complement(A), polygon==loop answers, Contains/!Intersects sound on all probes, IsHole == parity of enclosing loops, on every pair / subset order of the catalogues.",
   note="Catalogue of 46-62 loops and 12 polygons; loops up to 100 vertices.",
   design="DESIGN.md §6 C07"),

 "C08": dict(level="exploration", engine="E3 enum",
   technique="bounded-exhaustive enumeration: every index x target x option-grid combination (closest and furthest) compared with an exhaustive scan over all edges using the target's own per-edge distance; a hook counts queries really answered by the optimized search",
   text="FindEdges, Distance, IsDistanceLess/Greater and the conservative tests equal the scan on every combination of 9-13 indexes (1-6 faces, 8-300 edges), 11-13 targets (points, edges, cells, a second index) and 50 option sets: results sorted, duplicate-free, within MaxResults and the distance limit, each with its true distance, and within MaxError (as an angle) of the i-th optimum.",
   note="Per-edge distances are taken from the target's own updateDistanceToEdge (accuracy is C12/C17's business); ties compared as distances; interiors rule asserted for closest point targets only.",
   design="DESIGN.md §6 C08"),

 "C01": dict(level="exploration", engine="E3 enum",
   technique="bounded-exhaustive enumeration: every cell id to a level plus structured deep families through every CellID operation against an independent integer cube-surface model with a naive Hilbert recursion; boundary-targeted point lattices (every leaf boundary of a face axis in the thorough tier) for CellFromPoint/ContainsPoint; all short token/string inputs",
   text="Parent/child/range/level/face/pos/token/string round trips, children partition, curve adjacency and neighbour sets (as exact sets) agree with the model on every enumerated id; every lattice point gets a valid leaf that contains it together with all 30 ancestors.",
   note="Levels > 4 (quick) / 7 (thorough) only on the structured deep families; the point hunt is exhaustive over one face axis' leaf boundaries, not over the sphere (DESIGN L1).",
   design="DESIGN.md §6 C01"),
 "C09": dict(level="exploration", engine="E3 enum",
   technique="bounded-exhaustive enumeration of encodable values (all replacement masks of cell-centre quadrilaterals at all 31 levels and structural positions, boundary coordinate sequences, 16-bit first differences, bound-encoded and multi-loop polygons, all short cell-union / polyline sequences); oracle = bit identity of every field (reflection) and of a query panel after decode(encode(v)), byte stability",
   text="decode(encode(v)) is bit-identical in every field and answers the same query panel; encode is deterministic and idempotent through a round trip, for both polygon formats at every snap level.",
   note="The primitive coders are driven through Polygon encoding (no direct hooks); values are catalogue-generated, not all values.",
   design="DESIGN.md §6 C09"),
 "C11": dict(level="model_checking", engine="E3 enum + E2 opseq",
   technique="exhaustive enumeration of all subsets / all ordered pairs / all tuples over small cell universes against a leaf-interval set model; explicit-state enumeration of all Add/AddCellUnion histories of CellIndex followed by full iterator sweeps",
   text="Normalize, IsValid, IsNormalized, LeafCellsCovered, Denormalize, Contains/IntersectsCellID on every (multi)subset; Union/Intersection/Difference/Contains/Intersects on every ordered pair; CellUnionFromRange/MaxTile on every begin/end pair; CellIndex range/contents/non-empty iterators and Seek after every history; s2intersect.Find on every tuple — all equal the set model.",
   note="Universes of 14-21 cells, windows of 64-256 leaves, histories of depth 4-6.",
   design="DESIGN.md §6 C11"),
 "C12": dict(level="exploration", engine="E3 enum",
   technique="bounded-exhaustive enumeration of cells (all of levels <= 2/3 plus deep families) x target alphabets (points, edges, cells) against the cube model and exact big-integer reference distances; PaddedCell against the model's curve corners and exact smallest-cell computation",
   text="Geometry, containment, bounds, point/edge/cell min and max distances (never-closer / never-farther on a grid), Children vs direct construction, PaddedCell entry/exit/middle/ShrinkToFit agree with the reference within the stated tolerance on every cell x target.",
   note="702 / 4,734 cells; tolerance models the two documented accuracy losses (edge formula near 90 degrees, chord angles near 180).",
   design="DESIGN.md §6 C12"),
 "C18": dict(level="exploration", engine="E3 enum",
   technique="bounded-exhaustive enumeration of a loop catalogue (n-gons, cells, slivers, near-180-degree edges, every ordered triple of exactly degenerate points) with all rotations, reversal and inversion, and a polygon catalogue, against a 384-bit reference turning angle / area (Gauss-Bonnet, cross-checked by a fan sum) and exact containment turned into an area bound",
   text="Area(L)+Area(L')=4pi, rotation independence, fan-sum agreement, containment-consistent area for slivers and degenerate loops, TurningAngle bit-identical under rotation and exactly negated by Invert, IsNormalized/Normalize consistent, polygon area/centroid = signed sums, within the documented error on every catalogue entry.",
   note="Vertex counts up to 130/300, not 10^4; centroid asserted only where a bound can be justified.",
   design="DESIGN.md §6 C18"),
 "C19": dict(level="exploration", engine="E3 enum",
   technique="bounded-exhaustive enumeration of all intervals / rectangles / caps over boundary endpoint alphabets and all ordered pairs of them, against point membership on a complete probe set (every alphabet value plus one abstract point per gap)",
   text="Union, Intersection, Contains, Intersects, interior variants, AddPoint, Expanded, Complement, Project/ClampPoint, Hausdorff distances and constructors of r1.Interval, s1.Interval, r2.Rect, s2.Rect, s2.Cap and ChordAngle arithmetic agree with membership (exactly for the linear types, in the sound directions for circular ones) on every pair.",
   note="Cap assertions cannot see differences below 1e-9 rad (more near 180 degrees); shrinking by a negative margin is outside the property text and only counted.",
   design="DESIGN.md §6 C19"),
 "C20": dict(level="exploration", engine="E3 enum",
   technique="bounded-exhaustive enumeration of edges x projections x scales x tolerances derived from each edge's own measured deviation and decision estimate (so that accept/subdivide boundaries are hit), all polylines of <= 6 vertices over point alphabets x tolerances, all snap levels / exponents x boundary points; achieved error measured against a conditioned float64 reference re-confirmed at 256 bits",
   text="Every output chain of AppendProjected/AppendUnprojected stays within the requested tolerance (33 fractions per segment), endpoints preserved, neighbours within half a period; Project/Unproject round trip; SubsampleVertices keeps endpoints, emits no duplicate neighbours, drops only vertices within tolerance; CellIDSnapper / IntLatLngSnapper land on a site of the declared grid within SnapRadius.",
   note="Reference error 2e-15 rad added to the implementation's side; Mercator edges within 0.05 degrees of a pole excluded (documented limitation).",
   design="DESIGN.md §6 C20"),

 "C05": dict(level="exploration", engine="E3 enum",
   technique="bounded-exhaustive enumeration: region catalogue x RegionCoverer option grid x the five covering methods, region predicates on cell lattices around every boundary, and every rectangle over a cell's characteristic latitude/longitude alphabet; membership oracle = the region's own ContainsPoint for simple regions and exact crossing parity for loops/polygons, strictly interior probes for the one-sided claims",
   text="Every covering contains every contained probe, every interior-covering cell lies inside the region, MinLevel/MaxLevel/LevelMod are honoured, ContainsCell=true and IntersectsCell=false are one-sidedly safe, on every region x configuration of the grid; a cap grid (centres on a 10/5-degree grid x 24 radii dense around the hemisphere) against all coarse cells with 1024 interior probes each.",
   note="Probes accuse only when more than 1e-12 rad from a boundary; MaxCells is soft and not asserted; configurations that would need > 30,000 cells are skipped and counted.",
   design="DESIGN.md §6 C05"),
 "C10": dict(level="exploration", engine="E3 enum",
   technique="bounded-exhaustive enumeration: region catalogue x probe sets (vertices with ulp neighbours, dense edge points, the 300-bit latitude extremum of every edge), all vertex pairs x third vertices of an adversarial alphabet for RectBounder, constructed containing pairs for ExpandForSubregions, all subsets of a point alphabet for the convex hull; exact containment and exact orientation signs as oracle",
   text="RectBound / CapBound / CellUnionBound (of constructed and of decoded regions, incl. rectangles 180-360 degrees wide) contain every contained probe with no slack on the rect bounds; RectBounder's closed-chain guarantee; ExpandForSubregions dominates the bound of every contained loop; hulls are convex by exact signs and contain or have as vertex every input point.",
   note="Two ulp-level findings (unpadded cap-shaped bounds, D24/D25) are recorded as known findings; a missing constant is detectable, sufficiency of the constants is not (DESIGN L1).",
   design="DESIGN.md §6 C10"),
 "C16": dict(level="exploration", engine="E3 enum",
   technique="bounded-exhaustive enumeration of crossing edge pairs built through common points at crossing angles pi/2..3e-16 and half-lengths 5e-324..pi/2, endpoint ulp neighbourhoods, exactly collinear overlaps and nearly antipodal endpoints, all 8 argument orders; oracle = the exact intersection (a0xa1)x(b0xb1) in big.Int with the error bound as an exact rational inequality; stage hooks for the stable and exact paths",
   text="Intersection is unit length, within 8*2^-53 rad of the exact intersection, on the edges' side, and identical in all 8 orderings on every kept pair; the stable path only accepts results meeting the bound.",
   note="Only pairs that the exact reference classifies as crossing are judged; one known finding (D29, collinear pairs with same-direction endpoints).",
   design="DESIGN.md §6 C16"),
 "C17": dict(level="exploration", engine="E3 enum",
   technique="bounded-exhaustive enumeration of edges (lengths 0, 1 ulp, 1e-300..pi-1e-12) x query points on / beside / perpendicular to / antipodal to the edge incl. the ulp neighbourhoods of the interior/endpoint decision boundary, edge pairs, interpolation fractions, all short polylines over a point alphabet; oracle = exact dot/cross products with 320-bit sqrt/asin/atan2, compared with the library's own documented error functions",
   text="UpdateMinDistance / DistanceFromSegment / IsDistanceLess / UpdateMinInteriorDistance stay within minUpdateDistanceMaxError of the exact distance, never exceed an endpoint distance by more, are zero at own endpoints and agree with their threshold forms; Project, Interpolate, DistanceFraction, EdgePairClosestPoints and the Polyline walk are mutually consistent within 1e-14 rad.",
   note="Functions without a documented bound are held to 1e-14 rad (scaled by conditioning); nearly antipodal edges excluded as documented.",
   design="DESIGN.md §6 C17"),
}


EXTRA = {
 "C01": "Sub-checks added later: cov-advance (Advance/AdvanceWrap against the integer model at every level, steps up to +-MaxInt64), cov-cellgeom, cov-siti, cov-latlng, cov-rectbound; first-use (fresh-process schedule exploration of the first cell-id conversions of a process).",
 "C02": "Sub-checks added later (cov-*): the triage / stable / exact stages of every predicate on its own, sub-normal and underflow regimes; four candidates below the documented input range are counted only; sign-underflow (separations 2^-1074..2^-500, third point on / beside the great circle, 6 argument orders); float-sign-reversal (the documented guarantee of the plain float test Sign on triples whose determinant is rounding noise).",
 "C03": "Sub-checks added later: t-junctions (chains whose vertices lie exactly on other edges, every crosser path incl. the slow path with a carried chain vertex); near-antipodal-edges (AB of length pi minus 2e-8..1e-12, CD next to an endpoint).",
 "C04": "Sub-checks added later: nested-complements (multi-shell / multi-hole families, every loop order, Invert and InitNested), cov-* (reference point and origin-inside logic of loops and polygons, incl. families with an even and an odd number of loops around the fixed origin); decoded-polygons (polar / origin-point / ordinary polygons, snapped and unsnapped, 4-70 vertices per loop, asked through Encode/Decode before and after their index exists).",
 "C05": "Sub-checks added later: cap-grid, cap-bound-alignment (cap centres on / beside every block boundary of the bound's level next to a face edge: CellUnionBound, FastCovering and Covering contain every interior probe), covering-histories (all sequences of option changes, region mutations and covering calls on one reused coverer up to depth 3-5), snapped-polygons (polygons whose vertices are cell centres / corners, exactly simple by an exact filter), index-cell-corner-leaves, cov-* (Rect / Cap / Cell / CellUnion / Polyline region predicates on every coarse cell incl. all level-0 faces); corner-cut loops (an edge crossing a cube face on which the loop has no vertex); a polyline whose edge rises 14 degrees poleward of its endpoints.",
 "C06": "Sub-checks added later: index-histories (Add / Build / Reset / fresh and long-lived query panels, depth 3-5), remove-last-histories, cov-shape-contract (every shape constructor incl. lax polygons with empty loops), cov-type-equivalence, cov-leaf-piles (collections that force leaf index cells), cov-clip-edge / cov-clip-face (ClipEdge, ClipToFace against exact clipping), cov-loop-relations; small-loop-inside-huge-loop collections (the interior tracker is inside a shape across ranges of edge-less cells); three-face-edge polygons and loops.",
 "C07": "Sub-checks added later: cov-* (every branch of the loop-relation visitors incl. wedge cases at shared vertices), loop-reuse-relations (the same pair asked repeatedly and in both orders on long-lived objects).",
 "C08": "Deepened: 45-51 indexes (holes, nesting, full/empty polygon, lax shapes, indexes straddling every brute-force / enqueue threshold, deep indexes, leaf-index-cell piles, up to 2,000 edges), interiors for all target types and both query kinds, limits derived from each query's own distances (exactly / next float up / down), MaxResults up to n+1, MaxError up to pi, brute force vs optimized as a differential pair; reuse-histories (one long-lived query across index growth, Reset, option changes: all sequences up to length 3-4); compact-index-targets, index-target-max-error.",
 "C09": "Added later: encode / Invert / encode histories (a value that was already encoded is modified and encoded again); reader-kinds (every encoding decoded through readers that return 1 byte / short reads / io.ByteReader and not).",
 "C10": "Sub-checks added later: decoded-region-bounds, wide-regions, bound-histories (all sequences of bound reads, ContainsPoint, Invert, Normalize, Reverse, AddPoint on 22 objects up to depth 4-6), hull-nested-polygons, subregion-bound-rotation (metamorphic: ExpandForSubregions of rotated containing pairs), cov-* (hull and bounder branches).",
 "C11": "Sub-check added later: algebra-histories (in-place CellUnion modifiers incl. ExpandAtLevel / ExpandByRadius with aliasing operands, reused CellIndex iterators in every visiting order, repeated s2intersect.Find); face universes with the children of faces 0/5 and 3/4; Contains / Intersects with redundantly written arguments (duplicated cell, cell plus descendants).",
 "C12": "Sub-checks added later: cell-relations (all ordered pairs), cell-scalars, areas (320-bit solid-angle reference), edge-pairs, bounds-polar; edge alphabet includes edges of 60, 205 and 215 degrees; ancestor-containment (every ancestor of the leaf of each point of the boundary-hunting lattice contains the point).",
 "C13": "Keys are in addition a reflective dump of the complete object graph (deepKey); machines run in separate worker processes; M3 has a 14-loop polygon and an Edges/Chains operation; M5 Reset-after-growth; M1 adds the full polygon (a shape without edges that occupies every cell); M4-small-index (a one-cell index holding a loop and a polyline, whose cell contents no query may disturb); M4-reused-ShapeIndex-target (one long-lived ShapeIndex distance target handed to fresh queries in every order).",
 "C14": "Also: full-memory happens-before pass (binary whose every pointer-reachable / package-level access of package s2 reports to the race check) on every scenario, scenario S7 (two polygons), family F-first-use (fresh-process exploration of first uses); the scheduler models sync.RWMutex writer preference (a pending Lock blocks later RLocks), so recursive read locking is found as a deadlock, and TryLock / TryRLock (one non-blocking point whose outcome is read from the mutex state).",
 "C15": "Added later: reader-kinds (every mutant class through 1-byte / short-read / non-ByteReader readers; totality must not depend on how the bytes arrive), in a capped worker process with culprit naming; thorough tier: second-order faults (header byte + truncation at every later position, all pairs of header bytes over the byte alphabet); the corpus includes hand-assembled version-1 polygons made only of one-vertex loops.",
 "C16": "Sub-check added later: tiny-at-endpoint (sub-normal-length edges ending at the other edge's endpoint).",
 "C17": "Sub-checks added later: cov-interior-threshold, cov-point-on-line (PointOnLine / PointToLeft / PointToRight / PointOnRay), cov-edge-pair-cases, cov-polyline-measures, cov-chordangle-trig, cov-polyline-ops, cov-polyline-intersects; edge-pair-thresholds (edge target against a one-edge index in 8 orientations, limits between consecutive exact vertex-to-edge distances: Distance, IsDistanceLess, IsDistanceGreater).",
 "C18": "Sub-checks added later: cov-edge-centroid, cov-planar-centroid, cov-polyline-centroid, cov-fan-revert (loops whose fan origin returns to vertex 0), cov-special-loops, cov-cap / cov-rect (Area, Centroid), cov-cell-area, cov-cellunion-area, loop-reuse-histories; catalogue class band (loops larger than a hemisphere that avoid both poles).",
 "C19": "Sub-checks added later: S1-expanded-near-full (margins (2 pi - Length)/2 +- 6 ulps on generic endpoints), cov-* (remaining exported operations of the six types on the same alphabets), CHORD-near-supplementary (x on a 1/512 lattice and whole degrees, y = 4-x minus 0..8 ulps: Add and Cap.Expanded stay valid).",
 "C20": "Sub-checks added later: snap-declared (the four declared quantities of every snapper), snap-sites-cellid / snap-sites-intlatlng (distinct snap sites are at least MinVertexSeparation apart, exact distances), snap-inverse, projection-api.",
}
COMMON = " After the property's own lattice, its operations are also issued by 2-3 goroutines at once (concurrent-use panels: private inputs, and for Loop/Polygon/ShapeIndex properties one shared value): every schedule up to a preemption bound chosen from the panel size, each execution in a fresh process of a binary whose accesses to all pointer-reachable and package-level memory of package s2 feed a vector-clock happens-before check (slices handed to copy / encoding/binary / io / sort report their elements too); answers must equal the serial answers."

PLANNED = {  # not yet claimed: each gets a reason in not_applicable until its check is committed
}

ALL = ["C%02d" % i for i in range(1, 21)]

def main():
    head = subprocess.run(["git", "-C", "/repo", "log", "--format=%H %s"], capture_output=True, text=True).stdout.splitlines()
    hook_commits = [l.split()[0] for l in head if " verif hooks:" in l]
    checks = []
    for pid in ALL:
        if pid not in CLAIMED: continue
        c = CLAIMED[pid]
        checks.append({
            "property_id": pid,
            "quick_cmd": f"bash /verif/bin/check {pid} quick",
            "thorough_cmd": f"bash /verif/bin/check {pid} thorough",
            "evidence_file": f"/verif/evidence/{pid}.json",
            "replay_cmd_template": "bash /verif/bin/replay {path}",
            "engine": c["engine"],
            "level_claimed": {"category": c["level"], "text": c["text"] + (" " + EXTRA[pid] if pid in EXTRA else "") + (COMMON if pid not in ("C14",) else ""), "design_ref": c["design"]},
            "level_note": c["note"],
            "technique": c["technique"],
        })
    na = [{"property_id": p, "reason": PLANNED.get(p, "check not built yet in this tree (planned as bounded-exhaustive enumeration, DESIGN.md §6); not claimed until its check is committed")} for p in ALL if p not in CLAIMED]
    m = {
        "version": 1,
        "setup_cmd": "bash /verif/bin/setup.sh",
        "hooks": {
            "guard": "go build tag `verif`",
            "enable": "go build -tags verif -overlay <generated overlay.json> (bin/check does this; the overlay swaps sync and sync/atomic for the controlled shims under /verif/shim without touching /repo)",
            "baseline_off_cmd": "bash /verif/bin/baseline_off.sh",
            "source_commits": hook_commits,
            "add_only": True,
        },
        "engines": [
            {"name": "E1 sched", "path": "/verif/mc/sched + /verif/shim + /verif/mc/checks/util_fresh.go + /verif/mc/cmd/vinstr", "serves_properties": ALL, "kind_free_text": "hand-written controlled cooperative scheduler + preemption-bounded DFS and unbounded state-caching exploration (stateless model checking of the real code)"},
            {"name": "E2 opseq", "path": "/verif/mc/checks/c13.go (+ c03.go, c11.go)", "serves_properties": ["C13", "C03", "C08", "C11"], "kind_free_text": "explicit-state breadth-first search over operation histories, every transition calls the real method"},
            {"name": "E3 enum", "path": "/verif/mc/checks", "serves_properties": ["C01","C02","C04","C05","C06","C07","C09","C10","C12","C16","C17","C18","C19","C20"], "kind_free_text": "bounded-exhaustive enumeration of finite input lattices against exact reference models"},
            {"name": "E4 faults", "path": "/verif/mc/checks/c15.go", "serves_properties": ["C15"], "kind_free_text": "exhaustive byte-fault enumeration over a corpus of valid encodings, decoders run in worker sub-processes"},
        ],
        "checks": checks,
        "not_applicable": na,
        "notes": "All checks rebuild from /repo's working tree (bin/check). exit 0 = held, 1 = VIOLATION line, 2 = build/harness error. KNOWN_FINDINGS.txt lists recorded defects (finding:) and repaired ones (fixed:).",
    }
    json.dump(m, open("/verif/MANIFEST.json", "w"), indent=1)
    print("MANIFEST.json written:", len(checks), "claimed,", len(na), "not claimed")

main()
