#!/usr/bin/env python3
"""usage: mkpatch.py <out.patch> <repo-relative-file> <<< JSON [[old,new],...]
Creates a unified diff (git apply compatible) that replaces each old snippet (must occur exactly
once) with new in /repo/<file>, without touching /repo."""
import sys, json, difflib
out, rel = sys.argv[1], sys.argv[2]
pairs = json.load(sys.stdin)
src = open('/repo/' + rel).read()
dst = src
for old, new in pairs:
    assert dst.count(old) == 1, (old, dst.count(old))
    dst = dst.replace(old, new)
d = difflib.unified_diff(src.splitlines(True), dst.splitlines(True), 'a/' + rel, 'b/' + rel)
mode = 'a' if len(sys.argv) > 3 and sys.argv[3] == '--append' else 'w'
open(out, mode).write(''.join(d))
