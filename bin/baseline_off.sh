#!/bin/bash
# Runs golang/geo's own test suite with the verif build tag OFF (hooks compiled out).
# Uses -modfile on a scratch copy so that /repo/go.mod is never rewritten.
. /verif/bin/env.sh
B=/verif/build/baseline.$$
mkdir -p "$B"; trap 'rm -rf "$B"' EXIT
cp /repo/go.mod "$B/go.mod"; cp /repo/go.sum "$B/go.sum"
cd /repo || exit 2
go test -modfile="$B/go.mod" -json -vet=off -count=1 -timeout 25m ./... > "$B/out.json" 2>"$B/err.txt"
rc=$?
python3 - "$B/out.json" <<'PY'
import json,sys
p=f=0; failed=[]
for line in open(sys.argv[1]):
    try: e=json.loads(line)
    except Exception: continue
    if e.get('Test') and e.get('Action') in('pass','fail'):
        if e['Action']=='pass': p+=1
        else: f+=1; failed.append(e['Package']+'::'+e['Test'])
print(f"baseline (guard off): passed={p} failed={f}")
for t in failed: print("FAILED", t)
PY
cat "$B/err.txt" | head -20
exit $rc
