#!/opt/veriftools/pyvenv/bin/python
import json, jsonschema, glob, sys
jsonschema.validate(json.load(open('/verif/MANIFEST.json')), json.load(open('/root/.vp/MANIFEST.schema.json')))
es = json.load(open('/root/.vp/EVIDENCE.schema.json'))
bad = 0
for f in sorted(glob.glob('/verif/evidence/*.json')):
    try:
        jsonschema.validate(json.load(open(f)), es)
    except Exception as e:
        bad += 1; print("INVALID", f, str(e)[:300])
print("manifest valid; evidence files checked:", len(glob.glob('/verif/evidence/*.json')), "invalid:", bad)
sys.exit(1 if bad else 0)
