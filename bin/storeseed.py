#!/usr/bin/env python3
"""usage: bin/storeseed.py <scratch-seed-dir> <Cxx> <round> "<detection note>"
Copies a confirmed independently seeded change (patch.diff, demo/, meta.json, VERIFY.txt written by
bin/seedverify) to /verif/seeded/<Cxx>-r<round>/ and removes the scratch worktree."""
import json, os, shutil, subprocess, sys
src, pid, rnd, note = sys.argv[1:5]
d = f'/verif/seeded/{pid}-r{rnd}'
os.makedirs(d, exist_ok=True)
shutil.copy(src + '/patch.diff', d + '/patch.diff')
if os.path.exists(d + '/demo'): shutil.rmtree(d + '/demo')
shutil.copytree(src + '/demo', d + '/demo')
v = open(src + '/VERIFY.txt').read() if os.path.exists(src + '/VERIFY.txt') else ''
open(d + '/VERIFY-initial.txt', 'w').write(v)
m = json.load(open(src + '/meta.json'))
m['property'] = pid
m['origin'] = f'independent sub-agent given only the property text and a scratch worktree (round {rnd})'
m['confirmed_by_me'] = {'how': "bin/seedverify: scratch worktree of /repo HEAD; demo passes on the unchanged tree; with patch.diff applied golang/geo's own suite passes and the demo fails", 'log': v.splitlines()}
m['first_run_of_my_checks'] = [l for l in v.splitlines() if l.startswith('check ')]
m['detection'] = note
json.dump(m, open(d + '/meta.json', 'w'), indent=1)
subprocess.run(['git', '-C', '/repo', 'worktree', 'remove', '--force', src + '/repo'])
subprocess.run(['git', '-C', '/repo', 'worktree', 'prune'])
shutil.rmtree(src, ignore_errors=True)
print('stored', d, m['first_run_of_my_checks'])
