#!/bin/bash
# usage: bin/run_all.sh <quick|thorough> [Cxx ...]   runs the checks one after another, prints one line each
tier=${1:-quick}; shift
props="$@"; [ -z "$props" ] && props=$(seq -f "C%02g" 1 20)
mkdir -p /verif/evidence/thorough
for p in $props; do
  s=$(date +%s)
  out=$(timeout 7200 bash /verif/bin/check $p $tier 2>&1); rc=$?
  e=$(( $(date +%s) - s ))
  echo "$p $tier exit=$rc ${e}s | $(echo "$out" | grep -E "^$p $tier:" | tail -1) $(echo "$out" | grep -c '^VIOLATION') viol $(echo "$out" | grep -c '^KNOWN-FINDING') known"
  [ $rc -ne 0 ] && echo "$out" | grep -A2 '^VIOLATION' | head -12 | cut -c1-240
  [ "$tier" = thorough ] && cp /verif/evidence/$p.json /verif/evidence/thorough/$p.json 2>/dev/null
done
