# Environment for every go invocation of the verification machinery.
export GOFLAGS=-mod=mod GOPROXY=off GOSUMDB=off GOTOOLCHAIN=local
export VERIF_ROOT=/verif
export VERIF_REPO=${VERIF_REPO:-/repo}
