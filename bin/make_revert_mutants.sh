#!/bin/bash
# Writes, for every "fix:" commit in /repo, the reverse patch as /verif/mutants/revert_<short>_<slug>.patch
# (a ready-made property-breaking change: re-introduces the repaired defect).
cd /repo || exit 2
git log --format='%h %s' | grep ' fix: ' | while read h rest; do
  slug=$(echo "$rest" | sed 's/^fix: //' | tr 'A-Z' 'a-z' | tr -c 'a-z0-9' '_' | cut -c1-50 | sed 's/_*$//')
  git diff "$h" "$h~1" > "/verif/mutants/revert_${h}_${slug}.patch"
done
ls /verif/mutants/revert_* | wc -l
