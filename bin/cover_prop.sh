#!/bin/bash
# usage: bin/cover_prop.sh Cxx   -> uncovered blocks of the property's anchor files (needs build/cover/Cxx.txt)
p=$1
rx=$(python3 -c "
import json,sys
for l in open('/verif/properties.jsonl'):
    d=json.loads(l)
    if d['id']=='$p': print('|'.join(f.replace('.','\\\\.')+'\$' for f in d['anchors']['files']))
")
python3 /verif/bin/cover_report.py "$rx" /verif/build/cover/$p.txt
