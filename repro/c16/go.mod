module c16repro

go 1.21.0

toolchain go1.23.5

require github.com/golang/geo v0.0.0

replace github.com/golang/geo => /repo
