// Stand-alone reproducer for the C16 findings (public API of golang/geo only).
//
//	cd /verif/repro/c16 && GOFLAGS=-mod=mod GOPROXY=off go run .
//
// Every pair below satisfies the documented precondition of s2.Intersection
// (s2.CrossingSign(a0,a1,b0,b1) == s2.Cross, printed for each case) and all
// inputs are unit length (Point.IsUnit).
package main

import (
	"fmt"
	"math"

	"github.com/golang/geo/r3"
	"github.com/golang/geo/s2"
)

func P(x, y, z float64) s2.Point { return s2.Point{Vector: r3.Vector{X: x, Y: y, Z: z}} }
func LL(lat, lng float64) s2.Point {
	return s2.PointFromLatLng(s2.LatLngFromDegrees(lat, lng))
}

func show(name string, a0, a1, b0, b1 s2.Point, want string) {
	fmt.Printf("\n%s\n  a0=%g a1=%g\n  b0=%g b1=%g\n", name, a0.Vector, a1.Vector, b0.Vector, b1.Vector)
	fmt.Printf("  unit: %v %v %v %v   CrossingSign=%v\n", a0.IsUnit(), a1.IsUnit(), b0.IsUnit(), b1.IsUnit(), s2.CrossingSign(a0, a1, b0, b1))
	r1 := s2.Intersection(a0, a1, b0, b1)
	r2 := s2.Intersection(b0, b1, a0, a1)
	r3 := s2.Intersection(a1, a0, b0, b1)
	fmt.Printf("  Intersection(a0,a1,b0,b1) = %g  |v|^2=%g\n", r1.Vector, r1.Norm2())
	fmt.Printf("  Intersection(b0,b1,a0,a1) = %g\n", r2.Vector)
	fmt.Printf("  Intersection(a1,a0,b0,b1) = %g\n", r3.Vector)
	fmt.Printf("  expected: %s\n", want)
}

func main() {
	// F1: exactly collinear, overlapping edges on the equator (z == 0 exactly).
	// Documented: Intersection(c,d,a,b) == Intersection(a,b,c,d); intersectionExact's comment:
	// "Of those two we return the one that is lexicographically smallest".
	show("F1 collinear edges on the equator: result depends on the argument order",
		LL(0, 0), LL(0, 20), LL(0, 10), LL(0, 30),
		"the same point for all three calls (the lexicographically smaller of (0,20) and (0,10))")
	show("F1' collinear edges on the prime meridian (y == 0 exactly)",
		LL(10, 0), LL(40, 0), LL(20, 0), LL(60, 0),
		"the same point for all three calls")

	// F2: the exact fallback converts (a0 x a1) x (b0 x b1) to float64 without rescaling.
	// A 2-radian edge in the plane z=0 crossed at its midpoint (0,1,0) by an edge of length 2e-200.
	c, s := math.Cos(1), math.Sin(1)
	h := 1e-200
	show("F2 long edge x tiny edge: result is an endpoint of the long edge, 1 radian from the crossing",
		P(-s, c, 0), P(s, c, 0), P(-h*c, 1, h*s), P(h*c, 1, -h*s),
		"(0,1,0) within 8.9e-16 rad")
	h = 1e-300
	show("F2' two perpendicular edges of length 2e-300 crossing at (0,1,0): result (10,10,10)",
		P(0, 1, -h), P(0, 1, h), P(-h, 1, 0), P(h, 1, 0),
		"a unit-length point within 8.9e-16 rad of (0,1,0)")

	// F3: the stable path has no guard against underflow of |x|^2 (the C++ guard is a TODO in the port).
	h = 1e-160
	show("F3 two edges of length 2e-160 crossing at 1e-3 rad: NaN/Inf result",
		P(1, -h, 0), P(1, h, 0), P(1, -h*math.Cos(1e-3), -h*math.Sin(1e-3)), P(1, h*math.Cos(1e-3), h*math.Sin(1e-3)),
		"a unit-length point within 8.9e-16 rad of (1,0,0)")
}
