// Stand-alone reproducer for the C17 findings (public API of golang/geo only).
//
//	cd /verif/repro/c17 && GOFLAGS=-mod=mod GOPROXY=off go run .
package main

import (
	"fmt"

	"github.com/golang/geo/r3"
	"github.com/golang/geo/s1"
	"github.com/golang/geo/s2"
)

func P(x, y, z float64) s2.Point { return s2.Point{Vector: r3.Vector{X: x, Y: y, Z: z}} }

func main() {
	// G1: the vertex case of updateMinDistance does not clamp the squared chord length to 4
	// (ChordAngleBetweenPoints and the C++ S1ChordAngle::FromLength2 do).  For x = -a and a
	// normalized point a whose float64 norm is a hair above 1, |x-a|^2 = 4|a|^2 > 4.
	n := 0
	for lat := -80.0; lat <= 80 && n < 3; lat += 0.5 {
		for lng := -170.0; lng <= 170 && n < 3; lng += 0.5 {
			a := s2.PointFromLatLng(s2.LatLngFromDegrees(lat, lng))
			b := s2.PointFromLatLng(s2.LatLngFromDegrees(lat, lng+1e-6))
			x := s2.Point{Vector: a.Mul(-1)}
			d, _ := s2.UpdateMinDistance(x, a, b, s1.InfChordAngle())
			th := s2.DistanceFromSegment(x, a, b)
			if th != th { // NaN
				n++
				fmt.Printf("G1 a=LatLng(%v,%v) b=LatLng(%v,%v) x=-a: UpdateMinDistance=%.17g (valid range [0,4]); DistanceFromSegment=%v; want pi within 1e-7\n", lat, lng, lat, lng+1e-6, float64(d), th)
				fmt.Printf("   unit: %v %v %v; ChordAngleBetweenPoints(x,a)=%.17g\n", a.IsUnit(), b.IsUnit(), x.IsUnit(), float64(s2.ChordAngleBetweenPoints(x, a)))
			}
		}
	}

	// G2: endpoints that differ only far below one ulp of 1: PointCross(a,b) is non-zero but its
	// norm underflows, so Interpolate divides 0 by 0; Angle underflows, so DistanceFraction is 0/0.
	a, b := P(1, 0, 0), P(1, 1e-170, 0)
	fmt.Printf("G2 a=%g b=%g (distinct, unit: %v %v)\n   Interpolate(0.5,a,b)=%v  want a point within 1e-15 of a\n   DistanceFraction(a,a,b)=%v  want 0\n",
		a.Vector, b.Vector, a.IsUnit(), b.IsUnit(), s2.Interpolate(0.5, a, b).Vector, s2.DistanceFraction(a, a, b))
	// G3: for an edge a few ulps long (here a and b are the same direction, different floats) and x
	// next to the antipode of a, the wedge test of interiorDist is decided by rounding noise: the
	// "interior" distance ~0 is returned although every point of the edge is ~pi away.
	{
		a, b := P(0.5773502691896258, 0.5773502691896258, 0.5773502691896258), P(0.5773502691896257, 0.5773502691896257, 0.5773502691896257)
		x := P(-0.5773502691896257, -0.577350269189626, -0.5773502691896258)
		d, _ := s2.UpdateMinDistance(x, a, b, s1.InfChordAngle())
		fmt.Printf("G3 a=%g b=%g x=%g (unit: %v %v %v)\n   UpdateMinDistance=%g DistanceFromSegment=%v  x.Distance(a)=%v x.Distance(b)=%v  want pi within 1e-7\n   IsDistanceLess(x,a,b,1e-20)=%v  want false\n",
			a.Vector, b.Vector, x.Vector, a.IsUnit(), b.IsUnit(), x.IsUnit(), float64(d), s2.DistanceFromSegment(x, a, b), x.Distance(a), x.Distance(b), s2.IsDistanceLess(x, a, b, 1e-20))
	}
	pl := s2.Polyline{a, b}
	p, next := pl.Interpolate(0.5)
	fmt.Printf("   Polyline{a,b}.Validate()=%v  Interpolate(0.5)=(%v,%d)  Uninterpolate(a,1)=%v\n", pl.Validate(), p.Vector, next, pl.Uninterpolate(a, 1))
}
