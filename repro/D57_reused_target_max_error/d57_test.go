package s2

// D57: a ShapeIndex distance target that an earlier threshold test used keeps maxError = 180 degrees
// in its inner query; a later exact FindEdges with the same target object returns edges that are not
// the closest ones.  Copy into s2/ and run: go test -run TestD57 ./s2/
// Fails on 923e854, passes from ca366e5 on.

import (
	"fmt"
	"testing"

	"github.com/golang/geo/s1"
)

func d57Index() *ShapeIndex {
	ix := NewShapeIndex()
	var ll []LatLng
	for i := 0; i < 40; i++ {
		ll = append(ll, LatLngFromDegrees(-2+0.7*float64(i), 1+0.55*float64(i)))
	}
	ix.Add(PolylineFromLatLngs(ll))
	pl := Polyline{PointFromLatLng(LatLngFromDegrees(11.5, 31)), PointFromLatLng(LatLngFromDegrees(12, 31.5))}
	ix.Add(&pl)
	return ix
}

func d57Target() *MinDistanceToShapeIndexTarget {
	t := NewShapeIndex()
	pl := Polyline{PointFromLatLng(LatLngFromDegrees(11, 32)), PointFromLatLng(LatLngFromDegrees(14, 30)), PointFromLatLng(LatLngFromDegrees(9, 27))}
	t.Add(&pl)
	pv := PointVector{PointFromLatLng(LatLngFromDegrees(-5, -9))}
	t.Add(&pv)
	return NewMinDistanceToShapeIndexTarget(t)
}

func d57Find(t *MinDistanceToShapeIndexTarget) string {
	q := NewClosestEdgeQuery(d57Index(), NewClosestEdgeQueryOptions().MaxResults(4))
	s := ""
	for _, r := range q.FindEdges(t) {
		s += fmt.Sprintf("%d/%d@%v ", r.ShapeID(), r.EdgeID(), float64(r.Distance()))
	}
	return s
}

func TestD57ReusedTargetKeepsMaxError(t *testing.T) {
	want := d57Find(d57Target())
	used := d57Target()
	NewClosestEdgeQuery(d57Index(), NewClosestEdgeQueryOptions()).IsDistanceLess(used, s1.ChordAngleFromAngle(1*s1.Degree))
	if got := d57Find(used); got != want {
		t.Errorf("FindEdges with a target that an earlier IsDistanceLess used:\n got  %s\n want %s", got, want)
	}
}
