package refmodel

// Cube model of the S2 cell decomposition (DESIGN.md §5 "Cube model").
//
// Cells are integer squares on a cube face, mapped to integer boxes on the
// surface of the cube [-2^30,2^30]^3, so that "contains", "touches", "shares an
// edge" are integer interval tests that stay valid across cube edges and
// corners.  The Hilbert curve is the naive level-by-level recursion; the only
// inputs taken from the specification are
//   - the canonical visiting order of the four quadrants (0,0),(0,1),(1,1),(1,0),
//   - the rule that the first sub-square is transposed, the last one
//     anti-transposed and the two middle ones keep the orientation,
//   - odd faces start transposed,
//   - the (face,u,v) -> (x,y,z) axis assignment,
//   - the quadratic s -> u transform.
// Nothing in this file calls golang/geo's cell code (r3.Vector is used as a
// plain triple of float64).

import (
	"fmt"
	"math"
	"math/big"
	"sort"

	"github.com/golang/geo/r3"

	"verif/mc/exact"
)

const (
	CubeMaxLevel = 30
	CubeMaxSize  = 1 << CubeMaxLevel // leaf cells per face edge
	cubeW        = int64(1) << CubeMaxLevel
	HSwap        = 1
	HInvert      = 2
)

var hilbertCanon = [4][2]int{{0, 0}, {0, 1}, {1, 1}, {1, 0}}
var hilbertChildFlip = [4]int{HSwap, 0, 0, HSwap | HInvert}

// HilbertChildIJ returns the quadrant (i,j) visited at traversal position pos
// by a curve of the given orientation.
func HilbertChildIJ(orient, pos int) (i, j int) {
	i, j = hilbertCanon[pos][0], hilbertCanon[pos][1]
	if orient&HSwap != 0 {
		i, j = j, i
	}
	if orient&HInvert != 0 {
		i, j = 1-i, 1-j
	}
	return i, j
}

// HilbertChildOrient returns the orientation of the sub-curve at position pos.
func HilbertChildOrient(orient, pos int) int { return orient ^ hilbertChildFlip[pos] }

// CubeCell is a cell of the model.
type CubeCell struct {
	Face, Level int
	Idx         uint64 // base-4 digits = child positions from the face cell down
	I0, J0      int    // smallest leaf coordinates of the cell
	Orient      int
}

// Size is the edge length in leaf cells.
func (c CubeCell) Size() int { return 1 << uint(CubeMaxLevel-c.Level) }

// CubeCellFromIdx runs the naive recursion down the child positions in idx.
func CubeCellFromIdx(face, level int, idx uint64) CubeCell {
	c := CubeCell{Face: face, Level: level, Idx: idx, Orient: face & 1}
	for l := 1; l <= level; l++ {
		pos := int(idx>>uint(2*(level-l))) & 3
		di, dj := HilbertChildIJ(c.Orient, pos)
		half := 1 << uint(CubeMaxLevel-l)
		c.I0 += di * half
		c.J0 += dj * half
		c.Orient = HilbertChildOrient(c.Orient, pos)
	}
	return c
}

// CubeCellFromIJ is the inverse: the level-`level` cell containing leaf (i,j).
func CubeCellFromIJ(face, level, i, j int) CubeCell {
	c := CubeCell{Face: face, Level: level, Orient: face & 1}
	for l := 1; l <= level; l++ {
		sh := uint(CubeMaxLevel - l)
		di, dj := (i>>sh)&1, (j>>sh)&1
		pos := -1
		for k := 0; k < 4; k++ {
			a, b := HilbertChildIJ(c.Orient, k)
			if a == di && b == dj {
				pos = k
			}
		}
		c.Idx = c.Idx<<2 | uint64(pos)
		c.I0 += di << sh
		c.J0 += dj << sh
		c.Orient = HilbertChildOrient(c.Orient, pos)
	}
	return c
}

// CellsAtLevel is the number of cells of one level on the whole sphere.
func CellsAtLevel(level int) uint64 { return 6 << uint(2*level) }

// Global is the position of the cell among all cells of its level.
func (c CubeCell) Global() uint64 { return uint64(c.Face)<<uint(2*c.Level) + c.Idx }

// CubeCellFromGlobal is the n-th cell of a level (0 <= n < CellsAtLevel).
func CubeCellFromGlobal(level int, n uint64) CubeCell {
	return CubeCellFromIdx(int(n>>uint(2*level)), level, n&(1<<uint(2*level)-1))
}

// IDFromGlobal is the documented id encoding of the n-th cell of a level: face
// (3 bits), 2 bits per level, a 1 bit, zeros.  n may equal CellsAtLevel (the
// "end" id).
func IDFromGlobal(level int, n uint64) uint64 {
	sh := uint(2 * (CubeMaxLevel - level))
	return n<<(sh+1) | 1<<sh
}

// ID returns the 64-bit id.
func (c CubeCell) ID() uint64 { return IDFromGlobal(c.Level, c.Global()) }

// LeafRange returns the ids of the first and last leaf cell of the cell.
func (c CubeCell) LeafRange() (lo, hi uint64) {
	d := uint(2 * (CubeMaxLevel - c.Level))
	first := c.Global() << d
	last := first + (1<<d - 1)
	return IDFromGlobal(CubeMaxLevel, first), IDFromGlobal(CubeMaxLevel, last)
}

// Ancestor returns the ancestor at the given level (<= c.Level).
func (c CubeCell) Ancestor(level int) CubeCell {
	return CubeCellFromIdx(c.Face, level, c.Idx>>uint(2*(c.Level-level)))
}

// Child returns the child at traversal position pos.
func (c CubeCell) Child(pos int) CubeCell {
	return CubeCellFromIdx(c.Face, c.Level+1, c.Idx<<2|uint64(pos))
}

// DecodeCellID decodes a 64-bit id by its documented layout.
func DecodeCellID(id uint64) (face, level int, idx uint64, ok bool) {
	if id == 0 {
		return 0, 0, 0, false
	}
	tz := 0
	for id>>uint(tz)&1 == 0 {
		tz++
	}
	if tz&1 != 0 || tz > 60 {
		return 0, 0, 0, false
	}
	face = int(id >> 61)
	if face > 5 {
		return 0, 0, 0, false
	}
	level = CubeMaxLevel - tz/2
	idx = (id & (1<<61 - 1)) >> uint(tz+1)
	return face, level, idx, true
}

// CubeCellFromID decodes and runs the recursion.
func CubeCellFromID(id uint64) (CubeCell, bool) {
	f, l, idx, ok := DecodeCellID(id)
	if !ok {
		return CubeCell{}, false
	}
	return CubeCellFromIdx(f, l, idx), true
}

// String is the "f/dddd" form.
func (c CubeCell) String() string {
	b := []byte{byte('0' + c.Face), '/'}
	for l := 1; l <= c.Level; l++ {
		b = append(b, byte('0'+(c.Idx>>uint(2*(c.Level-l)))&3))
	}
	return string(b)
}

// Token is the hex form of the id without trailing zeros.
func (c CubeCell) Token() string {
	const hex = "0123456789abcdef"
	id := c.ID()
	var b []byte
	for k := 15; k >= 0; k-- {
		b = append(b, hex[(id>>uint(4*k))&15])
	}
	n := len(b)
	for n > 0 && b[n-1] == '0' {
		n--
	}
	return string(b[:n])
}

// ---- integer 3-D geometry on the cube surface ------------------------------

// P3 is a point of the cube surface; coordinates are 2*ij - 2^30 so that leaf
// boundaries are even and leaf-edge midpoints odd; the face plane is at ±2^30.
type P3 [3]int64

// CubeFaceUVW maps face coordinates to xyz (the documented axis assignment).
func CubeFaceUVW(face int, u, v, w int64) P3 {
	switch face {
	case 0:
		return P3{w, u, v}
	case 1:
		return P3{-u, w, v}
	case 2:
		return P3{-u, -v, w}
	case 3:
		return P3{-w, -v, -u}
	case 4:
		return P3{v, -w, -u}
	}
	return P3{v, u, -w}
}

// cubeToUVW is the inverse of CubeFaceUVW.
func cubeToUVW(face int, p P3) (u, v, w int64) {
	switch face {
	case 0:
		return p[1], p[2], p[0]
	case 1:
		return -p[0], p[2], p[1]
	case 2:
		return -p[0], -p[1], p[2]
	case 3:
		return -p[2], -p[1], -p[0]
	case 4:
		return -p[2], p[0], -p[1]
	}
	return p[1], p[0], -p[2]
}

// FloatToUVW is the same axis assignment on float vectors (exact: permutation and sign).
func FloatToUVW(face int, p r3.Vector) (u, v, w float64) {
	switch face {
	case 0:
		return p.Y, p.Z, p.X
	case 1:
		return -p.X, p.Z, p.Y
	case 2:
		return -p.X, -p.Y, p.Z
	case 3:
		return -p.Z, -p.Y, -p.X
	case 4:
		return -p.Z, p.X, -p.Y
	}
	return p.Y, p.X, -p.Z
}

// FloatFromUVW is the inverse of FloatToUVW.
func FloatFromUVW(face int, u, v, w float64) r3.Vector {
	switch face {
	case 0:
		return r3.Vector{X: w, Y: u, Z: v}
	case 1:
		return r3.Vector{X: -u, Y: w, Z: v}
	case 2:
		return r3.Vector{X: -u, Y: -v, Z: w}
	case 3:
		return r3.Vector{X: -w, Y: -v, Z: -u}
	case 4:
		return r3.Vector{X: v, Y: -w, Z: -u}
	}
	return r3.Vector{X: v, Y: u, Z: -w}
}

// Box3 is a closed axis-parallel box.
type Box3 struct{ Lo, Hi P3 }

func ijToC(i int) int64 { return 2*int64(i) - cubeW }

// Box returns the cell as a (flat) box on the cube surface.
func (c CubeCell) Box() Box3 {
	a := CubeFaceUVW(c.Face, ijToC(c.I0), ijToC(c.J0), cubeW)
	b := CubeFaceUVW(c.Face, ijToC(c.I0+c.Size()), ijToC(c.J0+c.Size()), cubeW)
	var r Box3
	for k := 0; k < 3; k++ {
		r.Lo[k], r.Hi[k] = a[k], b[k]
		if r.Lo[k] > r.Hi[k] {
			r.Lo[k], r.Hi[k] = r.Hi[k], r.Lo[k]
		}
	}
	return r
}

// VertexP3 returns corner k (0: lower left, then counter-clockwise in (i,j)).
func (c CubeCell) VertexP3(k int) P3 {
	i, j := c.I0, c.J0
	if k == 1 || k == 2 {
		i += c.Size()
	}
	if k == 2 || k == 3 {
		j += c.Size()
	}
	return CubeFaceUVW(c.Face, ijToC(i), ijToC(j), cubeW)
}

// EdgeMidP3 returns the midpoint of edge k (0 bottom j=J0, 1 right, 2 top, 3 left).
func (c CubeCell) EdgeMidP3(k int) P3 {
	s := int64(c.Size())
	u0, v0 := ijToC(c.I0), ijToC(c.J0)
	switch k {
	case 0:
		return CubeFaceUVW(c.Face, u0+s, v0, cubeW)
	case 1:
		return CubeFaceUVW(c.Face, u0+2*s, v0+s, cubeW)
	case 2:
		return CubeFaceUVW(c.Face, u0+s, v0+2*s, cubeW)
	}
	return CubeFaceUVW(c.Face, u0, v0+s, cubeW)
}

// Relation returns the dimension of the intersection of the two closed cells:
// -1 disjoint, 0 a point, 1 a segment (len = its length in P3 units), 2 an area.
func Relation(a, b CubeCell) (dim int, length int64) {
	x, y := a.Box(), b.Box()
	dim = 0
	for k := 0; k < 3; k++ {
		lo, hi := x.Lo[k], x.Hi[k]
		if y.Lo[k] > lo {
			lo = y.Lo[k]
		}
		if y.Hi[k] < hi {
			hi = y.Hi[k]
		}
		if hi < lo {
			return -1, 0
		}
		if hi > lo {
			dim++
			length = hi - lo
		}
	}
	return dim, length
}

// ContainsCell reports whether b lies within a (same face, ij ranges nested).
func (a CubeCell) ContainsCell(b CubeCell) bool {
	return a.Face == b.Face && a.I0 <= b.I0 && b.I0+b.Size() <= a.I0+a.Size() &&
		a.J0 <= b.J0 && b.J0+b.Size() <= a.J0+a.Size()
}

// CellsAtPoint returns every cell of the given level whose closed square
// contains the surface point p.
func CellsAtPoint(p P3, level int) []CubeCell {
	var out []CubeCell
	size := int64(1) << uint(CubeMaxLevel-level)
	n := int64(1) << uint(level)
	for f := 0; f < 6; f++ {
		u, v, w := cubeToUVW(f, p)
		if w != cubeW || u < -cubeW || u > cubeW || v < -cubeW || v > cubeW {
			continue
		}
		cand := func(x int64) []int64 {
			d := x + cubeW // 0 .. 2^31, cell width 2*size
			k := d / (2 * size)
			var r []int64
			if k < n {
				r = append(r, k)
			}
			if d%(2*size) == 0 && k > 0 {
				r = append(r, k-1)
			}
			return r
		}
		for _, ki := range cand(u) {
			for _, kj := range cand(v) {
				out = append(out, CubeCellFromIJ(f, level, int(ki*size), int(kj*size)))
			}
		}
	}
	return out
}

// ExpectedEdgeNeighbor returns the cell of the same level across edge k.
func ExpectedEdgeNeighbor(c CubeCell, k int) (CubeCell, error) {
	var res []CubeCell
	for _, x := range CellsAtPoint(c.EdgeMidP3(k), c.Level) {
		if x.ID() != c.ID() {
			res = append(res, x)
		}
	}
	if len(res) != 1 {
		return CubeCell{}, fmt.Errorf("cube model: %d cells across edge %d of %s", len(res), k, c)
	}
	return res[0], nil
}

// ClosestVertexP3 returns the vertex of c's level-`level` ancestor that is
// closest to c (level < c.Level).
func ClosestVertexP3(c CubeCell, level int) P3 {
	a := c.Ancestor(level)
	half := a.Size() / 2
	i, j := a.I0, a.J0
	if c.I0-a.I0 >= half {
		i += a.Size()
	}
	if c.J0-a.J0 >= half {
		j += a.Size()
	}
	return CubeFaceUVW(c.Face, ijToC(i), ijToC(j), cubeW)
}

// ExpectedAllNeighbors returns the set (sorted by id) of all cells of level nl
// (>= c.Level) that touch c without lying inside it.
func ExpectedAllNeighbors(c CubeCell, nl int) []CubeCell {
	ns := int64(1) << uint(CubeMaxLevel-nl) // half a neighbour cell in P3 units
	seen := map[uint64]CubeCell{}
	u0, v0 := ijToC(c.I0), ijToC(c.J0)
	s2 := 2 * int64(c.Size())
	add := func(u, v int64) {
		for _, x := range CellsAtPoint(CubeFaceUVW(c.Face, u, v, cubeW), nl) {
			if !c.ContainsCell(x) {
				seen[x.ID()] = x
			}
		}
	}
	for t := int64(0); t <= s2; t += ns {
		add(u0+t, v0)
		add(u0+t, v0+s2)
		add(u0, v0+t)
		add(u0+s2, v0+t)
	}
	var out []CubeCell
	for _, x := range seen {
		out = append(out, x)
	}
	sort.Slice(out, func(i, j int) bool { return out[i].ID() < out[j].ID() })
	return out
}

// HilbertEntryExit returns, for a curve orientation, the corner (as 0/1 in i
// and j) where the curve enters and where it leaves a square.
func HilbertEntryExit(orient int) (ei, ej, xi, xj int) {
	const depth = 6
	walk := func(pos int) (int, int) {
		o, i, j := orient, 0, 0
		for l := 0; l < depth; l++ {
			di, dj := HilbertChildIJ(o, pos)
			i, j = 2*i+di, 2*j+dj
			o = HilbertChildOrient(o, pos)
		}
		return i, j
	}
	corner := func(x int) int {
		switch x {
		case 0:
			return 0
		case 1<<depth - 1:
			return 1
		}
		panic("cube model: curve does not start/end in a corner")
	}
	a, b := walk(0)
	c, d := walk(3)
	return corner(a), corner(b), corner(c), corner(d)
}

// EntryP3 / ExitP3: the corner where the curve enters / leaves the cell.
func (c CubeCell) EntryP3() P3 {
	ei, ej, _, _ := HilbertEntryExit(c.Orient)
	return CubeFaceUVW(c.Face, ijToC(c.I0+ei*c.Size()), ijToC(c.J0+ej*c.Size()), cubeW)
}

func (c CubeCell) ExitP3() P3 {
	_, _, xi, xj := HilbertEntryExit(c.Orient)
	return CubeFaceUVW(c.Face, ijToC(c.I0+xi*c.Size()), ijToC(c.J0+xj*c.Size()), cubeW)
}

// EntryExitIJ returns the entry and exit corners in leaf coordinates on the cell's face.
func (c CubeCell) EntryExitIJ() (ei, ej, xi, xj int) {
	a, b, p, q := HilbertEntryExit(c.Orient)
	return c.I0 + a*c.Size(), c.J0 + b*c.Size(), c.I0 + p*c.Size(), c.J0 + q*c.Size()
}

// ---- exact (u,v) coordinates ---------------------------------------------------

// UV3 returns 3*u exactly for the cell boundary s = i/2^30, u = quadratic(s).
func UV3(i int) exact.S {
	one := new(big.Int).Lsh(big.NewInt(1), 60)
	if i >= CubeMaxSize/2 {
		m := new(big.Int).Mul(big.NewInt(int64(i)), big.NewInt(int64(i)))
		m.Lsh(m, 2)
		m.Sub(m, one)
		return exact.S{M: m, E: -60}
	}
	k := int64(CubeMaxSize - i)
	m := new(big.Int).Mul(big.NewInt(k), big.NewInt(k))
	m.Lsh(m, 2)
	m.Sub(one, m)
	return exact.S{M: m, E: -60}
}

// SiTi3 returns 3*u exactly for s = si/2^31.
func SiTi3(si int64) exact.S {
	one := new(big.Int).Lsh(big.NewInt(1), 62)
	if si >= 1<<30 {
		m := new(big.Int).Mul(big.NewInt(si), big.NewInt(si))
		m.Lsh(m, 2)
		m.Sub(m, one)
		return exact.S{M: m, E: -62}
	}
	k := int64(1<<31) - si
	m := new(big.Int).Mul(big.NewInt(k), big.NewInt(k))
	m.Lsh(m, 2)
	m.Sub(one, m)
	return exact.S{M: m, E: -62}
}

// UVFloat is the nearest float64 to the exact u of boundary i.
func UVFloat(i int) float64 {
	f := UV3(i).Big(200)
	f.Quo(f, big.NewFloat(3).SetPrec(200))
	v, _ := f.Float64()
	return v
}

// OnFace reports whether the direction p lies on the closed cube face (its
// w-component is positive and not smaller than |u| and |v|).
func OnFace(face int, p r3.Vector) bool {
	u, v, w := FloatToUVW(face, p)
	return w > 0 && math.Abs(u) <= w && math.Abs(v) <= w
}

// uvFloatFast is the float evaluation of the quadratic transform at s = i/2^30
// (absolute error below 4e-16; used only to decide comparisons that are not close).
func uvFloatFast(i int) float64 {
	s := float64(i) / CubeMaxSize
	if s >= 0.5 {
		return (4*s*s - 1) / 3
	}
	return (1 - 4*(1-s)*(1-s)) / 3
}

// cmpBoundary compares the exact coordinate q/w (w>0) with u(i)+tol: returns
// sign(q/w - (u(i)+tol)).  Comparisons that differ by more than 1e-15 in float
// arithmetic (whose total error is below 6e-16 for |q/w| <= 1) are decided in
// float; everything closer is decided exactly.
func cmpBoundary(q, w float64, i int, tol float64) int {
	if a := math.Abs(q); a <= w {
		d := q/w - (uvFloatFast(i) + tol)
		if d > 1e-15 {
			return 1
		}
		if d < -1e-15 {
			return -1
		}
	}
	// 3q  vs  (3u(i) + 3tol) * w
	lhs := exact.FromFloat(q).Mul(exact.Int(3))
	b := UV3(i)
	if tol != 0 {
		b = b.Add(exact.FromFloat(tol).Mul(exact.Int(3)))
	}
	return lhs.Cmp(b.Mul(exact.FromFloat(w)))
}

// CmpBoundaryExact returns sign(q - (u(i)+tol)) with no float shortcut.
func CmpBoundaryExact(q float64, i int, tol float64) int {
	b := UV3(i)
	if tol != 0 {
		b = b.Add(exact.FromFloat(tol).Mul(exact.Int(3)))
	}
	return exact.FromFloat(q).Mul(exact.Int(3)).Cmp(b)
}

// RangeContainsWithin reports whether the direction p, projected on `face`,
// has its exact (u,v) inside [u(i0)-tol, u(i1)+tol] x [u(j0)-tol, u(j1)+tol].
// tol may be negative (strict interior with a margin).  p must have positive w.
func RangeContainsWithin(face, i0, i1, j0, j1 int, p r3.Vector, tol float64) bool {
	u, v, w := FloatToUVW(face, p)
	if !(w > 0) {
		return false
	}
	return cmpBoundary(u, w, i0, -tol) >= 0 && cmpBoundary(u, w, i1, tol) <= 0 &&
		cmpBoundary(v, w, j0, -tol) >= 0 && cmpBoundary(v, w, j1, tol) <= 0
}

// ContainsWithin: exact containment of a direction in the closed cell, widened by tol in (u,v).
func (c CubeCell) ContainsWithin(p r3.Vector, tol float64) bool {
	return RangeContainsWithin(c.Face, c.I0, c.I0+c.Size(), c.J0, c.J0+c.Size(), p, tol)
}

// BoundaryProximity reports whether the exact (u,v) of p on the cell's face is
// within tol of one of the four boundary lines of the cell (as lines, in u or v).
func (c CubeCell) BoundaryProximity(p r3.Vector, tol float64) bool {
	u, v, w := FloatToUVW(c.Face, p)
	if !(w > 0) {
		return false
	}
	near := func(q float64, i int) bool {
		return cmpBoundary(q, w, i, -tol) >= 0 && cmpBoundary(q, w, i, tol) <= 0
	}
	return near(u, c.I0) || near(u, c.I0+c.Size()) || near(v, c.J0) || near(v, c.J0+c.Size())
}

// ExactLeafIndex returns the range [lo,hi] of leaf indices whose closed
// interval contains the exact coordinate q/w (w>0, |q|<=w); hi=lo+1 when the
// coordinate is exactly a leaf boundary.
func ExactLeafIndex(q, w float64) (lo, hi int) {
	u := q / w
	var s float64
	if u >= 0 {
		s = 0.5 * math.Sqrt(1+3*u)
	} else {
		s = 1 - 0.5*math.Sqrt(1-3*u)
	}
	i := int(math.Floor(s * CubeMaxSize))
	if i < 0 {
		i = 0
	}
	if i > CubeMaxSize-1 {
		i = CubeMaxSize - 1
	}
	for i > 0 && cmpBoundary(q, w, i, 0) < 0 {
		i--
	}
	for i < CubeMaxSize-1 && cmpBoundary(q, w, i+1, 0) > 0 {
		i++
	}
	lo, hi = i, i
	if i > 0 && cmpBoundary(q, w, i, 0) == 0 {
		lo = i - 1
	}
	if i < CubeMaxSize-1 && cmpBoundary(q, w, i+1, 0) == 0 {
		hi = i + 1
	}
	return lo, hi
}

// ---- self test -----------------------------------------------------------------

// SelfTestCubeModel checks, without calling golang/geo, that the recursion is a
// bijection between positions and (i,j) at every level <= maxLevel, that the
// forward and inverse recursions agree, that consecutive cells along the curve
// (including across faces and from face 5 back to face 0) share a full edge,
// and that each cell's exit corner is the next cell's entry corner.
func SelfTestCubeModel(maxLevel int) error {
	for L := 0; L <= maxLevel; L++ {
		n := 1 << uint(L)
		total := CellsAtLevel(L)
		var prev CubeCell
		for g := uint64(0); g <= total; g++ {
			c := CubeCellFromGlobal(L, g%total)
			if g < total {
				if c.I0%c.Size() != 0 || c.J0%c.Size() != 0 || c.I0 < 0 || c.I0/c.Size() >= n || c.J0 < 0 || c.J0/c.Size() >= n {
					return fmt.Errorf("level %d cell %d: bad ij %d,%d", L, g, c.I0, c.J0)
				}
				inv := CubeCellFromIJ(c.Face, L, c.I0+c.Size()-1, c.J0)
				if inv != c {
					return fmt.Errorf("level %d cell %d: inverse recursion gives %+v, want %+v", L, g, inv, c)
				}
				if d, ok := CubeCellFromID(c.ID()); !ok || d != c {
					return fmt.Errorf("level %d cell %d: id decode mismatch", L, g)
				}
			}
			if g > 0 {
				dim, ln := Relation(prev, c)
				if dim != 1 || ln != 2*int64(c.Size()) {
					return fmt.Errorf("level %d: cells %d and %d do not share a full edge (dim %d len %d)", L, g-1, g%total, dim, ln)
				}
				if prev.ExitP3() != c.EntryP3() {
					return fmt.Errorf("level %d: exit corner of cell %d is not the entry corner of cell %d", L, g-1, g%total)
				}
			}
			prev = c
		}
		// bijection: distinct (face,i,j)
		seen := make(map[[3]int]bool, total)
		for g := uint64(0); g < total; g++ {
			c := CubeCellFromGlobal(L, g)
			k := [3]int{c.Face, c.I0, c.J0}
			if seen[k] {
				return fmt.Errorf("level %d: (face,i,j) %v visited twice", L, k)
			}
			seen[k] = true
		}
		if uint64(len(seen)) != total {
			return fmt.Errorf("level %d: %d distinct cells, want %d", L, len(seen), total)
		}
	}
	// every surface vertex of level 2 has 4 cells, cube corners 3; edge midpoints 2
	for g := uint64(0); g < CellsAtLevel(2); g++ {
		c := CubeCellFromGlobal(2, g)
		for k := 0; k < 4; k++ {
			nv := len(CellsAtPoint(c.VertexP3(k), 2))
			p := c.VertexP3(k)
			corner := abs64(p[0]) == cubeW && abs64(p[1]) == cubeW && abs64(p[2]) == cubeW
			if (corner && nv != 3) || (!corner && nv != 4) {
				return fmt.Errorf("vertex %v of %s has %d cells", p, c, nv)
			}
			if ne := len(CellsAtPoint(c.EdgeMidP3(k), 2)); ne != 2 {
				return fmt.Errorf("edge midpoint %d of %s has %d cells", k, c, ne)
			}
		}
		if nb := len(ExpectedAllNeighbors(c, 2)); nb != 8 && nb != 7 {
			return fmt.Errorf("%s has %d neighbours", c, nb)
		}
	}
	// exact boundary values: monotone, odd symmetric, ±1 at the ends, 0 in the middle
	if UV3(0).Cmp(exact.Int(-3)) != 0 || UV3(CubeMaxSize).Cmp(exact.Int(3)) != 0 || UV3(CubeMaxSize/2).Sign() != 0 {
		return fmt.Errorf("UV3 end values wrong")
	}
	for _, i := range []int{1, 2, 1 << 10, 1<<29 - 1, 1 << 29, 1<<29 + 1, 1<<30 - 1} {
		if UV3(i).Add(UV3(CubeMaxSize-i)).Sign() != 0 || UV3(i).Cmp(UV3(i-1)) <= 0 {
			return fmt.Errorf("UV3 not odd/monotone at %d", i)
		}
		if SiTi3(2*int64(i)).Cmp(UV3(i)) != 0 {
			return fmt.Errorf("SiTi3/UV3 disagree at %d", i)
		}
	}
	return nil
}

func abs64(x int64) int64 {
	if x < 0 {
		return -x
	}
	return x
}
