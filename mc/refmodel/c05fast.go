package refmodel

// Float-filtered version of the exact reference containment (used by the C05 and
// C10 checks, which judge millions of probes): identical definition to Loop, with
// a rigorous float64 filter in front of the exact orientation signs.

import (
	"github.com/golang/geo/s2"
)

// FastSign is the exact orientation sign with symbolic perturbation.  The float64
// determinant of three (nearly) unit vectors has an absolute error below 2.3e-15,
// so a value beyond 1e-13 has the sign of the exact determinant; everything else is
// decided by the exact reference model.
func FastSign(a, b, c s2.Point) int {
	det := a.X*(b.Y*c.Z-b.Z*c.Y) + a.Y*(b.Z*c.X-b.X*c.Z) + a.Z*(b.X*c.Y-b.Y*c.X)
	if det > 1e-13 {
		return 1
	}
	if det < -1e-13 {
		return -1
	}
	return SoSSign(a, b, c)
}

// FastLoop is the reference model of a loop (same definition as Loop:
// parity of exact crossings of origin->p, origin containment from the documented
// vertex-1 rule), with the float filter above in front of the exact signs.
type FastLoop struct {
	V            []s2.Point
	OriginInside bool
}

func NewFastLoop(v []s2.Point) *FastLoop {
	l := &FastLoop{V: v}
	if len(v) < 3 {
		l.OriginInside = len(v) == 1 && v[0].Z < 0
		return l
	}
	v1Inside := v[0] != v[1] && v[2] != v[1] && AngleContainsVertex(v[0], v[1], v[2])
	if v1Inside != l.Contains(v[1]) {
		l.OriginInside = true
	}
	return l
}

func (l *FastLoop) Contains(p s2.Point) bool {
	inside := l.OriginInside
	n := len(l.V)
	if n < 3 {
		return inside
	}
	o := s2.OriginPoint()
	// s[i] = sign(o, v[i], p); an edge (c,d) can cross o->p only if c and d are on
	// opposite sides of the line o-p.
	prev := FastSign(o, l.V[0], p)
	first := prev
	for i := 0; i < n; i++ {
		c := l.V[i]
		d := l.V[(i+1)%n]
		var sd int
		if i+1 < n {
			sd = FastSign(o, d, p)
		} else {
			sd = first
		}
		sc := prev
		prev = sd
		if sc == 0 || sd == 0 {
			// a vertex coincides with p or with the origin: the documented vertex rule
			if EdgeOrVertexCrossing(o, p, c, d) {
				inside = !inside
			}
			continue
		}
		if sc == sd {
			continue
		}
		// sign(a,c,b) = sc with a=o, b=p.  Crossing iff sign(c,b,d) == sign(b,d,a) == sign(d,a,c) == sc,
		// and sign(b,d,a) = -sign(a,d,b) = -sd == sc already holds.
		if FastSign(c, p, d) != sc {
			continue
		}
		if FastSign(d, o, c) != sc {
			continue
		}
		inside = !inside
	}
	return inside
}

// FastPolygon is the XOR of its loops.
type FastPolygon []*FastLoop

func (pg FastPolygon) Contains(p s2.Point) bool {
	in := false
	for _, l := range pg {
		if l.Contains(p) {
			in = !in
		}
	}
	return in
}
