package refmodel

// Reference geometry of cells for C12: a cell is the spherical quadrilateral
// whose corners are the directions (face, u(i), v(j), 1) of the cube model, with
// u, v the floats nearest to the exact quadratic transform.  Distances are
// angles between directions; cross and dot products are evaluated exactly
// (package exact) and only the final square roots / atan2 are rounded, so the
// reference error is a few 1e-16 radians.  Nothing here calls golang/geo's
// cell or distance code.

import (
	"math"
	"math/big"

	"github.com/golang/geo/r3"
	"github.com/golang/geo/s2"

	"verif/mc/exact"
)

const geomPrec = 96 // bits kept in the final square roots and quotients (products and sums before them are exact)

func bigSqrt(s exact.S) *big.Float {
	f := s.Big(geomPrec)
	if f.Sign() <= 0 {
		return new(big.Float).SetPrec(geomPrec)
	}
	return new(big.Float).SetPrec(geomPrec).Sqrt(f)
}

func ratio(num, den *big.Float) float64 {
	if den.Sign() == 0 {
		return 0
	}
	q := new(big.Float).SetPrec(geomPrec).Quo(num, den)
	v, _ := q.Float64()
	return v
}

// AngleExact returns the angle between two non-zero directions.
func AngleExact(a, b r3.Vector) float64 { return angleE(exact.FromVector(a), exact.FromVector(b)) }

func angleE(ea, eb exact.V) float64 {
	cr := ea.Cross(eb)
	den := bigSqrt(ea.Norm2().Mul(eb.Norm2()))
	sin := ratio(bigSqrt(cr.Norm2()), den)
	cos := ratio(ea.Dot(eb).Big(geomPrec), den)
	return math.Atan2(sin, cos)
}

// AngleFloat is the float64 version (error a few 1e-16), for the bulk
// never-closer / never-farther inequalities.
func AngleFloat(a, b r3.Vector) float64 {
	return math.Atan2(a.Cross(b).Norm(), a.Dot(b))
}

// DistPointEdge returns the angle from direction p to the geodesic segment ab
// (a and b not antipodal).
func DistPointEdge(p, a, b r3.Vector) float64 {
	ea, eb := exact.FromVector(a), exact.FromVector(b)
	return distPointEdgeE(exact.FromVector(p), ea, eb, ea.Cross(eb))
}

// distPointEdgeE: n must be a x b.
func distPointEdgeE(ep, ea, eb, n exact.V) float64 {
	if n.IsZero() {
		return angleE(ep, ea)
	}
	pn := ep.Cross(n)
	// det(a,p,n) = a.(p x n) and det(p,b,n) = -b.(p x n)
	if ea.Dot(pn).Sign() >= 0 && eb.Dot(pn).Sign() <= 0 {
		// closest point is interior to the arc: angle to the plane
		den := bigSqrt(ep.Norm2().Mul(n.Norm2()))
		d := ep.Dot(n)
		if d.Sign() < 0 {
			d = d.Neg()
		}
		sin := ratio(d.Big(geomPrec), den)
		cos := ratio(bigSqrt(pn.Norm2()), den)
		return math.Atan2(sin, cos)
	}
	return math.Min(angleE(ep, ea), angleE(ep, eb))
}

// DistPointEdgeFloat is the float64 version (bulk inequalities only).
func DistPointEdgeFloat(p, a, b r3.Vector) float64 {
	// (a-b)x(a+b) = 2 axb keeps its relative accuracy when a and b are close
	n := a.Sub(b).Cross(a.Add(b))
	if n.Norm2() == 0 {
		return AngleFloat(p, a)
	}
	if a.Cross(p).Dot(n) >= 0 && p.Cross(b).Dot(n) >= 0 {
		return math.Atan2(math.Abs(p.Dot(n)), p.Cross(n).Norm())
	}
	return math.Min(AngleFloat(p, a), AngleFloat(p, b))
}

// RefCell is the reference quadrilateral of a cube-model cell.
type RefCell struct {
	M      CubeCell
	ULo    float64
	UHi    float64
	VLo    float64
	VHi    float64
	V      [4]r3.Vector // corners, counter-clockwise from (lo,lo); not normalised
	Center r3.Vector    // direction of the (s,t)-centre
	ev     [4]exact.V   // the corners exactly
	en     [4]exact.V   // ev[k] x ev[k+1]
}

// NewRefCell builds the reference cell.
func NewRefCell(m CubeCell) RefCell {
	r := RefCell{M: m, ULo: UVFloat(m.I0), UHi: UVFloat(m.I0 + m.Size()), VLo: UVFloat(m.J0), VHi: UVFloat(m.J0 + m.Size())}
	r.V[0] = FloatFromUVW(m.Face, r.ULo, r.VLo, 1)
	r.V[1] = FloatFromUVW(m.Face, r.UHi, r.VLo, 1)
	r.V[2] = FloatFromUVW(m.Face, r.UHi, r.VHi, 1)
	r.V[3] = FloatFromUVW(m.Face, r.ULo, r.VHi, 1)
	r.Center = FloatFromUVW(m.Face, SiTiFloat(2*int64(m.I0)+int64(m.Size())), SiTiFloat(2*int64(m.J0)+int64(m.Size())), 1)
	for k := 0; k < 4; k++ {
		r.ev[k] = exact.FromVector(r.V[k])
	}
	for k := 0; k < 4; k++ {
		r.en[k] = r.ev[k].Cross(r.ev[(k+1)&3])
	}
	return r
}

// SiTiFloat is the nearest float to the exact u of s = si/2^31.
func SiTiFloat(si int64) float64 {
	f := SiTi3(si).Big(geomPrec)
	f.Quo(f, big.NewFloat(3).SetPrec(geomPrec))
	v, _ := f.Float64()
	return v
}

// Antipode returns the reference cell of the antipodal cell (face+3, i and j exchanged).
func (r RefCell) Antipode() RefCell {
	return NewRefCell(CubeCellFromIJ((r.M.Face+3)%6, r.M.Level, r.M.J0, r.M.I0))
}

// Inside: exact closed containment of direction p, widened by tol in (u,v) (tol may be negative).
func (r RefCell) Inside(p r3.Vector, tol float64) bool { return r.M.ContainsWithin(p, tol) }

// BoundaryDist is the angle from p to the nearest point of the four edges.
func (r RefCell) BoundaryDist(p r3.Vector) float64 {
	d := math.Inf(1)
	ep := exact.FromVector(p)
	for k := 0; k < 4; k++ {
		d = math.Min(d, distPointEdgeE(ep, r.ev[k], r.ev[(k+1)&3], r.en[k]))
	}
	return d
}

// Dist is the angle from p to the closed cell.
func (r RefCell) Dist(p r3.Vector) float64 {
	if r.Inside(p, 0) {
		return 0
	}
	return r.BoundaryDist(p)
}

// MaxDist is the largest angle from p to a point of the closed cell.
func (r RefCell) MaxDist(p r3.Vector) float64 { return math.Pi - r.Dist(p.Mul(-1)) }

// Crosses reports whether segment ab meets the boundary of the cell (exact
// crossing test against the reference corners, shared endpoints count).
func (r RefCell) Crosses(a, b r3.Vector) bool {
	for k := 0; k < 4; k++ {
		if CrossingSign(s2.Point{Vector: a}, s2.Point{Vector: b}, s2.Point{Vector: r.V[k]}, s2.Point{Vector: r.V[(k+1)&3]}) >= 0 {
			return true
		}
	}
	return false
}

// DistToEdge is the angle between the closed cell and segment ab (a != ±b).
func (r RefCell) DistToEdge(a, b r3.Vector) float64 {
	if r.Inside(a, 0) || r.Inside(b, 0) || r.Crosses(a, b) {
		return 0
	}
	d := math.Min(r.BoundaryDist(a), r.BoundaryDist(b))
	ea, eb := exact.FromVector(a), exact.FromVector(b)
	n := ea.Cross(eb)
	for k := 0; k < 4; k++ {
		d = math.Min(d, distPointEdgeE(r.ev[k], ea, eb, n))
	}
	return d
}

// MaxDistToEdge is the largest angle between a point of the cell and a point of ab.
func (r RefCell) MaxDistToEdge(a, b r3.Vector) float64 {
	return math.Pi - r.DistToEdge(a.Mul(-1), b.Mul(-1))
}

// DistToCell is the angle between two closed cells.
func (r RefCell) DistToCell(o RefCell) float64 {
	if dim, _ := Relation(r.M, o.M); dim >= 0 {
		return 0
	}
	d := math.Inf(1)
	for i := 0; i < 4; i++ {
		for j := 0; j < 4; j++ {
			d = math.Min(d, distPointEdgeE(r.ev[i], o.ev[j], o.ev[(j+1)&3], o.en[j]))
			d = math.Min(d, distPointEdgeE(o.ev[i], r.ev[j], r.ev[(j+1)&3], r.en[j]))
		}
	}
	return d
}

// MaxDistToCell is the largest angle between points of the two cells.
func (r RefCell) MaxDistToCell(o RefCell) float64 { return math.Pi - r.DistToCell(o.Antipode()) }

// Grid returns (n+1)^2 directions of the closed cell: the (u,v) rectangle is
// sampled at k/n, the four corners being exactly the reference corners.
func (r RefCell) Grid(n int) []r3.Vector {
	out := make([]r3.Vector, 0, (n+1)*(n+1))
	at := func(lo, hi float64, k int) float64 {
		if k == 0 {
			return lo
		}
		if k == n {
			return hi
		}
		x := lo + (hi-lo)*float64(k)/float64(n)
		return math.Max(lo, math.Min(hi, x))
	}
	for a := 0; a <= n; a++ {
		for b := 0; b <= n; b++ {
			out = append(out, FloatFromUVW(r.M.Face, at(r.ULo, r.UHi, a), at(r.VLo, r.VHi, b), 1))
		}
	}
	return out
}

// BoundaryGrid returns 4n directions on the boundary of the cell.
func (r RefCell) BoundaryGrid(n int) []r3.Vector {
	var out []r3.Vector
	for k := 0; k < n; k++ {
		t := float64(k) / float64(n)
		u := r.ULo + (r.UHi-r.ULo)*t
		v := r.VLo + (r.VHi-r.VLo)*t
		out = append(out, FloatFromUVW(r.M.Face, u, r.VLo, 1), FloatFromUVW(r.M.Face, r.UHi, v, 1),
			FloatFromUVW(r.M.Face, r.UHi-(r.UHi-r.ULo)*t, r.VHi, 1), FloatFromUVW(r.M.Face, r.ULo, r.VHi-(r.VHi-r.VLo)*t, 1))
	}
	return out
}

// AngleTol is the tolerance (radians) allowed between a distance reported by
// golang/geo's cell code and the reference: a base of 1e-14 plus the two
// documented accuracy losses — the edge-interior formula degrades as the
// distance approaches π/2 ("loses accuracy as angle POQ approaches Pi/2") and a
// chord angle degrades as the distance approaches π — each modelled as
// 4e-15 / cos(.) and capped at 2e-7 (the square root of the rounding unit).
func AngleTol(d float64) float64 {
	return 1e-14 + 4e-15/math.Max(math.Abs(math.Cos(d)), 2e-8) + 4e-15/math.Max(math.Abs(math.Cos(d/2)), 2e-8)
}

// SelfTestCellGeom checks the geometry helpers on configurations with known answers.
func SelfTestCellGeom() error {
	x, y, z := r3.Vector{X: 1}, r3.Vector{Y: 1}, r3.Vector{Z: 1}
	near := func(a, b float64) bool { return math.Abs(a-b) < 1e-15 }
	type tc struct {
		got, want float64
		name      string
	}
	d := r3.Vector{X: 1, Y: 1}
	for _, t := range []tc{
		{AngleExact(x, y), math.Pi / 2, "angle x,y"},
		{AngleExact(x, x.Mul(-3)), math.Pi, "angle x,-x"},
		{AngleExact(x, d), math.Pi / 4, "angle x,(1,1,0)"},
		{AngleExact(r3.Vector{X: 1, Y: 1e-200}, x), 1e-200, "tiny angle"},
		{DistPointEdge(z, x, y), math.Pi / 2, "pole to edge"},
		{DistPointEdge(r3.Vector{X: 1, Y: 1, Z: 1}, x, y), math.Atan2(1, math.Sqrt2), "interior projection"},
		{DistPointEdge(r3.Vector{X: 1, Y: -1}, x, y), math.Pi / 4, "endpoint a"},
		{DistPointEdge(r3.Vector{X: -1, Y: 1}, x, y), math.Pi / 4, "endpoint b"},
		{DistPointEdge(r3.Vector{X: -1, Y: -1}, x, y), 3 * math.Pi / 4, "far side"},
		{DistPointEdgeFloat(r3.Vector{X: 1, Y: 1, Z: 1}, x, y), math.Atan2(1, math.Sqrt2), "float interior"},
		{DistPointEdgeFloat(r3.Vector{X: -1, Y: -1}, x, y), 3 * math.Pi / 4, "float far side"},
	} {
		if !near(t.got, t.want) {
			return errString("cell geometry self-test: " + t.name)
		}
	}
	// face cell 0: centre inside, distance to the x axis point 0, to -x pi - atan(sqrt 2)... (corner distance)
	f0 := NewRefCell(CubeCellFromIdx(0, 0, 0))
	if f0.Dist(x) != 0 || !near(f0.BoundaryDist(x), math.Pi/4) || !near(f0.MaxDist(x), math.Atan(math.Sqrt2)) {
		return errString("cell geometry self-test: face cell distances")
	}
	if !near(f0.Dist(y), math.Pi/4) || !near(f0.MaxDist(x.Mul(-1)), math.Pi) {
		return errString("cell geometry self-test: face cell distances 2")
	}
	f3 := NewRefCell(CubeCellFromIdx(3, 0, 0))
	if !near(f0.DistToCell(f3), math.Acos(1/3.)) || f0.MaxDistToCell(f3) != math.Pi || f0.DistToCell(NewRefCell(CubeCellFromIdx(1, 0, 0))) != 0 {
		return errString("cell geometry self-test: face cell to cell")
	}
	if f0.Antipode().M != f3.M {
		return errString("cell geometry self-test: antipode")
	}
	return nil
}

type errString string

func (e errString) Error() string { return string(e) }
