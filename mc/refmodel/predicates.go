// Package refmodel holds the reference models (oracles) of the enumerating
// checks.  Everything here is computed with exact integer arithmetic from the
// documented definitions and does not call golang/geo's predicates.
package refmodel

import (
	"sort"

	"github.com/golang/geo/r3"
	"github.com/golang/geo/s2"

	"verif/mc/exact"
)

func cmpVec(a, b r3.Vector) int {
	switch {
	case a.X != b.X:
		if a.X < b.X {
			return -1
		}
		return 1
	case a.Y != b.Y:
		if a.Y < b.Y {
			return -1
		}
		return 1
	case a.Z != b.Z:
		if a.Z < b.Z {
			return -1
		}
		return 1
	}
	return 0
}

// ExactDetSign is the sign of the exact determinant (no perturbation).
func ExactDetSign(a, b, c s2.Point) int { return exact.DetSign(a.Vector, b.Vector, c.Vector) }

// SoSSign is the sign of det[a;b;c] under the documented symbolic perturbation:
// every point gets an infinitesimal perturbation, lexicographically smaller
// points get infinitely larger ones, and within a point dZ >> dY >> dX.  It is
// computed from the definition: the perturbed determinant is expanded as a
// polynomial in eps (perturbation of rank r is eps^(2^r)); the sign is that of
// the coefficient of the smallest power of eps that does not vanish.  Returns 0
// iff two of the points are identical.
func SoSSign(a, b, c s2.Point) int {
	if a == b || b == c || a == c {
		return 0
	}
	if s := ExactDetSign(a, b, c); s != 0 {
		return s
	}
	pts := []s2.Point{a, b, c}
	perm := 1
	// sort lexicographically, tracking the permutation sign
	for i := 0; i < 3; i++ {
		for j := 0; j+1 < 3-i; j++ {
			if cmpVec(pts[j].Vector, pts[j+1].Vector) > 0 {
				pts[j], pts[j+1] = pts[j+1], pts[j]
				perm = -perm
			}
		}
	}
	var m [3][3]exact.S
	for i := 0; i < 3; i++ {
		m[i][0] = exact.FromFloat(pts[i].X)
		m[i][1] = exact.FromFloat(pts[i].Y)
		m[i][2] = exact.FromFloat(pts[i].Z)
	}
	// weight (power of two exponent of eps) of the perturbation of row i, column j:
	// da.Z=1, da.Y=2, da.X=4, db.Z=8, db.Y=16, db.X=32, dc.Z=64, dc.Y=128, dc.X=256
	w := func(i, j int) int { return 1 << uint(3*i+(2-j)) }
	perms := [][3]int{{0, 1, 2}, {1, 2, 0}, {2, 0, 1}, {0, 2, 1}, {2, 1, 0}, {1, 0, 2}}
	sgn := []int{1, 1, 1, -1, -1, -1}
	coef := map[int]exact.S{}
	for pi, p := range perms {
		for mask := 0; mask < 8; mask++ { // rows taking the perturbation term
			e := 0
			term := exact.Int(int64(sgn[pi]))
			for i := 0; i < 3; i++ {
				if mask&(1<<uint(i)) != 0 {
					e += w(i, p[i])
				} else {
					term = term.Mul(m[i][p[i]])
				}
			}
			if old, ok := coef[e]; ok {
				coef[e] = old.Add(term)
			} else {
				coef[e] = term
			}
		}
	}
	var keys []int
	for k := range coef {
		keys = append(keys, k)
	}
	sort.Ints(keys)
	for _, k := range keys {
		if s := coef[k].Sign(); s != 0 {
			return perm * s
		}
	}
	panic("refmodel: perturbed determinant vanishes identically")
}

// Crossing results, numerically equal to s2.Crossing.
const (
	DoNotCross = -1
	MaybeCross = 0
	Cross      = 1
)

// CrossingSign is the documented four-orientation criterion on exact signs.
func CrossingSign(a, b, c, d s2.Point) int {
	if a == c || a == d || b == c || b == d {
		return MaybeCross
	}
	if a == b || c == d {
		return DoNotCross
	}
	acb := SoSSign(a, c, b)
	if SoSSign(c, b, d) != acb || SoSSign(b, d, a) != acb || SoSSign(d, a, c) != acb {
		return DoNotCross
	}
	return Cross
}

// OrderedCCW follows the documented definition with exact signs.
func OrderedCCW(a, b, c, o s2.Point) bool {
	sum := 0
	if SoSSign(b, o, a) != -1 {
		sum++
	}
	if SoSSign(c, o, b) != -1 {
		sum++
	}
	if SoSSign(a, o, c) == 1 {
		sum++
	}
	return sum >= 2
}

// VertexCrossing is the documented shared-vertex rule: AB "crosses" CD iff AB is
// encountered after CD in a CCW sweep around the shared vertex starting from the
// fixed reference direction of that vertex.
func VertexCrossing(a, b, c, d s2.Point) bool {
	if a == b || c == d {
		return false
	}
	switch {
	case a == c:
		return b == d || OrderedCCW(s2.Ortho(a), d, b, a)
	case b == d:
		return OrderedCCW(s2.Ortho(b), c, a, b)
	case a == d:
		return b == c || OrderedCCW(s2.Ortho(a), c, b, a)
	case b == c:
		return OrderedCCW(s2.Ortho(b), d, a, b)
	}
	return false
}

// EdgeOrVertexCrossing combines the two.
func EdgeOrVertexCrossing(a, b, c, d s2.Point) bool {
	switch CrossingSign(a, b, c, d) {
	case DoNotCross:
		return false
	case Cross:
		return true
	}
	return VertexCrossing(a, b, c, d)
}

// AngleContainsVertex is the documented vertex rule.
func AngleContainsVertex(a, b, c s2.Point) bool {
	return !OrderedCCW(s2.Ortho(b), c, a, b)
}

// Loop is the reference model of a loop: its vertices and whether it contains
// the fixed origin point, recomputed from the documented vertex-1 rule.
type Loop struct {
	V            []s2.Point
	OriginInside bool
}

// NewLoop builds the reference model of a loop with >= 3 vertices.
func NewLoop(v []s2.Point) *Loop {
	l := &Loop{V: v}
	if len(v) < 3 {
		// the special empty / full loops
		l.OriginInside = len(v) == 1 && v[0].Z < 0
		return l
	}
	v1Inside := v[0] != v[1] && v[2] != v[1] && AngleContainsVertex(v[0], v[1], v[2])
	l.OriginInside = false
	if v1Inside != l.Contains(v[1]) {
		l.OriginInside = true
	}
	return l
}

// Contains is the parity of exact edge crossings of the segment origin->p.
func (l *Loop) Contains(p s2.Point) bool {
	inside := l.OriginInside
	n := len(l.V)
	if n < 3 {
		return inside
	}
	o := s2.OriginPoint()
	for i := 0; i < n; i++ {
		if EdgeOrVertexCrossing(o, p, l.V[i], l.V[(i+1)%n]) {
			inside = !inside
		}
	}
	return inside
}

// PolygonContains is the XOR over loops.
func PolygonContains(loops []*Loop, p s2.Point) bool {
	in := false
	for _, l := range loops {
		if l.Contains(p) {
			in = !in
		}
	}
	return in
}

// LoopOf builds the reference model from an s2.Loop's vertices.
func LoopOf(l *s2.Loop) *Loop { return NewLoop(append([]s2.Point(nil), l.Vertices()...)) }
