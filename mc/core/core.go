// Package core is the shared harness of all checks: counters, violation
// collection, known-finding matching, replay files and the evidence writer.
package core

import (
	"crypto/sha1"
	"encoding/json"
	"fmt"
	"os"
	"path/filepath"
	"regexp"
	"runtime"
	"runtime/debug"
	"sort"
	"strings"
	"sync"
	"sync/atomic"
	"time"
)

// Root is the verification directory.
var Root = "/verif"

// HarnessError is panicked by checks when the harness itself (not golang/geo) is broken.
type HarnessError string

// Violation is one observed breach of a property.
type Violation struct {
	Prop string `json:"property"`
	Tier string `json:"tier,omitempty"` // the tier whose lattice the case indices refer to
	Sub  string `json:"sub_check"`
	Kind string `json:"kind"` // wrong-answer | panic | deadlock | race | bound-exceeded | nontermination
	// Desc is the canonical descriptor: what fails, at the granularity of a
	// defect.  Known findings are matched against it.
	Desc string `json:"descriptor"`
	// Case identifies the enumerated case (sub-check + integer coordinates).
	Case []int `json:"case,omitempty"`
	// Detail is free-form replay data: inputs, operation list, choice list,
	// expected and observed values.
	Detail any `json:"detail,omitempty"`
	Count  int `json:"count"` // number of cases that produced this descriptor
}

// Ctx is the per-run context handed to a check.
type Ctx struct {
	Prop     string
	Tier     string
	Seed     int64
	Level    string
	Workers  int
	Deadline time.Time
	Start    time.Time

	// Replay mode: only the case (OnlySub, OnlyCase) is evaluated.
	OnlySub      string
	OnlyCase     []int
	ReplayDetail any

	evals      atomic.Int64
	nontrivial atomic.Int64

	mu         sync.Mutex
	samples    []any
	sampleCap  int
	counters   map[string]int64
	notes      map[string]any
	violations map[string]*Violation
	order      []string
	capsHit    []string
	Rule       string
	Assume     []string
	exhaustive bool
	states     int64
	trans      int64
	traces     int64
}

// NewCtx makes a context.
func NewCtx(prop, tier, level string, seed int64) *Ctx {
	w := runtime.NumCPU()
	if w > 16 {
		w = 16
	}
	return &Ctx{Prop: prop, Tier: tier, Level: level, Seed: seed, Workers: w, Start: time.Now(),
		sampleCap: 12, counters: map[string]int64{}, notes: map[string]any{},
		violations: map[string]*Violation{}, exhaustive: true}
}

// Quick reports whether the run is the quick tier.
func (c *Ctx) Quick() bool { return c.Tier != "thorough" }

// Pick returns q in the quick tier and t in the thorough tier.
func Pick[T any](c *Ctx, q, t T) T {
	if c.Quick() {
		return q
	}
	return t
}

// Eval counts n evaluated cases.
func (c *Ctx) Eval(n int) { c.evals.Add(int64(n)) }

// Nontrivial counts n distinct non-trivial cases (per the check's rule).
func (c *Ctx) Nontrivial(n int) { c.nontrivial.Add(int64(n)) }

// Count adds to a named counter (reported under coverage.counters).
func (c *Ctx) Count(name string, n int64) {
	c.mu.Lock()
	c.counters[name] += n
	c.mu.Unlock()
}

// Note records a named value in the evidence.
func (c *Ctx) Note(name string, v any) {
	c.mu.Lock()
	c.notes[name] = v
	c.mu.Unlock()
}

// MC adds model-checking counts.
func (c *Ctx) MC(states, transitions, traces int64) {
	atomic.AddInt64(&c.states, states)
	atomic.AddInt64(&c.trans, transitions)
	atomic.AddInt64(&c.traces, traces)
}

// Sample records an example case (bounded number kept).
func (c *Ctx) Sample(v any) {
	c.mu.Lock()
	if len(c.samples) < c.sampleCap {
		c.samples = append(c.samples, v)
	}
	c.mu.Unlock()
}

// SampleFull reports whether the sample list is already full for the given quota.
func (c *Ctx) NumSamples() int {
	c.mu.Lock()
	defer c.mu.Unlock()
	return len(c.samples)
}

// CapHit records that a cap or internal deadline cut a sub-space short.
func (c *Ctx) CapHit(what string) {
	c.mu.Lock()
	c.capsHit = append(c.capsHit, what)
	c.exhaustive = false
	c.mu.Unlock()
}

// CapsHit reports how many caps / internal deadlines have cut sub-spaces short so far.
func (c *Ctx) CapsHit() int {
	c.mu.Lock()
	defer c.mu.Unlock()
	return len(c.capsHit)
}

// Expired reports whether the tier's wall budget is used up.
func (c *Ctx) Expired() bool { return !c.Deadline.IsZero() && time.Now().After(c.Deadline) }

// Skip reports (in replay mode) whether a case should be skipped.
func (c *Ctx) Skip(sub string, idx ...int) bool {
	if c.OnlySub == "" {
		return false
	}
	if sub != c.OnlySub {
		return true
	}
	if len(c.OnlyCase) == 0 {
		return false
	}
	if len(idx) != len(c.OnlyCase) {
		return true
	}
	for i := range idx {
		if idx[i] != c.OnlyCase[i] {
			return true
		}
	}
	return false
}

// Violate records a violation.  Violations with the same descriptor are merged.
func (c *Ctx) Violate(sub, kind, desc string, cas []int, detail any) {
	c.mu.Lock()
	defer c.mu.Unlock()
	key := sub + "|" + kind + "|" + desc
	if v, ok := c.violations[key]; ok {
		v.Count++
		return
	}
	if len(c.violations) >= 200 {
		return
	}
	c.violations[key] = &Violation{Prop: c.Prop, Tier: c.Tier, Sub: sub, Kind: kind, Desc: desc, Case: append([]int(nil), cas...), Detail: detail, Count: 1}
	c.order = append(c.order, key)
}

// NumViolations returns the number of distinct violations so far.
func (c *Ctx) NumViolations() int {
	c.mu.Lock()
	defer c.mu.Unlock()
	return len(c.violations)
}

// Guard runs f and converts a panic into a violation of kind "panic".
func (c *Ctx) Guard(sub string, cas []int, detail func() any, f func()) {
	defer func() {
		if r := recover(); r != nil {
			var d any
			if detail != nil {
				d = detail()
			}
			c.Violate(sub, "panic", fmt.Sprintf("panic %v at %s", r, GeoFrame(string(debug.Stack()))), cas, d)
		}
	}()
	f()
}

// GeoFrame extracts the innermost golang/geo function from a stack trace.
func GeoFrame(stack string) string {
	for _, line := range strings.Split(stack, "\n") {
		line = strings.TrimSpace(line)
		if strings.HasPrefix(line, "github.com/golang/geo/") && !strings.Contains(line, "verifshim") && !strings.Contains(line, ".Verif") {
			if i := strings.LastIndex(line, "("); i > 0 {
				line = line[:i]
			}
			return strings.TrimPrefix(line, "github.com/golang/geo/")
		}
	}
	return "?"
}

// ParallelFor runs f(i) for i in [0,n) on the context's workers.  Panics inside f
// are not caught here; use Guard.
func (c *Ctx) ParallelFor(n int, f func(i int)) {
	var next atomic.Int64
	var wg sync.WaitGroup
	w := c.Workers
	if w > n {
		w = n
	}
	for k := 0; k < w; k++ {
		wg.Add(1)
		go func() {
			defer wg.Done()
			for {
				i := int(next.Add(1) - 1)
				if i >= n {
					return
				}
				f(i)
			}
		}()
	}
	wg.Wait()
}

type finding struct {
	prop string
	re   *regexp.Regexp
	text string
}

func loadFindings() ([]finding, error) {
	b, err := os.ReadFile(filepath.Join(Root, "KNOWN_FINDINGS.txt"))
	if err != nil {
		if os.IsNotExist(err) {
			return nil, nil
		}
		return nil, err
	}
	var out []finding
	for _, line := range strings.Split(string(b), "\n") {
		line = strings.TrimSpace(line)
		if !strings.HasPrefix(line, "finding:") {
			continue // "fixed:" lines and comments suppress nothing
		}
		rest := strings.TrimSpace(strings.TrimPrefix(line, "finding:"))
		var prop, match string
		f := strings.SplitN(rest, " ", 3)
		if len(f) < 3 || !strings.HasPrefix(f[0], "property=") || !strings.HasPrefix(f[1], "match=") {
			return nil, fmt.Errorf("malformed finding line: %q", line)
		}
		prop = strings.TrimPrefix(f[0], "property=")
		match = strings.TrimPrefix(f[1], "match=")
		re, err := regexp.Compile(match)
		if err != nil {
			return nil, fmt.Errorf("finding regexp %q: %v", match, err)
		}
		out = append(out, finding{prop, re, f[2]})
	}
	return out, nil
}

// Finish classifies violations, writes replay files and the evidence file,
// prints the VIOLATION / KNOWN-FINDING lines and returns the exit code.
func (c *Ctx) Finish() int {
	findings, err := loadFindings()
	if err != nil {
		fmt.Println("HARNESS-ERROR:", err)
		return 2
	}
	c.mu.Lock()
	defer c.mu.Unlock()
	exit := 0
	knownPrinted := map[string]int{}
	var vioOut []map[string]any
	nViol := 0
	for _, key := range c.order {
		v := c.violations[key]
		full := v.Sub + ": " + v.Kind + ": " + v.Desc
		matched := ""
		for _, f := range findings {
			if f.prop == c.Prop && f.re.MatchString(full) {
				matched = f.text
				break
			}
		}
		if matched != "" {
			knownPrinted[matched] += v.Count
			continue
		}
		nViol++
		path := ""
		if c.OnlySub == "" {
			path = c.writeReplay(v)
		} else {
			path = "(replay mode)"
		}
		fmt.Printf("VIOLATION property=%s replay=%s\n", c.Prop, path)
		fmt.Printf("  sub-check=%s kind=%s cases=%d\n  %s\n", v.Sub, v.Kind, v.Count, v.Desc)
		vioOut = append(vioOut, map[string]any{"sub_check": v.Sub, "kind": v.Kind, "descriptor": v.Desc, "cases": v.Count, "replay": path})
		exit = 1
	}
	var kf []string
	for text, n := range knownPrinted {
		kf = append(kf, text)
		_ = n
	}
	sort.Strings(kf)
	for _, text := range kf {
		fmt.Printf("KNOWN-FINDING: property=%s %s (cases=%d)\n", c.Prop, text, knownPrinted[text])
	}
	if c.OnlySub != "" {
		return exit
	}
	cov := map[string]any{
		"evaluations":         c.evals.Load(),
		"distinct_nontrivial": c.nontrivial.Load(),
		"rule":                c.Rule,
		"samples":             c.samples,
		"exhaustive":          c.exhaustive,
		"counters":            c.counters,
	}
	for k, v := range c.notes {
		cov[k] = v
	}
	if len(c.capsHit) > 0 {
		cov["caps_hit"] = c.capsHit
	}
	if c.Level == "model_checking" {
		cov["states"] = c.states
		cov["transitions"] = c.trans
		cov["traces_validated_against_impl"] = c.traces
	}
	if len(kf) > 0 {
		cov["known_findings_reproduced"] = kf
	}
	if len(vioOut) > 0 {
		cov["violation_list"] = vioOut
	}
	if len(c.samples) == 0 {
		cov["samples"] = []any{"(no sample recorded)"}
	}
	ev := map[string]any{
		"property_id": c.Prop,
		"tier":        c.Tier,
		"seed":        c.Seed,
		"level":       c.Level,
		"coverage":    cov,
		"assumptions": c.Assume,
		"wall_s":      time.Since(c.Start).Seconds(),
		"violations":  nViol,
	}
	b, _ := json.MarshalIndent(ev, "", " ")
	dir := filepath.Join(outRoot(), "evidence")
	os.MkdirAll(dir, 0o755)
	if err := os.WriteFile(filepath.Join(dir, c.Prop+".json"), append(b, '\n'), 0o644); err != nil {
		fmt.Println("HARNESS-ERROR: cannot write evidence:", err)
		return 2
	}
	fmt.Printf("%s %s: evaluations=%d nontrivial=%d violations=%d known=%d exhaustive=%v wall=%.1fs\n",
		c.Prop, c.Tier, c.evals.Load(), c.nontrivial.Load(), nViol, len(kf), c.exhaustive, time.Since(c.Start).Seconds())
	return exit
}

func (c *Ctx) writeReplay(v *Violation) string {
	dir := filepath.Join(outRoot(), "replays")
	os.MkdirAll(dir, 0o755)
	h := sha1.Sum([]byte(v.Sub + v.Kind + v.Desc))
	path := filepath.Join(dir, fmt.Sprintf("%s-%x.json", c.Prop, h[:5]))
	b, err := json.MarshalIndent(v, "", " ")
	if err != nil {
		b, _ = json.MarshalIndent(map[string]any{"property": v.Prop, "sub_check": v.Sub, "kind": v.Kind, "descriptor": v.Desc, "case": v.Case, "detail": fmt.Sprint(v.Detail)}, "", " ")
	}
	os.WriteFile(path, append(b, '\n'), 0o644)
	return path
}

// outRoot is where evidence and replay files go: /verif, unless VERIF_OUT
// redirects them (used when the checks are pointed at a scratch copy of the
// repository to try a deliberate property-breaking change).
func outRoot() string {
	if d := os.Getenv("VERIF_OUT"); d != "" {
		return d
	}
	return Root
}

// LoadReplay reads a replay file.
func LoadReplay(path string) (*Violation, error) {
	b, err := os.ReadFile(path)
	if err != nil {
		return nil, err
	}
	var v Violation
	if err := json.Unmarshal(b, &v); err != nil {
		return nil, err
	}
	return &v, nil
}

// CtxDump is what a worker sub-process hands back to the parent check: everything a check
// accumulates in its Ctx (used by checks that run independent parts in separate processes because
// the controlled scheduler allows one execution at a time per process).
type CtxDump struct {
	Evals      int64            `json:"evals"`
	Nontrivial int64            `json:"nontrivial"`
	States     int64            `json:"states"`
	Trans      int64            `json:"trans"`
	Traces     int64            `json:"traces"`
	Counters   map[string]int64 `json:"counters"`
	Samples    []any            `json:"samples"`
	Violations []*Violation     `json:"violations"`
	CapsHit    []string         `json:"caps_hit"`
}

// Export returns the accumulated state of c.
func (c *Ctx) Export() *CtxDump {
	c.mu.Lock()
	defer c.mu.Unlock()
	d := &CtxDump{Evals: c.evals.Load(), Nontrivial: c.nontrivial.Load(), States: atomic.LoadInt64(&c.states), Trans: atomic.LoadInt64(&c.trans),
		Traces: atomic.LoadInt64(&c.traces), Counters: c.counters, Samples: c.samples, CapsHit: c.capsHit}
	for _, k := range c.order {
		d.Violations = append(d.Violations, c.violations[k])
	}
	return d
}

// Import merges a worker's dump into c.
func (c *Ctx) Import(d *CtxDump) {
	c.evals.Add(d.Evals)
	c.nontrivial.Add(d.Nontrivial)
	c.MC(d.States, d.Trans, d.Traces)
	for k, v := range d.Counters {
		c.Count(k, v)
	}
	for _, s := range d.Samples {
		c.Sample(s)
	}
	for _, w := range d.CapsHit {
		c.CapHit(w)
	}
	for _, v := range d.Violations {
		for i := 0; i < v.Count; i++ {
			c.Violate(v.Sub, v.Kind, v.Desc, v.Case, v.Detail)
		}
	}
}
