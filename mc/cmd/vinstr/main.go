// vinstr generates the -overlay file that (a) rewrites the sync / sync/atomic
// imports of golang/geo's non-test sources to the controlled shims and (b) adds
// the shim packages as virtual packages github.com/golang/geo/verifshim/*.
// /repo itself is not touched.
//
// usage: vinstr [-mem] <repo> <shimdir> <outdir>   (writes <outdir>/overlay.json)
//
// With -mem the sources of package s2 are additionally instrumented so that every access to
// memory another goroutine could reach is reported to the scheduler's race check (mem.go).
package main

import (
	"encoding/json"
	"fmt"
	"go/parser"
	"go/token"
	"os"
	"path/filepath"
	"strings"
)

func main() {
	mem := false
	if len(os.Args) > 1 && os.Args[1] == "-mem" {
		mem = true
		os.Args = append(os.Args[:1], os.Args[2:]...)
	}
	if len(os.Args) != 4 {
		fmt.Fprintln(os.Stderr, "usage: vinstr [-mem] <repo> <shimdir> <outdir>")
		os.Exit(2)
	}
	repo, shim, out := os.Args[1], os.Args[2], os.Args[3]
	replace := map[string]string{}
	rewritten := 0
	memText := map[string]string{}
	if mem {
		texts, sites, stats, err := instrumentMem(repo, filepath.Join(repo, "s2"), "github.com/golang/geo/s2")
		if err != nil {
			fmt.Fprintln(os.Stderr, "vinstr -mem:", err)
			os.Exit(2)
		}
		memText = texts
		hook := filepath.Join(out, "src", "s2", "verif_mem_on.go")
		os.MkdirAll(filepath.Dir(hook), 0o755)
		if err := os.WriteFile(hook, []byte(memHookFile(sites)), 0o644); err != nil {
			fmt.Fprintln(os.Stderr, "vinstr:", err)
			os.Exit(2)
		}
		replace[filepath.Join(repo, "s2", "verif_mem_on.go")] = hook
		fmt.Fprintf(os.Stderr, "vinstr -mem: %d files of s2 instrumented, %d read sites, %d write sites\n", len(texts), stats["read"], stats["write"])
	}
	err := filepath.Walk(repo, func(path string, info os.FileInfo, err error) error {
		if err != nil {
			return err
		}
		if info.IsDir() {
			if info.Name() == ".git" {
				return filepath.SkipDir
			}
			return nil
		}
		if !strings.HasSuffix(path, ".go") || strings.HasSuffix(path, "_test.go") || strings.HasPrefix(info.Name(), "verif_") {
			// verif_*.go are the verification hooks themselves (their counters must not become
			// scheduling points)
			return nil
		}
		src, err := os.ReadFile(path)
		if err != nil {
			return err
		}
		instrumented := false
		if t, ok := memText[path]; ok {
			src, instrumented = []byte(t), true
		}
		fset := token.NewFileSet()
		f, err := parser.ParseFile(fset, path, src, parser.ImportsOnly)
		if err != nil {
			return nil // let the compiler report it
		}
		type edit struct {
			start, end int
			text       string
		}
		var edits []edit
		for _, imp := range f.Imports {
			var name, target string
			switch imp.Path.Value {
			case `"sync"`:
				name, target = "sync", "github.com/golang/geo/verifshim/vsync"
			case `"sync/atomic"`:
				name, target = "atomic", "github.com/golang/geo/verifshim/vatomic"
			default:
				continue
			}
			if imp.Name != nil {
				name = imp.Name.Name
			}
			start := fset.Position(imp.Pos()).Offset
			end := fset.Position(imp.End()).Offset
			edits = append(edits, edit{start, end, fmt.Sprintf("%s %q", name, target)})
		}
		if len(edits) == 0 && !instrumented {
			return nil
		}
		res := string(src)
		for i := len(edits) - 1; i >= 0; i-- {
			e := edits[i]
			res = res[:e.start] + e.text + res[e.end:]
		}
		rel, _ := filepath.Rel(repo, path)
		dst := filepath.Join(out, "src", rel)
		os.MkdirAll(filepath.Dir(dst), 0o755)
		if err := os.WriteFile(dst, []byte(res), 0o644); err != nil {
			return err
		}
		replace[path] = dst
		rewritten++
		return nil
	})
	if err != nil {
		fmt.Fprintln(os.Stderr, "vinstr:", err)
		os.Exit(2)
	}
	for _, pkg := range []string{"vsched", "vsync", "vatomic"} {
		files, _ := filepath.Glob(filepath.Join(shim, pkg, "*.go"))
		for _, f := range files {
			replace[filepath.Join(repo, "verifshim", pkg, filepath.Base(f))] = f
		}
	}
	b, _ := json.MarshalIndent(map[string]any{"Replace": replace}, "", " ")
	os.MkdirAll(out, 0o755)
	if err := os.WriteFile(filepath.Join(out, "overlay.json"), b, 0o644); err != nil {
		fmt.Fprintln(os.Stderr, "vinstr:", err)
		os.Exit(2)
	}
	fmt.Fprintf(os.Stderr, "vinstr: %d source file(s) rewritten\n", rewritten)
}
