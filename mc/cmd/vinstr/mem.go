package main

// Full-memory instrumentation (vinstr -mem): every read and write in package s2 that can reach
// memory shared between goroutines — a struct field reached through a pointer, a slice or array
// element reached through a slice / pointer / package-level variable, a pointer indirection, a
// package-level variable — is wrapped in a call that reports the address, the size and a site id
// to the controlled scheduler, which runs the vector-clock happens-before check on it.  Accesses
// whose root is a local (stack) value are not instrumented: no other goroutine can name them.
//
//	x.f        ->  (*verifRd(&x.f, N))          x.f = v   ->  (*verifWr(&x.f, N)) = v
//	a[i]       ->  (*verifRd(&a[i], N))         *p        ->  (*verifRd(p, N))  [as (*verifRd(&*p, N))]
//
// The rewrite is done by text insertion on the original source (positions from go/ast, decisions
// from go/types), so formatting, comments and line numbers are preserved.

import (
	"fmt"
	"go/ast"
	"go/build"
	"go/importer"
	"go/parser"
	"go/token"
	"go/types"
	"os"
	"path/filepath"
	"sort"
	"strings"
)

type insertion struct {
	off   int
	text  string
	open  bool // opening text (prefix) or closing text (suffix)
	other int  // the other end of the wrapped expression (for ordering nested wraps)
	seq   int  // order of creation: of two wraps of the same source range the outer one is created first
}

type memInstr struct {
	fset  *token.FileSet
	info  *types.Info
	pkg   *types.Package
	sites []string
	ins   map[string][]insertion // per file
	src   map[string][]byte
	stats map[string]int
}

// instrumentMem type-checks package dir (import path ipath) with the given build tags and returns
// the rewritten text of every non-hook file plus the site table.
func instrumentMem(repo, dir, ipath string) (map[string]string, []string, map[string]int, error) {
	ctx := build.Default
	ctx.BuildTags = append(ctx.BuildTags, "verif")
	bp, err := ctx.ImportDir(dir, 0)
	if err != nil {
		return nil, nil, nil, err
	}
	fset := token.NewFileSet()
	var files []*ast.File
	m := &memInstr{fset: fset, ins: map[string][]insertion{}, src: map[string][]byte{}, stats: map[string]int{}}
	for _, name := range bp.GoFiles {
		path := filepath.Join(dir, name)
		b, err := os.ReadFile(path)
		if err != nil {
			return nil, nil, nil, err
		}
		f, err := parser.ParseFile(fset, path, b, parser.ParseComments)
		if err != nil {
			return nil, nil, nil, err
		}
		m.src[path] = b
		files = append(files, f)
	}
	m.info = &types.Info{
		Types:      map[ast.Expr]types.TypeAndValue{},
		Uses:       map[*ast.Ident]types.Object{},
		Defs:       map[*ast.Ident]types.Object{},
		Selections: map[*ast.SelectorExpr]*types.Selection{},
	}
	old, _ := os.Getwd()
	os.Chdir(repo)
	conf := types.Config{Importer: importer.ForCompiler(fset, "source", nil)}
	pkg, err := conf.Check(ipath, fset, files, m.info)
	os.Chdir(old)
	if err != nil {
		return nil, nil, nil, fmt.Errorf("type check: %v", err)
	}
	m.pkg = pkg
	out := map[string]string{}
	for _, f := range files {
		path := fset.Position(f.Pos()).Filename
		if strings.HasPrefix(filepath.Base(path), "verif_") {
			continue // the hooks themselves
		}
		for _, d := range f.Decls {
			switch d := d.(type) {
			case *ast.FuncDecl:
				if d.Body != nil {
					m.stmt(d.Body)
				}
			case *ast.GenDecl:
				// package-level initialisers run before any goroutine exists: not instrumented
			}
		}
		out[path] = m.apply(path)
	}
	return out, m.sites, m.stats, nil
}

func (m *memInstr) apply(path string) string {
	ins := m.ins[path]
	src := m.src[path]
	// order: by offset; at one offset closings before openings; among openings the outer expression
	// (larger end) first; among closings the inner expression (larger start) first
	for i := range ins {
		ins[i].seq = i
	}
	sort.SliceStable(ins, func(i, j int) bool {
		a, b := ins[i], ins[j]
		if a.off != b.off {
			return a.off < b.off
		}
		if a.open != b.open {
			return !a.open
		}
		if a.other != b.other {
			return a.other > b.other
		}
		if a.open {
			return a.seq < b.seq
		}
		return a.seq > b.seq
	})
	var sb strings.Builder
	last := 0
	for _, in := range ins {
		sb.Write(src[last:in.off])
		sb.WriteString(in.text)
		last = in.off
	}
	sb.Write(src[last:])
	return sb.String()
}

func (m *memInstr) wrap(e ast.Expr, write bool) {
	p0 := m.fset.Position(e.Pos())
	p1 := m.fset.Position(e.End())
	id := len(m.sites)
	kind := "read"
	fn := "verifRd"
	if write {
		kind, fn = "write", "verifWr"
	}
	text := string(m.src[p0.Filename][p0.Offset:p1.Offset])
	if len(text) > 60 {
		text = text[:60] + "…"
	}
	text = strings.Join(strings.Fields(text), " ")
	m.sites = append(m.sites, fmt.Sprintf("%s of %s at %s:%d", kind, text, filepath.Base(p0.Filename), p0.Line))
	m.ins[p0.Filename] = append(m.ins[p0.Filename],
		insertion{p0.Offset, "(*" + fn + "(&", true, p1.Offset, 0},
		insertion{p1.Offset, fmt.Sprintf(",%d))", id), false, p0.Offset, 0})
	m.stats[kind]++
}

// externalCallee reports whether the call runs code outside the instrumented package (a function or
// method of another package, incl. interface methods such as io.Writer.Write, or the builtin copy),
// and which argument positions that code writes through (by name: copy's destination, Put*, Read*).
func (m *memInstr) externalCallee(c *ast.CallExpr) (bool, func(int) bool) {
	never := func(int) bool { return false }
	var obj types.Object
	switch f := c.Fun.(type) {
	case *ast.Ident:
		obj = m.info.Uses[f]
	case *ast.SelectorExpr:
		if sel := m.info.Selections[f]; sel != nil {
			if sel.Kind() != types.MethodVal {
				return false, never // a func-typed field
			}
			obj = sel.Obj()
		} else {
			obj = m.info.Uses[f.Sel]
		}
	default:
		return false, never
	}
	switch o := obj.(type) {
	case *types.Builtin:
		if o.Name() == "copy" {
			return true, func(i int) bool { return i == 0 }
		}
		return false, never
	case *types.Func:
		if o.Pkg() == m.pkg {
			return false, never
		}
		n := o.Name()
		if o.Pkg() != nil && o.Pkg().Path() == "sort" && !strings.HasPrefix(n, "Search") && !strings.Contains(n, "Sorted") {
			return true, func(int) bool { return true }
		}
		if strings.HasPrefix(n, "Put") || n == "Read" || n == "ReadFull" || n == "ReadAtLeast" || n == "ReadAt" {
			return true, func(int) bool { return true }
		}
		return true, never
	}
	return false, never
}

// wrapSlice routes a slice-valued argument through verifSl, which reports an access to its elements.
func (m *memInstr) wrapSlice(e ast.Expr, write bool) {
	if t := m.typeOf(e); t == nil {
		return
	}
	p0 := m.fset.Position(e.Pos())
	p1 := m.fset.Position(e.End())
	id := len(m.sites)
	kind := "read by callee"
	if write {
		kind = "write by callee"
	}
	text := string(m.src[p0.Filename][p0.Offset:p1.Offset])
	if len(text) > 60 {
		text = text[:60] + "…"
	}
	text = strings.Join(strings.Fields(text), " ")
	m.sites = append(m.sites, fmt.Sprintf("%s of the elements of %s at %s:%d", kind, text, filepath.Base(p0.Filename), p0.Line))
	m.ins[p0.Filename] = append(m.ins[p0.Filename],
		insertion{p0.Offset, "verifSl(", true, p1.Offset, 0},
		insertion{p1.Offset, fmt.Sprintf(",%d,%v)", id, write), false, p0.Offset, 0})
	m.stats[kind]++
}

func isPointer(t types.Type) bool {
	if t == nil {
		return false
	}
	_, ok := t.Underlying().(*types.Pointer)
	return ok
}

func (m *memInstr) typeOf(e ast.Expr) types.Type { return m.info.Types[e].Type }

// sharedRoot reports whether the addressable expression e can denote memory reachable by another
// goroutine: its access path passes through a pointer, a slice, or starts at a package-level variable.
func (m *memInstr) sharedRoot(e ast.Expr) bool {
	for {
		switch x := e.(type) {
		case *ast.ParenExpr:
			e = x.X
		case *ast.StarExpr:
			return true
		case *ast.SelectorExpr:
			sel := m.info.Selections[x]
			if sel == nil {
				// qualified identifier pkg.Var of another package
				return false
			}
			if sel.Indirect() || isPointer(m.typeOf(x.X)) {
				return true
			}
			e = x.X
		case *ast.IndexExpr:
			switch m.typeOf(x.X).Underlying().(type) {
			case *types.Slice, *types.Pointer:
				return true
			case *types.Array:
				e = x.X
			default:
				return false
			}
		case *ast.Ident:
			obj := m.info.Uses[x]
			v, ok := obj.(*types.Var)
			return ok && !v.IsField() && v.Parent() == m.pkg.Scope()
		default:
			return false
		}
	}
}

func (m *memInstr) isConst(e ast.Expr) bool {
	tv, ok := m.info.Types[e]
	return ok && tv.Value != nil
}

// ctx of an expression: value (it is read), write (it is assigned), addr (only its address is used)
const (
	cValue = iota
	cWrite
	cAddr
)

func (m *memInstr) expr(e ast.Expr, ctx int) {
	if e == nil {
		return
	}
	if m.isConst(e) {
		return
	}
	if tv, ok := m.info.Types[e]; ok && tv.IsType() {
		return
	}
	switch x := e.(type) {
	case *ast.ParenExpr:
		m.expr(x.X, ctx)
	case *ast.Ident:
		if ctx == cAddr {
			return
		}
		obj := m.info.Uses[x]
		if v, ok := obj.(*types.Var); ok && !v.IsField() && v.Parent() == m.pkg.Scope() && x.Name != "_" {
			m.wrap(x, ctx == cWrite)
		}
	case *ast.SelectorExpr:
		sel := m.info.Selections[x]
		if sel == nil {
			return // qualified identifier
		}
		switch sel.Kind() {
		case types.FieldVal:
			tv := m.info.Types[x]
			if ctx != cAddr && tv.Addressable() && m.sharedRoot(x) {
				m.wrap(x, ctx == cWrite)
			}
			// the operand: read if it is a pointer that is dereferenced, otherwise only located
			if isPointer(m.typeOf(x.X)) {
				m.expr(x.X, cValue)
			} else {
				m.expr(x.X, cAddr)
			}
		case types.MethodVal:
			recvPtr := false
			if sig, ok := sel.Obj().Type().(*types.Signature); ok && sig.Recv() != nil {
				recvPtr = isPointer(sig.Recv().Type())
			}
			if recvPtr && !isPointer(m.typeOf(x.X)) {
				m.expr(x.X, cAddr) // address taken implicitly
			} else {
				m.expr(x.X, cValue)
			}
		default:
			m.expr(x.X, cValue)
		}
	case *ast.IndexExpr:
		xt := m.typeOf(x.X)
		if xt == nil {
			return
		}
		if _, isSig := xt.Underlying().(*types.Signature); isSig {
			return // generic instantiation
		}
		tv := m.info.Types[x]
		if ctx != cAddr && tv.Addressable() && m.sharedRoot(x) {
			m.wrap(x, ctx == cWrite)
		}
		switch xt.Underlying().(type) {
		case *types.Array:
			m.expr(x.X, cAddr)
		default:
			m.expr(x.X, cValue)
		}
		m.expr(x.Index, cValue)
	case *ast.IndexListExpr:
		return
	case *ast.StarExpr:
		if ctx != cAddr {
			if tv := m.info.Types[x]; tv.Addressable() {
				m.wrap(x, ctx == cWrite)
			}
		}
		m.expr(x.X, cValue)
	case *ast.UnaryExpr:
		if x.Op == token.AND {
			m.expr(x.X, cAddr)
		} else {
			m.expr(x.X, cValue)
		}
	case *ast.BinaryExpr:
		m.expr(x.X, cValue)
		m.expr(x.Y, cValue)
	case *ast.CallExpr:
		m.expr(x.Fun, cValue)
		ext, wr := m.externalCallee(x)
		for i, a := range x.Args {
			if ext {
				// a slice handed to code outside the package (encoding/binary, io.Writer, copy ...):
				// its elements are accessed there, where no instrumentation sees them
				// (created before the wraps inside the argument: it is the outer one)
				if t := m.typeOf(a); t != nil {
					if _, ok := t.Underlying().(*types.Slice); ok {
						m.wrapSlice(a, wr(i))
					}
				}
			}
			m.expr(a, cValue)
		}
	case *ast.SliceExpr:
		// slicing an array needs its address only; slicing a slice reads the header
		if _, ok := m.typeOf(x.X).Underlying().(*types.Array); ok {
			m.expr(x.X, cAddr)
		} else {
			m.expr(x.X, cValue)
		}
		m.expr(x.Low, cValue)
		m.expr(x.High, cValue)
		m.expr(x.Max, cValue)
	case *ast.TypeAssertExpr:
		m.expr(x.X, cValue)
	case *ast.CompositeLit:
		for _, el := range x.Elts {
			if kv, ok := el.(*ast.KeyValueExpr); ok {
				// keys of struct literals are field names; keys of map/array literals are expressions
				if _, isStruct := m.typeOf(x).Underlying().(*types.Struct); !isStruct {
					m.expr(kv.Key, cValue)
				}
				m.expr(kv.Value, cValue)
			} else {
				m.expr(el, cValue)
			}
		}
	case *ast.KeyValueExpr:
		m.expr(x.Value, cValue)
	case *ast.FuncLit:
		m.stmt(x.Body)
	}
}

func (m *memInstr) stmt(s ast.Stmt) {
	switch x := s.(type) {
	case nil:
	case *ast.BlockStmt:
		if x == nil {
			return
		}
		for _, t := range x.List {
			m.stmt(t)
		}
	case *ast.ExprStmt:
		m.expr(x.X, cValue)
	case *ast.AssignStmt:
		for _, r := range x.Rhs {
			m.expr(r, cValue)
		}
		for _, l := range x.Lhs {
			if x.Tok == token.DEFINE {
				continue
			}
			m.expr(l, cWrite)
		}
	case *ast.IncDecStmt:
		m.expr(x.X, cWrite)
	case *ast.ReturnStmt:
		for _, r := range x.Results {
			m.expr(r, cValue)
		}
	case *ast.IfStmt:
		m.stmt(x.Init)
		m.expr(x.Cond, cValue)
		m.stmt(x.Body)
		m.stmt(x.Else)
	case *ast.ForStmt:
		m.stmt(x.Init)
		m.expr(x.Cond, cValue)
		m.stmt(x.Post)
		m.stmt(x.Body)
	case *ast.RangeStmt:
		if _, ok := m.typeOf(x.X).Underlying().(*types.Array); ok {
			m.expr(x.X, cAddr)
		} else {
			m.expr(x.X, cValue)
		}
		if x.Tok == token.ASSIGN {
			m.expr(x.Key, cWrite)
			m.expr(x.Value, cWrite)
		}
		m.stmt(x.Body)
	case *ast.SwitchStmt:
		m.stmt(x.Init)
		m.expr(x.Tag, cValue)
		m.stmt(x.Body)
	case *ast.TypeSwitchStmt:
		m.stmt(x.Init)
		m.stmt(x.Assign)
		m.stmt(x.Body)
	case *ast.CaseClause:
		for _, e := range x.List {
			m.expr(e, cValue)
		}
		for _, t := range x.Body {
			m.stmt(t)
		}
	case *ast.DeclStmt:
		if gd, ok := x.Decl.(*ast.GenDecl); ok && gd.Tok == token.VAR {
			for _, sp := range gd.Specs {
				if vs, ok := sp.(*ast.ValueSpec); ok {
					for _, v := range vs.Values {
						m.expr(v, cValue)
					}
				}
			}
		}
	case *ast.DeferStmt:
		m.expr(x.Call, cValue)
	case *ast.GoStmt:
		m.expr(x.Call, cValue)
	case *ast.LabeledStmt:
		m.stmt(x.Stmt)
	case *ast.SendStmt:
		m.expr(x.Chan, cValue)
		m.expr(x.Value, cValue)
	case *ast.SelectStmt:
		m.stmt(x.Body)
	case *ast.CommClause:
		m.stmt(x.Comm)
		for _, t := range x.Body {
			m.stmt(t)
		}
	}
}

// memHookFile is the file added to package s2 (through the overlay only) that receives the calls.
func memHookFile(sites []string) string {
	var sb strings.Builder
	sb.WriteString(`//go:build verif

package s2

import (
	"unsafe"

	"github.com/golang/geo/verifshim/vsched"
)

func verifRd[T any](p *T, site uint32) *T {
	vsched.MemAccess(unsafe.Pointer(p), unsafe.Sizeof(*p), false, site)
	return p
}

func verifWr[T any](p *T, site uint32) *T {
	vsched.MemAccess(unsafe.Pointer(p), unsafe.Sizeof(*p), true, site)
	return p
}

// verifSl reports an access to the elements of a slice that is passed to code outside the package
// (first 4 KB, in 64-byte pieces) and returns the slice unchanged.
func verifSl[S ~[]E, E any](s S, site uint32, write bool) S {
	if n := len(s); n > 0 {
		sz := unsafe.Sizeof(s[0]) * uintptr(n)
		if sz > 4096 {
			sz = 4096
		}
		for off := uintptr(0); off < sz; off += 64 {
			k := sz - off
			if k > 64 {
				k = 64
			}
			vsched.MemAccess(unsafe.Add(unsafe.Pointer(&s[0]), off), k, write, site)
		}
	}
	return s
}

func init() {
	vsched.MemSites = []string{
`)
	for _, s := range sites {
		fmt.Fprintf(&sb, "\t\t%q,\n", s)
	}
	sb.WriteString("\t}\n}\n")
	return sb.String()
}
