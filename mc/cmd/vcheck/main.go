// vcheck runs one property check:  vcheck run <Cxx> --tier quick|thorough
//
//	vcheck replay <file>
//	vcheck worker <name> ...   (internal)
package main

import (
	"fmt"
	"os"
	"strconv"
	"strings"
	"time"

	"verif/mc/checks"
	"verif/mc/core"
)

func main() {
	if len(os.Args) < 3 {
		fmt.Fprintln(os.Stderr, "usage: vcheck run <Cxx> [--tier quick|thorough] [--budget seconds] | vcheck replay <file> | vcheck worker ...")
		os.Exit(2)
	}
	switch os.Args[1] {
	case "worker":
		os.Exit(checks.Worker(os.Args[2], os.Args[3:]))
	case "run", "replay":
	default:
		fmt.Fprintln(os.Stderr, "unknown command", os.Args[1])
		os.Exit(2)
	}
	tier := os.Getenv("VERIF_TIER")
	if tier == "" {
		tier = "quick"
	}
	budget := 0
	prop := os.Args[2]
	var rep *core.Violation
	if os.Args[1] == "replay" {
		v, err := core.LoadReplay(os.Args[2])
		if err != nil {
			fmt.Fprintln(os.Stderr, "replay:", err)
			os.Exit(2)
		}
		rep = v
		prop = v.Prop
	}
	for i := 3; i < len(os.Args); i++ {
		switch os.Args[i] {
		case "--tier":
			i++
			tier = os.Args[i]
		case "--budget":
			i++
			budget, _ = strconv.Atoi(os.Args[i])
		case "--replay":
			i++
			v, err := core.LoadReplay(os.Args[i])
			if err != nil {
				fmt.Fprintln(os.Stderr, "replay:", err)
				os.Exit(2)
			}
			rep = v
		}
	}
	var seed int64
	if s := os.Getenv("VERIF_SEED"); s != "" {
		seed, _ = strconv.ParseInt(s, 10, 64)
	}
	ck, ok := checks.Registry[prop]
	if !ok {
		fmt.Fprintln(os.Stderr, "no check registered for", prop)
		os.Exit(2)
	}
	ctx := core.NewCtx(prop, tier, ck.Level, seed)
	if budget == 0 {
		budget = ck.QuickBudget
		if tier == "thorough" {
			budget = ck.ThoroughBudget
		}
	}
	if budget > 0 {
		ctx.Deadline = time.Now().Add(time.Duration(budget) * time.Second)
	}
	if rep != nil {
		ctx.OnlySub = rep.Sub
		ctx.OnlyCase = rep.Case
		ctx.ReplayDetail = rep.Detail
		fmt.Printf("replaying %s sub-check=%s case=%v\n", prop, rep.Sub, rep.Case)
	}
	func() {
		defer func() {
			if r := recover(); r != nil {
				if he, ok := r.(core.HarnessError); ok {
					// A vacuity guard that fires after the wall budget already cut the run short, or after
					// violations were recorded (a changed library can starve a guard's counter), must not
					// turn the run into "broken": what was found is reported, the run is marked non-exhaustive.
					if strings.Contains(string(he), "vacuous") && (ctx.CapsHit() > 0 || ctx.NumViolations() > 0) {
						fmt.Println("NOTE: vacuity guard not applied (run cut short by its budget, or violations already recorded):", string(he))
						ctx.CapHit("a vacuity guard fired after a budget cut / after violations: " + string(he))
						return
					}
					fmt.Println("HARNESS-ERROR:", string(he))
					os.Exit(2)
				}
				panic(r)
			}
		}()
		checks.RunWithConcurrentUse(ck, ctx)
	}()
	code := ctx.Finish()
	if rep != nil {
		if code == 0 {
			fmt.Println("replay: the recorded case no longer violates the property")
		}
	}
	os.Exit(code)
}
