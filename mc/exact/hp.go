package exact

// High-precision (big.Float, 320-bit mantissa) helpers for the reference models
// that cannot stay in exact integer arithmetic: square roots, angles, and the
// distances / projections built from them.  All inputs are exact (S, V); every
// operation below rounds to HPPrec bits, so a result built from a few dozen
// operations carries a relative error far below HPRefErr, which is what the
// checks add to the implementation's side of every comparison.

import (
	"math/big"
	"sync"
)

// HPPrec is the mantissa size of every high-precision value.
const HPPrec = 320

// HPRefErrExp: the reference values are trusted to an absolute error of
// 2^HPRefErrExp (angles in radians, squared chord lengths; all are O(1) quantities).
const HPRefErrExp = -280

func hpNew() *big.Float { return new(big.Float).SetPrec(HPPrec) }

// HP converts a float64 exactly.
func HP(x float64) *big.Float { return hpNew().SetFloat64(x) }

// HPInt converts an integer exactly.
func HPInt(n int64) *big.Float { return hpNew().SetInt64(n) }

// HPPow2 returns 2^e.
func HPPow2(e int) *big.Float { return hpNew().SetMantExp(HPInt(1), e) }

// HPRefErr returns the absolute error budget of the reference values.
func HPRefErr() *big.Float { return HPPow2(HPRefErrExp) }

// HPAdd returns a+b.
func HPAdd(a, b *big.Float) *big.Float { return hpNew().Add(a, b) }

// HPSub returns a-b.
func HPSub(a, b *big.Float) *big.Float { return hpNew().Sub(a, b) }

// HPMul returns a*b.
func HPMul(a, b *big.Float) *big.Float { return hpNew().Mul(a, b) }

// HPQuo returns a/b.
func HPQuo(a, b *big.Float) *big.Float { return hpNew().Quo(a, b) }

// HPNeg returns -a.
func HPNeg(a *big.Float) *big.Float { return hpNew().Neg(a) }

// HPAbs returns |a|.
func HPAbs(a *big.Float) *big.Float { return hpNew().Abs(a) }

// HPSqrt returns sqrt(a) (a >= 0; tiny negative rounding residue is clamped to 0).
func HPSqrt(a *big.Float) *big.Float {
	if a.Sign() <= 0 {
		return hpNew()
	}
	return hpNew().Sqrt(a)
}

// HPMin returns the smaller of a and b.
func HPMin(a, b *big.Float) *big.Float {
	if a.Cmp(b) <= 0 {
		return a
	}
	return b
}

// HPMax returns the larger of a and b.
func HPMax(a, b *big.Float) *big.Float {
	if a.Cmp(b) >= 0 {
		return a
	}
	return b
}

// HPFloat64 returns the nearest float64 (reporting only).
func HPFloat64(a *big.Float) float64 { f, _ := a.Float64(); return f }

// atanSmall evaluates atan(x) for 0 <= x <= 1 by argument halving
// (atan x = 2 atan(x / (1 + sqrt(1 + x^2)))) followed by the Taylor series.
func atanSmall(x *big.Float) *big.Float {
	if x.Sign() == 0 {
		return hpNew()
	}
	one := HPInt(1)
	lim := HPPow2(-12)
	k := 0
	x = hpNew().Set(x)
	for x.Cmp(lim) > 0 {
		d := HPAdd(one, HPSqrt(HPAdd(one, HPMul(x, x))))
		x = HPQuo(x, d)
		k++
	}
	x2 := HPMul(x, x)
	sum := hpNew().Set(x)
	term := hpNew().Set(x)
	for n := int64(1); n < 400; n++ {
		term = HPNeg(HPMul(term, x2))
		t := HPQuo(term, HPInt(2*n+1))
		sum = HPAdd(sum, t)
		if t.Sign() == 0 || t.MantExp(nil) < sum.MantExp(nil)-HPPrec-8 {
			break
		}
	}
	return hpNew().SetMantExp(sum, k)
}

var (
	piOnce sync.Once
	piVal  *big.Float
)

// HPPi returns pi (Machin: 16 atan(1/5) - 4 atan(1/239)).
func HPPi() *big.Float {
	piOnce.Do(func() {
		a := atanSmall(HPQuo(HPInt(1), HPInt(5)))
		b := atanSmall(HPQuo(HPInt(1), HPInt(239)))
		piVal = HPSub(HPMul(HPInt(16), a), HPMul(HPInt(4), b))
	})
	return piVal
}

// HPAtan returns atan(x).
func HPAtan(x *big.Float) *big.Float {
	neg := x.Sign() < 0
	ax := HPAbs(x)
	var r *big.Float
	if ax.Cmp(HPInt(1)) > 0 {
		r = HPSub(HPQuo(HPPi(), HPInt(2)), atanSmall(HPQuo(HPInt(1), ax)))
	} else {
		r = atanSmall(ax)
	}
	if neg {
		r = HPNeg(r)
	}
	return r
}

// HPAtan2 returns the angle of the vector (x, y) in (-pi, pi]; atan2(0,0) = 0.
func HPAtan2(y, x *big.Float) *big.Float {
	switch {
	case x.Sign() == 0 && y.Sign() == 0:
		return hpNew()
	case x.Sign() == 0:
		h := HPQuo(HPPi(), HPInt(2))
		if y.Sign() < 0 {
			return HPNeg(h)
		}
		return h
	}
	ay, ax := HPAbs(y), HPAbs(x)
	var r *big.Float // angle of (|x|, |y|) in [0, pi/2]
	if ay.Cmp(ax) <= 0 {
		r = atanSmall(HPQuo(ay, ax))
	} else {
		r = HPSub(HPQuo(HPPi(), HPInt(2)), atanSmall(HPQuo(ax, ay)))
	}
	if x.Sign() < 0 {
		r = HPSub(HPPi(), r)
	}
	if y.Sign() < 0 {
		r = HPNeg(r)
	}
	return r
}

// HPAsin returns asin(s) for |s| <= 1 (values beyond are clamped).
func HPAsin(s *big.Float) *big.Float {
	one := HPInt(1)
	c2 := HPSub(one, HPMul(s, s))
	if c2.Sign() < 0 {
		c2 = hpNew()
	}
	return HPAtan2(s, HPSqrt(c2))
}

// ---- geometry on exact vectors -------------------------------------------------

// Add returns a+b.
func (a V) Add(b V) V { return a.Sub(b.Neg()) }

// HPRatio returns n/d.
func HPRatio(n, d S) *big.Float { return HPQuo(n.Big(HPPrec), d.Big(HPPrec)) }

// HPSin2 returns sin^2 of the angle between u and v, an exact rational rounded once.
func HPSin2(u, v V) *big.Float {
	return HPRatio(u.Cross(v).Norm2(), u.Norm2().Mul(v.Norm2()))
}

// HPAngle returns the angle between the directions u and v, in [0, pi].
func HPAngle(u, v V) *big.Float {
	return HPAtan2(HPSqrt(u.Cross(v).Norm2().Big(HPPrec)), u.Dot(v).Big(HPPrec))
}

// chord2FromSin2 converts sin^2 of an angle (and the sign of its cosine) into the
// squared chord length 2 - 2 cos, without cancellation.
func chord2FromSin2(s2 *big.Float, cosSign int) *big.Float {
	one := HPInt(1)
	c2 := HPSub(one, s2)
	if c2.Sign() < 0 {
		c2 = hpNew()
	}
	cosAbs := HPSqrt(c2)
	if cosSign >= 0 {
		// 2 - 2cos = 2 sin^2 / (1 + cos)
		return HPQuo(HPMul(HPInt(2), s2), HPAdd(one, cosAbs))
	}
	return HPAdd(HPInt(2), HPMul(HPInt(2), cosAbs))
}

// HPChord2 returns the squared chord length between the unit vectors in the
// directions of u and v (2 - 2 cos of their angle).
func HPChord2(u, v V) *big.Float {
	return chord2FromSin2(HPSin2(u, v), u.Dot(v).Sign())
}

// EdgeCase says which point of the closed edge realises the minimum distance.
type EdgeCase int

// Values of EdgeCase.
const (
	EdgeDegenerate EdgeCase = iota // a and b have the same direction
	EdgeInterior                   // the closest point is interior to ab
	EdgeEndpointA
	EdgeEndpointB
	EdgeAntipodal // a and b are exactly antipodal: the edge is not defined
)

// HPEdgeMinChord2 returns the squared chord length between the direction of x and
// the closest point of the geodesic edge ab, from the definition: the closest
// point is the projection of x on the great circle of ab when x lies in the open
// wedge of ab (decided by exact signs), otherwise an endpoint.
func HPEdgeMinChord2(x, a, b V) (*big.Float, EdgeCase) {
	n := a.Cross(b)
	da, db := HPChord2(x, a), HPChord2(x, b)
	if n.IsZero() {
		if a.Dot(b).Sign() < 0 {
			return nil, EdgeAntipodal
		}
		return da, EdgeDegenerate
	}
	best, kind := da, EdgeEndpointA
	if db.Cmp(da) < 0 {
		best, kind = db, EdgeEndpointB
	}
	if n.Cross(a).Dot(x).Sign() > 0 && b.Cross(n).Dot(x).Sign() > 0 {
		xn := x.Dot(n)
		s2 := HPRatio(xn.Mul(xn), x.Norm2().Mul(n.Norm2()))
		d := chord2FromSin2(s2, 1)
		if d.Cmp(best) <= 0 {
			best, kind = d, EdgeInterior
		}
	}
	return best, kind
}

// HPEdgeMaxChord2 returns the squared chord length between the direction of x and
// the farthest point of the edge ab: pi minus the minimum distance from -x.
func HPEdgeMaxChord2(x, a, b V) (*big.Float, EdgeCase) {
	m, k := HPEdgeMinChord2(x.Neg(), a, b)
	if m == nil {
		return nil, k
	}
	return HPSub(HPInt(4), m), k
}

// HPChord2ToAngle converts a squared chord length in [0,4] to radians.
func HPChord2ToAngle(c2 *big.Float) *big.Float {
	if c2.Sign() <= 0 {
		return hpNew()
	}
	four := HPInt(4)
	if c2.Cmp(four) >= 0 {
		return HPPi()
	}
	h := HPQuo(HPSqrt(c2), HPInt(2)) // sin(theta/2)
	return HPMul(HPInt(2), HPAsin(h))
}

// HPEdgeMinAngle returns the angle between the direction of x and the closest
// point of the edge ab.
func HPEdgeMinAngle(x, a, b V) (*big.Float, EdgeCase) {
	c2, k := HPEdgeMinChord2(x, a, b)
	if c2 == nil {
		return nil, k
	}
	return HPChord2ToAngle(c2), k
}

// HPSignedAngle returns the rotation angle in (-pi, pi] that takes the direction
// of a to the direction of r around the axis n, for r in the plane of n (a is
// perpendicular to n): atan2((a x r).n / |n|, a.r).
func HPSignedAngle(a, r, n V) *big.Float {
	y := HPQuo(a.Cross(r).Dot(n).Big(HPPrec), HPSqrt(n.Norm2().Big(HPPrec)))
	return HPAtan2(y, a.Dot(r).Big(HPPrec))
}

// HPSelfTest checks the elementary functions against identities; it returns a
// description of the first failure or "".
func HPSelfTest() string {
	tol := HPPow2(-300)
	near := func(a, b *big.Float) bool { return HPAbs(HPSub(a, b)).Cmp(tol) <= 0 }
	pi := HPPi()
	if !near(HPMul(HPInt(4), HPAtan(HPInt(1))), pi) {
		return "4 atan(1) != pi"
	}
	// pi to 60 digits from the literature
	lit, _, _ := big.ParseFloat("3.14159265358979323846264338327950288419716939937510582097494459230781640628620899", 10, HPPrec, big.ToNearestEven)
	if HPAbs(HPSub(pi, lit)).Cmp(HPPow2(-250)) > 0 {
		return "pi differs from its literature value"
	}
	vals := []float64{1e-300, 1e-17, 3e-9, 0.001, 0.3, 0.9999, 1, 1.0001, 7, 1e9, 1e200}
	half := HPQuo(pi, HPInt(2))
	for _, y := range vals {
		for _, x := range vals {
			a := HPAtan2(HP(y), HP(x))
			b := HPAtan2(HP(x), HP(y))
			if !near(HPAdd(a, b), half) {
				return "atan2(y,x)+atan2(x,y) != pi/2"
			}
			if !near(HPAtan2(HP(y), HP(-x)), HPSub(pi, a)) || !near(HPAtan2(HP(-y), HP(x)), HPNeg(a)) {
				return "atan2 quadrant symmetry"
			}
		}
		s := HPSqrt(HP(y))
		if HPAbs(HPSub(HPQuo(HPMul(s, s), HP(y)), HPInt(1))).Cmp(tol) > 0 {
			return "sqrt(x)^2 != x"
		}
	}
	// addition theorem: atan(1/2) + atan(1/3) = pi/4
	if !near(HPAdd(HPAtan(HPQuo(HPInt(1), HPInt(2))), HPAtan(HPQuo(HPInt(1), HPInt(3)))), HPQuo(pi, HPInt(4))) {
		return "atan(1/2)+atan(1/3) != pi/4"
	}
	// asin(1/2) = pi/6, asin(1) = pi/2
	if !near(HPAsin(HPQuo(HPInt(1), HPInt(2))), HPQuo(pi, HPInt(6))) || !near(HPAsin(HPInt(1)), half) {
		return "asin special values"
	}
	return ""
}
