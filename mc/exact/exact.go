// Package exact is exact arithmetic on float64 inputs, independent of
// golang/geo's own r3.PreciseVector (which is big.Float based and is code under
// test).  A float64 is m·2^e exactly; scalars and vectors are kept as big.Int
// mantissas with a binary exponent, so every polynomial predicate is evaluated
// with no rounding at all.
package exact

import (
	"math"
	"math/big"

	"github.com/golang/geo/r3"
)

// S is the scalar M·2^E.
type S struct {
	M *big.Int
	E int
}

// V is the vector (X,Y,Z)·2^E.
type V struct {
	X, Y, Z *big.Int
	E       int
}

// FromFloat converts a finite float64 exactly.
func FromFloat(f float64) S {
	if f == 0 {
		return S{new(big.Int), 0}
	}
	if math.IsNaN(f) || math.IsInf(f, 0) {
		panic("exact: non-finite input")
	}
	frac, exp := math.Frexp(f) // f = frac·2^exp, 0.5 <= |frac| < 1
	m := int64(frac * (1 << 53))
	return S{big.NewInt(m), exp - 53}
}

// Float returns the nearest float64 (for reporting only).
func (s S) Float() float64 {
	f := new(big.Float).SetInt(s.M)
	f.SetMantExp(f, s.E)
	v, _ := f.Float64()
	return v
}

// Sign returns -1, 0 or +1.
func (s S) Sign() int { return s.M.Sign() }

func align(a, b S) (*big.Int, *big.Int, int) {
	if a.E == b.E {
		return a.M, b.M, a.E
	}
	if a.E > b.E {
		return new(big.Int).Lsh(a.M, uint(a.E-b.E)), b.M, b.E
	}
	return a.M, new(big.Int).Lsh(b.M, uint(b.E-a.E)), a.E
}

// Add returns a+b.
func (a S) Add(b S) S {
	x, y, e := align(a, b)
	return S{new(big.Int).Add(x, y), e}
}

// Sub returns a-b.
func (a S) Sub(b S) S {
	x, y, e := align(a, b)
	return S{new(big.Int).Sub(x, y), e}
}

// Mul returns a·b.
func (a S) Mul(b S) S { return S{new(big.Int).Mul(a.M, b.M), a.E + b.E} }

// Neg returns -a.
func (a S) Neg() S { return S{new(big.Int).Neg(a.M), a.E} }

// Cmp compares a and b.
func (a S) Cmp(b S) int {
	x, y, _ := align(a, b)
	return x.Cmp(y)
}

// Int returns the scalar n.
func Int(n int64) S { return S{big.NewInt(n), 0} }

// FromVector converts a vector with finite coordinates exactly.
func FromVector(p r3.Vector) V {
	x, y, z := FromFloat(p.X), FromFloat(p.Y), FromFloat(p.Z)
	e := x.E
	first := true
	for _, s := range []S{x, y, z} {
		if s.M.Sign() != 0 {
			if first || s.E < e {
				e = s.E
			}
			first = false
		}
	}
	sh := func(s S) *big.Int {
		if s.M.Sign() == 0 {
			return new(big.Int)
		}
		return new(big.Int).Lsh(s.M, uint(s.E-e))
	}
	return V{sh(x), sh(y), sh(z), e}
}

// Comp returns component i (0,1,2) as a scalar.
func (a V) Comp(i int) S {
	switch i {
	case 0:
		return S{a.X, a.E}
	case 1:
		return S{a.Y, a.E}
	}
	return S{a.Z, a.E}
}

// Dot returns a·b.
func (a V) Dot(b V) S {
	m := new(big.Int).Mul(a.X, b.X)
	m.Add(m, new(big.Int).Mul(a.Y, b.Y))
	m.Add(m, new(big.Int).Mul(a.Z, b.Z))
	return S{m, a.E + b.E}
}

// Cross returns a×b.
func (a V) Cross(b V) V {
	x := new(big.Int).Mul(a.Y, b.Z)
	x.Sub(x, new(big.Int).Mul(a.Z, b.Y))
	y := new(big.Int).Mul(a.Z, b.X)
	y.Sub(y, new(big.Int).Mul(a.X, b.Z))
	z := new(big.Int).Mul(a.X, b.Y)
	z.Sub(z, new(big.Int).Mul(a.Y, b.X))
	return V{x, y, z, a.E + b.E}
}

// Sub returns a-b.
func (a V) Sub(b V) V {
	sx := a.Comp(0).Sub(b.Comp(0))
	sy := a.Comp(1).Sub(b.Comp(1))
	sz := a.Comp(2).Sub(b.Comp(2))
	e := sx.E
	if sy.E < e {
		e = sy.E
	}
	if sz.E < e {
		e = sz.E
	}
	sh := func(s S) *big.Int { return new(big.Int).Lsh(s.M, uint(s.E-e)) }
	return V{sh(sx), sh(sy), sh(sz), e}
}

// Neg returns -a.
func (a V) Neg() V {
	return V{new(big.Int).Neg(a.X), new(big.Int).Neg(a.Y), new(big.Int).Neg(a.Z), a.E}
}

// Norm2 returns |a|².
func (a V) Norm2() S { return a.Dot(a) }

// IsZero reports whether a is the zero vector.
func (a V) IsZero() bool { return a.X.Sign() == 0 && a.Y.Sign() == 0 && a.Z.Sign() == 0 }

// Det3 returns det[a;b;c] = a·(b×c).
func Det3(a, b, c V) S { return a.Dot(b.Cross(c)) }

// DetSign returns the sign of the exact determinant of three float64 vectors.
func DetSign(a, b, c r3.Vector) int {
	return Det3(FromVector(a), FromVector(b), FromVector(c)).Sign()
}

// Float returns the nearest float64 vector (for reporting and for high-precision
// follow-up computations).
func (a V) Float() r3.Vector {
	return r3.Vector{X: a.Comp(0).Float(), Y: a.Comp(1).Float(), Z: a.Comp(2).Float()}
}

// Big returns the component as a big.Float with the given precision.
func (s S) Big(prec uint) *big.Float {
	f := new(big.Float).SetPrec(prec).SetInt(s.M)
	return f.SetMantExp(f, s.E)
}

// CmpRatio compares n1/d1 with n2/d2 for positive denominators d1, d2.
func CmpRatio(n1, d1, n2, d2 S) int {
	return n1.Mul(d2).Cmp(n2.Mul(d1))
}
