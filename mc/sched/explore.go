// Package sched is engine E1: stateless, preemption-bounded depth-first
// exploration of the schedules of real goroutines running real golang/geo code
// on top of the controlled scheduler (verifshim/vsched).
package sched

import (
	"fmt"

	"github.com/golang/geo/verifshim/vsched"
)

// Scenario builds, for one execution, fresh shared objects and the thread
// bodies; after the execution Check inspects the outcome.
type Scenario struct {
	Name string
	// Make returns the thread bodies for one execution and a function that is
	// called after the execution to validate it (returning violation
	// descriptors: kind, text).
	Make func() (bodies []func(), check func(r *vsched.Result) []Finding)
}

// Finding is one violation found on one execution.
type Finding struct {
	Kind string
	Desc string
}

// Stats are the measured exploration counts.
type Stats struct {
	Executions int64
	Points     int64 // scheduling points over all executions (= transitions)
	MaxPoints  int
	Bound      int
	Truncated  bool
	Outcomes   map[string]int64 // distinct observation signatures
	Failing    int64
	StatesSeen int64
}

// Report is called for every failing execution.
type Report func(choices []int, f Finding, res *vsched.Result)

// Explorer explores one scenario.
type Explorer struct {
	Sc       *Scenario
	Bound    int
	Shard    int // this worker's shard index
	Shards   int // number of shards (1 = everything)
	MaxExec  int64
	Stats    Stats
	OnFail   Report
	Outcome  func(r *vsched.Result) string
	Stop     func() bool
	shardCtr int64
	// Unbounded: no preemption bound; a (state key, thread) pair is expanded only once.  Requires
	// vsched.StateFn to be set by the harness to a hash of the complete shared state.
	Unbounded bool
	visited   map[visitKey]bool
}

type visitKey struct {
	key    uint64
	thread int
}

// RunOnce replays one choice list.
func RunOnce(sc *Scenario, choices []int, trace bool) (*vsched.Result, []Finding) {
	bodies, check := sc.Make()
	r := vsched.Run(choices, bodies, trace, 0)
	return r, classify(r, check)
}

func classify(r *vsched.Result, check func(r *vsched.Result) []Finding) []Finding {
	var fs []Finding
	if r.Diverged != "" {
		fs = append(fs, Finding{"harness", "replay diverged: " + r.Diverged})
		return fs
	}
	for i, p := range r.Panics {
		if p != "" {
			fs = append(fs, Finding{"panic", fmt.Sprintf("T%d: %s", i, p)})
		}
	}
	if r.Deadlock {
		fs = append(fs, Finding{"deadlock", r.DeadInfo})
	}
	if r.Livelock {
		fs = append(fs, Finding{"nontermination", "step horizon exceeded"})
	}
	for _, rc := range r.Races {
		a, b := rc.First, rc.Second
		if a > b {
			a, b = b, a
		}
		fs = append(fs, Finding{"race", fmt.Sprintf("%s: {%s} unordered by happens-before with {%s}", rc.Loc, a, b)})
	}
	if check != nil && len(fs) == 0 {
		fs = append(fs, check(r)...)
	}
	return fs
}

// Explore runs the exploration to the configured preemption bound.
func (e *Explorer) Explore() {
	e.Stats.Outcomes = map[string]int64{}
	e.Stats.Bound = e.Bound
	if e.Unbounded {
		e.visited = map[visitKey]bool{}
		e.Stats.Bound = -1
	}
	e.explore(nil, 0)
	e.Stats.StatesSeen = int64(len(e.visited))
}

func preemptionsBefore(points []vsched.PointRec, choices []int, i int) int {
	n := 0
	for k := 0; k < i; k++ {
		if points[k].RunningStillEnabled && choices[k] != 0 {
			n++
		}
	}
	return n
}

func (e *Explorer) explore(prefix []int, depth int) {
	if e.Stats.Truncated {
		return
	}
	if (e.MaxExec > 0 && e.Stats.Executions >= e.MaxExec) || (e.Stop != nil && e.Stop()) {
		e.Stats.Truncated = true
		return
	}
	// Sharding: subtrees rooted at recursion depth 2 are distributed round-robin;
	// executions above that depth are run by every shard but counted by shard 0.
	count := true
	if e.Shards > 1 {
		if depth == 2 {
			mine := e.shardCtr%int64(e.Shards) == int64(e.Shard)
			e.shardCtr++
			if !mine {
				return
			}
		} else if depth < 2 {
			count = e.Shard == 0
		}
	}
	bodies, check := e.Sc.Make()
	r := vsched.Run(prefix, bodies, false, 0)
	fs := classify(r, check)
	if count {
		e.Stats.Executions++
		e.Stats.Points += int64(len(r.Points))
		if len(r.Points) > e.Stats.MaxPoints {
			e.Stats.MaxPoints = len(r.Points)
		}
		if e.Outcome != nil {
			e.Stats.Outcomes[e.Outcome(r)]++
		}
		if len(fs) > 0 {
			e.Stats.Failing++
			for _, f := range fs {
				if e.OnFail != nil {
					e.OnFail(r.Choices, f, r)
				}
			}
		}
	}
	if r.Diverged != "" {
		return
	}
	if e.Unbounded {
		// mark the choices this execution itself took, then expand every unvisited alternative
		for i := len(prefix); i < len(r.Points); i++ {
			p := r.Points[i]
			e.visited[visitKey{p.Key, p.Enabled[p.Chosen]}] = true
		}
		for i := len(prefix); i < len(r.Points); i++ {
			p := r.Points[i]
			for alt := 1; alt < len(p.Enabled); alt++ {
				vk := visitKey{p.Key, p.Enabled[alt]}
				if e.visited[vk] {
					continue
				}
				e.visited[vk] = true
				np := make([]int, i+1)
				copy(np, r.Choices[:i])
				np[i] = alt
				e.explore(np, depth+1)
			}
		}
		return
	}
	for i := len(prefix); i < len(r.Points); i++ {
		p := r.Points[i]
		if len(p.Enabled) < 2 {
			continue
		}
		cost := preemptionsBefore(r.Points, r.Choices, i)
		if p.RunningStillEnabled {
			cost++
		}
		if cost > e.Bound {
			continue
		}
		for alt := 1; alt < len(p.Enabled); alt++ {
			np := make([]int, i+1)
			copy(np, r.Choices[:i])
			np[i] = alt
			e.explore(np, depth+1)
		}
	}
}
