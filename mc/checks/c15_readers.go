package checks

import (
	"bytes"
	"fmt"
	"io"
	"runtime/debug"
	"testing/iotest"

	"verif/mc/core"
)

// Sub-check "reader-kinds": every prefix of every corpus entry (and the entry itself) is decoded by
// the entry's own decoder through readers that return short reads (one byte per Read, half of the
// request, a plain io.Reader without ReadByte, the last data together with io.EOF).  Totality must not
// depend on how the bytes arrive: no panic, the same accept / reject decision as from a *bytes.Reader,
// and an accepted value must survive the query panel.
func init() {
	ck := Registry["C15"]
	run := ck.Run
	ck.Run = func(c *core.Ctx) {
		run(c)
		c15ReaderKinds(c)
	}
}

func c15ReaderKinds(c *core.Ctx) {
	sub := "reader-kinds"
	if c.OnlySub != "" && c.OnlySub != sub {
		return
	}
	kinds := []struct {
		name string
		mk   func(b []byte) io.Reader
	}{
		{"one byte per Read", func(b []byte) io.Reader { return iotest.OneByteReader(bytes.NewReader(b)) }},
		{"half of the request per Read", func(b []byte) io.Reader { return iotest.HalfReader(bytes.NewReader(b)) }},
		{"plain io.Reader (no ReadByte)", func(b []byte) io.Reader { return c15Plain{bytes.NewReader(b)} }},
		{"last data together with io.EOF", func(b []byte) io.Reader { return iotest.DataErrReader(c15Plain{bytes.NewReader(b)}) }},
	}
	defer func() { c15MkReader = func(b []byte) io.Reader { return bytes.NewReader(b) } }()
	var decodes, accepted int64
	for ei, e := range c15Corpus(!c.Quick()) {
		var run func(data []byte) (error, func())
		for _, d := range c15Decoders {
			if d.Name == e.Kind {
				run = d.Run
			}
		}
		if run == nil || len(e.Data) > 20000 {
			continue
		}
		step := 1
		if len(e.Data) > 600 {
			step = len(e.Data)/600 + 1
		}
		for cut := 0; cut <= len(e.Data); cut += step {
			if cut+step > len(e.Data) {
				cut = len(e.Data) // always include the full encoding
			}
			data := e.Data[:cut]
			c15MkReader = func(b []byte) io.Reader { return bytes.NewReader(b) }
			refErr, _ := c15Safe(run, data)
			for ki, kd := range kinds {
				cas := []int{ei, cut, ki}
				if c.Skip(sub, cas...) {
					continue
				}
				c15MkReader = kd.mk
				decodes++
				err, pan := c15Safe(run, data)
				detail := map[string]any{"entry": e.Name, "decoder": e.Kind, "prefix_bytes": cut, "of": len(e.Data), "reader": kd.name}
				if pan != "" {
					c.Violate(sub, "panic", fmt.Sprintf("%s.Decode (or a query on the value it returned) panics when the bytes arrive through a reader with short reads: %s", e.Kind, pan), cas, detail)
					continue
				}
				if (err == nil) != (refErr == nil) {
					detail["err_short_reads"], detail["err_bytes_reader"] = fmt.Sprint(err), fmt.Sprint(refErr)
					c.Violate(sub, "wrong-answer", fmt.Sprintf("%s.Decode accepts / rejects the same bytes differently when they arrive through a reader with short reads", e.Kind), cas, detail)
					continue
				}
				if err == nil {
					accepted++
				}
			}
			if cut == len(e.Data) {
				break
			}
		}
	}
	c.Eval(int(decodes))
	c.Count(sub+"/decodes", decodes)
	c.Count(sub+"/accepted", accepted)
}

type c15Plain struct{ r io.Reader }

func (p c15Plain) Read(b []byte) (int, error) { return p.r.Read(b) }

// c15Safe runs a decoder and, if it accepts, the query panel of the value; panics are returned as text.
func c15Safe(run func([]byte) (error, func()), data []byte) (err error, pan string) {
	defer func() {
		if r := recover(); r != nil {
			pan = fmt.Sprintf("%v at %s", r, core.GeoFrame(string(debug.Stack())))
		}
	}()
	var panel func()
	err, panel = run(data)
	if err == nil && panel != nil {
		panel()
	}
	return err, ""
}
