package checks

import (
	"bufio"
	"bytes"
	"encoding/json"
	"fmt"
	"io"
	"os"
	"os/exec"
	"runtime/debug"
	"strconv"
	"strings"
	"syscall"
	"testing/iotest"
	"time"

	"verif/mc/core"
)

// Sub-check "reader-kinds": every prefix of every corpus entry (and the entry itself) is decoded by
// the entry's own decoder through readers that return short reads (one byte per Read, half of the
// request, a plain io.Reader without ReadByte, the last data together with io.EOF).  Totality must not
// depend on how the bytes arrive: no panic, the same accept / reject decision as from a *bytes.Reader,
// and an accepted value must survive the query panel.
func init() {
	ck := Registry["C15"]
	run := ck.Run
	ck.Run = func(c *core.Ctx) {
		run(c)
		c15ReaderKinds(c)
	}
	workers["c15readers"] = c15ReadersWorker
}

// c15ReaderKinds runs the sub-check in a worker process with an address-space cap, like every other
// decode of this property: a decoder that loops or allocates without bound must end the worker, not
// the check.  An aborted or stalled worker is re-run with per-case progress to name the prefix at
// which it died; that is a violation, and the enumeration continues with that case skipped.
func c15ReaderKinds(c *core.Ctx) {
	sub := "reader-kinds"
	if c.OnlySub != "" && c.OnlySub != sub {
		return
	}
	var skip []string
	for attempt := 0; attempt < 12; attempt++ {
		d, cur, why := c15RunReadersWorker(c.Tier, strings.Join(skip, ","), false)
		if d != nil {
			c.Import(d)
			return
		}
		// name the culprit
		_, cur, why = c15RunReadersWorker(c.Tier, strings.Join(skip, ","), true)
		if cur == "" {
			panic(core.HarnessError("C15 reader-kinds worker failed without naming a case: " + why))
		}
		kind := "process-abort"
		if strings.Contains(why, "watchdog") {
			kind = "no-termination"
		}
		f := strings.Fields(cur) // C15RK <entry index> <prefix bytes> <reader kind> <decoder> <entry name...>
		desc := "a decoder reading a truncated encoding through a reader ends the process or does not terminate"
		if len(f) >= 5 {
			desc = fmt.Sprintf("%s.Decode of a truncated encoding ends the process (unbounded allocation / fatal error) or does not terminate", f[4])
		}
		c.Violate(sub, kind, desc, nil, map[string]any{"case": cur, "worker": why})
		if len(f) >= 3 {
			skip = append(skip, f[1]+":"+f[2])
		} else {
			break
		}
	}
	c.CapHit("reader-kinds: more than 12 aborting cases; the remaining prefixes were not enumerated")
}

func c15RunReadersWorker(tier, skip string, slow bool) (*core.CtxDump, string, string) {
	exe, _ := os.Executable()
	cmd := exec.Command(exe, "worker", "c15readers", tier, skip)
	cmd.Env = os.Environ()
	if slow {
		cmd.Env = append(cmd.Env, "C15_SLOW=1")
	}
	var so bytes.Buffer
	cmd.Stdout = &so
	se := &lastLines{}
	cmd.Stderr = se
	if err := cmd.Start(); err != nil {
		return nil, "", "cannot start worker: " + err.Error()
	}
	done := make(chan error, 1)
	go func() { done <- cmd.Wait() }()
	var err error
	stalled := false
	select {
	case err = <-done:
	case <-time.After(15 * time.Minute):
		cmd.Process.Kill()
		err = <-done
		stalled = true
	}
	for _, line := range strings.Split(so.String(), "\n") {
		if strings.HasPrefix(line, "C15RKOUT ") {
			var d core.CtxDump
			if json.Unmarshal([]byte(line[9:]), &d) == nil {
				return &d, "", ""
			}
		}
	}
	cur, fatal := se.summary()
	why := fmt.Sprintf("process aborted (%v): %s", err, fatal)
	if stalled {
		why = "no termination within the 15 min watchdog"
	}
	return nil, cur, why
}

// c15ReadersWorker: vcheck worker c15readers <tier> <skip: ei:cut,...>
func c15ReadersWorker(args []string) int {
	if len(args) < 2 {
		return 2
	}
	debug.SetGCPercent(50)
	lim := syscall.Rlimit{Cur: 3 << 30, Max: 3 << 30} // prefixes of valid encodings never declare giant counts
	syscall.Setrlimit(syscall.RLIMIT_AS, &lim)
	c := core.NewCtx("C15", args[0], "fault_enumeration", 0)
	skip := map[string]bool{}
	for _, f := range strings.Split(args[1], ",") {
		if f != "" {
			skip[f] = true
		}
	}
	c15ReaderKindsBody(c, skip, os.Getenv("C15_SLOW") != "")
	b, _ := json.Marshal(c.Export())
	fmt.Println("C15RKOUT " + string(b))
	return 0
}

func c15ReaderKindsBody(c *core.Ctx, skip map[string]bool, slow bool) {
	sub := "reader-kinds"
	progress := bufio.NewWriter(os.Stderr)
	kinds := []struct {
		name string
		mk   func(b []byte) io.Reader
	}{
		{"one byte per Read", func(b []byte) io.Reader { return iotest.OneByteReader(bytes.NewReader(b)) }},
		{"half of the request per Read", func(b []byte) io.Reader { return iotest.HalfReader(bytes.NewReader(b)) }},
		{"plain io.Reader (no ReadByte)", func(b []byte) io.Reader { return c15Plain{bytes.NewReader(b)} }},
		{"last data together with io.EOF", func(b []byte) io.Reader { return iotest.DataErrReader(c15Plain{bytes.NewReader(b)}) }},
	}
	defer func() { c15MkReader = func(b []byte) io.Reader { return bytes.NewReader(b) } }()
	var decodes, accepted int64
	for ei, e := range c15Corpus(!c.Quick()) {
		var run func(data []byte) (error, func())
		for _, d := range c15Decoders {
			if d.Name == e.Kind {
				run = d.Run
			}
		}
		if run == nil || len(e.Data) > 20000 {
			continue
		}
		step := 1
		if len(e.Data) > 600 {
			step = len(e.Data)/600 + 1
		}
		for cut := 0; cut <= len(e.Data); cut += step {
			if cut+step > len(e.Data) {
				cut = len(e.Data) // always include the full encoding
			}
			data := e.Data[:cut]
			if skip[strconv.Itoa(ei)+":"+strconv.Itoa(cut)] {
				if cut == len(e.Data) {
					break
				}
				continue
			}
			if slow {
				fmt.Fprintf(progress, "C15RK %d %d -1 %s %s\n", ei, cut, e.Kind, e.Name)
				progress.Flush()
			}
			c15MkReader = func(b []byte) io.Reader { return bytes.NewReader(b) }
			refErr, _ := c15Safe(run, data)
			for ki, kd := range kinds {
				cas := []int{ei, cut, ki}
				if c.Skip(sub, cas...) {
					continue
				}
				if slow {
					fmt.Fprintf(progress, "C15RK %d %d %d %s %s\n", ei, cut, ki, e.Kind, e.Name)
					progress.Flush()
				}
				c15MkReader = kd.mk
				decodes++
				err, pan := c15Safe(run, data)
				detail := map[string]any{"entry": e.Name, "decoder": e.Kind, "prefix_bytes": cut, "of": len(e.Data), "reader": kd.name}
				if pan != "" {
					c.Violate(sub, "panic", fmt.Sprintf("%s.Decode (or a query on the value it returned) panics when the bytes arrive through a reader with short reads: %s", e.Kind, pan), cas, detail)
					continue
				}
				if (err == nil) != (refErr == nil) {
					detail["err_short_reads"], detail["err_bytes_reader"] = fmt.Sprint(err), fmt.Sprint(refErr)
					c.Violate(sub, "wrong-answer", fmt.Sprintf("%s.Decode accepts / rejects the same bytes differently when they arrive through a reader with short reads", e.Kind), cas, detail)
					continue
				}
				if err == nil {
					accepted++
				}
			}
			if cut == len(e.Data) {
				break
			}
		}
	}
	c.Eval(int(decodes))
	c.Count(sub+"/decodes", decodes)
	c.Count(sub+"/accepted", accepted)
}

type c15Plain struct{ r io.Reader }

func (p c15Plain) Read(b []byte) (int, error) { return p.r.Read(b) }

// c15Safe runs a decoder and, if it accepts, the query panel of the value; panics are returned as text.
func c15Safe(run func([]byte) (error, func()), data []byte) (err error, pan string) {
	defer func() {
		if r := recover(); r != nil {
			pan = fmt.Sprintf("%v at %s", r, core.GeoFrame(string(debug.Stack())))
		}
	}()
	var panel func()
	err, panel = run(data)
	if err == nil && panel != nil {
		panel()
	}
	return err, ""
}
