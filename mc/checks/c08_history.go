package checks

import (
	"fmt"
	"math"
	"sort"
	"sync/atomic"

	"github.com/golang/geo/s1"
	"github.com/golang/geo/s2"

	"verif/mc/core"
	"verif/mc/lattice"
)

// C08 sub-check "reuse-histories": ONE closest and ONE furthest EdgeQuery object live across a whole history of
// operations on one ShapeIndex.  After every querying step the answer of the long-lived object is compared with an
// exhaustive scan over the shapes the index holds at that moment and with a fresh query on a fresh index holding
// the same shapes.  All sequences up to a length bound over a small operation alphabet are enumerated.
//
// What is assumed from the documentation: a query on an index that was modified is only defined after
// EdgeQuery.Reset(); sequences that query a modified index without Reset() are therefore not part of the lattice.

const (
	c08OpFindPoint  = iota // FindEdges, point target next to the cluster
	c08OpFindCell          // FindEdges, cell target
	c08OpFindIndex         // FindEdges, ShapeIndex target (different brute-force threshold: the edge count is re-counted)
	c08OpThresholds        // Distance + IsDistanceLess / IsDistanceGreater (they run with private option copies)
	c08OpAdd               // ix.Add: 60-point cluster inside a cell that was one index cell, shapes on two other faces; then q.Reset()
	c08OpIxReset           // ix.Reset() and other shapes added; then q.Reset()
	c08OpQReset            // q.Reset() on both long-lived queries (without a modification)
	c08OpMutate            // the caller changes the options object the live queries were created with
	c08OpAddBare           // ix.Add as above WITHOUT q.Reset(): a later q.Reset() must come before the next query
	c08NumOps
)

var c08OpNames = [...]string{"FindEdges(point)", "FindEdges(cell)", "FindEdges(index)", "Distance+IsDistanceLess/Greater", "ix.Add(cluster+2 faces);q.Reset()", "ix.Reset();ix.Add(other shapes);q.Reset()", "q.Reset()", "change options", "ix.Add(cluster+2 faces)"}

// option sets of the histories (interiors off: the interiors rule is covered by the find-edges sub-check)
func c08HOpts(i int, furthest bool) c08Opts {
	mid := s1.ChordAngleFromAngle(lattice.Deg(50))
	if furthest {
		mid = s1.ChordAngleFromAngle(lattice.Deg(100))
	}
	switch i % 4 {
	case 0:
		return c08Opts{maxResults: 1}
	case 1:
		return c08Opts{maxResults: 1, maxError: s1.ChordAngleFromAngle(0.02)}
	case 2:
		return c08Opts{maxResults: 3}
	}
	return c08Opts{maxResults: 0, maxError: s1.ChordAngleFromAngle(0.02), limit: mid, hasLimit: true}
}

func c08HApply(o *s2.EdgeQueryOptions, v c08Opts, furthest bool) {
	if v.maxResults > 0 {
		o.MaxResults(v.maxResults)
	} else {
		o.MaxResults(math.MaxInt32)
	}
	switch {
	case v.hasLimit:
		o.DistanceLimit(v.limit)
	case furthest:
		o.DistanceLimit(s1.NegativeChordAngle)
	default:
		o.DistanceLimit(s1.InfChordAngle())
	}
	o.MaxError(v.maxError).IncludeInteriors(false).UseBruteForce(false)
}

type c08HStats struct {
	histories, illegal, steps, afterModification, liveVsFresh int64
}

func c08ShapeOf(s c08Shape) s2.Shape { return s.mk() }

func c08HInitial() []s2.Shape {
	return []s2.Shape{
		c08ShapeOf(c08Poly(c08Reg(0, 0, 5, 20))),
		c08ShapeOf(c08Line(-3, -8, 0.7, 2.1, 9)),
		c08ShapeOf(c08Cluster(40, -100, 1e-4, 4)), // four points: one index cell = one top-level cell of that face
	}
}

func c08HAdded(k int) []s2.Shape {
	f := float64(k)
	return []s2.Shape{
		c08ShapeOf(c08Cluster(40+0.0007*f, -100, 1e-4, 60)), // the single index cell becomes a subdivided region
		c08ShapeOf(c08Poly(c08Reg(0, 180, 3+f, 6))),         // another face
		c08ShapeOf(c08Line(80, 10*f, 1, 25, 6)),             // and the polar face
	}
}

func c08HOther() []s2.Shape {
	return []s2.Shape{
		c08ShapeOf(c08Line(5, -170, 0, 7, 36)),
		c08ShapeOf(c08Cluster(-30, 60, 1e-4, 3)),
	}
}

func c08Histories(c *core.Ctx) {
	maxLen := core.Pick(c, 3, 4)
	// all operation sequences of length 1..maxLen
	var seqs [][]int
	var gen func(prefix []int)
	gen = func(prefix []int) {
		if len(prefix) > 0 {
			seqs = append(seqs, append([]int(nil), prefix...))
		}
		if len(prefix) == maxLen {
			return
		}
		for op := 0; op < c08NumOps; op++ {
			gen(append(prefix, op))
		}
	}
	gen(nil)
	sort.SliceStable(seqs, func(a, b int) bool { return len(seqs[a]) < len(seqs[b]) })
	const variants = 8 // initial option set (4) x index prebuilt / built by the first query (2)
	c.Note("history_operation_alphabet", c08OpNames[:])
	c.Note("history_max_length", maxLen)
	c.Note("history_sequences", len(seqs))
	c.Note("history_variants(initial options x prebuilt)", variants)
	var hs c08HStats
	opt0 := atomic.LoadInt64(&s2.VerifEdgeQueryPaths.Optimized)
	c.ParallelFor(len(seqs)*variants, func(j int) {
		if c.Expired() {
			return
		}
		v, si := j%variants, j/variants
		if c.Skip("reuse-histories", v, si) {
			return
		}
		c08History(c, &hs, v, si, seqs[si])
	})
	if c.Expired() {
		c.CapHit("reuse-histories: wall budget reached")
	}
	c.Count("histories/run", hs.histories)
	c.Count("histories/not-in-lattice(query on a modified index without Reset)", hs.illegal)
	c.Count("histories/query-steps-checked", hs.steps)
	c.Count("histories/query-steps-after-index-modification-and-Reset", hs.afterModification)
	c.Count("histories/live-vs-fresh-query-comparisons", hs.liveVsFresh)
	c.Count("histories/optimized-searches(hook, incl. fresh and nested queries)", atomic.LoadInt64(&s2.VerifEdgeQueryPaths.Optimized)-opt0)
	if hs.afterModification == 0 && c.OnlySub == "" && !c.Expired() {
		panic(core.HarnessError("vacuous: no history queried after an index modification"))
	}
}

func c08History(c *core.Ctx, hs *c08HStats, variant, si int, seq []int) {
	// legality: a modification must be followed by q.Reset() before the next query
	pending := false
	for _, op := range seq {
		switch op {
		case c08OpAddBare:
			pending = true
		case c08OpQReset, c08OpAdd, c08OpIxReset:
			pending = false
		case c08OpFindPoint, c08OpFindCell, c08OpFindIndex, c08OpThresholds:
			if pending {
				atomic.AddInt64(&hs.illegal, 1)
				return
			}
		}
	}
	atomic.AddInt64(&hs.histories, 1)
	optSet, prebuilt := variant%4, variant/4 == 1
	cas := []int{variant, si}
	var names []string
	for _, op := range seq {
		names = append(names, c08OpNames[op])
	}
	step := -1
	detail := func(extra map[string]any) map[string]any {
		m := map[string]any{"history": names, "failing_step(0-based)": step, "initial_option_set": optSet, "index_prebuilt": prebuilt}
		for k, v := range extra {
			m[k] = v
		}
		return m
	}
	c.Guard("reuse-histories", cas, func() any { return detail(nil) }, func() {
		ix := s2.NewShapeIndex()
		var model []s2.Shape
		add := func(ss []s2.Shape) {
			for _, s := range ss {
				if id := ix.Add(s); int(id) != len(model) {
					panic(core.HarnessError("shape ids are not sequential"))
				}
				model = append(model, s)
			}
		}
		add(c08HInitial())
		if prebuilt {
			ix.Build()
		}
		var optObj [2]*s2.EdgeQueryOptions
		var q [2]*s2.EdgeQuery
		var cur [2]c08Opts
		optObj[0], optObj[1] = s2.NewClosestEdgeQueryOptions(), s2.NewFurthestEdgeQueryOptions()
		for d := 0; d < 2; d++ {
			cur[d] = c08HOpts(optSet, d == 1)
			c08HApply(optObj[d], cur[d], d == 1)
		}
		q[0], q[1] = s2.NewClosestEdgeQuery(ix, optObj[0]), s2.NewFurthestEdgeQuery(ix, optObj[1])
		nAdds, modified := 0, false
		pt := c08PointTarget("next-to-cluster", lattice.LL(39.9995, -100.0005))
		cl := c08CellTarget("at(1,1)", s2.CellFromPoint(lattice.LL(1, 1)).ID().Parent(8))
		it := c08IndexTarget("small-polyline-near(2,3)", c08Line(1.5, 2.5, 0.3, 0.4, 4))
		for k, op := range seq {
			step = k
			switch op {
			case c08OpAdd, c08OpAddBare:
				add(c08HAdded(nAdds))
				nAdds++
				modified = true
				if op == c08OpAdd {
					q[0].Reset()
					q[1].Reset()
				}
			case c08OpIxReset:
				ix.Reset()
				model = nil
				add(c08HOther())
				modified = true
				q[0].Reset()
				q[1].Reset()
			case c08OpQReset:
				q[0].Reset()
				q[1].Reset()
			case c08OpMutate:
				optSet++
				for d := 0; d < 2; d++ {
					cur[d] = c08HOpts(optSet, d == 1)
					c08HApply(optObj[d], cur[d], d == 1)
					// what the live query holds right after the change is what it has to honour from now on
					h := q[d].VerifOptions()
					cur[d].maxError = h.MaxError
					cur[d].maxResults = h.MaxResults
					if h.MaxResults == math.MaxInt32 {
						cur[d].maxResults = 0
					}
					cur[d].limit, cur[d].hasLimit = h.DistanceLimit, !(h.DistanceLimit.IsInfinity() || h.DistanceLimit < 0)
				}
			default:
				var tg *c08Target
				switch op {
				case c08OpFindPoint, c08OpThresholds:
					tg = &pt
				case c08OpFindCell:
					tg = &cl
				case c08OpFindIndex:
					tg = &it
				}
				for d := 0; d < 2; d++ {
					furthest := d == 1
					n := 0
					for _, s := range model {
						n += s.NumEdges()
					}
					c.Eval(1)
					atomic.AddInt64(&hs.steps, 1)
					if modified {
						atomic.AddInt64(&hs.afterModification, 1)
					}
					mk := func(t *c08Target) any {
						if furthest {
							return t.max()
						}
						return t.min()
					}
					// fresh index with the same shapes, fresh query with the same options
					fix := s2.NewShapeIndex()
					for _, s := range model {
						fix.Add(s)
					}
					fo := s2.NewClosestEdgeQueryOptions()
					if furthest {
						fo = s2.NewFurthestEdgeQueryOptions()
					}
					c08HApply(fo, cur[d], furthest)
					fq := s2.NewClosestEdgeQuery(fix, fo)
					if furthest {
						fq = s2.NewFurthestEdgeQuery(fix, fo)
					}
					if op == c08OpThresholds {
						c08HThresholds(c, cas, detail, q[d], fq, &pt, &cl, model, cur[d], furthest)
						continue
					}
					scan := c08HScan(mk(tg), model)
					got := c08Find(q[d], mk(tg))
					if msg := c08HVerify(got, scan, model, cur[d], furthest, tg.usesMaxError()); msg != "" {
						c.Violate("reuse-histories", "wrong-answer", "long-lived query: "+msg, cas, detail(map[string]any{"furthest": furthest, "options": cur[d].String(), "target": tg.name, "got_len": len(got), "got_first": fmt.Sprint(got[:minI(len(got), 5)]), "scan_best": fmt.Sprint(scan[:minI(len(scan), 5)]), "edges_in_index": n}))
					}
					fresh := c08Find(fq, mk(tg))
					if msg := c08HVerify(fresh, scan, model, cur[d], furthest, tg.usesMaxError()); msg != "" {
						c.Violate("reuse-histories", "wrong-answer", "fresh query on a fresh index with the same shapes: "+msg, cas, detail(map[string]any{"furthest": furthest, "options": cur[d].String(), "target": tg.name, "got_len": len(fresh), "edges_in_index": n}))
					}
					// live vs fresh, directly (when MaxError cannot make them differ)
					if cur[d].maxError == 0 {
						atomic.AddInt64(&hs.liveVsFresh, 1)
						same := len(got) == len(fresh)
						for i := 0; same && i < len(got); i++ {
							same = c08Near(got[i].dist, fresh[i].dist)
						}
						if !same {
							c.Violate("reuse-histories", "wrong-answer", "the long-lived query and a fresh query on a fresh index with the same shapes give different answers", cas, detail(map[string]any{"furthest": furthest, "options": cur[d].String(), "target": tg.name, "live": fmt.Sprint(got[:minI(len(got), 5)]), "fresh": fmt.Sprint(fresh[:minI(len(fresh), 5)])}))
						}
					}
				}
			}
		}
	})
}

// c08HScan returns the target's own distance to every edge the model holds, best first.
func c08HScan(tgt any, model []s2.Shape) []c08Res {
	var all []c08Res
	for si, s := range model {
		for e := 0; e < s.NumEdges(); e++ {
			if dd, ok := s2.VerifTargetDistanceToEdge(tgt, s.Edge(e)); ok {
				all = append(all, c08Res{float64(dd), int32(si), int32(e)})
			}
		}
	}
	return all
}

// c08HVerify compares one answer with the scan under the given options (interiors off).  Same rules as the
// find-edges sub-check: structure exactly, strictness at the limit exactly, completeness and optimality up to the
// documented error of the distance primitive and MaxError.
func c08HVerify(got, scan []c08Res, model []s2.Shape, o c08Opts, furthest, targetUsesME bool) string {
	better := func(a, b float64) bool {
		if furthest {
			return a > b
		}
		return a < b
	}
	zero := 0.0
	if furthest {
		zero = 4
	}
	lim := float64(o.limit)
	nothing := o.hasLimit && lim == zero
	byEdge := map[[2]int32]float64{}
	for _, r := range scan {
		byEdge[[2]int32{r.shape, r.edge}] = r.dist
	}
	seen := map[[2]int32]bool{}
	for i, r := range got {
		if r.shape < 0 || int(r.shape) >= len(model) || r.edge < 0 || int(r.edge) >= model[r.shape].NumEdges() {
			return "a reported (shape, edge) does not exist in the index (interiors are off)"
		}
		if i > 0 {
			p := got[i-1]
			if r.dist != p.dist && better(r.dist, p.dist) {
				return "results are not sorted by distance"
			}
			if r.dist == p.dist && (r.shape < p.shape || (r.shape == p.shape && r.edge < p.edge)) {
				return "results of equal distance are not ordered by (shape, edge)"
			}
		}
		k := [2]int32{r.shape, r.edge}
		if seen[k] {
			return "results contain the same (shape, edge) twice"
		}
		seen[k] = true
		if o.hasLimit && !better(r.dist, lim) {
			return "a reported distance is not strictly within the DistanceLimit"
		}
		d, ok := byEdge[k]
		if !ok {
			return "an edge was reported although the target reports no distance for it"
		}
		if targetUsesME && o.maxError > 0 {
			lo, hi := d, float64(s1.ChordAngle(d).Add(o.maxError))
			if furthest {
				lo, hi = float64(s1.ChordAngle(d).Sub(o.maxError)), d
			}
			if (r.dist < lo && !c08Near(r.dist, lo)) || (r.dist > hi && !c08Near(r.dist, hi)) {
				return "a reported distance is not within MaxError of the distance of that edge (target using MaxError)"
			}
		} else if !c08Near(d, r.dist) {
			return "a reported distance differs from the distance of that edge"
		}
	}
	if o.maxResults > 0 && len(got) > o.maxResults {
		return "more results than MaxResults"
	}
	var sure []float64
	nMaybe := 0
	if !nothing {
		for _, r := range scan {
			switch {
			case !o.hasLimit:
				sure = append(sure, r.dist)
			case c08Near(r.dist, lim):
				nMaybe++
			case better(r.dist, lim):
				sure = append(sure, r.dist)
			}
		}
	}
	sort.Slice(sure, func(a, b int) bool { return better(sure[a], sure[b]) })
	kcap := math.MaxInt32
	if o.maxResults > 0 {
		kcap = o.maxResults
	}
	lo, hi := minI(kcap, len(sure)), minI(kcap, len(sure)+nMaybe)
	if len(got) < lo || len(got) > hi {
		return "the number of results differs from the number of edges of the exhaustive scan that satisfy the options"
	}
	for i := 0; i < lo && i < len(got); i++ {
		allowed := sure[i]
		if o.maxError > 0 {
			allowed = float64(s1.ChordAngle(sure[i]).Add(o.maxError))
			if furthest {
				allowed = float64(s1.ChordAngle(sure[i]).Sub(o.maxError))
			}
		}
		if better(allowed, got[i].dist) && !c08Near(allowed, got[i].dist) {
			return "the i-th reported distance is worse than the i-th best distance of the exhaustive scan (beyond MaxError and the documented error of the distance primitive)"
		}
	}
	return ""
}

// c08HThresholds: Distance(point) and IsDistanceLess / IsDistanceGreater(cell, limit) on the long-lived query and on
// the fresh one.  Distance honours the DistanceLimit the query was configured with; the predicates use their own limit.
func c08HThresholds(c *core.Ctx, cas []int, detail func(map[string]any) map[string]any, live, fresh *s2.EdgeQuery, pt, cl *c08Target, model []s2.Shape, o c08Opts, furthest bool) {
	better := func(a, b float64) bool {
		if furthest {
			return a > b
		}
		return a < b
	}
	mk := func(t *c08Target) any {
		if furthest {
			return t.max()
		}
		return t.min()
	}
	best := func(t *c08Target, hasLimit bool, lim float64) (float64, bool, bool) {
		b, have, amb := 0.0, false, false
		for _, r := range c08HScan(mk(t), model) {
			if hasLimit && c08Near(r.dist, lim) {
				amb = true
				continue
			}
			if hasLimit && !better(r.dist, lim) {
				continue
			}
			if !have || better(r.dist, b) {
				b, have = r.dist, true
			}
		}
		return b, have, amb
	}
	for wi, qq := range []*s2.EdgeQuery{live, fresh} {
		who := []string{"long-lived query: ", "fresh query on a fresh index with the same shapes: "}[wi]
		b, have, amb := best(pt, o.hasLimit, float64(o.limit))
		gotD := c08Distance(qq, mk(pt))
		sentinel := furthest && gotD < 0 || !furthest && gotD.IsInfinity()
		if !amb {
			if !have && !sentinel {
				c.Violate("reuse-histories", "wrong-answer", who+"Distance is not the sentinel although no edge is within the configured DistanceLimit", cas, detail(map[string]any{"furthest": furthest, "options": o.String(), "got": float64(gotD)}))
			} else if have && (sentinel || !c08Near(float64(gotD), b)) {
				// MaxError: Distance may be up to MaxError worse than the optimum
				allowed := float64(s1.ChordAngle(b).Add(o.maxError))
				if furthest {
					allowed = float64(s1.ChordAngle(b).Sub(o.maxError))
				}
				if sentinel || better(float64(gotD), b) || (better(allowed, float64(gotD)) && !c08Near(allowed, float64(gotD))) {
					c.Violate("reuse-histories", "wrong-answer", who+"Distance differs from the optimum of the exhaustive scan (beyond MaxError)", cas, detail(map[string]any{"furthest": furthest, "options": o.String(), "got": float64(gotD), "optimum": b}))
				}
			}
		}
		lim := float64(s1.ChordAngleFromAngle(lattice.Deg(30)))
		if furthest {
			lim = float64(s1.ChordAngleFromAngle(lattice.Deg(150)))
		}
		bc, havec, _ := best(cl, false, 0)
		if furthest {
			got := c08Greater(qq, mk(cl), s1.ChordAngle(lim))
			if want := havec && bc > lim; got != want && !(havec && c08Near(bc, lim)) {
				c.Violate("reuse-histories", "wrong-answer", who+"IsDistanceGreater differs from comparing the scan's optimum with the limit", cas, detail(map[string]any{"options": o.String(), "got": got, "optimum": bc, "limit": lim}))
			}
		} else {
			got := c08Less(qq, mk(cl), s1.ChordAngle(lim))
			if want := havec && bc < lim; got != want && !(havec && c08Near(bc, lim)) {
				c.Violate("reuse-histories", "wrong-answer", who+"IsDistanceLess differs from comparing the scan's optimum with the limit", cas, detail(map[string]any{"options": o.String(), "got": got, "optimum": bc, "limit": lim}))
			}
		}
	}
}
