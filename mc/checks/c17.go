package checks

import (
	"fmt"
	"math"
	"math/big"
	"sync"
	"time"

	"github.com/golang/geo/r3"
	"github.com/golang/geo/s1"
	"github.com/golang/geo/s2"

	"verif/mc/core"
	"verif/mc/exact"
	"verif/mc/lattice"
	"verif/mc/refmodel"
)

// C17 — edge distance / projection / interpolation primitives meet their
// documented error bounds (engine E3: edges x query points enumerated over
// lattices built from the special positions; reference distances from exact
// integer arithmetic finished in 320-bit floating point, the reference's own
// error added to the implementation's side; the bound checked is the one the
// library documents, read through the verif hooks).

func init() {
	Registry["C17"] = &Check{Level: "exploration", QuickBudget: 90, ThoroughBudget: 900, Run: runC17}
}

const (
	c17Eps = 0x1p-52 // dblEpsilon
	// Project / Interpolate / EdgePairClosestPoints / Polyline have no documented
	// numerical bound.  The tolerance used for them is 1e-14 rad, ten times the
	// ApproxEqual tolerance (1e-15) that golang/geo's own tests apply to the same
	// functions; for projections it is divided by the cosine of the distance to
	// the great circle (the conditioning of the projection).
	c17Tol = 1e-14
)

type c17Local struct {
	cnt map[string]int64
	max map[string]float64
}

func newC17Local() *c17Local { return &c17Local{cnt: map[string]int64{}, max: map[string]float64{}} }

func (l *c17Local) ratio(name string, v float64) {
	if v > l.max[name] {
		l.max[name] = v
	}
}

type c17State struct {
	c   *core.Ctx
	mu  sync.Mutex
	max map[string]float64
}

func (st *c17State) merge(l *c17Local) {
	for k, v := range l.cnt {
		st.c.Count(k, v)
	}
	st.mu.Lock()
	for k, v := range l.max {
		if v > st.max[k] {
			st.max[k] = v
		}
	}
	st.mu.Unlock()
}

func c17P(p s2.Point) [3]float64 { return [3]float64{p.X, p.Y, p.Z} }

func c17N(v r3.Vector) s2.Point { return s2.Point{Vector: v.Normalize()} }

var (
	c17NormLo = func() exact.S { d := exact.Int(1).Sub(exact.S{M: big.NewInt(1), E: -51}); return d.Mul(d) }()
	c17NormHi = func() exact.S { d := exact.Int(1).Add(exact.S{M: big.NewInt(1), E: -51}); return d.Mul(d) }()
)

// c17NormOK: the documented assumption of every bound checked here is that the
// points are normalized as by Normalize, "within 2*dblEpsilon of unit length".
func c17NormOK(p s2.Point) bool {
	if f := p.X + p.Y + p.Z; math.IsNaN(f) || math.IsInf(f, 0) {
		return false
	}
	n2 := exact.FromVector(p.Vector).Norm2()
	return n2.Cmp(c17NormLo) >= 0 && n2.Cmp(c17NormHi) <= 0
}

func c17Finite(p s2.Point) bool {
	f := p.X + p.Y + p.Z
	return !math.IsNaN(f) && !math.IsInf(f, 0)
}

func c17HPle(a, b *big.Float) bool { return a.Cmp(b) <= 0 }

// c17Chord2Tol is the squared chord of the tolerance angle t (chord <= angle).
func c17Chord2Tol(t float64) *big.Float { h := exact.HP(t); return exact.HPMul(h, h) }

// c17Edge is one enumerated edge with the frame used to place query points.
type c17Edge struct {
	a, b   s2.Point
	dir, n r3.Vector // unit tangent at a towards b; unit normal of the plane
	length float64
	degen  bool
	short  bool // non-degenerate but shorter than 1e-15 rad (below the range the property names)
	name   string
}

func c17At(x s2.Point, dir r3.Vector, h float64) s2.Point {
	return c17N(x.Mul(math.Cos(h)).Add(dir.Mul(math.Sin(h))))
}

func c17Bases(c *core.Ctx) []s2.Point {
	b := []s2.Point{
		lattice.LL(37.25, -122.5),
		lattice.FaceSiTiPoint(0, 1<<30, 1<<30), // face centre (1,0,0)
		lattice.FaceSiTiPoint(0, 1<<31, 1<<31), // cube corner
	}
	if !c.Quick() {
		b = append(b, s2.OriginPoint(), lattice.LL(-89.9999, 10), lattice.FaceSiTiPoint(2, 1<<30, 1<<30), lattice.FaceSiTiPoint(1, 0, 1<<30))
	}
	return b
}

func c17Edges(c *core.Ctx) []c17Edge {
	lens := core.Pick(c,
		[]float64{0, -1, 1e-15, 1e-12, 1e-8, 1e-4, 1e-2, 0.5, 1, math.Pi / 2, 2, 3, math.Pi - 1e-3, math.Pi - 1e-6},
		[]float64{0, -1, 1e-15, 1e-12, 1e-10, 1e-8, 1e-6, 1e-4, 1e-2, 0.1, 0.5, 1, 1.5, math.Pi / 2, 2, 2.5, 3, math.Pi - 1e-2, math.Pi - 1e-3, math.Pi - 1e-6, math.Pi - 1e-9, math.Pi - 1e-12})
	azs := core.Pick(c, []float64{0.3, 2.0}, []float64{0.3, 2.0, 4.1})
	var out []c17Edge
	for bi, a := range c17Bases(c) {
		for _, az := range azs {
			u0 := s2.Ortho(a).Vector
			v0 := a.Cross(u0).Normalize()
			dir := u0.Mul(math.Cos(az)).Add(v0.Mul(math.Sin(az))).Normalize()
			n := a.Cross(dir).Normalize()
			for _, L := range lens {
				e := c17Edge{a: a, dir: dir, n: n, length: L, name: fmt.Sprintf("base%d az=%g len=%g", bi, az, L)}
				switch {
				case L == 0:
					e.b, e.degen = a, true
				case L < 0: // the nearest normalized neighbour of a: a few ulps long
					e.length = 0
					for _, q := range lattice.PUlp(a, 1) {
						if q != a && c17NormOK(q) {
							e.b = q
							break
						}
					}
					e.name = fmt.Sprintf("base%d az=%g len=1ulp", bi, az)
					e.short = true
				default:
					e.b = c17At(a, dir, L)
				}
				if e.b == a {
					e.degen = true
				}
				out = append(out, e)
			}
			if bi == 1 {
				// around the axis point (1,0,0) coordinates can differ far below one ulp of 1
				for _, h := range core.Pick(c, []float64{1e-300, 1e-170, 1e-100, 1e-20}, []float64{5e-324, 1e-300, 1e-200, 1e-170, 1e-160, 1e-150, 1e-100, 1e-50, 1e-20, 1e-17}) {
					b := s2.Point{Vector: a.Add(dir.Mul(h))}
					if b == a || !c17NormOK(b) {
						continue
					}
					out = append(out, c17Edge{a: a, b: b, dir: dir, n: n, length: h, short: true, name: fmt.Sprintf("base%d az=%g len=%g", bi, az, h)})
				}
			}
		}
	}
	return out
}

// c17Queries returns the query points of an edge: on the great circle at
// fractions t (inside, at and beyond the endpoints), displaced perpendicular to
// the edge by r on both sides (up to the pole of the edge and the antipode),
// the interior/endpoint decision boundary (great circles through a and b
// perpendicular to the edge) with all ulp neighbours, and ulp neighbours of
// points on the edge and of antipodes.
func c17Queries(c *core.Ctx, e c17Edge) []s2.Point {
	ts := core.Pick(c,
		[]float64{-0.5, -1e-9, 0, 1e-9, 0.25, 0.5, 1 - 1e-9, 1, 1 + 1e-9, 1.5},
		[]float64{-1, -0.5, -1e-3, -1e-9, 0, 0x1p-52, 1e-9, 1e-3, 0.25, 0.5, 0.75, 1 - 1e-3, 1 - 1e-9, 1 - 0x1p-53, 1, 1 + 1e-9, 1 + 1e-3, 1.5, 2})
	rs := core.Pick(c,
		[]float64{0, 1e-15, 1e-8, 1e-3, 0.5, 1, math.Pi/2 - 1e-3, math.Pi/2 - 1e-8, math.Pi / 2, math.Pi/2 + 1e-8, math.Pi/2 + 1e-3, 2, math.Pi - 1e-3, math.Pi - 1e-8, math.Pi},
		[]float64{0, 1e-15, 1e-12, 1e-8, 1e-5, 1e-3, 0.1, 0.5, 1, 1.5, math.Pi/2 - 1e-3, math.Pi/2 - 1e-6, math.Pi/2 - 1e-8, math.Pi/2 - 1e-12, math.Pi / 2, math.Pi/2 + 1e-12, math.Pi/2 + 1e-8, math.Pi/2 + 1e-3, 2, 2.5, 3, math.Pi - 1e-3, math.Pi - 1e-8, math.Pi - 1e-12, math.Pi})
	L := e.length
	if e.degen || L == 0 {
		L = 1e-3 // for a degenerate edge the fractions are placed along an arbitrary direction
	}
	var out []s2.Point
	out = append(out, e.a, e.b)
	onLine := func(t float64) s2.Point { return c17At(e.a, e.dir, t*L) }
	for _, t := range ts {
		p := onLine(t)
		for _, r := range rs {
			if r == 0 {
				out = append(out, p)
				continue
			}
			out = append(out, c17N(p.Mul(math.Cos(r)).Add(e.n.Mul(math.Sin(r)))))
			if r < math.Pi {
				out = append(out, c17N(p.Mul(math.Cos(r)).Sub(e.n.Mul(math.Sin(r)))))
			}
		}
	}
	k := core.Pick(c, 1, 2)
	rb := core.Pick(c, []float64{1e-8, 1e-3, 0.5, 1, math.Pi/2 - 1e-3, 2}, []float64{1e-12, 1e-8, 1e-5, 1e-3, 0.1, 0.5, 1, 1.5, math.Pi/2 - 1e-3, math.Pi/2 - 1e-8, 2, 3})
	for _, end := range []s2.Point{e.a, e.b} {
		for _, r := range rb {
			for _, sg := range []float64{1, -1} {
				q := c17N(end.Mul(math.Cos(r)).Add(e.n.Mul(sg * math.Sin(r))))
				for _, qq := range lattice.PUlp(q, k) {
					if c17NormOK(qq) {
						out = append(out, qq)
					}
				}
			}
		}
	}
	for _, base := range []s2.Point{e.a, e.b, onLine(0.5), {Vector: onLine(0.5).Mul(-1)}, {Vector: e.a.Mul(-1)}, {Vector: e.n}} {
		for _, qq := range lattice.PUlp(base, 1) {
			if c17NormOK(qq) {
				out = append(out, qq)
			}
		}
	}
	return out
}

func c17EdgeUsable(a, b s2.Point) bool {
	// documented exclusion: the bounds do not hold for edges whose endpoints are
	// antipodal to within about 1e-15 rad (ten times that is excluded here)
	return float64(a.Angle(b.Vector)) <= math.Pi-1e-14
}

func c17KindName(k exact.EdgeCase) string {
	switch k {
	case exact.EdgeDegenerate:
		return "degenerate edge"
	case exact.EdgeInterior:
		return "closest point interior"
	case exact.EdgeEndpointA, exact.EdgeEndpointB:
		return "closest point an endpoint"
	}
	return "antipodal"
}

// maxErr evaluates the documented error function at the computed and at the true
// distance and returns the larger value.
func c17MinErr(d s1.ChordAngle, trueC2 *big.Float) float64 {
	e := s2.VerifMinUpdateDistanceMaxError(d)
	t := exact.HPFloat64(trueC2)
	if t >= 0 && t <= 4 {
		if e2 := s2.VerifMinUpdateDistanceMaxError(s1.ChordAngle(t)); e2 > e {
			e = e2
		}
	}
	return e
}

// pointEdge checks every point-to-edge primitive for one (x, edge).
func (st *c17State) pointEdge(sub string, cas []int, x s2.Point, e c17Edge, l *c17Local) {
	c := st.c
	a, b := e.a, e.b
	det := func(extra map[string]any) map[string]any {
		m := map[string]any{"tier": c.Tier, "x": c17P(x), "a": c17P(a), "b": c17P(b), "edge": e.name}
		for k, v := range extra {
			m[k] = v
		}
		return m
	}
	X, A, B := exact.FromVector(x.Vector), exact.FromVector(a.Vector), exact.FromVector(b.Vector)
	dmin, kind := exact.HPEdgeMinChord2(X, A, B)
	dmax, _ := exact.HPEdgeMaxChord2(X, A, B)
	if dmin == nil || dmax == nil {
		l.cnt[sub+"/skipped_antipodal_edge"]++
		return
	}
	kn := c17KindName(kind)
	l.cnt[sub+"/cases_"+kn]++
	refErr := exact.HPRefErr()

	var d, dAlways s1.ChordAngle
	var ok bool
	var theta s1.Angle
	okCall := false
	c.Guard(sub, cas, func() any { return det(nil) }, func() {
		d, ok = s2.UpdateMinDistance(x, a, b, s1.InfChordAngle())
		theta = s2.DistanceFromSegment(x, a, b)
		okCall = true
	})
	if !okCall {
		return
	}
	_ = dAlways
	if ok && d < 1 && exact.HPFloat64(dmin) > 3.99 && exact.HPFloat64(exact.HPChord2(A, B)) < 1e-28 {
		// one root cause, reported once per case under its own descriptor
		c.Violate(sub, "wrong-answer", "edge a few ulps long and x next to the antipode of the edge: the interior case is chosen by rounding noise and UpdateMinDistance / DistanceFromSegment / IsDistanceLess report a distance near 0 instead of pi", cas,
			det(map[string]any{"UpdateMinDistance": float64(d), "DistanceFromSegment": float64(theta), "exact_chord2": exact.HPFloat64(dmin), "a_and_b_exactly_parallel": A.Cross(B).IsZero()}))
		return
	}
	if ok && d > 4 && !d.IsInfinity() {
		desc := "UpdateMinDistance returns a squared chord length above 4 (vertex distance not clamped to 4: invalid ChordAngle)"
		if math.IsNaN(float64(theta)) {
			desc = "UpdateMinDistance returns a squared chord length above 4 (vertex distance not clamped to 4: invalid ChordAngle) and DistanceFromSegment returns NaN"
		}
		c.Violate(sub, "wrong-answer", desc, cas,
			det(map[string]any{"UpdateMinDistance": float64(d), "DistanceFromSegment": fmt.Sprint(float64(theta)), "exact_chord2": exact.HPFloat64(dmin)}))
		return
	}
	if !ok || math.IsNaN(float64(d)) || d < 0 || d > 4 {
		c.Violate(sub, "wrong-answer", fmt.Sprintf("UpdateMinDistance(x,a,b,Infinity) does not return a valid updated distance (%s)", kn), cas, det(map[string]any{"UpdateMinDistance": []any{fmt.Sprint(float64(d)), ok}}))
		return
	}
	// (1) documented bound of UpdateMinDistance.
	E := c17MinErr(d, dmin)
	diff := exact.HPAbs(exact.HPSub(exact.HP(float64(d)), dmin))
	l.ratio("max_error_over_documented_bound/UpdateMinDistance ("+kn+")", exact.HPFloat64(diff)/E)
	if !c17HPle(diff, exact.HPAdd(exact.HP(E), refErr)) {
		c.Violate(sub, "bound-exceeded", fmt.Sprintf("UpdateMinDistance differs from the exact distance by more than minUpdateDistanceMaxError (%s)", kn), cas,
			det(map[string]any{"computed_chord2": float64(d), "exact_chord2": exact.HPFloat64(dmin), "documented_max_error": E, "error_over_bound": exact.HPFloat64(diff) / E}))
	}
	// (2) DistanceFromSegment is the same quantity as an angle.
	if theta != d.Angle() {
		c.Violate(sub, "wrong-answer", "DistanceFromSegment differs from the angle of the distance computed by UpdateMinDistance", cas,
			det(map[string]any{"DistanceFromSegment": float64(theta), "UpdateMinDistance_angle": float64(d.Angle())}))
	}
	{
		// the exact distance widened by the documented error, converted to an angle
		// interval; the conversion 2*asin(sqrt(c)/2) in float64 is given 2 eps on its
		// argument and 4 eps on its result.
		lo := exact.HPSub(dmin, exact.HPAdd(exact.HP(E), refErr))
		hi := exact.HPAdd(dmin, exact.HPAdd(exact.HP(E), refErr))
		toAngle := func(c2 *big.Float, f float64) *big.Float {
			if c2.Sign() <= 0 {
				return exact.HPInt(0)
			}
			h := exact.HPMul(exact.HPQuo(exact.HPSqrt(exact.HPMin(c2, exact.HPInt(4))), exact.HPInt(2)), exact.HP(1+f*2*c17Eps))
			if h.Cmp(exact.HPInt(1)) > 0 {
				h = exact.HPInt(1)
			}
			return exact.HPMul(exact.HPMul(exact.HPInt(2), exact.HPAsin(h)), exact.HP(1+f*4*c17Eps))
		}
		tlo, thi := toAngle(lo, -1), toAngle(hi, 1)
		th := exact.HP(float64(theta))
		if math.IsNaN(float64(theta)) || th.Cmp(exact.HPSub(tlo, refErr)) < 0 || th.Cmp(exact.HPAdd(thi, refErr)) > 0 {
			c.Violate(sub, "bound-exceeded", fmt.Sprintf("DistanceFromSegment is outside the angle interval of the exact distance widened by minUpdateDistanceMaxError (%s)", kn), cas,
				det(map[string]any{"DistanceFromSegment": float64(theta), "allowed_lo": exact.HPFloat64(tlo), "allowed_hi": exact.HPFloat64(thi)}))
		}
	}
	// (3) threshold forms agree with comparing the computed distance to the threshold.
	for _, lim := range []s1.ChordAngle{0, d.Predecessor(), d, d.Successor(), s1.StraightChordAngle, s1.InfChordAngle()} {
		lim := lim
		c.Guard(sub, cas, func() any { return det(map[string]any{"limit": float64(lim)}) }, func() {
			got, upd := s2.UpdateMinDistance(x, a, b, lim)
			less := s2.IsDistanceLess(x, a, b, lim)
			l.cnt[sub+"/threshold_forms"]++
			// The value computed with a threshold may legitimately be the (smaller)
			// vertex estimate when the interior estimate is not below the threshold, so
			// the agreement is asserted in the forms that hold for either estimate:
			// the two threshold APIs agree; "not less" is only reported when the distance
			// computed without a threshold is not less; an updated value is below the
			// threshold, not above the unthresholded value, and inside the documented bound.
			bad := ""
			switch {
			case upd != less:
				bad = "IsDistanceLess and UpdateMinDistance disagree with each other"
			case !upd && got != lim:
				bad = "UpdateMinDistance changed the value without reporting an update"
			case !upd && d < lim:
				bad = "the threshold form reports not-less although the distance computed without a threshold is less than the threshold"
			case upd && !(got < lim):
				bad = "UpdateMinDistance reports an update with a value that is not below the threshold"
			case upd && got > d:
				bad = "UpdateMinDistance with a threshold returns more than without a threshold"
			case upd:
				Eg := c17MinErr(got, dmin)
				if !c17HPle(exact.HPAbs(exact.HPSub(exact.HP(float64(got)), dmin)), exact.HPAdd(exact.HP(Eg), refErr)) {
					bad = "UpdateMinDistance with a threshold returns a value outside minUpdateDistanceMaxError of the exact distance"
				}
			}
			if upd && !(d < lim) {
				l.cnt[sub+"/threshold_forms_answered_from_the_smaller_vertex_estimate"]++
			}
			if bad != "" {
				c.Violate(sub, "wrong-answer", fmt.Sprintf("threshold forms: %s (%s)", bad, kn), cas,
					det(map[string]any{"computed_distance_without_threshold": float64(d), "limit": float64(lim), "limit_minus_distance_in_ulps": c17UlpDiff(float64(lim), float64(d)), "UpdateMinDistance": []any{float64(got), upd}, "IsDistanceLess": less}))
			}
		})
	}
	// (4) interior distance: a one-sided witness and the documented bound.
	{
		var di s1.ChordAngle
		var iok bool
		c.Guard(sub, cas, func() any { return det(nil) }, func() {
			di, iok = s2.UpdateMinInteriorDistance(x, a, b, s1.InfChordAngle())
		})
		if iok {
			l.cnt[sub+"/interior_distance_reported"]++
			Ei := math.Max(c17MinErr(di, dmin), E)
			df := exact.HPAbs(exact.HPSub(exact.HP(float64(di)), dmin))
			if math.IsNaN(float64(di)) || !c17HPle(df, exact.HPAdd(exact.HP(Ei), refErr)) {
				c.Violate(sub, "bound-exceeded", fmt.Sprintf("UpdateMinInteriorDistance reports an interior distance that differs from the exact minimum distance by more than the documented error (%s)", kn), cas,
					det(map[string]any{"computed_chord2": float64(di), "exact_chord2": exact.HPFloat64(dmin), "documented_max_error": Ei}))
			}
		} else if kind == exact.EdgeInterior && c17ClearlyInterior(X, A, B) {
			c.Violate(sub, "wrong-answer", "UpdateMinInteriorDistance(…, Infinity) reports no interior minimum although x lies well inside the wedge of the edge", cas, det(nil))
		}
	}
	// (5) maximum distance.
	{
		var D s1.ChordAngle
		var mok bool
		c.Guard(sub, cas, func() any { return det(nil) }, func() {
			D, mok = s2.UpdateMaxDistance(x, a, b, s1.NegativeChordAngle)
		})
		if !mok || math.IsNaN(float64(D)) || D < 0 || D > 4 {
			c.Violate(sub, "wrong-answer", fmt.Sprintf("UpdateMaxDistance(x,a,b,Negative) returned (%v,%v): not a valid updated distance", float64(D), mok), cas, det(nil))
		} else {
			// no bound is documented for the maximum; by construction it is 4 minus the
			// minimum distance from -x, or a vertex distance: allow the documented error
			// of those two plus the rounding of the subtraction.
			Em := s2.VerifMinUpdateDistanceMaxError(s1.ChordAngle(math.Max(0, 4-float64(D)))) + D.MaxPointError() + 4*c17Eps
			if D <= s1.RightChordAngle && !e.degen {
				// The implementation switches to the interior computation only when a vertex
				// distance exceeds 90 degrees; at the switch the farthest interior point can be
				// farther than the vertices by the vertex rounding error times 2/(pi - |ab|).
				if eta := math.Pi - exact.HPFloat64(exact.HPAngle(A, B)); eta > 0 {
					Em += s1.RightChordAngle.MaxPointError() * math.Max(1, 2/eta)
				}
			}
			df := exact.HPAbs(exact.HPSub(exact.HP(float64(D)), dmax))
			l.ratio("max_error_over_allowed/UpdateMaxDistance", exact.HPFloat64(df)/Em)
			if !c17HPle(df, exact.HPAdd(exact.HP(Em), refErr)) {
				c.Violate(sub, "bound-exceeded", "UpdateMaxDistance differs from the exact maximum distance by more than the documented errors of its parts", cas,
					det(map[string]any{"computed_chord2": float64(D), "exact_chord2": exact.HPFloat64(dmax), "allowed_error": Em}))
			}
			for _, lim := range []s1.ChordAngle{0, D.Predecessor(), D, D.Successor(), s1.StraightChordAngle} {
				lim := lim
				c.Guard(sub, cas, func() any { return det(map[string]any{"limit": float64(lim)}) }, func() {
					got, upd := s2.UpdateMaxDistance(x, a, b, lim)
					want := lim < D
					wantV := lim
					if want {
						wantV = D
					}
					if upd != want || got != wantV {
						c.Violate(sub, "wrong-answer", "UpdateMaxDistance with a threshold disagrees with comparing the computed distance to the threshold", cas,
							det(map[string]any{"computed_distance": float64(D), "limit": float64(lim), "got": []any{float64(got), upd}}))
					}
				})
			}
		}
	}
	// (6) Project realises the distance and lies on the edge.
	{
		var p s2.Point
		c.Guard(sub, cas, func() any { return det(nil) }, func() { p = s2.Project(x, a, b) })
		cos2 := exact.HPInt(1)
		if !e.degen {
			N := A.Cross(B)
			if !N.IsZero() {
				xn := X.Dot(N)
				cos2 = exact.HPSub(exact.HPInt(1), exact.HPRatio(xn.Mul(xn), X.Norm2().Mul(N.Norm2())))
			}
		}
		switch {
		case !c17Finite(p) || !p.IsUnit():
			c.Violate(sub, "wrong-answer", fmt.Sprintf("Project returns a point that is not unit length (%s)", kn), cas, det(map[string]any{"Project": fmt.Sprint(p.Vector)}))
		case cos2.Cmp(exact.HP(1e-6)) < 0:
			l.cnt[sub+"/Project_not_judged_x_within_1e-3_of_the_pole_of_the_edge"]++
		default:
			l.cnt[sub+"/Project_judged"]++
			tol := c17Tol / math.Sqrt(exact.HPFloat64(cos2))
			P := exact.FromVector(p.Vector)
			onEdge, _ := exact.HPEdgeMinChord2(P, A, B)
			chordXP := exact.HPSqrt(exact.HPChord2(X, P))
			lim := exact.HPAdd(exact.HPSqrt(dmin), exact.HP(tol))
			l.ratio("max_error_over_tolerance/Project distance from the edge", math.Sqrt(exact.HPFloat64(onEdge))/tol)
			l.ratio("max_error_over_tolerance/Project excess distance from x", (exact.HPFloat64(chordXP)-math.Sqrt(exact.HPFloat64(dmin)))/tol)
			if !c17HPle(onEdge, c17Chord2Tol(tol)) {
				c.Violate(sub, "bound-exceeded", fmt.Sprintf("Project returns a point that is not on the edge (farther than 1e-14/cos rad; %s)", kn), cas,
					det(map[string]any{"Project": c17P(p), "distance_from_edge": math.Sqrt(exact.HPFloat64(onEdge)), "tolerance": tol}))
			} else if !c17HPle(chordXP, lim) {
				c.Violate(sub, "bound-exceeded", fmt.Sprintf("Project returns a point that does not realise the minimum distance (excess more than 1e-14/cos rad; %s)", kn), cas,
					det(map[string]any{"Project": c17P(p), "distance_x_to_Project": exact.HPFloat64(chordXP), "exact_min_distance_chord": math.Sqrt(exact.HPFloat64(dmin)), "tolerance": tol}))
			}
		}
	}
}

func c17UlpDiff(a, b float64) float64 {
	if math.IsInf(a, 0) || math.IsInf(b, 0) || a < 0 || b < 0 {
		return math.NaN()
	}
	return float64(int64(math.Float64bits(a)) - int64(math.Float64bits(b)))
}

// c17ClearlyInterior: x is inside the wedge of ab by at least 1e-6 in the sine of
// both wedge angles (a sufficient condition for the interior case).
func c17ClearlyInterior(X, A, B exact.V) bool {
	N := A.Cross(B)
	if N.IsZero() {
		return false
	}
	m := exact.HP(1e-6)
	f := func(u exact.V) bool {
		d := u.Dot(X)
		if d.Sign() <= 0 {
			return false
		}
		r := exact.HPRatio(d.Mul(d), u.Norm2().Mul(X.Norm2()))
		return r.Cmp(exact.HPMul(m, m)) > 0
	}
	return f(N.Cross(A)) && f(B.Cross(N))
}

func runC17(c *core.Ctx) {
	c.Rule = "point-edge: every edge of the alphabet (base points x azimuths x lengths {0, 1 ulp, 1e-15 .. pi-1e-6 (pi-1e-12 thorough)}) x every query point of the edge (on the great circle at fractions inside/at/beyond the endpoints, displaced perpendicular by r in {0 .. pi} on both sides, every ulp neighbour of points on the two great circles through the endpoints perpendicular to the edge (the interior/endpoint decision boundary), of points on the edge, of antipodes and of the pole); interpolate: every edge x fractions {0, 2^-52, 1e-9, 1/4, 1/2, 1-2^-53, 1, beyond}; edge pairs: every edge x all ordered pairs of 13 placed points as second edge; polylines: all vertex sequences of length 1..4 (5 thorough) over a 9-point alphabet (separations 1e-170, 1e-9, 1e-3, 1, 2, pi-1e-3; a point next to the pole; a face centre) x fractions {-0.5, 0, 2^-52, 1e-9, 1/4, 1/2, 1-2^-53, 1, 1.5} x 10 probes. ulp-edge-antipode: every edge from a base point to each of its ulp neighbours x every 2-ulp neighbour of the antipodes of its endpoints and of the endpoint. non-trivial = point-edge cases whose exact closest point is interior or that lie within 1e-6 of the interior/endpoint decision boundary, every ulp-edge-antipode case, plus edge pairs and polyline cases judged"
	c.Assume = []string{
		"reference distances: exact big.Int dot/cross products, wedge membership by exact signs, square roots and asin/atan2 in 320-bit floating point (absolute error budget 2^-280 added to the implementation's side)",
		"inputs are filtered to |norm-1| <= 2*dblEpsilon (the documented assumption of minUpdateDistanceMaxError / MaxPointError) and edges within 1e-14 rad of antipodal are excluded (documented TODO: the bound does not hold within about 1e-15)",
		"the bound for UpdateMinDistance/IsDistanceLess/UpdateMinInteriorDistance is s2.VerifMinUpdateDistanceMaxError evaluated at the computed and at the exact distance (the larger one)",
		"UpdateMaxDistance has no documented bound: allowed error = minUpdateDistanceMaxError(4-D) + MaxPointError(D) + 4 eps (the errors of its parts)",
		"Project, Interpolate, DistanceFraction, EdgePairClosestPoints and the Polyline methods have no documented numerical bound: tolerance 1e-14 rad (10x the ApproxEqual tolerance of golang/geo's own tests), divided by cos(distance to the great circle) for projections; query points within 1e-3 rad of the pole of an edge are not judged for Project",
		"Polyline inputs satisfy Validate (adjacent vertices neither identical nor antipodal)",
		"nothing is asserted off the lattice (DESIGN L1)",
	}
	if c.OnlySub != "" { // replay: case indices are lattice coordinates of the recording tier
		if m, ok := c.ReplayDetail.(map[string]any); ok {
			if t, ok := m["tier"].(string); ok && (t == "quick" || t == "thorough") {
				c.Tier = t
			}
		}
	}
	if msg := exact.HPSelfTest(); msg != "" {
		panic(core.HarnessError("high-precision self-test failed: " + msg))
	}
	st := &c17State{c: c, max: map[string]float64{}}
	for _, p := range []struct {
		name string
		f    func(*core.Ctx, *c17State)
	}{{"point-edge", c17PointEdge}, {"ulp-edge-antipode", c17UlpEdgeAntipode}, {"interpolate", c17Interpolate}, {"edge-pairs", c17EdgePairs}, {"polyline", c17Polylines}} {
		t0 := time.Now()
		p.f(c, st)
		c.Note(p.name+"/wall_s", time.Since(t0).Seconds())
	}
	c.Note("largest_observed_error_relative_to_bound", st.max)
}

func c17PointEdge(c *core.Ctx, st *c17State) {
	const sub = "point-edge"
	edges := c17Edges(c)
	c.Note(sub+"/edges", len(edges))
	cut := false
	c.ParallelFor(len(edges), func(i int) {
		l := newC17Local()
		defer st.merge(l)
		e := edges[i]
		if !c17NormOK(e.a) || !c17NormOK(e.b) {
			panic(core.HarnessError("C17: edge endpoint is not normalized: " + e.name))
		}
		if !c17EdgeUsable(e.a, e.b) {
			l.cnt[sub+"/skipped_edge_within_1e-14_of_antipodal"]++
			return
		}
		qs := c17Queries(c, e)
		A, B := exact.FromVector(e.a.Vector), exact.FromVector(e.b.Vector)
		for j, x := range qs {
			if c.Skip(sub, i, j) {
				continue
			}
			if c.Expired() {
				cut = true
				return
			}
			if !c17NormOK(x) {
				l.cnt[sub+"/skipped_query_not_normalized"]++
				continue
			}
			c.Eval(1)
			l.cnt[sub+"/cases"]++
			st.pointEdge(sub, []int{i, j}, x, e, l)
			// non-trivial: interior case or close to the decision boundary
			X := exact.FromVector(x.Vector)
			if c17NearBoundaryOrInterior(X, A, B) {
				c.Nontrivial(1)
			}
			if (i*7919+j)%20011 == 3 {
				c.Sample(map[string]any{"sub": sub, "edge": e.name, "x": c17P(x), "a": c17P(e.a), "b": c17P(e.b), "UpdateMinDistance": float64(func() s1.ChordAngle { d, _ := s2.UpdateMinDistance(x, e.a, e.b, s1.InfChordAngle()); return d }())})
			}
		}
		// own endpoints: exactly zero
		for k, x := range []s2.Point{e.a, e.b} {
			if c.Skip(sub, i, -1-k) {
				continue
			}
			d, _ := s2.UpdateMinDistance(x, e.a, e.b, s1.InfChordAngle())
			th := s2.DistanceFromSegment(x, e.a, e.b)
			l.cnt[sub+"/own_endpoint_cases"]++
			if d != 0 || th != 0 {
				c.Violate(sub, "wrong-answer", "the distance from an edge's own endpoint to the edge is not zero", []int{i, -1 - k},
					map[string]any{"tier": c.Tier, "x": c17P(x), "a": c17P(e.a), "b": c17P(e.b), "UpdateMinDistance": float64(d), "DistanceFromSegment": float64(th)})
			}
		}
	})
	if cut {
		c.CapHit(sub + ": wall budget reached")
	}
}

func c17NearBoundaryOrInterior(X, A, B exact.V) bool {
	N := A.Cross(B)
	if N.IsZero() {
		return false
	}
	sa, sb := N.Cross(A).Dot(X).Sign(), B.Cross(N).Dot(X).Sign()
	if sa > 0 && sb > 0 {
		return true
	}
	near := func(u exact.V) bool {
		d := u.Dot(X)
		r := exact.HPRatio(d.Mul(d), u.Norm2().Mul(X.Norm2()))
		return r.Cmp(exact.HP(1e-12)) < 0
	}
	return near(N.Cross(A)) || near(B.Cross(N))
}

// ---- Interpolate / DistanceFraction ---------------------------------------------------------

func c17Interpolate(c *core.Ctx, st *c17State) {
	const sub = "interpolate"
	edges := c17Edges(c)
	ts := core.Pick(c,
		[]float64{0, 0x1p-52, 1e-9, 0.25, 0.5, 1 - 0x1p-53, 1, -0.5, 1.5},
		[]float64{0, 5e-324, 0x1p-52, 1e-15, 1e-9, 1e-3, 0.25, 1. / 3, 0.5, 0.75, 1 - 1e-9, 1 - 0x1p-53, 1, 1 + 0x1p-52, -1e-9, -0.5, 1.5, 2})
	tol := exact.HP(c17Tol)
	refErr := exact.HPRefErr()
	twoPi := exact.HPMul(exact.HPInt(2), exact.HPPi())
	c.ParallelFor(len(edges), func(i int) {
		l := newC17Local()
		defer st.merge(l)
		e := edges[i]
		if !c17EdgeUsable(e.a, e.b) {
			return
		}
		a, b := e.a, e.b
		A, B := exact.FromVector(a.Vector), exact.FromVector(b.Vector)
		N := A.Cross(B)
		thetaAB := exact.HPAngle(A, B)
		cls := ""
		if e.short {
			cls = " (distinct endpoints less than 1e-15 rad apart)"
		}
		for j, t := range ts {
			if c.Skip(sub, i, j) {
				continue
			}
			c.Eval(1)
			l.cnt[sub+"/Interpolate_cases"]++
			cas := []int{i, j}
			det := func(extra map[string]any) map[string]any {
				m := map[string]any{"tier": c.Tier, "t": t, "a": c17P(a), "b": c17P(b), "edge": e.name}
				for k, v := range extra {
					m[k] = v
				}
				return m
			}
			var r s2.Point
			okc := false
			c.Guard(sub, cas, func() any { return det(nil) }, func() { r = s2.Interpolate(t, a, b); okc = true })
			if !okc {
				continue
			}
			if i%17 == 3 && j == 3 {
				c.Sample(map[string]any{"sub": sub, "edge": e.name, "t": t, "Interpolate": fmt.Sprint(r.Vector)})
			}
			if !c17Finite(r) || !r.IsUnit() {
				c.Violate(sub, "wrong-answer", "Interpolate returns a point that is not unit length"+cls, cas, det(map[string]any{"result": fmt.Sprint(r.Vector)}))
				continue
			}
			if (t == 0 && r != a) || (t == 1 && r != b) {
				c.Violate(sub, "wrong-answer", "Interpolate(0) / Interpolate(1) is not the endpoint itself", cas, det(map[string]any{"result": c17P(r)}))
				continue
			}
			R := exact.FromVector(r.Vector)
			want := exact.HPMul(exact.HP(t), thetaAB) // signed arc from a
			if N.IsZero() {
				// degenerate edge: every fraction is the point a
				ang := exact.HPAngle(A, R)
				l.ratio("max_error_over_tolerance/Interpolate", exact.HPFloat64(ang)/c17Tol)
				if !c17HPle(ang, exact.HPAdd(tol, refErr)) {
					c.Violate(sub, "bound-exceeded", "Interpolate on a degenerate edge returns a point away from the edge", cas, det(map[string]any{"result": c17P(r), "distance": exact.HPFloat64(ang)}))
				}
				continue
			}
			// off-plane angle and position along the great circle
			rn := R.Dot(N)
			sinOff := exact.HPSqrt(exact.HPRatio(rn.Mul(rn), R.Norm2().Mul(N.Norm2())))
			got := exact.HPSignedAngle(A, R, N)
			dpos := exact.HPSub(got, want)
			// reduce modulo 2 pi to (-pi, pi]
			for dpos.Cmp(exact.HPPi()) > 0 {
				dpos = exact.HPSub(dpos, twoPi)
			}
			for dpos.Cmp(exact.HPNeg(exact.HPPi())) <= 0 {
				dpos = exact.HPAdd(dpos, twoPi)
			}
			dpos = exact.HPAbs(dpos)
			// the implementation computes t*angle(a,b) in float64: allow its rounding (2 eps relative)
			slack := exact.HPAdd(tol, exact.HPMul(exact.HPAbs(want), exact.HP(4*c17Eps)))
			l.ratio("max_error_over_tolerance/Interpolate", math.Max(exact.HPFloat64(sinOff), exact.HPFloat64(dpos))/exact.HPFloat64(slack))
			if !c17HPle(sinOff, exact.HPAdd(tol, refErr)) || !c17HPle(dpos, exact.HPAdd(slack, refErr)) {
				c.Violate(sub, "bound-exceeded", "Interpolate returns a point farther than 1e-14 rad from the point at fraction t of the edge"+cls, cas,
					det(map[string]any{"result": c17P(r), "off_plane": exact.HPFloat64(sinOff), "along_edge_error": exact.HPFloat64(dpos), "arc_wanted": exact.HPFloat64(want)}))
			}
			// DistanceFraction: interpolating at the measured fraction returns the point.
			if t >= 0 && t <= 1 && a != b {
				var f float64
				var r2 s2.Point
				okc = false
				c.Guard(sub, cas, func() any { return det(map[string]any{"x": c17P(r)}) }, func() {
					f = s2.DistanceFraction(r, a, b)
					r2 = s2.Interpolate(f, a, b)
					okc = true
				})
				if !okc {
					continue
				}
				l.cnt[sub+"/DistanceFraction_round_trips"]++
				if math.IsNaN(f) || !c17Finite(r2) {
					c.Violate(sub, "wrong-answer", "DistanceFraction of a point on the edge is NaN"+cls, cas, det(map[string]any{"x": c17P(r), "fraction": fmt.Sprint(f)}))
					continue
				}
				back := exact.HPAngle(R, exact.FromVector(r2.Vector))
				// x itself may be up to 1e-14 off the edge (previous assertion)
				lim := exact.HPAdd(exact.HPMul(exact.HPInt(2), tol), exact.HPMul(thetaAB, exact.HP(8*c17Eps)))
				l.ratio("max_error_over_tolerance/Interpolate(DistanceFraction(x))", exact.HPFloat64(back)/exact.HPFloat64(lim))
				if !c17HPle(back, exact.HPAdd(lim, refErr)) {
					c.Violate(sub, "bound-exceeded", "Interpolate(DistanceFraction(x)) is farther than 2e-14 rad from x for x on the edge"+cls, cas,
						det(map[string]any{"x": c17P(r), "fraction": f, "back": c17P(r2), "distance": exact.HPFloat64(back)}))
				}
			}
		}
	})
}

// ---- edge pairs --------------------------------------------------------------------------------

func c17PairPoints(e c17Edge) []s2.Point {
	L := e.length
	if e.degen || L == 0 {
		L = 1e-3
	}
	on := func(t float64) s2.Point { return c17At(e.a, e.dir, t*L) }
	off := func(p s2.Point, r float64) s2.Point { return c17N(p.Mul(math.Cos(r)).Add(e.n.Mul(math.Sin(r)))) }
	m := on(0.5)
	return lattice.Dedup([]s2.Point{
		e.a, e.b, m, on(1.5), on(-0.5),
		off(m, 1e-8), off(m, -1e-8), off(m, 1), off(m, -1),
		off(e.a, 1e-3), off(e.b, -0.5), {Vector: e.n}, {Vector: m.Mul(-1)},
	})
}

func c17EdgePairs(c *core.Ctx, st *c17State) {
	const sub = "edge-pairs"
	edges := c17Edges(c)
	refErr := exact.HPRefErr()
	c.ParallelFor(len(edges), func(i int) {
		l := newC17Local()
		defer st.merge(l)
		e := edges[i]
		if !c17EdgeUsable(e.a, e.b) {
			return
		}
		a0, a1 := e.a, e.b
		A0, A1 := exact.FromVector(a0.Vector), exact.FromVector(a1.Vector)
		pts := c17PairPoints(e)
		j := 0
		for _, b0 := range pts {
			for _, b1 := range pts {
				j++
				if c.Skip(sub, i, j) {
					continue
				}
				if !c17NormOK(b0) || !c17NormOK(b1) || !c17EdgeUsable(b0, b1) {
					continue
				}
				B0, B1 := exact.FromVector(b0.Vector), exact.FromVector(b1.Vector)
				if (A0.Cross(A1).IsZero() && A0.Dot(A1).Sign() < 0) || (B0.Cross(B1).IsZero() && B0.Dot(B1).Sign() < 0) {
					continue
				}
				c.Eval(1)
				cas := []int{i, j}
				det := func(extra map[string]any) map[string]any {
					m := map[string]any{"tier": c.Tier, "a0": c17P(a0), "a1": c17P(a1), "b0": c17P(b0), "b1": c17P(b1), "edge": e.name}
					for k, v := range extra {
						m[k] = v
					}
					return m
				}
				ref := refmodel.CrossingSign(a0, a1, b0, b1)
				var impl s2.Crossing
				var pa, pb s2.Point
				okc := false
				c.Guard(sub, cas, func() any { return det(nil) }, func() {
					impl = s2.CrossingSign(a0, a1, b0, b1)
					pa, pb = s2.EdgePairClosestPoints(a0, a1, b0, b1)
					okc = true
				})
				if !okc {
					continue
				}
				if (ref == refmodel.Cross) != (impl == s2.Cross) {
					l.cnt[sub+"/not_judged_CrossingSign_disagrees_with_reference"]++
					continue
				}
				if !c17Finite(pa) || !c17Finite(pb) || !pa.IsUnit() || !pb.IsUnit() {
					desc := "EdgePairClosestPoints returns a point that is not unit length"
					if ref == refmodel.Cross {
						desc = "EdgePairClosestPoints of crossing edges (the result of s2.Intersection) is not unit length"
					}
					c.Violate(sub, "wrong-answer", desc, cas, det(map[string]any{"pa": fmt.Sprint(pa.Vector), "pb": fmt.Sprint(pb.Vector)}))
					continue
				}
				// true minimum distance (chord): 0 if the edges cross, else the best vertex-edge distance
				var dstar *big.Float
				minCos2 := exact.HPInt(1)
				if ref == refmodel.Cross {
					l.cnt[sub+"/crossing_pairs"]++
					dstar = exact.HPInt(0)
					if pa != pb {
						c.Violate(sub, "wrong-answer", "EdgePairClosestPoints of crossing edges returns two different points", cas, det(map[string]any{"pa": c17P(pa), "pb": c17P(pb)}))
						continue
					}
				} else {
					l.cnt[sub+"/non_crossing_pairs"]++
					for _, q := range []struct{ x, p, r exact.V }{{A0, B0, B1}, {A1, B0, B1}, {B0, A0, A1}, {B1, A0, A1}} {
						d, _ := exact.HPEdgeMinChord2(q.x, q.p, q.r)
						if d == nil {
							continue
						}
						if dstar == nil || d.Cmp(dstar) < 0 {
							dstar = d
						}
						if n := q.p.Cross(q.r); !n.IsZero() {
							xn := q.x.Dot(n)
							c2 := exact.HPSub(exact.HPInt(1), exact.HPRatio(xn.Mul(xn), q.x.Norm2().Mul(n.Norm2())))
							minCos2 = exact.HPMin(minCos2, c2)
						}
					}
					if dstar == nil {
						continue
					}
				}
				if minCos2.Cmp(exact.HP(1e-6)) < 0 {
					l.cnt[sub+"/not_judged_a_vertex_within_1e-3_of_the_pole_of_the_other_edge"]++
					continue
				}
				c.Nontrivial(1)
				l.cnt[sub+"/judged"]++
				if (i*131+j)%2503 == 11 {
					c.Sample(map[string]any{"sub": sub, "a0": c17P(a0), "a1": c17P(a1), "b0": c17P(b0), "b1": c17P(b1), "closest_points": [2][3]float64{c17P(pa), c17P(pb)}, "reference_says_cross": ref == refmodel.Cross})
				}
				tol := c17Tol / math.Sqrt(exact.HPFloat64(minCos2))
				PA, PB := exact.FromVector(pa.Vector), exact.FromVector(pb.Vector)
				onA, _ := exact.HPEdgeMinChord2(PA, A0, A1)
				onB, _ := exact.HPEdgeMinChord2(PB, B0, B1)
				sep := exact.HPSqrt(exact.HPChord2(PA, PB))
				l.ratio("max_error_over_tolerance/EdgePairClosestPoints", math.Max(math.Max(math.Sqrt(exact.HPFloat64(onA)), math.Sqrt(exact.HPFloat64(onB))), exact.HPFloat64(sep)-math.Sqrt(exact.HPFloat64(dstar)))/tol)
				t2 := c17Chord2Tol(tol)
				switch {
				case onA == nil || onB == nil:
				case !c17HPle(onA, t2) || !c17HPle(onB, t2):
					c.Violate(sub, "bound-exceeded", "EdgePairClosestPoints returns a point that is not on its edge (farther than 1e-14/cos rad)", cas,
						det(map[string]any{"pa": c17P(pa), "pb": c17P(pb), "pa_from_edge_a": math.Sqrt(exact.HPFloat64(onA)), "pb_from_edge_b": math.Sqrt(exact.HPFloat64(onB)), "tolerance": tol, "reference_says_cross": ref == refmodel.Cross}))
				case !c17HPle(sep, exact.HPAdd(exact.HPAdd(exact.HPSqrt(dstar), exact.HP(tol)), refErr)):
					c.Violate(sub, "bound-exceeded", "EdgePairClosestPoints returns points farther apart than the exact minimum distance of the edges (excess more than 1e-14/cos rad)", cas,
						det(map[string]any{"pa": c17P(pa), "pb": c17P(pb), "separation_chord": exact.HPFloat64(sep), "exact_min_chord": math.Sqrt(exact.HPFloat64(dstar)), "tolerance": tol}))
				}
			}
		}
	})
}

// ---- polylines ----------------------------------------------------------------------------------

func c17PolyAlphabet() []s2.Point {
	a := lattice.LL(10, 20)
	u0 := s2.Ortho(a).Vector
	v0 := a.Cross(u0).Normalize()
	return []s2.Point{
		a,
		c17At(a, u0, 1e-9),
		c17At(a, v0, 1e-3),
		c17At(a, u0, 1),
		c17At(a, v0, -2),
		c17At(a, u0, math.Pi-1e-3),
		lattice.LL(89.999, -60),
		lattice.FaceSiTiPoint(0, 1<<30, 1<<30),
		{Vector: r3.Vector{X: 1, Y: 1e-170, Z: 0}}, // distinct from the previous point, 1e-170 rad away
	}
}

func c17Polylines(c *core.Ctx, st *c17State) {
	const sub = "polyline"
	alpha := c17PolyAlphabet()
	for _, p := range alpha {
		if !c17NormOK(p) {
			panic(core.HarnessError("C17: polyline alphabet point is not normalized"))
		}
	}
	nA := len(alpha)
	maxLen := core.Pick(c, 4, 5)
	fracs := []float64{-0.5, 0, 0x1p-52, 1e-9, 0.25, 0.5, 1 - 0x1p-53, 1, 1.5}
	probes := []s2.Point{
		alpha[0], alpha[3],
		c17At(alpha[0], s2.Ortho(alpha[0]).Vector, 0.5),
		c17N(alpha[0].Add(alpha[3].Vector).Add(alpha[0].Cross(alpha[3].Vector).Mul(1e-3))),
		c17N(alpha[0].Add(alpha[3].Vector).Sub(alpha[0].Cross(alpha[3].Vector).Mul(0.3))),
		lattice.LL(-40, 100), lattice.LL(12, 25), lattice.LL(60, -50),
		{Vector: alpha[0].Mul(-1)},
		c17At(alpha[4], s2.Ortho(alpha[4]).Vector, 1e-6),
	}
	// enumerate sequences: first coordinate = (length, first vertex)
	type job struct{ n, first, second int }
	var jobs []job
	for n := maxLen; n >= 1; n-- { // heaviest first
		for f := 0; f < nA; f++ {
			if n == 1 {
				jobs = append(jobs, job{n, f, -1})
				continue
			}
			for g := 0; g < nA; g++ {
				jobs = append(jobs, job{n, f, g})
			}
		}
	}
	c.Note(sub+"/lattice", map[string]int{"alphabet": nA, "max_vertices": maxLen, "fractions": len(fracs), "probes": len(probes)})
	cut := false
	c.ParallelFor(len(jobs), func(ji int) {
		l := newC17Local()
		defer st.merge(l)
		jb := jobs[ji]
		rest := 1
		for k := 2; k < jb.n; k++ {
			rest *= nA
		}
		for code := 0; code < rest; code++ {
			if c.Skip(sub, ji, code) {
				continue
			}
			if c.Expired() {
				cut = true
				return
			}
			idx := []int{jb.first}
			if jb.n >= 2 {
				idx = append(idx, jb.second)
			}
			x := code
			valid := true
			for k := 2; k < jb.n; k++ {
				idx = append(idx, x%nA)
				x /= nA
			}
			for k := 1; k < jb.n; k++ {
				if idx[k] == idx[k-1] {
					valid = false
				}
			}
			if !valid {
				l.cnt[sub+"/skipped_invalid_adjacent_identical"]++
				continue
			}
			var pl s2.Polyline
			for _, k := range idx {
				pl = append(pl, alpha[k])
			}
			if err := pl.Validate(); err != nil {
				l.cnt[sub+"/skipped_invalid"]++
				continue
			}
			st.polyline(sub, []int{ji, code}, idx, pl, fracs, probes, l)
		}
	})
	if cut {
		c.CapHit(sub + ": wall budget reached")
	}
}

func (st *c17State) polyline(sub string, cas []int, idx []int, pl s2.Polyline, fracs []float64, probes []s2.Point, l *c17Local) {
	c := st.c
	n := len(pl)
	l.cnt[sub+"/polylines"]++
	cls := ""
	for i := 1; i < n; i++ {
		if (idx[i] == 7 && idx[i-1] == 8) || (idx[i] == 8 && idx[i-1] == 7) {
			cls = " (polyline with distinct adjacent vertices less than 1e-15 rad apart)"
		}
	}
	V := make([]exact.V, n)
	for i, p := range pl {
		V[i] = exact.FromVector(p.Vector)
	}
	seg := make([]*big.Float, n) // seg[i] = angle(v[i-1], v[i])
	total := exact.HPInt(0)
	cum := make([]*big.Float, n) // cum[i] = arc length up to vertex i
	cum[0] = exact.HPInt(0)
	for i := 1; i < n; i++ {
		seg[i] = exact.HPAngle(V[i-1], V[i])
		total = exact.HPAdd(total, seg[i])
		cum[i] = total
	}
	refErr := exact.HPRefErr()
	tolArc := exact.HP(c17Tol * float64(n))
	det := func(extra map[string]any) map[string]any {
		var vs [][3]float64
		for _, p := range pl {
			vs = append(vs, c17P(p))
		}
		m := map[string]any{"tier": c.Tier, "vertices": vs, "alphabet_indices": idx}
		for k, v := range extra {
			m[k] = v
		}
		return m
	}
	// on the documented edge: P lies on edge (v[next-1], v[next]) when next < n, and is the last vertex when next == n
	onDocumentedEdge := func(P s2.Point, next int, tol float64) (bool, float64) {
		if next == n {
			return P == pl[n-1], 0
		}
		d, _ := exact.HPEdgeMinChord2(exact.FromVector(P.Vector), V[next-1], V[next])
		if d == nil {
			return true, 0
		}
		return c17HPle(d, c17Chord2Tol(tol)), math.Sqrt(exact.HPFloat64(d))
	}
	for fi, f := range fracs {
		c.Eval(1)
		l.cnt[sub+"/Interpolate_cases"]++
		var P s2.Point
		var next int
		var u float64
		okc := false
		c.Guard(sub, cas, func() any { return det(map[string]any{"fraction": f}) }, func() {
			P, next = pl.Interpolate(f)
			u = pl.Uninterpolate(P, next)
			okc = true
		})
		if !okc {
			continue
		}
		fc := math.Min(1, math.Max(0, f))
		d := func(extra map[string]any) map[string]any {
			m := det(map[string]any{"fraction": f, "Interpolate": []any{fmt.Sprint(P.Vector), next}, "Uninterpolate": u})
			for k, v := range extra {
				m[k] = v
			}
			return m
		}
		if next < 1 || next > n {
			c.Violate(sub, "wrong-answer", "Polyline.Interpolate returns a next-vertex index outside [1, len]"+cls, cas, d(nil))
			continue
		}
		if n == 4 && fi == 5 && (cas[0]*7+cas[1])%97 == 5 {
			c.Sample(map[string]any{"sub": sub, "alphabet_indices": idx, "fraction": f, "Interpolate": []any{c17P(P), next}, "Uninterpolate": u})
		}
		if !c17Finite(P) || !P.IsUnit() {
			c.Violate(sub, "wrong-answer", "Polyline.Interpolate returns a point that is not unit length"+cls, cas, d(nil))
			continue
		}
		if next < n && P == pl[next] {
			c.Violate(sub, "wrong-answer", "Polyline.Interpolate returns the next vertex itself (documented: P differs from the vertex at the returned index)"+cls, cas, d(nil))
		}
		if ok, dist := onDocumentedEdge(P, next, c17Tol); !ok {
			c.Violate(sub, "bound-exceeded", "Polyline.Interpolate returns a point that is not on the edge ending at the returned next vertex"+cls, cas, d(map[string]any{"distance_from_that_edge": dist}))
			continue
		}
		if n >= 2 {
			pos := exact.HPAdd(cum[next-1], exact.HPAngle(V[next-1], exact.FromVector(P.Vector)))
			want := exact.HPMul(exact.HP(fc), total)
			e := exact.HPAbs(exact.HPSub(pos, want))
			l.ratio("max_error_over_tolerance/Polyline.Interpolate arc position", exact.HPFloat64(e)/exact.HPFloat64(tolArc))
			if !c17HPle(e, exact.HPAdd(tolArc, refErr)) {
				c.Violate(sub, "bound-exceeded", "Polyline.Interpolate returns a point whose arc position differs from fraction x length by more than 1e-14 rad per vertex"+cls, cas,
					d(map[string]any{"arc_position": exact.HPFloat64(pos), "wanted": exact.HPFloat64(want)}))
			}
			// Uninterpolate is the inverse
			if math.IsNaN(u) || u < 0 || u > 1 {
				c.Violate(sub, "wrong-answer", "Polyline.Uninterpolate returns a value outside [0,1]"+cls, cas, d(nil))
			} else {
				eu := exact.HPMul(exact.HPAbs(exact.HPSub(exact.HP(u), exact.HP(fc))), total)
				lim := exact.HPAdd(exact.HPMul(exact.HPInt(2), tolArc), exact.HPMul(total, exact.HP(8*c17Eps)))
				l.ratio("max_error_over_tolerance/Uninterpolate(Interpolate(f))", exact.HPFloat64(eu)/exact.HPFloat64(lim))
				if !c17HPle(eu, exact.HPAdd(lim, refErr)) {
					c.Violate(sub, "bound-exceeded", "Polyline.Uninterpolate(Interpolate(f)) differs from f by more than 2e-14 rad per vertex of arc"+cls, cas, d(map[string]any{"arc_error": exact.HPFloat64(eu)}))
				}
			}
		} else if P != pl[0] || next != 1 || u != 0 {
			c.Violate(sub, "wrong-answer", "single-vertex polyline: Interpolate / Uninterpolate do not return (vertex, 1) / 0"+cls, cas, d(nil))
		}
	}
	for pi, x := range probes {
		c.Eval(1)
		l.cnt[sub+"/Project_cases"]++
		X := exact.FromVector(x.Vector)
		var Q s2.Point
		var next int
		var right bool
		okc := false
		c.Guard(sub, cas, func() any { return det(map[string]any{"probe": c17P(x)}) }, func() {
			Q, next = pl.Project(x)
			if n >= 2 {
				right = pl.IsOnRight(x)
			}
			okc = true
		})
		if !okc {
			continue
		}
		d := func(extra map[string]any) map[string]any {
			m := det(map[string]any{"probe": c17P(x), "probe_index": pi, "Project": []any{fmt.Sprint(Q.Vector), next}, "IsOnRight": right})
			for k, v := range extra {
				m[k] = v
			}
			return m
		}
		if next < 1 || next > n {
			c.Violate(sub, "wrong-answer", "Polyline.Project returns a next-vertex index outside [1, len]"+cls, cas, d(nil))
			continue
		}
		if !c17Finite(Q) || !Q.IsUnit() {
			c.Violate(sub, "wrong-answer", "Polyline.Project returns a point that is not unit length"+cls, cas, d(nil))
			continue
		}
		if n == 1 {
			if Q != pl[0] || next != 1 {
				c.Violate(sub, "wrong-answer", "single-vertex polyline: Project does not return (vertex, 1)"+cls, cas, d(nil))
			}
			continue
		}
		// exact distance to every edge
		type ed struct {
			c2   *big.Float
			kind exact.EdgeCase
		}
		eds := make([]ed, n)
		best := 1
		minCos2 := exact.HPInt(1)
		for i := 1; i < n; i++ {
			c2, k := exact.HPEdgeMinChord2(X, V[i-1], V[i])
			eds[i] = ed{c2, k}
			if c2.Cmp(eds[best].c2) < 0 {
				best = i
			}
			if nn := V[i-1].Cross(V[i]); !nn.IsZero() {
				xn := X.Dot(nn)
				minCos2 = exact.HPMin(minCos2, exact.HPSub(exact.HPInt(1), exact.HPRatio(xn.Mul(xn), X.Norm2().Mul(nn.Norm2()))))
			}
		}
		if minCos2.Cmp(exact.HP(1e-6)) < 0 {
			l.cnt[sub+"/Project_not_judged_probe_within_1e-3_of_the_pole_of_an_edge"]++
			continue
		}
		c.Nontrivial(1)
		tol := c17Tol / math.Sqrt(exact.HPFloat64(minCos2))
		if ok, dist := onDocumentedEdge(Q, next, tol); !ok {
			c.Violate(sub, "bound-exceeded", "Polyline.Project returns a point that is not on the edge ending at the returned next vertex"+cls, cas, d(map[string]any{"distance_from_that_edge": dist}))
			continue
		}
		chordXQ := exact.HPSqrt(exact.HPChord2(X, exact.FromVector(Q.Vector)))
		lim := exact.HPAdd(exact.HPSqrt(eds[best].c2), exact.HP(tol))
		l.ratio("max_error_over_tolerance/Polyline.Project excess distance", (exact.HPFloat64(chordXQ)-math.Sqrt(exact.HPFloat64(eds[best].c2)))/tol)
		if !c17HPle(chordXQ, exact.HPAdd(lim, refErr)) {
			c.Violate(sub, "bound-exceeded", "Polyline.Project returns a point that does not realise the minimum distance to the polyline (excess more than 1e-14/cos rad)"+cls, cas,
				d(map[string]any{"distance_chord": exact.HPFloat64(chordXQ), "exact_min_chord": math.Sqrt(exact.HPFloat64(eds[best].c2))}))
			continue
		}
		// IsOnRight, only where the documented naive definition is unambiguous.
		margin := exact.HP(1e-6)
		unique := true
		for i := 1; i < n; i++ {
			if i == best {
				continue
			}
			gap := exact.HPSub(exact.HPSqrt(eds[i].c2), exact.HPSqrt(eds[best].c2))
			if gap.Cmp(margin) < 0 {
				// an adjacent edge sharing the closest vertex is allowed to tie
				unique = false
			}
		}
		side := func(i int) (int, bool) { // +1 right of edge (v[i-1], v[i]), with a margin
			dt := exact.Det3(V[i-1], V[i], X)
			den := V[i-1].Cross(V[i]).Norm2().Mul(X.Norm2())
			r := exact.HPRatio(dt.Mul(dt), den)
			if r.Cmp(exact.HP(1e-18)) < 0 {
				return 0, false
			}
			return -dt.Sign(), true
		}
		switch {
		case unique && eds[best].kind == exact.EdgeInterior && c17ClearlyInterior(X, V[best-1], V[best]):
			if s, ok := side(best); ok {
				l.cnt[sub+"/IsOnRight_judged_interior_of_one_edge"]++
				if right != (s > 0) {
					c.Violate(sub, "wrong-answer", "Polyline.IsOnRight disagrees with the side of the unique closest edge"+cls, cas, d(map[string]any{"closest_edge": best, "exact_right": s > 0}))
				}
			}
		case !unique:
			// closest point an interior vertex shared by exactly two tying edges
			k := -1
			cnt := 0
			for i := 1; i < n; i++ {
				gap := exact.HPSub(exact.HPSqrt(eds[i].c2), exact.HPSqrt(eds[best].c2))
				if gap.Cmp(margin) < 0 {
					cnt++
				}
			}
			for i := 1; i+1 < n; i++ {
				if eds[i].kind == exact.EdgeEndpointB && eds[i+1].kind == exact.EdgeEndpointA &&
					exact.HPAbs(exact.HPSub(eds[i].c2, eds[i+1].c2)).Cmp(refErr) <= 0 && (best == i || best == i+1) {
					k = i
				}
			}
			if k > 0 && cnt == 2 && x != pl[k] && pl[k-1] != pl[k+1] {
				// strictly an endpoint case on both edges (not near the wedge boundaries)
				if c17ClearlyOutside(X, V[k-1], V[k], true) && c17ClearlyOutside(X, V[k], V[k+1], false) {
					l.cnt[sub+"/IsOnRight_judged_interior_vertex"]++
					want := refmodel.OrderedCCW(pl[k-1], x, pl[k+1], pl[k])
					if right != want {
						c.Violate(sub, "wrong-answer", "Polyline.IsOnRight disagrees with the documented ordering rule at the closest interior vertex"+cls, cas, d(map[string]any{"closest_vertex": k, "exact_OrderedCCW": want}))
					}
				}
			}
		default:
			l.cnt[sub+"/IsOnRight_not_judged_ambiguous"]++
		}
	}
}

// c17ClearlyOutside: x is beyond endpoint b (atB) or before endpoint a of edge ab
// by a margin, so that the closest point of the edge is that endpoint.
func c17ClearlyOutside(X, A, B exact.V, atB bool) bool {
	N := A.Cross(B)
	if N.IsZero() {
		return false
	}
	u := B.Cross(N) // positive side: before b
	if !atB {
		u = N.Cross(A) // positive side: after a
	}
	d := u.Dot(X)
	if d.Sign() >= 0 {
		return false
	}
	r := exact.HPRatio(d.Mul(d), u.Norm2().Mul(X.Norm2()))
	return r.Cmp(exact.HP(1e-12)) > 0
}

// c17UlpEdgeAntipode: every edge from a base point to each of its ulp neighbours
// (edges a few ulps long, including same-direction-different-float endpoints) x
// every ulp neighbour of the antipodes of both endpoints and of the endpoints
// themselves.  Here the interior/endpoint decision is taken on quantities of the
// size of the rounding error while the distance itself is close to pi (or to 0).
func c17UlpEdgeAntipode(c *core.Ctx, st *c17State) {
	const sub = "ulp-edge-antipode"
	bases := c17Bases(c)
	ke := core.Pick(c, 1, 2)
	type job struct {
		a, b s2.Point
		bi   int
	}
	var jobs []job
	for bi, a := range bases {
		for _, b := range lattice.PUlp(a, ke) {
			if b != a && c17NormOK(b) {
				jobs = append(jobs, job{a, b, bi})
			}
		}
	}
	c.Note(sub+"/edges", len(jobs))
	c.ParallelFor(len(jobs), func(i int) {
		l := newC17Local()
		defer st.merge(l)
		jb := jobs[i]
		e := c17Edge{a: jb.a, b: jb.b, short: true, name: fmt.Sprintf("base%d to ulp neighbour %d", jb.bi, i)}
		var qs []s2.Point
		for _, q := range []s2.Point{{Vector: jb.a.Mul(-1)}, {Vector: jb.b.Mul(-1)}, jb.a} {
			for _, x := range lattice.PUlp(q, 2) {
				if c17NormOK(x) {
					qs = append(qs, x)
				}
			}
		}
		for j, x := range qs {
			if c.Skip(sub, i, j) {
				continue
			}
			c.Eval(1)
			c.Nontrivial(1)
			l.cnt[sub+"/cases"]++
			st.pointEdge(sub, []int{i, j}, x, e, l)
		}
	})
}
