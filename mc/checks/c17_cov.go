package checks

import (
	"fmt"
	"math"
	"math/big"
	"sync/atomic"
	"time"
	_ "unsafe" // go:linkname: the polyline measures and ChordAngle.isValid have no exported caller

	"github.com/golang/geo/r3"
	"github.com/golang/geo/s1"
	"github.com/golang/geo/s2"

	"verif/mc/core"
	"verif/mc/exact"
	"verif/mc/lattice"
	"verif/mc/refmodel"
)

// C17 coverage extension.  Six sub-checks that reach the parts of
// s2/edge_distances.go, s2/polyline.go, s2/polyline_measures.go and
// s1/chordangle.go that the base lattice of c17.go never executes:
//
//	cov-interior-threshold  IsInteriorDistanceLess against UpdateMinInteriorDistance and the exact distance
//	cov-point-on-line       PointOnLine / PointToLeft / PointToRight / PointOnRay
//	cov-edge-pair-cases     EdgePairClosestPoints: each of the four vertex-edge cases and the crossing case
//	cov-polyline-measures   polylineLength / polylineCentroid / Polyline.Length / Polyline.Centroid
//	cov-chordangle-trig     ChordAngle.Sin2/Sin/Cos/Tan, isValid, ChordAngleFromSquaredLength
//	cov-polyline-ops        Polyline.Reverse / Equal / ApproxEqual / Intersects
//
// Every sub-check walks an explicit finite lattice and judges with the exact /
// 320-bit reference of package exact (or, for the crossing relation, with exact
// determinant signs).  Where golang/geo documents no numerical bound the
// tolerance is c17Tol (1e-14 rad), as in c17.go.

//go:linkname c17CovPolylineLength github.com/golang/geo/s2.polylineLength
func c17CovPolylineLength(p []s2.Point) s1.Angle

//go:linkname c17CovPolylineCentroid github.com/golang/geo/s2.polylineCentroid
func c17CovPolylineCentroid(p []s2.Point) s2.Point

//go:linkname c17CovChordAngleIsValid github.com/golang/geo/s1.ChordAngle.isValid
func c17CovChordAngleIsValid(c s1.ChordAngle) bool

func init() {
	ck := Registry["C17"]
	run := ck.Run
	ck.Run = func(c *core.Ctx) {
		run(c)
		c17Cov(c)
	}
}

func c17Cov(c *core.Ctx) {
	c.Rule += "; coverage extension: cov-interior-threshold: every edge x every query point of the point-edge lattice x limits {negative, 0, predecessor / value / successor of the interior distance computed without a limit, exact distance -/+ the documented error, 180 degrees, infinity}; cov-point-on-line: every edge of the alphabet plus exactly and nearly antipodal edges x distances r in {0, 1e-15 .. pi}; cov-edge-pair-cases: every edge x all ordered pairs of second-edge endpoints placed at fractions {-0.5, 0, 0.5, 1, 1.5} of the edge displaced sideways by {+-1e-3, +-0.3} (thorough: also +-1e-8, +-1); cov-polyline-measures: ALL vertex sequences of length 0..4 (5 thorough) over the 9-point polyline alphabet, repeated vertices included; cov-chordangle-trig: squared chord lengths {0, denormal, 1e-300 .. 4} with their ulp neighbours, 2^-k, 2+-2^-k, 4-2^-k, and lengths above 4 up to +Inf; cov-polyline-ops: all valid polylines of 1..3 (4 thorough) vertices over the 9-point alphabet (Reverse/Equal/ApproxEqual/Project) and all ordered pairs of polylines of 2..3 (first: 4 thorough) vertices over an 11-point alphabet with exactly collinear, crossing, touching and far-away points (Intersects). non-trivial (extension) = interior distances reported, points placed at 0 < r < pi on non-degenerate lines, edge pairs judged, sequences with at least one non-degenerate edge, chord lengths strictly inside (0,4), polyline pairs without a shared vertex that are judged"
	c.Assume = append(c.Assume,
		"coverage extension: PointOnLine / PointToLeft / PointToRight / PointOnRay, Polyline.Length / Centroid and the polyline measures have no documented numerical bound: tolerance 1e-14 rad (per edge for sums) plus the rounding of the requested distance",
		"coverage extension: the centroid of an edge is judged against (a^ + b^) |a^ - b^| / |a^ + b^| of the unit vectors; since inputs are only within 2 dblEpsilon of unit length (documented), the midpoint direction of a nearly antipodal edge is uncertain by 4 dblEpsilon / cos(theta/2): twice that is added to the tolerance of the edge",
		"coverage extension: PointOnRay is called only with a normalized direction whose exact dot product with the origin is at most 2^-50 (documented REQUIRES)",
		"coverage extension: Polyline methods are judged on polylines that pass Validate (or have 0 / 1 vertices); polylineLength / polylineCentroid, whose documentation covers degenerate polylines, on every sequence",
		"coverage extension: Polyline.Intersects is judged true when two edges cross properly (four non-zero exact orientations) or a vertex is shared, false when neither holds and no vertex lies exactly on an edge of the other polyline; touching configurations are not judged (documented as arbitrary); polylines with fewer than two vertices are only judged when one is empty",
		"coverage extension: Polyline.ApproxEqual is judged true when every exact vertex distance is at most 5e-16 and false when one is at least 2e-15 (the documented margin 1e-15 with the rounding of the float64 angle on either side)",
		"coverage extension: polylineLength, polylineCentroid and ChordAngle.isValid are unexported and have no exported caller; they are reached with go:linkname from the check",
	)
	// The extension runs after the base lattice, which can use up most of the property's
	// wall budget on a loaded machine: it gets a wall budget of its own (30 s quick,
	// 300 s thorough) so that a slow base run does not cut it short.
	if own := time.Duration(core.Pick(c, 30, 300)) * time.Second; c17CovLive(c) && !c.Deadline.IsZero() && time.Until(c.Deadline) < own {
		c.Deadline = time.Now().Add(own)
		c.Note("coverage_extension/own_wall_budget_applied_s", own.Seconds())
	}
	st := &c17State{c: c, max: map[string]float64{}}
	for _, p := range []struct {
		name string
		f    func(*core.Ctx, *c17State)
	}{
		{"cov-interior-threshold", c17CovInterior},
		{"cov-point-on-line", c17CovPointOnLine},
		{"cov-edge-pair-cases", c17CovEdgePairs},
		{"cov-polyline-measures", c17CovPolyMeasures},
		{"cov-chordangle-trig", c17CovChordAngle},
		{"cov-polyline-ops", c17CovPolyOps},
		{"cov-polyline-intersects", c17CovIntersects},
	} {
		t0 := time.Now()
		p.f(c, st)
		c.Note(p.name+"/wall_s", time.Since(t0).Seconds())
	}
	c.Note("coverage_extension/largest_observed_error_relative_to_bound", st.max)
}

// ---- helpers ------------------------------------------------------------------------------------

// c17CovSinOff returns the sine of the angle between the direction of p and the
// plane with exact normal k.
func c17CovSinOff(P, K exact.V) *big.Float {
	d := P.Dot(K)
	return exact.HPSqrt(exact.HPRatio(d.Mul(d), P.Norm2().Mul(K.Norm2())))
}

// c17CovAngDiff returns |got - want| reduced modulo 2 pi to [0, pi].
func c17CovAngDiff(got *big.Float, want float64) *big.Float {
	twoPi := exact.HPMul(exact.HPInt(2), exact.HPPi())
	d := exact.HPSub(got, exact.HP(want))
	for d.Cmp(exact.HPPi()) > 0 {
		d = exact.HPSub(d, twoPi)
	}
	for d.Cmp(exact.HPNeg(exact.HPPi())) <= 0 {
		d = exact.HPAdd(d, twoPi)
	}
	return exact.HPAbs(d)
}

func c17CovPts(ps []s2.Point) [][3]float64 {
	out := make([][3]float64, len(ps))
	for i, p := range ps {
		out[i] = c17P(p)
	}
	return out
}

func c17CovLive(c *core.Ctx) bool { return c.OnlySub == "" }

// ---- IsInteriorDistanceLess ---------------------------------------------------------------------

func c17CovInterior(c *core.Ctx, st *c17State) {
	const sub = "cov-interior-threshold"
	edges := c17Edges(c)
	refErr := exact.HPRefErr()
	cut := false
	c.ParallelFor(len(edges), func(i int) {
		l := newC17Local()
		defer st.merge(l)
		e := edges[i]
		if !c17EdgeUsable(e.a, e.b) {
			return
		}
		a, b := e.a, e.b
		A, B := exact.FromVector(a.Vector), exact.FromVector(b.Vector)
		for j, x := range c17Queries(c, e) {
			if c.Skip(sub, i, j) {
				continue
			}
			if c.Expired() {
				cut = true
				return
			}
			if !c17NormOK(x) {
				continue
			}
			c.Eval(1)
			l.cnt[sub+"/cases"]++
			cas := []int{i, j}
			det := func(extra map[string]any) map[string]any {
				m := map[string]any{"tier": c.Tier, "x": c17P(x), "a": c17P(a), "b": c17P(b), "edge": e.name}
				for k, v := range extra {
					m[k] = v
				}
				return m
			}
			var di s1.ChordAngle
			var iok, okc bool
			c.Guard(sub, cas, func() any { return det(nil) }, func() {
				di, iok = s2.UpdateMinInteriorDistance(x, a, b, s1.InfChordAngle())
				okc = true
			})
			if !okc {
				continue
			}
			lims := []s1.ChordAngle{s1.NegativeChordAngle, 0, s1.StraightChordAngle, s1.InfChordAngle()}
			if iok {
				c.Nontrivial(1)
				l.cnt[sub+"/interior_distance_reported"]++
				lims = append(lims, di.Predecessor(), di, di.Successor())
			}
			// (a) the threshold form against the value computed without a threshold
			for _, lim := range lims {
				lim := lim
				c.Guard(sub, cas, func() any { return det(map[string]any{"limit": float64(lim)}) }, func() {
					got, upd := s2.UpdateMinInteriorDistance(x, a, b, lim)
					less := s2.IsInteriorDistanceLess(x, a, b, lim)
					l.cnt[sub+"/threshold_forms"]++
					want := iok && di < lim
					bad := ""
					switch {
					case less != upd:
						bad = "IsInteriorDistanceLess and UpdateMinInteriorDistance disagree with each other"
					case !upd && got != lim:
						bad = "UpdateMinInteriorDistance changed the value without reporting an update"
					case upd && !(got < lim):
						bad = "UpdateMinInteriorDistance reports an update with a value that is not below the threshold"
					case less != want:
						bad = "IsInteriorDistanceLess disagrees with comparing the interior distance computed without a threshold to the threshold"
					}
					if less {
						l.cnt[sub+"/answered_less"]++
					}
					if bad != "" {
						c.Violate(sub, "wrong-answer", "threshold forms: "+bad, cas,
							det(map[string]any{"interior_distance_without_threshold": []any{float64(di), iok}, "limit": float64(lim), "limit_minus_distance_in_ulps": c17UlpDiff(float64(lim), float64(di)), "UpdateMinInteriorDistance": []any{float64(got), upd}, "IsInteriorDistanceLess": less}))
					}
				})
			}
			// (b) against the exact distance: just below / just above it by the documented error
			X := exact.FromVector(x.Vector)
			dmin, kind := exact.HPEdgeMinChord2(X, A, B)
			if dmin == nil {
				continue
			}
			switch {
			case kind == exact.EdgeInterior && c17ClearlyInterior(X, A, B):
				t := exact.HPFloat64(dmin)
				E := c17MinErr(s1.ChordAngle(t), dmin)
				if iok {
					E = math.Max(E, c17MinErr(di, dmin))
				}
				hi := (t+E)*(1+4*c17Eps) + 8*c17Eps*c17Eps
				lo := (t-E)*(1-4*c17Eps) - 8*c17Eps*c17Eps
				if hi <= 4 && exact.HP(hi).Cmp(exact.HPAdd(exact.HPAdd(dmin, exact.HP(E)), refErr)) > 0 {
					l.cnt[sub+"/exact_distance_plus_documented_error"]++
					var less bool
					c.Guard(sub, cas, func() any { return det(map[string]any{"limit": hi}) }, func() { less = s2.IsInteriorDistanceLess(x, a, b, s1.ChordAngle(hi)) })
					if !less {
						c.Violate(sub, "wrong-answer", "IsInteriorDistanceLess answers false for a limit above the exact distance by more than the documented error, x well inside the wedge of the edge", cas,
							det(map[string]any{"limit": hi, "exact_chord2": t, "documented_max_error": E}))
					}
				}
				if lo > 0 && exact.HP(lo).Cmp(exact.HPSub(exact.HPSub(dmin, exact.HP(E)), refErr)) < 0 {
					l.cnt[sub+"/exact_distance_minus_documented_error"]++
					var less bool
					c.Guard(sub, cas, func() any { return det(map[string]any{"limit": lo}) }, func() { less = s2.IsInteriorDistanceLess(x, a, b, s1.ChordAngle(lo)) })
					if less {
						c.Violate(sub, "wrong-answer", "IsInteriorDistanceLess answers true for a limit below the exact distance by more than the documented error", cas,
							det(map[string]any{"limit": lo, "exact_chord2": t, "documented_max_error": E}))
					}
				}
			case c17ClearlyOutside(X, A, B, true) || c17ClearlyOutside(X, A, B, false):
				l.cnt[sub+"/x_well_outside_the_wedge"]++
				if iok {
					c.Violate(sub, "wrong-answer", "IsInteriorDistanceLess(…, Infinity) reports an interior minimum although x lies well outside the wedge of the edge", cas,
						det(map[string]any{"interior_distance": float64(di), "exact_chord2": exact.HPFloat64(dmin)}))
				}
			}
			if (i*7919+j)%30011 == 5 {
				c.Sample(map[string]any{"sub": sub, "edge": e.name, "x": c17P(x), "UpdateMinInteriorDistance": []any{float64(di), iok}})
			}
		}
	})
	if cut {
		c.CapHit(sub + ": wall budget reached")
	}
}

// ---- PointOnLine / PointToLeft / PointToRight / PointOnRay ---------------------------------------

func c17CovPointOnLine(c *core.Ctx, st *c17State) {
	const sub = "cov-point-on-line"
	edges := c17Edges(c)
	// exactly antipodal and nearly antipodal edges: "the line AB has a well-defined
	// direction even when A and B are antipodal or nearly so"
	for bi, a := range c17Bases(c) {
		anti := s2.Point{Vector: a.Mul(-1)}
		edges = append(edges, c17Edge{a: a, b: anti, name: fmt.Sprintf("base%d to its exact antipode", bi)})
		k := 0
		for _, q := range lattice.PUlp(anti, 1) {
			if q != anti && c17NormOK(q) && k < core.Pick(c, 4, 26) {
				edges = append(edges, c17Edge{a: a, b: q, name: fmt.Sprintf("base%d to ulp neighbour %d of its antipode", bi, k)})
				k++
			}
		}
	}
	rs := core.Pick(c,
		[]float64{0, 1e-15, 1e-8, 1e-3, 0.5, 1, math.Pi / 2, 2, math.Pi - 1e-8, math.Pi},
		[]float64{0, 5e-324, 1e-300, 1e-15, 1e-12, 1e-8, 1e-5, 1e-3, 0.1, 0.5, 1, 1.5, math.Pi/2 - 1e-8, math.Pi / 2, math.Pi/2 + 1e-8, 2, 2.5, 3, math.Pi - 1e-3, math.Pi - 1e-8, math.Pi - 1e-12, math.Pi})
	refErr := exact.HPRefErr()
	c.Note(sub+"/lattice", map[string]int{"edges": len(edges), "distances": len(rs)})
	c.ParallelFor(len(edges), func(i int) {
		l := newC17Local()
		defer st.merge(l)
		e := edges[i]
		a, b := e.a, e.b
		A, B := exact.FromVector(a.Vector), exact.FromVector(b.Vector)
		N := A.Cross(B)
		M := A.Cross(N) // rotating a around M by +r moves it to the left of a->b
		cls := ""
		switch {
		case a == b:
			cls = " (a == b)"
		case N.IsZero():
			cls = " (a and b exactly parallel or antipodal)"
		case exact.HPSin2(A, B).Cmp(exact.HP(1e-300)) < 0:
			// one root cause, one class: |a x b| is below 1e-150, its square underflows
			cls = " (a and b distinct but within 1e-150 rad of parallel or antipodal)"
		case e.short:
			cls = " (distinct endpoints less than 1e-15 rad apart)"
		case !c17EdgeUsable(a, b):
			cls = " (endpoints within 1e-14 rad of antipodal)"
		}
		// directions for PointOnRay
		type ray struct {
			d    s2.Point
			name string
		}
		var rays []ray
		for _, r := range []ray{{s2.Point{Vector: e.dir}, "unit tangent of the edge frame"}, {s2.Point{Vector: e.n}, "unit normal of the edge frame"},
			{s2.Point{Vector: a.PointCross(b).Cross(a.Vector).Normalize()}, "a.PointCross(b).Cross(a).Normalize()"}} {
			if !c17Finite(r.d) || !c17NormOK(r.d) {
				continue
			}
			// documented REQUIRES: perpendicular to within the tolerance of the calculation
			dt := A.Dot(exact.FromVector(r.d.Vector))
			if dt.Mul(dt).Cmp(exact.S{M: big.NewInt(1), E: -100}) > 0 {
				l.cnt[sub+"/PointOnRay_direction_skipped_not_perpendicular"]++
				continue
			}
			rays = append(rays, r)
		}
		for j, r := range rs {
			if c.Skip(sub, i, j) {
				continue
			}
			cas := []int{i, j}
			tol := exact.HPAdd(exact.HP(c17Tol+4*c17Eps*r), refErr)
			det := func(extra map[string]any) map[string]any {
				m := map[string]any{"tier": c.Tier, "a": c17P(a), "b": c17P(b), "r": r, "edge": e.name}
				for k, v := range extra {
					m[k] = v
				}
				return m
			}
			// judge p against "o rotated by want around the exact axis K" (K perpendicular to o)
			judge := func(fn string, o exact.V, K exact.V, p s2.Point, want float64, what string, extra map[string]any) {
				c.Eval(1)
				l.cnt[sub+"/"+fn+"_cases"]++
				d := func(m map[string]any) map[string]any {
					mm := det(extra)
					mm["result"] = fmt.Sprint(p.Vector)
					for k, v := range m {
						mm[k] = v
					}
					return mm
				}
				if !c17Finite(p) || !p.IsUnit() {
					c.Violate(sub, "wrong-answer", fn+" returns a point that is not unit length"+cls, cas, d(nil))
					return
				}
				P := exact.FromVector(p.Vector)
				dist := exact.HPAngle(o, P)
				dd := exact.HPAbs(exact.HPSub(dist, exact.HP(r)))
				l.ratio("max_error_over_tolerance/"+fn+" distance from a", exact.HPFloat64(dd)/exact.HPFloat64(tol))
				if !c17HPle(dd, tol) {
					c.Violate(sub, "bound-exceeded", fn+" returns a point whose distance from a differs from r by more than 1e-14 rad"+cls, cas,
						d(map[string]any{"distance_from_a": exact.HPFloat64(dist)}))
					return
				}
				if K.IsZero() {
					l.cnt[sub+"/"+fn+"_direction_not_judged_arbitrary"]++
					return
				}
				if r > 0 && r < math.Pi {
					c.Nontrivial(1)
				}
				off := c17CovSinOff(P, K)
				dpos := c17CovAngDiff(exact.HPSignedAngle(o, P, K), want)
				l.ratio("max_error_over_tolerance/"+fn+" direction", math.Max(exact.HPFloat64(off), exact.HPFloat64(dpos))/exact.HPFloat64(tol))
				if !c17HPle(off, tol) || !c17HPle(dpos, tol) {
					c.Violate(sub, "bound-exceeded", fn+" returns a point that is not "+what+" (farther than 1e-14 rad)"+cls, cas,
						d(map[string]any{"off_plane": exact.HPFloat64(off), "rotation_error": exact.HPFloat64(dpos)}))
				}
			}
			var pl, pL, pR s2.Point
			okc := false
			c.Guard(sub, cas, func() any { return det(nil) }, func() {
				pl = s2.PointOnLine(a, b, s1.Angle(r))
				pL = s2.PointToLeft(a, b, s1.Angle(r))
				pR = s2.PointToRight(a, b, s1.Angle(r))
				okc = true
			})
			if !okc {
				continue
			}
			KN, KM := N, M
			if a == b {
				KN, KM = exact.V{X: new(big.Int), Y: new(big.Int), Z: new(big.Int)}, exact.V{X: new(big.Int), Y: new(big.Int), Z: new(big.Int)}
			}
			judge("PointOnLine", A, KN, pl, r, "on the line ab at distance r from a towards b", nil)
			judge("PointToLeft", A, KM, pL, r, "at distance r from a perpendicular to ab on its left", nil)
			judge("PointToRight", A, KM, pR, -r, "at distance r from a perpendicular to ab on its right", nil)
			if i%9 == 2 && j == 4 {
				c.Sample(map[string]any{"sub": sub, "edge": e.name, "r": r, "PointOnLine": c17P(pl), "PointToLeft": c17P(pL), "PointToRight": c17P(pR)})
			}
			for _, ry := range rays {
				ry := ry
				var p s2.Point
				okc = false
				c.Guard(sub, cas, func() any { return det(map[string]any{"dir": c17P(ry.d)}) }, func() { p = s2.PointOnRay(a, ry.d, s1.Angle(r)); okc = true })
				if !okc {
					continue
				}
				D := exact.FromVector(ry.d.Vector)
				judge("PointOnRay", A, A.Cross(D), p, r, "on the ray from the origin in the given direction", map[string]any{"dir": c17P(ry.d), "dir_is": ry.name})
			}
		}
	})
}

// ---- EdgePairClosestPoints: the four vertex-edge cases and the crossing case ---------------------

func c17CovEdgePairs(c *core.Ctx, st *c17State) {
	const sub = "cov-edge-pair-cases"
	var edges []c17Edge
	for _, e := range c17Edges(c) {
		if c17EdgeUsable(e.a, e.b) && !e.short {
			edges = append(edges, e)
		}
	}
	ts := []float64{-0.5, 0, 0.5, 1, 1.5}
	rs := core.Pick(c, []float64{-0.3, -1e-3, 1e-3, 0.3}, []float64{-1, -0.3, -1e-3, -1e-8, 1e-8, 1e-3, 0.3, 1})
	refErr := exact.HPRefErr()
	c.Note(sub+"/lattice", map[string]int{"edges": len(edges), "second_edge_endpoints": len(ts) * len(rs)})
	cut := false
	var branch [5]atomic.Int64 // judged pairs answered with vertex a0 / a1 / b0 / b1 / the crossing point
	c.ParallelFor(len(edges), func(i int) {
		l := newC17Local()
		defer st.merge(l)
		e := edges[i]
		a0, a1 := e.a, e.b
		A0, A1 := exact.FromVector(a0.Vector), exact.FromVector(a1.Vector)
		L := e.length
		if e.degen || L == 0 {
			L = 1e-3
		}
		var pts []s2.Point
		for _, t := range ts {
			p := c17At(e.a, e.dir, t*L)
			for _, r := range rs {
				pts = append(pts, c17N(p.Mul(math.Cos(r)).Add(e.n.Mul(math.Sin(r)))))
			}
		}
		pts = lattice.Dedup(pts)
		j := 0
		for _, b0 := range pts {
			for _, b1 := range pts {
				j++
				if c.Skip(sub, i, j) {
					continue
				}
				if c.Expired() {
					cut = true
					return
				}
				if !c17NormOK(b0) || !c17NormOK(b1) || !c17EdgeUsable(b0, b1) {
					continue
				}
				B0, B1 := exact.FromVector(b0.Vector), exact.FromVector(b1.Vector)
				c.Eval(1)
				cas := []int{i, j}
				det := func(extra map[string]any) map[string]any {
					m := map[string]any{"tier": c.Tier, "a0": c17P(a0), "a1": c17P(a1), "b0": c17P(b0), "b1": c17P(b1), "edge": e.name}
					for k, v := range extra {
						m[k] = v
					}
					return m
				}
				ref := refmodel.CrossingSign(a0, a1, b0, b1)
				var impl s2.Crossing
				var pa, pb s2.Point
				okc := false
				c.Guard(sub, cas, func() any { return det(nil) }, func() {
					impl = s2.CrossingSign(a0, a1, b0, b1)
					pa, pb = s2.EdgePairClosestPoints(a0, a1, b0, b1)
					okc = true
				})
				if !okc {
					continue
				}
				if (ref == refmodel.Cross) != (impl == s2.Cross) {
					l.cnt[sub+"/not_judged_CrossingSign_disagrees_with_reference"]++
					continue
				}
				if !c17Finite(pa) || !c17Finite(pb) || !pa.IsUnit() || !pb.IsUnit() {
					c.Violate(sub, "wrong-answer", "EdgePairClosestPoints returns a point that is not unit length", cas, det(map[string]any{"pa": fmt.Sprint(pa.Vector), "pb": fmt.Sprint(pb.Vector)}))
					continue
				}
				var dstar *big.Float
				minCos2 := exact.HPInt(1)
				refCase := "crossing"
				if ref == refmodel.Cross {
					dstar = exact.HPInt(0)
					if pa != pb {
						c.Violate(sub, "wrong-answer", "EdgePairClosestPoints of crossing edges returns two different points", cas, det(map[string]any{"pa": c17P(pa), "pb": c17P(pb)}))
						continue
					}
				} else {
					var ds [4]*big.Float
					names := [4]string{"a0", "a1", "b0", "b1"}
					best := -1
					for k, q := range []struct{ x, p, r exact.V }{{A0, B0, B1}, {A1, B0, B1}, {B0, A0, A1}, {B1, A0, A1}} {
						d, _ := exact.HPEdgeMinChord2(q.x, q.p, q.r)
						if d == nil {
							continue
						}
						ds[k] = d
						if best < 0 || d.Cmp(ds[best]) < 0 {
							best = k
						}
						if n := q.p.Cross(q.r); !n.IsZero() {
							xn := q.x.Dot(n)
							minCos2 = exact.HPMin(minCos2, exact.HPSub(exact.HPInt(1), exact.HPRatio(xn.Mul(xn), q.x.Norm2().Mul(n.Norm2()))))
						}
					}
					if best < 0 {
						continue
					}
					dstar = ds[best]
					unique := true
					for k := range ds {
						if k != best && ds[k] != nil && exact.HPSub(exact.HPSqrt(ds[k]), exact.HPSqrt(dstar)).Cmp(exact.HP(1e-9)) < 0 {
							unique = false
						}
					}
					refCase = "tie between vertices"
					if unique {
						refCase = "vertex " + names[best] + " uniquely closest"
					}
				}
				if minCos2.Cmp(exact.HP(1e-6)) < 0 {
					l.cnt[sub+"/not_judged_a_vertex_within_1e-3_of_the_pole_of_the_other_edge"]++
					continue
				}
				c.Nontrivial(1)
				l.cnt[sub+"/judged"]++
				l.cnt[sub+"/reference: "+refCase]++
				if ref != refmodel.Cross {
					// which branch the implementation took (exact identity of the returned vertex)
					switch {
					case pa == a0:
						l.cnt[sub+"/implementation returned vertex a0"]++
						branch[0].Add(1)
					case pa == a1:
						l.cnt[sub+"/implementation returned vertex a1"]++
						branch[1].Add(1)
					}
					switch {
					case pb == b0:
						l.cnt[sub+"/implementation returned vertex b0"]++
						branch[2].Add(1)
					case pb == b1:
						l.cnt[sub+"/implementation returned vertex b1"]++
						branch[3].Add(1)
					}
				} else {
					branch[4].Add(1)
				}
				if (i*131+j)%4001 == 17 {
					c.Sample(map[string]any{"sub": sub, "a0": c17P(a0), "a1": c17P(a1), "b0": c17P(b0), "b1": c17P(b1), "closest_points": [2][3]float64{c17P(pa), c17P(pb)}, "reference": refCase})
				}
				tol := c17Tol / math.Sqrt(exact.HPFloat64(minCos2))
				PA, PB := exact.FromVector(pa.Vector), exact.FromVector(pb.Vector)
				onA, _ := exact.HPEdgeMinChord2(PA, A0, A1)
				onB, _ := exact.HPEdgeMinChord2(PB, B0, B1)
				if onA == nil || onB == nil {
					continue
				}
				sep := exact.HPSqrt(exact.HPChord2(PA, PB))
				l.ratio("max_error_over_tolerance/EdgePairClosestPoints (case lattice)", math.Max(math.Max(math.Sqrt(exact.HPFloat64(onA)), math.Sqrt(exact.HPFloat64(onB))), exact.HPFloat64(sep)-math.Sqrt(exact.HPFloat64(dstar)))/tol)
				t2 := c17Chord2Tol(tol)
				switch {
				case !c17HPle(onA, t2) || !c17HPle(onB, t2):
					c.Violate(sub, "bound-exceeded", "EdgePairClosestPoints returns a point that is not on its edge (farther than 1e-14/cos rad)", cas,
						det(map[string]any{"pa": c17P(pa), "pb": c17P(pb), "pa_from_edge_a": math.Sqrt(exact.HPFloat64(onA)), "pb_from_edge_b": math.Sqrt(exact.HPFloat64(onB)), "tolerance": tol, "reference": refCase}))
				case !c17HPle(sep, exact.HPAdd(exact.HPAdd(exact.HPSqrt(dstar), exact.HP(tol)), refErr)):
					c.Violate(sub, "bound-exceeded", "EdgePairClosestPoints returns points farther apart than the exact minimum distance of the edges (excess more than 1e-14/cos rad)", cas,
						det(map[string]any{"pa": c17P(pa), "pb": c17P(pb), "separation_chord": exact.HPFloat64(sep), "exact_min_chord": math.Sqrt(exact.HPFloat64(dstar)), "tolerance": tol, "reference": refCase}))
				}
			}
		}
	})
	if cut {
		c.CapHit(sub + ": wall budget reached")
	} else if c17CovLive(c) {
		for k := range branch {
			if branch[k].Load() == 0 {
				panic(core.HarnessError(fmt.Sprintf("C17 %s: vacuous, no judged pair was answered from case %d (a0, a1, b0, b1, crossing)", sub, k)))
			}
		}
	}
}

// ---- polyline measures ----------------------------------------------------------------------------

// c17CovPairRef is the reference length and "true centroid times length" of one
// edge: angle(a,b) and (a^ + b^) |a^ - b^| / |a^ + b^| for the unit vectors a^, b^.
type c17CovPairRef struct {
	ang *big.Float
	cen [3]*big.Float
	// tol is the tolerance of the centroid of this edge: c17Tol plus the effect of the
	// documented normalisation slack of the inputs (each within 2 dblEpsilon of unit
	// length, hence 4 dblEpsilon on a+b) on the direction of the midpoint of a nearly
	// antipodal edge, 4 dblEpsilon / cos(theta/2), doubled.
	tol float64
}

func c17CovEdgeRef(a, b s2.Point) c17CovPairRef {
	z := func() *big.Float { return exact.HPInt(0) }
	if a == b {
		return c17CovPairRef{ang: z(), cen: [3]*big.Float{z(), z(), z()}}
	}
	A, B := exact.FromVector(a.Vector), exact.FromVector(b.Vector)
	na, nb := exact.HPSqrt(A.Norm2().Big(exact.HPPrec)), exact.HPSqrt(B.Norm2().Big(exact.HPPrec))
	c2 := exact.HPChord2(A, B)
	f := exact.HPSqrt(exact.HPQuo(c2, exact.HPSub(exact.HPInt(4), c2)))
	var r c17CovPairRef
	r.ang = exact.HPAngle(A, B)
	r.tol = c17Tol + 8*c17Eps/math.Sqrt(math.Max(1e-300, 1-exact.HPFloat64(c2)/4))
	for k := 0; k < 3; k++ {
		s := exact.HPAdd(exact.HPQuo(A.Comp(k).Big(exact.HPPrec), na), exact.HPQuo(B.Comp(k).Big(exact.HPPrec), nb))
		r.cen[k] = exact.HPMul(s, f)
	}
	return r
}

// c17CovSeqRef sums the edge references of a vertex sequence.
func c17CovSeqRef(tab [][]c17CovPairRef, idx []int) (length *big.Float, cen [3]*big.Float, tolCen float64, nondegenerate int) {
	length = exact.HPInt(0)
	for k := range cen {
		cen[k] = exact.HPInt(0)
	}
	for i := 1; i < len(idx); i++ {
		r := tab[idx[i-1]][idx[i]]
		length = exact.HPAdd(length, r.ang)
		for k := range cen {
			cen[k] = exact.HPAdd(cen[k], r.cen[k])
		}
		tolCen += r.tol
		if idx[i-1] != idx[i] {
			nondegenerate++
		}
	}
	return
}

func c17CovPairTable(alpha []s2.Point) [][]c17CovPairRef {
	tab := make([][]c17CovPairRef, len(alpha))
	for i := range alpha {
		tab[i] = make([]c17CovPairRef, len(alpha))
		for j := range alpha {
			tab[i][j] = c17CovEdgeRef(alpha[i], alpha[j])
		}
	}
	return tab
}

// c17CovJudgeMeasures judges a length and a centroid of the sequence idx against the reference.
func c17CovJudgeMeasures(c *core.Ctx, sub string, cas []int, fnLen, fnCen string, length s1.Angle, cen s2.Point,
	refLen *big.Float, refCen [3]*big.Float, tolC float64, nEdges, nondegenerate int, det func(map[string]any) map[string]any, l *c17Local) {
	refErr := exact.HPRefErr()
	if nondegenerate == 0 {
		// fewer than two vertices, or only repeated vertices: documented to be exactly zero
		if length != 0 {
			c.Violate(sub, "wrong-answer", fnLen+" of a polyline without a non-degenerate edge is not 0", cas, det(map[string]any{fnLen: float64(length)}))
		}
		if cen.Vector != (r3.Vector{}) {
			c.Violate(sub, "wrong-answer", fnCen+" of a polyline without a non-degenerate edge is not (0,0,0)", cas, det(map[string]any{fnCen: fmt.Sprint(cen.Vector)}))
		}
		return
	}
	tolL := exact.HPAdd(exact.HP(c17Tol*float64(nEdges)), exact.HPMul(refLen, exact.HP(4*c17Eps*float64(nEdges))))
	if math.IsNaN(float64(length)) {
		c.Violate(sub, "wrong-answer", fnLen+" is NaN", cas, det(nil))
	} else {
		dl := exact.HPAbs(exact.HPSub(exact.HP(float64(length)), refLen))
		l.ratio("max_error_over_tolerance/"+fnLen, exact.HPFloat64(dl)/exact.HPFloat64(tolL))
		if !c17HPle(dl, exact.HPAdd(tolL, refErr)) {
			c.Violate(sub, "bound-exceeded", fnLen+" differs from the sum of the exact edge angles by more than 1e-14 rad per edge", cas,
				det(map[string]any{fnLen: float64(length), "exact_length": exact.HPFloat64(refLen)}))
		}
	}
	if !c17Finite(cen) {
		c.Violate(sub, "wrong-answer", fnCen+" is not finite", cas, det(map[string]any{fnCen: fmt.Sprint(cen.Vector)}))
		return
	}
	e2 := exact.HPInt(0)
	for k, g := range []float64{cen.X, cen.Y, cen.Z} {
		d := exact.HPSub(exact.HP(g), refCen[k])
		e2 = exact.HPAdd(e2, exact.HPMul(d, d))
	}
	ec := exact.HPSqrt(e2)
	l.ratio("max_error_over_tolerance/"+fnCen, exact.HPFloat64(ec)/tolC)
	if !c17HPle(ec, exact.HPAdd(exact.HP(tolC), refErr)) {
		c.Violate(sub, "bound-exceeded", fnCen+" differs from the sum of the exact edge centroids by more than 1e-14 per edge (plus the conditioning of nearly antipodal edges)", cas,
			det(map[string]any{fnCen: c17P(cen), "exact_centroid": [3]float64{exact.HPFloat64(refCen[0]), exact.HPFloat64(refCen[1]), exact.HPFloat64(refCen[2])}, "tolerance": tolC}))
	}
}

func c17CovPolyMeasures(c *core.Ctx, st *c17State) {
	const sub = "cov-polyline-measures"
	alpha := c17PolyAlphabet()
	nA := len(alpha)
	for i := range alpha {
		for j := range alpha {
			if i != j && (alpha[i] == alpha[j] || antipodal(alpha[i], alpha[j])) {
				panic(core.HarnessError("C17: polyline alphabet has identical or antipodal points"))
			}
		}
	}
	tab := c17CovPairTable(alpha)
	maxLen := core.Pick(c, 4, 5)
	type job struct{ n, first int }
	jobs := []job{{0, -1}}
	for n := maxLen; n >= 1; n-- {
		for f := 0; f < nA; f++ {
			jobs = append(jobs, job{n, f})
		}
	}
	c.Note(sub+"/lattice", map[string]int{"alphabet": nA, "max_vertices": maxLen})
	c.ParallelFor(len(jobs), func(ji int) {
		l := newC17Local()
		defer st.merge(l)
		jb := jobs[ji]
		rest := 1
		for k := 1; k < jb.n; k++ {
			rest *= nA
		}
		for code := 0; code < rest; code++ {
			if c.Skip(sub, ji, code) {
				continue
			}
			var idx []int
			if jb.n >= 1 {
				idx = append(idx, jb.first)
			}
			x := code
			for k := 1; k < jb.n; k++ {
				idx = append(idx, x%nA)
				x /= nA
			}
			pts := make([]s2.Point, len(idx))
			for k, ix := range idx {
				pts[k] = alpha[ix]
			}
			cas := []int{ji, code}
			det := func(extra map[string]any) map[string]any {
				m := map[string]any{"tier": c.Tier, "vertices": c17CovPts(pts), "alphabet_indices": idx}
				for k, v := range extra {
					m[k] = v
				}
				return m
			}
			refLen, refCen, tolCen, nondeg := c17CovSeqRef(tab, idx)
			nEdges := len(idx) - 1
			c.Eval(1)
			l.cnt[sub+"/sequences"]++
			if nondeg > 0 {
				c.Nontrivial(1)
				l.cnt[sub+"/sequences_with_a_non_degenerate_edge"]++
			}
			if nondeg < nEdges {
				l.cnt[sub+"/sequences_with_repeated_adjacent_vertices"]++
			}
			var ln s1.Angle
			var cn s2.Point
			okc := false
			c.Guard(sub, cas, func() any { return det(nil) }, func() {
				ln = c17CovPolylineLength(pts)
				cn = c17CovPolylineCentroid(pts)
				okc = true
			})
			if okc {
				c17CovJudgeMeasures(c, sub, cas, "polylineLength", "polylineCentroid", ln, cn, refLen, refCen, tolCen, nEdges, nondeg, det, l)
			}
			pl := s2.Polyline(pts)
			if len(idx) >= 2 && pl.Validate() != nil {
				continue // Polyline documents that adjacent vertices are not identical
			}
			okc = false
			c.Guard(sub, cas, func() any { return det(nil) }, func() {
				ln = pl.Length()
				cn = pl.Centroid()
				okc = true
			})
			if okc {
				l.cnt[sub+"/valid_polylines"]++
				c17CovJudgeMeasures(c, sub, cas, "Polyline.Length", "Polyline.Centroid", ln, cn, refLen, refCen, tolCen, nEdges, nondeg, det, l)
				if len(idx) == 3 && code%29 == 7 {
					c.Sample(map[string]any{"sub": sub, "alphabet_indices": idx, "Length": float64(ln), "Centroid": c17P(cn), "exact_length": exact.HPFloat64(refLen)})
				}
			}
		}
	})
}

// ---- ChordAngle trigonometry ------------------------------------------------------------------------

func c17CovChordAngle(c *core.Ctx, st *c17State) {
	const sub = "cov-chordangle-trig"
	l := newC17Local()
	defer st.merge(l)
	seen := map[float64]bool{}
	var vals []float64
	add := func(v float64) {
		if !seen[v] && !math.IsNaN(v) {
			seen[v] = true
			vals = append(vals, v)
		}
	}
	for _, v := range []float64{0, 5e-324, 0x1p-1022, 1e-300, 1e-170, 1e-30, 1e-16, 0x1p-52, 1e-8, 1e-3, 0.5, 1, 1.5, 2, 2.5, 3, 3.5, 4 - 1e-3, 4 - 1e-8, 4} {
		for d := -2; d <= 2; d++ {
			if u := lattice.Ulp(v, d); u >= 0 {
				add(u)
			}
		}
	}
	kmax := core.Pick(c, 60, 1074)
	for k := 1; k <= kmax; k++ {
		p := math.Ldexp(1, -k)
		add(p)
		add(2 - p)
		add(2 + p)
		add(4 - p)
	}
	// squared lengths above 4
	for _, v := range []float64{lattice.Ulp(4, 1), lattice.Ulp(4, 2), 4.0000000000000018, 4.5, 5, 16, 1e10, 1e300, math.MaxFloat64, math.Inf(1)} {
		add(v)
	}
	c.Note(sub+"/values", len(vals))
	refErr := exact.HPRefErr()
	one := exact.Int(1)
	rel := func(got float64, want *big.Float, k float64) (bool, float64) { // |got - want| <= k eps |want| + one denormal
		d := exact.HPAbs(exact.HPSub(exact.HP(got), want))
		lim := exact.HPAdd(exact.HPMul(exact.HPAbs(want), exact.HP(k*c17Eps)), exact.HP(5e-324))
		return c17HPle(d, lim), exact.HPFloat64(d) / exact.HPFloat64(lim)
	}
	for i, v := range vals {
		if c.Skip(sub, i) {
			continue
		}
		c.Eval(1)
		cas := []int{i}
		det := func(extra map[string]any) map[string]any {
			m := map[string]any{"tier": c.Tier, "squared_length": fmt.Sprint(v)}
			for k, x := range extra {
				m[k] = x
			}
			return m
		}
		c.Guard(sub, cas, func() any { return det(nil) }, func() {
			// ChordAngleFromSquaredLength: documented clamp to 4 (argument non-negative)
			ca := s1.ChordAngleFromSquaredLength(v)
			wantCA := s1.ChordAngle(math.Min(v, 4))
			l.cnt[sub+"/ChordAngleFromSquaredLength_cases"]++
			if v > 4 {
				l.cnt[sub+"/ChordAngleFromSquaredLength_above_4"]++
			}
			if ca != wantCA {
				c.Violate(sub, "wrong-answer", "ChordAngleFromSquaredLength does not return the squared length clamped to 4", cas, det(map[string]any{"got": fmt.Sprint(float64(ca)), "want": float64(wantCA)}))
			}
			// isValid: [0,4], negative and infinity are valid; a finite length above 4 is not
			valid := c17CovChordAngleIsValid(s1.ChordAngle(v))
			wantValid := v <= 4 || math.IsInf(v, 1)
			l.cnt[sub+"/isValid_cases"]++
			if valid != wantValid {
				c.Violate(sub, "wrong-answer", "ChordAngle.isValid disagrees with the documented range (0..4, negative, infinity)", cas, det(map[string]any{"isValid": valid}))
			}
			if !c17CovChordAngleIsValid(ca) {
				c.Violate(sub, "wrong-answer", "ChordAngleFromSquaredLength returns an invalid ChordAngle", cas, det(map[string]any{"got": fmt.Sprint(float64(ca))}))
			}
			if v > 4 {
				return
			}
			// trigonometry from the exact identities of the angle theta subtended by a chord of squared
			// length c: cos theta = 1 - c/2, sin^2 theta = c (1 - c/4)
			ch := s1.ChordAngle(v)
			C := exact.FromFloat(v)
			cosE := one.Sub(C.Mul(exact.S{M: big.NewInt(1), E: -1}))
			sin2E := C.Mul(one.Sub(C.Mul(exact.S{M: big.NewInt(1), E: -2})))
			cosW, sin2W := cosE.Big(exact.HPPrec), sin2E.Big(exact.HPPrec)
			sinW := exact.HPSqrt(sin2W)
			l.cnt[sub+"/trigonometry_cases"]++
			if v > 0 && v < 4 {
				c.Nontrivial(1)
			}
			for _, q := range []struct {
				name string
				got  float64
				want *big.Float
				k    float64
			}{{"Cos", ch.Cos(), cosW, 1}, {"Sin2", ch.Sin2(), sin2W, 2}, {"Sin", ch.Sin(), sinW, 2}} {
				ok, ratio := rel(q.got, q.want, q.k)
				l.ratio("max_error_over_tolerance/ChordAngle."+q.name, ratio)
				if math.IsNaN(q.got) || !ok {
					c.Violate(sub, "bound-exceeded", fmt.Sprintf("ChordAngle.%s differs from the exact value of the angle's identity by more than %g dblEpsilon relative", q.name, q.k), cas,
						det(map[string]any{"got": fmt.Sprint(q.got), "exact": exact.HPFloat64(q.want)}))
				}
			}
			theta := exact.HPChord2ToAngle(exact.HP(v)) // 2 asin(sqrt(c)/2): an independent route
			tolT := exact.HPAdd(exact.HPAdd(exact.HP(4*c17Eps), exact.HPMul(theta, exact.HP(4*c17Eps))), refErr)
			th2 := exact.HPAtan2(exact.HP(ch.Sin()), exact.HP(ch.Cos()))
			d2 := exact.HPAbs(exact.HPSub(th2, theta))
			l.ratio("max_error_over_tolerance/atan2(Sin,Cos) against 2 asin(sqrt(c)/2)", exact.HPFloat64(d2)/exact.HPFloat64(tolT))
			if !c17HPle(d2, tolT) {
				c.Violate(sub, "bound-exceeded", "the angle of (ChordAngle.Cos, ChordAngle.Sin) differs from 2 asin(sqrt(c)/2) by more than 4 dblEpsilon", cas,
					det(map[string]any{"Sin": ch.Sin(), "Cos": ch.Cos(), "angle_of_sin_cos": exact.HPFloat64(th2), "exact_angle": exact.HPFloat64(theta)}))
			}
			if cosE.Sign() != 0 {
				l.cnt[sub+"/Tan_cases"]++
				tn := ch.Tan()
				ok, ratio := rel(tn, exact.HPQuo(sinW, cosW), 6)
				l.ratio("max_error_over_tolerance/ChordAngle.Tan", ratio)
				wantAt := theta
				if cosE.Sign() < 0 {
					wantAt = exact.HPSub(theta, exact.HPPi())
				}
				var da *big.Float
				if !math.IsNaN(tn) && !math.IsInf(tn, 0) {
					da = exact.HPAbs(exact.HPSub(exact.HPAtan(exact.HP(tn)), wantAt))
				}
				if !ok || da == nil || !c17HPle(da, exact.HPAdd(tolT, exact.HP(4*c17Eps))) {
					c.Violate(sub, "bound-exceeded", "ChordAngle.Tan differs from sin/cos of the angle by more than 6 dblEpsilon relative", cas,
						det(map[string]any{"got": fmt.Sprint(tn), "exact": exact.HPFloat64(exact.HPQuo(sinW, cosW))}))
				}
			} else {
				l.cnt[sub+"/Tan_not_judged_right_angle"]++
			}
			if i%97 == 11 {
				c.Sample(map[string]any{"sub": sub, "squared_length": v, "Sin": ch.Sin(), "Cos": ch.Cos(), "Tan": ch.Tan()})
			}
		})
	}
	// the documented special values
	if c17CovLive(c) {
		for _, q := range []struct {
			name string
			v    s1.ChordAngle
		}{{"NegativeChordAngle", s1.NegativeChordAngle}, {"InfChordAngle", s1.InfChordAngle()}, {"StraightChordAngle", s1.StraightChordAngle}, {"RightChordAngle", s1.RightChordAngle}, {"zero", 0}} {
			l.cnt[sub+"/isValid_cases"]++
			if !c17CovChordAngleIsValid(q.v) {
				c.Violate(sub, "wrong-answer", "ChordAngle.isValid is false for the documented special value "+q.name, []int{-1}, map[string]any{"value": fmt.Sprint(float64(q.v))})
			}
		}
	}
}

// ---- Polyline.Reverse / Equal / ApproxEqual / Project of the reverse ----------------------------------

func c17CovPolyOps(c *core.Ctx, st *c17State) {
	const sub = "cov-polyline-ops"
	alpha := c17PolyAlphabet()
	nA := len(alpha)
	tab := c17CovPairTable(alpha)
	maxLen := core.Pick(c, 3, 4)
	refErr := exact.HPRefErr()
	// ApproxEqual variants of each alphabet point, classified by the exact angle
	type variant struct {
		p     s2.Point
		class int // +1 must be approximately equal, -1 must not, 0 not judged
		ang   float64
	}
	vars := make([][]variant, nA)
	for i, v := range alpha {
		V := exact.FromVector(v.Vector)
		o := s2.Ortho(v).Vector
		cand := lattice.PUlp(v, 1)
		for _, h := range []float64{2e-16, 4e-16, 8e-16, 1.5e-15, 3e-15, 1e-14, 1e-9, 1e-3} {
			cand = append(cand, c17At(v, o, h))
		}
		for _, w := range cand {
			if !c17NormOK(w) {
				continue
			}
			ang := exact.HPAngle(V, exact.FromVector(w.Vector))
			cl := 0
			switch {
			case ang.Cmp(exact.HP(5e-16)) <= 0:
				cl = 1
			case ang.Cmp(exact.HP(2e-15)) >= 0:
				cl = -1
			}
			vars[i] = append(vars[i], variant{w, cl, exact.HPFloat64(ang)})
		}
	}
	probes := []s2.Point{alpha[3], c17At(alpha[0], s2.Ortho(alpha[0]).Vector, 0.5), lattice.LL(-40, 100), lattice.LL(12, 25)}
	type job struct{ n, first int }
	jobs := []job{{0, -1}}
	for n := maxLen; n >= 1; n-- {
		for f := 0; f < nA; f++ {
			jobs = append(jobs, job{n, f})
		}
	}
	c.Note(sub+"/lattice", map[string]int{"alphabet": nA, "max_vertices": maxLen, "probes": len(probes), "variants_per_vertex": len(vars[0])})
	c.ParallelFor(len(jobs), func(ji int) {
		l := newC17Local()
		defer st.merge(l)
		jb := jobs[ji]
		rest := 1
		for k := 1; k < jb.n; k++ {
			rest *= nA
		}
		for code := 0; code < rest; code++ {
			if c.Skip(sub, ji, code) {
				continue
			}
			var idx []int
			if jb.n >= 1 {
				idx = append(idx, jb.first)
			}
			x := code
			for k := 1; k < jb.n; k++ {
				idx = append(idx, x%nA)
				x /= nA
			}
			n := len(idx)
			pl := make(s2.Polyline, n)
			for k, ix := range idx {
				pl[k] = alpha[ix]
			}
			if n >= 2 && pl.Validate() != nil {
				continue
			}
			cas := []int{ji, code}
			det := func(extra map[string]any) map[string]any {
				m := map[string]any{"tier": c.Tier, "vertices": c17CovPts(pl), "alphabet_indices": idx}
				for k, v := range extra {
					m[k] = v
				}
				return m
			}
			c.Eval(1)
			l.cnt[sub+"/polylines"]++
			c.Guard(sub, cas, func() any { return det(nil) }, func() {
				// Reverse: the definition, and twice is the identity
				rev := append(s2.Polyline(nil), pl...)
				rev.Reverse()
				okRev := len(rev) == n
				for k := 0; okRev && k < n; k++ {
					okRev = rev[k] == pl[n-1-k]
				}
				if !okRev {
					c.Violate(sub, "wrong-answer", "Polyline.Reverse does not reverse the vertex order", cas, det(map[string]any{"reversed": c17CovPts(rev)}))
					return
				}
				twice := append(s2.Polyline(nil), rev...)
				twice.Reverse()
				orig := append(s2.Polyline(nil), pl...)
				if !twice.Equal(&orig) || !orig.Equal(&twice) {
					c.Violate(sub, "wrong-answer", "Polyline.Reverse twice is not Equal to the original", cas, det(map[string]any{"reversed_twice": c17CovPts(twice)}))
				}
				// Equal: exactly the same vertex sequence
				palin := true
				for k := 0; k < n; k++ {
					if idx[k] != idx[n-1-k] {
						palin = false
					}
				}
				l.cnt[sub+"/Equal_cases"] += 2
				if pl.Equal(&rev) != palin || rev.Equal(&pl) != palin {
					c.Violate(sub, "wrong-answer", "Polyline.Equal(reversed) disagrees with the vertex sequences being identical", cas, det(map[string]any{"palindrome": palin}))
				}
				if n >= 1 {
					shorter := append(s2.Polyline(nil), pl[:n-1]...)
					l.cnt[sub+"/Equal_cases"] += 2
					l.cnt[sub+"/ApproxEqual_cases"] += 2
					if pl.Equal(&shorter) || shorter.Equal(&pl) {
						c.Violate(sub, "wrong-answer", "Polyline.Equal is true for polylines with different numbers of vertices", cas, det(nil))
					}
					if pl.ApproxEqual(&shorter) || shorter.ApproxEqual(&pl) {
						c.Violate(sub, "wrong-answer", "Polyline.ApproxEqual is true for polylines with different numbers of vertices", cas, det(nil))
					}
				}
				for k := 0; k < n; k++ {
					for other := 0; other < nA; other++ {
						if other == idx[k] {
							continue
						}
						q := append(s2.Polyline(nil), pl...)
						q[k] = alpha[other]
						l.cnt[sub+"/Equal_cases"]++
						if pl.Equal(&q) {
							c.Violate(sub, "wrong-answer", "Polyline.Equal is true for polylines that differ in one vertex", cas, det(map[string]any{"position": k, "other": c17P(alpha[other])}))
						}
					}
					// ApproxEqual: one vertex replaced by a neighbour at a known exact distance
					for vi, w := range vars[idx[k]] {
						q := append(s2.Polyline(nil), pl...)
						q[k] = w.p
						g1, g2 := pl.ApproxEqual(&q), q.ApproxEqual(&pl)
						l.cnt[sub+"/ApproxEqual_cases"] += 2
						switch {
						case w.class == 0:
							l.cnt[sub+"/ApproxEqual_not_judged_distance_between_5e-16_and_2e-15"] += 2
						case g1 != (w.class > 0) || g2 != (w.class > 0):
							c.Violate(sub, "wrong-answer", "Polyline.ApproxEqual disagrees with the documented margin (every vertex pair within 1e-15 rad)", cas,
								det(map[string]any{"position": k, "variant": vi, "replaced_by": c17P(w.p), "exact_vertex_distance": w.ang, "ApproxEqual": []bool{g1, g2}}))
						default:
							if w.class > 0 {
								l.cnt[sub+"/ApproxEqual_judged_true"] += 2
							} else {
								l.cnt[sub+"/ApproxEqual_judged_false"] += 2
							}
						}
					}
				}
				if n == 0 {
					return
				}
				// the reverse has the same length and the same distances
				ridx := make([]int, n)
				for k := range idx {
					ridx[k] = idx[n-1-k]
				}
				refLen, _, _, _ := c17CovSeqRef(tab, ridx)
				if n >= 2 {
					c.Nontrivial(1)
					ln := rev.Length()
					tolL := exact.HPAdd(exact.HP(c17Tol*float64(n-1)), exact.HPMul(refLen, exact.HP(4*c17Eps*float64(n-1))))
					if dl := exact.HPAbs(exact.HPSub(exact.HP(float64(ln)), refLen)); math.IsNaN(float64(ln)) || !c17HPle(dl, exact.HPAdd(tolL, refErr)) {
						c.Violate(sub, "bound-exceeded", "Length of the reversed polyline differs from the sum of the exact edge angles by more than 1e-14 rad per edge", cas,
							det(map[string]any{"Length_of_reverse": float64(ln), "exact_length": exact.HPFloat64(refLen)}))
					}
				}
				V := make([]exact.V, n)
				for k, p := range rev {
					V[k] = exact.FromVector(p.Vector)
				}
				for pi, xq := range probes {
					l.cnt[sub+"/Project_of_reverse_cases"]++
					Q, next := rev.Project(xq)
					d := func(extra map[string]any) map[string]any {
						m := det(map[string]any{"probe": c17P(xq), "probe_index": pi, "Project_of_reverse": []any{fmt.Sprint(Q.Vector), next}})
						for k, v := range extra {
							m[k] = v
						}
						return m
					}
					if next < 1 || next > n || !c17Finite(Q) || !Q.IsUnit() {
						c.Violate(sub, "wrong-answer", "Project on the reversed polyline returns an index outside [1, len] or a point that is not unit length", cas, d(nil))
						continue
					}
					if n == 1 {
						if Q != rev[0] || next != 1 {
							c.Violate(sub, "wrong-answer", "single-vertex polyline: Project does not return (vertex, 1)", cas, d(nil))
						}
						continue
					}
					X := exact.FromVector(xq.Vector)
					var best *big.Float
					minCos2 := exact.HPInt(1)
					for k := 1; k < n; k++ {
						c2, _ := exact.HPEdgeMinChord2(X, V[k-1], V[k])
						if c2 == nil {
							continue
						}
						if best == nil || c2.Cmp(best) < 0 {
							best = c2
						}
						if nn := V[k-1].Cross(V[k]); !nn.IsZero() {
							xn := X.Dot(nn)
							minCos2 = exact.HPMin(minCos2, exact.HPSub(exact.HPInt(1), exact.HPRatio(xn.Mul(xn), X.Norm2().Mul(nn.Norm2()))))
						}
					}
					if best == nil || minCos2.Cmp(exact.HP(1e-6)) < 0 {
						l.cnt[sub+"/Project_of_reverse_not_judged_probe_near_a_pole"]++
						continue
					}
					tol := c17Tol / math.Sqrt(exact.HPFloat64(minCos2))
					QV := exact.FromVector(Q.Vector)
					if next == n {
						if Q != rev[n-1] {
							c.Violate(sub, "wrong-answer", "Project on the reversed polyline returns index len with a point that is not the last vertex", cas, d(nil))
							continue
						}
					} else if on, _ := exact.HPEdgeMinChord2(QV, V[next-1], V[next]); on != nil && !c17HPle(on, c17Chord2Tol(tol)) {
						c.Violate(sub, "bound-exceeded", "Project on the reversed polyline returns a point that is not on the edge ending at the returned next vertex", cas, d(map[string]any{"distance_from_that_edge": math.Sqrt(exact.HPFloat64(on))}))
						continue
					}
					chord := exact.HPSqrt(exact.HPChord2(X, QV))
					l.ratio("max_error_over_tolerance/Project of the reversed polyline, excess distance", (exact.HPFloat64(chord)-math.Sqrt(exact.HPFloat64(best)))/tol)
					if !c17HPle(chord, exact.HPAdd(exact.HPAdd(exact.HPSqrt(best), exact.HP(tol)), refErr)) {
						c.Violate(sub, "bound-exceeded", "Project on the reversed polyline does not realise the minimum distance (which does not depend on the direction)", cas,
							d(map[string]any{"distance_chord": exact.HPFloat64(chord), "exact_min_chord": math.Sqrt(exact.HPFloat64(best))}))
					}
				}
				if n == 3 && code%31 == 5 {
					c.Sample(map[string]any{"sub": sub, "alphabet_indices": idx, "reversed": c17CovPts(rev), "palindrome": palin})
				}
			})
		}
	})
}

// ---- Polyline.Intersects ----------------------------------------------------------------------------

// c17CovIntersectsAlphabet: four exactly collinear points on the equator (3-4-5
// triples: exactly representable directions), two exactly mirror-symmetric pairs
// whose edges cross the equator between them, the pole, and two far points on
// either side of the antimeridian.
func c17CovIntersectsAlphabet() []s2.Point {
	mirror := func(p s2.Point) s2.Point { return s2.Point{Vector: r3.Vector{X: p.X, Y: p.Y, Z: -p.Z}} }
	n1 := c17N(r3.Vector{X: 0.9, Y: 0.3, Z: 0.2})
	n2 := c17N(r3.Vector{X: 0.7, Y: 0.7, Z: 0.1})
	return []s2.Point{
		{Vector: r3.Vector{X: 1, Y: 0, Z: 0}},
		{Vector: r3.Vector{X: 0.8, Y: 0.6, Z: 0}},
		{Vector: r3.Vector{X: 0.6, Y: 0.8, Z: 0}},
		{Vector: r3.Vector{X: 0, Y: 1, Z: 0}},
		n1, mirror(n1), n2, mirror(n2),
		{Vector: r3.Vector{X: 0, Y: 0, Z: 1}},
		lattice.LL(-40, 170), lattice.LL(-50, -170),
	}
}

// c17CovProperCross: the documented four-orientation criterion with exact,
// strictly non-zero determinant signs (a crossing interior to both edges).
func c17CovProperCross(a, b, c, d s2.Point) bool {
	acb := exact.DetSign(a.Vector, c.Vector, b.Vector)
	if acb == 0 {
		return false
	}
	return exact.DetSign(c.Vector, b.Vector, d.Vector) == acb && exact.DetSign(b.Vector, d.Vector, a.Vector) == acb && exact.DetSign(d.Vector, a.Vector, c.Vector) == acb
}

// c17CovOnEdge: v (distinct from c and d) lies exactly on the closed edge cd.
func c17CovOnEdge(v, c, d s2.Point) bool {
	if v == c || v == d {
		return false
	}
	V, C, D := exact.FromVector(v.Vector), exact.FromVector(c.Vector), exact.FromVector(d.Vector)
	N := C.Cross(D)
	if N.IsZero() || N.Dot(V).Sign() != 0 {
		return false
	}
	return N.Cross(C).Dot(V).Sign() >= 0 && D.Cross(N).Dot(V).Sign() >= 0
}

func c17CovIntersects(c *core.Ctx, st *c17State) {
	const sub = "cov-polyline-intersects"
	alpha := c17CovIntersectsAlphabet()
	nA := len(alpha)
	for i, p := range alpha {
		if !c17NormOK(p) {
			panic(core.HarnessError("C17: Intersects alphabet point is not normalized"))
		}
		for j := range alpha {
			if i != j && (alpha[i] == alpha[j] || antipodal(alpha[i], alpha[j])) {
				panic(core.HarnessError("C17: Intersects alphabet has identical or antipodal points"))
			}
		}
	}
	// exact relations between all ordered letter pairs (edges) and letters (vertices)
	nE := nA * nA
	cross := make([]bool, nE*nE)
	onEdge := make([]bool, nA*nE)
	for e1 := 0; e1 < nE; e1++ {
		a, b := e1/nA, e1%nA
		if a == b {
			continue
		}
		for e2 := 0; e2 < nE; e2++ {
			p, q := e2/nA, e2%nA
			if p == q || a == p || a == q || b == p || b == q {
				continue
			}
			cross[e1*nE+e2] = c17CovProperCross(alpha[a], alpha[b], alpha[p], alpha[q])
		}
		for v := 0; v < nA; v++ {
			onEdge[v*nE+e1] = c17CovOnEdge(alpha[v], alpha[a], alpha[b])
		}
	}
	type poly struct {
		idx []int
		pl  s2.Polyline
	}
	build := func(maxLen int) []poly {
		var out []poly
		var rec func(idx []int)
		rec = func(idx []int) {
			if len(idx) >= 2 {
				p := poly{idx: append([]int(nil), idx...)}
				for _, k := range idx {
					p.pl = append(p.pl, alpha[k])
				}
				out = append(out, p)
			}
			if len(idx) == maxLen {
				return
			}
			for k := 0; k < nA; k++ {
				if len(idx) > 0 && idx[len(idx)-1] == k {
					continue
				}
				rec(append(idx, k))
			}
		}
		rec(nil)
		return out
	}
	first := build(core.Pick(c, 3, 4))
	second := build(3)
	c.Note(sub+"/lattice", map[string]int{"alphabet": nA, "first_polylines": len(first), "second_polylines": len(second)})
	cut := false
	c.ParallelFor(len(first), func(i int) {
		l := newC17Local()
		defer st.merge(l)
		p := first[i]
		for j, o := range second {
			if c.Skip(sub, i, j) {
				continue
			}
			if j%256 == 0 && c.Expired() {
				cut = true
				return
			}
			shared, crossing, touch := false, false, false
			for _, x := range p.idx {
				for _, y := range o.idx {
					if x == y {
						shared = true
					}
				}
			}
			for k := 1; k < len(p.idx); k++ {
				e1 := p.idx[k-1]*nA + p.idx[k]
				for m := 1; m < len(o.idx); m++ {
					e2 := o.idx[m-1]*nA + o.idx[m]
					if cross[e1*nE+e2] {
						crossing = true
					}
				}
				for _, y := range o.idx {
					if onEdge[y*nE+e1] {
						touch = true
					}
				}
			}
			for m := 1; m < len(o.idx); m++ {
				e2 := o.idx[m-1]*nA + o.idx[m]
				for _, x := range p.idx {
					if onEdge[x*nE+e2] {
						touch = true
					}
				}
			}
			c.Eval(1)
			l.cnt[sub+"/pairs"]++
			var got bool
			okc := false
			cas := []int{i, j}
			det := func() any {
				return map[string]any{"tier": c.Tier, "p": c17CovPts(p.pl), "o": c17CovPts(o.pl), "p_alphabet_indices": p.idx, "o_alphabet_indices": o.idx,
					"shared_vertex": shared, "proper_crossing": crossing, "vertex_exactly_on_an_edge": touch, "Intersects": got}
			}
			c.Guard(sub, cas, det, func() { got = p.pl.Intersects(&o.pl); okc = true })
			if !okc {
				continue
			}
			switch {
			case shared:
				l.cnt[sub+"/shared_vertex"]++
				if !got {
					c.Violate(sub, "wrong-answer", "Polyline.Intersects is false for polylines that share a vertex", cas, det())
				}
			case crossing:
				c.Nontrivial(1)
				l.cnt[sub+"/proper_crossing_without_shared_vertex"]++
				if !got {
					c.Violate(sub, "wrong-answer", "Polyline.Intersects is false for polylines with two properly crossing edges", cas, det())
				}
			case touch:
				l.cnt[sub+"/not_judged_a_vertex_lies_exactly_on_an_edge_of_the_other"]++
			default:
				c.Nontrivial(1)
				l.cnt[sub+"/disjoint"]++
				if !p.pl.RectBound().Intersects(o.pl.RectBound()) {
					l.cnt[sub+"/disjoint_with_disjoint_bounding_rectangles"]++
				}
				if got {
					c.Violate(sub, "wrong-answer", "Polyline.Intersects is true for polylines without a shared vertex, a crossing or a touching point", cas, det())
				}
			}
			if (i*977+j)%200003 == 1 {
				c.Sample(map[string]any{"sub": sub, "p_alphabet_indices": p.idx, "o_alphabet_indices": o.idx, "Intersects": got, "shared_vertex": shared, "proper_crossing": crossing})
			}
		}
	})
	if cut {
		c.CapHit(sub + ": wall budget reached")
	}
	// the empty polyline intersects nothing
	if c17CovLive(c) {
		empty := s2.Polyline{}
		for _, p := range second[:core.Pick(c, 50, len(second))] {
			c.Eval(1)
			if empty.Intersects(&p.pl) || p.pl.Intersects(&empty) || empty.Intersects(&empty) {
				c.Violate(sub, "wrong-answer", "Polyline.Intersects is true with an empty polyline", []int{-1, 0}, map[string]any{"p": c17CovPts(p.pl)})
			}
			c.Count(sub+"/empty_polyline_cases", 1)
		}
	}
}
