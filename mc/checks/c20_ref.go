package checks

import (
	"math"
	"math/big"

	"github.com/golang/geo/r2"
	"github.com/golang/geo/r3"
	"github.com/golang/geo/s2"
)

// Reference arithmetic for C20.  Nothing here calls the operators under test
// (EdgeTessellator, Projection, SubsampleVertices, Snapper); only r3 vector
// arithmetic (Add/Sub/Cross/Dot/Norm: plain float64 formulas) is shared.
//
// Two layers:
//   - float64 formulas chosen for conditioning (no asin/acos near their
//     singularities, cross products from (a-b)x(a+b)); stated error of a distance:
//     c20RefErr radians absolute.  Used on every case.
//   - big.Float at 256 bits (own sin/cos/exp series), used to confirm every case
//     the float64 layer wants to report, so that a reported excess is never the
//     float64 layer's rounding.
//
// What remains after the big.Float layer is the question which real-valued map
// the projection's float64 constants denote (pi/scale vs its float64 rounding):
// at most 2^-52 relative on angles <= 2*pi, i.e. < 1.4e-15 rad.  c20RefErr covers it.

const c20RefErr = 2e-15

// c20Proj identifies a projection independently of golang/geo's types.
type c20Proj struct {
	mercator bool
	scale    float64 // x spans [-scale, scale]
}

func (p c20Proj) name() string {
	if p.mercator {
		return "Mercator"
	}
	return "PlateCarree"
}

func (p c20Proj) impl() s2.Projection {
	if p.mercator {
		return s2.NewMercatorProjection(p.scale)
	}
	return s2.NewPlateCarreeProjection(p.scale)
}

// c20SinCosPi returns sin(pi*r), cos(pi*r) with pi taken as hi+lo (the product is
// carried in double-double so that only r's own rounding matters).
func c20SinCosPi(r float64) (float64, float64) {
	const piLo = 1.2246467991473532e-16
	hi := r * math.Pi
	lo := math.FMA(r, math.Pi, -hi) + r*piLo
	s, c := math.Sincos(hi)
	return s + lo*c, c - lo*s
}

// unproject is the mathematical inverse projection of a planar point (any real x).
func (p c20Proj) unproject(q r2.Point) s2.Point {
	xr := math.Remainder(q.X, 2*p.scale) // exact
	sl, cl := c20SinCosPi(xr / p.scale)
	if p.mercator {
		y := q.Y / p.scale * math.Pi
		// z = tanh(y), r = sech(y): well conditioned everywhere (no asin near 1)
		var z, r float64
		if math.Abs(y) > 350 {
			z, r = math.Copysign(1, y), 0
		} else {
			e := math.Exp(-math.Abs(y))
			e2 := e * e
			z = math.Copysign((1-e2)/(1+e2), y)
			r = 2 * e / (1 + e2)
		}
		return s2.Point{Vector: r3.Vector{X: r * cl, Y: r * sl, Z: z}}
	}
	sp, cp := c20SinCosPi(q.Y / p.scale)
	return s2.Point{Vector: r3.Vector{X: cp * cl, Y: cp * sl, Z: sp}}
}

// project is the mathematical projection (x in [-scale, scale]).
func (p c20Proj) project(a s2.Point) r2.Point {
	h := math.Hypot(a.X, a.Y)
	lng := math.Atan2(a.Y, a.X)
	if p.mercator {
		// y = atanh(z/|a|) = asinh(z/h)
		return r2.Point{X: lng / math.Pi * p.scale, Y: math.Asinh(a.Z/h) / math.Pi * p.scale}
	}
	return r2.Point{X: lng / math.Pi * p.scale, Y: math.Atan2(a.Z, h) / math.Pi * p.scale}
}

// fromDeg is the planar point of a latitude/longitude given in degrees.
func (p c20Proj) fromDeg(lat, lng float64) r2.Point {
	x := lng / 180 * p.scale
	if p.mercator {
		s := math.Sin(lat / 180 * math.Pi)
		return r2.Point{X: x, Y: math.Atanh(s) / math.Pi * p.scale}
	}
	return r2.Point{X: x, Y: lat / 180 * p.scale}
}

// wrap returns b moved by a whole number of periods so that |b.X-a.X| <= scale.
func (p c20Proj) wrap(a, b r2.Point) r2.Point {
	w := 2 * p.scale
	k := math.Round((b.X - a.X) / w)
	return r2.Point{X: b.X - k*w, Y: b.Y}
}

func c20Lerp(a, b r2.Point, t float64) r2.Point {
	return r2.Point{X: a.X + (b.X-a.X)*t, Y: a.Y + (b.Y-a.Y)*t}
}

// c20Angle is the angle between two vectors (atan2 form: accurate at 0 and pi).
func c20Angle(a, b r3.Vector) float64 {
	return math.Atan2(a.Cross(b).Norm(), a.Dot(b))
}

// c20DistToArc is the distance from c to the minor great-circle arc AB.
func c20DistToArc(c, a, b r3.Vector) float64 {
	n := a.Sub(b).Cross(a.Add(b)) // 2 (a x b), computed without cancellation for nearby a, b
	nn := n.Norm()
	if nn == 0 {
		return c20Angle(c, a)
	}
	// c projects inside the arc iff it is on the inner side of both end planes
	if a.Cross(c).Dot(n) >= 0 && c.Cross(b).Dot(n) >= 0 {
		s := math.Abs(c.Dot(n)) / (nn * c.Norm())
		if s > 0.7 { // far from the great circle: use the angle to the pole instead
			return math.Abs(math.Pi/2 - c20Angle(c, n))
		}
		return math.Asin(s)
	}
	return math.Min(c20Angle(c, a), c20Angle(c, b))
}

// c20Slerp is the point at fraction t of the geodesic from a to b (unit inputs).
func c20Slerp(a, b r3.Vector, t float64) r3.Vector {
	th := c20Angle(a, b)
	if th == 0 {
		return a
	}
	// tangent at a towards b
	d := b.Sub(a.Mul(a.Dot(b) / a.Norm2()))
	d = d.Mul(a.Norm() / d.Norm())
	s, co := math.Sincos(t * th)
	return a.Mul(co).Add(d.Mul(s))
}

// ---------------------------------------------------------------------------
// big.Float layer

const c20Prec = 256

var c20Pi = func() *big.Float {
	f, _, _ := big.ParseFloat("3.14159265358979323846264338327950288419716939937510582097494459230781640628620899862803482534211706798214808651", 10, c20Prec, big.ToNearestEven)
	return f
}()

func c20B(x float64) *big.Float { return new(big.Float).SetPrec(c20Prec).SetFloat64(x) }
func c20New() *big.Float        { return new(big.Float).SetPrec(c20Prec) }

// c20SinCos returns sin x and cos x for |x| < 2^20.
func c20SinCos(x *big.Float) (*big.Float, *big.Float) {
	const k = 16
	y := c20New().Set(x)
	y.SetMantExp(y, -k) // y = x / 2^k
	y2 := c20New().Mul(y, y)
	// Taylor series for sin y and cos y
	s, co := c20New().Set(y), c20B(1)
	ts, tc := c20New().Set(y), c20B(1)
	for n := 1; n < 40; n++ {
		tc.Mul(tc, y2)
		tc.Quo(tc, c20B(float64((2*n-1)*(2*n))))
		ts.Mul(ts, y2)
		ts.Quo(ts, c20B(float64((2*n)*(2*n+1))))
		if n%2 == 1 {
			co.Sub(co, tc)
			s.Sub(s, ts)
		} else {
			co.Add(co, tc)
			s.Add(s, ts)
		}
	}
	for i := 0; i < k; i++ { // double the angle
		s2 := c20New().Mul(s, co)
		s2.Add(s2, s2)
		c2 := c20New().Mul(co, co)
		t := c20New().Mul(s, s)
		c2.Sub(c2, t)
		s, co = s2, c2
	}
	return s, co
}

// c20Exp returns e^x for |x| < 2^10.
func c20Exp(x *big.Float) *big.Float {
	const k = 16
	y := c20New().Set(x)
	y.SetMantExp(y, -k)
	r, t := c20B(1), c20B(1)
	for n := 1; n < 40; n++ {
		t.Mul(t, y)
		t.Quo(t, c20B(float64(n)))
		r.Add(r, t)
	}
	for i := 0; i < k; i++ {
		r.Mul(r, r)
	}
	return r
}

type c20BV [3]*big.Float

func c20BVec(v r3.Vector) c20BV { return c20BV{c20B(v.X), c20B(v.Y), c20B(v.Z)} }

func (a c20BV) dot(b c20BV) *big.Float {
	r := c20New().Mul(a[0], b[0])
	r.Add(r, c20New().Mul(a[1], b[1]))
	return r.Add(r, c20New().Mul(a[2], b[2]))
}

func (a c20BV) cross(b c20BV) c20BV {
	f := func(p, q, r, s *big.Float) *big.Float {
		return c20New().Sub(c20New().Mul(p, q), c20New().Mul(r, s))
	}
	return c20BV{f(a[1], b[2], a[2], b[1]), f(a[2], b[0], a[0], b[2]), f(a[0], b[1], a[1], b[0])}
}

func (a c20BV) norm() *big.Float { return c20New().Sqrt(a.dot(a)) }

// c20BigUnproject is unproject at 256 bits (exact pi/scale).
func (p c20Proj) bigUnproject(q r2.Point) c20BV {
	sc := c20B(p.scale)
	lng := c20New().Mul(c20New().Quo(c20B(q.X), sc), c20Pi)
	// reduce the longitude to one period (any real x is allowed)
	two := c20New().Mul(c20Pi, c20B(2))
	kf, _ := c20New().Quo(lng, two).Float64()
	lng.Sub(lng, c20New().Mul(two, c20B(math.Round(kf))))
	sl, cl := c20SinCos(lng)
	y := c20New().Mul(c20New().Quo(c20B(q.Y), sc), c20Pi)
	if p.mercator {
		e := c20Exp(c20New().Neg(c20New().Abs(y)))
		e2 := c20New().Mul(e, e)
		den := c20New().Add(c20B(1), e2)
		z := c20New().Quo(c20New().Sub(c20B(1), e2), den)
		if y.Sign() < 0 {
			z.Neg(z)
		}
		r := c20New().Quo(c20New().Add(e, e), den)
		return c20BV{c20New().Mul(r, cl), c20New().Mul(r, sl), z}
	}
	sp, cp := c20SinCos(y)
	return c20BV{c20New().Mul(cp, cl), c20New().Mul(cp, sl), sp}
}

// c20BigDistToArc is the distance from c to the arc AB, evaluated at 256 bits and
// returned as a float64 (relative error of the result < 1e-15).
func c20BigDistToArc(c c20BV, a, b r3.Vector) float64 {
	A, B := c20BVec(a), c20BVec(b)
	n := A.cross(B)
	angle := func(u, v c20BV) float64 { // atan2(|u x v|, u.v)
		cr, _ := c20New().Quo(u.cross(v).norm(), c20New().Mul(u.norm(), v.norm())).Float64()
		dt, _ := c20New().Quo(u.dot(v), c20New().Mul(u.norm(), v.norm())).Float64()
		return math.Atan2(cr, dt)
	}
	nn := n.norm()
	if nn.Sign() == 0 {
		return angle(c, A)
	}
	if A.cross(c).dot(n).Sign() >= 0 && c.cross(B).dot(n).Sign() >= 0 {
		s, _ := c20New().Quo(c20New().Abs(c.dot(n)), c20New().Mul(nn, c.norm())).Float64()
		if s > 0.7 {
			return math.Abs(math.Pi/2 - angle(c, n))
		}
		return math.Asin(s)
	}
	return math.Min(angle(c, A), angle(c, B))
}

// c20SelfTest checks the big.Float layer against identities and the float64 layer
// against the big.Float layer; a failure is a harness error.
func c20SelfTest() string {
	for _, x := range []float64{0, 1e-20, 0.5, 1, -2.5, 3.141592653589793, 6.5, -100.25} {
		s, c := c20SinCos(c20B(x))
		one := c20New().Add(c20New().Mul(s, s), c20New().Mul(c, c))
		if d, _ := one.Sub(one, c20B(1)).Float64(); math.Abs(d) > 1e-60 {
			return "sin^2+cos^2 != 1"
		}
		sf, _ := s.Float64()
		cf, _ := c.Float64()
		if math.Abs(sf-math.Sin(x)) > 4e-16 || math.Abs(cf-math.Cos(x)) > 4e-16 {
			return "big sin/cos disagree with math.Sin/Cos"
		}
	}
	if s, _ := c20SinCos(c20Pi); func() bool { f, _ := s.Float64(); return math.Abs(f) > 1e-60 }() {
		return "sin(pi) != 0"
	}
	for _, x := range []float64{0, 1e-10, 1, -3.5, 20} {
		e := c20Exp(c20B(x))
		p := c20New().Mul(e, c20Exp(c20B(-x)))
		if d, _ := p.Sub(p, c20B(1)).Float64(); math.Abs(d) > 1e-55 {
			return "exp(x)exp(-x) != 1"
		}
		ef, _ := e.Float64()
		if math.Abs(ef-math.Exp(x)) > 4e-16*math.Exp(x) {
			return "big exp disagrees with math.Exp"
		}
	}
	// float64 unprojection and distance against the big layer on a grid
	for _, pr := range []c20Proj{{false, 180}, {true, 180}, {false, 1}, {true, 1 << 30}} {
		for _, lat := range []float64{-89.9, -45, -1e-7, 0, 30, 60, 85, 89.99} {
			for _, lng := range []float64{-539.5, -180, -22.5, 0, 1e-9, 90, 179.999, 200} {
				q := pr.fromDeg(lat, lng)
				f := pr.unproject(q)
				bg := pr.bigUnproject(q)
				for i, v := range []float64{f.X, f.Y, f.Z} {
					bv, _ := bg[i].Float64()
					if math.Abs(v-bv) > 8e-16 {
						return "float64 unprojection differs from the 256-bit one by more than 8e-16"
					}
				}
				a := pr.unproject(pr.fromDeg(lat+0.3, lng-7))
				b := pr.unproject(pr.fromDeg(lat*0.5-0.1, lng+11))
				d1 := c20DistToArc(f.Vector, a.Vector, b.Vector)
				d2 := c20BigDistToArc(bg, a.Vector, b.Vector)
				if math.Abs(d1-d2) > c20RefErr {
					return "float64 distance-to-arc differs from the 256-bit one by more than the stated reference error"
				}
			}
		}
	}
	return ""
}
