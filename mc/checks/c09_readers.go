package checks

import (
	"bytes"
	"fmt"
	"io"
	"testing/iotest"

	"github.com/golang/geo/s1"
	"github.com/golang/geo/s2"

	"verif/mc/core"
)

// Sub-check "reader-kinds": the environment answer of a decoder is how many bytes each Read returns.
// Every other C09 evaluation decodes from a *bytes.Reader, which always returns everything asked for
// and is a ByteReader (the decoder uses it directly); a file, a network connection or a decompressor
// is neither.  Here every value of a catalogue (all encodable types, encodings shorter and longer than
// bufio's 4096-byte buffer) is decoded through every reader kind of a small alphabet — all bytes at
// once, one byte per Read, half of the request per Read, a plain io.Reader without ReadByte, data
// delivered together with io.EOF, fixed chunk sizes 1..9 and 4095/4096/4097 — and must come back
// bit-identical to the value decoded from a *bytes.Reader, with the same error-ness.
func init() {
	ck := Registry["C09"]
	run := ck.Run
	ck.Run = func(c *core.Ctx) {
		run(c)
		c09ReaderKinds(c)
	}
}

type c09PlainReader struct{ r io.Reader }

func (p c09PlainReader) Read(b []byte) (int, error) { return p.r.Read(b) }

type c09ChunkReader struct {
	data []byte
	n    int
}

func (p *c09ChunkReader) Read(b []byte) (int, error) {
	if len(p.data) == 0 {
		return 0, io.EOF
	}
	k := p.n
	if k > len(b) {
		k = len(b)
	}
	if k > len(p.data) {
		k = len(p.data)
	}
	copy(b, p.data[:k])
	p.data = p.data[k:]
	return k, nil
}

func c09ReaderKinds(c *core.Ctx) {
	sub := "reader-kinds"
	ll := func(lat, lng float64) s2.Point { return s2.PointFromLatLng(s2.LatLngFromDegrees(lat, lng)) }
	type entry struct {
		name string
		enc  func(w io.Writer) error
		dec  func(r io.Reader) (any, error)
	}
	var entries []entry
	addPolygon := func(name string, mk func() *s2.Polygon) {
		entries = append(entries, entry{name, func(w io.Writer) error { return mk().Encode(w) }, func(r io.Reader) (any, error) {
			p := new(s2.Polygon)
			err := p.Decode(r)
			return p, err
		}})
	}
	for _, n := range core.Pick(c, []int{5, 300}, []int{3, 5, 63, 64, 170, 171, 300, 700}) {
		n := n
		addPolygon(fmt.Sprintf("lossless polygon, %d vertices", n), func() *s2.Polygon {
			return s2.PolygonFromLoops([]*s2.Loop{s2.RegularLoop(ll(10, 20), 5*s1.Degree, n)})
		})
		addPolygon(fmt.Sprintf("compressed polygon, %d snapped vertices + 2 off-centre", n), func() *s2.Polygon {
			var pts []s2.Point
			ring := s2.RegularLoop(ll(-30, 60), 20*s1.Degree, n)
			for i := 0; i < n; i++ {
				pts = append(pts, s2.CellFromPoint(ring.Vertex(i)).ID().Parent(20).Point())
			}
			pts[0], pts[n/2] = ring.Vertex(0), ring.Vertex(n/2)
			l := s2.LoopFromPoints(pts)
			l.Normalize()
			return s2.PolygonFromLoops([]*s2.Loop{l})
		})
		entries = append(entries, entry{fmt.Sprintf("loop, %d vertices", n), func(w io.Writer) error { return s2.RegularLoop(ll(40, -70), 3*s1.Degree, n).Encode(w) }, func(r io.Reader) (any, error) {
			l := new(s2.Loop)
			err := l.Decode(r)
			return l, err
		}})
		entries = append(entries, entry{fmt.Sprintf("polyline, %d vertices", n), func(w io.Writer) error {
			pl := s2.Polyline(s2.RegularLoop(ll(0, 0), 9*s1.Degree, n).Vertices())
			return pl.Encode(w)
		}, func(r io.Reader) (any, error) {
			pl := new(s2.Polyline)
			err := pl.Decode(r)
			return pl, err
		}})
	}
	entries = append(entries,
		entry{"cap", func(w io.Writer) error { return s2.CapFromCenterAngle(ll(1, 2), 0.3).Encode(w) }, func(r io.Reader) (any, error) {
			v := new(s2.Cap)
			err := v.Decode(r)
			return v, err
		}},
		entry{"rect", func(w io.Writer) error {
			return s2.RectFromLatLng(s2.LatLngFromDegrees(1, 2)).AddPoint(s2.LatLngFromDegrees(30, -170)).Encode(w)
		}, func(r io.Reader) (any, error) {
			v := new(s2.Rect)
			err := v.Decode(r)
			return v, err
		}},
		entry{"point", func(w io.Writer) error { return ll(12, 34).Encode(w) }, func(r io.Reader) (any, error) {
			v := new(s2.Point)
			err := v.Decode(r)
			return v, err
		}},
		entry{"cell union", func(w io.Writer) error {
			cu := s2.CellUnion{s2.CellFromPoint(ll(1, 2)).ID().Parent(5), s2.CellFromPoint(ll(50, 60)).ID().Parent(12), s2.CellFromPoint(ll(-50, 60)).ID()}
			return cu.Encode(w)
		}, func(r io.Reader) (any, error) {
			v := new(s2.CellUnion)
			err := v.Decode(r)
			return v, err
		}},
	)
	type kind struct {
		name string
		mk   func(b []byte) io.Reader
	}
	kinds := []kind{
		{"one byte per Read", func(b []byte) io.Reader { return iotest.OneByteReader(bytes.NewReader(b)) }},
		{"half of the request per Read", func(b []byte) io.Reader { return iotest.HalfReader(bytes.NewReader(b)) }},
		{"plain io.Reader (no ReadByte)", func(b []byte) io.Reader { return c09PlainReader{bytes.NewReader(b)} }},
		{"last data together with io.EOF", func(b []byte) io.Reader { return iotest.DataErrReader(c09PlainReader{bytes.NewReader(b)}) }},
	}
	for _, n := range []int{1, 2, 3, 5, 7, 8, 9, 4095, 4096, 4097} {
		n := n
		kinds = append(kinds, kind{fmt.Sprintf("at most %d bytes per Read", n), func(b []byte) io.Reader { return &c09ChunkReader{append([]byte(nil), b...), n} }})
	}
	var evals, long int64
	for ei, en := range entries {
		var buf bytes.Buffer
		if err := en.enc(&buf); err != nil {
			continue
		}
		data := buf.Bytes()
		if len(data) > 4096 {
			long++
		}
		ref, refErr := en.dec(bytes.NewReader(data))
		for ki, kd := range kinds {
			// also on every truncation class: full data, and data cut in the middle (error-ness must agree)
			for cut := 0; cut < 2; cut++ {
				cas := []int{ei, ki, cut}
				if c.Skip(sub, cas...) {
					continue
				}
				d := data
				if cut == 1 {
					d = data[:len(data)*2/3]
				}
				detail := func() any {
					return map[string]any{"value": en.name, "encoded_bytes": len(data), "reader": kd.name, "truncated_to": len(d)}
				}
				c.Guard(sub, cas, detail, func() {
					evals++
					want, wantErr := ref, refErr
					if cut == 1 {
						want, wantErr = en.dec(bytes.NewReader(d))
					}
					got, gotErr := en.dec(kd.mk(d))
					if (gotErr == nil) != (wantErr == nil) {
						c.Violate(sub, "wrong-answer", "Decode through a reader that returns short reads succeeds / fails differently from Decode of the same bytes from a *bytes.Reader", cas,
							map[string]any{"value": en.name, "reader": kd.name, "bytes": len(d), "err_short_reads": fmt.Sprint(gotErr), "err_bytes_reader": fmt.Sprint(wantErr)})
						return
					}
					if gotErr != nil {
						return
					}
					if df := c09Diff(want, got); df != "" {
						c.Violate(sub, "wrong-answer", "Decode through a reader that returns short reads yields a different value than Decode of the same bytes from a *bytes.Reader", cas,
							map[string]any{"value": en.name, "reader": kd.name, "bytes": len(d), "first_difference": df})
					}
				})
			}
		}
	}
	c.Eval(int(evals))
	c.Count(sub+"/decodes", evals)
	c.Count(sub+"/values_with_encodings_longer_than_4096_bytes", long)
}
