package checks

// C10 — bounds are conservative: nothing contained lies outside its bound.
//
// Engine E3.  Sub-spaces:
//
//   region-bounds     catalogue of loops (also pole-enclosing, inverted, edges nm from a
//                     pole, nearly 180 degrees of longitude), polygons with holes, polylines,
//                     caps, lat-lng rectangles, cells, cell unions x probes (vertices and
//                     their 27 ulp-neighbours, dense points along edges, the latitude
//                     extremum of every edge in 300-bit arithmetic rounded to float64 with
//                     its 27 ulp-neighbours, structural points): every probe the region
//                     contains (exact reference containment) must be in RectBound (as the
//                     computed LatLngFromPoint), CapBound and some CellUnionBound cell
//   cell-bounds       the same three bounds for every cell of the top levels and for chains of
//                     deep cells (levels up to 30) at cube corners, face edges, poles
//   rectbounder-pairs all ordered vertex pairs of an adversarial alphabet (poles, points
//                     nm and 1e-15 from them, exactly / nearly antipodal points, 180-degree
//                     longitude pairs, +-pi longitudes) x third vertices: the documented
//                     RectBounder guarantee on the closed chain, and the Loop bounds
//   rectbounder-apex  a lattice of edges that contain their latitude extremum (symmetric about
//                     a meridian), half-widths 1e-14 .. 1.2 rad, latitudes up to 89.99 degrees,
//                     closed to a triangle towards the equator; probes: the 300-bit extremum
//                     with its 125 two-ulp neighbours, ulp-neighbours of edge points
//   subregions        ExpandForSubregions(A.RectBound()).Contains(B.RectBound()) for all
//                     pairs where B is contained in A by construction (A convex, B spans a
//                     subset of A's vertices / a shrunk copy / a descendant cell) and A
//                     encloses no pole
//   convex-hull       ConvexHullQuery on every subset of size <= 5 of a point alphabet with
//                     exactly collinear, nearly coincident and interior points: exact turn
//                     signs >= 0, every input point a hull vertex or contained
//   index-region      ShapeIndexRegion bounds over indexes on 1, 2, 3 and 6 faces
//
// C10 is strict (no slack): the property speaks about points on or within one ulp of the
// boundary.  Membership is exact (crossing parity on exact orientation signs).

import (
	"fmt"
	"math"
	"math/big"
	"sync/atomic"
	"time"

	"github.com/golang/geo/r1"
	"github.com/golang/geo/r3"
	"github.com/golang/geo/s1"
	"github.com/golang/geo/s2"

	"verif/mc/core"
	"verif/mc/exact"
	"verif/mc/lattice"
	"verif/mc/refmodel"
)

func init() {
	Registry["C10"] = &Check{Level: "exploration", QuickBudget: 150, ThoroughBudget: 1200, Run: runC10}
}

type c10Stats struct {
	regions, probes, contained, apexes, ulpProbes        atomic.Int64
	pairs, triangles, polarTriangles, pairProbes, pairIn atomic.Int64
	fullBounds, degenerateSkipped, chainVertexChecks     atomic.Int64
	subPairs, subAsserted, subPolar, subLibDisagrees     atomic.Int64
	subNotContained, subFull                             atomic.Int64
	hulls, hullFull, hullVertices, hullInputs, hullSmall atomic.Int64
	idxRegions, idxProbes, capFloatOnly                  atomic.Int64
	apexEdges, apexProbes, apexIn, apexPolar, apexNone   atomic.Int64
}

// c10Apexes returns the points where the great circle through a and b attains its
// maximum and minimum latitude, if they lie on the edge ab, computed from the exact
// normal N = a x b:  x = z (N.N) - N (N.z) = (-NxNz, -NyNz, Nx^2+Ny^2), normalised in
// 300-bit arithmetic and rounded to float64.
func c10Apexes(a, b s2.Point) []s2.Point {
	ea, eb := exact.FromVector(a.Vector), exact.FromVector(b.Vector)
	n := ea.Cross(eb)
	if n.IsZero() {
		return nil
	}
	nx, ny, nz := n.Comp(0), n.Comp(1), n.Comp(2)
	x := nx.Mul(nz).Neg()
	y := ny.Mul(nz).Neg()
	z := nx.Mul(nx).Add(ny.Mul(ny))
	if z.Sign() == 0 {
		return nil // the edge lies on the equator: constant latitude
	}
	const prec = 300
	bx, by, bz := x.Big(prec), y.Big(prec), z.Big(prec)
	n2 := new(big.Float).SetPrec(prec).Mul(bx, bx)
	n2.Add(n2, new(big.Float).SetPrec(prec).Mul(by, by))
	n2.Add(n2, new(big.Float).SetPrec(prec).Mul(bz, bz))
	nn := new(big.Float).SetPrec(prec).Sqrt(n2)
	f := func(v *big.Float) float64 {
		q, _ := new(big.Float).SetPrec(prec).Quo(v, nn).Float64()
		return q
	}
	top := s2.Point{Vector: r3.Vector{X: f(bx), Y: f(by), Z: f(bz)}}
	var out []s2.Point
	for _, p := range []s2.Point{top, {Vector: top.Mul(-1)}} {
		// on the edge: between a and b on the side of the shorter arc (exact signs with the
		// rounded apex; the ulp-neighbours cover the rounding)
		ep := exact.FromVector(p.Vector)
		if ea.Cross(ep).Dot(n).Sign() >= 0 && ep.Cross(eb).Dot(n).Sign() >= 0 {
			out = append(out, p)
		}
	}
	return out
}

// Size classes of a miss.  A bound that loses a contained point by a few units in the
// last place (no rounding pad) keeps the plain descriptor; anything larger is a
// different defect and gets a descriptor starting with "bound too small".
const (
	c10RectUlpLevel = 4e-15 // radians (or chord length): about 16 ulps of a coordinate of magnitude 1
)

// c10RectExcess is the amount (radians) by which the latitude / longitude lies outside the rectangle.
func c10RectExcess(r s2.Rect, ll s2.LatLng) float64 {
	if r.IsEmpty() {
		return math.Inf(1)
	}
	la, ln := ll.Lat.Radians(), ll.Lng.Radians()
	ex := math.Max(0, math.Max(la-r.Lat.Hi, r.Lat.Lo-la))
	if !r.Lng.Contains(ln) {
		d := math.Min(math.Abs(math.Remainder(ln-r.Lng.Lo, 2*math.Pi)), math.Abs(math.Remainder(ln-r.Lng.Hi, 2*math.Pi)))
		ex = math.Max(ex, d)
	}
	return ex
}

func c10RectDesc(what string, r s2.Rect, ll s2.LatLng) string {
	if c10RectExcess(r, ll) <= c10RectUlpLevel {
		return what + " does not contain the computed latitude/longitude of a contained point"
	}
	return "bound too small by more than rounding (over 4e-15 rad): " + what + " misses the latitude/longitude of a contained point"
}

// c10CapGross reports whether p is outside the cap by more than 4e-15 in chord length
// (16 ulps of a unit-vector coordinate: the positions of the centre and of p are only
// known to 1e-16, which for a small cap is far more than an ulp of its squared radius).
func c10CapGross(cb s2.Cap, p s2.Point) bool {
	if cb.IsEmpty() {
		return true
	}
	r2 := 2 * cb.Height()
	d2 := float64(s2.ChordAngleBetweenPoints(cb.Center(), p))
	if d2 <= r2 {
		return false
	}
	return (d2-r2)/(math.Sqrt(d2)+math.Sqrt(r2)) > c10RectUlpLevel
}

func c10CapDesc(what string, cb s2.Cap, p s2.Point) string {
	if !c10CapGross(cb, p) {
		return what + " does not contain a contained point"
	}
	return "bound too small by more than rounding (over 4e-15 in chord length): " + what + " misses a contained point"
}

// c10CapContainsExact reports whether the cap, taken as the exact point set
// { q : min(4, |center-q|^2) <= stored squared chord radius }, contains p.  The checks
// judge a cap bound with the library's own Cap.ContainsPoint (the documented notion:
// Cap.AddPoint relies on "Contains() does exactly the same distance calculation");
// this exact evaluation is reported alongside so that a reader can tell a bound that
// is too small as a set from one that only loses the point to rounding.
func c10CapContainsExact(cb s2.Cap, p s2.Point) bool {
	if cb.IsEmpty() {
		return false
	}
	if cb.IsFull() {
		return true
	}
	d := exact.FromVector(cb.Center().Vector).Sub(exact.FromVector(p.Vector)).Norm2()
	r := exact.FromFloat(2 * cb.Height())
	if exact.FromFloat(4).Cmp(r) <= 0 {
		return true
	}
	return d.Cmp(r) <= 0
}

// c10Unit filters probe constructions that degenerated (interpolation between nearly
// antipodal points can underflow to the zero vector): only unit vectors are probes.
func c10Unit(ps []s2.Point) []s2.Point {
	out := ps[:0:0]
	for _, p := range ps {
		if n := p.Norm2(); n > 1-1e-14 && n < 1+1e-14 {
			out = append(out, p)
		}
	}
	return out
}

// c10Bounded is something with the three bounds and an exact membership test.
type c10Bounded struct {
	name, kind string
	sub        string // sub-check name (default region-bounds)
	rect       func() s2.Rect
	capb       func() s2.Cap
	cells      func() []s2.CellID
	in         func(p s2.Point) bool
	probes     []s2.Point
	desc       any
	apexes     int
}

func (b *c10Bounded) addChain(v []s2.Point, closed bool, perEdge, ulpVerts int) {
	n := len(v)
	last := n - 1
	if closed {
		last = n
	}
	for i, p := range v {
		b.probes = append(b.probes, p)
		if i < ulpVerts || i%(1+n/ulpVerts) == 0 {
			b.probes = append(b.probes, lattice.PUlp(p, 1)...)
		}
	}
	for i := 0; i < last; i++ {
		a, c := v[i], v[(i+1)%n]
		for k := 1; k <= perEdge; k++ {
			b.probes = append(b.probes, lattice.GeoSlerp(a, c, float64(k)/float64(perEdge+1)))
		}
		for _, ap := range c10Apexes(a, c) {
			b.apexes++
			b.probes = append(b.probes, lattice.PUlp(ap, 1)...)
		}
	}
}

func c10LoopEntry(name string, v []s2.Point, perEdge int, extra []s2.Point) *c10Bounded {
	l := s2.LoopFromPoints(append([]s2.Point(nil), v...))
	ref := refmodel.NewFastLoop(v)
	b := &c10Bounded{name: name, kind: "loop", rect: l.RectBound, capb: l.CapBound, cells: l.CellUnionBound, in: ref.Contains,
		desc: map[string]any{"vertices": lattice.GeoPts(v)}}
	if len(v) >= 3 {
		b.addChain(v, true, perEdge, 8)
	}
	b.probes = append(b.probes, extra...)
	return b
}

func c10PolygonEntry(name string, loops [][]s2.Point, perEdge int, extra []s2.Point) *c10Bounded {
	var ls []*s2.Loop
	var ref refmodel.FastPolygon
	var d [][][3]float64
	for _, v := range loops {
		ls = append(ls, s2.LoopFromPoints(append([]s2.Point(nil), v...)))
		ref = append(ref, refmodel.NewFastLoop(v))
		d = append(d, lattice.GeoPts(v))
	}
	pg := s2.PolygonFromLoops(ls)
	b := &c10Bounded{name: name, kind: "polygon", rect: pg.RectBound, capb: pg.CapBound, cells: pg.CellUnionBound, in: ref.Contains, desc: map[string]any{"loops": d}}
	for _, v := range loops {
		b.addChain(v, true, perEdge, 4)
	}
	b.probes = append(b.probes, extra...)
	return b
}

// c10OnChain reports whether p is a vertex of the chain or lies exactly on one of its edges.
func c10OnChain(v []s2.Point, p s2.Point) bool {
	for _, q := range v {
		if q == p {
			return true
		}
	}
	ep := exact.FromVector(p.Vector)
	for i := 0; i+1 < len(v); i++ {
		ea, eb := exact.FromVector(v[i].Vector), exact.FromVector(v[i+1].Vector)
		n := ea.Cross(eb)
		if n.IsZero() || n.Dot(ep).Sign() != 0 {
			continue
		}
		if ea.Cross(ep).Dot(n).Sign() >= 0 && ep.Cross(eb).Dot(n).Sign() >= 0 {
			return true
		}
	}
	return false
}

func c10PolylineEntry(name string, v []s2.Point, extra []s2.Point) *c10Bounded {
	pl := s2.Polyline(append([]s2.Point(nil), v...))
	b := &c10Bounded{name: name, kind: "polyline", rect: pl.RectBound, capb: pl.CapBound, cells: pl.CellUnionBound, desc: map[string]any{"vertices": lattice.GeoPts(v)}}
	b.in = func(p s2.Point) bool { return c10OnChain(v, p) }
	b.probes = append(b.probes, v...)
	b.probes = append(b.probes, extra...)
	for i := 0; i+1 < len(v); i++ {
		// exactly-on-edge candidates: sums of the endpoints scaled by powers of two stay in
		// the plane of the edge only by luck; the exact test above decides
		b.probes = append(b.probes, lattice.GeoSlerp(v[i], v[i+1], 0.5))
	}
	return b
}

func c10CapEntry(name string, ctr s2.Point, rad float64) *c10Bounded {
	cp := s2.CapFromCenterAngle(ctr, s1.Angle(rad))
	b := &c10Bounded{name: name, kind: "cap", rect: cp.RectBound, capb: cp.CapBound, cells: cp.CellUnionBound, in: cp.ContainsPoint,
		desc: map[string]any{"center": lattice.GeoPt(ctr), "radius": rad}}
	r2 := 2 * cp.Height()
	theta := 2 * math.Atan2(math.Sqrt(r2), math.Sqrt(4-r2))
	b.probes = append(b.probes, ctr)
	// boundary circle, densest around the four extremal directions (north, south, east, west)
	u, v := lattice.GeoFrame(ctr)
	north := r3.Vector{Z: 1}.Sub(ctr.Mul(ctr.Z))
	phiN := math.Atan2(north.Dot(v), north.Dot(u))
	for k := 0; k < 64; k++ {
		phi := 2 * math.Pi * float64(k) / 64
		p := lattice.GeoCirclePoint(ctr, theta, phi)
		b.probes = append(b.probes, p)
		if k%8 == 0 {
			b.probes = append(b.probes, lattice.PUlp(p, 1)...)
		}
	}
	if north.Norm() > 1e-12 {
		for q := 0; q < 4; q++ {
			for _, d := range []float64{0, 1e-9, -1e-9, 1e-5, -1e-5, 1e-3, -1e-3} {
				p := lattice.GeoCirclePoint(ctr, theta, phiN+float64(q)*math.Pi/2+d)
				b.probes = append(b.probes, lattice.PUlp(p, 1)...)
			}
		}
		// the tangent points of the meridians (extreme longitudes) are not at +-90 degrees from
		// north for large caps: sample a window densely as well
		for k := -40; k <= 40; k++ {
			for _, s := range []float64{math.Pi / 2, -math.Pi / 2} {
				b.probes = append(b.probes, lattice.GeoCirclePoint(ctr, theta, phiN+s+float64(k)*0.02))
			}
		}
	}
	return b
}

func c10RectEntry(name string, rc s2.Rect) *c10Bounded {
	b := &c10Bounded{name: name, kind: "rect", rect: rc.RectBound, capb: rc.CapBound, cells: rc.CellUnionBound, in: rc.ContainsPoint,
		desc: map[string]any{"lat": []float64{rc.Lat.Lo, rc.Lat.Hi}, "lng": []float64{rc.Lng.Lo, rc.Lng.Hi}}}
	if rc.IsEmpty() {
		return b
	}
	n := 8
	for i := 0; i <= n; i++ {
		la := rc.Lat.Lo + (rc.Lat.Hi-rc.Lat.Lo)*float64(i)/float64(n)
		for j := 0; j <= n; j++ {
			ln := math.Remainder(rc.Lng.Lo+rc.Lng.Length()*float64(j)/float64(n), 2*math.Pi)
			p := lattice.GeoPtLL(la, ln)
			if i == 0 || i == n || j == 0 || j == n {
				b.probes = append(b.probes, lattice.PUlp(p, 1)...)
			} else {
				b.probes = append(b.probes, p)
			}
		}
	}
	for i := 0; i < 4; i++ {
		b.probes = append(b.probes, s2.PointFromLatLng(rc.Vertex(i)))
	}
	return b
}

func c10CellsEntry(name, kind string, ids []s2.CellID, perEdge int, rect func() s2.Rect, capb func() s2.Cap, cub func() []s2.CellID) *c10Bounded {
	var refs []*refmodel.FastLoop
	var toks []string
	b := &c10Bounded{name: name, kind: kind, rect: rect, capb: capb, cells: cub}
	for _, id := range ids {
		v := lattice.GeoCellVerts(s2.CellFromCellID(id))
		refs = append(refs, refmodel.NewFastLoop(v))
		toks = append(toks, id.ToToken())
		b.addChain(v, true, perEdge, 4)
		b.probes = append(b.probes, lattice.GeoCellProbes(id, 2)...)
	}
	b.desc = map[string]any{"cells": toks}
	b.in = func(p s2.Point) bool {
		for _, r := range refs {
			if r.Contains(p) {
				return true
			}
		}
		return false
	}
	return b
}

func c10CellEntry(name string, id s2.CellID, perEdge int) *c10Bounded {
	c := s2.CellFromCellID(id)
	return c10CellsEntry(name, "cell", []s2.CellID{id}, perEdge, c.RectBound, c.CapBound, c.CellUnionBound)
}

func c10CellUnionEntry(name string, ids []s2.CellID, perEdge int) *c10Bounded {
	cu := s2.CellUnion(append([]s2.CellID(nil), ids...))
	cu.Normalize()
	cup := &cu
	return c10CellsEntry(name, "cellunion", cu, perEdge, cup.RectBound, cup.CapBound, cup.CellUnionBound)
}

func c10Tri(a, b, c s2.Point) []s2.Point {
	if refmodel.ExactDetSign(a, b, c) < 0 {
		return []s2.Point{b, a, c}
	}
	return []s2.Point{a, b, c}
}

func c10Catalogue(c *core.Ctx, structural []s2.Point) []*c10Bounded {
	big := !c.Quick()
	pe := core.Pick(c, 64, 256)
	ctr := map[string]s2.Point{
		"face": s2.PointFromCoords(1, 0, 0), "edge": s2.PointFromCoords(1, 1, 0), "corner": s2.PointFromCoords(1, 1, 1),
		"pole": s2.PointFromCoords(0, 0, 1), "southpole": s2.PointFromCoords(0, 0, -1), "antimer": lattice.LL(10, 180), "generic": lattice.LL(37.3, -122.1),
		"near-pole": lattice.GeoPtLL(math.Pi/2-1e-3, 0.7), "high": lattice.LL(75, -40),
	}
	poles := []s2.Point{ctr["pole"], ctr["southpole"]}
	var out []*c10Bounded
	add := func(b *c10Bounded) { out = append(out, b) }
	loop := func(cn string, rad float64, n int, phase float64, inverted bool) {
		v := lattice.GeoRegular(ctr[cn], rad, n, phase)
		name := fmt.Sprintf("loop(%s,r=%g,n=%d,phase=%g)", cn, rad, n, phase)
		if inverted {
			v = lattice.GeoReverse(v)
			name += "-inverted"
		}
		add(c10LoopEntry(name, v, pe, append(append([]s2.Point(nil), poles...), ctr[cn])))
	}
	// ordinary loops of all sizes and positions
	for _, cn := range core.Pick(c, []string{"edge", "corner", "antimer", "generic", "high"}, []string{"face", "edge", "corner", "antimer", "generic", "high"}) {
		for _, n := range core.Pick(c, []int{3, 4, 8, 40}, []int{3, 4, 5, 8, 33, 64, 100}) {
			for _, rad := range core.Pick(c, []float64{1e-7, 1e-3, 0.1, 1, 2}, []float64{1e-9, 1e-7, 1e-5, 1e-3, 0.1, 0.5, 1, math.Pi/2 - 1e-3, math.Pi / 2, 2, 3}) {
				loop(cn, rad, n, 0.1, false)
			}
		}
	}
	loop("generic", 0.3, 12, 0, true)
	loop("corner", 2, 33, 0.2, false)
	// around a pole, and with a vertex / an edge midpoint nm and 1e-15 from the pole
	for _, pn := range []string{"pole", "southpole"} {
		loop(pn, 0.2, 8, 0.3, false)
		loop(pn, 1e-9, 5, 0, false)
		if big {
			loop(pn, 1.2, 40, 0.3, false)
			loop(pn, 1e-3, 3, 0, true)
		}
	}
	np := ctr["near-pole"] // 1e-3 from the north pole
	for _, n := range core.Pick(c, []int{4, 7}, []int{3, 4, 7, 32}) {
		for _, gap := range []float64{1e-9, -1e-9, 1e-15, -1e-15, 0} {
			// phase chosen so that vertex 0 points at the pole: direction of the pole seen from np
			u, v := lattice.GeoFrame(np)
			dir := r3.Vector{Z: 1}.Sub(np.Mul(np.Z))
			phi := math.Atan2(dir.Dot(v), dir.Dot(u))
			vv := lattice.GeoRegular(np, 1e-3+gap, n, phi)
			add(c10LoopEntry(fmt.Sprintf("loop(vertex %g from the pole,n=%d)", gap, n), vv, pe, poles))
			rr := (1e-3 + gap) / math.Cos(math.Pi/float64(n))
			ve := lattice.GeoRegular(np, rr, n, phi+math.Pi/float64(n))
			add(c10LoopEntry(fmt.Sprintf("loop(edge %g from the pole,n=%d)", gap, n), ve, pe, poles))
		}
	}
	// edges spanning nearly 180 degrees of longitude
	for _, d := range []float64{1e-6, 1e-9, 1e-15} {
		add(c10LoopEntry(fmt.Sprintf("loop(lng span pi-%g, high)", d), c10Tri(lattice.GeoPtLL(1.0, 0), lattice.GeoPtLL(1.0, math.Pi-d), lattice.GeoPtLL(0.8, math.Pi/2)), pe, poles))
		add(c10LoopEntry(fmt.Sprintf("loop(lng span pi-%g, equatorial strip)", d), []s2.Point{lattice.GeoPtLL(-0.001, -math.Pi/2+d/2), lattice.GeoPtLL(-0.001, math.Pi/2-d/2), lattice.GeoPtLL(0.001, math.Pi/2-d/2), lattice.GeoPtLL(0.001, -math.Pi/2+d/2)}, pe, poles))
	}
	// cell loops and wedges
	for _, id := range []s2.CellID{s2.CellIDFromFace(0), s2.CellIDFromFace(2), lattice.GeoLeaf(ctr["corner"]).Parent(2), lattice.GeoLeaf(ctr["generic"]).Parent(9)} {
		add(c10LoopEntry("loop(cell "+id.ToToken()+")", lattice.GeoCellVerts(s2.CellFromCellID(id)), pe, poles))
	}
	add(c10LoopEntry("loop(wedge)", lattice.GeoWedge(0.3, 1.1, 20), pe/4+1, poles))
	add(c10LoopEntry("loop(wedge antimeridian)", lattice.GeoWedge(3.0, 3.3, 12), pe/4+1, poles))
	add(c10LoopEntry("loop(empty)", []s2.Point{s2.PointFromCoords(0, 0, 1)}, pe, structural[:40]))
	add(c10LoopEntry("loop(full)", []s2.Point{s2.PointFromCoords(0, 0, -1)}, pe, structural[:40]))

	// polygons
	cc := ctr["corner"]
	add(c10PolygonEntry("polygon(shell+hole)", [][]s2.Point{lattice.GeoRegular(cc, 0.2, 8, 0), lattice.GeoRegular(cc, 0.08, 8, 0.3)}, pe, []s2.Point{cc, lattice.GeoCirclePoint(cc, 0.14, 1)}))
	add(c10PolygonEntry("polygon(polar shell+hole)", [][]s2.Point{lattice.GeoRegular(ctr["pole"], 0.5, 36, 0), lattice.GeoRegular(ctr["pole"], 0.1, 5, 0.3)}, pe, poles))
	add(c10PolygonEntry("polygon(two islands across the antimeridian)", [][]s2.Point{lattice.GeoRegular(lattice.LL(10, 175), 0.05, 12, 0), lattice.GeoRegular(lattice.LL(-5, -175), 0.06, 5, 0)}, pe, nil))
	if big {
		add(c10PolygonEntry("polygon(nested depth 3)", [][]s2.Point{lattice.GeoRegular(ctr["high"], 0.25, 16, 0), lattice.GeoRegular(ctr["high"], 0.2, 16, 0.1), lattice.GeoRegular(ctr["high"], 0.1, 16, 0.2)}, pe, poles))
	}

	// polylines with exactly collinear probes (coordinate planes keep exact coplanarity)
	n1 := func(x, y, z float64) s2.Point {
		n := r3.Vector{X: x, Y: y, Z: z}.Norm()
		return s2.Point{Vector: r3.Vector{X: x / n, Y: y / n, Z: z / n}}
	}
	add(c10PolylineEntry("polyline(meridian plane y=0 through the pole)", []s2.Point{n1(1, 0, 2), n1(-1, 0, 3)}, []s2.Point{n1(0, 0, 1), n1(1, 0, 5), n1(-1, 0, 7), n1(1, 0, 1)}))
	add(c10PolylineEntry("polyline(equator z=0)", []s2.Point{n1(1, 1, 0), n1(-1, 2, 0), n1(-3, -1, 0)}, []s2.Point{n1(0, 1, 0), n1(-1, 0, 0), n1(-5, 1, 0), n1(1, 0, 0)}))
	add(c10PolylineEntry("polyline(plane x=y)", []s2.Point{n1(1, 1, -1), n1(1, 1, 3), n1(-1, -1, 8)}, []s2.Point{n1(1, 1, 0), n1(1, 1, 1), n1(0, 0, 1), n1(-1, -1, 20)}))
	var pv []s2.Point
	for i := 0; i < 14; i++ {
		pv = append(pv, lattice.LL(60+2.5*float64(i), -170+27*float64(i)))
	}
	add(c10PolylineEntry("polyline(spiral to the pole)", pv, nil))
	add(c10PolylineEntry("polyline(nearly antipodal edge)", []s2.Point{lattice.LL(30, 40), {Vector: lattice.LL(30, 40.0000001).Mul(-1)}}, nil))

	// caps
	for _, cn := range core.Pick(c, []string{"corner", "near-pole", "antimer"}, []string{"face", "edge", "corner", "near-pole", "antimer", "generic", "high", "pole"}) {
		for _, rad := range core.Pick(c, []float64{1e-7, 0.5, math.Pi - 1e-3}, []float64{0, 1e-7, 1e-3, 0.5, math.Pi / 2, 2, math.Pi - 1e-3}) {
			add(c10CapEntry(fmt.Sprintf("cap(%s,%g)", cn, rad), ctr[cn], rad))
		}
	}
	add(c10CapEntry("cap(touching the pole)", lattice.GeoPtLL(math.Pi/2-0.25, 1), 0.25))
	add(c10CapEntry("cap(just short of the pole)", lattice.GeoPtLL(math.Pi/2-0.25, 1), 0.25-1e-12))

	// rectangles (CapBound, CellUnionBound)
	deg := math.Pi / 180
	rect := func(la0, la1, ln0, ln1 float64) s2.Rect {
		return s2.Rect{Lat: r1.Interval{Lo: la0 * deg, Hi: la1 * deg}, Lng: s1.Interval{Lo: ln0 * deg, Hi: ln1 * deg}}
	}
	add(c10RectEntry("rect(normal)", rect(10, 30, 20, 50)))
	add(c10RectEntry("rect(antimeridian)", rect(-20, 10, 170, -170)))
	add(c10RectEntry("rect(wide 200 degrees)", rect(-5, 5, -100, 100)))
	add(c10RectEntry("rect(polar quadrant)", s2.Rect{Lat: r1.Interval{Lo: 70 * deg, Hi: math.Pi / 2}, Lng: s1.Interval{Lo: 0, Hi: math.Pi / 2}}))
	add(c10RectEntry("rect(tiny)", s2.Rect{Lat: r1.Interval{Lo: 0.5, Hi: 0.5 + 1e-7}, Lng: s1.Interval{Lo: -2, Hi: -2 + 1e-7}}))
	add(c10RectEntry("rect(180 degrees)", rect(20, 40, -90, 90)))
	add(c10RectEntry("rect(southern)", rect(-80, -30, 100, 160)))
	if big {
		add(c10RectEntry("rect(band)", s2.Rect{Lat: r1.Interval{Lo: 30 * deg, Hi: 40 * deg}, Lng: s1.FullInterval()}))
		add(c10RectEntry("rect(point)", rect(35, 35, 45, 45)))
		add(c10RectEntry("rect(equator straddling)", rect(-30, 50, -20, 70)))
	}

	// cells and cell unions
	corner := lattice.GeoLeaf(cc)
	gen := lattice.GeoLeaf(ctr["generic"])
	for _, l := range core.Pick(c, []int{0, 1, 5, 30}, []int{0, 1, 2, 5, 10, 20, 29, 30}) {
		add(c10CellEntry(fmt.Sprintf("cell(corner,%d)", l), corner.Parent(l), pe/2))
		add(c10CellEntry(fmt.Sprintf("cell(generic,%d)", l), gen.Parent(l), pe/2))
	}
	for f := 1; f < 6; f++ {
		add(c10CellEntry(fmt.Sprintf("cell(face %d)", f), s2.CellIDFromFace(f), pe/2))
	}
	add(c10CellUnionEntry("cellunion(corner block)", corner.VertexNeighbors(3), pe/4))
	f0 := s2.CellIDFromFace(0)
	add(c10CellUnionEntry("cellunion(mixed levels)", []s2.CellID{f0.Children()[0], f0.Children()[1].Children()[2], gen.Parent(12), gen}, pe/4))
	add(c10CellUnionEntry("cellunion(two far cells)", []s2.CellID{corner.Parent(8), lattice.GeoLeaf(lattice.LL(-40, -100)).Parent(8)}, pe/4))
	add(c10CellUnionEntry("cellunion(five faces)", []s2.CellID{s2.CellIDFromFace(0), s2.CellIDFromFace(1), s2.CellIDFromFace(2), s2.CellIDFromFace(3), s2.CellIDFromFace(4)}, pe/8))
	add(c10CellUnionEntry("cellunion(polar leaves)", append(lattice.GeoLeaf(ctr["pole"]).AllNeighbors(30), lattice.GeoLeaf(ctr["pole"])), 4))
	return out
}

func c10CheckBounds(c *core.Ctx, i int, b *c10Bounded, structural []s2.Point, st *c10Stats) {
	sub := "region-bounds"
	if b.sub != "" {
		sub = b.sub
	}
	if c.Skip(sub, i) {
		return
	}
	var rb s2.Rect
	var cb s2.Cap
	var cub []s2.CellID
	ok := false
	c.Guard(sub, []int{i}, func() any { return b.desc }, func() {
		rb, cb, cub = b.rect(), b.capb(), b.cells()
		ok = true
	})
	if !ok {
		return
	}
	st.regions.Add(1)
	st.apexes.Add(int64(b.apexes))
	cells := make([]s2.Cell, len(cub))
	for k, id := range cub {
		cells[k] = s2.CellFromCellID(id)
	}
	probes := c10Unit(lattice.Dedup(append(append([]s2.Point(nil), b.probes...), structural...)))
	nIn := 0
	detail := func(p s2.Point) map[string]any {
		ll := s2.LatLngFromPoint(p)
		return map[string]any{"region": b.name, "region_data": b.desc, "point": lattice.GeoPt(p), "point_lat_lng": []float64{ll.Lat.Radians(), ll.Lng.Radians()},
			"rect_bound_lat": []float64{rb.Lat.Lo, rb.Lat.Hi}, "rect_bound_lng": []float64{rb.Lng.Lo, rb.Lng.Hi}, "cap_bound": cb.String()}
	}
	var badU bool
	seen := map[string]bool{}
	for _, p := range probes {
		if !b.in(p) {
			continue
		}
		nIn++
		if ll := s2.LatLngFromPoint(p); !rb.ContainsLatLng(ll) {
			desc := c10RectDesc("RectBound of a "+b.kind, rb, ll)
			if !seen[desc] {
				seen[desc] = true
				d := detail(p)
				d["excess_rad"] = c10RectExcess(rb, ll)
				c.Violate(sub, "wrong-answer", desc, []int{i}, d)
			}
		}
		if b.kind != "cap" && !cb.ContainsPoint(p) && c10CapContainsExact(cb, p) {
			st.capFloatOnly.Add(1)
		}
		// a cap is its own CapBound: nothing to judge there
		if desc := c10CapDesc("CapBound of a "+b.kind, cb, p); b.kind != "cap" && !cb.ContainsPoint(p) && !seen[desc] {
			seen[desc] = true
			d := detail(p)
			d["squared_chord_to_cap_center"] = float64(s2.ChordAngleBetweenPoints(cb.Center(), p))
			d["cap_squared_chord_radius"] = 2 * cb.Height()
			d["inside_cap_in_exact_arithmetic"] = c10CapContainsExact(cb, p)
			c.Violate(sub, "wrong-answer", desc, []int{i}, d)
		}
		if !badU {
			found := false
			for _, cl := range cells {
				if cl.ContainsPoint(p) {
					found = true
					break
				}
			}
			if !found {
				badU = true
				d := detail(p)
				var t []string
				for _, id := range cub {
					t = append(t, id.ToToken())
				}
				d["cell_union_bound"] = t
				c.Violate(sub, "wrong-answer", fmt.Sprintf("CellUnionBound of a %s does not cover a contained point", b.kind), []int{i}, d)
			}
		}
	}
	st.probes.Add(int64(len(probes)))
	st.contained.Add(int64(nIn))
	if i%9 == 0 && i < 100000 || i%977 == 0 {
		c.Sample(map[string]any{"sub": sub, "region": b.name, "probes": len(probes), "contained": nIn, "edge_latitude_extrema": b.apexes})
	}
}

// ---- RectBounder on vertex pairs --------------------------------------------------------

func c10PairAlphabet(c *core.Ctx) []s2.Point {
	raw := func(x, y, z float64) s2.Point { return s2.Point{Vector: r3.Vector{X: x, Y: y, Z: z}} }
	p := lattice.LL(30, 40)
	anti := s2.Point{Vector: p.Mul(-1)}
	out := []s2.Point{
		raw(0, 0, 1), raw(0, 0, -1),
		raw(1e-9, 0, 1), raw(-1e-9, 0, 1), raw(0, 1e-15, 1), raw(1e-15, -1e-15, 1), raw(0, 1e-9, -1),
		p, anti, {Vector: r3.Vector{X: lattice.Ulp(anti.X, 1), Y: lattice.Ulp(anti.Y, -2), Z: anti.Z}}, s2.Point{Vector: lattice.LL(30, 40.0000001).Mul(-1)},
		lattice.LL(20, 0), lattice.LL(50, 180), lattice.LL(-10, 90), lattice.LL(10, -90),
		raw(-0.8, 0, 0.6), raw(-0.8, -5e-324, 0.6), raw(-1, 0, 0),
		raw(1, 0, 0), raw(0, 1, 0), lattice.LL(0, 179.9999999), lattice.LL(0, -179.9999999),
		lattice.LL(45, 10), lattice.LL(45, 10.000001), lattice.LL(-60, -170), lattice.LL(89.9999, 123), lattice.LL(-89.99999, -20),
	}
	// nearly pole-to-pole partners
	out = append(out, lattice.LL(89.99, 123), lattice.LL(-89.99, -56.999999999), lattice.LL(80, 10), lattice.LL(-80, -169.9999999), lattice.LL(-89.9999, -57))
	if !c.Quick() {
		out = append(out, raw(1e-300, 0, 1), raw(5e-324, 0, -1), lattice.LL(45, -170), lattice.LL(-45, 190), raw(0.6, 0, 0.8), raw(-0.6, 1e-16, 0.8), lattice.LL(0.0000001, 60), lattice.LL(-0.0000001, -120),
			lattice.LL(89.999999, -57), lattice.LL(-85, 123.0000001), lattice.LL(60, 0), lattice.LL(60, 179.99999999), lattice.LL(-60, -90), lattice.LL(-60, 90.00000001),
			raw(0, -1, 0), raw(0, 0.6, -0.8), raw(1e-9, 1e-9, -1), lattice.LL(30, 40.0001), s2.Point{Vector: lattice.LL(30, 40.0001).Mul(-1)}, lattice.LL(0, 90), lattice.LL(0, -90.0000001))
	}
	return lattice.Dedup(out)
}

func c10ThirdVertices(a, b s2.Point) []s2.Point {
	mid := a.Add(b.Vector)
	var m s2.Point
	if mid.Norm() < 1e-8 {
		u, _ := lattice.GeoFrame(a)
		m = s2.Point{Vector: u}
	} else {
		m = s2.Point{Vector: mid.Normalize()}
	}
	n := a.Cross(b.Vector)
	if n.Norm() < 1e-12 {
		_, v := lattice.GeoFrame(m)
		n = v
	}
	n = n.Normalize()
	var out []s2.Point
	for _, d := range []float64{0.3, -0.3, 1e-6, -1e-6, 1.2, -1.2, 1e-10, -1e-10} {
		out = append(out, s2.Point{Vector: m.Mul(math.Cos(d)).Add(n.Mul(math.Sin(d))).Normalize()})
	}
	return out
}

func c10CheckPairs(c *core.Ctx, alpha []s2.Point, ai, bi int, st *c10Stats, perEdge int) {
	const sub = "rectbounder-pairs"
	north, south := s2.PointFromCoords(0, 0, 1), s2.PointFromCoords(0, 0, -1)
	a, b := alpha[ai], alpha[bi]
	for once := true; once; once = false {
		if bi == ai || c.Skip(sub, ai, bi) {
			continue
		}
		st.pairs.Add(1)
		cas := []int{ai, bi}
		// the open chain (a, b): its bound contains the vertices (and the pole if it is exactly on the edge)
		var two s2.Rect
		c.Guard(sub, cas, func() any { return map[string]any{"a": lattice.GeoPt(a), "b": lattice.GeoPt(b)} }, func() {
			rbd := s2.NewRectBounder()
			rbd.AddPoint(a)
			rbd.AddPoint(b)
			two = rbd.RectBound()
		})
		if two.IsFull() {
			st.fullBounds.Add(1)
		}
		onEdge := []s2.Point{a, b}
		if !antipodal(a, b) {
			for _, pole := range []s2.Point{north, south} {
				if c10OnChain([]s2.Point{a, b}, pole) {
					onEdge = append(onEdge, pole)
				}
			}
		}
		for _, p := range onEdge {
			st.chainVertexChecks.Add(1)
			if !two.ContainsLatLng(s2.LatLngFromPoint(p)) {
				ll := s2.LatLngFromPoint(p)
				desc := "RectBounder bound of the chain (a,b) does not contain a point that is exactly on the edge"
				if c10RectExcess(two, ll) > c10RectUlpLevel {
					desc = "bound too small by more than rounding (over 4e-15 rad): RectBounder bound of the chain (a,b) misses a point that is exactly on the edge"
				}
				c.Violate(sub, "wrong-answer", desc, cas,
					map[string]any{"a": lattice.GeoPt(a), "b": lattice.GeoPt(b), "point": lattice.GeoPt(p), "point_lat_lng": []float64{ll.Lat.Radians(), ll.Lng.Radians()}, "bound_lat": []float64{two.Lat.Lo, two.Lat.Hi}, "bound_lng": []float64{two.Lng.Lo, two.Lng.Hi}})
			}
		}
		if antipodal(a, b) {
			st.degenerateSkipped.Add(1)
			continue
		}
		for ti, t := range c10ThirdVertices(a, b) {
			if t == a || t == b || antipodal(t, a) || antipodal(t, b) || refmodel.ExactDetSign(a, b, t) == 0 {
				st.degenerateSkipped.Add(1)
				continue
			}
			v := c10Tri(a, b, t)
			ref := refmodel.NewFastLoop(v)
			polar := ref.Contains(north) || ref.Contains(south)
			st.triangles.Add(1)
			if polar {
				st.polarTriangles.Add(1)
			}
			var chain, lb s2.Rect
			var lc s2.Cap
			var lu []s2.CellID
			ok := false
			det := func() map[string]any {
				return map[string]any{"a": lattice.GeoPt(a), "b": lattice.GeoPt(b), "third_vertex": lattice.GeoPt(t), "loop": lattice.GeoPts(v), "third_index": ti, "encloses_pole": polar}
			}
			c.Guard(sub, cas, func() any { return det() }, func() {
				rbd := s2.NewRectBounder()
				for k := 0; k <= 3; k++ {
					rbd.AddPoint(v[k%3])
				}
				chain = rbd.RectBound()
				l := s2.LoopFromPoints(append([]s2.Point(nil), v...))
				lb, lc, lu = l.RectBound(), l.CapBound(), l.CellUnionBound()
				ok = true
			})
			if !ok {
				continue
			}
			if chain.IsFull() {
				st.fullBounds.Add(1)
			}
			var probes []s2.Point
			for k := 0; k < 3; k++ {
				p, q := v[k], v[(k+1)%3]
				probes = append(probes, lattice.PUlp(p, 1)...)
				for j := 1; j <= perEdge; j++ {
					probes = append(probes, lattice.GeoSlerp(p, q, float64(j)/float64(perEdge+1)))
				}
				for _, ap := range c10Apexes(p, q) {
					probes = append(probes, lattice.PUlp(ap, 1)...)
				}
			}
			probes = append(probes, s2.Point{Vector: v[0].Add(v[1].Vector).Add(v[2].Vector).Normalize()}, north, south)
			probes = c10Unit(probes)
			cells := make([]s2.Cell, len(lu))
			for k, id := range lu {
				cells[k] = s2.CellFromCellID(id)
			}
			st.pairProbes.Add(int64(len(probes)))
			var b4 bool
			seen := map[string]bool{}
			once := func(desc string) bool {
				if seen[desc] {
					return false
				}
				seen[desc] = true
				return true
			}
			for _, p := range probes {
				if !ref.Contains(p) {
					continue
				}
				st.pairIn.Add(1)
				ll := s2.LatLngFromPoint(p)
				mk := func(r s2.Rect) map[string]any {
					d := det()
					d["point"] = lattice.GeoPt(p)
					d["point_lat_lng"] = []float64{ll.Lat.Radians(), ll.Lng.Radians()}
					d["bound_lat"] = []float64{r.Lat.Lo, r.Lat.Hi}
					d["bound_lng"] = []float64{r.Lng.Lo, r.Lng.Hi}
					return d
				}
				if !polar && !chain.ContainsLatLng(ll) {
					if desc := c10RectDesc("RectBounder bound of a closed chain not enclosing a pole", chain, ll); once(desc) {
						d := mk(chain)
						d["excess_rad"] = c10RectExcess(chain, ll)
						c.Violate(sub, "wrong-answer", desc, cas, d)
					}
				}
				if !lb.ContainsLatLng(ll) {
					if desc := c10RectDesc("Loop.RectBound", lb, ll); once(desc) {
						d := mk(lb)
						d["excess_rad"] = c10RectExcess(lb, ll)
						c.Violate(sub, "wrong-answer", desc, cas, d)
					}
				}
				if !lc.ContainsPoint(p) && c10CapContainsExact(lc, p) {
					st.capFloatOnly.Add(1)
				}
				if desc := c10CapDesc("Loop.CapBound", lc, p); !lc.ContainsPoint(p) && once(desc) {
					d := mk(lb)
					d["squared_chord_to_cap_center"] = float64(s2.ChordAngleBetweenPoints(lc.Center(), p))
					d["cap_squared_chord_radius"] = 2 * lc.Height()
					d["inside_cap_in_exact_arithmetic"] = c10CapContainsExact(lc, p)
					d["cap_bound"] = lc.String()
					c.Violate(sub, "wrong-answer", desc, cas, d)
				}
				if !b4 {
					found := false
					for _, cl := range cells {
						if cl.ContainsPoint(p) {
							found = true
							break
						}
					}
					if !found {
						b4 = true
						c.Violate(sub, "wrong-answer", "Loop.CellUnionBound does not cover a contained point", cas, mk(lb))
					}
				}
			}
		}
	}
}

// ---- RectBounder on edges that contain their latitude extremum ------------------------------------

// c10CheckApexEdges walks a lattice of edges symmetric about a meridian (so the great
// circle's latitude extremum is in the middle of the edge), of all lengths, at all
// latitudes: the place where the hand-derived padding of AddPoint / RectBound is needed.
func c10CheckApexEdges(c *core.Ctx, st *c10Stats) {
	const sub = "rectbounder-apex"
	nLat := core.Pick(c, 60, 240)
	lngs := core.Pick(c, []float64{0, 0.7, 2.2, 3.1, -1.3, -2.9}, []float64{0, 0.3, 0.7, 1.5707963267948966, 2.2, 3.1, 3.141592653589793, -0.4, -1.3, -2.0, -2.9, -3.1})
	halves := core.Pick(c, []float64{1e-12, 1e-9, 1e-6, 1e-3, 0.05, 0.6}, []float64{1e-14, 1e-12, 1e-10, 1e-9, 1e-7, 1e-6, 1e-4, 1e-3, 0.01, 0.05, 0.3, 0.6, 1.2})
	north, south := s2.PointFromCoords(0, 0, 1), s2.PointFromCoords(0, 0, -1)
	c.ParallelFor(nLat, func(li int) {
		// latitudes from -89.9.. to 89.9.. degrees, denser towards the poles
		x := (float64(li) + 0.5) / float64(nLat) // (0,1)
		lat := math.Pi / 2 * math.Sin(math.Pi*(x-0.5)) * (1 - 1e-4)
		for gi, lng := range lngs {
			for hi, h := range halves {
				if c.Skip(sub, li, gi, hi) {
					continue
				}
				if c.Expired() {
					return
				}
				a := lattice.GeoPtLL(lat, lng-h)
				b := lattice.GeoPtLL(lat, lng+h)
				eq := lat - math.Copysign(math.Max(2*h, 1e-9), lat) // towards the equator
				if lat == 0 {
					eq = -math.Max(2*h, 1e-9)
				}
				t := lattice.GeoPtLL(eq, lng)
				if a == b || refmodel.ExactDetSign(a, b, t) == 0 {
					st.degenerateSkipped.Add(1)
					continue
				}
				v := c10Tri(a, b, t)
				ref := refmodel.NewFastLoop(v)
				if ref.Contains(north) || ref.Contains(south) {
					st.apexPolar.Add(1)
					continue
				}
				apx := c10Apexes(a, b)
				if len(apx) == 0 {
					st.apexNone.Add(1)
				}
				var chain, lb s2.Rect
				ok := false
				cas := []int{li, gi, hi}
				det := func() map[string]any {
					return map[string]any{"a": lattice.GeoPt(a), "b": lattice.GeoPt(b), "third_vertex": lattice.GeoPt(t), "loop": lattice.GeoPts(v), "lat": lat, "lng": lng, "half_width": h}
				}
				c.Guard(sub, cas, func() any { return det() }, func() {
					rbd := s2.NewRectBounder()
					for k := 0; k <= 3; k++ {
						rbd.AddPoint(v[k%3])
					}
					chain = rbd.RectBound()
					lb = s2.LoopFromPoints(append([]s2.Point(nil), v...)).RectBound()
					ok = true
				})
				if !ok {
					continue
				}
				st.apexEdges.Add(1)
				var probes []s2.Point
				for _, ap := range apx {
					probes = append(probes, lattice.PUlp(ap, 2)...)
				}
				for k := 0; k < 3; k++ {
					probes = append(probes, lattice.PUlp(v[k], 1)...)
				}
				for j := 1; j < 32; j++ {
					probes = append(probes, lattice.PUlp(lattice.GeoSlerp(a, b, float64(j)/32), 1)...)
				}
				probes = c10Unit(probes)
				st.apexProbes.Add(int64(len(probes)))
				seen := map[string]bool{}
				for _, p := range probes {
					if !ref.Contains(p) {
						continue
					}
					st.apexIn.Add(1)
					ll := s2.LatLngFromPoint(p)
					for _, bd := range []struct {
						what string
						r    s2.Rect
					}{{"RectBounder bound of a closed chain not enclosing a pole", chain}, {"Loop.RectBound", lb}} {
						if bd.r.ContainsLatLng(ll) {
							continue
						}
						desc := c10RectDesc(bd.what, bd.r, ll)
						if seen[desc] {
							continue
						}
						seen[desc] = true
						d := det()
						d["point"] = lattice.GeoPt(p)
						d["point_lat_lng"] = []float64{ll.Lat.Radians(), ll.Lng.Radians()}
						d["bound_lat"] = []float64{bd.r.Lat.Lo, bd.r.Lat.Hi}
						d["bound_lng"] = []float64{bd.r.Lng.Lo, bd.r.Lng.Hi}
						d["excess_rad"] = c10RectExcess(bd.r, ll)
						c.Violate(sub, "wrong-answer", desc, cas, d)
					}
				}
			}
		}
		if li%17 == 0 {
			c.Sample(map[string]any{"sub": sub, "latitude": lat, "longitudes": len(lngs), "half_widths": halves})
		}
	})
}

// ---- sub-region law ----------------------------------------------------------------------------

type c10Sub struct {
	name string
	v    []s2.Point
	sure bool // contained by construction (convexity); otherwise decided by exact vertex containment
}

func c10SubLoops(name string, A []s2.Point, ctr s2.Point, rad float64, tri bool) []c10Sub {
	n := len(A)
	out := []c10Sub{{name + "/itself", A, true}}
	if tri {
		for i := 0; i < n; i++ {
			for j := i + 1; j < n; j++ {
				for k := j + 1; k < n; k++ {
					out = append(out, c10Sub{fmt.Sprintf("%s/triangle(%d,%d,%d)", name, i, j, k), []s2.Point{A[i], A[j], A[k]}, true})
				}
			}
		}
	}
	for step := 2; step <= 3; step++ {
		if n/step >= 3 {
			for off := 0; off < step; off++ {
				var v []s2.Point
				for i := off; i < n; i += step {
					v = append(v, A[i])
				}
				out = append(out, c10Sub{fmt.Sprintf("%s/every-%d-from-%d", name, step, off), v, true})
			}
		}
	}
	if rad > 0 {
		inr := rad * math.Cos(math.Pi/float64(n)) // inscribed circle (slightly less on the sphere; the factors below leave margin)
		for _, f := range []float64{0.5, 0.99} {
			for _, m := range []int{3, n, 2 * n} {
				out = append(out, c10Sub{fmt.Sprintf("%s/inscribed(%g,n=%d)", name, f, m), lattice.GeoRegular(ctr, f*inr*0.999, m, 0.37), true})
			}
		}
	}
	return out
}

func c10CheckSubregions(c *core.Ctx, st *c10Stats) {
	const sub = "subregions"
	north, south := s2.PointFromCoords(0, 0, 1), s2.PointFromCoords(0, 0, -1)
	type outer struct {
		name string
		v    []s2.Point
		subs []c10Sub
	}
	var outers []outer
	centres := map[string]s2.Point{"face": s2.PointFromCoords(1, 0, 0), "corner": s2.PointFromCoords(1, 1, 1), "antimer": lattice.LL(10, 180), "high": lattice.LL(75, -40), "equator": lattice.LL(0, 77), "south": lattice.LL(-62, 13)}
	for _, cn := range core.Pick(c, []string{"corner", "antimer", "high", "equator"}, []string{"face", "corner", "antimer", "high", "equator", "south"}) {
		for _, n := range core.Pick(c, []int{4, 6, 8}, []int{4, 5, 6, 8, 12, 16}) {
			for _, rad := range core.Pick(c, []float64{1e-6, 1e-3, 0.1, 1}, []float64{1e-8, 1e-6, 1e-3, 0.1, 0.25, 1, 1.5, math.Pi/2 - 1e-3}) {
				for _, ph := range core.Pick(c, []float64{0, 0.3}, []float64{0, 0.3, 0.7853981633974483, 1.3}) {
					A := lattice.GeoRegular(centres[cn], rad, n, ph)
					nm := fmt.Sprintf("regular(%s,r=%g,n=%d,phase=%g)", cn, rad, n, ph)
					outers = append(outers, outer{nm, A, c10SubLoops(nm, A, centres[cn], rad, true)})
				}
			}
		}
	}
	// cells and their descendants (containment decided by exact vertex containment)
	for _, p := range []s2.Point{centres["corner"], centres["high"], lattice.LL(37.3, -122.1), lattice.LL(-20, -179.9)} {
		for _, l := range core.Pick(c, []int{1, 4, 12}, []int{0, 1, 2, 4, 8, 12, 20, 27}) {
			id := lattice.GeoLeaf(p).Parent(l)
			A := lattice.GeoCellVerts(s2.CellFromCellID(id))
			nm := "cell(" + id.ToToken() + ")"
			o := outer{nm, A, []c10Sub{{nm + "/itself", A, true}}}
			for d := 1; d <= 2 && l+d <= 30; d++ {
				end := id.ChildEndAtLevel(l + d)
				for ch := id.ChildBeginAtLevel(l + d); ch != end; ch = ch.Next() {
					o.subs = append(o.subs, c10Sub{nm + "/descendant " + ch.ToToken(), lattice.GeoCellVerts(s2.CellFromCellID(ch)), false})
				}
			}
			outers = append(outers, o)
		}
	}
	c.ParallelFor(len(outers), func(oi int) {
		o := outers[oi]
		refA := refmodel.NewFastLoop(o.v)
		polar := refA.Contains(north) || refA.Contains(south)
		var la *s2.Loop
		var boundA, expA s2.Rect
		ok := false
		c.Guard(sub, []int{oi}, func() any { return map[string]any{"A": lattice.GeoPts(o.v)} }, func() {
			la = s2.LoopFromPoints(append([]s2.Point(nil), o.v...))
			boundA = la.RectBound()
			expA = s2.ExpandForSubregions(boundA)
			ok = true
		})
		if !ok {
			return
		}
		if expA.IsFull() {
			st.subFull.Add(1)
		}
		for si, s := range o.subs {
			if c.Skip(sub, oi, si) {
				continue
			}
			st.subPairs.Add(1)
			if polar {
				st.subPolar.Add(1)
				continue
			}
			contained := s.sure
			if !contained {
				contained = true
				for _, q := range s.v {
					isV := false
					for _, w := range o.v {
						if w == q {
							isV = true
						}
					}
					if !isV && !refA.Contains(q) {
						contained = false
						break
					}
				}
			}
			if !contained {
				st.subNotContained.Add(1)
				continue
			}
			var boundB s2.Rect
			var libContains bool
			ok := false
			c.Guard(sub, []int{oi, si}, func() any { return map[string]any{"A": lattice.GeoPts(o.v), "B": lattice.GeoPts(s.v)} }, func() {
				lb := s2.LoopFromPoints(append([]s2.Point(nil), s.v...))
				boundB = lb.RectBound()
				libContains = la.Contains(lb)
				ok = true
			})
			if !ok {
				continue
			}
			if !libContains {
				st.subLibDisagrees.Add(1)
			}
			st.subAsserted.Add(1)
			if !expA.Contains(boundB) {
				c.Violate(sub, "wrong-answer", "ExpandForSubregions(A.RectBound()) does not contain B.RectBound() for a loop B inside the pole-free loop A", []int{oi, si},
					map[string]any{"A": o.name, "B": s.name, "A_vertices": lattice.GeoPts(o.v), "B_vertices": lattice.GeoPts(s.v),
						"A_bound_lat": []float64{boundA.Lat.Lo, boundA.Lat.Hi}, "A_bound_lng": []float64{boundA.Lng.Lo, boundA.Lng.Hi},
						"expanded_lat": []float64{expA.Lat.Lo, expA.Lat.Hi}, "expanded_lng": []float64{expA.Lng.Lo, expA.Lng.Hi},
						"B_bound_lat": []float64{boundB.Lat.Lo, boundB.Lat.Hi}, "B_bound_lng": []float64{boundB.Lng.Lo, boundB.Lng.Hi}, "library_A_Contains_B": libContains})
			}
		}
		if oi%11 == 0 {
			c.Sample(map[string]any{"sub": sub, "A": o.name, "inner_loops": len(o.subs), "A_encloses_pole": polar})
		}
	})
}

// ---- convex hull ----------------------------------------------------------------------------------

func c10HullAlphabet(c *core.Ctx) []s2.Point {
	n1 := func(x, y, z float64) s2.Point {
		n := r3.Vector{X: x, Y: y, Z: z}.Norm()
		return s2.Point{Vector: r3.Vector{X: x / n, Y: y / n, Z: z / n}}
	}
	out := []s2.Point{
		{Vector: r3.Vector{X: 1}}, n1(1, 0.1, 0), n1(1, 0.2, 0), n1(1, 0.3, 0), // exactly collinear (z = 0)
		n1(1, 0.1, 0.1), n1(1, 0.2, 0.1), n1(1, 0.15, -0.2),
		n1(1, 0.15, 1e-12),                         // 1e-12 off the collinear line
		{Vector: r3.Vector{X: 1, Y: 1e-300, Z: 0}}, // 1e-300 from the first point, on the same line
		n1(1, 0.15, 0.03),                          // interior point
	}
	out = append(out, n1(1, 0.1, 0.2), n1(1, 0.1, -0.1))
	if !c.Quick() {
		out = append(out, s2.Point{Vector: r3.Vector{X: 1 - 1.0/(1<<53)}}, n1(1, 0.3, 0.1), n1(1, 0, 0.1))
	}
	return out
}

func c10CheckHull(c *core.Ctx, sub string, cas []int, pts []s2.Point, hull *s2.Loop, st *c10Stats, how string) {
	st.hulls.Add(1)
	st.hullInputs.Add(int64(len(pts)))
	detail := func() map[string]any {
		return map[string]any{"input": lattice.GeoPts(pts), "hull": lattice.GeoPts(hull.Vertices()), "built_with": how}
	}
	if hull.IsFull() {
		st.hullFull.Add(1)
		return
	}
	if hull.IsEmpty() {
		if len(pts) > 0 {
			c.Violate(sub, "wrong-answer", "ConvexHull of a non-empty point set is the empty loop", cas, detail())
		}
		return
	}
	v := hull.Vertices()
	n := len(v)
	st.hullVertices.Add(int64(n))
	if len(pts) < 3 {
		st.hullSmall.Add(1)
	}
	for i := 0; i < n; i++ {
		if refmodel.ExactDetSign(v[i], v[(i+1)%n], v[(i+2)%n]) < 0 {
			d := detail()
			d["turn_at"] = (i + 1) % n
			c.Violate(sub, "wrong-answer", fmt.Sprintf("ConvexHull of %s has a clockwise turn (exact orientation sign < 0): not convex", c10HullClass(len(pts))), cas, d)
			break
		}
	}
	ref := refmodel.NewFastLoop(v)
	for _, p := range pts {
		isV := false
		for _, w := range v {
			if w == p {
				isV = true
			}
		}
		if !isV && !ref.Contains(p) {
			d := detail()
			d["point"] = lattice.GeoPt(p)
			c.Violate(sub, "wrong-answer", fmt.Sprintf("ConvexHull of %s neither contains an input point nor has it as a vertex", c10HullClass(len(pts))), cas, d)
			break
		}
	}
}

func c10HullClass(n int) string {
	switch {
	case n == 1:
		return "one point"
	case n == 2:
		return "two points"
	}
	return "three or more points"
}

func c10ConvexHull(c *core.Ctx, st *c10Stats) {
	const sub = "convex-hull"
	alpha := c10HullAlphabet(c)
	n := len(alpha)
	var masks []int
	for m := 1; m < 1<<uint(n); m++ {
		k := 0
		for x := m; x != 0; x &= x - 1 {
			k++
		}
		if k <= core.Pick(c, 5, 6) {
			masks = append(masks, m)
		}
	}
	c.Count("convex-hull/subsets", int64(len(masks)))
	c.ParallelFor(len(masks), func(mi int) {
		m := masks[mi]
		var pts []s2.Point
		for i := 0; i < n; i++ {
			if m&(1<<uint(i)) != 0 {
				pts = append(pts, alpha[i])
			}
		}
		for order := 0; order < 2; order++ {
			if c.Skip(sub, m, order) {
				continue
			}
			in := append([]s2.Point(nil), pts...)
			if order == 1 {
				in = lattice.GeoReverse(in)
			}
			var hull *s2.Loop
			c.Guard(sub, []int{m, order}, func() any { return map[string]any{"input": lattice.GeoPts(in)} }, func() {
				q := s2.NewConvexHullQuery()
				for _, p := range in {
					q.AddPoint(p)
				}
				hull = q.ConvexHull()
			})
			if hull != nil {
				c10CheckHull(c, sub, []int{m, order}, in, hull, st, "AddPoint")
			}
		}
		if mi%211 == 0 {
			c.Sample(map[string]any{"sub": sub, "subset_mask": m, "points": len(pts)})
		}
	})
	// catalogue shapes
	shapes := []struct {
		name string
		add  func(q *s2.ConvexHullQuery) []s2.Point
	}{
		{"loop 8-gon", func(q *s2.ConvexHullQuery) []s2.Point {
			v := lattice.GeoRegular(lattice.LL(20, 30), 0.2, 8, 0)
			q.AddLoop(s2.LoopFromPoints(append([]s2.Point(nil), v...)))
			return v
		}},
		{"polygon shell+hole", func(q *s2.ConvexHullQuery) []s2.Point {
			a, b := lattice.GeoRegular(lattice.LL(-40, 170), 0.3, 12, 0), lattice.GeoRegular(lattice.LL(-40, 170), 0.1, 5, 0)
			q.AddPolygon(s2.PolygonFromLoops([]*s2.Loop{s2.LoopFromPoints(append([]s2.Point(nil), a...)), s2.LoopFromPoints(append([]s2.Point(nil), b...))}))
			return a
		}},
		{"polyline zigzag", func(q *s2.ConvexHullQuery) []s2.Point {
			v := []s2.Point{lattice.LL(0, 0), lattice.LL(5, 3), lattice.LL(-2, 6), lattice.LL(7, 9), lattice.LL(1, 12)}
			pl := s2.Polyline(append([]s2.Point(nil), v...))
			q.AddPolyline(&pl)
			return v
		}},
		{"cell loop + far point", func(q *s2.ConvexHullQuery) []s2.Point {
			v := lattice.GeoCellVerts(s2.CellFromCellID(lattice.GeoLeaf(lattice.LL(37, -122)).Parent(6)))
			q.AddLoop(s2.LoopFromPoints(append([]s2.Point(nil), v...)))
			p := lattice.LL(40, -110)
			q.AddPoint(p)
			return append(v, p)
		}},
		{"star (non-convex) loop", func(q *s2.ConvexHullQuery) []s2.Point {
			o, i := lattice.GeoRegular(lattice.LL(60, 100), 0.3, 5, 0), lattice.GeoRegular(lattice.LL(60, 100), 0.1, 5, math.Pi/5)
			var v []s2.Point
			for k := 0; k < 5; k++ {
				v = append(v, o[k], i[k])
			}
			q.AddLoop(s2.LoopFromPoints(append([]s2.Point(nil), v...)))
			return v
		}},
	}
	for si, sh := range shapes {
		if c.Skip(sub+"-shapes", si) {
			continue
		}
		var hull *s2.Loop
		var pts []s2.Point
		c.Guard(sub+"-shapes", []int{si}, func() any { return sh.name }, func() {
			q := s2.NewConvexHullQuery()
			pts = sh.add(q)
			hull = q.ConvexHull()
		})
		if hull != nil {
			c10CheckHull(c, sub+"-shapes", []int{si}, pts, hull, st, sh.name)
		}
	}
}

// ---- ShapeIndexRegion -------------------------------------------------------------------------------

func c10IndexRegions(c *core.Ctx, st *c10Stats) {
	const sub = "index-region"
	loopAt := func(p s2.Point, r float64, n int) []s2.Point { return lattice.GeoRegular(p, r, n, 0.1) }
	type entry struct {
		name   string
		chains [][]s2.Point
		closed []bool
	}
	face := []s2.Point{s2.PointFromCoords(1, 0, 0), s2.PointFromCoords(0, 1, 0), s2.PointFromCoords(0, 0, 1), s2.PointFromCoords(-1, 0, 0), s2.PointFromCoords(0, -1, 0), s2.PointFromCoords(0, 0, -1)}
	es := []entry{
		{"one loop on one face", [][]s2.Point{loopAt(lattice.LL(5, 5), 0.1, 40)}, []bool{true}},
		{"one tiny loop (single index cell)", [][]s2.Point{loopAt(lattice.LL(5, 5), 1e-6, 4)}, []bool{true}},
		{"polyline across a face edge", [][]s2.Point{{lattice.LL(5, 40), lattice.LL(8, 47), lattice.LL(2, 52)}}, []bool{false}},
		{"loop around a cube corner", [][]s2.Point{loopAt(s2.PointFromCoords(1, 1, 1), 0.2, 33)}, []bool{true}},
		{"three loops on three faces", [][]s2.Point{loopAt(face[0], 0.1, 12), loopAt(face[1], 0.1, 12), loopAt(face[2], 0.1, 12)}, []bool{true, true, true}},
		{"loops on faces 0, 3 and 5", [][]s2.Point{loopAt(face[0], 0.05, 12), loopAt(face[3], 0.2, 36), loopAt(face[5], 0.01, 5)}, []bool{true, true, true}},
		{"six loops on six faces", [][]s2.Point{loopAt(face[0], 0.1, 8), loopAt(face[1], 0.1, 8), loopAt(face[2], 0.1, 8), loopAt(face[3], 0.1, 8), loopAt(face[4], 0.1, 8), loopAt(face[5], 0.1, 8)}, []bool{true, true, true, true, true, true}},
		{"long polyline over four faces", [][]s2.Point{{lattice.LL(0, 0), lattice.LL(10, 80), lattice.LL(-10, 170), lattice.LL(5, -100)}}, []bool{false}},
	}
	for ei, e := range es {
		if c.Skip(sub, ei) {
			continue
		}
		var rb s2.Rect
		var cb s2.Cap
		var cub []s2.CellID
		ok := false
		c.Guard(sub, []int{ei}, func() any { return e.name }, func() {
			ix := s2.NewShapeIndex()
			for k, ch := range e.chains {
				if e.closed[k] {
					ix.Add(s2.LoopFromPoints(append([]s2.Point(nil), ch...)))
				} else {
					pl := s2.Polyline(append([]s2.Point(nil), ch...))
					ix.Add(&pl)
				}
			}
			reg := ix.Region()
			cub = reg.CellUnionBound()
			rb = reg.RectBound()
			cb = reg.CapBound()
			ok = true
		})
		if !ok {
			continue
		}
		st.idxRegions.Add(1)
		var cells []s2.Cell
		var toks []string
		for _, id := range cub {
			cells = append(cells, s2.CellFromCellID(id))
			toks = append(toks, id.ToToken())
		}
		var probes []s2.Point
		for k, ch := range e.chains {
			n := len(ch)
			last := n - 1
			if e.closed[k] {
				last = n
			}
			probes = append(probes, ch...)
			for i := 0; i < last; i++ {
				for j := 1; j <= 16; j++ {
					probes = append(probes, lattice.GeoSlerp(ch[i], ch[(i+1)%n], float64(j)/17))
				}
			}
		}
		st.idxProbes.Add(int64(len(probes)))
		var b1, b2, b3 bool
		for pi, p := range probes {
			isVertex := false
			for _, ch := range e.chains {
				for _, q := range ch {
					if q == p {
						isVertex = true
					}
				}
			}
			d := map[string]any{"index": e.name, "point": lattice.GeoPt(p), "probe": pi, "cell_union_bound": toks, "is_vertex": isVertex}
			found := false
			for _, cl := range cells {
				if cl.ContainsPoint(p) {
					found = true
				}
			}
			if !found && !b1 {
				b1 = true
				c.Violate(sub, "wrong-answer", "ShapeIndexRegion.CellUnionBound does not cover a point of an indexed edge", []int{ei}, d)
			}
			// interpolated edge points are on the edge only up to rounding; the strict claims use the vertices
			if isVertex {
				if !b2 && !cb.ContainsPoint(p) {
					b2 = true
					desc := "ShapeIndexRegion.CapBound loses a vertex of the indexed geometry within rounding (4e-15 in chord length)"
					if c10CapGross(cb, p) {
						desc = "bound too small by more than rounding: ShapeIndexRegion.CapBound misses a vertex of the indexed geometry"
					}
					c.Violate(sub, "wrong-answer", desc, []int{ei}, d)
				}
				if ll := s2.LatLngFromPoint(p); !b3 && !rb.ContainsLatLng(ll) {
					b3 = true
					desc := "ShapeIndexRegion.RectBound loses a vertex of the indexed geometry within rounding (4e-15 rad)"
					if c10RectExcess(rb, ll) > c10RectUlpLevel {
						desc = "bound too small by more than rounding: ShapeIndexRegion.RectBound misses a vertex of the indexed geometry"
					}
					c.Violate(sub, "wrong-answer", desc, []int{ei}, d)
				}
			}
		}
		c.Sample(map[string]any{"sub": sub, "index": e.name, "cell_union_bound": toks})
	}
}

// ---- driver ------------------------------------------------------------------------------------------

func runC10(c *core.Ctx) {
	c.Rule = "region-bounds: every region of the catalogue (loops of 3..100 vertices and radii 1e-9..2 at cube corners, the antimeridian, high latitudes, around both poles, with a vertex or an edge 0, 1e-15 and 1e-9 from a pole, spanning pi-1e-15 of longitude, inverted, cell loops, wedges, empty, full; polygons with holes; polylines in exact coordinate planes; caps; rectangles; cells of levels 0..30; cell unions) x every probe (vertices + 27 ulp-neighbours, dense edge points, 300-bit latitude extremum of every edge + 27 ulp-neighbours, structural points); non-trivial = probe contained by the exact reference, judged against RectBound, CapBound and CellUnionBound.  rectbounder-pairs: all ordered pairs of the adversarial alphabet x 8 third vertices, probes as above; non-trivial = contained probes.  rectbounder-apex: every (latitude, longitude, half-width) of the lattice of extremum-containing edges; non-trivial = contained probes.  subregions: all (A, B) with B inside A by construction; non-trivial = pairs with pole-free A.  convex-hull: all subsets of size <= 5 (quick, 12 points) / <= 6 (thorough, 15 points) of the alphabet in two input orders; non-trivial = hulls that are neither empty nor full."
	c.Assume = []string{
		"membership is exact: crossing parity on exact orientation signs with the documented symbolic perturbation (float filter at 1e-13 in front, definition as in refmodel.Loop); caps and rectangles use their own ContainsPoint; polylines: vertices and points exactly on an edge (exact determinant 0)",
		"the computed latitude/longitude of a point is LatLngFromPoint, as the property states",
		"cell membership for CellUnionBound is the closed Cell.ContainsPoint",
		"B inside A is established by construction (convex A, B on a subset of A's vertices or inscribed with margin) or by exact vertex containment (descendant cells), not by Loop.Contains",
	}
	st := &c10Stats{}
	structural := lattice.PStruct(core.Pick(c, 1, 2))
	run := func(sub string) bool { return c.OnlySub == "" || c.OnlySub == sub }
	phases := map[string]float64{}
	t0 := time.Now()
	lap := func(name string) {
		phases[name] = time.Since(t0).Seconds()
		t0 = time.Now()
	}

	if run("wide-regions") {
		c10WideRegions(c)
		lap("wide-regions")
	}
	if run("decoded-region-bounds") {
		c10DecodedRegions(c)
		lap("decoded-region-bounds")
	}
	if run("region-bounds") {
		cat := c10Catalogue(c, structural)
		lap("build region catalogue")
		kinds := map[string]int64{}
		for _, b := range cat {
			kinds[b.kind]++
		}
		for k, n := range kinds {
			c.Count("region-bounds/regions_"+k, n)
		}
		c.ParallelFor(len(cat), func(i int) {
			if c.Expired() {
				return
			}
			c10CheckBounds(c, i, cat[i], structural, st)
		})
		if c.Expired() {
			c.CapHit("region-bounds: wall budget reached")
		}
		lap("region-bounds")
	}
	if run("region-bounds") {
		// every cell of the top levels and the chains of deep cells hugging a cube corner, a
		// face edge and generic points, judged like the catalogue regions (index offset 100000
		// keeps the replay coordinates apart)
		var ids []s2.CellID
		maxL := core.Pick(c, 3, 5)
		for f := 0; f < 6; f++ {
			root := s2.CellIDFromFace(f)
			for l := 0; l <= maxL; l++ {
				for id := root.ChildBeginAtLevel(l); id != root.ChildEndAtLevel(l); id = id.Next() {
					ids = append(ids, id)
				}
			}
		}
		for _, p := range []s2.Point{s2.PointFromCoords(1, 1, 1), s2.PointFromCoords(-1, 1, -1), s2.PointFromCoords(1, 1, 0), s2.PointFromCoords(0, 1e-9, 1), lattice.LL(37.3, -122.1), lattice.LL(-33.9, 151.2), lattice.LL(0.0001, 179.9999), lattice.LL(89.999, 45)} {
			leaf := lattice.GeoLeaf(p)
			for l := maxL + 1; l <= 30; l += core.Pick(c, 3, 1) {
				ids = append(ids, leaf.Parent(l))
			}
		}
		c.Count("cell-bounds/cells", int64(len(ids)))
		c.ParallelFor(len(ids), func(k int) {
			if c.Expired() {
				return
			}
			b := c10CellEntry("cell "+ids[k].ToToken(), ids[k], 8)
			// reported under region-bounds so that the recorded finding about unpadded cap
			// bounds (Cell.CapBound) is recognised here as well
			c10CheckBounds(c, 100000+k, b, nil, st)
		})
		lap("cell-bounds")
	}
	if run("rectbounder-pairs") {
		alpha := c10PairAlphabet(c)
		c.Count("rectbounder-pairs/alphabet", int64(len(alpha)))
		na := len(alpha)
		c.ParallelFor(na*na, func(k int) {
			if c.Expired() {
				return
			}
			c10CheckPairs(c, alpha, k/na, k%na, st, core.Pick(c, 16, 64))
		})
		c.Sample(map[string]any{"sub": "rectbounder-pairs", "a": lattice.GeoPt(alpha[2]), "b": lattice.GeoPt(alpha[9])})
		if c.Expired() {
			c.CapHit("rectbounder-pairs: wall budget reached")
		}
		lap("rectbounder-pairs")
	}
	if run("rectbounder-apex") {
		c10CheckApexEdges(c, st)
		lap("rectbounder-apex")
	}
	if run("subregions") {
		c10CheckSubregions(c, st)
		lap("subregions")
	}
	if run("convex-hull") || run("convex-hull-shapes") {
		c10ConvexHull(c, st)
		lap("convex-hull")
	}
	if run("index-region") {
		c10IndexRegions(c, st)
		lap("index-region")
	}
	c.Note("phase_wall_seconds", phases)

	c.Eval(int(st.probes.Load() + st.apexProbes.Load() + st.pairProbes.Load() + st.subPairs.Load() + st.hulls.Load() + st.idxProbes.Load()))
	c.Nontrivial(int(st.contained.Load() + st.apexIn.Load() + st.pairIn.Load() + st.subAsserted.Load() + st.hulls.Load() - st.hullFull.Load()))
	c.Count("region-bounds/regions", st.regions.Load())
	c.Count("region-bounds/probes", st.probes.Load())
	c.Count("region-bounds/contained_probes_judged", st.contained.Load())
	c.Count("region-bounds/edge_latitude_extrema", st.apexes.Load())
	c.Count("cap-bounds/rejected_by_Cap.ContainsPoint_though_inside_in_exact_arithmetic", st.capFloatOnly.Load())
	c.Count("rectbounder-pairs/ordered_pairs", st.pairs.Load())
	c.Count("rectbounder-pairs/triangles", st.triangles.Load())
	c.Count("rectbounder-pairs/triangles_enclosing_a_pole", st.polarTriangles.Load())
	c.Count("rectbounder-pairs/degenerate_or_antipodal_skipped", st.degenerateSkipped.Load())
	c.Count("rectbounder-pairs/probes", st.pairProbes.Load())
	c.Count("rectbounder-pairs/contained_probes_judged", st.pairIn.Load())
	c.Count("rectbounder-pairs/full_bounds", st.fullBounds.Load())
	c.Count("rectbounder-pairs/on_edge_exact_checks", st.chainVertexChecks.Load())
	c.Count("rectbounder-apex/edges", st.apexEdges.Load())
	c.Count("rectbounder-apex/probes", st.apexProbes.Load())
	c.Count("rectbounder-apex/contained_probes_judged", st.apexIn.Load())
	c.Count("rectbounder-apex/triangle_encloses_pole_skipped", st.apexPolar.Load())
	c.Count("rectbounder-apex/extremum_not_on_edge_after_rounding", st.apexNone.Load())
	c.Count("subregions/pairs", st.subPairs.Load())
	c.Count("subregions/asserted", st.subAsserted.Load())
	c.Count("subregions/outer_encloses_pole_not_asserted", st.subPolar.Load())
	c.Count("subregions/descendant_not_exactly_inside_skipped", st.subNotContained.Load())
	c.Count("subregions/library_Contains_false_for_contained_pair", st.subLibDisagrees.Load())
	c.Count("subregions/expanded_bound_full", st.subFull.Load())
	c.Count("convex-hull/hulls", st.hulls.Load())
	c.Count("convex-hull/full_results", st.hullFull.Load())
	c.Count("convex-hull/hull_vertices", st.hullVertices.Load())
	c.Count("convex-hull/one_or_two_point_inputs", st.hullSmall.Load())
	c.Count("index-region/indexes", st.idxRegions.Load())
	c.Count("index-region/probes", st.idxProbes.Load())
	if c.OnlySub == "" {
		if st.contained.Load() == 0 || st.apexes.Load() == 0 || st.pairIn.Load() == 0 || st.subAsserted.Load() == 0 || st.hulls.Load() == st.hullFull.Load() {
			panic(core.HarnessError("C10: a sub-check judged nothing (vacuous run)"))
		}
	}
	c10BoundHistories(c) // sub-check bound-histories (c10_history.go)
}
