package checks

import (
	"github.com/golang/geo/s2"

	"verif/mc/core"
	"verif/mc/refmodel"
)

// Sub-check "ancestor-containment": C12's "a cell contains every point whose leaf cell lies within
// its id range", on the boundary-hunting lattice (unit vectors whose u or v face coordinate is 0..D
// ulps either side of a cell boundary, or just outside boundary +- dblEpsilon, on all six faces).
// For such a point the leaf cell is decided by rounding, and every coarser cell that shares the
// boundary must still contain the point: every ancestor of CellFromPoint(p), at every level, is asked.
func init() {
	ck := Registry["C12"]
	run := ck.Run
	ck.Run = func(c *core.Ctx) {
		run(c)
		c12AncestorContainment(c)
	}
}

func c12AncestorContainment(c *core.Ctx) {
	sub := "ancestor-containment"
	all := c01HuntBoundaries(c)
	D := core.Pick(c, 6, 8)
	cross := []float64{c01ST2UV(0.5), c01ST2UV((1<<29 + 1<<20 + 1) / float64(1<<30)), c01ST2UV(1)}
	bnd := all
	c.ParallelFor(len(bnd), func(bi int) {
		if c.Expired() {
			return
		}
		ub := c01ST2UV(float64(bnd[bi]) / (1 << 30))
		var ev, rounded int64
		j := 0
		for _, u := range c01Targets(ub, D) {
			for _, w := range cross {
				for _, t := range c01UnitWithRatio(u, w, 2) {
					for f := 0; f < 6; f++ {
						for swap := 0; swap < 2; swap++ {
							j++
							if c.Skip(sub, bi, j) {
								continue
							}
							var p s2.Point
							if swap == 0 {
								p = s2.Point{Vector: refmodel.FloatFromUVW(f, t[0], t[1], t[2])}
							} else {
								p = s2.Point{Vector: refmodel.FloatFromUVW(f, t[1], t[0], t[2])}
							}
							cas := []int{bi, j}
							c.Guard(sub, cas, func() any { return ptStr(p) }, func() {
								leaf := s2.CellFromPoint(p).ID()
								ev++
								var missing []int
								for l := 30; l >= 0; l-- {
									if !s2.CellFromCellID(leaf.Parent(l)).ContainsPoint(p) {
										missing = append(missing, l)
									}
								}
								if len(missing) > 0 {
									c.Violate(sub, "wrong-answer", "a cell does not contain a point whose leaf cell lies within its id range", cas,
										map[string]any{"p": ptStr(p), "leaf": leaf.String(), "levels_not_containing_p": missing})
								}
								if u != ub {
									rounded++
								}
							})
						}
					}
				}
			}
		}
		c.Eval(int(ev))
		c.Nontrivial(int(rounded))
		c.Count(sub+"/points", ev)
	})
	c.Count(sub+"/boundaries", int64(len(bnd)))
}
