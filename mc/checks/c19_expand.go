package checks

import (
	"fmt"
	"math"

	"github.com/golang/geo/s1"
	"github.com/golang/geo/s2"
	"verif/mc/core"
)

// Sub-check "S1-expanded-near-full": s1.Interval.Expanded with margins chosen so that the expanded
// interval is full to within a few rounding units — the decision "has it become full?" is made on a
// sum whose own rounding error is of the size of the allowance it uses, so the deciding inputs are
// the margins (2π - Length)/2 ± k ulps, for intervals with generic (not only quarter-point) endpoints.
// Assertion (the property's "expansion keeps every original point"): for margin >= 0 the result is a
// valid interval that contains both endpoints, the centre and every alphabet value of the original.
// The same for s2.RectFromCenterSize (the exported user of s2.Rect's expansion).
func c19RunExpandNearFull(c *core.Ctx) {
	sub := "S1-expanded-near-full"
	pi := math.Pi
	base := []float64{-pi, c19Ulp(-pi, 1), -3, -2.7067405255582839, -2.5, -pi / 2, c19Ulp(-pi/2, 1), -1.2345678901234567, -1, -0.3333333333333333, -0.1, -1e-9, 0,
		1e-9, 0.1, 0.6180339887498949, 0.97651361425379268, 1, 1.1, pi / 2, c19Ulp(pi/2, -1), 2, 2.2764791979375474, 2.5, 2.718281828459045, 3, 3.1, c19Ulp(pi, -1), pi}
	if !c.Quick() {
		for k := 1; k <= 40; k++ {
			// an arithmetic progression with an irrational step: generic mantissas
			base = append(base, math.Remainder(float64(k)*0.7548776662466927, 2*pi))
		}
	}
	inIv := func(lo, hi, p float64) bool {
		if p == -pi {
			p = pi
		}
		if lo == -pi && hi != pi {
			lo = pi
		}
		if hi == -pi && lo != pi {
			hi = pi
		}
		if lo <= hi {
			return lo <= p && p <= hi
		}
		return p >= lo || p <= hi
	}
	var evals, nearFull, becameFull int64
	for ai, lo := range base {
		for bi, hi := range base {
			if lo == pi && hi == -pi {
				continue // empty
			}
			a := s1.IntervalFromEndpoints(lo, hi)
			if !a.IsValid() || a.IsEmpty() || a.IsFull() {
				continue
			}
			L := a.Length()
			m0s := []float64{(2*pi - L) / 2, pi - L/2, (2*pi - (a.Hi - a.Lo)) / 2}
			if a.Lo > a.Hi {
				m0s = append(m0s, (a.Lo-a.Hi)/2)
			}
			seen := map[float64]bool{}
			for _, m0 := range m0s {
				for k := -6; k <= 6; k++ {
					m := c19Ulp(m0, k)
					if m < 0 || seen[m] {
						continue
					}
					seen[m] = true
					cas := []int{ai, bi, int(math.Float64bits(m) % 1000003)}
					det := func() any {
						return map[string]any{"interval": c19S1Str(a), "margin": c19F(m), "length_plus_2margin": c19F(L + 2*m), "two_pi": c19F(2 * pi)}
					}
					c.Guard(sub, cas, det, func() {
						evals++
						r := a.Expanded(m)
						nearFull++
						if r.IsFull() {
							becameFull++
						}
						if !r.IsValid() || !c19S1Valid(r.Lo, r.Hi) {
							c.Violate(sub, "wrong-answer", "s1 Expanded returns an invalid interval", cas, map[string]any{"interval": c19S1Str(a), "margin": c19F(m), "got": c19S1Str(r)})
							return
						}
						probes := []float64{a.Lo, a.Hi, a.Center()}
						for _, p := range base {
							if inIv(a.Lo, a.Hi, p) {
								probes = append(probes, p)
							}
						}
						for _, p := range probes {
							if !inIv(r.Lo, r.Hi, p) || !r.Contains(p) {
								c.Violate(sub, "wrong-answer", "s1 Expanded(margin >= 0) loses a point of the interval when the expansion is full to within rounding (the endpoints' rounding errors make them cross)", cas,
									map[string]any{"interval": c19S1Str(a), "margin": c19F(m), "got": c19S1Str(r), "lost_point": c19F(p), "length_plus_2margin": c19F(L + 2*m), "two_pi": c19F(2 * pi)})
								return
							}
						}
					})
				}
			}
		}
	}
	// the same through the only exported user of s2.Rect's expansion: RectFromCenterSize expands the point
	// rectangle of the centre by half the size (Length 0, margin around π)
	for ci, ctr := range base {
		for k := -6; k <= 6; k++ {
			m := c19Ulp(pi, k)
			cas := []int{-1, ci, k}
			c.Guard(sub, cas, nil, func() {
				evals++
				r := s2.RectFromCenterSize(s2.LatLng{Lat: 0.25, Lng: s1.Angle(ctr)}, s2.LatLng{Lat: 0.2, Lng: s1.Angle(2 * m)})
				if !r.IsValid() || !r.Lng.Contains(ctr) || !inIv(r.Lng.Lo, r.Lng.Hi, ctr) {
					c.Violate(sub, "wrong-answer", "s2 RectFromCenterSize with a longitude size within rounding of 2π is invalid or does not contain its own centre", cas,
						map[string]any{"centre_lng": c19F(ctr), "size_lng": c19F(2 * m), "got_lng": c19S1Str(r.Lng)})
				}
			})
		}
	}
	c.Eval(int(evals))
	c.Nontrivial(int(nearFull))
	c.Count(sub+"/expansions", evals)
	c.Count(sub+"/results_full", becameFull)
	c.Note(sub, fmt.Sprintf("%d endpoint values, margins (2π-Length)/2 computed %d ways, ±6 ulps", len(base), 4))
}
