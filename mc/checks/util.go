package checks

// Helpers shared by several checks.  bin/check builds each property from
// registry.go + util*.go + that property's own cNN*.go files only, so a helper
// used by more than one check must live here.

import (
	"fmt"
	"math"
	"os"
	"os/exec"
	"regexp"
	"runtime"
	"strings"

	"github.com/golang/geo/s2"
	"github.com/golang/geo/verifshim/vsched"

	"verif/mc/core"
	"verif/mc/refmodel"
)

func ptStr(p s2.Point) string { return fmt.Sprintf("(%v,%v,%v)", p.X, p.Y, p.Z) }

// crossInt maps s2.Crossing to the reference convention (-1 DoNotCross, 0 MaybeCross, +1 Cross).
func crossInt(x s2.Crossing) int {
	switch x {
	case s2.Cross:
		return refmodel.Cross
	case s2.MaybeCross:
		return refmodel.MaybeCross
	}
	return refmodel.DoNotCross
}

func antipodal(a, b s2.Point) bool { return a.X == -b.X && a.Y == -b.Y && a.Z == -b.Z }

func ptsStr(p []s2.Point) []string {
	var s []string
	for _, x := range p {
		s = append(s, ptStr(x))
	}
	return s
}

func cosf(x float64) float64 { return math.Cos(x) }

func sinf(x float64) float64 { return math.Sin(x) }

func trunc(s string, n int) string {
	if len(s) > n {
		return s[:n] + "..."
	}
	return s
}

func firstDiff(a, b string) int {
	n := len(a)
	if len(b) < n {
		n = len(b)
	}
	for i := 0; i < n; i++ {
		if a[i] != b[i] {
			return i
		}
	}
	return n
}

func dumpKey(d s2.VerifIndexState) string {
	var sb strings.Builder
	fmt.Fprintf(&sb, "st=%d pend=%d map=%d|", d.Status, d.PendingAdditionsPos, d.MapLen)
	for _, c := range d.Cells {
		fmt.Fprintf(&sb, "%x:%v[", uint64(c.ID), c.InMap)
		for _, s := range c.Shapes {
			fmt.Fprintf(&sb, "%d%v%v;", s.ShapeID, s.ContainsCenter, s.Edges)
		}
		sb.WriteString("]")
	}
	return sb.String()
}

// c14Harness is the per-process harness state shared with the access hook.
type c14Harness struct {
	reached []bool
	wrote   []bool
	writes  int
}

var c14H *c14Harness

func callerDesc() string {
	// innermost s2 function, plus the first caller that is not a method of the
	// index or its iterator (the code that is responsible for the access).
	pc := make([]uintptr, 16)
	n := runtime.Callers(4, pc)
	frames := runtime.CallersFrames(pc[:n])
	inner, outer := "", ""
	for {
		f, more := frames.Next()
		name := f.Function
		if !strings.Contains(name, "golang/geo/s2.") {
			break
		}
		name = name[strings.LastIndex(name, "/s2.")+4:]
		if inner == "" {
			inner = name
		}
		if !strings.HasPrefix(name, "(*ShapeIndex)") && !strings.HasPrefix(name, "(*ShapeIndexIterator)") {
			outer = name
			break
		}
		if !more {
			break
		}
	}
	if outer == "" {
		return inner
	}
	return inner + " via " + outer
}

func installAccessHook() {
	s2.VerifAccessHook = func(ix *s2.ShapeIndex, loc uint8, write bool) {
		e := vsched.Active()
		if e == nil {
			return
		}
		if h := c14H; h != nil {
			t := e.CurrentThread()
			if t >= 0 && t < len(h.reached) {
				h.reached[t] = true
				if write && loc == 0 {
					h.wrote[t] = true
					h.writes++
				}
			}
		}
		e.Access(ix, int(loc), write, callerDesc())
	}
}

var reThread = regexp.MustCompile(`\(T\d+\)|T\d+: `)

func canonDesc(kind, desc string) string {
	if kind == "panic" {
		first := desc
		if i := strings.Index(desc, "\n"); i > 0 {
			first = desc[:i]
		}
		first = reThread.ReplaceAllString(first, "")
		return first + " at " + core.GeoFrame(desc)
	}
	return strings.TrimSpace(reThread.ReplaceAllString(desc, ""))
}

func runWorkerProc(args ...string) (string, string, error) { return runWorkerBin("", args...) }

// runWorkerBin runs a worker of the given binary ("" = this binary).
func runWorkerBin(exe string, args ...string) (string, string, error) {
	if exe == "" {
		exe, _ = os.Executable()
	}
	cmd := exec.Command(exe, append([]string{"worker"}, args...)...)
	var so, se strings.Builder
	cmd.Stdout = &so
	cmd.Stderr = &se
	err := cmd.Run()
	return so.String(), se.String(), err
}

func tail(s string, n int) string {
	if len(s) > n {
		return s[len(s)-n:]
	}
	return s
}

func ll(lat, lng float64) s2.Point { return s2.PointFromLatLng(s2.LatLngFromDegrees(lat, lng)) }

// polyLoops returns the vertex loops (one per chain) of a dimension-2 shape.
func polyLoops(s s2.Shape) [][]s2.Point {
	var out [][]s2.Point
	for i := 0; i < s.NumChains(); i++ {
		ch := s.Chain(i)
		var v []s2.Point
		for j := 0; j < ch.Length; j++ {
			v = append(v, s.Edge(ch.Start+j).V0)
		}
		out = append(out, v)
	}
	return out
}
