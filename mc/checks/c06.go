package checks

import (
	"fmt"
	"sort"

	"github.com/golang/geo/r2"
	"github.com/golang/geo/r3"
	"github.com/golang/geo/s1"
	"github.com/golang/geo/s2"

	"verif/mc/core"
	"verif/mc/exact"
	"verif/mc/lattice"
	"verif/mc/refmodel"
)

// C06 — spatial-index queries return exactly what brute force over all edges
// returns; every shape exposes one edge set.

func init() {
	Registry["C06"] = &Check{Level: "exploration", QuickBudget: 200, ThoroughBudget: 1500, Run: runC06}
}

type c06Shape struct {
	name string
	mk   func() s2.Shape
	// loops of a dimension-2 shape for the exact containment reference (nil otherwise)
	loops func(s s2.Shape) [][]s2.Point
	// flip: an odd number of the loops is given clockwise (holes of a lax polygon), so the XOR of the
	// per-loop reference containments is the complement of the shape's interior
	flip bool
}

func c06ShapesAt(pos string, ctr s2.Point, c *core.Ctx) []c06Shape {
	d := lattice.Deg
	loopPts := func(l *s2.Loop) []s2.Point { return append([]s2.Point(nil), l.Vertices()...) }
	shapes := []c06Shape{
		{"Polygon40@" + pos, func() s2.Shape { return s2.PolygonFromLoops([]*s2.Loop{s2.RegularLoop(ctr, d(8), 40)}) }, polyLoops, false},
		{"Loop33@" + pos, func() s2.Shape { return s2.RegularLoop(ctr, d(6), 33) }, polyLoops, false},
		{"LaxPolygon3loops@" + pos, func() s2.Shape {
			return s2.LaxPolygonFromPoints([][]s2.Point{
				loopPts(s2.RegularLoop(ctr, d(9), 12)),
				func() []s2.Point { // a hole: reversed
					v := loopPts(s2.RegularLoop(ctr, d(3), 7))
					for i, j := 0, len(v)-1; i < j; i, j = i+1, j-1 {
						v[i], v[j] = v[j], v[i]
					}
					return v
				}(),
				loopPts(s2.RegularLoop(s2.Point{Vector: ctr.Add(s2.Ortho(ctr).Mul(0.4)).Normalize()}, d(4), 9)),
			})
		}, polyLoops, true},
		{"LaxPolygon1loop@" + pos, func() s2.Shape { return s2.LaxPolygonFromPoints([][]s2.Point{loopPts(s2.RegularLoop(ctr, d(5), 11))}) }, polyLoops, false},
		{"LaxLoop@" + pos, func() s2.Shape { return s2.LaxLoopFromPoints(loopPts(s2.RegularLoop(ctr, d(7), 21))) }, polyLoops, false},
		{"Polyline@" + pos, func() s2.Shape {
			l := s2.RegularLoop(ctr, d(10), 14)
			pl := s2.Polyline(append([]s2.Point{ctr}, l.Vertices()[:9]...))
			return &pl
		}, nil, false},
		{"LaxPolyline@" + pos, func() s2.Shape {
			l := s2.RegularLoop(ctr, d(4), 9)
			return s2.LaxPolylineFromPoints(append(l.Vertices()[:5:5], ctr, l.Vertex(7)))
		}, nil, false},
		{"PointVector@" + pos, func() s2.Shape {
			l := s2.RegularLoop(ctr, d(8), 40)
			pv := s2.PointVector{ctr, l.Vertex(0), l.Vertex(7), s2.Point{Vector: ctr.Mul(-1)}}
			return &pv
		}, nil, false},
	}
	if !c.Quick() {
		shapes = append(shapes, c06Shape{"Polygon100@" + pos, func() s2.Shape { return s2.PolygonFromLoops([]*s2.Loop{s2.RegularLoop(ctr, d(30), 100)}) }, polyLoops, false})
	}
	return shapes
}

type c06Coll struct {
	name   string
	shapes []c06Shape
}

func c06Collections(c *core.Ctx) []c06Coll {
	cs := lattice.Centres()
	order := core.Pick(c, []string{"face-centre", "cube-corner", "face-edge"}, []string{"face-centre", "cube-corner", "face-edge", "north-pole", "generic", "south-ish"})
	var out []c06Coll
	for _, pos := range order {
		sh := c06ShapesAt(pos, cs[pos], c)
		for _, s := range sh {
			out = append(out, c06Coll{"single:" + s.name, []c06Shape{s}})
		}
		out = append(out, c06Coll{"all@" + pos, sh})
		out = append(out, c06Coll{"polygon+polyline+points@" + pos, []c06Shape{sh[0], sh[5], sh[7]}})
		out = append(out, c06Coll{"overlapping-polygons@" + pos, []c06Shape{sh[0], sh[1], sh[2], sh[4]}})
	}
	// a collection spanning all six faces
	var six []c06Shape
	for i, pos := range []string{"face-centre", "north-pole", "south-ish", "generic"} {
		six = append(six, c06ShapesAt(pos, cs[pos], c)[i%3])
	}
	neg := s2.Point{Vector: cs["face-centre"].Mul(-1)}
	six = append(six, c06ShapesAt("antipode", neg, c)[0], c06ShapesAt("y-axis", lattice.LL(0, 90), c)[3], c06ShapesAt("-y-axis", lattice.LL(0, -90), c)[1])
	out = append(out, c06Coll{"six-faces", six})
	// edges lying on index-cell boundaries: cell loops as lax polygons
	f := s2.CellIDFromFace(1)
	var cellShapes []c06Shape
	for i, id := range []s2.CellID{f.Children()[0], f.Children()[1].Children()[2], f.Children()[3]} {
		id := id
		cellShapes = append(cellShapes, c06Shape{fmt.Sprintf("cell-loop-%d", i), func() s2.Shape { return s2.LoopFromCell(s2.CellFromCellID(id)) }, polyLoops, false})
	}
	out = append(out, c06Coll{"cell-boundary-loops", cellShapes})
	// polygons with an edge that crosses a whole cube face without having a vertex on it
	// ((10,40) on face 0 to (2,140) on face 3 runs across face 1): the cell relations of cells on the
	// middle face depend on an edge none of whose endpoints is on that face
	for i, tri := range [][3][2]float64{{{10, 40}, {2, 140}, {-40, 90}}, {{10, 40}, {2, 140}, {60, 90}}} {
		tri := tri
		mkLoop := func() *s2.Loop {
			l := s2.LoopFromPoints([]s2.Point{lattice.LL(tri[0][0], tri[0][1]), lattice.LL(tri[1][0], tri[1][1]), lattice.LL(tri[2][0], tri[2][1])})
			l.Normalize()
			return l
		}
		out = append(out, c06Coll{fmt.Sprintf("three-face-edge-%d", i), []c06Shape{
			{"polygon with an edge across face 1", func() s2.Shape { return s2.PolygonFromLoops([]*s2.Loop{mkLoop()}) }, polyLoops, false},
			{"loop with an edge across face 1", func() s2.Shape { return mkLoop() }, polyLoops, false},
		}})
	}
	// a small dense loop inside a loop that covers whole cube faces: while the index is built the
	// interior tracker is inside a shape across ranges of cells that hold no edges at all, and the
	// first cell with edges after such a range may start exactly where the range ends
	lats := core.Pick(c, []float64{-62, 20.453536800003633, 47}, []float64{-62, -20.45, 20.453536800003633, 47, 73})
	lngs := core.Pick(c, []float64{-170, -0.5780515406487723, 33, 101}, []float64{-170, -95, -0.5780515406487723, 33, 101, 160})
	for _, la := range lats {
		for _, lo := range lngs {
			for _, r := range []float64{0.38983608926036684, 0.07} {
				ctr := lattice.LL(la, lo)
				r := r
				out = append(out, c06Coll{fmt.Sprintf("small-loop-inside-huge-loop@%g,%g r=%g", la, lo, r), []c06Shape{
					{"huge 12-gon (radius 150 deg)", func() s2.Shape { return s2.RegularLoop(ctr, s1.Degree*150, 12) }, polyLoops, false},
					{"small 48-gon", func() s2.Shape { return s2.RegularLoop(ctr, s1.Angle(r)*s1.Degree, 48) }, polyLoops, false},
				}})
			}
		}
	}
	return out
}

func isVertexOf(s s2.Shape, p s2.Point) bool {
	for e := 0; e < s.NumEdges(); e++ {
		ed := s.Edge(e)
		if ed.V0 == p || ed.V1 == p {
			return true
		}
	}
	return false
}

func runC06(c *core.Ctx) {
	c.Rule = "for every shape collection (each of Polygon, Loop, LaxPolygon with 1 and 3 loops, LaxLoop, Polyline, LaxPolyline, PointVector alone and in mixes, at a face centre / face edge / cube corner / poles, one collection on all six faces, one with edges on cell boundaries): (1) the Shape contract on every edge id; (2) ContainsPointQuery in the three vertex models on every probe (all vertices, edge midpoints, centres and corners of the index's own cells, far points) against the documented model evaluated by exact crossing parity over all edges; (3) CrossingEdgeQuery.Crossings / CrossingsEdgeMap for every pair of a per-index point alphabet against the exact crossing test on every edge; (4) structural invariants of the index dump (sorted, disjoint, every edge witness listed in the cell that contains it, containsCenter); (5) ContainsCell / IntersectsCell of polygons and loops on their own index cells, parents and children, one-sided; non-trivial = probes that are vertices or lie on edges, query edges that touch a vertex"
	c.Assume = []string{
		"vertex models as documented in contains_point_query.go: Open = interior only, Closed = all shapes contain their vertices, SemiOpen = crossing parity for polygons and nothing for points/polylines",
		"one-sided cell predicates are asserted with strictly interior probes only",
	}
	colls := c06Collections(c)
	c.Note("catalogue_collections", len(colls))
	corner := c06CornerCollections(c)
	c.Note("corner_lattice_collections", len(corner))
	colls = append(colls, corner...)
	c.ParallelFor(len(colls), func(ci int) {
		if c.Expired() {
			return
		}
		co := colls[ci]
		ix := s2.NewShapeIndex()
		var shapes []s2.Shape
		var refs [][]*refmodel.Loop
		var flips []bool
		for _, sd := range co.shapes {
			flips = append(flips, sd.flip)
			s := sd.mk()
			shapes = append(shapes, s)
			ix.Add(s)
			var rl []*refmodel.Loop
			if sd.loops != nil {
				for _, v := range sd.loops(s) {
					rl = append(rl, refmodel.NewLoop(v))
				}
			}
			refs = append(refs, rl)
		}
		// (1) shape contract
		for si, s := range shapes {
			c.Guard("shape-contract", []int{ci, si}, func() any { return map[string]any{"shape": co.shapes[si].name} }, func() {
				covered := make([]int, s.NumEdges())
				for ch := 0; ch < s.NumChains(); ch++ {
					chn := s.Chain(ch)
					for j := 0; j < chn.Length; j++ {
						e := chn.Start + j
						if e < 0 || e >= s.NumEdges() {
							c.Violate("shape-contract", "wrong-answer", fmt.Sprintf("%T: Chain(i).Start+j is not a valid edge id", s), []int{ci, si}, map[string]any{"shape": co.shapes[si].name, "chain": ch, "offset": j})
							continue
						}
						covered[e]++
						if s.ChainEdge(ch, j) != s.Edge(e) {
							c.Violate("shape-contract", "wrong-answer", fmt.Sprintf("%T: ChainEdge(i,j) differs from Edge(Chain(i).Start+j)", s), []int{ci, si}, map[string]any{"shape": co.shapes[si].name, "chain": ch, "offset": j})
						}
					}
				}
				for e := 0; e < s.NumEdges(); e++ {
					c.Eval(1)
					if covered[e] != 1 {
						c.Violate("shape-contract", "wrong-answer", fmt.Sprintf("%T: chains do not partition the edge ids", s), []int{ci, si}, map[string]any{"shape": co.shapes[si].name, "edge": e, "times": covered[e]})
					}
					cp := s.ChainPosition(e)
					ok := cp.ChainID >= 0 && cp.ChainID < s.NumChains() && cp.Offset >= 0 && cp.Offset < s.Chain(cp.ChainID).Length
					if !ok || s.Chain(cp.ChainID).Start+cp.Offset != e {
						c.Violate("shape-contract", "wrong-answer", fmt.Sprintf("%T: ChainPosition(e) does not invert chain lookup", s), []int{ci, si}, map[string]any{"shape": co.shapes[si].name, "edge": e, "position": fmt.Sprint(cp)})
					} else if s.ChainEdge(cp.ChainID, cp.Offset) != s.Edge(e) {
						c.Violate("shape-contract", "wrong-answer", fmt.Sprintf("%T: Edge(e) differs from ChainEdge(ChainPosition(e))", s), []int{ci, si}, map[string]any{"shape": co.shapes[si].name, "edge": e})
					}
				}
			})
		}
		ix.Build()
		dump := ix.VerifIndexDump()
		// probes
		var probes []s2.Point
		for _, s := range shapes {
			n := s.NumEdges()
			for e := 0; e < n; e++ {
				ed := s.Edge(e)
				probes = append(probes, ed.V0, ed.V1)
				if e%3 == 0 && ed.V0 != ed.V1 {
					probes = append(probes, s2.Interpolate(0.5, ed.V0, ed.V1))
				}
			}
		}
		for k, cell := range dump.Cells {
			probes = append(probes, cell.ID.Point())
			if k%4 == 0 {
				cl := s2.CellFromCellID(cell.ID)
				probes = append(probes, cl.Vertex(0), cl.Vertex(2))
			}
		}
		probes = append(probes, lattice.LL(-33, 77), s2.OriginPoint())
		probes = lattice.Dedup(probes)
		models := []s2.VertexModel{s2.VertexModelOpen, s2.VertexModelSemiOpen, s2.VertexModelClosed}
		mname := []string{"Open", "SemiOpen", "Closed"}
		var evals, nontriv int64
		for mi, model := range models {
			q := s2.NewContainsPointQuery(ix, model)
			for pi, p := range probes {
				if c.Skip("contains-point-query", ci, mi, pi) {
					continue
				}
				evals++
				cas := []int{ci, mi, pi}
				detail := func() any { return map[string]any{"collection": co.name, "model": mname[mi], "p": ptStr(p)} }
				c.Guard("contains-point-query", cas, detail, func() {
					anyWant := false
					var wantIDs []int
					for si, s := range shapes {
						isV := isVertexOf(s, p)
						var want bool
						switch {
						case s.Dimension() < 2:
							want = model == s2.VertexModelClosed && isV
						case isV && model == s2.VertexModelOpen:
							want = false
						case isV && model == s2.VertexModelClosed:
							want = true
						default:
							want = refmodel.PolygonContains(refs[si], p) != flips[si]
						}
						if isV {
							nontriv++
						}
						if want {
							anyWant = true
							wantIDs = append(wantIDs, si)
						}
						if got := q.ShapeContains(s, p); got != want {
							c.Violate("contains-point-query", "wrong-answer", fmt.Sprintf("ShapeContains (%s model, %T, dimension %d) differs from brute force over all edges", mname[mi], s, s.Dimension()), cas, detail())
						}
					}
					if got := q.Contains(p); got != anyWant {
						c.Violate("contains-point-query", "wrong-answer", fmt.Sprintf("Contains (%s model) differs from brute force over all shapes", mname[mi]), cas, detail())
					}
					var gotIDs []int
					for _, s := range q.ContainingShapes(p) {
						for si := range shapes {
							if shapes[si] == s {
								gotIDs = append(gotIDs, si)
							}
						}
					}
					sort.Ints(gotIDs)
					if fmt.Sprint(gotIDs) != fmt.Sprint(wantIDs) {
						c.Violate("contains-point-query", "wrong-answer", fmt.Sprintf("ContainingShapes (%s model) differs from brute force over all shapes", mname[mi]), cas, map[string]any{"collection": co.name, "p": ptStr(p), "got": gotIDs, "want": wantIDs})
					}
				})
			}
		}
		// (3) crossing edge query
		var alpha []s2.Point
		for si, s := range shapes {
			if s.NumEdges() > 0 {
				alpha = append(alpha, s.Edge(0).V0)
				if si%2 == 0 {
					alpha = append(alpha, s.Edge(s.NumEdges()/2).V1)
				}
			}
		}
		if len(dump.Cells) > 0 {
			cl := s2.CellFromCellID(dump.Cells[len(dump.Cells)/2].ID)
			alpha = append(alpha, cl.Vertex(1), cl.Center())
		}
		if len(shapes) > 0 && shapes[0].NumEdges() > 0 {
			ctr := shapes[0].Edge(0).V0
			alpha = append(alpha, s2.Point{Vector: ctr.Add(s2.Ortho(ctr).Mul(0.5)).Normalize()}, s2.Point{Vector: ctr.Sub(s2.Ortho(ctr).Mul(0.5)).Normalize()})
		}
		alpha = append(alpha, lattice.LL(5, 170), lattice.LL(-80, 10))
		alpha = lattice.Dedup(alpha)
		if len(alpha) > core.Pick(c, 10, 14) {
			alpha = alpha[:core.Pick(c, 10, 14)]
		}
		cq := s2.NewCrossingEdgeQuery(ix)
		for ai := range alpha {
			for bi := range alpha {
				a, b := alpha[ai], alpha[bi]
				if ai == bi || antipodal(a, b) || c.Skip("crossing-edge-query", ci, ai, bi) {
					continue
				}
				evals++
				cas := []int{ci, ai, bi}
				detail := func() any { return map[string]any{"collection": co.name, "a": ptStr(a), "b": ptStr(b)} }
				c.Guard("crossing-edge-query", cas, detail, func() {
					for ti, ct := range []s2.CrossingType{s2.CrossingTypeInterior, s2.CrossingTypeAll} {
						em := cq.CrossingsEdgeMap(a, b, ct)
						for si, s := range shapes {
							var want []int
							for e := 0; e < s.NumEdges(); e++ {
								ed := s.Edge(e)
								cs := refmodel.CrossingSign(a, b, ed.V0, ed.V1)
								if cs == refmodel.Cross || (ti == 1 && cs == refmodel.MaybeCross) {
									want = append(want, e)
								}
								if cs == refmodel.MaybeCross {
									nontriv++
								}
							}
							got := append([]int(nil), cq.Crossings(a, b, s, ct)...)
							sort.Ints(got)
							if fmt.Sprint(got) != fmt.Sprint(want) {
								c.Violate("crossing-edge-query", "wrong-answer", fmt.Sprintf("Crossings (%T, crossing type %d) differs from the exact crossing test on every edge", s, ti), cas, map[string]any{"collection": co.name, "a": ptStr(a), "b": ptStr(b), "shape": co.shapes[si].name, "got": got, "want": want})
							}
							gm := append([]int(nil), em[s]...)
							sort.Ints(gm)
							if fmt.Sprint(gm) != fmt.Sprint(want) {
								c.Violate("crossing-edge-query", "wrong-answer", fmt.Sprintf("CrossingsEdgeMap (%T, crossing type %d) differs from the exact crossing test on every edge", s, ti), cas, map[string]any{"collection": co.name, "a": ptStr(a), "b": ptStr(b), "shape": co.shapes[si].name, "got": gm, "want": want})
							}
						}
					}
				})
			}
		}
		// (4) structural invariants
		c06Structure(c, ci, co, shapes, refs, flips, dump)
		// (5) cell relations of polygons / loops on their own index cells
		for si, s := range shapes {
			type cellRegion interface {
				ContainsCell(s2.Cell) bool
				IntersectsCell(s2.Cell) bool
			}
			reg, ok := s.(cellRegion)
			if !ok || len(refs[si]) == 0 {
				continue
			}
			var own *s2.ShapeIndex
			switch t := s.(type) {
			case *s2.Loop:
				own = t.VerifIndex()
			case *s2.Polygon:
				own = t.VerifIndex()
			}
			if own == nil {
				continue
			}
			own.Build()
			od := own.VerifIndexDump()
			var cells []s2.CellID
			for _, oc := range od.Cells {
				cells = append(cells, oc.ID)
				if oc.ID.Level() > 0 {
					cells = append(cells, oc.ID.Parent(oc.ID.Level()-1))
				}
				if oc.ID.Level() < 29 {
					cells = append(cells, oc.ID.Children()[0], oc.ID.Children()[3])
				}
			}
			for k, id := range cells {
				if c.Skip("cell-relations", ci, si, k) {
					continue
				}
				evals++
				cell := s2.CellFromCellID(id)
				cas := []int{ci, si, k}
				detail := func() any { return map[string]any{"shape": co.shapes[si].name, "cell": id.String()} }
				c.Guard("cell-relations", cas, detail, func() {
					contains, intersects := reg.ContainsCell(cell), reg.IntersectsCell(cell)
					if contains && !intersects {
						c.Violate("cell-relations", "wrong-answer", "ContainsCell is true but IntersectsCell is false", cas, detail())
					}
					// strictly interior probes of the cell
					var in []s2.Point
					in = append(in, cell.Center())
					if id.Level() < 29 {
						for _, ch := range id.Children() {
							in = append(in, ch.Point())
						}
					}
					for _, p := range in {
						inside := refmodel.PolygonContains(refs[si], p) != flips[si]
						if contains && !inside {
							c.Violate("cell-relations", "wrong-answer", "ContainsCell is true but an interior point of the cell is outside the shape", cas, detail())
						}
						if !intersects && inside {
							c.Violate("cell-relations", "wrong-answer", "IntersectsCell is false but an interior point of the cell is inside the shape", cas, detail())
						}
					}
				})
			}
		}
		c.Eval(int(evals))
		c.Nontrivial(int(nontriv))
		if ci%9 == 0 {
			c.Sample(map[string]any{"collection": co.name, "shapes": len(shapes), "index_cells": len(dump.Cells), "probes": len(probes), "query_edge_alphabet": len(alpha)})
		}
	})
	if c.Expired() {
		c.CapHit("collection sweep: wall budget reached")
	}
	c06IndexHistories(c)
}

func c06Structure(c *core.Ctx, ci int, co c06Coll, shapes []s2.Shape, refs [][]*refmodel.Loop, flips []bool, dump s2.VerifIndexState) {
	cells := dump.Cells
	for k := range cells {
		if !cells[k].InMap {
			c.Violate("index-structure", "wrong-answer", "a cell id listed in the index has no cell contents", []int{ci, k}, map[string]any{"collection": co.name})
		}
		if k > 0 && !(cells[k-1].ID.RangeMax() < cells[k].ID.RangeMin()) {
			c.Violate("index-structure", "wrong-answer", "index cells are not sorted and disjoint", []int{ci, k}, map[string]any{"collection": co.name, "cell": cells[k].ID.String()})
		}
	}
	find := func(leaf s2.CellID) int {
		i := sort.Search(len(cells), func(i int) bool { return cells[i].ID.RangeMax() >= leaf })
		if i < len(cells) && cells[i].ID.RangeMin() <= leaf {
			return i
		}
		return -1
	}
	listed := func(k, si, e int) bool {
		for _, cs := range cells[k].Shapes {
			if int(cs.ShapeID) == si {
				for _, x := range cs.Edges {
					if x == e {
						return true
					}
				}
			}
		}
		return false
	}
	var witnesses, centres int64
	for si, s := range shapes {
		for e := 0; e < s.NumEdges(); e++ {
			ed := s.Edge(e)
			for j := 0; j <= 16; j++ {
				var w s2.Point
				if ed.V0 == ed.V1 {
					w = ed.V0
					if j > 0 {
						break
					}
				} else {
					w = s2.Interpolate(float64(j)/16, ed.V0, ed.V1)
				}
				witnesses++
				k := find(s2.CellFromPoint(w).ID())
				if k < 0 {
					// tolerate rounding: some 1-ulp neighbour's leaf must be covered
					ok := false
					for _, w2 := range lattice.PUlp(w, 1) {
						if find(s2.CellFromPoint(w2).ID()) >= 0 {
							ok = true
							break
						}
					}
					if !ok {
						c.Violate("index-structure", "wrong-answer", "a point of an indexed edge is not covered by any index cell", []int{ci, si, e, j}, map[string]any{"collection": co.name, "shape": co.shapes[si].name, "edge": e, "point": ptStr(w)})
					}
					continue
				}
				// w strictly inside the cell's uv rectangle (margin 1e-12) => the edge must be listed there
				cell := s2.CellFromCellID(cells[k].ID)
				f, u, v := s2XYZToFaceUV(w)
				if f != cell.Face() {
					continue
				}
				b := cell.BoundUV()
				if !b.ExpandedByMargin(-1e-12).ContainsPoint(r2.Point{X: u, Y: v}) {
					continue
				}
				if !listed(k, si, e) {
					c.Violate("index-structure", "wrong-answer", "an edge is not listed in an index cell that contains one of its points", []int{ci, si, e, j}, map[string]any{"collection": co.name, "shape": co.shapes[si].name, "edge": e, "cell": cells[k].ID.String()})
				}
			}
		}
	}
	// exact version of "an edge is listed in every index cell it meets": within a face a geodesic is a
	// straight segment in (u,v), so "segment meets the closed cell rectangle" is decided exactly
	// (bounding intervals by exact comparisons, the separating-line test by exact determinants).
	var exactPairs, exactMeet int64
	for si, s := range shapes {
		for e := 0; e < s.NumEdges(); e++ {
			ed := s.Edge(e)
			fa, _, _ := s2XYZToFaceUV(ed.V0)
			fb, _, _ := s2XYZToFaceUV(ed.V1)
			if fa != fb {
				continue
			}
			A, B := faceCoords(fa, ed.V0), faceCoords(fa, ed.V1)
			if A.Comp(2).Sign() <= 0 || B.Comp(2).Sign() <= 0 {
				continue
			}
			for k := range cells {
				if cells[k].ID.Face() != fa {
					continue
				}
				exactPairs++
				b := s2.CellFromCellID(cells[k].ID).BoundUV()
				if !segmentMeetsRect(A, B, b) {
					continue
				}
				exactMeet++
				if !listed(k, si, e) {
					c.Violate("index-structure", "wrong-answer", "an edge is not listed in an index cell although the exact edge meets the exact cell", []int{ci, si, e, k}, map[string]any{"collection": co.name, "shape": co.shapes[si].name, "edge": e, "cell": cells[k].ID.String(), "v0": ptStr(ed.V0), "v1": ptStr(ed.V1)})
				}
			}
		}
	}
	c.Count("structure/exact_edge_cell_pairs", exactPairs)
	c.Count("structure/exact_edge_meets_cell", exactMeet)
	// containsCenter for every dimension-2 shape in every cell
	for k, cell := range cells {
		ctr := cell.ID.Point()
		for si := range shapes {
			if len(refs[si]) == 0 {
				continue
			}
			centres++
			want := refmodel.PolygonContains(refs[si], ctr) != flips[si]
			got := false
			present := false
			for _, cs := range cell.Shapes {
				if int(cs.ShapeID) == si {
					present = true
					got = cs.ContainsCenter
				}
			}
			if got != want {
				c.Violate("index-structure", "wrong-answer", "containsCenter differs from the exact containment of the cell centre", []int{ci, k, si}, map[string]any{"collection": co.name, "shape": co.shapes[si].name, "cell": cell.ID.String(), "present": present})
			}
		}
	}
	c.Eval(int(witnesses + centres))
	c.Count("structure/edge_witnesses", witnesses)
	c.Count("structure/cell_centres", centres)
	c.Count("structure/index_cells", int64(len(cells)))
}

// s2XYZToFaceUV is the face projection (independent of golang/geo's internals).
func s2XYZToFaceUV(p s2.Point) (int, float64, float64) {
	ax, ay, az := abs64(p.X), abs64(p.Y), abs64(p.Z)
	switch {
	case ax >= ay && ax >= az:
		if p.X > 0 {
			return 0, p.Y / p.X, p.Z / p.X
		}
		return 3, p.Z / p.X, p.Y / p.X
	case ay >= az:
		if p.Y > 0 {
			return 1, -p.X / p.Y, p.Z / p.Y
		}
		return 4, p.Z / p.Y, -p.X / p.Y
	}
	if p.Z > 0 {
		return 2, -p.X / p.Z, -p.Y / p.Z
	}
	return 5, -p.Y / p.Z, -p.X / p.Z
}

func abs64(x float64) float64 {
	if x < 0 {
		return -x
	}
	return x
}

// faceCoords returns p in the (u,v,w) frame of the face, exactly (the axes are signed unit axes).
func faceCoords(face int, p s2.Point) exact.V {
	var v r3.Vector
	switch face {
	case 0:
		v = r3.Vector{X: p.Y, Y: p.Z, Z: p.X}
	case 1:
		v = r3.Vector{X: -p.X, Y: p.Z, Z: p.Y}
	case 2:
		v = r3.Vector{X: -p.X, Y: -p.Y, Z: p.Z}
	case 3:
		v = r3.Vector{X: -p.Z, Y: -p.Y, Z: -p.X}
	case 4:
		v = r3.Vector{X: -p.Z, Y: p.X, Z: -p.Y}
	default:
		v = r3.Vector{X: p.Y, Y: p.X, Z: -p.Z}
	}
	return exact.FromVector(v)
}

// segmentMeetsRect decides exactly whether the segment from A to B (homogeneous face coordinates with
// w > 0, i.e. the points (U/W, V/W)) meets the closed rectangle.
func segmentMeetsRect(A, B exact.V, b r2.Rect) bool {
	ge := func(P exact.V, comp int, lim float64) bool { // coordinate >= lim
		return P.Comp(comp).Cmp(exact.FromFloat(lim).Mul(P.Comp(2))) >= 0
	}
	le := func(P exact.V, comp int, lim float64) bool {
		return P.Comp(comp).Cmp(exact.FromFloat(lim).Mul(P.Comp(2))) <= 0
	}
	if !(ge(A, 0, b.X.Lo) || ge(B, 0, b.X.Lo)) || !(le(A, 0, b.X.Hi) || le(B, 0, b.X.Hi)) ||
		!(ge(A, 1, b.Y.Lo) || ge(B, 1, b.Y.Lo)) || !(le(A, 1, b.Y.Hi) || le(B, 1, b.Y.Hi)) {
		return false
	}
	pos, neg := false, false
	for _, cu := range []float64{b.X.Lo, b.X.Hi} {
		for _, cv := range []float64{b.Y.Lo, b.Y.Hi} {
			c := exact.FromVector(r3.Vector{X: cu, Y: cv, Z: 1})
			switch exact.Det3(A, B, c).Sign() {
			case 1:
				pos = true
			case -1:
				neg = true
			default:
				return true // a corner lies exactly on the line and the intervals overlap
			}
		}
	}
	return pos && neg
}

// c06CornerCollections: a lattice aimed at the padding bands of the index.  A parent cell is forced
// to be subdivided by filler edges deep inside its grandchildren; one more edge E = (A, P) ends at a
// point P placed on a grid of offsets of a fraction of the cell padding around the common corner of
// the four children, and arrives from each of eight directions (steep and shallow slopes).
func c06CornerCollections(c *core.Ctx) []c06Coll {
	const padding = 2 * (0.5*2.220446049250313e-16 + 4.5*2.220446049250313e-16) // cellPadding of shapeindex.go
	parents := []s2.CellID{s2.CellIDFromFace(0), s2.CellIDFromFace(3).Children()[2], s2.CellIDFromFace(1).Children()[1].Children()[3].Children()[0]}
	if !c.Quick() {
		parents = append(parents, s2.CellIDFromFace(4).Children()[0].Children()[0].Children()[2].Children()[1].Children()[3], s2.CellIDFromFace(2).Children()[2].Children()[1], s2.CellIDFromFace(5))
	}
	offs := core.Pick(c, []float64{-1, -0.25, 0.25, 1}, []float64{-2, -1, -0.5, -0.25, 0, 0.25, 0.5, 1, 2})
	dirs := [][2]float64{{0.25, -1}, {-0.25, -1}, {0.25, 1}, {-0.25, 1}, {1, 0.25}, {1, -0.25}, {-1, 0.25}, {-1, -0.25}}
	var out []c06Coll
	for pi, parent := range parents {
		face := parent.Face()
		cell := s2.CellFromCellID(parent)
		b := cell.BoundUV()
		cu, cv := 0.5*(b.X.Lo+b.X.Hi), 0.5*(b.Y.Lo+b.Y.Hi)
		// the exact split point used by the index is the (u,v) of the cell's centre in (s,t); take it
		// from the children instead of assuming the uv midpoint
		ch := s2.CellFromCellID(parent.Children()[0]).BoundUV()
		for _, x := range []float64{ch.X.Lo, ch.X.Hi} {
			if x != b.X.Lo && x != b.X.Hi {
				cu = x
			}
		}
		for _, y := range []float64{ch.Y.Lo, ch.Y.Hi} {
			if y != b.Y.Lo && y != b.Y.Hi {
				cv = y
			}
		}
		w := 0.25 * (b.X.Hi - b.X.Lo)
		mk := func(u, v float64) s2.Point {
			return s2.Point{Vector: faceUVToXYZ(face, u, v).Normalize()}
		}
		var filler []c06Shape
		for _, child := range parent.Children() {
			for _, gc := range child.Children() {
				gc := gc
				filler = append(filler, c06Shape{"filler", func() s2.Shape {
					pl := s2.Polyline{gc.Point(), gc.Children()[0].Point()}
					return &pl
				}, nil, false})
			}
		}
		for oi, du := range offs {
			for oj, dv := range offs {
				for di, d := range dirs {
					P := mk(cu+du*padding, cv+dv*padding)
					A := mk(cu+du*padding+d[0]*w, cv+dv*padding+d[1]*w)
					shapes := append([]c06Shape(nil), filler...)
					shapes = append(shapes, c06Shape{"probe-edge", func() s2.Shape { pl := s2.Polyline{A, P}; return &pl }, nil, false})
					out = append(out, c06Coll{fmt.Sprintf("corner-lattice(parent %d, offset %d,%d, direction %d)", pi, oi, oj, di), shapes})
				}
			}
		}
	}
	return out
}

func faceUVToXYZ(face int, u, v float64) r3.Vector {
	switch face {
	case 0:
		return r3.Vector{X: 1, Y: u, Z: v}
	case 1:
		return r3.Vector{X: -u, Y: 1, Z: v}
	case 2:
		return r3.Vector{X: -u, Y: -v, Z: 1}
	case 3:
		return r3.Vector{X: -1, Y: -v, Z: -u}
	case 4:
		return r3.Vector{X: v, Y: -1, Z: -u}
	}
	return r3.Vector{X: v, Y: u, Z: -1}
}
