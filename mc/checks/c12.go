package checks

import (
	"fmt"
	"math"
	"sync"
	"sync/atomic"

	"github.com/golang/geo/r1"
	"github.com/golang/geo/r2"
	"github.com/golang/geo/r3"
	"github.com/golang/geo/s1"
	"github.com/golang/geo/s2"

	"verif/mc/core"
	"verif/mc/exact"
	"verif/mc/lattice"
	"verif/mc/refmodel"
)

// C12 — cell geometry agrees with cell ids: containment, children, bounds,
// distances, PaddedCell (engine E3: bounded-exhaustive enumeration against the
// cube model and the exact reference quadrilateral of refmodel/cellgeom.go).
//
// Sub-checks
//   geometry   BoundUV / Vertex / Center / EdgeRaw against the exact model; Children() == CellFromCellID(child)
//   contains   leaf of p inside the id range  =>  ContainsPoint(p); exact strict-interior / clear-exterior probes
//   bounds     every grid point of the cell lies in RectBound and CapBound
//   point-dist Distance / BoundaryDistance / MaxDistance against the exact reference, never-closer / never-farther on a grid
//   edge-dist  DistanceToEdge / MaxDistanceToEdge for all pairs of a per-cell target alphabet
//   cell-dist  DistanceToCell / MaxDistanceToCell for neighbours, relatives, antipodal and far cells
//   padded     PaddedCell construction, children, Middle, Entry/ExitVertex, ShrinkToFit on a 9x9 grid of rectangles

var c12Tier string // recorded in every violation detail

func init() {
	Registry["C12"] = &Check{Level: "exploration", QuickBudget: 100, ThoroughBudget: 780, Run: runC12}
}

const c12Eps = 2.220446049250313e-16

// c12Cells: every cell of level <= L, plus deep cells (prefix of <= p digits,
// periodic digit pattern of period <= 2) at the listed levels.
func c12Cells(L, p int, levels []int) []refmodel.CubeCell {
	seen := map[uint64]bool{}
	var out []refmodel.CubeCell
	add := func(f, l int, idx uint64) {
		m := refmodel.CubeCellFromIdx(f, l, idx)
		if !seen[m.ID()] {
			seen[m.ID()] = true
			out = append(out, m)
		}
	}
	for f := 0; f < 6; f++ {
		for l := 0; l <= L; l++ {
			for idx := uint64(0); idx < 1<<uint(2*l); idx++ {
				add(f, l, idx)
			}
		}
	}
	want := map[int]bool{}
	for _, l := range levels {
		want[l] = true
	}
	for f := 0; f < 6; f++ {
		for m := 0; m <= p; m++ {
			for w := uint64(0); w < 1<<uint(2*m); w++ {
				for a := 0; a < 4; a++ {
					for b := 0; b < 4; b++ {
						idx := w
						for l := m + 1; l <= 30; l++ {
							d := a
							if (l-m)%2 == 0 {
								d = b
							}
							idx = idx<<2 | uint64(d)
							if want[l] {
								add(f, l, idx)
							}
						}
					}
				}
			}
		}
	}
	return out
}

func c12Angle(c s1.ChordAngle) float64 {
	x := float64(c)
	if x < 0 || math.IsInf(x, 0) || math.IsNaN(x) {
		return math.NaN()
	}
	return 2 * math.Asin(math.Min(1, 0.5*math.Sqrt(x)))
}

func c12Unit(v r3.Vector) s2.Point { return s2.Point{Vector: v.Normalize()} }

func c12Vec(p s2.Point) [3]float64 { return [3]float64{p.X, p.Y, p.Z} }

type c12Stats struct {
	ptTargets, ptInside, ptNearBoundary, ptNearRight, ptNearStraight atomic.Int64
	closestVertex, closestEdge                                      atomic.Int64
	edges, edgeZero, edgeCross, edgeVertexInterior                  atomic.Int64
	cellPairs, cellTouch, cellAntipodal                             atomic.Int64
	contProbes, contInRange                                         atomic.Int64
	gridIneq                                                        atomic.Int64
	shrink, shrinkSelf, shrinkDeeper, shrinkLoose                   atomic.Int64
	padded                                                          atomic.Int64
}

type c12Case struct {
	c    *core.Ctx
	ci   int
	m    refmodel.CubeCell
	ref  refmodel.RefCell
	id   s2.CellID
	cell s2.Cell
	st   *c12Stats
	grid []r3.Vector
	bnd  []r3.Vector
}

func (k *c12Case) bad(sub, desc string, j int, detail map[string]any) {
	if detail == nil {
		detail = map[string]any{}
	}
	detail["tier"] = c12Tier
	detail["cell"] = k.m.String()
	detail["cell_id"] = fmt.Sprintf("%#x", k.m.ID())
	k.c.Violate(sub, "wrong-answer", desc, []int{k.ci, j}, detail)
}

// c12Targets returns the point targets of one cell.
func (k *c12Case) targets(big bool) []s2.Point {
	r := k.ref
	f := k.m.Face
	var out []s2.Point
	add := func(v r3.Vector) {
		if v.Norm2() > 0 {
			out = append(out, c12Unit(v))
		}
	}
	wu, wv := r.UHi-r.ULo, r.VHi-r.VLo
	um, vm := 0.5*(r.ULo+r.UHi), 0.5*(r.VLo+r.VHi)
	// own corners, centre, edge midpoints, interior points
	for q := 0; q < 4; q++ {
		add(r.V[q])
		add(r.V[q].Mul(-1))
	}
	add(r.Center)
	add(r.Center.Mul(-1))
	for _, uv := range [][2]float64{{um, r.VLo}, {r.UHi, vm}, {um, r.VHi}, {r.ULo, vm}, {r.ULo + wu/3, r.VLo + wv/4}, {r.ULo + wu/16, r.VHi - wv/16}} {
		add(refmodel.FloatFromUVW(f, uv[0], uv[1], 1))
	}
	// outside: beyond each corner along the diagonal, beside each edge, at 1/4 and 4 cell widths
	for _, s := range []float64{0.25, 4} {
		for _, uv := range [][2]float64{{r.ULo - s*wu, r.VLo - s*wv}, {r.UHi + s*wu, r.VLo - s*wv}, {r.UHi + s*wu, r.VHi + s*wv}, {r.ULo - s*wu, r.VHi + s*wv},
			{um, r.VLo - s*wv}, {r.UHi + s*wu, vm}, {um + wu/5, r.VHi + s*wv}, {r.ULo - s*wu, vm - wv/7}} {
			add(refmodel.FloatFromUVW(f, uv[0], uv[1], 1))
		}
	}
	// neighbours' and children's centres and corners (through the cube model)
	for _, nb := range refmodel.ExpectedAllNeighbors(k.m, k.m.Level) {
		rn := refmodel.NewRefCell(nb)
		add(rn.Center)
		if big {
			for q := 0; q < 4; q++ {
				add(rn.V[q])
			}
		}
	}
	if k.m.Level < 30 {
		for q := 0; q < 4; q++ {
			add(refmodel.NewRefCell(k.m.Child(q)).Center)
		}
	}
	// poles of the four edge circles (distance exactly pi/2 from the whole edge) and their antipodes
	for q := 0; q < 4; q++ {
		n := r.V[q].Cross(r.V[(q+1)&3])
		add(n)
		add(n.Mul(-1))
		// and points close to the pole (where the edge-interior formula loses accuracy)
		add(n.Normalize().Add(r.Center.Normalize().Mul(1e-6)))
		add(n.Normalize().Add(r.V[q].Normalize().Mul(-1e-3)))
	}
	// cube corners and axis points
	for _, sx := range []float64{1, -1} {
		for _, sy := range []float64{1, -1} {
			for _, sz := range []float64{1, -1} {
				add(r3.Vector{X: sx, Y: sy, Z: sz})
			}
		}
		add(r3.Vector{X: sx})
		add(r3.Vector{Y: sx})
		add(r3.Vector{Z: sx})
	}
	add(r3.Vector{X: 1, Y: 2, Z: 3})
	add(r3.Vector{X: -3, Y: 1, Z: -2})
	add(r3.Vector{X: 0.1, Y: -1, Z: 0.3})
	// one-ulp neighbours of two corners and an edge midpoint
	for _, b := range []r3.Vector{r.V[0], r.V[2], refmodel.FloatFromUVW(f, r.UHi, vm, 1)} {
		pu := lattice.PUlp(c12Unit(b), 1)
		if !big {
			// the 6 axis neighbours and the 8 diagonal ones
			for _, q := range pu {
				d := 0
				u := c12Unit(b)
				if q.X != u.X {
					d++
				}
				if q.Y != u.Y {
					d++
				}
				if q.Z != u.Z {
					d++
				}
				if d == 1 || d == 3 {
					out = append(out, q)
				}
			}
			continue
		}
		out = append(out, pu...)
	}
	return lattice.Dedup(out)
}

func (k *c12Case) geometry() {
	const sub = "geometry"
	m, cell, r := k.m, k.cell, k.ref
	if cell.Face() != m.Face || cell.Level() != m.Level || cell.ID() != k.id {
		k.bad(sub, "Cell accessors disagree with the id", 0, nil)
	}
	// BoundUV against the exact quadratic transform
	uv := cell.BoundUV()
	for q, pr := range [][2]float64{{uv.X.Lo, r.ULo}, {uv.X.Hi, r.UHi}, {uv.Y.Lo, r.VLo}, {uv.Y.Hi, r.VHi}} {
		if math.Abs(pr[0]-pr[1]) > 1e-15 {
			k.bad(sub, "BoundUV differs from the exact (u,v) range of the id by more than 1e-15", q, map[string]any{"got": pr[0], "want": pr[1]})
		}
	}
	for q := 0; q < 4; q++ {
		if a := refmodel.AngleExact(cell.Vertex(q).Vector, r.V[q]); a > 2e-15 {
			k.bad(sub, "Vertex(k) is not the model corner k (counter-clockwise from the lower left) within 2e-15", q, map[string]any{"angle": a})
		}
		if cell.VertexRaw(q).Vector.Normalize() != cell.Vertex(q).Vector {
			k.bad(sub, "Vertex(k) is not the normalised VertexRaw(k)", q, nil)
		}
		// EdgeRaw is documented as exact: its plane contains both raw end vertices, and it faces inward
		e := exact.FromVector(cell.EdgeRaw(q).Vector)
		v0, v1 := exact.FromVector(cell.VertexRaw(q).Vector), exact.FromVector(cell.VertexRaw((q+1)&3).Vector)
		if e.Dot(v0).Sign() != 0 || e.Dot(v1).Sign() != 0 {
			k.bad(sub, "EdgeRaw(k) is not exactly perpendicular to VertexRaw(k) and VertexRaw(k+1)", q, nil)
		}
		if e.Dot(exact.FromVector(r.Center)).Sign() <= 0 {
			k.bad(sub, "EdgeRaw(k) does not point into the cell", q, nil)
		}
		if a := refmodel.AngleExact(cell.Edge(q).Vector, cell.EdgeRaw(q).Vector); a > 1e-15 {
			k.bad(sub, "Edge(k) is not the direction of EdgeRaw(k)", q, nil)
		}
	}
	if a := refmodel.AngleExact(cell.Center().Vector, r.Center); a > 2e-15 {
		k.bad(sub, "Center() is not the (s,t)-centre of the id within 2e-15", 0, map[string]any{"angle": a})
	}
	if cell.Center() != k.id.Point() {
		k.bad(sub, "Cell.Center() differs from CellID.Point()", 0, nil)
	}
	// subdivision
	kids, ok := cell.Children()
	if ok != (m.Level < 30) {
		k.bad(sub, "Children() ok flag is not (level < 30)", 0, nil)
	}
	if ok {
		ids := k.id.Children()
		for q := 0; q < 4; q++ {
			direct := s2.CellFromCellID(ids[q])
			if kids[q] != direct {
				k.bad(sub, "Children()[k] differs from CellFromCellID(child id) (field by field)", q,
					map[string]any{"child": ids[q].String(), "subdivided_uv": fmt.Sprint(kids[q].BoundUV()), "direct_uv": fmt.Sprint(direct.BoundUV())})
			}
			mc := m.Child(q)
			if uint64(kids[q].ID()) != mc.ID() || kids[q].IJCoordOfEdge(3) != mc.I0 || kids[q].IJCoordOfEdge(0) != mc.J0 {
				k.bad(sub, "Children()[k] is not the model's k-th child square", q, nil)
			}
		}
	}
}

func (k *c12Case) contains(tg []s2.Point) {
	const sub = "contains"
	for j, p := range tg {
		k.st.contProbes.Add(1)
		got := k.cell.ContainsPoint(p)
		leaf := s2.CellFromPoint(p).ID()
		if k.id.Contains(leaf) {
			k.st.contInRange.Add(1)
			if !got {
				k.bad(sub, "the leaf cell of p lies within the cell's id range but ContainsPoint(p) is false", j, map[string]any{"p": c12Vec(p), "leaf": leaf.String()})
			}
		}
		if k.ref.Inside(p.Vector, 0) && !got {
			k.bad(sub, "p lies exactly inside the closed cell (exact (u,v)) but ContainsPoint(p) is false", j, map[string]any{"p": c12Vec(p)})
		}
		if got && !k.ref.Inside(p.Vector, 4e-15) {
			k.bad(sub, "ContainsPoint(p) is true for a point whose exact (u,v) is more than 4e-15 outside the cell (or on another face)", j, map[string]any{"p": c12Vec(p)})
		}
	}
	// every grid point of the cell is a point of the cell
	for j, g := range k.grid {
		p := c12Unit(g)
		if !k.cell.ContainsPoint(p) {
			k.bad(sub, "a grid point of the cell's own (u,v) rectangle is not contained", 1000+j, map[string]any{"p": c12Vec(p)})
		}
	}
}

func (k *c12Case) bounds() {
	const sub = "bounds"
	rb := k.cell.RectBound()
	cb := k.cell.CapBound()
	// the grid is laid over the library's own BoundUV (checked against the exact
	// range in sub-check geometry), so that its corners are the cell's vertices
	// bit for bit and rounding of the reference floats cannot push a probe out
	uv := k.cell.BoundUV()
	n := int(math.Round(math.Sqrt(float64(len(k.grid))))) - 1
	at := func(lo, hi float64, q int) float64 {
		if q == 0 {
			return lo
		}
		if q == n {
			return hi
		}
		return math.Max(lo, math.Min(hi, lo+(hi-lo)*float64(q)/float64(n)))
	}
	for j := 0; j < (n+1)*(n+1); j++ {
		p := c12Unit(refmodel.FloatFromUVW(k.m.Face, at(uv.X.Lo, uv.X.Hi, j/(n+1)), at(uv.Y.Lo, uv.Y.Hi, j%(n+1)), 1))
		if !rb.ContainsLatLng(s2.LatLngFromPoint(p)) {
			k.bad(sub, "a point of the cell is outside RectBound()", j, map[string]any{"p": c12Vec(p), "rect": fmt.Sprint(rb)})
		}
		if !cb.ContainsPoint(p) {
			k.bad(sub, "a point of the cell is outside CapBound()", j, map[string]any{"p": c12Vec(p)})
		}
	}
	for q := 0; q < 4; q++ {
		v := k.cell.Vertex(q)
		if !rb.ContainsLatLng(s2.LatLngFromPoint(v)) || !cb.ContainsPoint(v) {
			k.bad(sub, "Vertex(k) is outside RectBound() or CapBound()", 500+q, map[string]any{"p": c12Vec(v)})
		}
	}
	if c := k.cell.Center(); !rb.ContainsLatLng(s2.LatLngFromPoint(c)) || !cb.ContainsPoint(c) {
		k.bad(sub, "Center() is outside RectBound() or CapBound()", 600, nil)
	}
}

func (k *c12Case) pointDist(tg []s2.Point) {
	const sub = "point-dist"
	r := k.ref
	for j, p := range tg {
		k.st.ptTargets.Add(1)
		dB := r.BoundaryDist(p.Vector)
		inStrict := r.Inside(p.Vector, -4e-15)
		outStrict := !r.Inside(p.Vector, 4e-15)
		det := func(extra ...any) map[string]any {
			d := map[string]any{"p": c12Vec(p), "ref_boundary_dist": dB, "inside_strict": inStrict, "outside_strict": outStrict}
			for i := 0; i+1 < len(extra); i += 2 {
				d[fmt.Sprint(extra[i])] = extra[i+1]
			}
			return d
		}
		switch {
		case inStrict:
			k.st.ptInside.Add(1)
		case !outStrict:
			k.st.ptNearBoundary.Add(1)
		}
		if math.Abs(dB-math.Pi/2) < 1e-2 {
			k.st.ptNearRight.Add(1)
		}
		gotB := c12Angle(k.cell.BoundaryDistance(p))
		if math.IsNaN(gotB) {
			k.bad(sub, "BoundaryDistance(p) is NaN or not a valid chord angle", j, det("raw", fmt.Sprint(float64(k.cell.BoundaryDistance(p)))))
		} else if !(math.Abs(gotB-dB) <= refmodel.AngleTol(dB)) {
			k.bad(sub, "BoundaryDistance(p) differs from the exact minimum over the four edges beyond the tolerance", j, det("got", gotB, "tol", refmodel.AngleTol(dB)))
		}
		gotD := c12Angle(k.cell.Distance(p))
		switch {
		case math.IsNaN(gotD):
			k.bad(sub, "Distance(p) is NaN or not a valid chord angle", j, det("raw", fmt.Sprint(float64(k.cell.Distance(p)))))
		case inStrict:
			if gotD != 0 {
				k.bad(sub, "Distance(p) is not zero for a point strictly inside the cell", j, det("got", gotD))
			}
		case outStrict:
			if !(math.Abs(gotD-dB) <= refmodel.AngleTol(dB)) {
				k.bad(sub, "Distance(p) of an outside point differs from the exact distance to the boundary beyond the tolerance", j, det("got", gotD, "tol", refmodel.AngleTol(dB)))
			}
			// which feature is closest (coverage of the case analysis)
			vmin := math.Inf(1)
			for q := 0; q < 4; q++ {
				vmin = math.Min(vmin, refmodel.AngleFloat(p.Vector, r.V[q]))
			}
			if vmin-dB > 1e-12 {
				k.st.closestEdge.Add(1)
			} else {
				k.st.closestVertex.Add(1)
			}
		default:
			if !(gotD <= dB+refmodel.AngleTol(dB)) {
				k.bad(sub, "Distance(p) of a point on the boundary exceeds the distance to the boundary", j, det("got", gotD))
			}
		}
		wantM := r.MaxDist(p.Vector)
		gotM := c12Angle(k.cell.MaxDistance(p))
		if math.Pi-wantM < 1e-2 {
			k.st.ptNearStraight.Add(1)
		}
		if math.IsNaN(gotM) {
			k.bad(sub, "MaxDistance(p) is NaN or not a valid chord angle", j, det("raw", fmt.Sprint(float64(k.cell.MaxDistance(p)))))
		} else if !(math.Abs(gotM-wantM) <= refmodel.AngleTol(wantM)) {
			k.bad(sub, "MaxDistance(p) differs from pi minus the exact distance of the antipode beyond the tolerance", j, det("got", gotM, "want", wantM, "tol", refmodel.AngleTol(wantM)))
		}
		// never closer / never farther than reported, on the grid of the cell
		lo := gotD - refmodel.AngleTol(gotD) - 1e-15
		hi := gotM + refmodel.AngleTol(gotM) + 1e-15
		for gi, g := range k.grid {
			a := refmodel.AngleFloat(p.Vector, g)
			if a < lo {
				k.bad(sub, "a point of the cell is closer to p than Distance(p)", j, det("got", gotD, "grid_point", [3]float64{g.X, g.Y, g.Z}, "angle", a, "grid_index", gi))
				break
			}
			if a > hi {
				k.bad(sub, "a point of the cell is farther from p than MaxDistance(p)", j, det("got", gotM, "grid_point", [3]float64{g.X, g.Y, g.Z}, "angle", a, "grid_index", gi))
				break
			}
		}
		k.st.gridIneq.Add(int64(2 * len(k.grid)))
	}
}

// edgeAlphabet returns the per-cell target alphabet for edges.
func (k *c12Case) edgeAlphabet(big bool) []s2.Point {
	r := k.ref
	f := k.m.Face
	wu, wv := r.UHi-r.ULo, r.VHi-r.VLo
	um, vm := 0.5*(r.ULo+r.UHi), 0.5*(r.VLo+r.VHi)
	pt := func(u, v float64) s2.Point { return c12Unit(refmodel.FloatFromUVW(f, u, v, 1)) }
	n0 := r.V[0].Cross(r.V[1])
	out := []s2.Point{
		pt(r.ULo+wu/3, r.VLo+wv/4),  // inside
		c12Unit(r.V[0]),             // a corner exactly
		pt(r.ULo-wu, r.VLo+wv),      // with the next one: a segment through corner 0 (grazing)
		pt(r.ULo+wu, r.VLo-wv),      //
		pt(r.ULo-2*wu, vm),          // with the next one: crosses the cell, both ends outside
		pt(r.UHi+2*wu, vm+wv/8),     //
		c12Unit(r.Center.Mul(-1)),   // antipode of the centre
		c12Unit(n0),                 // pole of edge 0 (pi/2 from it)
	}
	// long edges (more than 90 degrees): one endpoint within 90 degrees of the whole cell, the other
	// beyond, the interior passing through / next to the antipode of the cell — the only configuration
	// in which the maximum over the edge is attained in its interior although one endpoint is "near"
	ctr := c12Unit(r.Center)
	tan := c12Unit(r.V[0].Sub(ctr.Mul(ctr.Dot(r.V[0]))))
	along := func(deg float64, lift float64) s2.Point {
		a := deg * math.Pi / 180
		return c12Unit(ctr.Mul(math.Cos(a)).Add(tan.Mul(math.Sin(a))).Add(ctr.Cross(tan.Vector).Mul(lift)))
	}
	out = append(out, along(60, 0), along(205, 0), along(215, 0.02))
	if big {
		out = append(out, pt(um, r.VHi+wv/2), c12Unit(r.V[2].Mul(-1)), c12Unit(r3.Vector{X: 1, Y: 1, Z: 1}), pt(r.UHi, vm), along(30, 0.01), along(170, 0))
	}
	return out
}

func (k *c12Case) edgeDist(big bool) {
	const sub = "edge-dist"
	r := k.ref
	al := k.edgeAlphabet(big)
	for i := 0; i < len(al); i++ {
		for j := i + 1; j < len(al); j++ {
			a, b := al[i], al[j]
			if a.Vector == b.Vector || a.Vector == b.Vector.Mul(-1) || refmodel.AngleFloat(a.Vector, b.Vector) > math.Pi-1e-6 {
				continue // antipodal (or nearly antipodal) endpoints do not define an edge
			}
			cas := i*16 + j
			k.st.edges.Add(1)
			want := r.DistToEdge(a.Vector, b.Vector)
			got := c12Angle(k.cell.DistanceToEdge(a, b))
			det := func(extra ...any) map[string]any {
				d := map[string]any{"a": c12Vec(a), "b": c12Vec(b), "alphabet": [2]int{i, j}, "ref_min": want, "got_min": got}
				for x := 0; x+1 < len(extra); x += 2 {
					d[fmt.Sprint(extra[x])] = extra[x+1]
				}
				return d
			}
			if want == 0 {
				k.st.edgeZero.Add(1)
				if !r.Inside(a.Vector, 0) && !r.Inside(b.Vector, 0) {
					k.st.edgeCross.Add(1)
				}
			} else if math.Min(r.BoundaryDist(a.Vector), r.BoundaryDist(b.Vector))-want > 1e-12 {
				k.st.edgeVertexInterior.Add(1)
			}
			if math.IsNaN(got) || math.IsNaN(c12Angle(k.cell.MaxDistanceToEdge(a, b))) {
				k.bad(sub, "DistanceToEdge / MaxDistanceToEdge is NaN or not a valid chord angle", cas, det())
				continue
			}
			if !(math.Abs(got-want) <= refmodel.AngleTol(want)) {
				k.bad(sub, "DistanceToEdge(a,b) differs from the exact reference (zero if an endpoint is inside or the edge crosses the cell) beyond the tolerance", cas, det("tol", refmodel.AngleTol(want)))
			}
			wantM := r.MaxDistToEdge(a.Vector, b.Vector)
			gotM := c12Angle(k.cell.MaxDistanceToEdge(a, b))
			if !(math.Abs(gotM-wantM) <= refmodel.AngleTol(wantM)) {
				k.bad(sub, "MaxDistanceToEdge(a,b) differs from pi minus the exact distance to the antipodal edge beyond the tolerance", cas, det("got_max", gotM, "ref_max", wantM, "tol", refmodel.AngleTol(wantM)))
			}
			lo := got - refmodel.AngleTol(got) - 2e-15
			hi := gotM + refmodel.AngleTol(gotM) + 2e-15
			for _, g := range k.bnd {
				if d := refmodel.DistPointEdgeFloat(g, a.Vector, b.Vector); d < lo {
					k.bad(sub, "a point of the cell is closer to the edge than DistanceToEdge", cas, det("grid_point", [3]float64{g.X, g.Y, g.Z}, "dist", d))
					break
				}
				if d := math.Pi - refmodel.DistPointEdgeFloat(g.Mul(-1), a.Vector, b.Vector); d > hi {
					k.bad(sub, "a point of the cell is farther from a point of the edge than MaxDistanceToEdge", cas, det("got_max", gotM, "grid_point", [3]float64{g.X, g.Y, g.Z}, "dist", d))
					break
				}
			}
			k.st.gridIneq.Add(int64(2 * len(k.bnd)))
		}
	}
}

func (k *c12Case) cellTargets(big bool) []refmodel.CubeCell {
	m := k.m
	seen := map[uint64]bool{}
	var out []refmodel.CubeCell
	add := func(x refmodel.CubeCell) {
		if !seen[x.ID()] {
			seen[x.ID()] = true
			out = append(out, x)
		}
	}
	nbs := refmodel.ExpectedAllNeighbors(m, m.Level)
	for _, x := range nbs {
		add(x)
	}
	if m.Level < 30 {
		if big {
			for _, x := range refmodel.ExpectedAllNeighbors(m, m.Level+1) {
				add(x)
			}
		}
		for q := 0; q < 4; q++ {
			add(m.Child(q))
		}
	}
	if m.Level > 0 {
		add(m.Ancestor(m.Level - 1))
	}
	add(m)
	// second ring: neighbours of neighbours (near but not touching)
	for _, x := range nbs {
		for q := 0; q < 4; q++ {
			if e, err := refmodel.ExpectedEdgeNeighbor(x, q); err == nil {
				add(e)
			}
		}
		if !big && len(out) > 22 {
			break
		}
	}
	// antipodal cell, its neighbours' parent, face cells, fixed far cells
	anti := refmodel.CubeCellFromIJ((m.Face+3)%6, m.Level, m.J0, m.I0)
	add(anti)
	if e, err := refmodel.ExpectedEdgeNeighbor(anti, 1); err == nil {
		add(e)
	}
	if anti.Level > 0 {
		add(anti.Ancestor(anti.Level - 1))
	}
	for f := 0; f < 6; f++ {
		add(refmodel.CubeCellFromIdx(f, 0, 0))
		add(refmodel.CubeCellFromIdx(f, 2, 5))
		if big {
			add(refmodel.CubeCellFromIdx(f, 10, 0x2d2d2))
			add(refmodel.CubeCellFromIdx(f, 30, 0))
		}
	}
	return out
}

func (k *c12Case) cellDist(big bool) {
	const sub = "cell-dist"
	r := k.ref
	for j, om := range k.cellTargets(big) {
		k.st.cellPairs.Add(1)
		ro := refmodel.NewRefCell(om)
		oc := s2.CellFromCellID(s2.CellID(om.ID()))
		want := r.DistToCell(ro)
		got := c12Angle(k.cell.DistanceToCell(oc))
		det := func(extra ...any) map[string]any {
			d := map[string]any{"other": om.String(), "ref_min": want, "got_min": got}
			for x := 0; x+1 < len(extra); x += 2 {
				d[fmt.Sprint(extra[x])] = extra[x+1]
			}
			return d
		}
		if want == 0 {
			k.st.cellTouch.Add(1)
		}
		if math.IsNaN(got) || math.IsNaN(c12Angle(k.cell.MaxDistanceToCell(oc))) {
			k.bad(sub, "DistanceToCell / MaxDistanceToCell is NaN or not a valid chord angle", j, det())
			continue
		}
		if !(math.Abs(got-want) <= refmodel.AngleTol(want)) {
			k.bad(sub, "DistanceToCell differs from the exact reference (zero when the cells touch or overlap) beyond the tolerance", j, det("tol", refmodel.AngleTol(want)))
		}
		wantM := r.MaxDistToCell(ro)
		gotM := c12Angle(k.cell.MaxDistanceToCell(oc))
		if wantM == math.Pi {
			k.st.cellAntipodal.Add(1)
		}
		if !(math.Abs(gotM-wantM) <= refmodel.AngleTol(wantM)) {
			k.bad(sub, "MaxDistanceToCell differs from pi minus the exact distance to the antipodal cell beyond the tolerance", j, det("got_max", gotM, "ref_max", wantM, "tol", refmodel.AngleTol(wantM)))
		}
		// symmetric
		if g2 := c12Angle(oc.DistanceToCell(k.cell)); math.Abs(g2-got) > 2*refmodel.AngleTol(want) {
			k.bad(sub, "DistanceToCell is not symmetric within the tolerance", j, det("reverse", g2))
		}
		lo := got - refmodel.AngleTol(got) - 2e-15
		hi := gotM + refmodel.AngleTol(gotM) + 2e-15
		ob := ro.BoundaryGrid(4)
	outer:
		for _, g := range k.bnd {
			for _, h := range ob {
				a := refmodel.AngleFloat(g, h)
				if a < lo {
					k.bad(sub, "two points of the cells are closer than DistanceToCell", j, det("angle", a))
					break outer
				}
				if a > hi {
					k.bad(sub, "two points of the cells are farther apart than MaxDistanceToCell", j, det("angle", a, "got_max", gotM))
					break outer
				}
			}
		}
		k.st.gridIneq.Add(int64(2 * len(k.bnd) * len(ob)))
	}
}

// c12LeafRange returns the leaf indices i in [i0, i0+size) whose interval
// [u(i)-pad, u(i+1)+pad] meets [lo,hi] (exact), or ok=false if there is none.
func c12LeafRange(i0, size int, lo, hi, pad float64) (a, b int, ok bool) {
	// smallest i with u(i+1)+pad >= lo
	meetsLo := func(i int) bool { return refmodel.CmpBoundaryExact(lo, i+1, pad) <= 0 } // lo <= u(i+1)+pad
	meetsHi := func(i int) bool { return refmodel.CmpBoundaryExact(hi, i, -pad) >= 0 }    // hi >= u(i)-pad
	x, y := i0, i0+size-1
	if !meetsLo(y) || !meetsHi(x) {
		return 0, 0, false
	}
	// meetsLo is monotone increasing in i, meetsHi monotone decreasing: start from
	// a float estimate of the crossing and correct it with exact comparisons
	est := func(u float64) int {
		u = math.Max(-1, math.Min(1, u))
		var s float64
		if u >= 0 {
			s = 0.5 * math.Sqrt(1+3*u)
		} else {
			s = 1 - 0.5*math.Sqrt(1-3*u)
		}
		i := int(math.Floor(s * (1 << 30)))
		return max(x, min(y, i))
	}
	a = est(lo - pad)
	for a > x && meetsLo(a-1) {
		a--
	}
	for !meetsLo(a) {
		a++
	}
	b = est(hi + pad)
	for b < y && meetsHi(b+1) {
		b++
	}
	for !meetsHi(b) {
		b--
	}
	return a, b, a <= b
}

// c12SmallestCell returns the smallest cell (level >= m.Level) containing the leaf ranges.
func c12SmallestCell(m refmodel.CubeCell, ia, ib, ja, jb int) refmodel.CubeCell {
	l := m.Level
	for l < 30 && ia>>uint(30-(l+1)) == ib>>uint(30-(l+1)) && ja>>uint(30-(l+1)) == jb>>uint(30-(l+1)) {
		l++
	}
	return refmodel.CubeCellFromIJ(m.Face, l, ia, ja)
}

func (k *c12Case) padded(big bool) {
	const sub = "padded"
	m, r := k.m, k.ref
	wu, wv := r.UHi-r.ULo, r.VHi-r.VLo
	pads := []float64{0, 4 * c12Eps, math.Min(wu, wv) / 8}
	if big {
		pads = append(pads, 1e-3, math.Min(wu, wv)*0.75)
	}
	uc := refmodel.SiTiFloat(2*int64(m.I0) + int64(m.Size()))
	vc := refmodel.SiTiFloat(2*int64(m.J0) + int64(m.Size()))
	ei, ej, xi, xj := m.EntryExitIJ()
	entry := refmodel.FloatFromUVW(m.Face, refmodel.UVFloat(ei), refmodel.UVFloat(ej), 1)
	exit := refmodel.FloatFromUVW(m.Face, refmodel.UVFloat(xi), refmodel.UVFloat(xj), 1)
	near := func(a, b float64) bool { return math.Abs(a-b) <= 4e-16*math.Max(1, math.Abs(b)) }
	rectNear := func(a, b r2.Rect) bool {
		return near(a.X.Lo, b.X.Lo) && near(a.X.Hi, b.X.Hi) && near(a.Y.Lo, b.Y.Lo) && near(a.Y.Hi, b.Y.Hi)
	}
	for pi, pad := range pads {
		k.st.padded.Add(1)
		cas := pi * 1000
		pc := s2.PaddedCellFromCellID(k.id, pad)
		det := func(extra ...any) map[string]any {
			d := map[string]any{"padding": pad}
			for x := 0; x+1 < len(extra); x += 2 {
				d[fmt.Sprint(extra[x])] = extra[x+1]
			}
			return d
		}
		if pc.CellID() != k.id || pc.Level() != m.Level || pc.Padding() != pad {
			k.bad(sub, "PaddedCell accessors disagree with the id", cas, det())
		}
		wantB := r2.Rect{X: r1.Interval{Lo: r.ULo - pad, Hi: r.UHi + pad}, Y: r1.Interval{Lo: r.VLo - pad, Hi: r.VHi + pad}}
		if !rectNear(pc.Bound(), wantB) {
			k.bad(sub, "PaddedCell.Bound is not the exact (u,v) range expanded by the padding", cas, det("got", fmt.Sprint(pc.Bound()), "want", fmt.Sprint(wantB)))
		}
		wantMid := r2.Rect{X: r1.Interval{Lo: uc - pad, Hi: uc + pad}, Y: r1.Interval{Lo: vc - pad, Hi: vc + pad}}
		if !rectNear(pc.Middle(), wantMid) {
			k.bad(sub, "PaddedCell.Middle is not the centre of the cell expanded by the padding", cas, det("got", fmt.Sprint(pc.Middle()), "want", fmt.Sprint(wantMid)))
		}
		if a := refmodel.AngleExact(pc.Center().Vector, r.Center); a > 2e-15 {
			k.bad(sub, "PaddedCell.Center is not the centre of the cell", cas, det())
		}
		// entry / exit vertex of the curve: the model corner, and none of the other three
		for which, pr := range [][2]r3.Vector{{pc.EntryVertex().Vector, entry}, {pc.ExitVertex().Vector, exit}} {
			if a := refmodel.AngleExact(pr[0], pr[1]); a > 2e-15 {
				k.bad(sub, "PaddedCell.EntryVertex/ExitVertex is not the corner where the model curve enters/leaves the cell", cas+which, det("which", which, "angle", a))
			}
		}
		if m.Level == 30 {
			// ShrinkToFit on a leaf can only return the leaf
			if got := pc.ShrinkToFit(pc.Bound()); got != k.id {
				k.bad(sub, "ShrinkToFit of a leaf cell does not return the leaf", cas, det())
			}
			continue
		}
		// children: ids, (i,j) order, bounds; Middle is the intersection of the four padded children
		inter := r2.Rect{X: r1.Interval{Lo: math.Inf(-1), Hi: math.Inf(1)}, Y: r1.Interval{Lo: math.Inf(-1), Hi: math.Inf(1)}}
		for pos := 0; pos < 4; pos++ {
			ci, cj := pc.ChildIJ(pos)
			mc := m.Child(pos)
			wi, wj := (mc.I0-m.I0)/mc.Size(), (mc.J0-m.J0)/mc.Size()
			if ci != wi || cj != wj {
				k.bad(sub, "PaddedCell.ChildIJ(pos) is not the quadrant the model curve visits at pos", cas+10+pos, det("got", [2]int{ci, cj}, "want", [2]int{wi, wj}))
				continue
			}
			ch := s2.PaddedCellFromParentIJ(pc, ci, cj)
			direct := s2.PaddedCellFromCellID(s2.CellID(mc.ID()), pad)
			if uint64(ch.CellID()) != mc.ID() || ch.Level() != mc.Level {
				k.bad(sub, "PaddedCellFromParentIJ gives a different cell than the model child", cas+10+pos, det())
			}
			if !rectNear(ch.Bound(), direct.Bound()) {
				k.bad(sub, "PaddedCellFromParentIJ bound differs from PaddedCellFromCellID(child) bound", cas+10+pos, det("from_parent", fmt.Sprint(ch.Bound()), "direct", fmt.Sprint(direct.Bound())))
			}
			if a := refmodel.AngleExact(ch.EntryVertex().Vector, direct.EntryVertex().Vector) + refmodel.AngleExact(ch.ExitVertex().Vector, direct.ExitVertex().Vector); a > 1e-15 {
				k.bad(sub, "entry/exit vertices of a child built from its parent differ from those built from its id", cas+10+pos, det())
			}
			b := direct.Bound()
			inter.X.Lo, inter.X.Hi = math.Max(inter.X.Lo, b.X.Lo), math.Min(inter.X.Hi, b.X.Hi)
			inter.Y.Lo, inter.Y.Hi = math.Max(inter.Y.Lo, b.Y.Lo), math.Min(inter.Y.Hi, b.Y.Hi)
		}
		if !rectNear(pc.Middle(), inter) {
			k.bad(sub, "PaddedCell.Middle is not the intersection of the four padded children", cas, det("middle", fmt.Sprint(pc.Middle()), "intersection", fmt.Sprint(inter)))
		}
		// ShrinkToFit on a 9x9 grid of rectangles
		iv := func(lo, hi, c float64) [][2]float64 {
			w := hi - lo
			q1, q3 := lo+w/4, lo+3*w/4
			cp := lattice.Ulp(c, 4)
			cm := lattice.Ulp(c, -4)
			return [][2]float64{{lo, lo}, {lo, q1}, {q1, q1}, {q1, cm}, {q1, cp}, {cp, q3}, {q3, hi}, {hi, hi}, {lo, hi}}
		}
		xs, ys := iv(r.ULo, r.UHi, uc), iv(r.VLo, r.VHi, vc)
		for xi2, x := range xs {
			for yi, y := range ys {
				rect := r2.Rect{X: r1.Interval{Lo: x[0], Hi: x[1]}, Y: r1.Interval{Lo: y[0], Hi: y[1]}}
				if rect.IsEmpty() || !rect.Intersects(pc.Bound()) {
					continue
				}
				rc := cas + 100 + xi2*9 + yi
				k.st.shrink.Add(1)
				got := pc.ShrinkToFit(rect)
				gm, ok := refmodel.CubeCellFromID(uint64(got))
				if !ok || !m.ContainsCell(gm) {
					k.bad(sub, "ShrinkToFit returns a cell that is not a descendant of the padded cell", rc, det("rect", fmt.Sprint(rect), "got", got.String()))
					continue
				}
				ia, ib, ok1 := c12LeafRange(m.I0, m.Size(), rect.X.Lo, rect.X.Hi, pad)
				ja, jb, ok2 := c12LeafRange(m.J0, m.Size(), rect.Y.Lo, rect.Y.Hi, pad)
				if !ok1 || !ok2 {
					continue // rect does not meet any padded descendant exactly: nothing is promised
				}
				tight := c12SmallestCell(m, ia, ib, ja, jb)
				if !gm.ContainsCell(tight) {
					k.bad(sub, "ShrinkToFit returns a cell that misses a descendant whose padded bound meets the rectangle", rc,
						det("rect", fmt.Sprint(rect), "got", got.String(), "smallest_exact", tight.String()))
					continue
				}
				// not larger than necessary once the documented 1.5*dblEpsilon allowance (and rounding) is granted
				la, lb, _ := c12LeafRange(m.I0, m.Size(), rect.X.Lo, rect.X.Hi, pad+8*c12Eps)
				ma, mb, _ := c12LeafRange(m.J0, m.Size(), rect.Y.Lo, rect.Y.Hi, pad+8*c12Eps)
				loose := c12SmallestCell(m, la, lb, ma, mb)
				if !loose.ContainsCell(gm) {
					k.bad(sub, "ShrinkToFit returns a larger cell than the smallest one containing all padded descendants meeting the rectangle (allowance 8*dblEpsilon)", rc,
						det("rect", fmt.Sprint(rect), "got", got.String(), "smallest_with_allowance", loose.String()))
				}
				switch {
				case gm.Level == m.Level:
					k.st.shrinkSelf.Add(1)
				default:
					k.st.shrinkDeeper.Add(1)
				}
				if gm.Level != tight.Level {
					k.st.shrinkLoose.Add(1)
				}
			}
		}
	}
}

func runC12(c *core.Ctx) {
	// a replay file records the tier whose lattice its case indices refer to
	if c.OnlySub != "" {
		if d, ok := c.ReplayDetail.(map[string]any); ok {
			if t, ok := d["tier"].(string); ok && (t == "quick" || t == "thorough") {
				c.Tier = t
			}
		}
	}
	c12Tier = c.Tier
	c.Rule = "cells: every cell of level <= L on all faces plus deep cells (digit prefix of <= p digits followed by a periodic pattern of period <= 2) at a fixed list of levels up to 30; " +
		"for each cell the full product with its target alphabets is walked: point targets (own corners/centre/edge midpoints, points beside every edge and beyond every corner at 1/4 and 4 cell widths, neighbours' and children's centres, antipodes, poles of the four edge circles and points near them, cube corners, axis points, one-ulp neighbours of corners), " +
		"all pairs of an 8 (12) point edge alphabet, cell targets (both neighbour rings, relatives, antipodal cell, face cells, fixed far cells), paddings x 9x9 rectangles; " +
		"one case = one (cell, target) pair; a point case is non-trivial when the target is not strictly inside the cell (a boundary feature decides the distance), an edge case when neither endpoint is inside, a cell pair when the cells are distinct, a ShrinkToFit case when the result is a proper descendant"
	c.Assume = []string{
		"the cube model and naive Hilbert recursion (self-tested) define which square of which face an id denotes",
		"a cell is the spherical quadrilateral spanned by the corner directions (face,u(i),v(j),1) with the documented quadratic transform; reference distances are exact up to the final sqrt/atan2 (error < 1e-15)",
		"tolerance between library and reference distances: 1e-14 + 4e-15/|cos d| + 4e-15/cos(d/2), capped at 2e-7 (the documented accuracy loss of the edge formula near pi/2 and of chord angles near pi)",
		"edges with endpoints closer than 1e-6 to antipodal are excluded (documented limitation of the edge distance code)",
	}
	if err := refmodel.SelfTestCubeModel(4); err != nil {
		panic(core.HarnessError("cube model self-test: " + err.Error()))
	}
	if err := refmodel.SelfTestCellGeom(); err != nil {
		panic(core.HarnessError(err.Error()))
	}
	big := !c.Quick()
	levels := core.Pick(c, []int{4, 9, 17, 24, 29, 30}, []int{3, 4, 5, 6, 8, 12, 16, 20, 24, 28, 29, 30})
	cells := c12Cells(core.Pick(c, 2, 3), core.Pick(c, 0, 1), levels)
	c.Note("cells", len(cells))
	gridN := core.Pick(c, 8, 16)
	var st c12Stats
	var done atomic.Int64
	var once sync.Once
	subs := []string{"geometry", "contains", "bounds", "point-dist", "edge-dist", "cell-dist", "padded"}
	c.ParallelFor(len(cells), func(ci int) {
		if c.Expired() {
			once.Do(func() { c.CapHit("cells: wall budget reached") })
			return
		}
		m := cells[ci]
		k := &c12Case{c: c, ci: ci, m: m, ref: refmodel.NewRefCell(m), id: s2.CellID(m.ID()), st: &st}
		k.cell = s2.CellFromCellID(k.id)
		k.grid = k.ref.Grid(gridN)
		k.bnd = k.ref.BoundaryGrid(core.Pick(c, 4, 8))
		k.bnd = append(k.bnd, k.ref.Center)
		tg := k.targets(big)
		run := func(sub string, f func()) {
			if c.OnlySub != "" && (c.OnlySub != sub || (len(c.OnlyCase) > 0 && c.OnlyCase[0] != ci)) {
				return // replay mode: only the recorded sub-check of the recorded cell
			}
			c.Guard(sub, []int{ci, -1}, func() any { return m.String() }, f)
		}
		run(subs[0], k.geometry)
		run(subs[1], func() { k.contains(tg) })
		run(subs[2], k.bounds)
		run(subs[3], func() { k.pointDist(tg) })
		run(subs[4], func() { k.edgeDist(big) })
		run(subs[5], func() { k.cellDist(big) })
		run(subs[6], func() { k.padded(big) })
		done.Add(1)
		if ci%97 == 5 {
			c.Sample(map[string]any{"cell": m.String(), "point_targets": len(tg), "first_target": c12Vec(tg[0]), "grid_points": len(k.grid)})
		}
	})
	ev := st.ptTargets.Load() + st.edges.Load() + st.cellPairs.Load() + st.contProbes.Load() + st.shrink.Load() + st.padded.Load()
	nt := (st.ptTargets.Load() - st.ptInside.Load()) + (st.edges.Load() - (st.edgeZero.Load() - st.edgeCross.Load())) + (st.cellPairs.Load() - done.Load()) + st.contInRange.Load() + st.shrinkDeeper.Load()
	c.Eval(int(ev))
	c.Nontrivial(int(nt))
	c.Count("cells_done", done.Load())
	c.Count("contains/probes", st.contProbes.Load())
	c.Count("contains/probes_with_leaf_in_id_range", st.contInRange.Load())
	c.Count("point-dist/targets", st.ptTargets.Load())
	c.Count("point-dist/strictly_inside", st.ptInside.Load())
	c.Count("point-dist/within_4e-15_of_boundary", st.ptNearBoundary.Load())
	c.Count("point-dist/outside_closest_feature_is_edge_interior", st.closestEdge.Load())
	c.Count("point-dist/outside_closest_feature_is_vertex", st.closestVertex.Load())
	c.Count("point-dist/boundary_distance_within_0.01_of_pi/2", st.ptNearRight.Load())
	c.Count("point-dist/max_distance_within_0.01_of_pi", st.ptNearStraight.Load())
	c.Count("edge-dist/edges", st.edges.Load())
	c.Count("edge-dist/zero_distance", st.edgeZero.Load())
	c.Count("edge-dist/zero_because_edge_crosses_cell", st.edgeCross.Load())
	c.Count("edge-dist/minimum_at_cell_vertex_to_edge_interior", st.edgeVertexInterior.Load())
	c.Count("cell-dist/pairs", st.cellPairs.Load())
	c.Count("cell-dist/touching_or_overlapping", st.cellTouch.Load())
	c.Count("cell-dist/max_is_pi", st.cellAntipodal.Load())
	c.Count("grid_inequalities", st.gridIneq.Load())
	c.Count("padded/cells_x_paddings", st.padded.Load())
	c.Count("padded/shrink_to_fit_calls", st.shrink.Load())
	c.Count("padded/shrink_result_is_self", st.shrinkSelf.Load())
	c.Count("padded/shrink_result_is_proper_descendant", st.shrinkDeeper.Load())
	c.Count("padded/shrink_result_larger_than_exact_smallest", st.shrinkLoose.Load())
	if c.OnlySub == "" && done.Load() == int64(len(cells)) {
		if st.closestEdge.Load() == 0 || st.closestVertex.Load() == 0 || st.edgeCross.Load() == 0 || st.edgeVertexInterior.Load() == 0 || st.shrinkDeeper.Load() == 0 || st.cellTouch.Load() == 0 || st.cellAntipodal.Load() == 0 {
			panic(core.HarnessError("C12: an advertised case class never occurred (see counters)"))
		}
	}
}
