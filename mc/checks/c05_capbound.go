package checks

import (
	"fmt"
	"math"

	"github.com/golang/geo/s1"
	"github.com/golang/geo/s2"

	"verif/mc/core"
	"verif/mc/refmodel"
)

// Sub-check "cap-bound-alignment": Cap.CellUnionBound is where FastCovering takes all its cells and
// Covering its initial candidates for EVERY region type (through the region's bounding cap).  It
// returns the (up to four) level-L cells around the cell vertex closest to the cap centre, and decides
// which of them exist from the leaf coordinates (i, j) of the centre relative to the level-L block
// size 2^(30-L).  The deciding inputs are therefore centres whose leaf coordinates are exactly on, or
// one leaf beside, a block boundary (i = 2^(30-L): e.g. every cap centred on longitude 0, 90, 180,
// -90 for L = 1), next to a face edge, with radii at the top of the range that maps to level L.  A
// uniformly random centre hits such an alignment with probability about 2^-30.
//
// Oracle (C05: "the covering contains every point of the region, the fast covering does too"): every
// probe strictly inside the cap (centre, and 16 azimuths at 0.5 r and 0.98 r) lies in a cell of
// CellUnionBound, of FastCovering and of Covering.
func init() {
	ck := Registry["C05"]
	run := ck.Run
	ck.Run = func(c *core.Ctx) {
		run(c)
		c05CapBoundAlignment(c)
	}
}

func c05CapBoundAlignment(c *core.Ctx) {
	sub := "cap-bound-alignment"
	const maxSize = 1 << 30
	type job struct {
		face, level, i, j int
		rk                int
	}
	var jobs []job
	levels := []int{1, 2, 3, 5, 8, 13, 20, 27}
	if !c.Quick() {
		levels = nil
		for l := 1; l <= 28; l++ {
			levels = append(levels, l)
		}
	}
	for _, L := range levels {
		size := 1 << uint(30-L)
		half := size >> 1
		aligned := []int{size - 1, size, size + 1, 2 * size, 2*size + 1, maxSize - size, maxSize - size - 1, maxSize - 2*size}
		edge := []int{0, 1, half - 1, half, half + 1, size - 1, size + 1, maxSize - 1, maxSize - half, maxSize - half - 1, maxSize - size - 1}
		for f := 0; f < 6; f++ {
			for _, a := range aligned {
				for _, e := range edge {
					if a < 0 || a >= maxSize || e < 0 || e >= maxSize {
						continue
					}
					for rk := 0; rk < 3; rk++ {
						jobs = append(jobs, job{f, L, a, e, rk}, job{f, L, e, a, rk})
					}
				}
			}
		}
	}
	var caps, probesJudged, fourCells, threeCells, crossFace int64
	for ji, jb := range jobs {
		cas := []int{ji}
		if c.Skip(sub, cas...) {
			continue
		}
		leaf := s2.CellID(refmodel.CubeCellFromIJ(jb.face, 30, jb.i, jb.j).ID())
		centre := leaf.Point()
		top := s2.MinWidthMetric.Value(jb.level + 1) // the largest radius that still maps to this level
		r := []float64{top, math.Nextafter(top, 0), 0.7 * top}[jb.rk]
		if s2.MinWidthMetric.MaxLevel(r)-1 != jb.level {
			continue // not the level this lattice element is meant for (rounding at the top of the range)
		}
		cp := s2.CapFromCenterAngle(centre, s1.Angle(r))
		detail := func() any {
			return map[string]any{"face": jb.face, "level": jb.level, "leaf_i": jb.i, "leaf_j": jb.j, "radius_rad": r, "centre": ptStr(centre)}
		}
		c.Guard(sub, cas, detail, func() {
			caps++
			bound := cp.CellUnionBound()
			switch len(bound) {
			case 4:
				fourCells++
			case 3:
				threeCells++
			}
			for _, id := range bound {
				if id.Face() != jb.face {
					crossFace++
					break
				}
			}
			rc := &s2.RegionCoverer{MinLevel: 0, MaxLevel: 30, LevelMod: 1, MaxCells: 8}
			sets := []struct {
				name  string
				cells []s2.CellID
			}{{"Cap.CellUnionBound", bound}, {"RegionCoverer.FastCovering of a cap", rc.FastCovering(cp)}, {"RegionCoverer.Covering of a cap", rc.Covering(cp)}}
			// probes strictly inside the cap
			probes := []s2.Point{centre}
			ortho := s2.Ortho(centre)
			third := s2.Point{Vector: centre.Cross(ortho.Vector).Normalize()}
			for k := 0; k < 16; k++ {
				az := 2 * math.Pi * float64(k) / 16
				dir := s2.Point{Vector: ortho.Mul(math.Cos(az)).Add(third.Mul(math.Sin(az))).Normalize()}
				for _, fr := range []float64{0.5, 0.98} {
					p := s2.Point{Vector: centre.Mul(math.Cos(fr * r)).Add(dir.Mul(math.Sin(fr * r))).Normalize()}
					if centre.Angle(p.Vector).Radians() < r*(1-1e-9)-1e-15 {
						probes = append(probes, p)
					}
				}
			}
			for _, set := range sets {
				for _, p := range probes {
					probesJudged++
					in := false
					for _, id := range set.cells {
						if s2.CellFromCellID(id).ContainsPoint(p) {
							in = true
							break
						}
					}
					if !in {
						c.Violate(sub, "wrong-answer", fmt.Sprintf("%s misses a point strictly inside the cap (cap centre on / next to a block boundary of the bound's level, next to a face edge)", set.name), cas,
							map[string]any{"face": jb.face, "level": jb.level, "leaf_i": jb.i, "leaf_j": jb.j, "radius_rad": r, "centre": ptStr(centre), "missed_point": ptStr(p), "cells": fmt.Sprint(set.cells)})
						return
					}
				}
			}
		})
	}
	c.Eval(int(probesJudged))
	c.Nontrivial(int(crossFace))
	c.Count(sub+"/caps", caps)
	c.Count(sub+"/probes_judged", probesJudged)
	c.Count(sub+"/bounds_with_4_cells", fourCells)
	c.Count(sub+"/bounds_with_3_cells(cube corner or diagonal dropped)", threeCells)
	c.Count(sub+"/bounds_reaching_another_face", crossFace)
	if c.OnlySub == "" && (crossFace == 0 || fourCells == 0) && c.CapsHit() == 0 {
		panic(core.HarnessError("cap-bound-alignment is vacuous: no bound reached another face"))
	}
}
