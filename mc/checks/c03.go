package checks

import (
	"fmt"

	"github.com/golang/geo/s2"

	"verif/mc/core"
	"verif/mc/lattice"
	"verif/mc/refmodel"
)

// C03 — edge crossings are exact, symmetric and independent of traversal state.
// (a) every ordered quadruple over a point alphabet against the exact
// four-orientation criterion; (b) explicit-state search over the (c, acb) state
// of one EdgeCrosser per fixed edge AB, every transition a real method call.

func init() {
	Registry["C03"] = &Check{Level: "model_checking", QuickBudget: 150, ThoroughBudget: 1200, Run: runC03}
}

func c03Alphabet(n int) []s2.Point {
	deg := lattice.PDeg(false)
	var pts []s2.Point
	// exactly collinear families (x=0 plane and z=0 plane), axis points, an antipode, a same-direction copy
	want := func(p s2.Point) { pts = append(pts, p) }
	for _, p := range deg {
		if p.X == 0 || p.Z == 0 || p.X == p.Y {
			want(p)
		}
	}
	pts = lattice.Dedup(pts)
	if len(pts) > n-4 {
		// spread selection
		var sel []s2.Point
		step := float64(len(pts)) / float64(n-4)
		for i := 0; i < n-4; i++ {
			sel = append(sel, pts[int(float64(i)*step)])
		}
		pts = sel
	}
	// 1-ulp neighbours of two of them and one tiny-separation point
	pts = append(pts, lattice.PUlp(pts[1], 1)[0], lattice.PUlp(pts[2], 1)[26])
	pts = append(pts, s2.Point{Vector: pts[0].Mul(1 - 1.0/(1<<52))})
	pts = append(pts, lattice.PTiny(false)[3])
	return lattice.Dedup(pts)
}

func runC03(c *core.Ctx) {
	c.Rule = "(a) every ordered quadruple over an alphabet of exactly collinear, vertex-sharing, 1-ulp-neighbour and same-direction points (edges with exactly antipodal endpoints excluded): CrossingSign / VertexCrossing / EdgeOrVertexCrossing against the exact four-orientation criterion, all reversal and swap variants; (b) for every edge AB over a sub-alphabet a breadth-first search over the EdgeCrosser state (c, acb) read through a hook, alphabet = RestartAt, ChainCrossingSign, EdgeOrVertexChainCrossing, CrossingSign, EdgeOrVertexCrossing with every argument; plus every call sequence of length <= 3 without state merging; non-trivial = quadruples that share a vertex or contain an exactly collinear triple; states = distinct (AB, c, acb)"
	c.Assume = []string{
		"reference crossing = the documented four-orientation criterion evaluated with exact determinants and the documented symbolic perturbation (refmodel)",
		"(c, acb) are the only mutable fields of EdgeCrosser; a, b, aXb and the tangents are functions of (a, b) — this is the argument for merging states",
	}
	pts := c03Alphabet(core.Pick(c, 15, 24))
	n := len(pts)
	c.Note("quadruple_alphabet_size", n)
	crossName := map[int]string{-1: "DoNotCross", 0: "MaybeCross", 1: "Cross"}
	outcomes := make([]int64, 3)
	c.ParallelFor(n, func(ai int) {
		var evals, nontriv int64
		var oc [3]int64
		for bi := 0; bi < n; bi++ {
			a, b := pts[ai], pts[bi]
			if antipodal(a, b) {
				continue
			}
			for ci := 0; ci < n; ci++ {
				for di := 0; di < n; di++ {
					cc, d := pts[ci], pts[di]
					if antipodal(cc, d) || c.Skip("quadruples", ai, bi, ci, di) {
						continue
					}
					evals++
					cas := []int{ai, bi, ci, di}
					detail := func() any {
						return map[string]any{"a": ptStr(a), "b": ptStr(b), "c": ptStr(cc), "d": ptStr(d)}
					}
					c.Guard("quadruples", cas, detail, func() {
						want := refmodel.CrossingSign(a, b, cc, d)
						got := crossInt(s2.CrossingSign(a, b, cc, d))
						oc[want+1]++
						if got != want {
							c.Violate("quadruples", "wrong-answer", fmt.Sprintf("CrossingSign returned %s, the exact four-orientation criterion gives %s", crossName[got], crossName[want]), cas, detail())
						}
						if crossInt(s2.CrossingSign(b, a, cc, d)) != got || crossInt(s2.CrossingSign(a, b, d, cc)) != got || crossInt(s2.CrossingSign(cc, d, a, b)) != got || crossInt(s2.CrossingSign(d, cc, b, a)) != got {
							c.Violate("quadruples", "wrong-answer", "CrossingSign is not invariant under reversing an edge or swapping the edges", cas, detail())
						}
						share := a == cc || a == d || b == cc || b == d
						if share != (got == 0) {
							c.Violate("quadruples", "wrong-answer", "CrossingSign reports MaybeCross although no vertex is shared (or not although one is)", cas, detail())
						}
						if ev, wv := s2.EdgeOrVertexCrossing(a, b, cc, d), refmodel.EdgeOrVertexCrossing(a, b, cc, d); ev != wv {
							c.Violate("quadruples", "wrong-answer", "EdgeOrVertexCrossing differs from the exact reference", cas, detail())
						}
						if share {
							nontriv++
							vc := s2.VertexCrossing(a, b, cc, d)
							if vc != refmodel.VertexCrossing(a, b, cc, d) {
								c.Violate("vertex-crossing", "wrong-answer", "VertexCrossing differs from the documented rule evaluated exactly", cas, detail())
							}
							if a != b && cc != d {
								shared := 0
								for _, x := range []s2.Point{a, b} {
									if x == cc || x == d {
										shared++
									}
								}
								if shared == 1 {
									if vc == s2.VertexCrossing(cc, d, a, b) {
										c.Violate("vertex-crossing", "wrong-answer", "exactly one endpoint is shared but VertexCrossing(a,b,c,d) == VertexCrossing(c,d,a,b)", cas, detail())
									}
								}
								if shared == 2 && !vc {
									c.Violate("vertex-crossing", "wrong-answer", "VC(a,b,a,b) / VC(a,b,b,a) must be true", cas, detail())
								}
								if vc != s2.VertexCrossing(a, b, d, cc) || vc != s2.VertexCrossing(b, a, cc, d) || vc != s2.VertexCrossing(b, a, d, cc) {
									c.Violate("vertex-crossing", "wrong-answer", "VertexCrossing identity (3) (invariance under reversing either edge) is violated", cas, detail())
								}
							}
						} else if refmodel.ExactDetSign(a, b, cc) == 0 || refmodel.ExactDetSign(a, b, d) == 0 || refmodel.ExactDetSign(cc, d, a) == 0 || refmodel.ExactDetSign(cc, d, b) == 0 {
							nontriv++
						}
					})
				}
			}
		}
		c.Eval(int(evals))
		c.Nontrivial(int(nontriv))
		for i := range oc {
			c.Count("quadruples/reference_"+crossName[i-1], oc[i])
		}
		_ = outcomes
	})
	c.Sample(map[string]any{"sub": "quadruples", "a": ptStr(pts[0]), "b": ptStr(pts[3]), "c": ptStr(pts[1]), "d": ptStr(pts[5])})

	c03SharedVertexGeneric(c)
	c03Crosser(c, pts)
}

// c03SharedVertexGeneric: every triple (a, b, d) of points in general position, as the four
// quadruples in which CD shares exactly one endpoint with AB.  In general position the dot products
// of the tangent-plane early exit carry maximal rounding noise, so this is where an error bound that
// is slightly too small lets the early exit fire before the shared vertex is noticed.
func c03SharedVertexGeneric(c *core.Ctx) {
	g := lattice.PGeneric(!c.Quick())
	n := len(g)
	c.Note("shared_vertex_generic_alphabet", n)
	c.ParallelFor(n, func(ai int) {
		var evals int64
		a := g[ai]
		for bi, b := range g {
			if bi == ai {
				continue
			}
			for di, d := range g {
				if di == ai || di == bi {
					continue
				}
				for v, q := range [][2]s2.Point{{a, d}, {d, a}, {b, d}, {d, b}} {
					if c.Skip("shared-vertex-generic", ai, bi, di, v) {
						continue
					}
					evals++
					cas := []int{ai, bi, di, v}
					cc, dd := q[0], q[1]
					detail := func() any {
						return map[string]any{"a": ptStr(a), "b": ptStr(b), "c": ptStr(cc), "d": ptStr(dd)}
					}
					c.Guard("shared-vertex-generic", cas, detail, func() {
						if got := crossInt(s2.CrossingSign(a, b, cc, dd)); got != refmodel.MaybeCross {
							c.Violate("shared-vertex-generic", "wrong-answer", "CrossingSign does not report MaybeCross for two edges that share an endpoint", cas, detail())
						}
						cr := s2.NewChainEdgeCrosser(a, b, cc)
						if got := crossInt(cr.ChainCrossingSign(dd)); got != refmodel.MaybeCross {
							c.Violate("shared-vertex-generic", "wrong-answer", "ChainCrossingSign does not report MaybeCross for two edges that share an endpoint", cas, detail())
						}
						want := refmodel.VertexCrossing(a, b, cc, dd)
						if got := s2.EdgeOrVertexCrossing(a, b, cc, dd); got != want {
							c.Violate("shared-vertex-generic", "wrong-answer", "EdgeOrVertexCrossing differs from the exact vertex-crossing rule for two edges that share an endpoint", cas, detail())
						}
						if got := s2.VertexCrossing(a, b, cc, dd); got != want {
							c.Violate("shared-vertex-generic", "wrong-answer", "VertexCrossing differs from the documented rule evaluated exactly", cas, detail())
						}
					})
				}
			}
		}
		c.Eval(int(evals))
		c.Nontrivial(int(evals))
		c.Count("shared_vertex_generic/quadruples", evals)
	})
}

// crosser operations: the alphabet of machine (b)
type c03Op struct {
	kind int // 0 RestartAt(c) 1 ChainCrossingSign(d) 2 EdgeOrVertexChainCrossing(d) 3 CrossingSign(c,d) 4 EdgeOrVertexCrossing(c,d)
	x, y int
}

func (o c03Op) String() string {
	switch o.kind {
	case 0:
		return fmt.Sprintf("RestartAt(p%d)", o.x)
	case 1:
		return fmt.Sprintf("ChainCrossingSign(p%d)", o.x)
	case 2:
		return fmt.Sprintf("EdgeOrVertexChainCrossing(p%d)", o.x)
	case 3:
		return fmt.Sprintf("CrossingSign(p%d,p%d)", o.x, o.y)
	}
	return fmt.Sprintf("EdgeOrVertexCrossing(p%d,p%d)", o.x, o.y)
}

func c03Crosser(c *core.Ctx, all []s2.Point) {
	m := core.Pick(c, 8, 12)
	var pts []s2.Point
	step := float64(len(all)) / float64(m)
	for i := 0; i < m; i++ {
		pts = append(pts, all[int(float64(i)*step)])
	}
	var ops []c03Op
	for x := 0; x < m; x++ {
		ops = append(ops, c03Op{0, x, 0}, c03Op{1, x, 0}, c03Op{2, x, 0})
	}
	for x := 0; x < m; x++ {
		for y := 0; y < m; y++ {
			if !antipodal(pts[x], pts[y]) {
				ops = append(ops, c03Op{3, x, y}, c03Op{4, x, y})
			}
		}
	}
	c.Note("crosser/alphabet_points", m)
	c.Note("crosser/operations", len(ops))
	// apply runs one op on a live crosser whose previous chain vertex is prev (valid iff havePrev);
	// returns a violation descriptor or "".
	apply := func(e *s2.EdgeCrosser, a, b s2.Point, prev s2.Point, havePrev bool, o c03Op) (bad string, newPrev s2.Point, ok bool) {
		switch o.kind {
		case 0:
			e.RestartAt(pts[o.x])
			return "", pts[o.x], true
		case 1, 2:
			if !havePrev || antipodal(prev, pts[o.x]) {
				return "", prev, false
			}
			d := pts[o.x]
			if o.kind == 1 {
				got := crossInt(e.ChainCrossingSign(d))
				if want := refmodel.CrossingSign(a, b, prev, d); got != want {
					bad = fmt.Sprintf("ChainCrossingSign returned %d for the chain edge, the stateless exact answer is %d", got, want)
				}
			} else {
				got := e.EdgeOrVertexChainCrossing(d)
				if want := refmodel.EdgeOrVertexCrossing(a, b, prev, d); got != want {
					bad = fmt.Sprintf("EdgeOrVertexChainCrossing returned %v for the chain edge, the stateless exact answer is %v", got, want)
				}
			}
			return bad, d, true
		case 3:
			got := crossInt(e.CrossingSign(pts[o.x], pts[o.y]))
			if want := refmodel.CrossingSign(a, b, pts[o.x], pts[o.y]); got != want {
				bad = fmt.Sprintf("EdgeCrosser.CrossingSign returned %d, the stateless exact answer is %d", got, want)
			}
			return bad, pts[o.y], true
		}
		got := e.EdgeOrVertexCrossing(pts[o.x], pts[o.y])
		if want := refmodel.EdgeOrVertexCrossing(a, b, pts[o.x], pts[o.y]); got != want {
			bad = fmt.Sprintf("EdgeCrosser.EdgeOrVertexCrossing returned %v, the stateless exact answer is %v", got, want)
		}
		return bad, pts[o.y], true
	}
	type abT struct{ a, b int }
	var abs []abT
	for a := 0; a < m; a++ {
		for b := 0; b < m; b++ {
			if !antipodal(pts[a], pts[b]) {
				abs = append(abs, abT{a, b})
			}
		}
	}
	c.ParallelFor(len(abs), func(k int) {
		a, b := pts[abs[k].a], pts[abs[k].b]
		// BFS; a state is represented by the shortest op history reaching it.  States are merged on
		// every field of the crosser (reflective dump, so a field added to the implementation is part
		// of the key without anybody having to remember it) plus the harness' own chain position.
		seen := map[string]bool{"": true}
		frontier := [][]c03Op{nil}
		var states, trans int64 = 1, 0
		for len(frontier) > 0 {
			var next [][]c03Op
			for _, hist := range frontier {
				for oi, o := range ops {
					// replay on a fresh crosser
					e := s2.NewEdgeCrosser(a, b)
					var prev s2.Point
					have := false
					okHist := true
					for _, h := range hist {
						_, prev, _ = apply(e, a, b, prev, have, h)
						have = true
					}
					if !okHist {
						continue
					}
					var bad string
					var ok bool
					func() {
						defer func() {
							if r := recover(); r != nil {
								bad, ok = fmt.Sprintf("panic: %v", r), true
							}
						}()
						bad, prev, ok = apply(e, a, b, prev, have, o)
					}()
					if !ok {
						continue
					}
					trans++
					if bad != "" {
						var hs []string
						for _, h := range append(append([]c03Op(nil), hist...), o) {
							hs = append(hs, h.String())
						}
						c.Violate("crosser-bfs", "wrong-answer", bad, []int{k, len(hist), oi}, map[string]any{"a": ptStr(a), "b": ptStr(b), "history": hs, "points": ptsStr(pts)})
						continue
					}
					key := deepKey(e, prev)
					if !seen[key] {
						seen[key] = true
						states++
						next = append(next, append(append([]c03Op(nil), hist...), o))
					}
				}
			}
			frontier = next
		}
		c.MC(states, trans, trans)
		c.Eval(int(trans))
		c.Nontrivial(int(states))
		c.Count("crosser/states", states)
		c.Count("crosser/transitions", trans)
	})
	// every call sequence of length <= 3 without state merging, on a few edges AB
	seqABs := abs
	if len(seqABs) > core.Pick(c, 6, 20) {
		seqABs = seqABs[:core.Pick(c, 6, 20)]
	}
	// a reduced op alphabet for the cubic enumeration
	var sops []c03Op
	for _, o := range ops {
		if o.x < 5 && o.y < 5 {
			sops = append(sops, o)
		}
	}
	c.Note("crosser/sequence_ops", len(sops))
	c.ParallelFor(len(seqABs), func(k int) {
		a, b := pts[seqABs[k].a], pts[seqABs[k].b]
		var seqs int64
		var rec func(hist []c03Op)
		rec = func(hist []c03Op) {
			if len(hist) == 3 {
				return
			}
			for _, o := range sops {
				e := s2.NewEdgeCrosser(a, b)
				var prev s2.Point
				have := false
				for _, h := range hist {
					_, prev, _ = apply(e, a, b, prev, have, h)
					have = true
				}
				bad, _, ok := apply(e, a, b, prev, have, o)
				if !ok {
					continue
				}
				seqs++
				nh := append(append([]c03Op(nil), hist...), o)
				if bad != "" {
					var hs []string
					for _, h := range nh {
						hs = append(hs, h.String())
					}
					c.Violate("crosser-sequences", "wrong-answer", bad, nil, map[string]any{"a": ptStr(a), "b": ptStr(b), "history": hs, "points": ptsStr(pts)})
					continue
				}
				rec(nh)
			}
		}
		rec(nil)
		c.Eval(int(seqs))
		c.MC(0, seqs, seqs)
		c.Count("crosser/unmerged_sequences_len<=3", seqs)
	})
	c.Sample(map[string]any{"sub": "crosser-bfs", "a": ptStr(pts[0]), "b": ptStr(pts[2]), "example_history": []string{ops[0].String(), ops[4].String(), ops[len(ops)-1].String()}})
}
