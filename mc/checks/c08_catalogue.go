package checks

import (
	"fmt"

	"github.com/golang/geo/s1"
	"github.com/golang/geo/s2"

	"verif/mc/core"
	"verif/mc/lattice"
	"verif/mc/refmodel"
)

// C08 — the explicitly enumerated lattice: index catalogue, target catalogue, option grid.

// c08Shape is one shape of a catalogue index together with the reference model of its interior.
type c08Shape struct {
	mk   func() s2.Shape
	dim  int
	ref  refmodel.FastPolygon // dimension 2: the interior is the XOR of these loops (exact reference containment)
	full bool                 // dimension 2: the full polygon (no edges, contains every point)
}

func (s *c08Shape) contains(p s2.Point) bool {
	if s.full {
		return true
	}
	return s.ref.Contains(p)
}

type c08Index struct {
	name   string
	shapes []c08Shape
	// loops of the polygons of this index, used to derive targets inside / outside / across them
	loops [][]s2.Point
	// additional targets, MaxResults values and distance limits (degrees) used with this index only
	extraTargets []c08Target
	extraK       []int
	extraLimDeg  []float64
}

func c08Copy(v []s2.Point) []s2.Point { return append([]s2.Point(nil), v...) }

func c08Rev(v []s2.Point) []s2.Point {
	out := make([]s2.Point, len(v))
	for i := range v {
		out[len(v)-1-i] = v[i]
	}
	return out
}

// c08Reg returns the vertices (counter-clockwise) of a regular n-gon.
func c08Reg(lat, lng, rDeg float64, n int) []s2.Point {
	return c08Copy(s2.RegularLoop(lattice.LL(lat, lng), lattice.Deg(rDeg), n).Vertices())
}

func c08Ref(loops [][]s2.Point) refmodel.FastPolygon {
	var fp refmodel.FastPolygon
	for _, l := range loops {
		fp = append(fp, refmodel.NewFastLoop(l))
	}
	return fp
}

// c08Poly is an s2.Polygon built from loops that each enclose their (small) interior counter-clockwise;
// the polygon's interior is the set of points contained in an odd number of them.
func c08Poly(loops ...[]s2.Point) c08Shape {
	return c08Shape{dim: 2, ref: c08Ref(loops), mk: func() s2.Shape {
		var ls []*s2.Loop
		for _, l := range loops {
			ls = append(ls, s2.LoopFromPoints(c08Copy(l)))
		}
		return s2.PolygonFromLoops(ls)
	}}
}

// c08LaxPoly is the same region as an s2.LaxPolygon: loops at odd nesting depth are given clockwise.
func c08LaxPoly(depth []int, loops ...[]s2.Point) c08Shape {
	return c08Shape{dim: 2, ref: c08Ref(loops), mk: func() s2.Shape {
		var ls [][]s2.Point
		for i, l := range loops {
			if depth[i]%2 == 1 {
				ls = append(ls, c08Rev(l))
			} else {
				ls = append(ls, c08Copy(l))
			}
		}
		return s2.LaxPolygonFromPoints(ls)
	}}
}

func c08LaxLoop(loop []s2.Point) c08Shape {
	return c08Shape{dim: 2, ref: c08Ref([][]s2.Point{loop}), mk: func() s2.Shape { return s2.LaxLoopFromPoints(c08Copy(loop)) }}
}

func c08LineV(lat0, lng0, dlat, dlng float64, n int) []s2.Point {
	var v []s2.Point
	for i := 0; i < n; i++ {
		v = append(v, lattice.LL(lat0+dlat*float64(i), lng0+dlng*float64(i)))
	}
	return v
}

// c08Line is an s2.Polyline with n vertices (n-1 edges; none for n <= 1).
func c08Line(lat0, lng0, dlat, dlng float64, n int) c08Shape {
	return c08Shape{dim: 1, mk: func() s2.Shape { pl := s2.Polyline(c08LineV(lat0, lng0, dlat, dlng, n)); return &pl }}
}

func c08LaxLine(lat0, lng0, dlat, dlng float64, n int) c08Shape {
	return c08Shape{dim: 1, mk: func() s2.Shape { return s2.LaxPolylineFromPoints(c08LineV(lat0, lng0, dlat, dlng, n)) }}
}

func c08Pts(ps ...s2.Point) c08Shape {
	return c08Shape{dim: 0, mk: func() s2.Shape { pv := s2.PointVector(c08Copy(ps)); return &pv }}
}

// c08Cluster is a point vector of n points on a tiny spiral (step in degrees) around a centre.
func c08Cluster(lat, lng, step float64, n int) c08Shape {
	var ps []s2.Point
	for i := 0; i < n; i++ {
		ps = append(ps, lattice.LL(lat+step*float64(i%4)+step*0.25*float64(i/4), lng+step*float64((i*7)%5)))
	}
	return c08Pts(ps...)
}

func c08Indexes(c *core.Ctx) []c08Index {
	R := c08Reg
	ix := func(name string, loops [][]s2.Point, shapes ...c08Shape) c08Index {
		return c08Index{name: name, shapes: shapes, loops: loops}
	}
	L := func(l ...[]s2.Point) [][]s2.Point { return l }
	var scatter []s2.Point
	for i := 0; i < 40; i++ {
		scatter = append(scatter, lattice.LL(-60+3*float64(i), -170+8.5*float64(i)))
	}
	fullPoly := c08Shape{dim: 2, full: true, mk: func() s2.Shape { return s2.FullPolygon() }}
	emptyPoly := c08Shape{dim: 2, mk: func() s2.Shape { return s2.PolygonFromLoops(nil) }}
	// nested rings around (0,0): shell, hole, inner shell, innermost hole
	n1, n2, n3, n4 := R(0, 0, 12, 20), R(0, 0, 8, 16), R(0, 0, 4, 12), R(0, 0, 1.5, 8)
	// concentric polygons at very different scales (separate, overlapping shapes): index cells span many levels
	var deep []c08Shape
	var deepLoops [][]s2.Point
	for _, r := range []float64{40, 3, 0.1, 1e-3, 1e-5, 1e-7} {
		l := R(10, 10, r, 12)
		deep = append(deep, c08Poly(l))
		deepLoops = append(deepLoops, l)
	}
	deep = append(deep, c08Line(10-4e-6, 10-4e-6, 1e-6, 1e-6, 9))
	out := []c08Index{
		// --- the catalogue of the first version (1..6 faces) ---
		ix("1-face/8-edges(brute force)", L(R(0, 0, 5, 8)), c08Poly(R(0, 0, 5, 8))),
		ix("1-face/28-edges", L(R(0, 0, 5, 20)), c08Poly(R(0, 0, 5, 20)), c08Line(-3, -8, 0.7, 2.1, 9)),
		ix("1-face/100-edges", L(R(0, 0, 10, 60), R(3, 4, 2, 30)), c08Poly(R(0, 0, 10, 60)), c08Poly(R(3, 4, 2, 30)), c08Line(-12, -14, 2.5, 3, 10), c08Pts(lattice.LL(1, 1), lattice.LL(-20, 20))),
		ix("2-faces/60-edges", L(R(0, 45, 12, 40)), c08Poly(R(0, 45, 12, 40)), c08Line(-10, 20, 1, 3, 21)),
		ix("3-faces/cube-corner/80-edges", L(R(35.26, 45, 15, 50)), c08Poly(R(35.26, 45, 15, 50)), c08Line(20, 30, 1, 1, 31)),
		ix("3-faces/separate-shapes", L(R(0, 0, 6, 20), R(80, 10, 6, 20)), c08Poly(R(0, 0, 6, 20)), c08Poly(R(0, 90, 6, 20)), c08Poly(R(80, 10, 6, 20))),
		ix("4-faces/equator-band", nil, c08Line(5, -170, 0, 7, 49)),
		ix("6-faces", L(R(0, 0, 4, 12), R(-88, 0, 4, 12)), c08Poly(R(0, 0, 4, 12)), c08Poly(R(0, 90, 4, 12)), c08Poly(R(0, 180, 4, 12)), c08Poly(R(0, -90, 4, 12)), c08Poly(R(88, 0, 4, 12)), c08Poly(R(-88, 0, 4, 12))),
		ix("points-only/40", nil, c08Pts(scatter...)),
		// --- degenerate indexes ---
		ix("empty-index", nil),
		ix("single-point", nil, c08Pts(lattice.LL(2, 3))),
		ix("edgeless-shapes-only(polyline-0,polyline-1,empty-polygon)", nil, c08Line(0, 0, 1, 1, 0), c08Line(1, 1, 1, 1, 1), emptyPoly),
		ix("edgeless-shapes-between-real-ones/34-edges", L(R(2, 3, 3, 12)), c08Line(0, 0, 1, 1, 0), c08Poly(R(2, 3, 3, 12)), c08Line(1, 1, 1, 1, 1), c08LaxLine(-9, -9, 1.5, 2, 23), emptyPoly),
		ix("full-polygon-only", nil, fullPoly),
		ix("full-polygon+40-edge-polyline", nil, fullPoly, c08Line(-10, -20, 0.5, 1, 41)),
		ix("full-polygon+8-edge-polygon", L(R(0, 0, 5, 8)), c08Poly(R(0, 0, 5, 8)), fullPoly),
		ix("sphere-minus-cap/36-edges", L(R(0, 0, 6, 36)), c08Poly(c08Rev(R(0, 0, 6, 36)))),
		// --- holes and nested shells ---
		ix("polygon-with-hole/40-edges", L(R(0, 0, 10, 24), R(0, 0, 4, 16)), c08Poly(R(0, 0, 10, 24), R(0, 0, 4, 16))),
		ix("nested-shells/56-edges", L(n1, n2, n3, n4), c08Poly(n1, n2, n3, n4)),
		ix("nested-shells-lax-polygon/56-edges", L(n1, n2, n3, n4), c08LaxPoly([]int{0, 1, 2, 3}, n1, n2, n3, n4)),
		ix("hole-off-centre+overlapping-polygon/70-edges", L(R(3, 4, 9, 24), R(5, 6, 3, 16), R(-2, 0, 6, 30)), c08Poly(R(3, 4, 9, 24), R(5, 6, 3, 16)), c08Poly(R(-2, 0, 6, 30))),
		ix("lax-shapes(loop,polyline,polygon)/62-edges", L(R(2, 3, 5, 20), R(-4, -6, 3, 10)), c08LaxLoop(R(2, 3, 5, 20)), c08LaxLine(-12, -14, 1.5, 2, 33), c08LaxPoly([]int{0}, R(-4, -6, 3, 10))),
		ix("lax-shapes/cube-corner/16-edges(brute force)", L(R(35.26, 45, 7, 9)), c08LaxLoop(R(35.26, 45, 7, 9)), c08LaxLine(30, 40, 1.5, 1.5, 8)),
		// --- edge counts around the brute-force thresholds (25/26 for closest index targets, 30/31 otherwise) ---
		ix("threshold/24-edges", L(R(0, 44, 5, 24)), c08Poly(R(0, 44, 5, 24))),
		ix("threshold/25-edges", L(R(0, 44, 5, 25)), c08Poly(R(0, 44, 5, 25))),
		ix("threshold/26-edges", L(R(0, 44, 5, 26)), c08Poly(R(0, 44, 5, 26))),
		ix("threshold/30-edges", L(R(0, 44, 5, 30)), c08Poly(R(0, 44, 5, 30))),
		ix("threshold/31-edges", L(R(0, 44, 5, 31)), c08Poly(R(0, 44, 5, 31))),
		ix("threshold/32-edges", L(R(0, 44, 5, 32)), c08Poly(R(0, 44, 5, 32))),
		ix("threshold/25-edges/3-shapes", L(R(2, 3, 4, 12)), c08Poly(R(2, 3, 4, 12)), c08Line(-5, -5, 1, 2.5, 9), c08Pts(scatter[18:23]...)),
		ix("threshold/26-edges/3-shapes", L(R(2, 3, 4, 12)), c08Poly(R(2, 3, 4, 12)), c08Line(-5, -5, 1, 2.5, 9), c08Pts(scatter[18:24]...)),
		ix("threshold/30-edges/3-shapes", L(R(2, 3, 4, 16)), c08Poly(R(2, 3, 4, 16)), c08Line(-5, -5, 1, 2.5, 9), c08Pts(scatter[18:24]...)),
		ix("threshold/31-edges/3-shapes", L(R(2, 3, 4, 16)), c08Poly(R(2, 3, 4, 16)), c08Line(-5, -5, 1, 2.5, 9), c08Pts(scatter[17:24]...)),
		// --- index cells with 9 / 10 / 11 (and more) edges: below, at and above the enqueue threshold of the search ---
		ix("clusters-9-10-11-points+polyline/38-edges", nil, c08Cluster(10, 10, 1e-4, 9), c08Cluster(10, -20, 1e-4, 10), c08Cluster(-15, 30, 1e-4, 11), c08Line(40, 100, 0.5, 1, 9)),
		ix("clusters-10-points-x4/40-edges", nil, c08Cluster(10, 10, 1e-5, 10), c08Cluster(10.01, 10.01, 1e-5, 10), c08Cluster(-30, 100, 1e-3, 10), c08Cluster(60, -100, 1e-2, 10)),
		ix("star-of-long-edges/36-edges(cells with many edges)", nil, func() c08Shape {
			// 36 long edges through one small neighbourhood: index cells there hold more than 10 edges
			return c08Shape{dim: 1, mk: func() s2.Shape {
				var v []s2.Point
				for i := 0; i < 37; i++ {
					a := float64(i) * 10
					v = append(v, lattice.LL(20+15*cosf(a*0.0174532925199433)*float64(1-2*(i%2)), 30+15*sinf(a*0.0174532925199433)*float64(1-2*(i%2))))
				}
				pl := s2.Polyline(v)
				return &pl
			}}
		}()),
		// --- deep index ---
		{name: "deep/concentric-scales-40deg..1e-7deg/80-edges", shapes: deep, loops: deepLoops[1:5]},
	}
	out = append(out, c08PileIndexes()...)
	if !c.Quick() {
		var many []s2.Point
		for i := 0; i < 300; i++ {
			many = append(many, lattice.LL(-70+0.45*float64(i), -179+1.19*float64(i)))
		}
		b1, b2, b3 := R(20, 30, 30, 700), R(20, 30, 15, 400), R(20, 30, 5, 200)
		out = append(out,
			ix("1-face/deep/300-edges", L(R(10, 10, 0.01, 100), R(10.001, 10.001, 0.002, 100)), c08Poly(R(10, 10, 0.01, 100)), c08Poly(R(10.001, 10.001, 0.002, 100)), c08Line(9.99, 9.99, 0.0002, 0.0002, 100)),
			ix("5-faces/200-edges", L(R(10, 10, 80, 100)), c08Poly(R(10, 10, 80, 100)), c08Line(-80, -170, 1.6, 3.4, 100)),
			ix("2-faces/27-edges", L(R(0, 44, 5, 27)), c08Poly(R(0, 44, 5, 27))),
			ix("2-faces/29-edges", L(R(0, 44, 5, 29)), c08Poly(R(0, 44, 5, 29))),
			ix("nested-shells+lax-copy+points/152-edges", L(n1, n2, n3, n4), c08Poly(n1, n2, n3, n4), c08LaxPoly([]int{0, 1, 2, 3}, R(0, 60, 12, 20), R(0, 60, 8, 16), R(0, 60, 4, 12), R(0, 60, 1.5, 8)), c08Pts(scatter...)),
			ix("big/2000-edges(rings 700+400+200, polyline 400, points 300)", L(b1, b2, b3), c08Poly(b1, b2, b3), c08Line(-60, -150, 0.3, 0.7, 401), c08Pts(many...)),
			ix("big/1000-edges/6-faces", L(R(0, 0, 20, 200), R(-88, 0, 10, 150)), c08Poly(R(0, 0, 20, 200)), c08LaxLoop(R(0, 90, 20, 150)), c08Poly(R(0, 180, 20, 150)), c08LaxPoly([]int{0}, R(0, -90, 20, 150)), c08Poly(R(88, 0, 10, 200)), c08Poly(R(-88, 0, 10, 150))),
		)
	} else {
		out = append(out,
			ix("big/400-edges(rings 200+100, polyline 60, points 40)", L(R(20, 30, 30, 200), R(20, 30, 15, 100)), c08Poly(R(20, 30, 30, 200), R(20, 30, 15, 100)), c08Line(-60, -150, 2, 4.5, 61), c08Pts(scatter...)),
		)
	}
	return out
}

// c08PileIndexes: indexes with LEAF (level-30) index cells.  A leaf index cell only arises when more than 10 edges
// cannot be separated by subdivision: a pile of 12 coincident points.  The pile sits at the centre of the k-th leaf
// child (k = 0..3) of a level-29 cell, at the first leaf of a face (its id equals RangeMin of every ancestor) and at
// the last leaf of a face (RangeMax of every ancestor).  The pile shares its cube face with other shapes and the index
// spans several faces, so that the optimized search descends level by level to the level-29 parent and has to decide
// which of its children are empty.  60 other edges keep the index above the brute-force thresholds.
func c08PileIndexes() []c08Index {
	pile := func(id s2.CellID) c08Shape {
		p := id.Point()
		var ps []s2.Point
		for i := 0; i < 12; i++ {
			ps = append(ps, p)
		}
		return c08Pts(ps...)
	}
	off := func(p s2.Point, rad float64) s2.Point {
		u := s2.Ortho(p)
		return s2.Point{Vector: p.Add(u.Mul(rad)).Normalize()}
	}
	targets := func(tag string, id s2.CellID) []c08Target {
		p := id.Point()
		return []c08Target{
			c08PointTarget(tag+"/1e-10rad-from-the-pile", off(p, 1e-10)),
			c08PointTarget(tag+"/the-pile-point", p),
			c08PointTarget(tag+"/3m-from-the-pile", off(p, 5e-7)),
			c08PointTarget(tag+"/antipode-of-the-pile", c08Anti(p)),
			c08EdgeTarget(tag+"/passing-2m-from-the-pile", off(p, 3e-7), s2.Point{Vector: off(p, 3e-7).Add(s2.Ortho(off(p, 3e-7)).Cross(p.Vector).Mul(0.09)).Normalize()}),
			c08EdgeTarget(tag+"/through-the-pile", off(p, -2e-7), off(p, 2e-7)),
			c08CellTarget(tag+"/leaf-of-the-pile", id),
			c08CellTarget(tag+"/parent-of-the-pile-leaf", id.Parent(29)),
			c08CellTarget(tag+"/grandparent-of-the-pile-leaf", id.Parent(28)),
			c08CellTarget(tag+"/level-20-ancestor-of-the-pile-leaf", id.Parent(20)),
			c08CellTarget(tag+"/sibling-leaf", id.Parent(29).Children()[(id.ChildPosition(30)+1)%4]),
		}
	}
	others := func() []c08Shape {
		return []c08Shape{c08Poly(c08Reg(0, 45, 12, 40)), c08Line(-10, 20, 1, 3, 21)}
	}
	var out []c08Index
	p29 := s2.CellFromPoint(lattice.LL(-25, 20)).ID().Parent(29)
	for k := 0; k < 4; k++ {
		leaf := p29.Children()[k]
		out = append(out, c08Index{
			name:         fmt.Sprintf("leaf-index-cell/pile-of-12-coincident-points-in-child-%d-of-a-level-29-cell/72-edges", k),
			shapes:       append(others(), pile(leaf)),
			loops:        [][]s2.Point{c08Reg(0, 45, 12, 40)},
			extraTargets: targets(fmt.Sprintf("child-%d", k), leaf),
			extraK:       []int{12, 13},
			extraLimDeg:  []float64{0.00027},
		})
	}
	first := s2.CellIDFromFace(0).ChildBeginAtLevel(30)
	last := s2.CellIDFromFace(0).ChildEndAtLevel(30).Prev()
	out = append(out,
		c08Index{name: "leaf-index-cell/pile-at-the-first-leaf-of-face-0(id == RangeMin of every ancestor)/72-edges", shapes: append(others(), pile(first)),
			extraTargets: targets("first-leaf", first), extraK: []int{12, 13}, extraLimDeg: []float64{0.00027}},
		c08Index{name: "leaf-index-cell/pile-at-the-last-leaf-of-face-0(id == RangeMax of every ancestor)/72-edges", shapes: append(others(), pile(last)),
			extraTargets: targets("last-leaf", last), extraK: []int{12, 13}, extraLimDeg: []float64{0.00027}},
		c08Index{name: "leaf-index-cell/piles-at-first-and-last-leaf-of-face-0-and-in-all-4-children/132-edges",
			shapes:       append(others(), pile(first), pile(last), pile(p29.Children()[0]), pile(p29.Children()[1]), pile(p29.Children()[2]), pile(p29.Children()[3])),
			extraTargets: append(targets("first-leaf", first), targets("child-2", p29.Children()[2])...), extraK: []int{12, 48}, extraLimDeg: []float64{0.00027}},
	)
	return out
}

// ---------------------------------------------------------------------------------------------

type c08Target struct {
	name string
	kind byte // 'p' point, 'e' edge, 'c' cell, 'i' index
	min  func() any
	max  func() any
	// one list of representative points per connected component of the target (closest queries; the
	// antipodes are used for furthest queries)
	comps [][]s2.Point
	// index targets: the shapes of the target index (with the reference model of their interiors)
	tshapes []c08Shape
}

// exact reports whether the target's per-edge distance is computed without looking at the running limit
// (cell targets: Cell.DistanceToEdge is evaluated first and compared afterwards).
func (t *c08Target) exact() bool { return t.kind == 'c' }

// usesMaxError: index targets forward MaxError to their own search.
func (t *c08Target) usesMaxError() bool { return t.kind == 'i' }

// bruteMax is maxBruteForceIndexSize of the target type as written in s2/min_distance_targets.go and
// s2/max_distance_targets.go (used only to predict which path a query takes; the prediction is compared with the
// path counter hook, it is not an oracle).
func (t *c08Target) bruteMax(furthest bool) int {
	if t.kind == 'i' && !furthest {
		return 25
	}
	return 30
}

func c08PointTarget(name string, p s2.Point) c08Target {
	return c08Target{name: "point:" + name, kind: 'p', comps: [][]s2.Point{{p}},
		min: func() any { return s2.NewMinDistanceToPointTarget(p) }, max: func() any { return s2.NewMaxDistanceToPointTarget(p) }}
}

func c08EdgeTarget(name string, a, b s2.Point) c08Target {
	e := s2.Edge{V0: a, V1: b}
	mid := s2.Point{Vector: a.Add(b.Vector).Normalize()}
	return c08Target{name: "edge:" + name, kind: 'e', comps: [][]s2.Point{{a, b, mid}},
		min: func() any { return s2.NewMinDistanceToEdgeTarget(e) }, max: func() any { return s2.NewMaxDistanceToEdgeTarget(e) }}
}

func c08CellTarget(name string, id s2.CellID) c08Target {
	cell := s2.CellFromCellID(id)
	rep := []s2.Point{cell.Vertex(0), cell.Vertex(1), cell.Vertex(2), cell.Vertex(3), cell.Center()}
	return c08Target{name: fmt.Sprintf("cell:%s/level-%d", name, id.Level()), kind: 'c', comps: [][]s2.Point{rep},
		min: func() any { return s2.NewMinDistanceToCellTarget(cell) }, max: func() any { return s2.NewMaxDistanceToCellTarget(cell) }}
}

func c08IndexTarget(name string, shapes ...c08Shape) c08Target {
	mk := func() *s2.ShapeIndex {
		ix := s2.NewShapeIndex()
		for _, s := range shapes {
			ix.Add(s.mk())
		}
		return ix
	}
	var comps [][]s2.Point
	for _, sh := range shapes {
		s := sh.mk()
		if sh.full {
			// the full polygon is one component without a boundary; any point represents it
			comps = append(comps, []s2.Point{s2.OriginPoint()})
			continue
		}
		for ci := 0; ci < s.NumChains(); ci++ {
			ch := s.Chain(ci)
			var v []s2.Point
			for j := 0; j < ch.Length; j++ {
				e := s.Edge(ch.Start + j)
				v = append(v, e.V0)
				if j == ch.Length-1 {
					v = append(v, e.V1)
				}
			}
			if len(v) > 0 {
				comps = append(comps, v)
			}
		}
	}
	return c08Target{name: "index:" + name, kind: 'i', comps: comps, tshapes: shapes,
		min: func() any { return s2.NewMinDistanceToShapeIndexTarget(mk()) }, max: func() any { return s2.NewMaxDistanceToShapeIndexTarget(mk()) }}
}

func c08Anti(p s2.Point) s2.Point { return s2.Point{Vector: p.Mul(-1)} }

// c08BaseTargets are used with every index.
func c08BaseTargets(c *core.Ctx) []c08Target {
	var ts []c08Target
	LL := lattice.LL
	for _, p := range []struct {
		n string
		p s2.Point
	}{
		{"inside-polygon(0,0)", LL(0, 0)}, {"near(2,3)", LL(2, 3)}, {"cube-corner", LL(35.26, 45)}, {"far(-40,120)", LL(-40, 120)}, {"pole", LL(90, 0)},
		{"in-ring(0,6)", LL(0, 6)}, {"in-ring(0,9.5)", LL(0, 9.5)}, {"in-inner-shell(0,2.5)", LL(0, 2.5)}, {"antipode-of(0,0)", LL(0, 180)}, {"antipode-of(0,6)", c08Anti(LL(0, 6))},
		{"antipode-of(2,3)", c08Anti(LL(2, 3))}, {"deep-centre(10,10)", LL(10, 10)}, {"antipode-of-deep-centre", c08Anti(LL(10, 10))},
	} {
		ts = append(ts, c08PointTarget(p.n, p.p))
	}
	for _, e := range []struct {
		n    string
		a, b s2.Point
	}{
		{"crossing", LL(-8, -8), LL(9, 7)}, {"far", LL(50, 100), LL(60, 130)},
		{"degenerate(0,0)", LL(0, 0), LL(0, 0)}, {"degenerate(0,6)", LL(0, 6), LL(0, 6)}, {"degenerate-antipode-of(0,2.5)", c08Anti(LL(0, 2.5)), c08Anti(LL(0, 2.5))},
		{"inside-inner-shell", LL(0, -2), LL(1, 2)}, {"inside-ring", LL(1, 5), LL(-1, 6.5)},
		{"long-175deg-across-several-shapes", LL(0, -80), LL(0, 95)}, {"nearly-antipodal-179.999deg", LL(0, -90), LL(0.001, 90)},
		{"antipode-of-inside-ring", c08Anti(LL(1, 5)), c08Anti(LL(-1, 6.5))}, {"antipode-of-crossing", c08Anti(LL(-8, -8)), c08Anti(LL(9, 7))},
	} {
		ts = append(ts, c08EdgeTarget(e.n, e.a, e.b))
	}
	leaf := func(p s2.Point) s2.CellID { return s2.CellFromPoint(p).ID() }
	for _, lv := range []int{0, 1, 5, 15, 30} {
		ts = append(ts, c08CellTarget("at(4,4.5)", leaf(LL(4, 4.5)).Parent(lv)))
	}
	for _, lv := range core.Pick(c, []int{5, 30}, []int{1, 5, 15, 30}) {
		ts = append(ts, c08CellTarget("at(0.3,0.2)", leaf(LL(0.3, 0.2)).Parent(lv)))
		ts = append(ts, c08CellTarget("antipode-of(0.3,0.2)", leaf(c08Anti(LL(0.3, 0.2))).Parent(lv)))
	}
	for _, lv := range core.Pick(c, []int{5}, []int{5, 15}) {
		ts = append(ts, c08CellTarget("in-ring(0,6)", leaf(LL(0, 6)).Parent(lv)))
	}
	ts = append(ts, c08CellTarget("north-face", s2.CellIDFromFace(2)), c08CellTarget("face-3(antipode of face 0)", s2.CellIDFromFace(3)))
	ts = append(ts, c08CellTarget("deep-centre(10,10)", leaf(LL(10, 10)).Parent(12)), c08CellTarget("deep-centre(10,10)", leaf(LL(10, 10)).Parent(24)))
	// index targets
	ts = append(ts,
		c08IndexTarget("polyline+points", c08Shape{dim: 1, mk: func() s2.Shape {
			pl := s2.Polyline{LL(-20, -30), LL(-5, -6), LL(7, 12), LL(30, 60)}
			return &pl
		}}, c08Pts(LL(0, 91), LL(-70, 10))),
		c08IndexTarget("small-polyline-near(2,3)", c08Line(1.5, 2.5, 0.3, 0.4, 4)),
		c08IndexTarget("small-polygon-in-ring(0,6)", c08Poly(c08Reg(0, 6, 0.8, 5))),
		c08IndexTarget("polygon-r7-around(0,0)+point", c08Poly(c08Reg(0, 0, 7, 6)), c08Pts(LL(0, 2.5))),
		c08IndexTarget("40-edge-lax-polyline-ring(optimized nested search)", c08LaxLine(-6, -6, 0.3, 0.3, 41)),
		c08IndexTarget("empty", c08Line(0, 0, 1, 1, 0)),
		c08IndexTarget("full-polygon", c08Shape{dim: 2, full: true, mk: func() s2.Shape { return s2.FullPolygon() }}),
		c08IndexTarget("antipodal-small-polygon+points", c08Poly(c08Reg(0, -174, 1, 4)), c08Pts(c08Anti(LL(0, 2.5)), c08Anti(LL(2, 3)))),
	)
	return ts
}

// c08DerivedTargets are derived from the index's own geometry: vertices, edge midpoints, 1-ulp neighbours of a
// vertex and antipodes (decisive for furthest-edge queries), and for every polygon loop of the index points / edges /
// cells inside, outside and across it (and their antipodes).
func c08DerivedTargets(c *core.Ctx, ii int, idx c08Index) []c08Target {
	var ts []c08Target
	var pts []s2.Point
	for _, sh := range idx.shapes {
		s := sh.mk()
		n := s.NumEdges()
		step := n/core.Pick(c, 2, 8) + 1
		for e := 0; e < n; e += step {
			ed := s.Edge(e)
			pts = append(pts, ed.V0, c08Anti(ed.V0))
			if ed.V0 != ed.V1 {
				pts = append(pts, s2.Interpolate(0.5, ed.V0, ed.V1))
			}
		}
		if n > 0 {
			pts = append(pts, lattice.PUlp(s.Edge(0).V1, 1)[5], lattice.PUlp(s.Edge(0).V1, 1)[20])
		}
	}
	pts = lattice.Dedup(pts)
	for k, p := range pts {
		ts = append(ts, c08PointTarget(fmt.Sprintf("own-geometry-%d-of-index-%d", k, ii), p))
	}
	ts = append(ts, idx.extraTargets...)
	maxLoops := core.Pick(c, 2, 4)
	for li, l := range idx.loops {
		if li >= maxLoops {
			break
		}
		var sum s2.Point
		for _, v := range l {
			sum = s2.Point{Vector: sum.Add(v.Vector)}
		}
		ctr := s2.Point{Vector: sum.Normalize()}
		v0, vh := l[0], l[len(l)/2]
		in := s2.Interpolate(0.9, ctr, v0)
		outp := s2.Interpolate(1.1, ctr, v0)
		nm := func(s string) string { return fmt.Sprintf("%s-loop-%d-of-index-%d", s, li, ii) }
		ts = append(ts,
			c08PointTarget(nm("centre"), ctr), c08PointTarget(nm("just-inside"), in), c08PointTarget(nm("just-outside"), outp),
			c08PointTarget(nm("antipode-of-centre"), c08Anti(ctr)), c08PointTarget(nm("antipode-of-just-inside"), c08Anti(in)),
			c08EdgeTarget(nm("inside"), s2.Interpolate(0.5, ctr, vh), s2.Interpolate(0.5, ctr, v0)),
			c08EdgeTarget(nm("across-boundary"), ctr, s2.Interpolate(1.5, ctr, v0)),
			c08EdgeTarget(nm("antipode-of-inside"), c08Anti(s2.Interpolate(0.5, ctr, vh)), c08Anti(s2.Interpolate(0.5, ctr, v0))),
			c08EdgeTarget(nm("vertex-to-vertex"), v0, vh),
		)
		leaf := s2.CellFromPoint(in).ID()
		r := float64(ctr.Distance(v0))
		// the largest cell level whose cells (diameter ~ 2^-level * 2.1 rad at most) fit between "just inside" and the boundary
		lvIn := 30
		for lv := 0; lv <= 30; lv++ {
			if float64(s2.MaxDiagMetric.Value(lv)) < 0.08*r {
				lvIn = lv
				break
			}
		}
		lvs := []int{lvIn, 30}
		if !c.Quick() && lvIn+6 < 30 {
			lvs = append(lvs, lvIn+6)
		}
		for _, lv := range lvs {
			ts = append(ts, c08CellTarget(nm("just-inside"), leaf.Parent(lv)), c08CellTarget(nm("antipode-of-just-inside"), s2.CellFromPoint(c08Anti(in)).ID().Parent(lv)))
		}
		if lvIn >= 2 {
			ts = append(ts, c08CellTarget(nm("across-boundary"), s2.CellFromPoint(v0).ID().Parent(lvIn-1)), c08CellTarget(nm("containing-the-loop"), s2.CellFromPoint(ctr).ID().Parent(maxI(lvIn-5, 0))))
		}
	}
	return ts
}

func maxI(a, b int) int {
	if a > b {
		return a
	}
	return b
}

// ---------------------------------------------------------------------------------------------

type c08Opts struct {
	maxResults int // 0 = unlimited
	limit      s1.ChordAngle
	hasLimit   bool
	maxError   s1.ChordAngle
	interiors  bool
	brute      bool
}

func (o c08Opts) String() string {
	return fmt.Sprintf("MaxResults=%d limit=%v(%v) MaxError=%v interiors=%v brute=%v", o.maxResults, float64(o.limit), o.hasLimit, float64(o.maxError), o.interiors, o.brute)
}

// c08Grid builds the option grid of one (index, target, direction): n is the number of edges of the index, D the
// sorted true per-edge distances (best first).  level 2 = full product, 1 = quick product, 0 = large indexes.
// UseBruteForce is the innermost coordinate (false, then true) so that consecutive entries are differential pairs.
func c08Grid(level, n int, D []float64, furthest, has2D bool, extraK []int, extraLimDeg []float64) []c08Opts {
	// MaxResults
	var ks []int
	addK := func(k int) {
		if k < 0 {
			return
		}
		for _, x := range ks {
			if x == k {
				return
			}
		}
		ks = append(ks, k)
	}
	for _, k := range []int{1, 2, 3, 5, n - 1, n, n + 1} {
		if k >= 1 {
			addK(k)
		}
	}
	addK(0)
	if level == 0 {
		ks = nil
		for _, k := range []int{1, 3, n, 0} {
			addK(k)
		}
	}
	for _, k := range extraK {
		addK(k)
	}
	// DistanceLimit: none, the "nothing qualifies" limit, fixed angles, and limits derived from the query's own true
	// distances: exactly the k-th distance, its next float up and its next float down
	type lim struct {
		v   float64
		has bool
	}
	lims := []lim{{0, false}}
	addL := func(v float64) {
		if v < 0 || v > 4 || v != v {
			return
		}
		for _, x := range lims {
			if x.has && x.v == v {
				return
			}
		}
		lims = append(lims, lim{v, true})
	}
	deg := func(d float64) float64 { return float64(s1.ChordAngleFromAngle(lattice.Deg(d))) }
	if furthest {
		addL(4)
		addL(deg(9))
		addL(deg(180 - 9))
		addL(deg(180 - 0.5))
		if level > 1 {
			addL(deg(180 - 0.002))
			addL(0)
		}
	} else {
		addL(0)
		addL(deg(9))
		addL(deg(0.5))
		addL(deg(0.002))
		if level > 1 {
			addL(deg(1e-5))
			addL(4)
		}
	}
	for _, d := range extraLimDeg {
		if furthest {
			addL(deg(180 - d))
		} else {
			addL(deg(d))
		}
	}
	if m := len(D); m > 0 {
		idxs := []int{0, 1, m / 2, m - 1}
		if level == 0 {
			idxs = []int{1, m / 2}
		}
		for _, k := range idxs {
			if k < 0 || k >= m {
				continue
			}
			addL(D[k])
			if level < 2 && k == m/2 && k != 1 && k != 0 {
				continue // quick: the median distance only exactly
			}
			addL(nextUp(D[k]))
			addL(nextDown(D[k]))
		}
	}
	rad := func(r float64) s1.ChordAngle { return s1.ChordAngleFromAngle(s1.Angle(r)) }
	meFull := []s1.ChordAngle{0, rad(1e-15), rad(0.02), rad(1), s1.StraightChordAngle}
	meSmall := []s1.ChordAngle{0, rad(0.02)}
	ins := []bool{true, false}
	if !has2D {
		ins = []bool{true}
	}
	var grid []c08Opts
	for _, k := range ks {
		for li, l := range lims {
			mes := meFull
			if level < 2 {
				// reduced product: the rarer MaxError values only with MaxResults in {1, 2, n} and the first limits
				mes = meSmall
				if (k == 1 || k == 2 || k == n) && (li < 3 || li%4 == 1) {
					mes = meFull
				}
			}
			for _, me := range mes {
				for _, in := range ins {
					if level < 2 && !in && me != 0 {
						continue // reduced product: interiors off only with MaxError 0
					}
					for _, br := range []bool{false, true} {
						grid = append(grid, c08Opts{k, s1.ChordAngle(l.v), l.has, me, in, br})
					}
				}
			}
		}
	}
	return grid
}
