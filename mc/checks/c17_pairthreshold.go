package checks

import (
	"math"
	"sort"

	"github.com/golang/geo/r3"
	"github.com/golang/geo/s1"
	"github.com/golang/geo/s2"

	"verif/mc/core"
	"verif/mc/refmodel"
)

// Sub-check "edge-pair-thresholds": the edge-to-edge distance primitive (updateEdgePairMinDistance /
// updateEdgePairMaxDistance) is reached the way users reach it: an edge target against an index
// holding one edge, through Distance, IsDistanceLess and IsDistanceGreater.  For every pair A, B
// (B's endpoints from a cloud of points around A: beside, beyond and across it) in all 8 orientations
// the four vertex-to-edge distances are computed by the exact-arithmetic reference; the limits are
// the midpoints between consecutive ones (and half the smallest, twice the largest), so that every
// limit separates the distances cleanly and each of the four vertex tests is, for some limit, the
// only one that can move the running minimum.  The threshold answers must be those of the true
// edge-pair distance, and Distance must equal it.
func init() {
	ck := Registry["C17"]
	run := ck.Run
	ck.Run = func(c *core.Ctx) {
		run(c)
		c17PairThresholds(c)
	}
}

func c17PairThresholds(c *core.Ctx) {
	sub := "edge-pair-thresholds"
	type edge struct{ a0, a1 s2.Point }
	type job struct {
		A     edge
		cloud []s2.Point
	}
	var jobs []job
	lens := core.Pick(c, []float64{1e-5, 0.02, 0.6}, []float64{1e-7, 1e-5, 1e-3, 0.02, 0.3, 0.6})
	for _, a0 := range c17Bases(c) {
		for _, az := range []float64{0.3, 2.0} {
			u0 := s2.Ortho(a0).Vector
			v0 := a0.Cross(u0).Normalize()
			dir := u0.Mul(math.Cos(az)).Add(v0.Mul(math.Sin(az))).Normalize()
			n := a0.Cross(dir).Normalize()
			for _, L := range lens {
				a1 := c17At(a0, dir, L)
				var cloud []s2.Point
				for _, t := range []float64{-0.4, 0.15, 0.5, 0.9, 1.3} {
					p := c17At(a0, dir, t*L)
					for _, h := range []float64{0.07, 0.9, -0.31, -1.2} {
						cloud = append(cloud, c17N(p.Mul(math.Cos(h*L)).Add(n.Mul(math.Sin(h*L)))))
					}
				}
				jobs = append(jobs, job{edge{a0, a1}, cloud})
			}
		}
	}
	ang := func(l float64) s1.ChordAngle { return s1.ChordAngleFromAngle(s1.Angle(l)) }
	c.ParallelFor(len(jobs), func(ji int) {
		if c.Expired() {
			return
		}
		jb := jobs[ji]
		var ev, decisive int64
		for bi, b0 := range jb.cloud {
			for bj, b1 := range jb.cloud {
				if bi == bj || c.Skip(sub, ji, bi, bj) {
					continue
				}
				for o := 0; o < 8; o++ {
					a0, a1, x0, x1 := jb.A.a0, jb.A.a1, b0, b1
					if o&1 != 0 {
						a0, a1 = a1, a0
					}
					if o&2 != 0 {
						x0, x1 = x1, x0
					}
					if o&4 != 0 {
						a0, a1, x0, x1 = x0, x1, a0, a1
					}
					cas := []int{ji, bi, bj, o}
					detail := func() any {
						return map[string]any{"target_edge": []string{ptStr(a0), ptStr(a1)}, "indexed_edge": []string{ptStr(x0), ptStr(x1)}}
					}
					c.Guard(sub, cas, detail, func() {
						crossing := refmodel.CrossingSign(a0, a1, x0, x1) >= 0
						ds := []float64{
							refmodel.DistPointEdge(a0.Vector, x0.Vector, x1.Vector), refmodel.DistPointEdge(a1.Vector, x0.Vector, x1.Vector),
							refmodel.DistPointEdge(x0.Vector, a0.Vector, a1.Vector), refmodel.DistPointEdge(x1.Vector, a0.Vector, a1.Vector)}
						neg := func(v r3.Vector) r3.Vector { return v.Mul(-1) }
						ms := []float64{
							math.Pi - refmodel.DistPointEdge(neg(a0.Vector), x0.Vector, x1.Vector), math.Pi - refmodel.DistPointEdge(neg(a1.Vector), x0.Vector, x1.Vector),
							math.Pi - refmodel.DistPointEdge(neg(x0.Vector), a0.Vector, a1.Vector), math.Pi - refmodel.DistPointEdge(neg(x1.Vector), a0.Vector, a1.Vector)}
						sort.Float64s(ds)
						sort.Float64s(ms)
						trueMin, trueMax := ds[0], ms[3]
						if crossing {
							trueMin = 0
						}
						ix := s2.NewShapeIndex()
						pl := s2.Polyline{x0, x1}
						ix.Add(&pl)
						cq := s2.NewClosestEdgeQuery(ix, s2.NewClosestEdgeQueryOptions())
						fq := s2.NewFurthestEdgeQuery(ix, s2.NewFurthestEdgeQueryOptions())
						tmin := s2.NewMinDistanceToEdgeTarget(s2.Edge{V0: a0, V1: a1})
						tmax := s2.NewMaxDistanceToEdgeTarget(s2.Edge{V0: a0, V1: a1})
						ev++
						tol := func(d float64) float64 { return 1e-14 + 1e-9*d }
						if got := cq.Distance(tmin).Angle().Radians(); math.Abs(got-trueMin) > tol(trueMin) {
							c.Violate(sub, "wrong-answer", "ClosestEdgeQuery.Distance(edge target) on a one-edge index differs from the exact edge-pair distance", cas,
								map[string]any{"target_edge": []string{ptStr(a0), ptStr(a1)}, "indexed_edge": []string{ptStr(x0), ptStr(x1)}, "got": got, "want": trueMin})
							return
						}
						if got := fq.Distance(tmax).Angle().Radians(); math.Abs(got-trueMax) > 1e-7 {
							c.Violate(sub, "wrong-answer", "FurthestEdgeQuery.Distance(edge target) on a one-edge index differs from the exact maximum edge-pair distance", cas,
								map[string]any{"target_edge": []string{ptStr(a0), ptStr(a1)}, "indexed_edge": []string{ptStr(x0), ptStr(x1)}, "got": got, "want": trueMax})
							return
						}
						// limits between consecutive vertex-to-edge distances
						var limits []float64
						if ds[0] > 1e-12 {
							limits = append(limits, ds[0]/2)
						}
						for i := 0; i+1 < 4; i++ {
							if ds[i+1]-ds[i] > 1e-6*ds[i+1] && ds[i+1]-ds[i] > 1e-13 {
								limits = append(limits, (ds[i]+ds[i+1])/2)
							}
						}
						limits = append(limits, math.Min(2*ds[3], ds[3]+0.1))
						for li, lim := range limits {
							want := trueMin < lim
							if math.Abs(trueMin-lim) < 1e-7*lim+1e-14 {
								continue
							}
							decisive++
							if got := cq.IsDistanceLess(tmin, ang(lim)); got != want {
								c.Violate(sub, "wrong-answer", "ClosestEdgeQuery.IsDistanceLess(edge target, limit) contradicts the exact edge-pair distance (limit between two of the four vertex-to-edge distances)", append(cas, li),
									map[string]any{"target_edge": []string{ptStr(a0), ptStr(a1)}, "indexed_edge": []string{ptStr(x0), ptStr(x1)}, "limit": lim, "true_distance": trueMin, "vertex_edge_distances": ds, "got": got})
								return
							}
						}
						var mlimits []float64
						for i := 0; i+1 < 4; i++ {
							if ms[i+1]-ms[i] > 1e-6 {
								mlimits = append(mlimits, (ms[i]+ms[i+1])/2)
							}
						}
						mlimits = append(mlimits, ms[0]/2)
						if trueMax < math.Pi-1e-3 {
							mlimits = append(mlimits, (trueMax+math.Pi)/2)
						}
						for li, lim := range mlimits {
							want := trueMax > lim
							if math.Abs(trueMax-lim) < 1e-6 {
								continue
							}
							decisive++
							if got := fq.IsDistanceGreater(tmax, ang(lim)); got != want {
								c.Violate(sub, "wrong-answer", "FurthestEdgeQuery.IsDistanceGreater(edge target, limit) contradicts the exact maximum edge-pair distance", append(cas, 100+li),
									map[string]any{"target_edge": []string{ptStr(a0), ptStr(a1)}, "indexed_edge": []string{ptStr(x0), ptStr(x1)}, "limit": lim, "true_max_distance": trueMax, "vertex_edge_max_distances": ms, "got": got})
								return
							}
						}
					})
				}
			}
		}
		c.Eval(int(ev))
		c.Nontrivial(int(decisive))
		c.Count(sub+"/oriented_pairs", ev)
		c.Count(sub+"/threshold_questions", decisive)
	})
}
