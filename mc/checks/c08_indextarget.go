package checks

import (
	"fmt"
	"math"
	"sync/atomic"

	"github.com/golang/geo/s1"
	"github.com/golang/geo/s2"

	"verif/mc/core"
	"verif/mc/lattice"
)

// Sub-check "compact-index-targets": closest / furthest edge queries whose target is a second
// ShapeIndex of SMALL extent (its own index cells are small, so the cap bound of the target is small)
// under finite distance limits.  The search starts from a covering of "cap bound of the target grown
// by the limit"; a cap bound in the wrong place loses every result, which a target spanning a
// hemisphere can never show.  Oracle: the optimized search and the brute-force scan of the same query
// return the same number of results and the same distances (within the documented tolerance).
func init() {
	ck := Registry["C08"]
	run := ck.Run
	ck.Run = func(c *core.Ctx) {
		run(c)
		c08CompactIndexTargets(c)
	}
}

func c08CompactIndexTargets(c *core.Ctx) {
	sub := "compact-index-targets"
	d := lattice.Deg
	mkIndex := func() *s2.ShapeIndex {
		ix := s2.NewShapeIndex()
		ix.Add(s2.PolygonFromLoops([]*s2.Loop{s2.RegularLoop(lattice.LL(0, 0), d(5), 60)}))
		pl := s2.Polyline{lattice.LL(-10, 20), lattice.LL(-5, 25), lattice.LL(0, 31), lattice.LL(6, 33)}
		ix.Add(&pl)
		return ix
	}
	type tgt struct {
		name string
		mk   func() *s2.ShapeIndex
	}
	var targets []tgt
	centres := [][2]float64{{0, 7}, {0, 0}, {3, 28}, {40, -100}, {0, 173}, {-89, 10}}
	if !c.Quick() {
		centres = append(centres, [2]float64{0, 5.2}, [2]float64{-7, 22}, [2]float64{60, 60}, [2]float64{0, -90}, [2]float64{35.26, 45})
	}
	for _, ct := range centres {
		ct := ct
		for _, r := range core.Pick(c, []float64{0.5, 0.01}, []float64{2, 0.5, 0.05, 0.001}) {
			r := r
			targets = append(targets, tgt{fmt.Sprintf("polygon(40 vertices, radius %g deg) at %v", r, ct), func() *s2.ShapeIndex {
				t := s2.NewShapeIndex()
				t.Add(s2.PolygonFromLoops([]*s2.Loop{s2.RegularLoop(lattice.LL(ct[0], ct[1]), d(r), 40)}))
				return t
			}})
		}
		targets = append(targets, tgt{fmt.Sprintf("cluster of 14 points at %v", ct), func() *s2.ShapeIndex {
			t := s2.NewShapeIndex()
			var pv s2.PointVector
			for k := 0; k < 14; k++ {
				pv = append(pv, lattice.LL(ct[0]+0.001*float64(k%4), ct[1]+0.001*float64(k/4)))
			}
			t.Add(&pv)
			return t
		}}, tgt{fmt.Sprintf("polyline (12 edges, 0.1 deg) at %v", ct), func() *s2.ShapeIndex {
			t := s2.NewShapeIndex()
			var pl s2.Polyline
			for k := 0; k < 13; k++ {
				pl = append(pl, lattice.LL(ct[0]+0.008*float64(k), ct[1]+0.004*float64(k%3)))
			}
			t.Add(&pl)
			return t
		}})
	}
	limits := []s1.Angle{d(0.5), d(3), d(10), d(40), d(100), d(179)}
	var evals, optimized int64
	for ti, tg := range targets {
		for li, lim := range limits {
			for _, k := range []int{1, 5, 0} {
				for _, furthest := range []bool{false, true} {
					cas := []int{ti, li, k, b2i(furthest)}
					if c.Skip(sub, cas...) {
						continue
					}
					detail := func() any {
						return map[string]any{"target": tg.name, "limit_deg": lim.Degrees(), "max_results": k, "furthest": furthest}
					}
					c.Guard(sub, cas, detail, func() {
						evals++
						runQ := func(brute bool) []s2.EdgeQueryResult {
							var opts *s2.EdgeQueryOptions
							if furthest {
								opts = s2.NewFurthestEdgeQueryOptions()
							} else {
								opts = s2.NewClosestEdgeQueryOptions()
							}
							if k > 0 {
								opts.MaxResults(k)
							}
							opts.DistanceLimit(s1.ChordAngleFromAngle(lim)).IncludeInteriors(false).UseBruteForce(brute)
							if furthest {
								return s2.NewFurthestEdgeQuery(mkIndex(), opts).FindEdges(s2.NewMaxDistanceToShapeIndexTarget(tg.mk()))
							}
							return s2.NewClosestEdgeQuery(mkIndex(), opts).FindEdges(s2.NewMinDistanceToShapeIndexTarget(tg.mk()))
						}
						before := s2.VerifEdgeQueryPaths.Optimized
						got := runQ(false)
						if s2.VerifEdgeQueryPaths.Optimized > before {
							optimized++
						}
						want := runQ(true)
						kind := "closest"
						if furthest {
							kind = "furthest"
						}
						if len(got) != len(want) {
							c.Violate(sub, "wrong-answer", fmt.Sprintf("%s-edge query with a compact ShapeIndex target and a finite distance limit: the optimized search returns a different number of results than the brute-force scan of the same query", kind), cas,
								map[string]any{"target": tg.name, "limit_deg": lim.Degrees(), "max_results": k, "optimized_results": len(got), "brute_force_results": len(want)})
							return
						}
						for i := range got {
							if !c08Near(float64(got[i].Distance()), float64(want[i].Distance())) {
								c.Violate(sub, "wrong-answer", fmt.Sprintf("%s-edge query with a compact ShapeIndex target: the i-th distance of the optimized search differs from the brute-force scan", kind), cas,
									map[string]any{"target": tg.name, "limit_deg": lim.Degrees(), "max_results": k, "i": i, "optimized": float64(got[i].Distance()), "brute_force": float64(want[i].Distance())})
								return
							}
						}
					})
				}
			}
		}
	}
	c.Eval(int(evals))
	c.Nontrivial(int(optimized))
	c.Count(sub+"/queries", evals)
	c.Count(sub+"/answered_by_the_optimized_search", optimized)
}

// Sub-check "index-target-max-error": closest edge of index A to index B with MaxResults(1), a positive
// MaxError and NO distance limit — the one combination in which the target's own inner query is allowed
// to stop early (a ShapeIndex target is the only target type that uses MaxError) and in which the outer
// search must therefore lower every cell distance by MaxError before pruning.  Whether a cell is pruned
// wrongly depends on the geometry, so B is moved over a polar grid of positions around A for several
// sizes of A, B and MaxError.  Oracle: the reported distance is at most MaxError (as an angle) above the
// exact minimum found by the brute-force scan with MaxError 0.
func init() {
	ck := Registry["C08"]
	run := ck.Run
	ck.Run = func(c *core.Ctx) {
		run(c)
		c08IndexTargetMaxError(c)
	}
}

func c08IndexTargetMaxError(c *core.Ctx) {
	sub := "index-target-max-error"
	type shapeKind struct {
		name string
		mk   func(ctr s2.Point, r float64, n int) *s2.ShapeIndex
	}
	loopIx := func(ctr s2.Point, r float64, n int) *s2.ShapeIndex {
		ix := s2.NewShapeIndex()
		ix.Add(s2.RegularLoop(ctr, s1.Angle(r), n))
		return ix
	}
	cloudIx := func(ctr s2.Point, r float64, n int) *s2.ShapeIndex {
		// points on a sunflower spiral inside the cap (deterministic, roughly uniform)
		var pv s2.PointVector
		ox := s2.Ortho(ctr)
		oy := s2.Point{Vector: ctr.Cross(ox.Vector).Normalize()}
		for k := 0; k < n; k++ {
			rr := r * math.Sqrt((float64(k)+0.5)/float64(n))
			az := 2.399963229728653 * float64(k)
			d := ox.Mul(math.Cos(az)).Add(oy.Mul(math.Sin(az)))
			pv = append(pv, s2.Point{Vector: ctr.Mul(math.Cos(rr)).Add(d.Mul(math.Sin(rr))).Normalize()})
		}
		ix := s2.NewShapeIndex()
		ix.Add(&pv)
		return ix
	}
	kinds := []shapeKind{{"loop", loopIx}, {"point cloud", cloudIx}}
	ctrs := []s2.Point{lattice.LL(12, 34)}
	if !c.Quick() {
		ctrs = append(ctrs, lattice.LL(35.26, 45), lattice.LL(-89, 10))
	}
	radii := core.Pick(c, []float64{0.3, 0.01}, []float64{0.5, 0.1, 0.01, 0.001})
	nas := core.Pick(c, []int{60, 200}, []int{40, 120, 240})
	nbs := core.Pick(c, []int{12, 60}, []int{12, 40, 100})
	rbs := []float64{0.1, 0.45, 1}
	dists := core.Pick(c, []float64{0, 0.7, 1.3, 2, 3}, []float64{0, 0.4, 0.7, 1, 1.3, 1.7, 2, 3})
	nAz := core.Pick(c, 8, 16)
	epss := core.Pick(c, []float64{1, 0.3, 0.1, 0.03}, []float64{1, 0.5, 0.3, 0.1, 0.05, 0.03, 0.01})
	type job struct {
		ci, ka, kb    int
		r, rb, d, eps float64
		na, nb, az    int
	}
	var jobs []job
	for ci := range ctrs {
		for ka := range kinds {
			for kb := range kinds {
				for _, r := range radii {
					for _, na := range nas {
						for _, nb := range nbs {
							for _, rb := range rbs {
								for _, d := range dists {
									for az := 0; az < nAz; az++ {
										if d == 0 && az > 0 {
											continue
										}
										for _, eps := range epss {
											jobs = append(jobs, job{ci, ka, kb, r, rb, d, eps, na, nb, az})
										}
									}
								}
							}
						}
					}
				}
			}
		}
	}
	var evals, optimized, slackUsed atomic.Int64
	c.ParallelFor(len(jobs), func(ji int) {
		jb := jobs[ji]
		cas := []int{ji}
		if c.Skip(sub, cas...) || c.Expired() {
			return
		}
		detail := func() any {
			return map[string]any{"A": fmt.Sprintf("%s, %d edges, radius %g rad", kinds[jb.ka].name, jb.na, jb.r), "B": fmt.Sprintf("%s, %d edges, radius %g x A's", kinds[jb.kb].name, jb.nb, jb.rb),
				"B_centre": fmt.Sprintf("%g x A's radius from A's centre, azimuth %d/%d", jb.d, jb.az, nAz), "max_error_rad": jb.eps * jb.r}
		}
		c.Guard(sub, cas, detail, func() {
			ctr := ctrs[jb.ci]
			ox := s2.Ortho(ctr)
			oy := s2.Point{Vector: ctr.Cross(ox.Vector).Normalize()}
			az := 2 * math.Pi * (float64(jb.az) + 0.37) / float64(nAz)
			dir := ox.Mul(math.Cos(az)).Add(oy.Mul(math.Sin(az)))
			bc := s2.Point{Vector: ctr.Mul(math.Cos(jb.d * jb.r)).Add(dir.Mul(math.Sin(jb.d * jb.r))).Normalize()}
			a := kinds[jb.ka].mk(ctr, jb.r, jb.na)
			eps := s1.ChordAngleFromAngle(s1.Angle(jb.eps * jb.r))
			before := s2.VerifEdgeQueryPaths.Optimized
			got := s2.NewClosestEdgeQuery(a, s2.NewClosestEdgeQueryOptions().MaxResults(1).MaxError(eps).IncludeInteriors(false)).
				FindEdges(s2.NewMinDistanceToShapeIndexTarget(kinds[jb.kb].mk(bc, jb.rb*jb.r, jb.nb)))
			if s2.VerifEdgeQueryPaths.Optimized > before {
				optimized.Add(1)
			}
			want := s2.NewClosestEdgeQuery(a, s2.NewClosestEdgeQueryOptions().MaxResults(1).UseBruteForce(true).IncludeInteriors(false)).
				FindEdges(s2.NewMinDistanceToShapeIndexTarget(kinds[jb.kb].mk(bc, jb.rb*jb.r, jb.nb)))
			evals.Add(1)
			if len(got) != 1 || len(want) != 1 {
				c.Violate(sub, "wrong-answer", "closest-edge query with a ShapeIndex target, MaxResults(1), MaxError > 0 and no limit does not return exactly one result", cas, detail())
				return
			}
			limit := want[0].Distance().Add(eps)
			tol := c08Tol(float64(limit)) + 1e-9*float64(limit)
			if float64(got[0].Distance()) > float64(want[0].Distance())+c08Tol(float64(want[0].Distance())) {
				slackUsed.Add(1)
			}
			if float64(got[0].Distance()) > float64(limit)+tol {
				over := (got[0].Distance().Angle() - want[0].Distance().Angle()).Radians() / (jb.eps * jb.r)
				c.Violate(sub, "wrong-answer", "closest-edge query with a ShapeIndex target, MaxResults(1), MaxError > 0 and no distance limit reports a distance more than MaxError above the true minimum", cas,
					map[string]any{"case": detail(), "reported_rad": got[0].Distance().Angle().Radians(), "true_minimum_rad": want[0].Distance().Angle().Radians(), "excess_in_units_of_MaxError": over})
			}
		})
	})
	c.Eval(int(evals.Load()))
	c.Nontrivial(int(slackUsed.Load()))
	c.Count(sub+"/queries", evals.Load())
	c.Count(sub+"/answered_by_the_optimized_search", optimized.Load())
	c.Count(sub+"/answers_that_used_part_of_the_permitted_error", slackUsed.Load())
}
