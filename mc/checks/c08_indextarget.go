package checks

import (
	"fmt"

	"github.com/golang/geo/s1"
	"github.com/golang/geo/s2"

	"verif/mc/core"
	"verif/mc/lattice"
)

// Sub-check "compact-index-targets": closest / furthest edge queries whose target is a second
// ShapeIndex of SMALL extent (its own index cells are small, so the cap bound of the target is small)
// under finite distance limits.  The search starts from a covering of "cap bound of the target grown
// by the limit"; a cap bound in the wrong place loses every result, which a target spanning a
// hemisphere can never show.  Oracle: the optimized search and the brute-force scan of the same query
// return the same number of results and the same distances (within the documented tolerance).
func init() {
	ck := Registry["C08"]
	run := ck.Run
	ck.Run = func(c *core.Ctx) {
		run(c)
		c08CompactIndexTargets(c)
	}
}

func c08CompactIndexTargets(c *core.Ctx) {
	sub := "compact-index-targets"
	d := lattice.Deg
	mkIndex := func() *s2.ShapeIndex {
		ix := s2.NewShapeIndex()
		ix.Add(s2.PolygonFromLoops([]*s2.Loop{s2.RegularLoop(lattice.LL(0, 0), d(5), 60)}))
		pl := s2.Polyline{lattice.LL(-10, 20), lattice.LL(-5, 25), lattice.LL(0, 31), lattice.LL(6, 33)}
		ix.Add(&pl)
		return ix
	}
	type tgt struct {
		name string
		mk   func() *s2.ShapeIndex
	}
	var targets []tgt
	centres := [][2]float64{{0, 7}, {0, 0}, {3, 28}, {40, -100}, {0, 173}, {-89, 10}}
	if !c.Quick() {
		centres = append(centres, [2]float64{0, 5.2}, [2]float64{-7, 22}, [2]float64{60, 60}, [2]float64{0, -90}, [2]float64{35.26, 45})
	}
	for _, ct := range centres {
		ct := ct
		for _, r := range core.Pick(c, []float64{0.5, 0.01}, []float64{2, 0.5, 0.05, 0.001}) {
			r := r
			targets = append(targets, tgt{fmt.Sprintf("polygon(40 vertices, radius %g deg) at %v", r, ct), func() *s2.ShapeIndex {
				t := s2.NewShapeIndex()
				t.Add(s2.PolygonFromLoops([]*s2.Loop{s2.RegularLoop(lattice.LL(ct[0], ct[1]), d(r), 40)}))
				return t
			}})
		}
		targets = append(targets, tgt{fmt.Sprintf("cluster of 14 points at %v", ct), func() *s2.ShapeIndex {
			t := s2.NewShapeIndex()
			var pv s2.PointVector
			for k := 0; k < 14; k++ {
				pv = append(pv, lattice.LL(ct[0]+0.001*float64(k%4), ct[1]+0.001*float64(k/4)))
			}
			t.Add(&pv)
			return t
		}}, tgt{fmt.Sprintf("polyline (12 edges, 0.1 deg) at %v", ct), func() *s2.ShapeIndex {
			t := s2.NewShapeIndex()
			var pl s2.Polyline
			for k := 0; k < 13; k++ {
				pl = append(pl, lattice.LL(ct[0]+0.008*float64(k), ct[1]+0.004*float64(k%3)))
			}
			t.Add(&pl)
			return t
		}})
	}
	limits := []s1.Angle{d(0.5), d(3), d(10), d(40), d(100), d(179)}
	var evals, optimized int64
	for ti, tg := range targets {
		for li, lim := range limits {
			for _, k := range []int{1, 5, 0} {
				for _, furthest := range []bool{false, true} {
					cas := []int{ti, li, k, b2i(furthest)}
					if c.Skip(sub, cas...) {
						continue
					}
					detail := func() any {
						return map[string]any{"target": tg.name, "limit_deg": lim.Degrees(), "max_results": k, "furthest": furthest}
					}
					c.Guard(sub, cas, detail, func() {
						evals++
						runQ := func(brute bool) []s2.EdgeQueryResult {
							var opts *s2.EdgeQueryOptions
							if furthest {
								opts = s2.NewFurthestEdgeQueryOptions()
							} else {
								opts = s2.NewClosestEdgeQueryOptions()
							}
							if k > 0 {
								opts.MaxResults(k)
							}
							opts.DistanceLimit(s1.ChordAngleFromAngle(lim)).IncludeInteriors(false).UseBruteForce(brute)
							if furthest {
								return s2.NewFurthestEdgeQuery(mkIndex(), opts).FindEdges(s2.NewMaxDistanceToShapeIndexTarget(tg.mk()))
							}
							return s2.NewClosestEdgeQuery(mkIndex(), opts).FindEdges(s2.NewMinDistanceToShapeIndexTarget(tg.mk()))
						}
						before := s2.VerifEdgeQueryPaths.Optimized
						got := runQ(false)
						if s2.VerifEdgeQueryPaths.Optimized > before {
							optimized++
						}
						want := runQ(true)
						kind := "closest"
						if furthest {
							kind = "furthest"
						}
						if len(got) != len(want) {
							c.Violate(sub, "wrong-answer", fmt.Sprintf("%s-edge query with a compact ShapeIndex target and a finite distance limit: the optimized search returns a different number of results than the brute-force scan of the same query", kind), cas,
								map[string]any{"target": tg.name, "limit_deg": lim.Degrees(), "max_results": k, "optimized_results": len(got), "brute_force_results": len(want)})
							return
						}
						for i := range got {
							if !c08Near(float64(got[i].Distance()), float64(want[i].Distance())) {
								c.Violate(sub, "wrong-answer", fmt.Sprintf("%s-edge query with a compact ShapeIndex target: the i-th distance of the optimized search differs from the brute-force scan", kind), cas,
									map[string]any{"target": tg.name, "limit_deg": lim.Degrees(), "max_results": k, "i": i, "optimized": float64(got[i].Distance()), "brute_force": float64(want[i].Distance())})
								return
							}
						}
					})
				}
			}
		}
	}
	c.Eval(int(evals))
	c.Nontrivial(int(optimized))
	c.Count(sub+"/queries", evals)
	c.Count(sub+"/answered_by_the_optimized_search", optimized)
}
