package checks

import (
	"fmt"
	"sort"
	"strings"

	"github.com/golang/geo/s1"
	"github.com/golang/geo/s2"

	"verif/mc/core"
)

// Sub-check "remove-last-histories": ShapeIndex.Remove in the one form that works on the pinned tree —
// removing the most recently added shape(s) and then only querying (removal of an earlier shape, or an
// Add after a removal, already loses shapes on the pinned tree: applyUpdatesInternal iterates to
// len(shapes) instead of the next id; recorded in DESIGN.md section 8 as outside every property's
// operation alphabet).  All ordered selections of 1-3 shapes from a catalogue that includes the
// edge-less shapes with an interior (full polygon, full loop, full lax polygon), built or not before
// the removal, one or two removals; the answers of ContainsPointQuery (three vertex models) and
// CrossingEdgeQuery must equal those of a fresh index holding the remaining shapes.
func init() {
	ck := Registry["C06"]
	run := ck.Run
	ck.Run = func(c *core.Ctx) {
		run(c)
		c06RemoveLastHistories(c)
	}
}

func c06RemoveLastHistories(c *core.Ctx) {
	sub := "remove-last-histories"
	ll := func(lat, lng float64) s2.Point { return s2.PointFromLatLng(s2.LatLngFromDegrees(lat, lng)) }
	cat := []struct {
		name string
		mk   func() s2.Shape
	}{
		{"full polygon", func() s2.Shape { return s2.FullPolygon() }},
		{"full loop", func() s2.Shape { return s2.FullLoop() }},
		{"full lax polygon", func() s2.Shape { return s2.LaxPolygonFromPoints([][]s2.Point{{}}) }},
		{"40-gon", func() s2.Shape { return s2.PolygonFromLoops([]*s2.Loop{s2.RegularLoop(ll(10, 20), 8*s1.Degree, 40)}) }},
		{"polyline", func() s2.Shape { pl := s2.Polyline{ll(0, 10), ll(12, 22), ll(20, 40)}; return &pl }},
		{"points", func() s2.Shape { pv := s2.PointVector{ll(10, 20), ll(-50, 100)}; return &pv }},
	}
	probes := []s2.Point{ll(10, 20), ll(11, 21), ll(-50, 100), ll(70, -80), ll(12, 22), ll(0, 0)}
	panel := func(ix *s2.ShapeIndex, names map[s2.Shape]string) string {
		var sb strings.Builder
		for _, m := range []s2.VertexModel{s2.VertexModelOpen, s2.VertexModelSemiOpen, s2.VertexModelClosed} {
			q := s2.NewContainsPointQuery(ix, m)
			for _, p := range probes {
				var cs []string
				for _, sh := range q.ContainingShapes(p) {
					if sh == nil {
						cs = append(cs, "<nil shape>")
					} else {
						cs = append(cs, names[sh])
					}
				}
				sort.Strings(cs)
				fmt.Fprint(&sb, q.Contains(p), cs, ";")
			}
		}
		m := s2.NewCrossingEdgeQuery(ix).CrossingsEdgeMap(ll(-5, 5), ll(25, 45), s2.CrossingTypeAll)
		var es []string
		for sh, e := range m {
			es = append(es, fmt.Sprint(names[sh], e))
		}
		sort.Strings(es)
		fmt.Fprint(&sb, es, ix.Len(), ix.NumEdges())
		return sb.String()
	}
	var sel [][]int
	var rec func(cur []int)
	rec = func(cur []int) {
		if len(cur) > 0 {
			sel = append(sel, append([]int(nil), cur...))
		}
		if len(cur) == 3 {
			return
		}
		for k := range cat {
			dup := false
			for _, x := range cur {
				if x == k {
					dup = true
				}
			}
			if !dup {
				rec(append(cur, k))
			}
		}
	}
	rec(nil)
	var histories, removedEdgeless int64
	for si, s := range sel {
		for built := 0; built < 2; built++ {
			for removals := 1; removals <= 2 && removals <= len(s); removals++ {
				cas := []int{si, built, removals}
				if c.Skip(sub, cas...) {
					continue
				}
				detail := func() any {
					var ns []string
					for _, k := range s {
						ns = append(ns, cat[k].name)
					}
					return map[string]any{"added": ns, "built_before_removal": built == 1, "removals_of_the_last_shape": removals}
				}
				c.Guard(sub, cas, detail, func() {
					ix := s2.NewShapeIndex()
					names := map[s2.Shape]string{}
					var objs []s2.Shape
					for _, k := range s {
						sh := cat[k].mk()
						names[sh] = cat[k].name
						objs = append(objs, sh)
						ix.Add(sh)
					}
					if built == 1 {
						ix.Build()
						_ = panel(ix, names) // the index has been used
					}
					for r := 0; r < removals; r++ {
						last := objs[len(objs)-1]
						if last.NumEdges() == 0 {
							removedEdgeless++
						}
						ix.Remove(last)
						objs = objs[:len(objs)-1]
					}
					fresh := s2.NewShapeIndex()
					fnames := map[s2.Shape]string{}
					for i := range objs {
						sh := cat[s[i]].mk()
						fnames[sh] = cat[s[i]].name
						fresh.Add(sh)
					}
					histories++
					got, want := panel(ix, names), panel(fresh, fnames)
					if got != want {
						c.Violate(sub, "wrong-answer", "after removing the most recently added shape(s) the index answers differently from a fresh index holding the remaining shapes", cas,
							map[string]any{"history": detail(), "got": trunc(got, 400), "want": trunc(want, 400), "first_difference_at_byte": firstDiff(got, want)})
					}
				})
			}
		}
	}
	c.Eval(int(histories))
	c.Nontrivial(int(removedEdgeless))
	c.Count(sub+"/histories", histories)
	c.Count(sub+"/removals_of_an_edgeless_shape", removedEdgeless)
}
