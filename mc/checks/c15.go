package checks

import (
	"bufio"
	"bytes"
	"encoding/binary"
	"encoding/json"
	"fmt"
	"io"
	"math"
	"os"
	"os/exec"
	"runtime"
	"runtime/debug"
	"sort"
	"strconv"
	"strings"
	"sync"
	"syscall"
	"time"

	"github.com/golang/geo/s1"
	"github.com/golang/geo/s2"

	"verif/mc/core"
)

// C15 — decoding arbitrary bytes is total (engine E4: exhaustive fault
// enumeration over a corpus of valid encodings; decoders run in worker
// sub-processes so that fatal errors are observable).

func init() {
	Registry["C15"] = &Check{Level: "fault_enumeration", QuickBudget: 240, ThoroughBudget: 1800, Run: runC15}
	workers["c15"] = c15Worker
}

type c15Field struct {
	Name  string
	Off   int
	Width int // 4 or 8 = fixed little-endian; 0 = uvarint (width measured from the data)
	Limit uint64
}

type c15Entry struct {
	Name   string
	Kind   string
	Data   []byte
	Fields []c15Field
}

func snapLoop(center s2.Point, radiusDeg float64, n, level int, offCentre int) *s2.Loop {
	l := s2.RegularLoop(center, s1.Degree*s1.Angle(radiusDeg), n)
	pts := make([]s2.Point, n)
	for i := 0; i < n; i++ {
		p := l.Vertex(i)
		if i >= offCentre {
			p = s2.VerifCellIDFromPoint(p).Parent(level).Point()
		}
		pts[i] = p
	}
	return s2.LoopFromPoints(pts)
}

func encodeOf(f func(w io.Writer) error) []byte {
	var b bytes.Buffer
	if err := f(&b); err != nil {
		panic(core.HarnessError("corpus encode failed: " + err.Error()))
	}
	return b.Bytes()
}

const (
	c15MaxVertices = 50000000
	c15MaxLoops    = 10000000
	c15MaxCells    = 1000000
)

func c15Corpus(thorough bool) []*c15Entry {
	var es []*c15Entry
	add := func(name, kind string, data []byte, fields ...c15Field) {
		es = append(es, &c15Entry{Name: name, Kind: kind, Data: data, Fields: fields})
	}
	p := ll(12, 34)
	add("point", "Point", encodeOf(p.Encode))
	c := s2.CapFromCenterAngle(p, s1.Degree*5)
	add("cap", "Cap", encodeOf(c.Encode))
	r := s2.RectFromLatLng(s2.LatLngFromDegrees(10, 20)).AddPoint(s2.LatLngFromDegrees(15, 30))
	add("rect", "Rect", encodeOf(r.Encode))
	cid := s2.VerifCellIDFromPoint(p).Parent(12)
	add("cellid", "CellID", encodeOf(cid.Encode))
	cell := s2.CellFromCellID(cid)
	add("cell", "Cell", encodeOf(cell.Encode))
	cu := s2.CellUnion{cid, cid.Next().Next(), s2.CellIDFromFace(3), s2.VerifCellIDFromPoint(ll(-40, 100)).Parent(5)}
	cu.Normalize()
	add("cellunion4", "CellUnion", encodeOf(cu.Encode), c15Field{"ncells", 1, 8, c15MaxCells})
	empty := s2.CellUnion{}
	add("cellunion0", "CellUnion", encodeOf(empty.Encode), c15Field{"ncells", 1, 8, c15MaxCells})
	pl := s2.Polyline{ll(0, 0), ll(0, 10), ll(10, 10)}
	add("polyline3", "Polyline", encodeOf(pl.Encode), c15Field{"nvertices", 1, 4, c15MaxVertices})
	pl0 := s2.Polyline{}
	add("polyline0", "Polyline", encodeOf(pl0.Encode), c15Field{"nvertices", 1, 4, c15MaxVertices})
	l4 := s2.LoopFromPoints([]s2.Point{ll(0, 0), ll(0, 10), ll(10, 10), ll(10, 0)})
	add("loop4", "Loop", encodeOf(l4.Encode), c15Field{"nvertices", 1, 4, c15MaxVertices})
	add("loop-empty", "Loop", encodeOf(s2.EmptyLoop().Encode), c15Field{"nvertices", 1, 4, c15MaxVertices})
	add("loop-full", "Loop", encodeOf(s2.FullLoop().Encode), c15Field{"nvertices", 1, 4, c15MaxVertices})
	// hand-made: loops with zero vertices and a bound that contains the probe points
	var zl s2.Loop
	add("loop-zero-value", "Loop", encodeOf(zl.Encode), c15Field{"nvertices", 1, 4, c15MaxVertices})
	fullBound := encodeOf(s2.FullRect().Encode)
	z0 := append([]byte{1, 0, 0, 0, 0, 0, 0, 0, 0, 0}, fullBound...)
	add("loop-0-vertices-full-bound", "Loop", z0, c15Field{"nvertices", 1, 4, c15MaxVertices})
	z2 := append([]byte{1, 1, 0, 1, 0, 0, 0}, z0...)
	z2 = append(z2, fullBound...)
	add("polygon-lossless-0-vertex-loop", "Polygon", z2, c15Field{"nloops", 3, 4, c15MaxLoops}, c15Field{"loop0.nvertices", 8, 4, c15MaxVertices})
	add("polygon-compressed-0-vertex-loop", "Polygon", []byte{4, 10, 1, 0, 0, 0, 0}, c15Field{"nloops", 2, 0, c15MaxLoops}, c15Field{"loop0.nvertices", 3, 0, c15MaxVertices})
	l40 := s2.RegularLoop(p, s1.Degree*3, 40)
	add("loop40", "Loop", encodeOf(l40.Encode), c15Field{"nvertices", 1, 4, c15MaxVertices})

	// lossless polygons: version, owns_loops, has_holes, nloops(uint32) at 3, first loop: version at 7, nvertices at 8
	polyLossless := func(name string, pg *s2.Polygon) {
		d := encodeOf(pg.Encode)
		if d[0] != 1 {
			panic(core.HarnessError(name + ": expected the lossless format"))
		}
		fs := []c15Field{{"nloops", 3, 4, c15MaxLoops}}
		if pg.NumLoops() > 0 {
			fs = append(fs, c15Field{"loop0.nvertices", 8, 4, c15MaxVertices})
		}
		add(name, "Polygon", d, fs...)
	}
	polyCompressed := func(name string, pg *s2.Polygon) {
		d := encodeOf(pg.Encode)
		if d[0] != 4 {
			panic(core.HarnessError(name + ": expected the compressed format"))
		}
		// version, snaplevel, uvarint nloops at 2, then (if any loop) uvarint nvertices
		fs := []c15Field{{"nloops", 2, 0, c15MaxLoops}}
		if pg.NumLoops() > 0 {
			_, n := binary.Uvarint(d[2:])
			fs = append(fs, c15Field{"loop0.nvertices", 2 + n, 0, c15MaxVertices})
		}
		add(name, "Polygon", d, fs...)
	}
	polyLossless("polygon-lossless-1loop", s2.PolygonFromLoops([]*s2.Loop{s2.RegularLoop(p, s1.Degree*3, 6)}))
	hole := s2.RegularLoop(p, s1.Degree*1, 5)
	polyLossless("polygon-lossless-hole", s2.PolygonFromLoops([]*s2.Loop{s2.RegularLoop(p, s1.Degree*3, 6), hole}))
	polyCompressed("polygon-empty", &s2.Polygon{})
	polyCompressed("polygon-full", s2.FullPolygon())
	polyCompressed("polygon-compressed-snapped", s2.PolygonFromLoops([]*s2.Loop{snapLoop(p, 3, 5, 14, 0)}))
	polyCompressed("polygon-compressed-offcentre", s2.PolygonFromLoops([]*s2.Loop{snapLoop(p, 3, 8, 20, 2)}))
	polyCompressed("polygon-compressed-2loops", s2.PolygonFromLoops([]*s2.Loop{snapLoop(p, 3, 6, 10, 0), snapLoop(ll(-30, -60), 2, 5, 10, 1)}))
	polyCompressed("polygon-compressed-crossface", s2.PolygonFromLoops([]*s2.Loop{snapLoop(ll(44, 44), 6, 7, 9, 0)}))
	polyCompressed("polygon-compressed-level30", s2.PolygonFromLoops([]*s2.Loop{snapLoop(p, 1e-6, 4, 30, 0)}))
	polyCompressed("polygon-compressed-64-bound", s2.PolygonFromLoops([]*s2.Loop{snapLoop(p, 3, 64, 16, 0)}))
	var isl, islSnapped []*s2.Loop
	for i := 0; i < 13; i++ {
		ctr := ll(-60+9*float64(i), -150+23*float64(i))
		isl = append(isl, s2.RegularLoop(ctr, s1.Degree*2, 4))
		islSnapped = append(islSnapped, snapLoop(ctr, 2, 4, 12, 0))
	}
	polyLossless("polygon-lossless-13-loops", s2.PolygonFromLoops(isl))
	polyCompressed("polygon-compressed-13-loops", s2.PolygonFromLoops(islSnapped))
	// hand-assembled lossless polygons with 14 loops one of which (not the last) has zero vertices:
	// header, the loops' own encodings, the polygon bound
	for _, zeroAt := range []int{0, 3, 12} {
		var body []byte
		for i := 0; i < 14; i++ {
			if i == zeroAt {
				body = append(body, z0...)
			} else {
				body = append(body, encodeOf(s2.RegularLoop(ll(-60+9*float64(i), -150+23*float64(i)), s1.Degree*2, 4).Encode)...)
			}
		}
		d := append([]byte{1, 1, 0, 14, 0, 0, 0}, body...)
		d = append(d, fullBound...)
		add(fmt.Sprintf("polygon-lossless-14-loops-zero-vertex-loop-at-%d", zeroAt), "Polygon", d, c15Field{"nloops", 3, 4, c15MaxLoops})
	}
	// hand-assembled lossless polygons all of whose loops are the special one-vertex loops (what the
	// uncompressed encoder of other implementations writes for the full polygon): the vertex
	// accounting of the decoded value differs from every polygon built by a constructor
	fullL, emptyL := encodeOf(s2.FullLoop().Encode), encodeOf(s2.EmptyLoop().Encode)
	oneV := encodeOf(s2.LoopFromPoints([]s2.Point{ll(-12, 34)}).Encode)
	for _, hm := range []struct {
		name  string
		loops [][]byte
	}{{"full-loop", [][]byte{fullL}}, {"full+empty-loops", [][]byte{fullL, emptyL}}, {"one-vertex-loop-off-centre", [][]byte{oneV}}} {
		d := []byte{1, 1, 0, byte(len(hm.loops)), 0, 0, 0}
		for _, l := range hm.loops {
			d = append(d, l...)
		}
		d = append(d, fullBound...)
		add("polygon-lossless-"+hm.name, "Polygon", d, c15Field{"nloops", 3, 4, c15MaxLoops}, c15Field{"loop0.nvertices", 8, 4, c15MaxVertices})
	}
	if thorough {
		polyCompressed("polygon-compressed-level1", s2.PolygonFromLoops([]*s2.Loop{snapLoop(ll(10, 10), 50, 4, 1, 0)}))
		polyLossless("polygon-lossless-40", s2.PolygonFromLoops([]*s2.Loop{s2.RegularLoop(p, s1.Degree*3, 40)}))
		polyCompressed("polygon-compressed-3loops-hole", s2.PolygonFromLoops([]*s2.Loop{snapLoop(p, 5, 8, 12, 0), snapLoop(p, 1, 5, 12, 1), snapLoop(ll(-30, -60), 2, 5, 12, 0)}))
		l100 := s2.RegularLoop(p, s1.Degree*3, 100)
		add("loop100", "Loop", encodeOf(l100.Encode), c15Field{"nvertices", 1, 4, c15MaxVertices})
	}
	return es
}

// c15Decoders are all Decode methods; each returns (err, value-exerciser).
// c15MkReader makes the reader the decoders read from: a *bytes.Reader, except in the reader-kinds
// pass, which substitutes readers that return short reads.
var c15MkReader = func(b []byte) io.Reader { return bytes.NewReader(b) }

var c15Decoders = []struct {
	Name string
	Run  func(data []byte) (err error, panel func())
}{
	{"Point", func(b []byte) (error, func()) {
		var v s2.Point
		err := v.Decode(c15MkReader(b))
		return err, func() {
			_ = v.CapBound()
			_ = v.RectBound()
			_ = v.ContainsPoint(v)
			_ = v.CellUnionBound()
			_ = v.Encode(io.Discard)
		}
	}},
	{"Cap", func(b []byte) (error, func()) {
		var v s2.Cap
		err := v.Decode(c15MkReader(b))
		return err, func() {
			_ = v.RectBound()
			_ = v.CapBound()
			_ = v.ContainsPoint(ll(1, 2))
			_ = v.CellUnionBound()
			_ = v.IsValid()
			_ = v.Encode(io.Discard)
		}
	}},
	{"Rect", func(b []byte) (error, func()) {
		var v s2.Rect
		err := v.Decode(c15MkReader(b))
		return err, func() {
			_ = v.CapBound()
			_ = v.RectBound()
			_ = v.ContainsPoint(ll(1, 2))
			_ = v.CellUnionBound()
			_ = v.IsValid()
			_ = v.Encode(io.Discard)
		}
	}},
	{"CellID", func(b []byte) (error, func()) {
		var v s2.CellID
		err := v.Decode(c15MkReader(b))
		return err, func() { _ = v.IsValid(); _ = v.ToToken(); _ = v.String(); _ = v.Encode(io.Discard) }
	}},
	{"Cell", func(b []byte) (error, func()) {
		var v s2.Cell
		err := v.Decode(c15MkReader(b))
		return err, func() {
			_ = v.RectBound()
			_ = v.CapBound()
			_ = v.ContainsPoint(ll(1, 2))
			_ = v.CellUnionBound()
			_ = v.Encode(io.Discard)
		}
	}},
	{"CellUnion", func(b []byte) (error, func()) {
		var v s2.CellUnion
		err := v.Decode(c15MkReader(b))
		return err, func() {
			_ = v.IsValid()
			_ = v.Encode(io.Discard)
			if len(v) <= 4096 && v.IsValid() {
				_ = v.RectBound()
				_ = v.CapBound()
				_ = v.ContainsPoint(ll(1, 2))
				_ = v.CellUnionBound()
				_ = v.ContainsCellID(s2.CellIDFromFace(2))
				w := append(s2.CellUnion(nil), v...)
				w.Normalize()
			}
		}
	}},
	{"Polyline", func(b []byte) (error, func()) {
		var v s2.Polyline
		err := v.Decode(c15MkReader(b))
		return err, func() {
			n := v.NumEdges()
			if n > 2000 {
				n = 2000
			}
			for i := 0; i < n; i++ {
				_ = v.Edge(i)
			}
			_ = v.Encode(io.Discard)
			if len(v) <= 2000 {
				_ = v.RectBound()
				_ = v.CapBound()
				_ = v.CellUnionBound()
				_ = v.ContainsPoint(ll(1, 2))
				_ = v.Length()
			}
		}
	}},
	{"Loop", func(b []byte) (error, func()) {
		var v s2.Loop
		err := v.Decode(c15MkReader(b))
		return err, func() { c15LoopPanel(&v) }
	}},
	{"Polygon", func(b []byte) (error, func()) {
		var v s2.Polygon
		err := v.Decode(c15MkReader(b))
		return err, func() {
			_ = v.NumLoops()
			_ = v.RectBound()
			_ = v.CapBound()
			_ = v.Encode(io.Discard)
			n := v.NumEdges()
			if n > 2000 {
				return
			}
			for i := 0; i < n; i++ {
				_ = v.Edge(i)
			}
			for i := 0; i < v.NumChains(); i++ {
				_ = v.Chain(i)
			}
			_ = v.CellUnionBound()
			_ = v.ContainsPoint(ll(1, 2))
			_ = v.ContainsPoint(ll(12, 34))
			_ = v.ReferencePoint()
			for _, l := range v.Loops() {
				c15LoopPanel(l)
			}
		}
	}},
}

func c15LoopPanel(v *s2.Loop) {
	_ = v.NumVertices()
	_ = v.RectBound()
	_ = v.CapBound()
	_ = v.Encode(io.Discard)
	n := v.NumEdges()
	if n > 2000 {
		return
	}
	for i := 0; i < n; i++ {
		_ = v.Edge(i)
	}
	_ = v.IsEmpty()
	_ = v.IsFull()
	_ = v.CellUnionBound()
	_ = v.ContainsPoint(ll(1, 2))
	_ = v.ContainsPoint(ll(12, 34))
	_ = v.ReferencePoint()
	_ = v.NumChains()
}

// ---- mutation enumeration ------------------------------------------------------

var c15ByteAlphabet = []byte{0x00, 0x01, 0x02, 0x03, 0x04, 0x05, 0x07, 0x08, 0x0f, 0x10, 0x1f, 0x20, 0x3f, 0x40, 0x7e, 0x7f, 0x80, 0x81, 0xbf, 0xc0, 0xf0, 0xfe, 0xff, 0x41}

func c15Boundary(f c15Field, orig uint64) []uint64 {
	vals := []uint64{0, 1, orig - 1, orig, orig + 1, f.Limit - 1, f.Limit, f.Limit + 1, 1<<31 - 1, 1 << 31, 1<<32 - 1, 1<<63 - 1, 1 << 63, 1<<64 - 1, 1 << 62, 255, 256, 65536}
	seen := map[uint64]bool{}
	var out []uint64
	for _, v := range vals {
		if f.Width == 4 {
			v &= 0xffffffff
		}
		if !seen[v] {
			seen[v] = true
			out = append(out, v)
		}
	}
	return out
}

var c15Floats = []float64{math.NaN(), math.Inf(1), math.Inf(-1), 0, math.Copysign(0, -1), math.MaxFloat64, -math.MaxFloat64, math.SmallestNonzeroFloat64, 1, -1, 2, 1e-200, 1e200}

var c15Splice = func() [][]byte {
	var out [][]byte
	for _, v := range []uint64{128, 300, 65535, c15MaxLoops + 1, c15MaxVertices + 1, 1<<31 - 1, 1 << 31, 1<<32 - 1, 1 << 32, 1 << 62, 1<<63 - 1, 1 << 63, 1<<64 - 1} {
		var buf [binary.MaxVarintLen64]byte
		n := binary.PutUvarint(buf[:], v)
		out = append(out, append([]byte(nil), buf[:n]...))
	}
	// malformed varints: 10 and 11 continuation bytes (overflow), and an unterminated one
	out = append(out, bytes.Repeat([]byte{0xff}, 10), append(bytes.Repeat([]byte{0x80}, 10), 0x02), []byte{0x80})
	return out
}()

func readField(data []byte, f c15Field) (val uint64, width int) {
	switch f.Width {
	case 4:
		return uint64(binary.LittleEndian.Uint32(data[f.Off:])), 4
	case 8:
		return binary.LittleEndian.Uint64(data[f.Off:]), 8
	}
	v, n := binary.Uvarint(data[f.Off:])
	return v, n
}

func writeField(data []byte, f c15Field, width int, v uint64) []byte {
	var enc []byte
	switch f.Width {
	case 4:
		enc = make([]byte, 4)
		binary.LittleEndian.PutUint32(enc, uint32(v))
	case 8:
		enc = make([]byte, 8)
		binary.LittleEndian.PutUint64(enc, v)
	default:
		var buf [binary.MaxVarintLen64]byte
		n := binary.PutUvarint(buf[:], v)
		enc = buf[:n]
	}
	out := make([]byte, 0, len(data)+len(enc))
	out = append(out, data[:f.Off]...)
	out = append(out, enc...)
	out = append(out, data[f.Off+width:]...)
	return out
}

type c15Mutant struct {
	Class string // truncate | byte | splice | field | field2 | version
	Desc  string
	Data  []byte
	Heavy bool // declares a within-limit giant count: run with low parallelism
	Over  bool // a count field is above its documented limit: must be rejected without allocating
}

// c15Enumerate calls f for every mutant of the entry, in a deterministic order.
func c15Enumerate(e *c15Entry, thorough bool, f func(m *c15Mutant)) {
	d := e.Data
	// (1) every proper prefix
	for n := 0; n < len(d); n++ {
		f(&c15Mutant{Class: "truncate", Desc: fmt.Sprintf("truncate to %d bytes", n), Data: d[:n]})
	}
	heavyAt := func(data []byte) (heavy, over bool) {
		for _, fl := range e.Fields {
			if fl.Off >= len(data) {
				continue
			}
			if fl.Width > 0 && fl.Off+fl.Width > len(data) {
				continue
			}
			v, n := readField(data, fl)
			if n <= 0 {
				continue
			}
			if v > fl.Limit {
				over = true
			} else if v > 200000 {
				heavy = true
			}
		}
		return
	}
	// (2) single-byte substitution
	full := len(d) <= 256
	for off := 0; off < len(d); off++ {
		if full || off < 16 {
			for v := 0; v < 256; v++ {
				if byte(v) == d[off] {
					continue
				}
				m := append([]byte(nil), d...)
				m[off] = byte(v)
				h, o := heavyAt(m)
				if h {
					f(nil) // permitted giant allocation (within the documented limit): counted, not run (L5)
					continue
				}
				f(&c15Mutant{Class: "byte", Desc: fmt.Sprintf("byte %d: %#02x -> %#02x", off, d[off], v), Data: m, Over: o && off < 16})
			}
		} else {
			for _, v := range c15ByteAlphabet {
				if v == d[off] {
					continue
				}
				m := append([]byte(nil), d...)
				m[off] = v
				f(&c15Mutant{Class: "byte", Desc: fmt.Sprintf("byte %d: %#02x -> %#02x", off, d[off], v), Data: m})
			}
		}
	}
	// (3) varint splice at every offset (replaces 1 byte by a multi-byte varint)
	maxOff := len(d)
	if !full && maxOff > 96 {
		maxOff = 96
	}
	for off := 0; off < maxOff; off++ {
		for si, sp := range c15Splice {
			m := make([]byte, 0, len(d)+len(sp))
			m = append(m, d[:off]...)
			m = append(m, sp...)
			m = append(m, d[off+1:]...)
			if h, _ := heavyAt(m); h {
				f(nil)
				continue
			}
			f(&c15Mutant{Class: "splice", Desc: fmt.Sprintf("byte %d replaced by varint pattern %d (%x)", off, si, sp), Data: m})
		}
	}
	// (3b) special float64 patterns written over every 8-byte window
	maxF := len(d) - 8
	if !full && maxF > 120 {
		maxF = 120
	}
	for off := 0; off <= maxF; off++ {
		for fi, fv := range c15Floats {
			m := append([]byte(nil), d...)
			binary.LittleEndian.PutUint64(m[off:], math.Float64bits(fv))
			if bytes.Equal(m, d) {
				continue
			}
			if h, _ := heavyAt(m); h {
				f(nil)
				continue
			}
			f(&c15Mutant{Class: "float", Desc: fmt.Sprintf("bytes %d..%d = float64 pattern %d (%v)", off, off+7, fi, fv), Data: m})
		}
	}
	// (4) every count field x boundary alphabet, and (5) pairs of fields
	for i, fl := range e.Fields {
		orig, w := readField(d, fl)
		for _, v := range c15Boundary(fl, orig) {
			if v == orig {
				continue
			}
			m := writeField(d, fl, w, v)
			if v <= fl.Limit && v > 200000 && v != fl.Limit && v != fl.Limit-1 {
				f(nil)
				continue
			}
			f(&c15Mutant{Class: "field", Desc: fmt.Sprintf("%s = %d (was %d)", fl.Name, v, orig), Data: m, Heavy: v <= fl.Limit && v > 200000, Over: v > fl.Limit})
			for j := i + 1; j < len(e.Fields); j++ {
				fl2 := e.Fields[j]
				// offsets after a resized varint shift
				shift := len(m) - len(d)
				fl2s := fl2
				fl2s.Off += shift
				if fl2s.Off >= len(m) {
					continue
				}
				orig2, w2 := readField(m, fl2s)
				if w2 <= 0 {
					continue
				}
				for _, v2 := range c15Boundary(fl2, orig2) {
					m2 := writeField(m, fl2s, w2, v2)
					heavy := (v <= fl.Limit && v > 200000) || (v2 <= fl2.Limit && v2 > 200000 && v <= fl.Limit && v > 0)
					if heavy {
						f(nil) // permitted giant allocation (L5): counted, not run
						continue
					}
					f(&c15Mutant{Class: "field2", Desc: fmt.Sprintf("%s = %d and %s = %d", fl.Name, v, fl2.Name, v2), Data: m2, Over: v > fl.Limit})
				}
			}
		}
	}
	// (6) every version byte
	if len(d) > 0 {
		for v := 0; v < 256; v++ {
			if byte(v) == d[0] {
				continue
			}
			m := append([]byte(nil), d...)
			m[0] = byte(v)
			f(&c15Mutant{Class: "version", Desc: fmt.Sprintf("version byte = %d", v), Data: m})
		}
	}
	if !thorough {
		return
	}
	// Second-order faults (thorough tier: the deviation bound raised from one fault to two).
	// (7) a header byte changed AND the input truncated: a count or flag that no longer matches
	// what follows, followed by an end of input at every later position
	hdr := len(d)
	if hdr > 24 {
		hdr = 24
	}
	maxN := len(d)
	if maxN > 160 {
		maxN = 160
	}
	for off := 0; off < hdr; off++ {
		for _, v := range c15ByteAlphabet {
			if v == d[off] {
				continue
			}
			m := append([]byte(nil), d...)
			m[off] = v
			if h, _ := heavyAt(m); h {
				f(nil)
				continue
			}
			for n := off + 1; n < maxN; n++ {
				f(&c15Mutant{Class: "byte+truncate", Desc: fmt.Sprintf("byte %d: %#02x -> %#02x, then truncate to %d bytes", off, d[off], v, n), Data: m[:n]})
			}
		}
	}
	// (8) every pair of header bytes over the boundary byte alphabet
	hdr2 := len(d)
	if hdr2 > 14 {
		hdr2 = 14
	}
	for i := 0; i < hdr2; i++ {
		for j := i + 1; j < hdr2; j++ {
			for _, vi := range c15ByteAlphabet {
				if vi == d[i] {
					continue
				}
				for _, vj := range c15ByteAlphabet {
					if vj == d[j] {
						continue
					}
					m := append([]byte(nil), d...)
					m[i], m[j] = vi, vj
					if h, _ := heavyAt(m); h {
						f(nil)
						continue
					}
					f(&c15Mutant{Class: "byte2", Desc: fmt.Sprintf("byte %d = %#02x and byte %d = %#02x", i, vi, j, vj), Data: m})
				}
			}
		}
	}
}

// ---- worker ----------------------------------------------------------------------

type c15Viol struct {
	Kind    string `json:"kind"`
	Desc    string `json:"desc"`
	Entry   string `json:"entry"`
	Decoder string `json:"decoder"`
	Mutant  string `json:"mutant"`
	Hex     string `json:"hex"`
	Count   int    `json:"count"`
}

type c15Out struct {
	Mutants  int64            `json:"mutants"`
	Decodes  int64            `json:"decodes"`
	Accepted int64            `json:"accepted"`
	Rejected int64            `json:"rejected"`
	ByClass  map[string]int64 `json:"by_class"`
	AccByDec map[string]int64 `json:"accepted_by_decoder"`
	Over     int64            `json:"over_limit_mutants"`
	Skipped  int64            `json:"skipped_permitted_giant_allocations"`
	Reuse    int64            `json:"decode_into_used_value_pairs"`
	Viol     []*c15Viol       `json:"violations"`
	Samples  []string         `json:"samples"`
}

func c15RunOne(entry *c15Entry, m *c15Mutant, out *c15Out, viol map[string]*c15Viol) {
	out.Mutants++
	out.ByClass[m.Class]++
	if m.Over {
		out.Over++
	}
	for _, dec := range c15Decoders {
		if m.Heavy {
			if dec.Name != entry.Kind {
				continue
			}
		} else if c15Giant(dec.Name, m.Data) {
			out.Skipped++ // this decoder reads a within-limit giant count from these bytes: permitted allocation, not run (L5)
			continue
		}
		out.Decodes++
		var before runtime.MemStats
		measure := m.Over && dec.Name == entry.Kind
		if measure {
			runtime.ReadMemStats(&before)
		}
		var err error
		var panel func()
		record := func(kind, desc string) {
			key := kind + "|" + dec.Name + "|" + desc
			if v, ok := viol[key]; ok {
				v.Count++
				return
			}
			hx := fmt.Sprintf("%x", m.Data)
			if len(hx) > 400 {
				hx = hx[:400] + "..."
			}
			viol[key] = &c15Viol{Kind: kind, Desc: desc, Entry: entry.Name, Decoder: dec.Name, Mutant: m.Desc, Hex: hx, Count: 1}
		}
		func() {
			defer func() {
				if r := recover(); r != nil {
					record("panic", fmt.Sprintf("%s.Decode panics: %v at %s", dec.Name, r, core.GeoFrame(string(debug.Stack()))))
					err = fmt.Errorf("panicked")
				}
			}()
			err, panel = dec.Run(m.Data)
		}()
		if measure {
			var after runtime.MemStats
			runtime.ReadMemStats(&after)
			if err == nil {
				record("wrong-answer", fmt.Sprintf("%s.Decode accepts a declared count above the documented limit", dec.Name))
			}
			if grown := after.TotalAlloc - before.TotalAlloc; grown > 64<<20 {
				record("bound-exceeded", fmt.Sprintf("%s.Decode allocated %d MB for an input whose declared count is above the documented limit", dec.Name, grown>>20))
			}
		}
		if err != nil {
			out.Rejected++
			continue
		}
		out.Accepted++
		out.AccByDec[dec.Name]++
		func() {
			defer func() {
				if r := recover(); r != nil {
					record("panic", fmt.Sprintf("value returned by %s.Decode (err == nil) panics when queried: %v at %s", dec.Name, r, core.GeoFrame(string(debug.Stack()))))
				}
			}()
			panel()
		}()
	}
}

// c15Giant predicts whether the named decoder would read, from the header of
// data, a declared count that is within the documented limit but so large that
// the (permitted) allocation would dominate the run.
func c15Giant(dec string, d []byte) bool {
	const big = 200000
	u32 := func(off int) (uint64, bool) {
		if off+4 > len(d) {
			return 0, false
		}
		return uint64(binary.LittleEndian.Uint32(d[off:])), true
	}
	in := func(v, limit uint64) bool { return v > big && v <= limit }
	switch dec {
	case "Loop", "Polyline":
		if len(d) > 0 && d[0] == 1 {
			if v, ok := u32(1); ok && in(v, c15MaxVertices) {
				return true
			}
		}
	case "Polygon":
		if len(d) == 0 {
			return false
		}
		if d[0] == 1 {
			if v, ok := u32(3); ok {
				if in(v, c15MaxLoops) {
					return true
				}
				if v > 0 && v <= big && len(d) > 7 && d[7] == 1 {
					if w, ok := u32(8); ok && in(w, c15MaxVertices) {
						return true
					}
				}
			}
		}
		if d[0] == 4 && len(d) > 2 && d[1] <= 30 {
			v, n := binary.Uvarint(d[2:])
			if n > 0 {
				if in(v, c15MaxLoops) {
					return true
				}
				if v > 0 && v <= big {
					w, n2 := binary.Uvarint(d[2+n:])
					if n2 > 0 && in(w, c15MaxVertices) {
						return true
					}
				}
			}
		}
	}
	return false
}

type c15Codec interface {
	Decode(io.Reader) error
	Encode(io.Writer) error
}

var c15Factories = map[string]func() c15Codec{
	"Point":     func() c15Codec { return new(s2.Point) },
	"Cap":       func() c15Codec { return new(s2.Cap) },
	"Rect":      func() c15Codec { return new(s2.Rect) },
	"CellID":    func() c15Codec { return new(s2.CellID) },
	"Cell":      func() c15Codec { return new(s2.Cell) },
	"CellUnion": func() c15Codec { return new(s2.CellUnion) },
	"Polyline":  func() c15Codec { return new(s2.Polyline) },
	"Loop":      func() c15Codec { return new(s2.Loop) },
	"Polygon":   func() c15Codec { return new(s2.Polygon) },
}

// c15Digest describes a decoded value through its public accessors.
func c15Digest(v c15Codec) string {
	var b bytes.Buffer
	err := v.Encode(&b)
	d := fmt.Sprintf("enc=%x err=%v", b.Bytes(), err)
	if sh, ok := v.(s2.Shape); ok {
		n := sh.NumEdges()
		d += fmt.Sprintf("|edges=%d chains=%d", n, sh.NumChains())
		if n <= 4000 {
			for e := 0; e < n; e++ {
				d += fmt.Sprintf("|%v%v", sh.Edge(e), sh.ChainPosition(e))
			}
			for i := 0; i < sh.NumChains(); i++ {
				d += fmt.Sprintf("|c%v", sh.Chain(i))
			}
		}
	}
	switch t := v.(type) {
	case *s2.Polygon:
		d += fmt.Sprintf("|loops=%d %v %v %v", t.NumLoops(), t.ContainsPoint(ll(1, 2)), t.ContainsPoint(ll(12, 34)), t.RectBound())
		for _, l := range t.Loops() {
			d += fmt.Sprintf("|%v%v", l.IsHole(), l.ContainsOrigin())
		}
	case *s2.Loop:
		d += fmt.Sprintf("|%v %v %v", t.ContainsPoint(ll(1, 2)), t.ContainsPoint(ll(12, 34)), t.RectBound())
	}
	return d
}

// c15DecodeIntoUsedValues: "for every byte string each Decode ... returns a usable value" must not
// depend on what the destination held before.  For every ordered pair (X, Y) of corpus entries of one
// type, Y is decoded into a value that has already decoded X; the result must be indistinguishable
// from decoding Y into a fresh value.
func c15DecodeIntoUsedValues(thorough bool, out *c15Out, viol map[string]*c15Viol) {
	corpus := c15Corpus(thorough)
	for kind, mk := range c15Factories {
		var es []*c15Entry
		for _, e := range corpus {
			if e.Kind == kind {
				es = append(es, e)
			}
		}
		for _, x := range es {
			for _, y := range es {
				out.Reuse++
				func() {
					defer func() {
						if r := recover(); r != nil {
							key := "panic|" + kind + "|reuse"
							if v, ok := viol[key]; ok {
								v.Count++
								return
							}
							viol[key] = &c15Viol{Kind: "panic", Desc: fmt.Sprintf("%s decoded into a value that already held another decoded %s panics when decoded or queried: %v at %s", kind, kind, r, core.GeoFrame(string(debug.Stack()))), Entry: x.Name + " then " + y.Name, Decoder: kind, Mutant: "decode " + x.Name + " then " + y.Name + " into the same value", Hex: fmt.Sprintf("%x", y.Data), Count: 1}
						}
					}()
					fresh := mk()
					if fresh.Decode(bytes.NewReader(y.Data)) != nil {
						return
					}
					want := c15Digest(fresh)
					used := mk()
					if used.Decode(bytes.NewReader(x.Data)) != nil {
						return
					}
					_ = c15Digest(used) // use it (builds indexes etc.)
					if err := used.Decode(bytes.NewReader(y.Data)); err != nil {
						key := "wrong-answer|" + kind + "|reuse-err"
						viol[key] = &c15Viol{Kind: "wrong-answer", Desc: kind + ".Decode of a valid encoding fails when the destination already held a decoded value", Entry: x.Name + " then " + y.Name, Decoder: kind, Hex: fmt.Sprintf("%x", y.Data), Count: 1}
						return
					}
					if got := c15Digest(used); got != want {
						key := "wrong-answer|" + kind + "|reuse-diff"
						if v, ok := viol[key]; ok {
							v.Count++
							return
						}
						viol[key] = &c15Viol{Kind: "wrong-answer", Desc: kind + " decoded into a value that already held another decoded " + kind + " differs from the same bytes decoded into a fresh value", Entry: x.Name + " then " + y.Name, Decoder: kind, Mutant: "decode " + x.Name + " then " + y.Name + " into the same value", Hex: fmt.Sprintf("%x", y.Data), Count: 1}
					}
				}()
			}
		}
	}
}

// c15Worker: vcheck worker c15 <tier> <mode> <shard> <shards> [<entry> <index>]
// mode: light | heavy | one
func c15Worker(args []string) int {
	thorough := args[0] == "thorough"
	mode := args[1]
	shard, _ := strconv.Atoi(args[2])
	shards, _ := strconv.Atoi(args[3])
	debug.SetGCPercent(50)
	// Address-space cap: an unbounded allocation then ends this worker with Go's
	// "fatal error: out of memory" (observed by the parent as a process abort)
	// instead of waking the kernel's OOM killer.  12 GB is far above anything the
	// documented limits permit (1.2 GB for 50 M vertices).
	lim := syscall.Rlimit{Cur: 12 << 30, Max: 12 << 30}
	syscall.Setrlimit(syscall.RLIMIT_AS, &lim)
	skip := map[int64]bool{}
	for _, f := range strings.Split(os.Getenv("C15_SKIP"), ",") {
		if v, err := strconv.ParseInt(f, 10, 64); err == nil {
			skip[v] = true
		}
	}
	out := &c15Out{ByClass: map[string]int64{}, AccByDec: map[string]int64{}}
	viol := map[string]*c15Viol{}
	corpus := c15Corpus(thorough)
	progress := bufio.NewWriter(os.Stderr)
	slow := os.Getenv("C15_SLOW") != ""
	var idx int64
	for ei, e := range corpus {
		c15Enumerate(e, thorough, func(m *c15Mutant) {
			idx++
			if m == nil {
				if idx%int64(shards) == int64(shard) && mode == "light" {
					out.Skipped++
				}
				return
			}
			if m.Heavy != (mode == "heavy") {
				return
			}
			if idx%int64(shards) != int64(shard) || skip[idx] {
				return
			}
			if slow {
				fmt.Fprintf(progress, "C15CUR %d %d %s | %s | %x\n", ei, idx, e.Name, m.Desc, m.Data)
				progress.Flush()
			}
			c15RunOne(e, m, out, viol)
			if out.Mutants%997 == 1 && len(out.Samples) < 6 {
				out.Samples = append(out.Samples, fmt.Sprintf("%s: %s", e.Name, m.Desc))
			}
		})
	}
	if mode == "light" && shard == 0 {
		c15DecodeIntoUsedValues(thorough, out, viol)
	}
	for _, v := range viol {
		out.Viol = append(out.Viol, v)
	}
	sort.Slice(out.Viol, func(i, j int) bool { return out.Viol[i].Desc < out.Viol[j].Desc })
	b, _ := json.Marshal(out)
	fmt.Println("C15OUT " + string(b))
	return 0
}

func runC15(c *core.Ctx) {
	c.Rule = "for every entry of a corpus of valid encodings (all nine types, lossless and compressed polygon formats, snapped / off-centre / bound-encoded loops): every proper prefix, every single-byte substitution (all 255 values; 24-value alphabet beyond 256 bytes), a multi-byte varint pattern spliced in at every offset, every count field x boundary alphabet, all pairs of count-field substitutions, every version byte; each mutant is fed to all nine Decode methods; non-trivial = mutants that at least one decoder accepted (err == nil), whose value is then exercised through a query panel"
	c.Assume = []string{
		"inputs whose declared counts are within the documented limits may legitimately allocate up to the documented maximum; products of two large within-limit counts are not run (L5)",
		"termination is observed through a stall watchdog on the worker processes, not proved",
	}
	thorough := !c.Quick()
	if c.OnlySub != "" {
		c15Replay(c)
		return
	}
	type job struct {
		mode          string
		shard, shards int
	}
	var jobs []job
	nl := 16
	for i := 0; i < nl; i++ {
		jobs = append(jobs, job{"light", i, nl})
	}
	nh := 3
	for i := 0; i < nh; i++ {
		jobs = append(jobs, job{"heavy", i, nh})
	}
	outs := make([]*c15Out, len(jobs))
	errs := make([]string, len(jobs))
	var aborts []string
	var mu sync.Mutex
	var wg sync.WaitGroup
	lightSem := make(chan struct{}, 10)
	heavySem := make(chan struct{}, 3)
	for ji, j := range jobs {
		wg.Add(1)
		go func(ji int, j job) {
			defer wg.Done()
			sem := lightSem
			if j.mode == "heavy" {
				sem = heavySem
			}
			sem <- struct{}{}
			defer func() { <-sem }()
			var cul int64
			outs[ji], errs[ji], _ = c15RunWorker(c.Tier, j.mode, j.shard, j.shards, false, "")
			// Fatal error or stall: find each culprit by re-running the shard with
			// per-mutant progress, skipping the culprits found so far.
			skipList := ""
			for round := 0; outs[ji] == nil && round < 8; round++ {
				outs[ji], errs[ji], cul = c15RunWorker(c.Tier, j.mode, j.shard, j.shards, true, skipList)
				if outs[ji] == nil {
					mu.Lock()
					aborts = append(aborts, errs[ji])
					mu.Unlock()
					if cul == 0 {
						break
					}
					skipList += fmt.Sprintf("%d,", cul)
				}
			}
		}(ji, j)
	}
	wg.Wait()
	total := &c15Out{ByClass: map[string]int64{}, AccByDec: map[string]int64{}}
	// abnormal exit of a worker is itself a violation (process abort / non-termination)
	for _, a := range aborts {
		desc := a
		if i := strings.Index(a, "; last mutant:"); i > 0 {
			desc = a[:i]
		}
		c.Violate("worker", "abort", desc, nil, map[string]any{"what": a})
	}
	for ji, o := range outs {
		if o == nil {
			c.CapHit(fmt.Sprintf("shard %v not completed after repeated aborts", jobs[ji]))
			continue
		}
		total.Mutants += o.Mutants
		total.Decodes += o.Decodes
		total.Accepted += o.Accepted
		total.Rejected += o.Rejected
		total.Over += o.Over
		total.Skipped += o.Skipped
		total.Reuse += o.Reuse
		total.Reuse += o.Reuse
		for k, v := range o.ByClass {
			total.ByClass[k] += v
		}
		for k, v := range o.AccByDec {
			total.AccByDec[k] += v
		}
		for _, v := range o.Viol {
			for i := 0; i < v.Count; i++ {
				c.Violate(v.Decoder, v.Kind, v.Desc, nil, map[string]any{"entry": v.Entry, "decoder": v.Decoder, "mutant": v.Mutant, "hex": v.Hex})
			}
		}
		for _, s := range o.Samples {
			c.Sample(s)
		}
	}
	c.Eval(int(total.Decodes))
	c.Nontrivial(int(total.Accepted))
	c.Note("mutants", total.Mutants)
	c.Note("mutants_by_class", total.ByClass)
	c.Note("accepted_by_decoder", total.AccByDec)
	c.Note("over_limit_mutants_checked_for_rejection_without_allocation", total.Over)
	c.Note("mutants_not_run_because_they_declare_a_within_limit_giant_count", total.Skipped)
	c.Note("decode_into_used_value_pairs", total.Reuse)
	c.Note("corpus_entries", len(c15Corpus(thorough)))
}

func c15RunWorker(tier, mode string, shard, shards int, slow bool, skip string) (*c15Out, string, int64) {
	exe, _ := os.Executable()
	cmd := exec.Command(exe, "worker", "c15", tier, mode, strconv.Itoa(shard), strconv.Itoa(shards))
	cmd.Env = os.Environ()
	if slow {
		cmd.Env = append(cmd.Env, "C15_SLOW=1", "C15_SKIP="+skip)
	}
	var so bytes.Buffer
	cmd.Stdout = &so
	se := &lastLines{}
	cmd.Stderr = se
	if err := cmd.Start(); err != nil {
		return nil, "cannot start worker: " + err.Error(), 0
	}
	done := make(chan error, 1)
	go func() { done <- cmd.Wait() }()
	var err error
	stalled := false
	// hard watchdog: far beyond any legitimate shard (whole thorough tier takes minutes)
	select {
	case err = <-done:
	case <-time.After(20 * time.Minute):
		cmd.Process.Kill()
		err = <-done
		stalled = true
	}
	for _, line := range strings.Split(so.String(), "\n") {
		if strings.HasPrefix(line, "C15OUT ") {
			var o c15Out
			if json.Unmarshal([]byte(line[7:]), &o) == nil {
				return &o, "", 0
			}
		}
	}
	cur, fatal := se.summary()
	kind := "process aborted"
	if stalled {
		kind = "no termination within the 20 min watchdog"
	}
	var ei, culprit int64
	fmt.Sscanf(cur, "C15CUR %d %d", &ei, &culprit)
	return nil, fmt.Sprintf("%s (%v): %s; last mutant: %s", kind, err, fatal, cur), culprit
}

// lastLines keeps the tail of a worker's stderr.
type lastLines struct {
	mu   sync.Mutex
	cur  string
	rest []string
}

func (l *lastLines) Write(p []byte) (int, error) {
	l.mu.Lock()
	defer l.mu.Unlock()
	for _, line := range strings.Split(string(p), "\n") {
		if strings.HasPrefix(line, "C15CUR ") || strings.HasPrefix(line, "C15RK ") {
			l.cur = line
		} else if strings.TrimSpace(line) != "" {
			l.rest = append(l.rest, line)
			if len(l.rest) > 40 {
				l.rest = l.rest[len(l.rest)-40:]
			}
		}
	}
	return len(p), nil
}

func (l *lastLines) summary() (string, string) {
	l.mu.Lock()
	defer l.mu.Unlock()
	fatal := ""
	for _, s := range l.rest {
		if strings.HasPrefix(s, "fatal error") || strings.HasPrefix(s, "runtime:") || strings.HasPrefix(s, "panic:") {
			fatal = s
			break
		}
	}
	var frame string
	for _, s := range l.rest {
		if strings.Contains(s, "github.com/golang/geo/s2.") {
			frame = strings.TrimSpace(s)
			break
		}
	}
	cur := l.cur
	if len(cur) > 300 {
		cur = cur[:300]
	}
	return cur, fatal + " " + frame
}

func c15Replay(c *core.Ctx) {
	d, _ := c.ReplayDetail.(map[string]any)
	if d == nil {
		panic(core.HarnessError("replay file has no detail"))
	}
	hx, _ := d["hex"].(string)
	if strings.HasSuffix(hx, "...") {
		panic(core.HarnessError("replay data truncated in the file; re-run the check"))
	}
	var data []byte
	fmt.Sscanf(hx, "%x", &data)
	decName, _ := d["decoder"].(string)
	out := &c15Out{ByClass: map[string]int64{}, AccByDec: map[string]int64{}}
	viol := map[string]*c15Viol{}
	e := &c15Entry{Name: fmt.Sprint(d["entry"]), Kind: decName}
	c15RunOne(e, &c15Mutant{Class: "replay", Desc: fmt.Sprint(d["mutant"]), Data: data}, out, viol)
	for _, v := range viol {
		c.Violate(v.Decoder, v.Kind, v.Desc, nil, nil)
	}
	fmt.Printf("replayed %d bytes through all decoders: %d violation(s)\n", len(data), len(viol))
}

var _ = math.Pi
