package checks

import (
	"github.com/golang/geo/s2"

	"verif/mc/core"
	"verif/mc/lattice"
)

// c09FaceEdgeVertices: loops in which one vertex lies exactly on an edge or corner of its cube face
// (si or ti equal to 0 or 2^31, so it is not a cell centre and goes to the off-centre list while its
// (pi,qi) coordinates are clamped) and the other three are cell centres of level L, for every level
// 0..30, every face, every rotation of the vertex order (the first vertex of a loop is coded in a
// fixed-length field whose width depends on the level, the others as deltas from it).
func c09FaceEdgeVertices(c *core.Ctx, d *c09Distinct) {
	sub := "polygon-face-edge-vertices"
	st := &c09Stats{distinct: d}
	faces := core.Pick(c, []int{0, 1, 5}, []int{0, 1, 2, 3, 4, 5})
	var n int64
	for L := 0; L <= 30; L++ {
		N := int64(1) << uint(L)
		mid := N / 2
		sh := uint(30 - L)
		t0 := uint32((2*mid + 1) << sh) // centre coordinate of the middle cell
		if L == 0 {
			t0 = 1 << 30
		}
		edgePts := [][2]uint32{{lattice.MaxSiTi, t0}, {t0, lattice.MaxSiTi}, {lattice.MaxSiTi, lattice.MaxSiTi}, {0, t0}, {t0, 0}, {0, 0}, {lattice.MaxSiTi, 0}, {lattice.MaxSiTi - 1, t0}, {1, t0}}
		for _, f := range faces {
			others := []s2.Point{c09Centre(f, L, N-1, mid), c09Centre((f+1)%6, L, mid, mid), c09Centre((f+2)%6, L, 0, N-1)}
			for ei, e := range edgePts {
				E := lattice.FaceSiTiPoint(f, e[0], e[1])
				base := append([]s2.Point{E}, others...)
				for rot := 0; rot < 4; rot++ {
					if c.Skip(sub, L, f, ei, rot) {
						continue
					}
					var v []s2.Point
					for k := 0; k < 4; k++ {
						v = append(v, base[(k+rot)%4])
					}
					n++
					c09CheckPolygon(c, sub, []int{L, f, ei, rot}, [][]s2.Point{v}, 0, nil, nil, st, map[string]any{"level": L, "face": f, "edge_vertex_si_ti": e, "rotation": rot})
				}
			}
		}
	}
	st.flush(c, sub)
	c.Count(sub+"/loops", n)
}
