package checks

import (
	"fmt"
	"math"
	"sort"
	"strconv"
	"strings"
	"sync"
	"sync/atomic"
	"time"

	"github.com/golang/geo/r3"
	"github.com/golang/geo/s2"

	"verif/mc/core"
	"verif/mc/lattice"
	"verif/mc/refmodel"
)

// C01 — cell ids form a consistent, invertible quadtree along the Hilbert curve
// (engine E3: bounded-exhaustive enumeration against the integer cube model and
// the naive Hilbert recursion of refmodel/cubemodel.go).
//
// Sub-checks
//   ids     every per-cell operation of CellID on Cells(L) ∪ DeepCells against the model
//   points  CellFromPoint / ancestors / lat-lng path on structural points and their 1-ulp neighbours
//   hunt    unit vectors whose u (or v) is 0..D ulps either side of a cell boundary, or just outside the
//           documented dblEpsilon margin, on every face (face edges, cube corners, all levels, dense runs)
//   uscan   every leaf boundary of a face axis (stride 61 in the quick tier): the first float outside the margin
//   interp  interpolations between a cell vertex and a point within 1e-15 of the next vertex
//   parse   token and string parsers on all short strings and all 1-character edits of valid forms

var c01Tier string // recorded in every violation detail

func init() {
	Registry["C01"] = &Check{Level: "exploration", QuickBudget: 100, ThoroughBudget: 780, Run: runC01}
}

type c01Spec struct {
	face, level int
	idx         uint64
}

// c01Cells returns Cells(L) ∪ DeepCells(p) (DESIGN §4), deduplicated, in a fixed order.
func c01Cells(L, p, maxPeriod int) []c01Spec {
	seen := map[uint64]bool{}
	var out []c01Spec
	add := func(f, l int, idx uint64) {
		id := refmodel.IDFromGlobal(l, uint64(f)<<uint(2*l)+idx)
		if !seen[id] {
			seen[id] = true
			out = append(out, c01Spec{f, l, idx})
		}
	}
	for f := 0; f < 6; f++ {
		for l := 0; l <= L; l++ {
			for idx := uint64(0); idx < 1<<uint(2*l); idx++ {
				add(f, l, idx)
			}
		}
	}
	// periodic suffix patterns of period <= maxPeriod
	var pats [][]int
	for per := 1; per <= maxPeriod; per++ {
		n := 1
		for k := 0; k < per; k++ {
			n *= 4
		}
		for x := 0; x < n; x++ {
			pat := make([]int, per)
			y := x
			for k := 0; k < per; k++ {
				pat[k] = y & 3
				y >>= 2
			}
			pats = append(pats, pat)
		}
	}
	for f := 0; f < 6; f++ {
		for m := 0; m <= p; m++ {
			for w := uint64(0); w < 1<<uint(2*m); w++ {
				for _, pat := range pats {
					idx := w
					for l := m + 1; l <= 30; l++ {
						idx = idx<<2 | uint64(pat[(l-m-1)%len(pat)])
						add(f, l, idx)
					}
				}
			}
		}
	}
	return out
}

type c01Viol struct {
	c   *core.Ctx
	sub string
}

func (v c01Viol) bad(cas []int, desc string, detail any) {
	v.c.Violate(v.sub, "wrong-answer", desc, cas, detail)
}

func c01IDs(ids []s2.CellID) []string {
	var s []string
	for _, x := range ids {
		s = append(s, fmt.Sprintf("%#x(%s)", uint64(x), x.String()))
	}
	return s
}

func c01SortedUnique(ids []s2.CellID) []uint64 {
	m := map[uint64]bool{}
	for _, x := range ids {
		m[uint64(x)] = true
	}
	var out []uint64
	for x := range m {
		out = append(out, x)
	}
	sort.Slice(out, func(i, j int) bool { return out[i] < out[j] })
	return out
}

func c01ModelIDs(cs []refmodel.CubeCell) []uint64 {
	var out []uint64
	for _, x := range cs {
		out = append(out, x.ID())
	}
	sort.Slice(out, func(i, j int) bool { return out[i] < out[j] })
	return out
}

func c01EqU64(a, b []uint64) bool {
	if len(a) != len(b) {
		return false
	}
	for i := range a {
		if a[i] != b[i] {
			return false
		}
	}
	return true
}

// c01WrapSteps: (n + steps) mod N without overflow (N < 2^63).
func c01WrapSteps(n uint64, steps int64, N uint64) uint64 {
	var b uint64
	if steps >= 0 {
		b = uint64(steps) % N
	} else {
		m := uint64(-(steps + 1)) + 1 // |steps|, fine for MinInt64
		b = (N - m%N) % N
	}
	return (n%N + b) % N
}

// c01ClampSteps: clamp(n + steps, 0, N).
func c01ClampSteps(n uint64, steps int64, N uint64) uint64 {
	if steps >= 0 {
		if uint64(steps) >= N-n {
			return N
		}
		return n + uint64(steps)
	}
	m := uint64(-(steps + 1)) + 1
	if m >= n {
		return 0
	}
	return n - m
}

// c01CheckCell runs every per-cell operation of sub-check "ids" on one cell.
func c01CheckCell(c *core.Ctx, ci int, sp c01Spec, family []c01Spec, st *c01Stats) {
	v := c01Viol{c, "ids"}
	cas := []int{ci}
	m := refmodel.CubeCellFromIdx(sp.face, sp.level, sp.idx)
	L := sp.level
	id := s2.CellID(m.ID())
	det := func(extra ...any) any {
		d := map[string]any{"cell": m.String(), "id": fmt.Sprintf("%#x", m.ID()), "tier": c01Tier}
		for i := 0; i+1 < len(extra); i += 2 {
			d[fmt.Sprint(extra[i])] = extra[i+1]
		}
		return d
	}
	N := refmodel.CellsAtLevel(L)
	n := m.Global()
	lo, hi := m.LeafRange()

	// --- construction and accessors
	if !id.IsValid() {
		v.bad(cas, "IsValid is false for a cell of the decomposition", det())
		return
	}
	chain := s2.CellIDFromFace(sp.face)
	for l := 1; l <= L; l++ {
		chain = chain.Children()[int(sp.idx>>uint(2*(L-l)))&3]
	}
	if chain != id {
		v.bad(cas, "CellIDFromFace(f).Children()[..] chain differs from the model id", det("got", fmt.Sprintf("%#x", uint64(chain))))
	}
	posMask := uint64(1)<<61 - 1
	for _, pos := range []uint64{m.ID() & posMask, lo & posMask, hi & posMask, (lo & posMask) &^ 1} {
		if got := s2.CellIDFromFacePosLevel(sp.face, pos, L); got != id {
			v.bad(cas, "CellIDFromFacePosLevel differs from the model id", det("pos", pos, "got", fmt.Sprintf("%#x", uint64(got))))
		}
	}
	if id.Level() != L || id.Face() != sp.face || id.Pos() != m.ID()&posMask || id.IsLeaf() != (L == 30) {
		v.bad(cas, "Level/Face/Pos/IsLeaf disagree with the id layout", det("level", id.Level(), "face", id.Face(), "pos", id.Pos()))
	}
	for l := 1; l <= L; l++ {
		if got := id.ChildPosition(l); got != int(sp.idx>>uint(2*(L-l)))&3 {
			v.bad(cas, "ChildPosition(level) differs from the path digit", det("level", l, "got", got))
		}
	}
	// --- parents, containment along the ancestor chain
	for l := 0; l <= L; l++ {
		a := m.Ancestor(l)
		pa := id.Parent(l)
		if uint64(pa) != a.ID() {
			v.bad(cas, "Parent(level) differs from the model prefix cell", det("level", l, "got", fmt.Sprintf("%#x", uint64(pa))))
			continue
		}
		if !pa.Contains(id) || !pa.Intersects(id) || !id.Intersects(pa) || (l < L && id.Contains(pa)) {
			v.bad(cas, "Contains/Intersects wrong between a cell and its ancestor", det("level", l))
		}
		if cl, ok := id.CommonAncestorLevel(pa); !ok || cl != l {
			v.bad(cas, "CommonAncestorLevel(cell, ancestor) is not the ancestor's level", det("level", l, "got", cl, "ok", ok))
		}
	}
	// --- ranges
	if uint64(id.RangeMin()) != lo || uint64(id.RangeMax()) != hi {
		v.bad(cas, "RangeMin/RangeMax differ from the model leaf range", det("got", []string{fmt.Sprintf("%#x", uint64(id.RangeMin())), fmt.Sprintf("%#x", uint64(id.RangeMax()))}))
	}
	// --- children partition the leaf range in curve order
	if L < 30 {
		ch := id.Children()
		prevMax := lo - 2
		for k := 0; k < 4; k++ {
			mc := m.Child(k)
			if uint64(ch[k]) != mc.ID() {
				v.bad(cas, "Children()[k] differs from the model child", det("k", k, "got", fmt.Sprintf("%#x", uint64(ch[k]))))
			}
			if uint64(ch[k].RangeMin()) != prevMax+2 {
				v.bad(cas, "children ranges are not consecutive in curve order", det("k", k))
			}
			prevMax = uint64(ch[k].RangeMax())
			if ch[k].Parent(L) != id || ch[k].Level() != L+1 {
				v.bad(cas, "child's parent is not the cell", det("k", k))
			}
		}
		if prevMax != hi {
			v.bad(cas, "children ranges do not end at the parent's RangeMax", det())
		}
		if id.ChildBegin() != ch[0] || id.ChildEnd() != ch[3].Next() {
			v.bad(cas, "ChildBegin/ChildEnd differ from first child / successor of last child", det())
		}
	}
	levels := []int{L, L + 1, L + 2, L + 3, 29, 30}
	for _, l := range levels {
		if l < L || l > 30 {
			continue
		}
		d := uint(2 * (l - L))
		first := n << d
		endN := (n + 1) << d
		if got := id.ChildBeginAtLevel(l); uint64(got) != refmodel.IDFromGlobal(l, first) {
			v.bad(cas, "ChildBeginAtLevel differs from the model", det("level", l, "got", fmt.Sprintf("%#x", uint64(got))))
		}
		if got := id.ChildEndAtLevel(l); uint64(got) != refmodel.IDFromGlobal(l, endN) {
			v.bad(cas, "ChildEndAtLevel differs from the model", det("level", l, "got", fmt.Sprintf("%#x", uint64(got))))
		}
	}
	// --- stepping along the curve
	if got := id.Next(); uint64(got) != refmodel.IDFromGlobal(L, n+1) {
		v.bad(cas, "Next differs from the model successor", det("got", fmt.Sprintf("%#x", uint64(got))))
	}
	if n > 0 {
		if got := id.Prev(); uint64(got) != refmodel.IDFromGlobal(L, n-1) {
			v.bad(cas, "Prev differs from the model predecessor", det("got", fmt.Sprintf("%#x", uint64(got))))
		}
	}
	if got := id.NextWrap(); uint64(got) != refmodel.IDFromGlobal(L, (n+1)%N) {
		v.bad(cas, "NextWrap differs from the model", det("got", fmt.Sprintf("%#x", uint64(got))))
	}
	if got := id.PrevWrap(); uint64(got) != refmodel.IDFromGlobal(L, (n+N-1)%N) {
		v.bad(cas, "PrevWrap differs from the model", det("got", fmt.Sprintf("%#x", uint64(got))))
	}
	iN := int64(N)
	steps := []int64{0, 1, -1, 2, -2, 3, -3, 4, -4, iN - 1, -(iN - 1), iN, -iN, iN + 1, -(iN + 1), iN/2 + 7, math.MinInt64, math.MaxInt64,
		int64(n), -int64(n), -int64(n) - 1, int64(N - n), int64(N-n) - 1, int64(N-n) + 1}
	for _, s := range steps {
		if got := id.Advance(s); uint64(got) != refmodel.IDFromGlobal(L, c01ClampSteps(n, s, N)) {
			v.bad(cas, "Advance(steps) differs from the clamped model position", det("steps", s, "got", fmt.Sprintf("%#x", uint64(got))))
		}
		if got := id.AdvanceWrap(s); uint64(got) != refmodel.IDFromGlobal(L, c01WrapSteps(n, s, N)) {
			v.bad(cas, "AdvanceWrap(steps) differs from the model position modulo the curve length", det("steps", s, "got", fmt.Sprintf("%#x", uint64(got))))
		}
	}
	st.steps.Add(int64(2 * len(steps)))
	// --- token and string forms
	if tok := id.ToToken(); tok != m.Token() || s2.CellIDFromToken(tok) != id {
		v.bad(cas, "ToToken/CellIDFromToken do not round-trip to the model token", det("token", tok, "model", m.Token()))
	}
	if str := id.String(); str != m.String() || s2.CellIDFromString(str) != id {
		v.bad(cas, "String/CellIDFromString do not round-trip to the model string", det("string", str))
	}
	// --- geometry of the id: face, (i,j) square, centre round trip
	cell := s2.CellFromCellID(id)
	if cell.ID() != id || cell.Face() != sp.face || cell.Level() != L || cell.SizeIJ() != m.Size() || cell.IsLeaf() != (L == 30) {
		v.bad(cas, "CellFromCellID accessors disagree with the id", det())
	}
	wantIJ := [4]int{m.J0, m.I0 + m.Size(), m.J0 + m.Size(), m.I0}
	for k := 0; k < 4; k++ {
		if got := cell.IJCoordOfEdge(k); got != wantIJ[k] {
			v.bad(cas, "Cell.IJCoordOfEdge differs from the model square (faceIJOrientation vs naive recursion)", det("edge", k, "got", got, "want", wantIJ[k]))
		}
	}
	ctr := id.Point()
	back := s2.CellFromPoint(ctr).ID()
	if !id.Contains(back) || (L == 30 && back != id) {
		v.bad(cas, "CellFromPoint(id.Point()) is not inside the cell", det("got", fmt.Sprintf("%#x", uint64(back))))
	}
	if L == 30 {
		if got := s2.CellIDFromLatLng(id.LatLng()); got != id {
			v.bad(cas, "CellIDFromLatLng(leaf.LatLng()) is not the leaf", det("got", fmt.Sprintf("%#x", uint64(got))))
		}
	}
	// --- curve adjacency: successor shares a full edge (cube model) and is what the library reports
	nx := refmodel.CubeCellFromGlobal(L, (n+1)%N)
	if dim, ln := refmodel.Relation(m, nx); dim != 1 || ln != 2*int64(m.Size()) {
		v.bad(cas, "consecutive cells along the curve do not share an edge", det("next", nx.String()))
	}
	nxCell := s2.CellFromCellID(id.NextWrap())
	if nxCell.Face() != nx.Face || nxCell.IJCoordOfEdge(3) != nx.I0 || nxCell.IJCoordOfEdge(0) != nx.J0 {
		v.bad(cas, "the library's square of NextWrap is not the model's successor square", det("next", nx.String()))
	}
	// --- edge neighbours
	en := id.EdgeNeighbors()
	for k := 0; k < 4; k++ {
		want, err := refmodel.ExpectedEdgeNeighbor(m, k)
		if err != nil {
			panic(core.HarnessError(err.Error()))
		}
		if uint64(en[k]) != want.ID() {
			v.bad(cas, "EdgeNeighbors()[k] is not the cell across edge k", det("k", k, "got", c01IDs(en[k:k+1]), "want", want.String()))
		}
		for j := 0; j < k; j++ {
			if en[j] == en[k] {
				v.bad(cas, "EdgeNeighbors are not distinct", det("got", c01IDs(en[:])))
			}
		}
		if nm, ok := refmodel.CubeCellFromID(uint64(en[k])); ok {
			dim, ln := refmodel.Relation(m, nm)
			if nm.Level != L || en[k].Intersects(id) || dim != 1 || ln != 2*int64(m.Size()) {
				v.bad(cas, "an edge neighbour is not a disjoint same-level cell sharing a full edge", det("k", k, "got", c01IDs(en[k:k+1])))
			}
			if nm.Face != sp.face {
				st.crossFace.Add(1)
			}
		} else {
			v.bad(cas, "an edge neighbour is not a valid cell id", det("k", k, "got", fmt.Sprintf("%#x", uint64(en[k]))))
		}
	}
	// --- vertex neighbours for every coarser level
	for l := 0; l < L; l++ {
		vn := id.VertexNeighbors(l)
		vp := refmodel.ClosestVertexP3(m, l)
		want := refmodel.CellsAtPoint(vp, l)
		got := c01SortedUnique(vn)
		if len(got) != len(vn) || !c01EqU64(got, c01ModelIDs(want)) {
			v.bad(cas, "VertexNeighbors(level) is not the set of level cells around the closest vertex", det("level", l, "got", c01IDs(vn), "want", fmt.Sprint(want)))
		}
		if len(want) == 3 {
			st.cubeCorner.Add(1)
		}
		// The documented meaning: the level-l cells around the closest vertex of
		// the level-l ancestor.  They touch that vertex (not necessarily the deeper
		// cell itself); exactly one of them, the ancestor, contains the cell and
		// the others are disjoint from it.
		nAnc := 0
		for _, x := range vn {
			xm, ok := refmodel.CubeCellFromID(uint64(x))
			if !ok || xm.Level != l {
				v.bad(cas, "a vertex neighbour is not a valid cell of the requested level", det("level", l, "got", c01IDs(vn)))
				continue
			}
			b := xm.Box()
			for k := 0; k < 3; k++ {
				if vp[k] < b.Lo[k] || vp[k] > b.Hi[k] {
					v.bad(cas, "a vertex neighbour does not touch the closest vertex", det("level", l, "got", c01IDs(vn)))
					break
				}
			}
			if x.Contains(id) {
				nAnc++
			} else if x.Intersects(id) {
				v.bad(cas, "a vertex neighbour other than the ancestor is not disjoint from the cell", det("level", l, "got", c01IDs(vn)))
			}
		}
		if nAnc != 1 {
			v.bad(cas, "VertexNeighbors(level) does not contain the cell's ancestor exactly once", det("level", l, "got", c01IDs(vn)))
		}
		st.nbr.Add(1)
	}
	// --- all neighbours
	for nl := L; nl <= L+2 && nl <= 30; nl++ {
		an := id.AllNeighbors(nl)
		want := refmodel.ExpectedAllNeighbors(m, nl)
		for _, x := range an {
			xm, ok := refmodel.CubeCellFromID(uint64(x))
			if !ok || xm.Level != nl {
				v.bad(cas, "an all-neighbour is not a valid cell of the requested level", det("level", nl, "got", fmt.Sprintf("%#x", uint64(x))))
				continue
			}
			if x.Intersects(id) {
				v.bad(cas, "an all-neighbour is not disjoint from the cell", det("level", nl, "got", x.String()))
			}
			if dim, _ := refmodel.Relation(m, xm); dim < 0 {
				v.bad(cas, "an all-neighbour does not touch the cell", det("level", nl, "got", x.String()))
			}
		}
		if !c01EqU64(c01SortedUnique(an), c01ModelIDs(want)) {
			v.bad(cas, "AllNeighbors(level) is not the complete set of touching outside cells", det("level", nl, "got", c01IDs(an), "want", fmt.Sprint(want)))
		}
		st.nbr.Add(1)
	}
	if L > 0 && id.AllNeighbors(L-1) != nil {
		v.bad(cas, "AllNeighbors(level-1) is not nil", det())
	}
	if id.AllNeighbors(31) != nil {
		v.bad(cas, "AllNeighbors(31) is not nil", det())
	}
	// --- MaxTile against the leaf-interval model
	limits := []s2.CellID{id, id.Next(), id.NextWrap(), id.RangeMax(), id.RangeMin(), id.RangeMax().Next(), id.Parent(0).Next()}
	if L < 30 {
		ch := id.Children()
		limits = append(limits, ch[0], ch[1], ch[3], ch[3].RangeMax(), id.ChildBeginAtLevel(30).Next(), id.ChildBeginAtLevel(min(L+3, 30)).Next())
	}
	for l := 0; l < L; l++ {
		limits = append(limits, id.Parent(l).Next(), id.Parent(l))
	}
	for _, f := range family {
		limits = append(limits, s2.CellID(refmodel.CubeCellFromIdx(f.face, f.level, f.idx).ID()))
	}
	for _, lim := range limits {
		want := c01ModelMaxTile(m, lim)
		if got := id.MaxTile(lim); got != want {
			v.bad(cas, "MaxTile(limit) is not the largest cell with the same RangeMin ending before limit", det("limit", lim.String(), "got", got.String(), "want", want.String()))
		}
	}
	st.maxtile.Add(int64(len(limits)))
	// --- CommonAncestorLevel within the family
	for _, f := range family {
		o := refmodel.CubeCellFromIdx(f.face, f.level, f.idx)
		wantOK := o.Face == m.Face
		wantL := 0
		if wantOK {
			for wantL < L && wantL < o.Level && m.Ancestor(wantL+1).Idx == o.Ancestor(wantL+1).Idx {
				wantL++
			}
		}
		gl, ok := id.CommonAncestorLevel(s2.CellID(o.ID()))
		if ok != wantOK || (ok && gl != wantL) {
			v.bad(cas, "CommonAncestorLevel differs from the common path prefix", det("other", o.String(), "got", gl, "ok", ok, "want", wantL))
		}
		wantInter := m.ContainsCell(o) || o.ContainsCell(m)
		if id.Intersects(s2.CellID(o.ID())) != wantInter || id.Contains(s2.CellID(o.ID())) != m.ContainsCell(o) {
			v.bad(cas, "Contains/Intersects differ from the model squares", det("other", o.String()))
		}
	}
}

// c01ModelMaxTile is the documented meaning of MaxTile on leaf intervals.
func c01ModelMaxTile(m refmodel.CubeCell, limit s2.CellID) s2.CellID {
	lm, ok := refmodel.CubeCellFromID(uint64(limit))
	if !ok {
		// limit may be an end id (face 6); its RangeMin is defined by the bit layout
		lsb := uint64(limit) & -uint64(limit)
		limMin := uint64(limit) - (lsb - 1)
		return c01ModelMaxTileRaw(m, limit, limMin)
	}
	limMin, _ := lm.LeafRange()
	return c01ModelMaxTileRaw(m, limit, limMin)
}

func c01ModelMaxTileRaw(m refmodel.CubeCell, limit s2.CellID, limMin uint64) s2.CellID {
	start, _ := m.LeafRange()
	if start >= limMin {
		return limit
	}
	// candidates: cells at every level whose first leaf is `start`
	leafIdx := m.Idx << uint(2*(30-m.Level))
	for l := 0; l <= 30; l++ {
		cand := refmodel.CubeCellFromIdx(m.Face, l, leafIdx>>uint(2*(30-l)))
		lo, hi := cand.LeafRange()
		if lo == start && hi < limMin {
			return s2.CellID(cand.ID())
		}
	}
	panic(core.HarnessError("MaxTile model: no candidate"))
}

type c01Stats struct {
	steps, nbr, crossFace, cubeCorner, maxtile atomic.Int64
	ptBoundary, ptTie, ptFaceEdge              atomic.Int64
}

// c01CheckPoint: the property's own criterion for one point, plus the exact model.
// It returns true when the point is a deciding case (within 3e-15 of a leaf boundary in u or v).
func c01CheckPoint(c *core.Ctx, sub string, cas []int, p s2.Point, st *c01Stats) bool {
	v := c01Viol{c, sub}
	det := func(extra ...any) any {
		d := map[string]any{"tier": c01Tier, "p": [3]float64{p.X, p.Y, p.Z}, "p_bits": [3]string{fmt.Sprintf("%#x", math.Float64bits(p.X)), fmt.Sprintf("%#x", math.Float64bits(p.Y)), fmt.Sprintf("%#x", math.Float64bits(p.Z))}}
		for i := 0; i+1 < len(extra); i += 2 {
			d[fmt.Sprint(extra[i])] = extra[i+1]
		}
		return d
	}
	leaf := s2.CellFromPoint(p)
	lid := leaf.ID()
	m, ok := refmodel.CubeCellFromID(uint64(lid))
	if !ok || !lid.IsValid() || !lid.IsLeaf() || m.Level != 30 {
		v.bad(cas, "CellFromPoint(p) is not a valid leaf cell", det("got", fmt.Sprintf("%#x", uint64(lid))))
		return false
	}
	if lid != s2.VerifCellIDFromPoint(p) || leaf != s2.CellFromCellID(lid) {
		v.bad(cas, "CellFromPoint(p) differs from CellFromCellID(cellIDFromPoint(p))", det())
	}
	// exact model: the leaf's face is a face of the direction, and the exact (u,v) lies in the leaf within 4e-15
	if !refmodel.OnFace(m.Face, p.Vector) {
		v.bad(cas, "the leaf's face is not a face of the point's direction", det("leaf", lid.String()))
		return false
	}
	if !m.ContainsWithin(p.Vector, 4e-15) {
		v.bad(cas, "the exact (u,v) of the point is more than 4e-15 outside the returned leaf cell", det("leaf", lid.String()))
	}
	deciding := m.BoundaryProximity(p.Vector, 3e-15)
	if deciding {
		st.ptBoundary.Add(1)
		u, vv, w := refmodel.FloatToUVW(m.Face, p.Vector)
		if math.Abs(u) == w || math.Abs(vv) == w {
			st.ptFaceEdge.Add(1)
		}
		ilo, ihi := refmodel.ExactLeafIndex(u, w)
		jlo, jhi := refmodel.ExactLeafIndex(vv, w)
		if ilo != ihi || jlo != jhi || m.I0 < ilo || m.I0 > ihi || m.J0 < jlo || m.J0 > jhi {
			st.ptTie.Add(1) // exactly on a boundary, or the library chose the neighbouring leaf
		}
	}
	if !leaf.ContainsPoint(p) {
		// (ancestors sharing the violated boundary fail for the same reason; they are not reported separately)
		v.bad(cas, "CellFromPoint(p).ContainsPoint(p) is false", det("leaf", lid.String(), "leaf_id", fmt.Sprintf("%#x", uint64(lid)), "leaf_bound_uv", fmt.Sprint(leaf.BoundUV())))
		return deciding
	}
	for l := 29; l >= 0; l-- {
		if !s2.CellFromCellID(lid.Parent(l)).ContainsPoint(p) {
			v.bad(cas, "an ancestor of CellFromPoint(p) does not contain p although the leaf does (ContainsPoint false)", det("leaf", lid.String(), "level", l))
			break
		}
	}
	return deciding
}

// c01HuntBoundaries returns the leaf-boundary indices near which points are
// generated: every cell boundary of levels <= L, the first and last few
// boundaries of every level, and dense runs around the s-values where the
// floating-point exponent of u, 3u or 1±3u changes (u = 0, ±1/4, ±1/3, ±1/2, ±1).
func runC01(c *core.Ctx) {
	// a replay file records the tier whose lattice its case indices refer to
	if c.OnlySub != "" {
		if d, ok := c.ReplayDetail.(map[string]any); ok {
			if t, ok := d["tier"].(string); ok && (t == "quick" || t == "thorough") {
				c.Tier = t
			}
		}
	}
	c01Tier = c.Tier
	if c.OnlySub == "first-use" {
		freshReplay(c, "first-use")
		return
	}
	// a recorded point is re-evaluated directly (independent of the lattice that produced it)
	if c.OnlySub != "" {
		if d, ok := c.ReplayDetail.(map[string]any); ok {
			if pb, ok := d["p_bits"].([]any); ok && len(pb) == 3 {
				var f [3]float64
				good := true
				for i, x := range pb {
					str, _ := x.(string)
					u, err := strconv.ParseUint(strings.TrimPrefix(str, "0x"), 16, 64)
					if err != nil {
						good = false
					}
					f[i] = math.Float64frombits(u)
				}
				if good {
					var st c01Stats
					c01CheckPoint(c, c.OnlySub, c.OnlyCase, s2.Point{Vector: r3.Vector{X: f[0], Y: f[1], Z: f[2]}}, &st)
					return
				}
			}
		}
	}
	c.Rule = "cells: every cell of level <= L on all faces plus the deep families (prefix of <= p digits followed by a periodic digit pattern of period <= 2, every level to 30), each distinct id is one non-trivial case; " +
		"points (only distinct bit patterns are evaluated): structural (face,si,ti) grid points with all 27 (125) one-ulp neighbours, the same through the lat-lng path; unit vectors whose float quotient u=y/x (or v) is exactly one of the floats 0..D ulps either side of a cell-boundary value or one of the first 3 floats outside boundary±dblEpsilon, for every cell boundary of level <= L, the first/last boundaries of every level and dense runs around u in {0,±1/4,±1/3,±1/2,±1}, on all 6 faces in both axis roles; every leaf boundary b (b = 0 mod stride) with the first float outside the margin; vertex-to-near-vertex interpolations; " +
		"a point is non-trivial when its exact (u,v) lies within 3e-15 of a leaf-cell boundary (the cases where rounding decides the leaf); parser strings: every distinct string is one case, non-trivial when it is not a canonical form"
	c.Assume = []string{
		"the Hilbert-curve specification is the canonical quadrant order with transposed first / anti-transposed last sub-square, odd faces transposed, and the documented face axes (refmodel/cubemodel.go self-tests bijection and continuity to level 6)",
		"math/big integer arithmetic is correct",
		"a point handed to CellFromPoint is a unit vector within rounding (all lattice points are normalised or 1-ulp neighbours of normalised vectors)",
	}
	if err := refmodel.SelfTestCubeModel(core.Pick(c, 5, 6)); err != nil {
		panic(core.HarnessError("cube model self-test: " + err.Error()))
	}
	var st c01Stats
	t0 := time.Now()
	lap := func(name string) {
		c.Note("wall_s_"+name, math.Round(time.Since(t0).Seconds()*10)/10)
		t0 = time.Now()
	}

	// ---------------- ids
	specs := c01Cells(core.Pick(c, 4, 7), core.Pick(c, 1, 3), 2)
	c.Note("cells_enumerated", len(specs))
	// family for pairwise operations: a fixed short list spanning faces and depths
	var family []c01Spec
	for _, f := range []int{0, 3, 5} {
		family = append(family, c01Spec{f, 0, 0}, c01Spec{f, 1, 2}, c01Spec{f, 2, 0}, c01Spec{f, 30, 0}, c01Spec{f, 30, 1<<60 - 1},
			c01Spec{f, 12, 0x333333}, c01Spec{f, 29, 1 << 57})
	}
	var done atomic.Int64
	perLevel := make([]atomic.Int64, 31)
	cut := atomic.Bool{}
	block := 256
	nb := (len(specs) + block - 1) / block
	c.ParallelFor(nb, func(b int) {
		if c.Expired() {
			cut.Store(true)
			return
		}
		for i := b * block; i < (b+1)*block && i < len(specs); i++ {
			if c.Skip("ids", i) {
				continue
			}
			sp := specs[i]
			c.Guard("ids", []int{i}, func() any { return fmt.Sprintf("cell face=%d level=%d idx=%d", sp.face, sp.level, sp.idx) }, func() {
				c01CheckCell(c, i, sp, family, &st)
			})
			done.Add(1)
			perLevel[sp.level].Add(1)
			if i%4099 == 7 {
				c.Sample(map[string]any{"sub": "ids", "cell": refmodel.CubeCellFromIdx(sp.face, sp.level, sp.idx).String()})
			}
		}
	})
	if cut.Load() {
		c.CapHit("ids: wall budget reached")
	}
	c.Eval(int(done.Load()))
	c.Nontrivial(int(done.Load()))
	c.Count("ids/cells", done.Load())
	c.Count("ids/cells_level_ge_8", func() int64 {
		var s int64
		for l := 8; l <= 30; l++ {
			s += perLevel[l].Load()
		}
		return s
	}())
	c.Count("ids/leaf_cells", perLevel[30].Load())
	c.Count("ids/advance_calls", st.steps.Load())
	c.Count("ids/neighbour_queries", st.nbr.Load())
	c.Count("ids/edge_neighbours_on_another_face", st.crossFace.Load())
	c.Count("ids/vertex_neighbour_queries_at_cube_corner", st.cubeCorner.Load())
	c.Count("ids/maxtile_calls", st.maxtile.Load())
	if c.OnlySub == "" && !cut.Load() && (st.crossFace.Load() == 0 || st.cubeCorner.Load() == 0) {
		panic(core.HarnessError("ids: no neighbour query crossed a face edge / cube corner"))
	}

	lap("ids")

	// ---------------- points
	seen := newC01PointSet()
	runPts := func(sub string, n int, gen func(i int, emit func(j int, p s2.Point))) {
		var ev, nt, dup atomic.Int64
		var once sync.Once
		c.ParallelFor(n, func(i int) {
			if c.Expired() {
				once.Do(func() { c.CapHit(sub + ": wall budget reached") })
				return
			}
			gen(i, func(j int, p s2.Point) {
				if c.Skip(sub, i, j) {
					return
				}
				if c.OnlySub == "" && !seen.add(p) {
					dup.Add(1)
					return
				}
				c.Guard(sub, []int{i, j}, func() any { return [3]float64{p.X, p.Y, p.Z} }, func() {
					if c01CheckPoint(c, sub, []int{i, j}, p, &st) {
						nt.Add(1)
						if (i*31+j)%20011 == 3 {
							c.Sample(map[string]any{"sub": sub, "p": [3]float64{p.X, p.Y, p.Z}, "leaf": s2.CellFromPoint(p).ID().String()})
						}
					}
				})
				ev.Add(1)
			})
		})
		c.Eval(int(ev.Load()))
		c.Nontrivial(int(nt.Load()))
		c.Count(sub+"/distinct_points", ev.Load())
		c.Count(sub+"/duplicates_skipped", dup.Load())
		c.Count(sub+"/points_within_3e-15_of_a_leaf_boundary", nt.Load())
	}

	base := lattice.PStruct(core.Pick(c, 2, 3))
	base = append(base, s2.Point{Vector: r3.Vector{Z: 1}}, s2.Point{Vector: r3.Vector{Z: -1}})
	for _, d := range []float64{0, 90, 180, -180, -90, 45, 135} { // ±π meridian and friends
		for _, la := range []float64{0, 45, -45, 90, -90, 35.264389682754654} {
			base = append(base, lattice.LL(la, d))
		}
	}
	base = lattice.Dedup(base)
	c.Note("points_base", len(base))
	kUlp := core.Pick(c, 1, 2)
	runPts("points", len(base), func(i int, emit func(int, s2.Point)) {
		for j, p := range lattice.PUlp(base[i], kUlp) {
			emit(j, p)
		}
	})
	// lat-lng path on the same base (1-ulp neighbours of the lat-lng are reached through PUlp of the point)
	runPts("latlng", len(base), func(i int, emit func(int, s2.Point)) {
		for j, p := range lattice.PUlp(base[i], 1) {
			ll := s2.LatLngFromPoint(p)
			if !ll.IsValid() {
				c.Violate("latlng", "wrong-answer", "LatLngFromPoint of a unit vector is not valid", []int{i, j}, [3]float64{p.X, p.Y, p.Z})
				continue
			}
			q := s2.PointFromLatLng(ll)
			cl := s2.CellFromLatLng(ll)
			if cl.ID() != s2.CellIDFromLatLng(ll) || cl.ID() != s2.CellFromPoint(q).ID() {
				c.Violate("latlng", "wrong-answer", "CellFromLatLng(ll) differs from CellFromPoint(PointFromLatLng(ll))", []int{i, j}, [2]float64{ll.Lat.Radians(), ll.Lng.Radians()})
			}
			emit(j, q)
		}
	})

	lap("points_latlng")
	// ---------------- hunt: points next to cell boundaries
	bnd := c01HuntBoundaries(c)
	D := core.Pick(c, 6, 8)
	var cross []float64
	crossIdx := []int{1 << 29, 1 << 30, 1<<29 + 1<<20 + 1}
	if !c.Quick() {
		crossIdx = append(crossIdx, 0, 3 << 28, 5<<27 + 12345)
	}
	for _, j := range crossIdx {
		cross = append(cross, c01ST2UV(float64(j)/(1<<30)))
	}
	c.Note("hunt_boundaries", len(bnd))
	c.Note("hunt_ulps_each_side", D)
	runPts("hunt", len(bnd), func(bi int, emit func(int, s2.Point)) {
		ub := c01ST2UV(float64(bnd[bi]) / (1 << 30))
		j := 0
		for _, u := range c01Targets(ub, D) {
			for _, w := range cross {
				for _, t := range c01UnitWithRatio(u, w, 2) {
					for f := 0; f < 6; f++ {
						emit(j, s2.Point{Vector: refmodel.FloatFromUVW(f, t[0], t[1], t[2])}) // boundary in u
						j++
						emit(j, s2.Point{Vector: refmodel.FloatFromUVW(f, t[1], t[0], t[2])}) // boundary in v
						j++
					}
				}
			}
		}
		// all 27 one-ulp neighbours of the normalised boundary point itself
		for _, w := range cross {
			for f := 0; f < 6; f++ {
				for swap := 0; swap < 2; swap++ {
					a, b := ub, w
					if swap == 1 {
						a, b = w, ub
					}
					p := s2.Point{Vector: refmodel.FloatFromUVW(f, a, b, 1).Normalize()}
					for _, q := range lattice.PUlp(p, 1) {
						emit(j, q)
						j++
					}
				}
			}
		}
	})

	// ---------------- uscan: every leaf boundary (stride 1 in the thorough tier), the first float
	// outside the documented margin on either side, as a unit vector on face 0 with v = 0.
	lap("hunt")
	c01UScan(c)
	lap("uscan")

	// ---------------- interp: between a vertex and a point within 1e-15 of the next vertex
	var icells []s2.CellID
	for _, sp := range c01Cells(core.Pick(c, 2, 3), core.Pick(c, 0, 1), 2) {
		icells = append(icells, s2.CellID(refmodel.CubeCellFromIdx(sp.face, sp.level, sp.idx).ID()))
	}
	ts := []float64{0, 1e-9, 0.125, 0.25, 1 / 3., 0.5, 0.625, 0.75, 0.875, 1 - 1e-9, 1}
	offs := []r3.Vector{{}, {X: 1e-15}, {X: -1e-15}, {Y: 1e-15}, {Y: -1e-15}, {Z: 1e-15}, {Z: -1e-15}, {X: 6e-16, Y: -6e-16, Z: 6e-16}}
	c.Note("interp_cells", len(icells))
	runPts("interp", len(icells), func(i int, emit func(int, s2.Point)) {
		cell := s2.CellFromCellID(icells[i])
		j := 0
		for k := 0; k < 4; k++ {
			v1 := cell.Vertex(k)
			for _, o := range offs {
				v2 := s2.Point{Vector: cell.Vertex((k + 1) & 3).Add(o).Normalize()}
				for _, t := range ts {
					emit(j, s2.Interpolate(t, v1, v2))
					j++
				}
			}
		}
	})
	c.Count("points/all_subchecks_deciding_points", st.ptBoundary.Load())
	c.Count("points/exactly_on_a_boundary_or_neighbouring_leaf_chosen", st.ptTie.Load())
	c.Count("points/on_a_face_edge_exactly", st.ptFaceEdge.Load())
	if c.OnlySub == "" && st.ptBoundary.Load() == 0 {
		panic(core.HarnessError("points: no point fell within 3e-15 of a leaf boundary"))
	}

	lap("interp")
	// ---------------- parsers
	c01Parsers(c, specs)
	lap("parse")
	// ---------------- first use of the conversions in a new process by several goroutines at once
	if c.OnlySub == "" {
		c01FirstUse(c)
		lap("first-use")
	}
}

func c01ModelToken(s string) (uint64, bool, bool) {
	if len(s) == 0 || len(s) > 16 {
		return 0, false, false
	}
	var n uint64
	lower := true
	for i := 0; i < len(s); i++ {
		ch := s[i]
		var d byte
		switch {
		case ch >= '0' && ch <= '9':
			d = ch - '0'
		case ch >= 'a' && ch <= 'f':
			d = ch - 'a' + 10
		case ch >= 'A' && ch <= 'F':
			d = ch - 'A' + 10
			lower = false
		default:
			return 0, false, false
		}
		n = n<<4 | uint64(d)
	}
	return n << uint(4*(16-len(s))), true, lower
}

func c01ModelString(s string) (uint64, bool) {
	if len(s) < 2 || len(s) > 32 || s[0] < '0' || s[0] > '5' || s[1] != '/' {
		return 0, false
	}
	var idx uint64
	for i := 2; i < len(s); i++ {
		if s[i] < '0' || s[i] > '3' {
			return 0, false
		}
		idx = idx<<2 | uint64(s[i]-'0')
	}
	return refmodel.CubeCellFromIdx(int(s[0]-'0'), len(s)-2, idx).ID(), true
}

func c01Edits(s, alphabet string) []string {
	var out []string
	for i := 0; i <= len(s); i++ {
		for _, ch := range alphabet {
			out = append(out, s[:i]+string(ch)+s[i:]) // insertion
			if i < len(s) {
				out = append(out, s[:i]+string(ch)+s[i+1:]) // substitution
			}
		}
		if i < len(s) {
			out = append(out, s[:i]+s[i+1:]) // deletion
		}
	}
	return out
}

func c01Parsers(c *core.Ctx, specs []c01Spec) {
	tokAlpha := "0123456789abcdefABCDEFXxgG +-_/.\x00"
	strAlpha := "0123456/789 a-\x00"
	tokSet := map[string]bool{"": true}
	strSet := map[string]bool{"": true}
	for _, a := range tokAlpha {
		tokSet[string(a)] = true
		for _, b := range tokAlpha {
			tokSet[string(a)+string(b)] = true
		}
	}
	for _, a := range strAlpha {
		strSet[string(a)] = true
		for _, b := range strAlpha {
			strSet[string(a)+string(b)] = true
			for _, d := range strAlpha {
				strSet[string(a)+string(b)+string(d)] = true
			}
		}
	}
	stride := core.Pick(c, 211, 53)
	nValid := 0
	for i := 0; i < len(specs); i += stride {
		m := refmodel.CubeCellFromIdx(specs[i].face, specs[i].level, specs[i].idx)
		nValid++
		for _, e := range c01Edits(m.Token(), tokAlpha) {
			tokSet[e] = true
		}
		tokSet[m.Token()+"0"] = true
		tokSet[m.Token()+strings.Repeat("0", 17-len(m.Token()))] = true
		for _, e := range c01Edits(m.String(), strAlpha) {
			strSet[e] = true
		}
	}
	toks := make([]string, 0, len(tokSet))
	for s := range tokSet {
		toks = append(toks, s)
	}
	sort.Strings(toks)
	strs := make([]string, 0, len(strSet))
	for s := range strSet {
		strs = append(strs, s)
	}
	sort.Strings(strs)
	var nonCanon, validOut int64
	for i, s := range toks {
		if c.Skip("parse-token", i) {
			continue
		}
		c.Guard("parse-token", []int{i}, func() any { return s }, func() {
			got := s2.CellIDFromToken(s)
			want, isHex, lower := c01ModelToken(s)
			canonical := isHex && lower && s[len(s)-1] != '0'
			if !canonical {
				nonCanon++
			}
			switch {
			case isHex && lower:
				if uint64(got) != want {
					c.Violate("parse-token", "wrong-answer", "CellIDFromToken of a hex string is not the left-justified 64-bit value", []int{i}, map[string]any{"tier": c01Tier, "s": s, "got": fmt.Sprintf("%#x", uint64(got))})
				}
			case isHex:
				if got != 0 && uint64(got) != want {
					c.Violate("parse-token", "wrong-answer", "CellIDFromToken of an upper-case hex string is neither invalid nor its value", []int{i}, map[string]any{"tier": c01Tier, "s": s, "got": fmt.Sprintf("%#x", uint64(got))})
				}
			default:
				if got.IsValid() {
					c.Violate("parse-token", "wrong-answer", "CellIDFromToken of a malformed string is a valid cell id", []int{i}, map[string]any{"tier": c01Tier, "s": s, "got": fmt.Sprintf("%#x", uint64(got))})
				}
			}
			if got.IsValid() {
				validOut++
				m, ok := refmodel.CubeCellFromID(uint64(got))
				if !ok || got.ToToken() != m.Token() || s2.CellIDFromToken(got.ToToken()) != got {
					c.Violate("parse-token", "wrong-answer", "a parsed valid id does not round-trip through ToToken", []int{i}, map[string]any{"tier": c01Tier, "s": s})
				}
			} else if _, ok := refmodel.CubeCellFromID(uint64(got)); ok {
				c.Violate("parse-token", "wrong-answer", "IsValid is false for an id with a valid layout", []int{i}, map[string]any{"tier": c01Tier, "s": s})
			}
		})
	}
	for i, s := range strs {
		if c.Skip("parse-string", i) {
			continue
		}
		c.Guard("parse-string", []int{i}, func() any { return s }, func() {
			got := s2.CellIDFromString(s)
			want, ok := c01ModelString(s)
			if !ok {
				nonCanon++
				if got.IsValid() {
					c.Violate("parse-string", "wrong-answer", "CellIDFromString of a malformed string is a valid cell id", []int{i}, map[string]any{"tier": c01Tier, "s": s, "got": fmt.Sprintf("%#x", uint64(got))})
				}
				return
			}
			validOut++
			if uint64(got) != want || got.String() != s {
				c.Violate("parse-string", "wrong-answer", "CellIDFromString of a well-formed string is not the model cell", []int{i}, map[string]any{"tier": c01Tier, "s": s, "got": fmt.Sprintf("%#x", uint64(got))})
			}
		})
	}
	// invalid ids print without panicking and do not parse back to a valid cell
	for i, raw := range []uint64{0, ^uint64(0), 6 << 61, 7<<61 | 1, 2, 1 << 62, 0xc000000000000000, 1<<63 | 2} {
		c.Guard("parse-string", []int{-1 - i}, func() any { return raw }, func() {
			id := s2.CellID(raw)
			if id.IsValid() {
				if _, ok := refmodel.CubeCellFromID(raw); !ok {
					c.Violate("parse-string", "wrong-answer", "IsValid is true for an id with an invalid layout", []int{-1 - i}, raw)
				}
				return
			}
			if s2.CellIDFromString(id.String()).IsValid() {
				c.Violate("parse-string", "wrong-answer", "String() of an invalid id parses to a valid cell", []int{-1 - i}, raw)
			}
			if s2.CellIDFromToken(id.ToToken()) != id {
				c.Violate("parse-string", "wrong-answer", "ToToken of an invalid id does not parse back to the same value", []int{-1 - i}, raw)
			}
		})
	}
	c.Eval(len(toks) + len(strs))
	c.Nontrivial(int(nonCanon))
	c.Count("parse/token_strings", int64(len(toks)))
	c.Count("parse/cell_strings", int64(len(strs)))
	c.Count("parse/non_canonical_or_malformed", nonCanon)
	c.Count("parse/parsed_to_valid_cell", validOut)
	c.Count("parse/valid_forms_edited", int64(nValid))
	c.Sample(map[string]any{"sub": "parse", "token_examples": toks[len(toks)/2 : len(toks)/2+3], "string_examples": strs[len(strs)/2 : len(strs)/2+3]})
}

// c01PointSet is a sharded set of point bit patterns (64-bit hashes), so that
// only distinct points are evaluated and counted.
type c01PointSet struct {
	sh [256]struct {
		mu sync.Mutex
		m  map[uint64]struct{}
	}
}

func newC01PointSet() *c01PointSet {
	s := &c01PointSet{}
	for i := range s.sh {
		s.sh[i].m = map[uint64]struct{}{}
	}
	return s
}

func (s *c01PointSet) add(p s2.Point) bool {
	h := uint64(14695981039346656037)
	for _, f := range [3]float64{p.X, p.Y, p.Z} {
		b := math.Float64bits(f)
		for k := 0; k < 8; k++ {
			h ^= (b >> uint(8*k)) & 255
			h *= 1099511628211
		}
	}
	sh := &s.sh[h>>56]
	sh.mu.Lock()
	_, dup := sh.m[h]
	if !dup {
		sh.m[h] = struct{}{}
	}
	sh.mu.Unlock()
	return !dup
}

// c01UScan walks leaf boundaries b (every b in the thorough tier, every 61st in
// the quick tier; the stride is odd because boundaries with many trailing zero
// bits are computed without rounding and can never be deciding) and asks the
// property's own question for the first float outside ub±dblEpsilon on either
// side, as unit vectors on face 0.  Only the public API is called.
func c01UScan(c *core.Ctx) {
	const sub = "uscan"
	stride := core.Pick(c, 61, 1)
	total := (1<<30)/stride + 1
	chunks := 4096
	per := (total + chunks - 1) / chunks
	var ev, fail, noWitness atomic.Int64
	var once sync.Once
	c.ParallelFor(chunks, func(ch int) {
		if c.Expired() {
			once.Do(func() { c.CapHit("uscan: wall budget reached") })
			return
		}
		var lev, lfail, lno int64
		for k := ch * per; k < (ch+1)*per && k < total; k++ {
			b := k * stride
			if c.Skip(sub, b) {
				continue
			}
			ub := c01ST2UV(float64(b) / (1 << 30))
			for _, side := range []float64{-1, 1} {
				u := math.Nextafter(ub+side*c01Eps, side*2)
				if u < -1 || u > 1 {
					continue
				}
				ts := c01UnitWithRatio(u, 0, 1)
				if len(ts) == 0 {
					lno++
					continue
				}
				p := s2.Point{Vector: r3.Vector{X: ts[0][2], Y: ts[0][0], Z: 0}}
				lev++
				leaf := s2.CellFromPoint(p)
				if !leaf.ContainsPoint(p) {
					lfail++
					c.Violate(sub, "wrong-answer", "CellFromPoint(p).ContainsPoint(p) is false", []int{b},
						map[string]any{"tier": c01Tier, "p": [3]float64{p.X, p.Y, p.Z}, "p_bits": [3]string{fmt.Sprintf("%#x", math.Float64bits(p.X)), fmt.Sprintf("%#x", math.Float64bits(p.Y)), "0x0"},
							"u=y/x": u, "boundary_index": b, "leaf": leaf.ID().String(), "leaf_bound_uv": fmt.Sprint(leaf.BoundUV())})
				}
			}
		}
		ev.Add(lev)
		fail.Add(lfail)
		noWitness.Add(lno)
	})
	c.Eval(int(ev.Load()))
	c.Nontrivial(int(ev.Load()))
	c.Count("uscan/boundary_stride", int64(stride))
	c.Count("uscan/points", ev.Load())
	c.Count("uscan/targets_without_unit_witness", noWitness.Load())
	c.Count("uscan/points_not_contained_by_their_own_leaf", fail.Load())
}
