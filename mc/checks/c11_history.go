package checks

import (
	"fmt"
	"math"
	"sort"
	"strings"
	"time"

	"github.com/golang/geo/s1"
	"github.com/golang/geo/s2"
	"github.com/golang/geo/s2/s2intersect"

	"verif/mc/core"
)

// C11 sub-check "algebra-histories".
//
// Every other sub-check of C11 builds fresh values and asks once.  This one keeps values alive:
// it enumerates ALL operation sequences up to a depth over three small alphabets and, after every
// history, compares the answer of the LAST operation with
//   (a) the answer of freshly constructed values put directly into the final state, and
//   (b) the leaf-interval model of the C11 check (c11Ivl / c11Canon and friends).
// Only the last answer is compared: every prefix of a history is itself an enumerated history.
//
//   machine U  one CellUnion modified in place (Normalize, Denormalize x3, ExpandAtLevel x2,
//              ExpandByRadius) and used in between (Contains/Intersects, Union/Intersection/
//              Difference with another union, with itself and with sub-slices of itself,
//              LeafCellsCovered/IsValid/IsNormalized/cell queries).  The union initially lives in
//              a larger array (spare capacity behind it, guard cells behind that), so a function
//              that writes into an operand or into the spare capacity of an operand is seen.
//   machine I  one CellIndex, built once (documented), and three long-lived iterators on it: a
//              range iterator, a non-empty range iterator, ONE contents iterator reused across
//              ranges in any order (increasing, decreasing, zig-zag), drained fully or abandoned
//              after the first pair, with and without Clear.
//   machine F  s2intersect.Find called repeatedly on the same slice of unions, with the caller
//              normalising / denormalising / swapping / aliasing / growing the unions in between.
//
// What is NOT asserted (documented behaviour of golang/geo):
//   * CellIndex: "Adding more after calling Build results in undefined behavior", "Build should
//     only be called once"; there is no Clear on the index.  Add-after-Build / second-Build
//     histories are executed and COUNTED (agree / disagree with a fresh index) but never a violation.
//   * s2intersect.Find "calls Normalize() on all CellUnions": it sorts the caller's arrays in place.
//     The inputs are required to be unchanged only when they were normalised already; the second
//     call is judged on the contents the slices have at that moment.
//   * A contents iterator "only guarantees that each result will be reported at least once"; exactly
//     once only "when multiple leaf cell ranges are visited in monotonically increasing order".

const c11hSub = "algebra-histories"

// ---- interval algebra (model side) -----------------------------------------------------------

func c11hMerge(ivs []c11iv) []c11iv {
	sorted := true
	for i := 1; i < len(ivs); i++ {
		if ivs[i].a < ivs[i-1].a {
			sorted = false
			break
		}
	}
	if !sorted {
		sort.Slice(ivs, func(i, j int) bool { return ivs[i].a < ivs[j].a })
	}
	w := 0
	for _, iv := range ivs {
		if w > 0 && iv.a <= ivs[w-1].b+1 {
			if iv.b > ivs[w-1].b {
				ivs[w-1].b = iv.b
			}
			continue
		}
		ivs[w] = iv
		w++
	}
	return ivs[:w]
}

func c11hSet(cells []s2.CellID) []c11iv {
	ivs := make([]c11iv, 0, len(cells))
	for _, c := range cells {
		ivs = append(ivs, c11Ivl(c))
	}
	return c11hMerge(ivs)
}

func c11hUnionIv(a, b []c11iv) []c11iv {
	out := make([]c11iv, 0, len(a)+len(b))
	out = append(append(out, a...), b...)
	return c11hMerge(out)
}

func c11hInterIv(a, b []c11iv) []c11iv {
	var out []c11iv
	i, j := 0, 0
	for i < len(a) && j < len(b) {
		lo, hi := a[i].a, a[i].b
		if b[j].a > lo {
			lo = b[j].a
		}
		if b[j].b < hi {
			hi = b[j].b
		}
		if lo <= hi {
			out = append(out, c11iv{lo, hi})
		}
		if a[i].b < b[j].b {
			i++
		} else {
			j++
		}
	}
	return out
}

func c11hDiffIv(a, b []c11iv) []c11iv {
	var out []c11iv
	j := 0
	for _, x := range a {
		lo := x.a
		for j < len(b) && b[j].b < lo {
			j++
		}
		done := false
		for k := j; k < len(b) && b[k].a <= x.b; k++ {
			if b[k].a > lo {
				out = append(out, c11iv{lo, b[k].a - 1})
			}
			if b[k].b >= x.b {
				done = true
				break
			}
			lo = b[k].b + 1
		}
		if !done && lo <= x.b {
			out = append(out, c11iv{lo, x.b})
		}
	}
	return out
}

func c11hEqIv(a, b []c11iv) bool {
	if len(a) != len(b) {
		return false
	}
	for i := range a {
		if a[i] != b[i] {
			return false
		}
	}
	return true
}

// c11hValid: sorted in increasing order and pairwise disjoint.
func c11hValid(cells []s2.CellID) bool {
	for i := 1; i < len(cells); i++ {
		if c11Ivl(cells[i-1]).b >= c11Ivl(cells[i]).a {
			return false
		}
	}
	return true
}

func c11hCanon(cells []s2.CellID) []s2.CellID { return c11Canon(c11hSet(cells), nil) }

func c11hNorm(cells []s2.CellID) bool { return c11EqCells(cells, c11hCanon(cells)) }

// c11hContainsCW: the documented (cell-wise) containment: every cell of o lies inside one cell of cu.
func c11hContainsCW(cu, o []s2.CellID) bool {
	for _, id := range o {
		q := c11Ivl(id)
		in := false
		for _, c := range cu {
			iv := c11Ivl(c)
			if iv.a <= q.a && q.b <= iv.b {
				in = true
				break
			}
		}
		if !in {
			return false
		}
	}
	return true
}

func c11hCopy(cells []s2.CellID) s2.CellUnion {
	out := make(s2.CellUnion, len(cells))
	copy(out, cells)
	return out
}

func c11hParentAt(id s2.CellID, level int) s2.CellID {
	for c11Level(id) > level {
		id = c11Parent(id)
	}
	return id
}

// ---- (face,i,j) model of the Hilbert curve, for the neighbours used by ExpandAtLevel -----------

var c11hPosToIJ = [4][4]uint64{{0, 1, 3, 2}, {0, 2, 3, 1}, {3, 2, 0, 1}, {3, 1, 0, 2}}
var c11hPosToOri = [4]int{1, 0, 0, 3}

func c11hToIJ(id s2.CellID) (face int, i, j uint64, level int) {
	level = c11Level(id)
	face = int(uint64(id) >> 61)
	o := face & 1
	for k := 0; k < level; k++ {
		pos := (uint64(id) >> uint(59-2*k)) & 3
		ij := c11hPosToIJ[o][pos]
		i = i<<1 | ij>>1
		j = j<<1 | ij&1
		o ^= c11hPosToOri[pos]
	}
	i <<= uint(30 - level)
	j <<= uint(30 - level)
	return
}

func c11hFromIJ(face int, i, j uint64, level int) s2.CellID {
	o := face & 1
	v := uint64(face) << 61
	for k := 0; k < level; k++ {
		ij := (i>>uint(29-k)&1)<<1 | (j >> uint(29-k) & 1)
		pos := uint64(0)
		for p := uint64(0); p < 4; p++ {
			if c11hPosToIJ[o][p] == ij {
				pos = p
			}
		}
		v |= pos << uint(59-2*k)
		o ^= c11hPosToOri[pos]
	}
	return s2.CellID(v | uint64(1)<<uint(2*(30-level)))
}

// c11hRing: the cells of the given level that abut the cell id (level(id) <= level): edge and
// vertex neighbours.  ok is false when the ring leaves the face (the model does not wrap).
func c11hRing(id s2.CellID, level int) (out []s2.CellID, ok bool) {
	face, i0, j0, l := c11hToIJ(id)
	size := int64(1) << uint(30-l)
	ns := int64(1) << uint(30-level)
	const lim = int64(1) << 30
	for i := int64(i0) - ns; i <= int64(i0)+size; i += ns {
		for j := int64(j0) - ns; j <= int64(j0)+size; j += ns {
			if i >= int64(i0) && i < int64(i0)+size && j >= int64(j0) && j < int64(j0)+size {
				continue
			}
			if i < 0 || j < 0 || i >= lim || j >= lim {
				return nil, false
			}
			out = append(out, c11hFromIJ(face, uint64(i), uint64(j), level))
		}
	}
	return out, true
}

func c11hIJSanity() {
	x := c11Path(4, 1, 2, 0, 3, 1, 2, 2, 0, 1, 3, 0, 2, 1, 1, 0, 3, 2, 2, 1, 0, 3, 3, 0, 1, 2, 0, 2, 1)
	for _, id := range []s2.CellID{x, c11Parent(x), c11Child(x, 2), c11Path(2), c11Path(5, 3, 3), c11Path(1, 0, 2, 1)} {
		f, i, j, l := c11hToIJ(id)
		if c11hFromIJ(f, i, j, l) != id {
			panic(core.HarnessError("C11 histories: (face,i,j) model does not round-trip"))
		}
		// the library's geometry must order the cells the same way: larger i <=> larger u, larger j <=> larger v
		if l < 30 && l > 0 {
			type ijc struct {
				i, j uint64
				u, v float64
			}
			var cs []ijc
			for k := 0; k < 4; k++ {
				ch := c11Child(id, k)
				_, ci, cj, _ := c11hToIJ(ch)
				b := s2.CellFromCellID(ch).BoundUV()
				cs = append(cs, ijc{ci, cj, b.X.Lo, b.Y.Lo})
			}
			for _, a := range cs {
				for _, b := range cs {
					if (a.i < b.i) != (a.u < b.u) || (a.j < b.j) != (a.v < b.v) {
						panic(core.HarnessError("C11 histories: (face,i,j) model disagrees with the (u,v) bounds of the cells"))
					}
				}
			}
		}
	}
	// continuity of the curve inside a face: consecutive leaves are edge neighbours
	g0 := c11Ivl(x).a - 40
	_, pi, pj, _ := c11hToIJ(c11Leaf(g0))
	for g := g0 + 1; g < g0+200; g++ {
		_, i, j, _ := c11hToIJ(c11Leaf(g))
		di, dj := int64(i)-int64(pi), int64(j)-int64(pj)
		if di*di+dj*dj != 1 {
			panic(core.HarnessError("C11 histories: (face,i,j) model of the Hilbert curve is not continuous"))
		}
		pi, pj = i, j
	}
}

// ---- machine U: one CellUnion modified in place -------------------------------------------------

type c11hUObj struct {
	name    string
	L       int // level of the base cell
	cells   []s2.CellID
	y       []s2.CellID
	queries []s2.CellID
}

const (
	c11hN = iota
	c11hD1
	c11hD2
	c11hD3
	c11hE1
	c11hE2
	c11hR1
	c11hORel
	c11hOBin
	c11hOAlias
	c11hOQuery
	c11hUOps
)

func c11hIsMod(op int) bool { return op <= c11hR1 }

func c11hRadius(o *c11hUObj) float64 { return 0.7 * math.Ldexp(1, -(o.L+1)) }

func c11hUName(o *c11hUObj, op int) string {
	switch op {
	case c11hN:
		return "Normalize()"
	case c11hD1:
		return fmt.Sprintf("Denormalize(%d,1)", o.L+1)
	case c11hD2:
		return "Denormalize(0,3)"
	case c11hD3:
		return fmt.Sprintf("Denormalize(%d,2)", o.L-1)
	case c11hE1:
		return fmt.Sprintf("ExpandAtLevel(%d)", o.L)
	case c11hE2:
		return fmt.Sprintf("ExpandAtLevel(%d)", o.L+1)
	case c11hR1:
		return fmt.Sprintf("ExpandByRadius(%g,1)", c11hRadius(o))
	case c11hORel:
		return "use:Contains/Intersects(y; itself)"
	case c11hOBin:
		return "use:Union/Intersection/Difference(cu,y)"
	case c11hOAlias:
		return "use:Union/Intersection/Difference(cu,cu; cu,sub-slice of cu)"
	case c11hOQuery:
		return "use:LeafCellsCovered/IsValid/IsNormalized/cell queries"
	}
	return "?"
}

// c11hModKind is the descriptor-level name of a modifier (without the numbers).
func c11hModKind(op int) string {
	switch op {
	case c11hN:
		return "Normalize"
	case c11hD1, c11hD2, c11hD3:
		return "Denormalize"
	case c11hE1, c11hE2:
		return "ExpandAtLevel"
	}
	return "ExpandByRadius"
}

func c11hApplyMod(o *c11hUObj, op int, cu *s2.CellUnion) {
	switch op {
	case c11hN:
		cu.Normalize()
	case c11hD1:
		cu.Denormalize(o.L+1, 1)
	case c11hD2:
		cu.Denormalize(0, 3)
	case c11hD3:
		cu.Denormalize(o.L-1, 2)
	case c11hE1:
		cu.ExpandAtLevel(o.L)
	case c11hE2:
		cu.ExpandAtLevel(o.L + 1)
	case c11hR1:
		cu.ExpandByRadius(s1.Angle(c11hRadius(o)), 1)
	}
}

// c11hDenormModel: every cell whose level is below minLevel, or whose (level-minLevel) is not a
// multiple of levelMod, is replaced by its descendants at the first admissible level (or leaves).
func c11hDenormModel(m []s2.CellID, ml, lm int) []s2.CellID {
	out := []s2.CellID{}
	for _, cell := range m {
		t := c11Level(cell)
		if t < ml {
			t = ml
		}
		for t < 30 && (t-ml)%lm != 0 {
			t++
		}
		iv := c11Ivl(cell)
		k := 30 - t
		step := uint64(1) << (2 * uint(k))
		for g := iv.a; g <= iv.b; g += step {
			out = append(out, c11Cell(g, k))
		}
	}
	return out
}

// c11hExpandModel: for each cell c (replaced by its ancestor at the level when it is finer), c and
// all cells of the level that abut it; the result in normal form.  ok=false: a ring leaves the face.
func c11hExpandModel(m []s2.CellID, level int) ([]s2.CellID, bool) {
	var all []s2.CellID
	seen := map[s2.CellID]bool{}
	for _, c := range m {
		p := c11hParentAt(c, level)
		if seen[p] {
			continue
		}
		seen[p] = true
		ring, ok := c11hRing(p, level)
		if !ok {
			return nil, false
		}
		all = append(all, p)
		all = append(all, ring...)
	}
	return c11hCanon(all), true
}

func c11hModelMod(o *c11hUObj, op int, m []s2.CellID) ([]s2.CellID, bool) {
	switch op {
	case c11hN:
		return c11hCanon(m), true
	case c11hD1:
		return c11hDenormModel(m, o.L+1, 1), true
	case c11hD2:
		return c11hDenormModel(m, 0, 3), true
	case c11hD3:
		return c11hDenormModel(m, o.L-1, 2), true
	case c11hE1:
		return c11hExpandModel(m, o.L)
	case c11hE2:
		return c11hExpandModel(m, o.L+1)
	case c11hR1:
		// the largest level whose minimum cell width (2*sqrt(2)/3 * 2^-level, quadratic projection) is
		// at least the radius, but at most maxLevelDiff levels below the largest cell of the union
		r := c11hRadius(o)
		rl := 0
		for l := 0; l <= 30; l++ {
			if 2*math.Sqrt2/3*math.Ldexp(1, -l) >= r {
				rl = l
			}
		}
		minLevel := 30
		for _, c := range m {
			if l := c11Level(c); l < minLevel {
				minLevel = l
			}
		}
		lvl := minLevel + 1
		if rl < lvl {
			lvl = rl
		}
		return c11hExpandModel(m, lvl)
	}
	return nil, false
}

// results of a "use" letter and the model's expectation for them

type c11hR struct {
	name  string
	kind  int // 0 bool, 1 int, 2 cells
	b     bool
	n     int64
	cells []s2.CellID
}

type c11hE struct {
	b     bool
	n     int64
	ivs   []c11iv
	canon bool // the result must be in normal form (all operands normalised)
}

func c11hSplit(n int) (h, a, b int) { return n / 2, n / 4, n - n/4 }

func c11hObserve(op int, cu, y s2.CellUnion, qs []s2.CellID) []c11hR {
	var out []c11hR
	B := func(name string, v bool) { out = append(out, c11hR{name: name, kind: 0, b: v}) }
	C := func(name string, v s2.CellUnion) { out = append(out, c11hR{name: name, kind: 2, cells: v}) }
	h, a, b := c11hSplit(len(cu))
	switch op {
	case c11hORel:
		B("cu.Contains(y)", cu.Contains(y))
		B("cu.Intersects(y)", cu.Intersects(y))
		B("y.Contains(cu)", y.Contains(cu))
		B("y.Intersects(cu)", y.Intersects(cu))
		B("cu.Contains(cu)", cu.Contains(cu))
		B("cu.Intersects(cu)", cu.Intersects(cu))
	case c11hOBin:
		C("CellUnionFromUnion(cu,y)", s2.CellUnionFromUnion(cu, y))
		C("CellUnionFromUnion(y,cu)", s2.CellUnionFromUnion(y, cu))
		C("CellUnionFromIntersection(cu,y)", s2.CellUnionFromIntersection(cu, y))
		C("CellUnionFromIntersection(y,cu)", s2.CellUnionFromIntersection(y, cu))
		C("CellUnionFromDifference(cu,y)", s2.CellUnionFromDifference(cu, y))
		C("CellUnionFromDifference(y,cu)", s2.CellUnionFromDifference(y, cu))
	case c11hOAlias:
		C("CellUnionFromUnion(cu,cu)", s2.CellUnionFromUnion(cu, cu))
		C("CellUnionFromUnion(cu[:h],cu[h:])", s2.CellUnionFromUnion(cu[:h], cu[h:]))
		C("CellUnionFromUnion(cu[h:],cu[:h],cu)", s2.CellUnionFromUnion(cu[h:], cu[:h], cu))
		C("CellUnionFromIntersection(cu,cu)", s2.CellUnionFromIntersection(cu, cu))
		C("CellUnionFromIntersection(cu,cu[a:b])", s2.CellUnionFromIntersection(cu, cu[a:b]))
		C("CellUnionFromIntersection(cu[a:b],cu)", s2.CellUnionFromIntersection(cu[a:b], cu))
		C("CellUnionFromDifference(cu,cu)", s2.CellUnionFromDifference(cu, cu))
		C("CellUnionFromDifference(cu,cu[:h])", s2.CellUnionFromDifference(cu, cu[:h]))
		C("CellUnionFromDifference(cu,cu[a:b])", s2.CellUnionFromDifference(cu, cu[a:b]))
		sub := cu[a:b]
		B("cu.Contains(cu[a:b])", cu.Contains(sub))
		B("cu[a:b].Contains(cu)", sub.Contains(cu))
		lo := cu[:h]
		B("cu[:h].Intersects(cu[h:])", lo.Intersects(cu[h:]))
	case c11hOQuery:
		out = append(out, c11hR{name: "LeafCellsCovered", kind: 1, n: cu.LeafCellsCovered()})
		B("IsValid", cu.IsValid())
		B("IsNormalized", cu.IsNormalized())
		for _, q := range qs {
			B("ContainsCellID", cu.ContainsCellID(q))
			B("IntersectsCellID", cu.IntersectsCellID(q))
			C("CellUnionFromIntersectionWithCellID", s2.CellUnionFromIntersectionWithCellID(cu, q))
		}
	}
	return out
}

func c11hExpect(op int, m, y []s2.CellID, qs []s2.CellID) []c11hE {
	var out []c11hE
	B := func(v bool) { out = append(out, c11hE{b: v}) }
	C := func(ivs []c11iv, canon bool) { out = append(out, c11hE{ivs: ivs, canon: canon}) }
	ms, ys := c11hSet(m), c11hSet(y)
	mn, yn := c11hNorm(m), c11hNorm(y)
	h, a, b := c11hSplit(len(m))
	switch op {
	case c11hORel:
		B(c11hContainsCW(m, y))
		B(len(c11hInterIv(ms, ys)) > 0)
		B(c11hContainsCW(y, m))
		B(len(c11hInterIv(ms, ys)) > 0)
		B(true)
		B(len(m) > 0)
	case c11hOBin:
		C(c11hUnionIv(ms, ys), true)
		C(c11hUnionIv(ms, ys), true)
		C(c11hInterIv(ms, ys), mn && yn)
		C(c11hInterIv(ms, ys), mn && yn)
		C(c11hDiffIv(ms, ys), mn && yn)
		C(c11hDiffIv(ys, ms), mn && yn)
	case c11hOAlias:
		sub, lo, hi := m[a:b], m[:h], m[h:]
		ss, ls := c11hSet(sub), c11hSet(lo)
		C(ms, true)
		C(ms, true)
		C(ms, true)
		C(ms, mn)
		C(ss, mn && c11hNorm(sub))
		C(ss, mn && c11hNorm(sub))
		C(nil, true)
		C(c11hDiffIv(ms, ls), mn && c11hNorm(lo))
		C(c11hDiffIv(ms, ss), mn && c11hNorm(sub))
		B(true)
		B(c11hContainsCW(sub, m))
		B(len(c11hInterIv(ls, c11hSet(hi))) > 0)
	case c11hOQuery:
		out = append(out, c11hE{n: int64(c11Count(ms))})
		B(c11hValid(m))
		B(c11hValid(m) && mn)
		for _, q := range qs {
			qi := []c11iv{c11Ivl(q)}
			B(c11hContainsCW(m, []s2.CellID{q}))
			B(len(c11hInterIv(ms, qi)) > 0)
			C(c11hInterIv(ms, qi), mn)
		}
	}
	return out
}

// c11hJudge compares one library result with the model; "" when it holds.
func c11hJudge(r c11hR, e c11hE) string {
	switch r.kind {
	case 0:
		if r.b != e.b {
			return fmt.Sprintf("= %v, the leaf model says %v", r.b, e.b)
		}
	case 1:
		if r.n != e.n {
			return "differs from the size of the leaf set"
		}
	case 2:
		if !c11hEqIv(c11hSet(r.cells), e.ivs) {
			return "covers a leaf set different from the leaf model"
		}
		if !c11hValid(r.cells) {
			return "is not sorted and non-overlapping"
		}
		if e.canon && !c11EqCells(r.cells, c11Canon(e.ivs, nil)) {
			return "of normalised operands is not in normal form"
		}
	}
	return ""
}

func c11hSameR(a, b c11hR) bool {
	return a.kind == b.kind && a.b == b.b && a.n == b.n && c11EqCells(a.cells, b.cells)
}

const c11hPad = 24

func c11hGuard(k int) s2.CellID { return c11Leaf(1<<60 + 4096 + uint64(k)*3) }

// c11hArena puts the cells at the front of a larger array whose tail holds guard cells.
func c11hArena(cells []s2.CellID) []s2.CellID {
	ar := make([]s2.CellID, len(cells)+c11hPad)
	copy(ar, cells)
	for k := len(cells); k < len(ar); k++ {
		ar[k] = c11hGuard(k - len(cells))
	}
	return ar
}

func c11hTrim(cs []s2.CellID) []string {
	if len(cs) > 40 {
		return append(c11Hex(cs[:40]), fmt.Sprintf("... (%d cells)", len(cs)))
	}
	return c11Hex(cs)
}

type c11hOut struct {
	pruned     bool
	noAnswer   bool // nothing to compare at the end of this history; its extensions are still visited
	nontrivial bool
	wrap       bool // an expansion whose ring left the face: state taken from a fresh library call
	desc       string
	detail     map[string]any
}

const c11hMaxCells = 1 << 13

func c11hReplayU(o *c11hUObj, hist []int) (res c11hOut) {
	m := append([]s2.CellID{}, o.cells...)
	arena := c11hArena(o.cells)
	live := s2.CellUnion(arena[:len(o.cells)])
	yArena := c11hArena(o.y)
	y := s2.CellUnion(yArena[:len(o.y)])
	fail := func(desc string, extra map[string]any) c11hOut {
		d := map[string]any{"object": o.name, "initial": c11Hex(o.cells), "y": c11Hex(o.y), "model_state_before_last": c11hTrim(m)}
		var hs []string
		for _, op := range hist {
			hs = append(hs, c11hUName(o, op))
		}
		d["history"] = hs
		for k, v := range extra {
			d[k] = v
		}
		res.desc, res.detail = desc, d
		return res
	}
	changed := false
	for step, op := range hist {
		last := step == len(hist)-1
		if op != c11hN && !c11hValid(m) {
			res.pruned = true // everything but Normalize requires a sorted, non-overlapping union
			return
		}
		if len(m) > c11hMaxCells {
			res.pruned = true
			return
		}
		if last {
			res.nontrivial = len(hist) >= 2 && changed
		}
		if c11hIsMod(op) {
			m2, ok := c11hModelMod(o, op, m)
			var weak string
			if !ok {
				// the ring wraps to another face: the next state is what a FRESH union gives, checked
				// for what the leaf model can decide (normal form of a superset of the old leaf set)
				res.wrap = true
				f := c11hCopy(m)
				c11hApplyMod(o, op, &f)
				if !c11hNorm(f) {
					weak = c11hModKind(op) + " (ring wraps to another face) does not return a normal form"
				} else if len(c11hDiffIv(c11hSet(m), c11hSet(f))) > 0 {
					weak = c11hModKind(op) + " (ring wraps to another face) loses leaf cells of the union"
				}
				m2 = f
			}
			if !last {
				c11hApplyMod(o, op, &live)
				if !c11EqCells(m2, m) {
					changed = true
				}
				m = m2
				continue
			}
			if weak != "" {
				return fail(weak, nil)
			}
			ySnap := append([]s2.CellID(nil), yArena...)
			c11hApplyMod(o, op, &live)
			f := c11hCopy(m)
			c11hApplyMod(o, op, &f)
			if ok && !c11EqCells(live, m2) {
				what := "differs from the model (normal form / documented expansion of the model state)"
				if c11hEqIv(c11hSet(live), c11hSet(m2)) {
					what = "covers the right leaf set but is not the cell list the model predicts"
				}
				return fail(c11hModKind(op)+" at the end of a history "+what, map[string]any{"got": c11hTrim(live), "want": c11hTrim(m2), "fresh": c11hTrim(f)})
			}
			if !c11EqCells(live, f) {
				return fail(c11hModKind(op)+" on a long-lived union differs from the same call on a freshly constructed union in the same state", map[string]any{"got": c11hTrim(live), "fresh": c11hTrim(f)})
			}
			if !c11EqCells(ySnap, yArena) {
				return fail(c11hModKind(op)+" modified another union", nil)
			}
			return
		}
		if !last {
			c11hObserve(op, live, y, o.queries)
			continue
		}
		aSnap := append([]s2.CellID(nil), arena...)
		ySnap := append([]s2.CellID(nil), yArena...)
		backing := live[:cap(live)]
		bSnap := append([]s2.CellID(nil), backing...)
		got := c11hObserve(op, live, y, o.queries)
		want := c11hExpect(op, m, o.y, o.queries)
		fresh := c11hObserve(op, c11hCopy(m), c11hCopy(o.y), o.queries)
		if len(got) != len(want) || len(got) != len(fresh) {
			panic(core.HarnessError("C11 histories: result / expectation lists differ in length"))
		}
		for k := range got {
			if why := c11hJudge(got[k], want[k]); why != "" {
				ex := map[string]any{"call": got[k].name}
				if got[k].kind == 2 {
					ex["got"] = c11hTrim(got[k].cells)
					ex["want_normal_form"] = c11hTrim(c11Canon(want[k].ivs, nil))
				}
				return fail(got[k].name+" after an in-place history "+why, ex)
			}
		}
		for k := range got {
			if !c11hSameR(got[k], fresh[k]) {
				return fail(got[k].name+" on a long-lived union differs from the same call on freshly constructed unions in the same state", map[string]any{"got": c11hTrim(got[k].cells), "fresh": c11hTrim(fresh[k].cells)})
			}
		}
		if !c11EqCells(live, m) {
			return fail("a read-only operation changed its receiver / operand (or an earlier in-place step left a state different from the model)", map[string]any{"live": c11hTrim(live)})
		}
		if !c11EqCells(aSnap, arena) || !c11EqCells(ySnap, yArena) || !c11EqCells(bSnap, backing) {
			return fail("a read-only operation wrote into the memory of an operand (elements or spare capacity behind the slice)", nil)
		}
	}
	return
}

// ---- machine I: one CellIndex, three long-lived iterators ------------------------------------------

type c11hICfg struct {
	name   string
	adds   []c11Op
	more   []c11Op // for the (not asserted) Add-after-Build pass
	pairs  []c11Pair
	tA, tB s2.CellID
	tC     s2.CellID   // a leaf of a late range, for zig-zag visits
	starts []s2.CellID // start of every range; last entry = end sentinel
	empty  []bool
	cover  []map[string]int
}

const (
	c11hRBegin = iota
	c11hRNext
	c11hRPrev
	c11hRFinish
	c11hRSeekA
	c11hRSeekB
	c11hQBegin
	c11hQNext
	c11hQPrev
	c11hQFinish
	c11hQSeekA
	c11hQSeekB
	c11hCDrainR
	c11hCDrainQ
	c11hCPartR
	c11hCClear
	c11hCVisitA
	c11hCVisitB
	c11hCVisitC
	c11hIOps
)

var c11hINames = [c11hIOps]string{"r.Begin", "r.Next", "r.Prev", "r.Finish", "r.Seek(tA)", "r.Seek(tB)",
	"q.Begin", "q.Next", "q.Prev", "q.Finish", "q.Seek(tA)", "q.Seek(tB)",
	"con.StartUnion(r)+drain", "con.StartUnion(q)+drain", "con.StartUnion(r)+first pair only", "con.Clear",
	"r.Seek(tA)+con.StartUnion(r)+drain", "r.Seek(tB)+con.StartUnion(r)+drain", "r.Seek(tC)+con.StartUnion(r)+drain"}

func (cfg *c11hICfg) build(ops []c11Op) *s2.CellIndex {
	idx := &s2.CellIndex{}
	for _, o := range ops {
		if len(o.cells) == 1 {
			idx.Add(o.cells[0], o.label)
		} else {
			idx.AddCellUnion(s2.CellUnion(o.cells), o.label)
		}
	}
	idx.Build()
	return idx
}

func c11hPairsOf(ops []c11Op) []c11Pair {
	var out []c11Pair
	for _, o := range ops {
		for _, id := range o.cells {
			out = append(out, c11Pair{id, o.label, c11Ivl(id)})
		}
	}
	return out
}

// c11hSweep reads the range list of an index and judges it with the leaf model ("" = consistent).
func c11hSweep(idx *s2.CellIndex, pairs []c11Pair) (starts []s2.CellID, empty []bool, cover []map[string]int, bad string) {
	r := s2.NewCellIndexRangeIterator(idx)
	con := s2.NewCellIndexContentsIterator(idx)
	prev := c11Leaf(0)
	for r.Begin(); !r.Done(); r.Next() {
		if len(starts) > 2*len(pairs)+4 {
			return nil, nil, nil, "range iterator does not terminate"
		}
		s, l := r.StartID(), r.LimitID()
		if s != prev || !(s < l) {
			return nil, nil, nil, "ranges are not contiguous"
		}
		riv := c11iv{uint64(s) >> 1, uint64(l)>>1 - 1}
		want := map[string]int{}
		for _, p := range pairs {
			covers := p.iv.a <= riv.a && riv.b <= p.iv.b
			meets := p.iv.a <= riv.b && riv.a <= p.iv.b
			if covers != meets {
				return nil, nil, nil, "a range straddles the boundary of an indexed cell"
			}
			if covers {
				want[c11PairKey(p.id, p.label)]++
			}
		}
		got := map[string]int{}
		con.Clear()
		con.StartUnion(r)
		for n := 0; !con.Done(); n++ {
			if n > len(pairs) {
				return nil, nil, nil, "contents iterator does not terminate"
			}
			got[c11PairKey(con.CellID(), con.Label())]++
			con.Next()
		}
		if len(got) != len(want) {
			return nil, nil, nil, "contents of a range differ from the pairs covering it"
		}
		for k, v := range want {
			if got[k] != v {
				return nil, nil, nil, "contents of a range differ from the pairs covering it"
			}
		}
		if r.IsEmpty() != (len(want) == 0) {
			return nil, nil, nil, "IsEmpty disagrees with the pairs covering the range"
		}
		starts = append(starts, s)
		empty = append(empty, len(want) == 0)
		cover = append(cover, want)
		prev = l
	}
	if prev != c11Leaf(c11EndG) {
		return nil, nil, nil, "ranges do not end at the end of face 5"
	}
	starts = append(starts, prev)
	return starts, empty, cover, ""
}

type c11hConOp struct {
	kind int // c11hCDrainR / c11hCDrainQ / c11hCPartR / c11hCClear
	pos  int
}

type c11hPairSeq []string

func c11hDrain(con *s2.CellIndexContentsIterator, limit int, partial bool) (seq c11hPairSeq, ok bool) {
	for n := 0; !con.Done(); n++ {
		if n > limit {
			return seq, false
		}
		seq = append(seq, c11PairKey(con.CellID(), con.Label()))
		con.Next()
		if partial {
			break
		}
	}
	return seq, true
}

func c11hReplayI(cfg *c11hICfg, hist []int) (res c11hOut) {
	m := len(cfg.starts) - 1 // number of ranges
	idx := cfg.build(cfg.adds)
	r := s2.NewCellIndexRangeIterator(idx)
	q := s2.NewCellIndexNonEmptyRangeIterator(idx)
	con := s2.NewCellIndexContentsIterator(idx)
	rp, qp := -1, -1
	reported := map[string]int{}
	mono, lastK := true, -1
	var conHist []c11hConOp
	fail := func(desc string, extra map[string]any) c11hOut {
		d := map[string]any{"index": cfg.name, "tA": fmt.Sprintf("%016x", uint64(cfg.tA)), "tB": fmt.Sprintf("%016x", uint64(cfg.tB)), "tC": fmt.Sprintf("%016x", uint64(cfg.tC))}
		var as, hs []string
		for _, a := range cfg.adds {
			as = append(as, c11OpStr(a))
		}
		for _, op := range hist {
			hs = append(hs, c11hINames[op])
		}
		d["built_by"], d["history"] = append(as, "Build"), hs
		d["model_positions_before_last(r,q; -1 = unpositioned)"] = []int{rp, qp}
		d["range_starts"] = c11Hex(cfg.starts)
		for k, v := range extra {
			d[k] = v
		}
		res.desc, res.detail = desc, d
		return res
	}
	containing := func(t s2.CellID) int {
		for k := 0; k < m; k++ {
			if cfg.starts[k] <= t && t < cfg.starts[k+1] {
				return k
			}
		}
		return m
	}
	ne := func(i int) int {
		for k := i; k < m; k++ {
			if !cfg.empty[k] {
				return k
			}
		}
		return m
	}
	moves := 0
	for step, op := range hist {
		last := step == len(hist)-1
		if last {
			res.nontrivial = moves >= 2
		}
		switch {
		case op <= c11hQSeekB:
			nonEmpty := op >= c11hQBegin
			it, p := r, rp
			if nonEmpty {
				it, p = q, qp
			}
			kind := op
			if nonEmpty {
				kind = op - c11hQBegin
			}
			np := p
			switch kind {
			case c11hRBegin:
				it.Begin()
				np = 0
				if nonEmpty {
					np = ne(0)
				}
			case c11hRNext:
				if p < 0 || p >= m {
					res.pruned = true // unpositioned, or done: Next "assumes the iterator is not done"
					return
				}
				it.Next()
				np = p + 1
				if nonEmpty {
					np = ne(p + 1)
				}
			case c11hRPrev:
				if p < 0 {
					res.pruned = true
					return
				}
				ret := it.Prev()
				want := false
				if nonEmpty {
					for k := p - 1; k >= 0; k-- {
						if !cfg.empty[k] {
							np, want = k, true
							break
						}
					}
				} else if p > 0 {
					np, want = p-1, true
				}
				if last && ret != want {
					return fail(fmt.Sprintf("Prev (nonEmpty=%v) returns %v after a history, the model of the range list says %v", nonEmpty, ret, want), nil)
				}
			case c11hRFinish:
				it.Finish()
				np = m
			case c11hRSeekA, c11hRSeekB:
				t := cfg.tA
				if kind == c11hRSeekB {
					t = cfg.tB
				}
				it.Seek(t)
				np = containing(t)
				if nonEmpty {
					np = ne(np)
				}
			}
			if nonEmpty {
				qp = np
			} else {
				rp = np
			}
			moves++
			if !last {
				continue
			}
			// observables of the moved iterator against the model position and a fresh iterator
			obs := func(x *s2.CellIndexRangeIterator) []uint64 {
				o := []uint64{0, uint64(x.StartID()), 0, 0}
				if x.Done() {
					o[0] = 1
				} else {
					o[2] = uint64(x.LimitID())
				}
				if x.IsEmpty() {
					o[3] = 1
				}
				return o
			}
			got := obs(it)
			want := []uint64{0, uint64(cfg.starts[np]), 0, 0}
			if np == m {
				want[0], want[3] = 1, 1
			} else {
				want[2] = uint64(cfg.starts[np+1])
				if cfg.empty[np] {
					want[3] = 1
				}
			}
			idx2 := cfg.build(cfg.adds)
			fr := s2.NewCellIndexRangeIterator(idx2)
			if nonEmpty {
				fr = s2.NewCellIndexNonEmptyRangeIterator(idx2)
			}
			if np == m {
				fr.Finish()
			} else {
				fr.Seek(cfg.starts[np])
			}
			fo := obs(fr)
			for k := range got {
				if got[k] != want[k] {
					return fail(fmt.Sprintf("%s (nonEmpty=%v) at the end of a history: Done/StartID/LimitID/IsEmpty differ from the position the model of the range list predicts", strings.TrimPrefix(strings.TrimPrefix(c11hINames[op], "r."), "q."), nonEmpty),
						map[string]any{"got(done,start,limit,empty)": fmt.Sprintf("%x", got), "want": fmt.Sprintf("%x", want), "model_position": np})
				}
			}
			for k := range got {
				if got[k] != fo[k] {
					return fail("a long-lived range iterator differs from a fresh iterator positioned directly on the same range", map[string]any{"got": fmt.Sprintf("%x", got), "fresh": fmt.Sprintf("%x", fo)})
				}
			}
			return
		case op == c11hCClear:
			con.Clear()
			reported = map[string]int{}
			mono, lastK = true, -1
			conHist = append(conHist, c11hConOp{c11hCClear, 0})
			if last {
				return // nothing observable
			}
		default:
			it, p := r, rp
			if op == c11hCDrainQ {
				it, p = q, qp
			}
			kind := op
			if op >= c11hCVisitA {
				// composite letter: position the plain iterator on the range of a target leaf, then visit it
				t := [3]s2.CellID{cfg.tA, cfg.tB, cfg.tC}[op-c11hCVisitA]
				r.Seek(t)
				rp = containing(t)
				p, kind = rp, c11hCDrainR
			}
			if p < 0 || p >= m {
				res.pruned = true // StartUnion needs a positioned iterator that is not done
				return
			}
			partial := op == c11hCPartR
			con.StartUnion(it)
			seq, ok := c11hDrain(con, len(cfg.pairs), partial)
			conHist = append(conHist, c11hConOp{kind, p})
			moves++
			rk := map[string]int{}
			for _, k := range seq {
				rk[k]++
			}
			if last {
				if !ok {
					return fail("contents iterator does not terminate after a history", nil)
				}
				ex := map[string]any{"range": p, "reported": []string(seq), "covering": fmt.Sprint(cfg.cover[p]), "reported_since_clear": fmt.Sprint(reported)}
				for k, v := range rk {
					if v > cfg.cover[p][k] {
						return fail("a reused contents iterator reports a (cell,label) pair that does not cover the current range (or reports it twice in one pass)", ex)
					}
				}
				if !partial {
					for k, v := range cfg.cover[p] {
						if reported[k]+rk[k] < v {
							return fail("a reused contents iterator never reports a (cell,label) pair that covers a fully visited range (not reported since the last Clear)", ex)
						}
					}
					if mono && p > lastK {
						for k, v := range cfg.cover[p] {
							w := v - reported[k]
							if w < 0 {
								w = 0
							}
							if rk[k] != w {
								return fail("ranges visited in increasing order: a (cell,label) pair is not reported exactly once", ex)
							}
						}
					}
				}
				// fresh index, fresh iterators positioned directly, same sequence of contents operations
				idx2 := cfg.build(cfg.adds)
				con2 := s2.NewCellIndexContentsIterator(idx2)
				var seq2 c11hPairSeq
				for _, co := range conHist {
					if co.kind == c11hCClear {
						con2.Clear()
						continue
					}
					fr := s2.NewCellIndexRangeIterator(idx2)
					if co.kind == c11hCDrainQ {
						fr = s2.NewCellIndexNonEmptyRangeIterator(idx2)
					}
					fr.Seek(cfg.starts[co.pos])
					con2.StartUnion(fr)
					seq2, _ = c11hDrain(con2, len(cfg.pairs), co.kind == c11hCPartR)
				}
				if strings.Join(seq, ",") != strings.Join(seq2, ",") {
					ex["fresh"] = []string(seq2)
					return fail("contents reported through long-lived range iterators differ from the same contents operations through fresh range iterators positioned directly", ex)
				}
				return
			}
			for k, v := range rk {
				reported[k] += v
			}
			if partial || p <= lastK {
				mono = false
			}
			lastK = p
		}
	}
	return
}

// ---- machine F: Find called again on the same slice ----------------------------------------------

const (
	c11hFFind = iota
	c11hFNorm0
	c11hFDen1
	c11hFSwap
	c11hFAlias
	c11hFGrow
	c11hFOps
)

var c11hFNames = [c11hFOps]string{"Find(cus)", "cus[0].Normalize()", "cus[1].Denormalize(30,1)", "cus[0],cus[2]=cus[2],cus[0]", "cus[1]=cus[0]", "cus[2]=append(cus[2],extra)"}

// c11hFindModel: every leaf is reported under exactly the set of unions covering it (>= 2 of them).
func c11hFindModel(cus [][]s2.CellID) map[string][]c11iv {
	var cuts []uint64
	sets := make([][]c11iv, len(cus))
	for i, cu := range cus {
		sets[i] = c11hSet(cu)
		for _, iv := range sets[i] {
			cuts = append(cuts, iv.a, iv.b+1)
		}
	}
	sort.Slice(cuts, func(i, j int) bool { return cuts[i] < cuts[j] })
	out := map[string][]c11iv{}
	for k := 0; k+1 < len(cuts); k++ {
		if cuts[k] == cuts[k+1] {
			continue
		}
		seg := c11iv{cuts[k], cuts[k+1] - 1}
		var is []int
		for i := range sets {
			if c11Covers(sets[i], seg) {
				is = append(is, i)
			}
		}
		if len(is) >= 2 {
			key := fmt.Sprint(is)
			out[key] = c11hMerge(append(out[key], seg))
		}
	}
	return out
}

func c11hFindMap(res []s2intersect.Intersection) (map[string][]s2.CellID, string) {
	out := map[string][]s2.CellID{}
	for _, in := range res {
		key := fmt.Sprint(in.Indices)
		if _, dup := out[key]; dup {
			return nil, "Find returns two intersections with the same index set"
		}
		if !sort.IntsAreSorted(in.Indices) || len(in.Indices) < 2 {
			return nil, "Find returns an intersection whose Indices are not >= 2 ascending positions"
		}
		out[key] = append([]s2.CellID{}, in.Intersection...)
	}
	return out, ""
}

func c11hReplayF(pool [][]s2.CellID, tuple [3]int, extra s2.CellID, hist []int) (res c11hOut) {
	if hist[len(hist)-1] != c11hFFind {
		res.noAnswer = true // only a final Find has an answer
		return
	}
	arenas := make([][]s2.CellID, 3)
	cus := make([]s2.CellUnion, 3)
	for k, pi := range tuple {
		arenas[k] = c11hArena(pool[pi])
		cus[k] = s2.CellUnion(arenas[k][:len(pool[pi])])
	}
	fail := func(desc string, extra map[string]any) c11hOut {
		d := map[string]any{}
		var in [][]string
		for _, pi := range tuple {
			in = append(in, c11Hex(pool[pi]))
		}
		var hs []string
		for _, op := range hist {
			hs = append(hs, c11hFNames[op])
		}
		d["initial_unions"], d["history"] = in, hs
		for k, v := range extra {
			d[k] = v
		}
		res.desc, res.detail = desc, d
		return res
	}
	finds := 0
	for step, op := range hist {
		last := step == len(hist)-1
		switch op {
		case c11hFNorm0:
			cus[0].Normalize()
		case c11hFDen1:
			cus[1].Denormalize(30, 1)
		case c11hFSwap:
			cus[0], cus[2] = cus[2], cus[0]
		case c11hFAlias:
			cus[1] = cus[0]
		case c11hFGrow:
			cus[2] = append(cus[2], extra)
		case c11hFFind:
			if !last {
				s2intersect.Find(cus)
				finds++
				continue
			}
			res.nontrivial = len(hist) >= 2
			snap := make([][]s2.CellID, 3)
			norm := make([]bool, 3)
			for k := range cus {
				snap[k] = append([]s2.CellID{}, cus[k]...)
				norm[k] = c11hValid(snap[k]) && c11hNorm(snap[k])
			}
			want := c11hFindModel(snap)
			got, bad := c11hFindMap(s2intersect.Find(cus))
			ex := map[string]any{"unions_before_last_Find": [][]string{c11Hex(snap[0]), c11Hex(snap[1]), c11Hex(snap[2])}, "got": fmt.Sprint(got)}
			if bad != "" {
				return fail(bad+" (repeated Find)", ex)
			}
			for key, cells := range got {
				if !c11hEqIv(c11hSet(cells), want[key]) {
					return fail("repeated Find on the same slice: the cells reported for an index set are not exactly the leaves covered by exactly those unions", ex)
				}
				if !c11hValid(cells) {
					return fail("repeated Find on the same slice: an intersection is not sorted and non-overlapping", ex)
				}
			}
			for key := range want {
				if _, ok := got[key]; !ok {
					return fail("repeated Find on the same slice misses the region covered by exactly one set of >= 2 unions", ex)
				}
			}
			fr := make([]s2.CellUnion, 3)
			for k := range snap {
				fr[k] = c11hCopy(snap[k])
			}
			fgot, _ := c11hFindMap(s2intersect.Find(fr))
			same := len(fgot) == len(got)
			for key, cells := range got {
				if !c11EqCells(cells, fgot[key]) {
					same = false
				}
			}
			if !same {
				ex["fresh"] = fmt.Sprint(fgot)
				return fail("Find on a slice it has seen before differs from Find on fresh copies of the same unions", ex)
			}
			for k := range cus {
				if norm[k] && !c11EqCells(cus[k], snap[k]) {
					return fail("Find modified an input union that was already normalised", ex)
				}
			}
		}
	}
	return
}

// ---- enumeration ----------------------------------------------------------------------------------

type c11hStats struct {
	hist, pruned, noAnswer, nontriv, wrap int64
}

// c11hEnumerate walks every history over k letters up to the depth; run reports pruned histories,
// whose extensions are not visited.  Shards: the first two letters.
func c11hEnumerate(c *core.Ctx, machine, obj int, what string, k, depth int, run func(h []int) c11hOut) c11hStats {
	var agg c11hStats
	lock := make(chan struct{}, 1)
	lock <- struct{}{}
	capped := false
	encode := func(h []int) int {
		v := 0
		for _, x := range h {
			v = v*(k+1) + x + 1
		}
		return v
	}
	var sampled int64
	one := func(h []int, st *c11hStats) bool {
		code := encode(h)
		cas := []int{c11TF, machine, obj, code}
		if c.Skip(c11hSub, cas...) {
			return true // replay mode: keep descending, evaluate only the selected case
		}
		var out c11hOut
		c.Guard(c11hSub, cas, func() any { return map[string]any{"machine": what, "history_letters": h} }, func() { out = run(h) })
		if out.pruned {
			st.pruned++
			return false
		}
		if out.noAnswer {
			st.noAnswer++
			return true
		}
		st.hist++
		if out.nontrivial {
			st.nontriv++
		}
		if out.wrap {
			st.wrap++
		}
		if out.desc != "" {
			c.Violate(c11hSub, "wrong-answer", out.desc, cas, out.detail)
		}
		if len(h) == depth && code%9973 == 11 {
			<-lock
			if sampled < 2 {
				sampled++
				c.Sample(map[string]any{"sub": c11hSub, "machine": what, "history_letters": append([]int(nil), h...)})
			}
			lock <- struct{}{}
		}
		return true
	}
	c.ParallelFor(k*k, func(s int) {
		var st c11hStats
		stop := false
		var rec func(h []int)
		rec = func(h []int) {
			if stop {
				return
			}
			if (st.hist+st.pruned+st.noAnswer)&127 == 0 && c.Expired() {
				stop = true
				<-lock
				if !capped {
					capped = true
					c.CapHit(fmt.Sprintf("%s %s: wall budget reached", c11hSub, what))
				}
				lock <- struct{}{}
				return
			}
			if !one(h, &st) || len(h) >= depth {
				return
			}
			for o := 0; o < k; o++ {
				rec(append(append([]int(nil), h...), o))
			}
		}
		a, b := s/k, s%k
		alive := true
		if b == 0 {
			alive = one([]int{a}, &st)
		} else {
			// the shard (a,0) judges [a]; the others only need to know whether it is pruned
			c.Guard(c11hSub, []int{c11TF, machine, obj, encode([]int{a})}, nil, func() { alive = !run([]int{a}).pruned })
		}
		if alive && depth >= 2 {
			rec([]int{a, b})
		}
		<-lock
		agg.hist += st.hist
		agg.pruned += st.pruned
		agg.noAnswer += st.noAnswer
		agg.nontriv += st.nontriv
		agg.wrap += st.wrap
		lock <- struct{}{}
	})
	return agg
}

func c11AlgebraHistories(c *core.Ctx) {
	if c.OnlySub != "" && c.OnlySub != c11hSub {
		return
	}
	thorough := c11TF == 1
	pick := func(q, t int) int {
		if thorough {
			return t
		}
		return q
	}
	c.Rule += " algebra-histories: every sequence of operations up to the depth over three alphabets (U: 7 in-place modifiers + 4 bundles of read-only uses of one CellUnion; I: 12 positioning operations of two range iterators + 7 operations of one reused contents iterator (full visit, visit abandoned after the first pair, Clear, seek-and-visit of three target leaves) on a CellIndex built once; F: Find + 5 caller-side modifications of the same slice of unions), histories with an operation whose documented precondition fails are dropped; the answer of the last operation is compared with the leaf-interval model and with freshly constructed values in the same state; non-trivial = at least one earlier operation changed the state (U: the cell list; I: at least two earlier moves/visits; F: at least one earlier letter)"
	c.Assume = append(c.Assume,
		"algebra-histories: in-place operations other than Normalize are applied to sorted, non-overlapping unions only; ExpandAtLevel is judged by an independent (face,i,j) model of the Hilbert curve while the ring of neighbours stays inside one face, otherwise by a fresh call whose result must be the normal form of a superset; ExpandByRadius uses the documented minimum-width metric 2*sqrt(2)/3*2^-level with a radius far from a level boundary",
		"algebra-histories: CellIndex is built once (Add after Build and a second Build are documented as undefined / not allowed: executed and counted, never asserted); a contents iterator must report only pairs covering the current range, every pair covering a fully visited range at least once since the last Clear, and exactly once while ranges are visited in strictly increasing order and drained completely; Find may reorder non-normalised inputs in place (it documents that it calls Normalize on them)")
	c11hIJSanity()
	t0 := time.Now()
	secs := map[string]float64{}
	lap := func(name string) {
		secs[name] = float64(int(time.Since(t0).Seconds()*10)) / 10
		t0 = time.Now()
		c.Note("algebra_histories_seconds", secs)
	}

	l28mid := c11Path(4, 1, 2, 0, 3, 1, 2, 2, 0, 1, 3, 0, 2, 1, 1, 0, 3, 2, 2, 1, 0, 3, 3, 0, 1, 2, 0, 2, 1)
	l28last := c11Path(5, c11Rep(3, 28)...)
	l28first := c11Path(0, c11Rep(0, 28)...)
	chOf := func(x s2.CellID) func(k ...int) s2.CellID {
		return func(k ...int) s2.CellID {
			id := x
			for _, i := range k {
				id = c11Child(id, i)
			}
			return id
		}
	}

	// ---- U
	mkU := func(name string, x s2.CellID, cells func(ch func(k ...int) s2.CellID) []s2.CellID) *c11hUObj {
		ch := chOf(x)
		o := &c11hUObj{name: name, L: c11Level(x), cells: cells(ch)}
		o.y = []s2.CellID{ch(0, 3), ch(1), ch(3, 0), ch(3, 1)}
		o.queries = append([]s2.CellID{x, ch(0), ch(1), ch(1, 1), ch(3, 0), ch(2, 2), ch(3, 3)}, c11Outside(x)...)
		if !c11hValid(o.y) || !c11hNorm(o.y) {
			panic(core.HarnessError("C11 histories: operand y is not normalised"))
		}
		return o
	}
	uobjs := []*c11hUObj{
		mkU("verbatim: L29 cell, complete group of 4 leaves, one leaf (face 4 interior)", l28mid, func(ch func(k ...int) s2.CellID) []s2.CellID {
			return []s2.CellID{ch(0), ch(1, 0), ch(1, 1), ch(1, 2), ch(1, 3), ch(3, 0)}
		}),
		mkU("raw multiset: unsorted, overlapping, duplicate (only Normalize applies first)", l28mid, func(ch func(k ...int) s2.CellID) []s2.CellID {
			return []s2.CellID{ch(3), ch(0, 1), ch(0), ch(0, 1), ch(3, 2), ch(2, 2)}
		}),
		mkU("last corner of face 5: expansion rings wrap to other faces", l28last, func(ch func(k ...int) s2.CellID) []s2.CellID {
			return []s2.CellID{ch(2), ch(3, 3)}
		}),
	}
	{
		uobjs = append(uobjs,
			mkU("cascade: 3 L29 cells + 4 leaves that normalise to one L28 cell", l28mid, func(ch func(k ...int) s2.CellID) []s2.CellID {
				return []s2.CellID{ch(0), ch(1), ch(2), ch(3, 0), ch(3, 1), ch(3, 2), ch(3, 3)}
			}),
			mkU("empty union", l28mid, func(ch func(k ...int) s2.CellID) []s2.CellID { return []s2.CellID{} }),
		)
	}
	var total c11hStats
	add := func(st c11hStats) {
		total.hist += st.hist
		total.pruned += st.pruned
		total.nontriv += st.nontriv
		total.wrap += st.wrap
	}
	ud := pick(4, 5)
	var uTot c11hStats
	for i, o := range uobjs {
		o := o
		st := c11hEnumerate(c, 0, i, "U/"+o.name, c11hUOps, ud, func(h []int) c11hOut { return c11hReplayU(o, h) })
		uTot.hist += st.hist
		uTot.pruned += st.pruned
		uTot.nontriv += st.nontriv
		uTot.wrap += st.wrap
	}
	add(uTot)
	lap("U")
	c.Count("H/U_histories(in-place CellUnion)", uTot.hist)
	c.Count("H/U_histories_dropped(precondition: not a valid union)", uTot.pruned)
	c.Count("H/U_histories_with_an_earlier_state_change", uTot.nontriv)
	c.Count("H/U_histories_with_an_expansion_across_a_face_boundary(fresh-call model)", uTot.wrap)
	if c.OnlySub == "" && (uTot.nontriv == 0 || uTot.wrap == 0 || uTot.wrap == uTot.hist) {
		panic(core.HarnessError("C11 histories: machine U vacuous (no state change / no expansion judged by the (face,i,j) model)"))
	}

	// ---- I
	mkI := func(name string, adds, more []c11Op, tA, tB, tC s2.CellID) *c11hICfg {
		return &c11hICfg{name: name, adds: adds, more: more, pairs: c11hPairsOf(adds), tA: tA, tB: tB, tC: tC}
	}
	var icfgs []*c11hICfg
	{
		x := l28last
		ch := chOf(x)
		icfgs = append(icfgs, mkI("end-of-face5: nested cells, duplicate pair, whole face", []c11Op{
			{[]s2.CellID{ch(3, 3)}, 0}, {[]s2.CellID{ch(0), ch(1), ch(2)}, 2}, {[]s2.CellID{x}, 0}, {[]s2.CellID{ch(0)}, 1},
			{[]s2.CellID{ch(0)}, 1}, {[]s2.CellID{c11Path(5)}, 2}, {[]s2.CellID{ch(3, 0)}, 2}, {[]s2.CellID{ch(1, 2)}, 1},
		}, []c11Op{{[]s2.CellID{ch(2, 1)}, 3}, {[]s2.CellID{c11Path(2, 1)}, 0}}, c11Leaf(c11Ivl(ch(0)).a), c11Leaf(0), ch(3, 3)))
		icfgs = append(icfgs, mkI("empty index", nil, []c11Op{{[]s2.CellID{ch(2, 1)}, 3}}, c11Leaf(0), c11Leaf(3<<60), c11Leaf(c11EndG-1)))
		{
			x = l28first
			ch = chOf(x)
			icfgs = append(icfgs, mkI("start-of-face0 + face3: gaps between the cells, empty tail", []c11Op{
				{[]s2.CellID{ch(0, 0)}, 0}, {[]s2.CellID{x}, 0}, {[]s2.CellID{c11Path(3, 1)}, 0},
				{[]s2.CellID{ch(0, 0), ch(0, 2), ch(1), c11Path(3, 1, 1)}, 2}, {[]s2.CellID{ch(2)}, 1},
			}, []c11Op{{[]s2.CellID{ch(3)}, 1}, {[]s2.CellID{c11Path(5)}, 0}}, c11Leaf(c11Ivl(ch(0, 0)).a), c11Leaf(c11Ivl(x).b+1), c11Leaf(c11Ivl(c11Path(3, 1, 1)).a+5)))
		}
	}
	id := pick(4, 5)
	var iTot c11hStats
	var rebuildAgree, rebuildDisagree int64
	for i, cfg := range icfgs {
		cfg := cfg
		cas := []int{c11TF, 1, i, 0}
		okCfg := true
		c.Guard(c11hSub, cas, func() any { return map[string]any{"index": cfg.name} }, func() {
			var bad string
			cfg.starts, cfg.empty, cfg.cover, bad = c11hSweep(cfg.build(cfg.adds), cfg.pairs)
			if bad != "" {
				okCfg = false
				if !c.Skip(c11hSub, cas...) {
					c.Violate(c11hSub, "wrong-answer", "fresh CellIndex: "+bad, cas, map[string]any{"index": cfg.name})
				}
			}
		})
		if !okCfg || cfg.starts == nil {
			continue
		}
		st := c11hEnumerate(c, 1, i, "I/"+cfg.name, c11hIOps, id, func(h []int) c11hOut { return c11hReplayI(cfg, h) })
		iTot.hist += st.hist
		iTot.pruned += st.pruned
		iTot.nontriv += st.nontriv
		// documented as undefined, executed and counted only: Build, Add more, Build again
		if c.OnlySub == "" {
			func() {
				defer func() {
					if recover() != nil {
						rebuildDisagree++
					}
				}()
				idx := cfg.build(cfg.adds)
				for _, o := range cfg.more {
					idx.AddCellUnion(s2.CellUnion(o.cells), o.label)
				}
				idx.Build()
				all := append(append([]c11Op{}, cfg.adds...), cfg.more...)
				if _, _, _, bad := c11hSweep(idx, c11hPairsOf(all)); bad == "" {
					rebuildAgree++
				} else {
					rebuildDisagree++
				}
			}()
		}
	}
	add(iTot)
	lap("I")
	c.Count("H/I_histories(iterators on one CellIndex)", iTot.hist)
	c.Count("H/I_histories_dropped(precondition: unpositioned / done iterator)", iTot.pruned)
	c.Count("H/I_histories_with_two_or_more_earlier_moves", iTot.nontriv)
	c.Count("H/I_rebuild_after_more_Adds_consistent_with_model(documented undefined; not asserted)", rebuildAgree)
	c.Count("H/I_rebuild_after_more_Adds_inconsistent(documented undefined; not asserted)", rebuildDisagree)

	// ---- F
	{
		lp := c11Path(4, 1, 2, 0, 3, 1, 2, 2, 0, 1, 3, 0, 2, 1, 1, 0, 3, 2, 2, 1, 0, 3, 3, 0, 1, 2, 0, 2, 1, 1)
		lq := c11Child(c11Parent(lp), 2)
		leaf := func(p s2.CellID, k int) s2.CellID { return c11Child(p, k) }
		pool := [][]s2.CellID{
			{lp},
			{leaf(lp, 0), leaf(lp, 1), leaf(lp, 2), leaf(lp, 3)},
			{leaf(lp, 3), leaf(lp, 1)},
			{lq, leaf(lp, 2), leaf(lp, 2)},
			{},
		}
		if thorough {
			pool = append(pool,
				[]s2.CellID{leaf(lq, 0), leaf(lp, 3)},
				[]s2.CellID{c11Parent(lp)},
				[]s2.CellID{leaf(lp, 1), lp},
			)
		}
		extra := leaf(lq, 1)
		fd := pick(3, 4)
		n := len(pool)
		var fTot c11hStats
		for t := 0; t < n*n*n; t++ {
			tuple := [3]int{t / (n * n), t / n % n, t % n}
			st := c11hEnumerate(c, 2, t, fmt.Sprintf("F/unions %v of the pool", tuple), c11hFOps, fd, func(h []int) c11hOut { return c11hReplayF(pool, tuple, extra, h) })
			fTot.hist += st.hist
			fTot.noAnswer += st.noAnswer
			fTot.nontriv += st.nontriv
			if c.Expired() {
				break
			}
		}
		add(fTot)
		lap("F")
		c.Count("H/F_histories_ending_in_Find", fTot.hist)
		c.Count("H/F_histories_not_ending_in_Find(no answer; extended only)", fTot.noAnswer)
	}

	c.Eval(int(total.hist))
	c.Nontrivial(int(total.nontriv))
	c.MC(total.hist, total.hist, total.hist)
	c.Count("H/histories_total", total.hist)
	c.Note("algebra_histories_depth(U,I,F)", []int{ud, id, pick(3, 4)})
}
