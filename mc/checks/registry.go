// Package checks holds one check per property C01..C20.
package checks

import (
	"fmt"

	"verif/mc/core"
)

// Check is a registered property check.
type Check struct {
	Level          string
	QuickBudget    int // wall budget in seconds after which sub-spaces are cut short (exit 0, exhaustive:false)
	ThoroughBudget int
	Run            func(c *core.Ctx)
}

// Registry maps property ids to checks.
var Registry = map[string]*Check{}

// workers are internal sub-process entry points.
var workers = map[string]func(args []string) int{}

// Worker dispatches an internal worker sub-process.
func Worker(name string, args []string) int {
	w, ok := workers[name]
	if !ok {
		fmt.Println("unknown worker", name)
		return 2
	}
	return w(args)
}
