package checks

import (
	"fmt"
	"math"
	"math/big"
	"sync"
	"sync/atomic"

	"github.com/golang/geo/r1"
	"github.com/golang/geo/r2"
	"github.com/golang/geo/s1"
	"github.com/golang/geo/s2"

	"verif/mc/core"
	"verif/mc/exact"
)

// Coverage-guided extension of C19: methods of the interval / rectangle / angle
// types that no other sub-check executes, each judged by an oracle that follows
// from the method's own doc comment (preconditions become lattice filters).
//
//	COV-S1        s1.Interval: Invert, AddPoint (exact candidate set), Project, Center,
//	              ComplementCenter, Expanded(margin < 0), DirectedHausdorffDistance (two-sided)
//	COV-S1-approx s1.Interval.ApproxEqual against the doc's definition in 320-bit arithmetic
//	COV-R2        r2.Point arithmetic against exact rational arithmetic; r2.Rect accessors,
//	              RectFromCenterSize, RectFromPoints, ExpandedByMargin
//	COV-LL        s2.Rect accessors, DistanceToLatLng against an independent reference
//	COV-HAUSDORFF s2.Rect DirectedHausdorffDistance / HausdorffDistance: sample lower bounds on
//	              every ordered pair, branch-and-bound two-sided bounds on a sub-lattice
//	COV-ANGLE     s1.Angle / s1.ChordAngle conversions, special values, trigonometry
//	COV-LATLNG    s2.LatLng Normalized / Distance / ApproxEqual / LatLngFromPoint
func init() {
	ck := Registry["C19"]
	run := ck.Run
	ck.Run = func(c *core.Ctx) {
		run(c)
		c19RunCov(c)
	}
}

func c19RunCov(c *core.Ctx) {
	c.Rule += ". COV-*: every interval / rectangle of the same alphabets through the accessor, distance, shrink, ApproxEqual and conversion methods; s2.Rect Hausdorff distances on every ordered pair of alphabet rectangles (sample lower bounds; non-trivial = positive lower bound) and on every ordered pair of a generic rectangle family (branch-and-bound two-sided bracket); r2.Point arithmetic on every ordered pair of alphabet points against exact rational arithmetic"
	c.Assume = append(c.Assume,
		"r2.Point.Normalize is judged only for vectors whose norm is at least 1e-300 (below, 1/Norm() overflows; plain vector arithmetic on subnormal vectors is outside C19): filtered cases are counted under out-of-scope/r2-normalize-subnormal",
		"COV-LL / COV-HAUSDORFF: the reference distance from a point to a rectangle is the check's own float64 evaluation (latitude excess inside the longitude range, nearer of the two meridian sides outside) with tolerance 2e-13 plus the documented ChordAngle error near π; the branch-and-bound bracket of the Hausdorff distance has the stated resolution delta",
		"s1.Interval.ApproxEqual, s1.Angle.ApproxEqual: pairs within rounding of the ε threshold are not judged (counted)")
	for al, fs := range c19S1Alphabets(c) {
		c19CovS1(c, al, fs)
	}
	c19CovS1Approx(c)
	c19CovR2Point(c)
	c19CovR2Rect(c)
	c19CovLL(c)
	c19CovHausdorff(c)
	c19CovAngle(c)
	c19CovLatLng(c)
}

// ---- shared float helpers ---------------------------------------------------------------

// c19CovNorm maps -π to π (the documented normalised representation of the point (-1,0)).
func c19CovNorm(p float64) float64 {
	if p == -math.Pi {
		return math.Pi
	}
	return p
}

// c19CovIn is the documented membership of a point of [-π,π] in a valid s1.Interval.
func c19CovIn(lo, hi, p float64) bool {
	if lo == math.Pi && hi == -math.Pi {
		return false
	}
	if lo == -math.Pi && hi == math.Pi {
		return true
	}
	p, lo, hi = c19CovNorm(p), c19CovNorm(lo), c19CovNorm(hi)
	if lo <= hi {
		return lo <= p && p <= hi
	}
	return p >= lo || p <= hi
}

// c19CovCirc is the distance on the circle between two points of [-π,π].
func c19CovCirc(a, b float64) float64 {
	d := math.Abs(a - b)
	if d > math.Pi {
		d = 2*math.Pi - d
	}
	if d < 0 {
		d = 0
	}
	return d
}

// c19CovWrap brings x (within a few turns of the range) into (-π,π].
func c19CovWrap(x float64) float64 {
	for x > math.Pi {
		x -= 2 * math.Pi
	}
	for x <= -math.Pi {
		x += 2 * math.Pi
	}
	return x
}

// c19CovArcLen is the length of a valid interval: -1 empty, 2π full.
func c19CovArcLen(lo, hi float64) float64 {
	if lo == math.Pi && hi == -math.Pi {
		return -1
	}
	if lo == -math.Pi && hi == math.Pi {
		return 2 * math.Pi
	}
	return c19Arc(c19CovNorm(lo), c19CovNorm(hi))
}

type c19CovCounters struct {
	mu sync.Mutex
	m  map[string]int64
}

func (k *c19CovCounters) add(name string, n int64) {
	k.mu.Lock()
	if k.m == nil {
		k.m = map[string]int64{}
	}
	k.m[name] += n
	k.mu.Unlock()
}

func (k *c19CovCounters) flush(c *core.Ctx, prefix string) {
	for n, v := range k.m {
		c.Count(prefix+"/"+n, v)
	}
}

// ---- COV-S1 --------------------------------------------------------------------------------

func c19CovS1(c *core.Ctx, al int, fs []float64) {
	const sub = "COV-S1"
	pi := math.Pi
	var inRange []float64
	for _, f := range fs {
		if f != -pi {
			inRange = append(inRange, f)
		}
	}
	circ := c19Circle{c19Vals(inRange)}
	ivs := c19S1Intervals(c, fs, circ)
	all := circ.all()
	var k c19CovCounters
	var evals, nontriv atomic.Int64
	const tol = 4e-15
	margins := []float64{-5e-324, -1e-15, -1e-9, -0.25, -0.5, -1, -pi / 2, -3, -pi, -4}
	for ai, A := range ivs {
		if c.Skip(sub, c19TF, al, ai, -1) {
			continue
		}
		cas := []int{c19TF, al, ai, -1}
		det := func(extra ...any) any { return map[string]any{"a": c19S1Str(A.v), "more": fmt.Sprint(extra...)} }
		c.Guard(sub, cas, func() any { return det() }, func() {
			a := A.v
			empty, full := A.in == 0, A.in == all
			L := c19CovArcLen(a.Lo, a.Hi)
			// Invert: "returns the interval with endpoints swapped"
			iv := a.Invert()
			evals.Add(1)
			if math.Float64bits(iv.Lo) != math.Float64bits(a.Hi) || math.Float64bits(iv.Hi) != math.Float64bits(a.Lo) {
				c.Violate(sub, "wrong-answer", "s1 Invert does not return the interval with the endpoints swapped", cas, det("got=", c19S1Str(iv)))
			} else if back := iv.Invert(); back != a {
				c.Violate(sub, "wrong-answer", "s1 Invert is not an involution", cas, det("got=", c19S1Str(back)))
			} else if a.Lo != a.Hi {
				// the swapped representation is the closed complementary arc
				iin, iout := circ.memb(iv.Lo, iv.Hi, false)
				if !c19S1Valid(iv.Lo, iv.Hi) || !iv.IsValid() || iin|iout != all || iin != all&^A.intr {
					c.Violate(sub, "wrong-answer", "s1 Invert of a non-singleton interval is not the closed complementary arc", cas, det("got=", c19S1Str(iv)))
				}
				k.add("invert_complementary_arc", 1)
			}
			// Center / ComplementCenter: documented for non-empty, non-full intervals
			if !empty && !full {
				ctr := a.Center()
				want := c19CovWrap(c19CovNorm(a.Lo) + L/2)
				if !(math.Abs(ctr) <= pi) || c19CovCirc(ctr, want) > tol {
					c.Violate(sub, "wrong-answer", "s1 Center is not the midpoint of the interval (or lies outside [-π,π])", cas, det("got=", c19F(ctr), " want=", c19F(want)))
				} else if L > 1e-14 && !c19CovIn(a.Lo, a.Hi, ctr) {
					c.Violate(sub, "wrong-answer", "s1 Center lies outside the interval", cas, det("got=", c19F(ctr)))
				}
				cc := a.ComplementCenter()
				var wantCC float64
				if a.Lo == a.Hi {
					wantCC = c19CovWrap(a.Hi + pi)
					k.add("complement_center_of_singleton", 1)
				} else {
					wantCC = c19CovWrap(c19CovNorm(a.Hi) + (2*pi-L)/2)
					k.add("complement_center_of_arc", 1)
				}
				if !(math.Abs(cc) <= pi) || c19CovCirc(cc, wantCC) > tol {
					c.Violate(sub, "wrong-answer", "s1 ComplementCenter is not the midpoint of the complementary arc / the antipode of a singleton (or lies outside [-π,π])", cas, det("got=", c19F(cc), " want=", c19F(wantCC)))
				} else if 2*pi-L > 1e-14 && L > 1e-14 && a.InteriorContains(cc) && c19CovIn(a.Lo, a.Hi, cc) && c19CovCirc(cc, a.Lo) > 1e-14 && c19CovCirc(cc, a.Hi) > 1e-14 {
					c.Violate(sub, "wrong-answer", "s1 ComplementCenter lies in the interior of the interval", cas, det("got=", c19F(cc)))
				}
				evals.Add(2)
			}
			// AddPoint / Project with the exact candidate set
			for _, p := range fs {
				pn := c19CovNorm(p)
				inA := c19CovIn(a.Lo, a.Hi, p)
				r := a.AddPoint(p)
				evals.Add(1)
				same := func(x, y s1.Interval) bool { return x.Lo == y.Lo && x.Hi == y.Hi }
				switch {
				case inA:
					if !same(r, a) {
						c.Violate(sub, "wrong-answer", "s1 AddPoint of a contained point changes the interval", cas, det("p=", c19F(p), " got=", c19S1Str(r)))
					}
					if full {
						k.add("addpoint_to_full", 1)
					}
				case empty:
					k.add("addpoint_to_empty", 1)
					if !same(r, s1.Interval{Lo: pn, Hi: pn}) {
						c.Violate(sub, "wrong-answer", "s1 AddPoint to the empty interval is not the singleton of the (normalised) point", cas, det("p=", c19F(p), " got=", c19S1Str(r)))
					}
				default:
					// minimum expansion: grow the low end down to p or the high end up to p, whichever adds less
					addLo := c19Arc(pn, c19CovNorm(a.Lo))
					addHi := c19Arc(c19CovNorm(a.Hi), pn)
					c1 := s1.Interval{Lo: pn, Hi: a.Hi}
					c2 := s1.Interval{Lo: a.Lo, Hi: pn}
					tie := math.Abs(addLo-addHi) <= tol
					if tie {
						k.add("addpoint_equidistant_from_both_ends", 1)
					}
					if p == -pi {
						k.add("addpoint_of_-π_outside", 1)
					}
					ok := (same(r, c1) && (addLo <= addHi || tie)) || (same(r, c2) && (addHi <= addLo || tie))
					if !ok {
						c.Violate(sub, "wrong-answer", "s1 AddPoint is not the interval extended by the minimum amount to the (normalised) point", cas,
							det("p=", c19F(p), " got=", c19S1Str(r), " grow_low_end_by=", addLo, " grow_high_end_by=", addHi))
					}
					nontriv.Add(1)
				}
				if !empty { // Project: "The interval must be non-empty"
					q := a.Project(p)
					evals.Add(1)
					switch {
					case inA:
						if q != pn {
							c.Violate(sub, "wrong-answer", "s1 Project moves a point of the interval", cas, det("p=", c19F(p), " got=", c19F(q)))
						}
					default:
						dlo, dhi := c19CovCirc(pn, c19CovNorm(a.Lo)), c19CovCirc(pn, c19CovNorm(a.Hi))
						if math.Abs(dlo-dhi) <= tol {
							k.add("project_equidistant_from_both_ends", 1)
						}
						ok := (q == a.Lo && dlo <= dhi+tol) || (q == a.Hi && dhi <= dlo+tol)
						if !ok {
							c.Violate(sub, "wrong-answer", "s1 Project of an outside point is not the nearer endpoint", cas, det("p=", c19F(p), " got=", c19F(q), " d_lo=", dlo, " d_hi=", dhi))
						}
					}
				}
			}
			// Expanded with a negative margin: documented behaviour
			for _, m := range margins {
				r := a.Expanded(m)
				evals.Add(1)
				rin, _ := circ.memb(r.Lo, r.Hi, false)
				switch {
				case !c19S1Valid(r.Lo, r.Hi) || !r.IsValid():
					c.Violate(sub, "wrong-answer", "s1 Expanded(margin < 0) returns an invalid interval", cas, det("margin=", m, " got=", c19S1Str(r)))
				case full:
					if !r.IsFull() {
						c.Violate(sub, "wrong-answer", "s1 Expanded(margin < 0) of the full interval is not full", cas, det("margin=", m, " got=", c19S1Str(r)))
					}
				case empty:
					if !r.IsEmpty() {
						c.Violate(sub, "wrong-answer", "s1 Expanded(margin < 0) of the empty interval is not empty", cas, det("margin=", m, " got=", c19S1Str(r)))
					}
				case L+2*m < -2e-15:
					k.add("shrunk_to_empty", 1)
					if !r.IsEmpty() {
						c.Violate(sub, "wrong-answer", "s1 Expanded(margin < 0) is not empty although the interval is shorter than twice the margin", cas, det("margin=", m, " got=", c19S1Str(r), " length=", L))
					}
				case L+2*m > 2e-15:
					k.add("shrunk_to_nonempty", 1)
					wl, wh := c19CovWrap(c19CovNorm(a.Lo)-m), c19CovWrap(c19CovNorm(a.Hi)+m)
					if r.IsEmpty() || r.IsFull() || c19CovCirc(r.Lo, wl) > tol || c19CovCirc(r.Hi, wh) > tol || math.Abs(c19CovArcLen(r.Lo, r.Hi)-(L+2*m)) > 2*tol {
						c.Violate(sub, "wrong-answer", "s1 Expanded(margin < 0) is not the interval shrunk by the margin on each side", cas, det("margin=", m, " got=", c19S1Str(r), " want=[", wl, ",", wh, "]"))
					} else if rin&^A.in != 0 {
						c.Violate(sub, "wrong-answer", "s1 Expanded(margin < 0) contains a point outside the interval", cas, det("margin=", m, " got=", c19S1Str(r)))
					}
				default:
					k.add("shrunk_within_rounding_of_empty(no assertion on emptiness)", 1)
					if !r.IsEmpty() && rin&^A.in != 0 {
						family := ""
						if c19CovArcLen(r.Lo, r.Hi) > L {
							family = " [length within rounding of twice the margin: the rounded endpoints cross and the result is longer than the interval]"
						}
						c.Violate(sub, "wrong-answer", "s1 Expanded(margin < 0) contains a point outside the interval"+family, cas, det("margin=", m, " got=", c19S1Str(r), " length=", L))
					}
				}
			}
		})
	}
	// DirectedHausdorffDistance, two-sided: the distance to y is piecewise linear along the circle, so its
	// maximum over an arc is attained at an end of the arc or at the point furthest from y (the midpoint of
	// y's complement) when the arc contains it.
	distTo := func(p float64, y s1.Interval) float64 {
		if c19CovIn(y.Lo, y.Hi, p) {
			return 0
		}
		return math.Min(c19CovCirc(c19CovNorm(p), c19CovNorm(y.Lo)), c19CovCirc(c19CovNorm(p), c19CovNorm(y.Hi)))
	}
	c.ParallelFor(len(ivs), func(ai int) {
		A := ivs[ai]
		var ev, nt, viaCC int64
		for bi, B := range ivs {
			if c.Skip(sub, c19TF, al, ai, bi) {
				continue
			}
			cas := []int{c19TF, al, ai, bi}
			det := func(extra ...any) any {
				return map[string]any{"a": c19S1Str(A.v), "b": c19S1Str(B.v), "more": fmt.Sprint(extra...)}
			}
			c.Guard(sub, cas, func() any { return det() }, func() {
				a, y := A.v, B.v
				d := float64(a.DirectedHausdorffDistance(y))
				ev++
				if A.in == 0 || B.in == 0 {
					return // empty operands: judged by the S1 sub-check
				}
				Ly := c19CovArcLen(y.Lo, y.Hi)
				want := math.Max(distTo(a.Lo, y), distTo(a.Hi, y))
				if Ly < 2*pi {
					ycc := c19CovWrap(c19CovNorm(y.Hi) + (2*pi-Ly)/2)
					if c19CovIn(a.Lo, a.Hi, ycc) {
						if v := (2*pi - Ly) / 2; v > want {
							want = v
							viaCC++
						}
					}
				}
				if want > 0 {
					nt++
				}
				if math.IsNaN(d) || math.Abs(d-want) > tol {
					c.Violate(sub, "wrong-answer", "s1 DirectedHausdorffDistance differs from the largest distance of a point of the receiver to the argument", cas, det("got=", d, " want=", want))
				} else if (d == 0) != (A.in&^B.in == 0) && want > tol {
					c.Violate(sub, "wrong-answer", "s1 DirectedHausdorffDistance is 0 although the receiver is not contained in the argument", cas, det("got=", d, " want=", want))
				}
			})
		}
		evals.Add(ev)
		nontriv.Add(nt)
		k.add("hausdorff_pairs_positive", nt)
		k.add("hausdorff_attained_at_the_midpoint_of_the_complement", viaCC)
	})
	c.Eval(int(evals.Load()))
	c.Nontrivial(int(nontriv.Load()))
	k.flush(c, sub)
}

// ---- COV-S1-approx ---------------------------------------------------------------------------

// c19CovRealLen is the length of a valid interval over the reals (2π exact), as a 320-bit value.
func c19CovRealLen(v s1.Interval) *big.Float {
	if v.IsEmpty() {
		return exact.HPInt(-1)
	}
	twoPi := exact.HPMul(exact.HPInt(2), exact.HPPi())
	if v.IsFull() {
		return twoPi
	}
	d := exact.HPSub(exact.HP(c19CovNorm(v.Hi)), exact.HP(c19CovNorm(v.Lo)))
	if d.Sign() < 0 {
		d = exact.HPAdd(d, twoPi)
	}
	return d
}

// c19CovRealCirc is the distance on the circle between two floats of [-π,π] over the reals.
func c19CovRealCirc(a, b float64) float64 {
	d := exact.HPAbs(exact.HPSub(exact.HP(c19CovNorm(a)), exact.HP(c19CovNorm(b))))
	if d.Cmp(exact.HPPi()) > 0 {
		d = exact.HPAbs(exact.HPSub(exact.HPMul(exact.HPInt(2), exact.HPPi()), d))
	}
	return exact.HPFloat64(d)
}

// c19CovApproxRef evaluates the doc comment of s1.Interval.ApproxEqual over the reals:
// +1 the doc says equal, -1 it says different, 0 within rounding of a threshold.
func c19CovApproxRef(i, o s1.Interval) int {
	const eps = 1e-15
	verdict := func(x, thr, w float64) int { // is x <= thr ?
		if x <= thr-w {
			return 1
		}
		if x >= thr+w {
			return -1
		}
		return 0
	}
	lenF := func(v s1.Interval) float64 { return exact.HPFloat64(c19CovRealLen(v)) }
	gapF := func(v s1.Interval) float64 {
		return exact.HPFloat64(exact.HPSub(exact.HPMul(exact.HPInt(2), exact.HPPi()), c19CovRealLen(v)))
	}
	win := func(v s1.Interval) float64 {
		if v.Lo > v.Hi {
			return 1e-15 // Length() goes through ±2π: one rounding unit of 2π
		}
		return 1e-17
	}
	switch {
	case i.IsEmpty() || o.IsEmpty():
		x := o
		if o.IsEmpty() {
			x = i
		}
		if i.IsEmpty() && o.IsEmpty() {
			return 1
		}
		if x.IsFull() {
			return -1
		}
		return verdict(lenF(x), 2*eps, win(x))
	case i.IsFull() || o.IsFull():
		x := o
		if o.IsFull() {
			x = i
		}
		if i.IsFull() && o.IsFull() {
			return 1
		}
		return verdict(gapF(x), 2*eps, 1.6e-15)
	}
	dlo, dhi := c19CovRealCirc(i.Lo, o.Lo), c19CovRealCirc(i.Hi, o.Hi)
	dlen := math.Abs(exact.HPFloat64(exact.HPSub(c19CovRealLen(i), c19CovRealLen(o))))
	wrap := func(a, b float64) float64 {
		if math.Abs(c19CovNorm(a)-c19CovNorm(b)) > 1 {
			return 8e-16
		}
		return 1e-17
	}
	wl := 4.5e-16*(lenF(i)+lenF(o)) + win(i) + win(o)
	v1, v2, v3 := verdict(dlo, eps, wrap(i.Lo, o.Lo)), verdict(dhi, eps, wrap(i.Hi, o.Hi)), verdict(dlen, 2*eps, wl)
	if v1 < 0 || v2 < 0 || v3 < 0 {
		return -1
	}
	if v1 > 0 && v2 > 0 && v3 > 0 {
		return 1
	}
	return 0
}

func c19CovS1Approx(c *core.Ctx) {
	const sub = "COV-S1-approx"
	pi := math.Pi
	bases := []float64{-pi, 0, pi}
	if c19Big() {
		bases = []float64{-pi, -pi / 2, 0, 1, pi}
	}
	offs := []float64{0, 2.3e-16, 5e-16, 9e-16, 1.3e-15, 2.3e-15, 4e-15, 1e-8}
	var es []float64
	seen := map[float64]bool{}
	for _, b := range bases {
		for _, o := range offs {
			for _, s := range []float64{1, -1} {
				v := b + s*o
				if math.Abs(v) <= pi && !seen[v] {
					seen[v] = true
					es = append(es, v)
				}
			}
		}
	}
	var ivs []s1.Interval
	seenI := map[s1.Interval]bool{}
	addI := func(v s1.Interval) {
		if v.IsValid() && !seenI[v] {
			seenI[v] = true
			ivs = append(ivs, v)
		}
	}
	addI(s1.EmptyInterval())
	addI(s1.FullInterval())
	for _, lo := range es {
		for _, hi := range es {
			addI(s1.IntervalFromEndpoints(lo, hi))
		}
	}
	var evals, yes, no, und, special atomic.Int64
	c.ParallelFor(len(ivs), func(ai int) {
		a := ivs[ai]
		for bi, b := range ivs {
			if c.Skip(sub, c19TF, ai, bi) {
				continue
			}
			cas := []int{c19TF, ai, bi}
			det := func() any { return map[string]any{"a": c19S1Str(a), "b": c19S1Str(b)} }
			c.Guard(sub, cas, det, func() {
				got := a.ApproxEqual(b)
				evals.Add(1)
				// cheap pre-filter: endpoints far apart and no special operand: clearly different
				if !a.IsEmpty() && !b.IsEmpty() && !a.IsFull() && !b.IsFull() &&
					(c19CovCirc(a.Lo, b.Lo) > 1e-6 || c19CovCirc(a.Hi, b.Hi) > 1e-6) {
					if got {
						c.Violate(sub, "wrong-answer", "s1 ApproxEqual is true for intervals with an endpoint further apart than 1e-6", cas, det())
					}
					return
				}
				want := c19CovApproxRef(a, b)
				if a.IsEmpty() || b.IsEmpty() || a.IsFull() || b.IsFull() {
					special.Add(1)
				}
				switch {
				case want == 0:
					und.Add(1)
				case want > 0:
					yes.Add(1)
					if !got {
						c.Violate(sub, "wrong-answer", "s1 ApproxEqual is false although the doc comment's definition (endpoints within ε without crossing; short intervals match empty, nearly full ones match full) holds with a margin", cas, det())
					}
				default:
					no.Add(1)
					if got {
						c.Violate(sub, "wrong-answer", "s1 ApproxEqual is true although the doc comment's definition fails with a margin", cas, det())
					}
				}
			})
		}
	})
	c.Eval(int(evals.Load()))
	c.Nontrivial(int(yes.Load() + no.Load()))
	c.Count(sub+"/intervals", int64(len(ivs)))
	c.Count(sub+"/pairs_close_or_special_judged_equal", yes.Load())
	c.Count(sub+"/pairs_close_or_special_judged_different", no.Load())
	c.Count(sub+"/pairs_within_rounding_of_a_threshold(no assertion)", und.Load())
	c.Count(sub+"/pairs_with_an_empty_or_full_operand", special.Load())
}

// ---- COV-R2: r2.Point arithmetic -------------------------------------------------------------

func c19CovFinite(xs ...float64) bool {
	for _, x := range xs {
		if math.IsNaN(x) || math.IsInf(x, 0) {
			return false
		}
	}
	return true
}

// c19CovRound is the float64 nearest to an exact value (ties to even, gradual underflow, ±Inf on overflow).
func c19CovRound(s exact.S) float64 { return s.Float() }

func c19CovAbsS(s exact.S) exact.S {
	if s.Sign() < 0 {
		return s.Neg()
	}
	return s
}

func c19CovR2Point(c *core.Ctx) {
	const sub = "COV-R2-point"
	negZero := math.Copysign(0, -1)
	vals := []float64{-2, -1, negZero, 0, 0.5, c19Ulp(1, -1), 1, c19Ulp(1, 1), 3, 4, 5e-324, 1e-200}
	if c19Big() {
		vals = append(vals, -5e-324, 2, 1e200, -3, 1e-310, 0.1)
	}
	var pts []r2.Point
	for _, x := range vals {
		for _, y := range vals {
			pts = append(pts, r2.Point{X: x, Y: y})
		}
	}
	F := exact.FromFloat
	pstr := func(p r2.Point) string { return "(" + c19F(p.X) + "," + c19F(p.Y) + ")" }
	ulpBound := func(t exact.S) exact.S { // 2^-52·t·(1+2^-30) + 2^-1072
		return t.Mul(F(math.Ldexp(1, -52))).Add(t.Mul(F(math.Ldexp(1, -82)))).Add(F(math.Ldexp(1, -1072)))
	}
	var evals, inexact, tinyNorm atomic.Int64
	c.ParallelFor(len(pts), func(i int) {
		p := pts[i]
		if !c.Skip(sub, c19TF, i, -1) {
			cas := []int{c19TF, i, -1}
			det := func(extra ...any) any { return map[string]any{"p": pstr(p), "more": fmt.Sprint(extra...)} }
			c.Guard(sub, cas, func() any { return det() }, func() {
				evals.Add(4)
				if o := p.Ortho(); o.X != -p.Y || o.Y != p.X {
					c.Violate(sub, "wrong-answer", "r2 Ortho is not (-y, x)", cas, det("got=", pstr(o)))
				}
				n2 := F(p.X).Mul(F(p.X)).Add(F(p.Y).Mul(F(p.Y)))
				norm := exact.HPSqrt(n2.Big(exact.HPPrec))
				got := p.Norm()
				if !c19CovFinite(got) || got < 0 {
					c.Violate(sub, "wrong-answer", "r2 Norm is negative or not finite for a finite vector whose norm is representable", cas, det("got=", got))
				} else {
					diff := exact.HPAbs(exact.HPSub(exact.HP(got), norm))
					bound := exact.HPAdd(exact.HPMul(norm, exact.HP(math.Ldexp(1, -51))), exact.HP(5e-324))
					if diff.Cmp(bound) > 0 {
						c.Violate(sub, "wrong-answer", "r2 Norm differs from sqrt(x²+y²) by more than 2 rounding units", cas, det("got=", c19F(got), " want≈", exact.HPFloat64(norm)))
					}
				}
				for _, m := range vals {
					r := p.Mul(m)
					wx, wy := c19CovRound(F(m).Mul(F(p.X))), c19CovRound(F(m).Mul(F(p.Y)))
					if r.X != wx || r.Y != wy {
						c.Violate(sub, "wrong-answer", "r2 Mul is not the correctly rounded componentwise product", cas, det("m=", c19F(m), " got=", pstr(r), " want=", pstr(r2.Point{X: wx, Y: wy})))
					}
					evals.Add(1)
				}
				// Normalize: "returns a unit point in the same direction as p"
				u := p.Normalize()
				switch {
				case p.X == 0 && p.Y == 0:
					if u.X != 0 || u.Y != 0 {
						c.Violate(sub, "wrong-answer", "r2 Normalize of the zero vector is not the zero vector", cas, det("got=", pstr(u)))
					}
				case exact.HPFloat64(norm) < 1e-300:
					// out of scope for C19 (plain vector arithmetic on subnormal vectors, where 1/Norm()
					// overflows): filtered, counted
					tinyNorm.Add(1)
				case !c19CovFinite(u.X, u.Y):
					c.Violate(sub, "wrong-answer", "r2 Normalize of a finite non-zero vector has an infinite or NaN component", cas, det("got=", pstr(u)))
				default:
					un2 := F(u.X).Mul(F(u.X)).Add(F(u.Y).Mul(F(u.Y)))
					cr := F(p.X).Mul(F(u.Y)).Sub(F(p.Y).Mul(F(u.X)))
					dt := F(p.X).Mul(F(u.X)).Add(F(p.Y).Mul(F(u.Y)))
					one := exact.Int(1)
					e := F(2e-15)
					// |‖u‖²-1| <= 2e-15 ; p·u > 0 ; (p×u)² <= (1e-15)²·‖p‖²·‖u‖²
					rel := F(1e-15)
					if c19CovAbsS(un2.Sub(one)).Cmp(e) > 0 || dt.Sign() <= 0 || cr.Mul(cr).Cmp(rel.Mul(rel).Mul(n2).Mul(un2)) > 0 {
						c.Violate(sub, "wrong-answer", "r2 Normalize is not a unit vector in the direction of the argument", cas, det("got=", pstr(u)))
					}
				}
			})
		}
		for j, q := range pts {
			if c.Skip(sub, c19TF, i, j) {
				continue
			}
			cas := []int{c19TF, i, j}
			det := func(extra ...any) any {
				return map[string]any{"p": pstr(p), "q": pstr(q), "more": fmt.Sprint(extra...)}
			}
			c.Guard(sub, cas, func() any { return det() }, func() {
				evals.Add(4)
				s, d := p.Add(q), p.Sub(q)
				ws := r2.Point{X: c19CovRound(F(p.X).Add(F(q.X))), Y: c19CovRound(F(p.Y).Add(F(q.Y)))}
				wd := r2.Point{X: c19CovRound(F(p.X).Sub(F(q.X))), Y: c19CovRound(F(p.Y).Sub(F(q.Y)))}
				if s != ws {
					c.Violate(sub, "wrong-answer", "r2 Add is not the correctly rounded componentwise sum", cas, det("got=", pstr(s), " want=", pstr(ws)))
				}
				if d != wd {
					c.Violate(sub, "wrong-answer", "r2 Sub is not the correctly rounded componentwise difference", cas, det("got=", pstr(d), " want=", pstr(wd)))
				}
				a1, a2 := F(p.X).Mul(F(q.X)), F(p.Y).Mul(F(q.Y))
				b1, b2 := F(p.X).Mul(F(q.Y)), F(p.Y).Mul(F(q.X))
				for k, tc := range []struct {
					name string
					got  float64
					e, t exact.S
				}{
					{"Dot", p.Dot(q), a1.Add(a2), c19CovAbsS(a1).Add(c19CovAbsS(a2))},
					{"Cross", p.Cross(q), b1.Sub(b2), c19CovAbsS(b1).Add(c19CovAbsS(b2))},
				} {
					_ = k
					if math.IsInf(c19CovRound(tc.t), 0) {
						continue // a product overflows: outside the representable range
					}
					if !c19CovFinite(tc.got) {
						c.Violate(sub, "wrong-answer", "r2 "+tc.name+" is not finite although every term is representable", cas, det("got=", tc.got))
						continue
					}
					if c19CovRound(tc.e) != tc.got {
						inexact.Add(1)
					}
					if c19CovAbsS(F(tc.got).Sub(tc.e)).Cmp(ulpBound(tc.t)) > 0 {
						c.Violate(sub, "wrong-answer", "r2 "+tc.name+" differs from the exact value by more than the rounding of its two products and one sum", cas, det("got=", c19F(tc.got), " exact≈", c19CovRound(tc.e)))
					}
				}
			})
		}
	})
	c.Eval(int(evals.Load()))
	c.Nontrivial(len(pts) * len(pts))
	c.Count(sub+"/points", int64(len(pts)))
	c.Count(sub+"/ordered_pairs", int64(len(pts)*len(pts)))
	c.Count(sub+"/dot_or_cross_not_equal_to_the_rounded_exact_value(within bound)", inexact.Load())
	c.Count("out-of-scope/r2-normalize-subnormal", tinyNorm.Load())
}

// ---- COV-R2: r2.Rect accessors and constructors --------------------------------------------------

func c19CovR2Rect(c *core.Ctx) {
	const sub = "COV-R2-rect"
	negZero := math.Copysign(0, -1)
	fs := []float64{-1, negZero, 0, c19Ulp(1, -1), 1, c19Ulp(1, 1)}
	if c19Big() {
		fs = append(fs, 5e-324, 2, -2)
	}
	F := exact.FromFloat
	var ne, em []r1.Interval
	for _, lo := range fs {
		for _, hi := range fs {
			if lo > hi {
				em = append(em, r1.Interval{Lo: lo, Hi: hi})
			} else {
				ne = append(ne, r1.Interval{Lo: lo, Hi: hi})
			}
		}
	}
	var rects []r2.Rect
	for _, x := range ne {
		for _, y := range ne {
			rects = append(rects, r2.Rect{X: x, Y: y})
		}
	}
	for _, x := range em {
		for _, y := range em {
			rects = append(rects, r2.Rect{X: x, Y: y})
		}
	}
	rects = append(rects, r2.EmptyRect())
	margins := []float64{0, 5e-324, c19Ulp(1, 1) - 1, 0.5, 1, 3, -5e-324, -0.5, -1, -3}
	pstr := func(p r2.Point) string { return "(" + c19F(p.X) + "," + c19F(p.Y) + ")" }
	var evals, nonEmpty, shrunkEmpty int64
	for ai, a := range rects {
		if c.Skip(sub, c19TF, 0, ai) {
			continue
		}
		cas := []int{c19TF, 0, ai}
		det := func(extra ...any) any { return map[string]any{"a": c19R2Str(a), "more": fmt.Sprint(extra...)} }
		c.Guard(sub, cas, func() any { return det() }, func() {
			evals += 6
			empty := a.X.Lo > a.X.Hi
			lo, hi := a.Lo(), a.Hi()
			if lo.X != a.X.Lo || lo.Y != a.Y.Lo || hi.X != a.X.Hi || hi.Y != a.Y.Hi {
				c.Violate(sub, "wrong-answer", "r2.Rect Lo/Hi are not the low / high corner", cas, det("lo=", pstr(lo), " hi=", pstr(hi)))
			}
			vs := a.Vertices()
			want := [4]r2.Point{{X: a.X.Lo, Y: a.Y.Lo}, {X: a.X.Hi, Y: a.Y.Lo}, {X: a.X.Hi, Y: a.Y.Hi}, {X: a.X.Lo, Y: a.Y.Hi}}
			for k := 0; k < 4; k++ {
				i, j := (k>>1)^(k&1), k>>1
				if vs[k] != want[k] {
					c.Violate(sub, "wrong-answer", "r2.Rect Vertices are not lower-left, lower-right, upper-right, upper-left", cas, det("k=", k, " got=", pstr(vs[k])))
				}
				if v := a.VertexIJ(i, j); v != want[k] {
					c.Violate(sub, "wrong-answer", "r2.Rect VertexIJ(i,j) is not the vertex in direction i along x and j along y", cas, det("i=", i, " j=", j, " got=", pstr(v)))
				}
			}
			sz := a.Size()
			wsz := r2.Point{X: c19CovRound(F(a.X.Hi).Sub(F(a.X.Lo))), Y: c19CovRound(F(a.Y.Hi).Sub(F(a.Y.Lo)))}
			if sz != wsz || (empty && !(sz.X < 0 && sz.Y < 0)) {
				c.Violate(sub, "wrong-answer", "r2.Rect Size is not (width, height) (negative for an empty rectangle)", cas, det("got=", pstr(sz), " want=", pstr(wsz)))
			}
			if !empty {
				nonEmpty++
				// semantic: vertices are CCW extreme points of the rectangle, and span it
				for k := 0; k < 4; k++ {
					if !a.ContainsPoint(vs[k]) {
						c.Violate(sub, "wrong-answer", "r2.Rect does not contain its own vertex", cas, det("k=", k))
					}
					e1, e2 := vs[(k+1)&3].Sub(vs[k]), vs[(k+2)&3].Sub(vs[(k+1)&3])
					if F(e1.X).Mul(F(e2.Y)).Sub(F(e1.Y).Mul(F(e2.X))).Sign() < 0 {
						c.Violate(sub, "wrong-answer", "r2.Rect Vertices are not in counter-clockwise order", cas, det("k=", k))
					}
				}
				if bb := r2.RectFromPoints(vs[0], vs[1], vs[2], vs[3]); bb.X.Lo != a.X.Lo || bb.X.Hi != a.X.Hi || bb.Y.Lo != a.Y.Lo || bb.Y.Hi != a.Y.Hi {
					c.Violate(sub, "wrong-answer", "r2 RectFromPoints of the four vertices is not the rectangle", cas, det("got=", c19R2Str(bb)))
				}
				ctr := a.Center()
				for k, ax := range []struct{ lo, hi, c float64 }{{a.X.Lo, a.X.Hi, ctr.X}, {a.Y.Lo, a.Y.Hi, ctr.Y}} {
					sum := F(ax.lo).Add(F(ax.hi))
					twice := F(ax.c).Add(F(ax.c))
					bound := c19CovAbsS(sum).Mul(F(math.Ldexp(1, -52))).Add(F(math.Ldexp(1, -1073)))
					if !(ax.lo <= ax.c && ax.c <= ax.hi) || c19CovAbsS(twice.Sub(sum)).Cmp(bound) > 0 {
						c.Violate(sub, "wrong-answer", "r2.Rect Center is not the midpoint (or lies outside the rectangle)", cas, det("axis=", k, " got=", c19F(ax.c)))
					}
				}
			}
			for _, m := range margins {
				r := a.ExpandedByMargin(m)
				evals++
				xl, xh := c19CovRound(F(a.X.Lo).Sub(F(m))), c19CovRound(F(a.X.Hi).Add(F(m)))
				yl, yh := c19CovRound(F(a.Y.Lo).Sub(F(m))), c19CovRound(F(a.Y.Hi).Add(F(m)))
				switch {
				case !r.IsValid():
					c.Violate(sub, "wrong-answer", "r2.Rect ExpandedByMargin returns an invalid rectangle", cas, det("margin=", m, " got=", c19R2Str(r)))
				case empty || xl > xh || yl > yh:
					if !empty {
						shrunkEmpty++
					}
					if !r.IsEmpty() {
						c.Violate(sub, "wrong-answer", "r2.Rect ExpandedByMargin is not empty for an empty rectangle / a rectangle narrower than twice the negative margin", cas, det("margin=", m, " got=", c19R2Str(r)))
					}
				default:
					if r.X.Lo != xl || r.X.Hi != xh || r.Y.Lo != yl || r.Y.Hi != yh {
						c.Violate(sub, "wrong-answer", "r2.Rect ExpandedByMargin is not the rectangle moved out by the margin on all four sides", cas, det("margin=", m, " got=", c19R2Str(r)))
					}
					if m >= 0 && !r.Contains(a) {
						c.Violate(sub, "wrong-answer", "r2.Rect ExpandedByMargin(margin >= 0) does not contain the rectangle", cas, det("margin=", m, " got=", c19R2Str(r)))
					}
				}
			}
		})
	}
	// RectFromCenterSize: "Both dimensions of size must be non-negative"
	sizes := []float64{0, 5e-324, c19Ulp(1, 1) - 1, 0.5, 1, 2, 3}
	var fromCS int64
	for i, cx := range fs {
		for j, cy := range fs {
			for k, sx := range sizes {
				for l, sy := range sizes {
					if c.Skip(sub, c19TF, 1, i*100+j, k*100+l) {
						continue
					}
					cas := []int{c19TF, 1, i*100 + j, k*100 + l}
					ctr, size := r2.Point{X: cx, Y: cy}, r2.Point{X: sx, Y: sy}
					det := func(extra ...any) any {
						return map[string]any{"center": pstr(ctr), "size": pstr(size), "more": fmt.Sprint(extra...)}
					}
					c.Guard(sub, cas, func() any { return det() }, func() {
						r := r2.RectFromCenterSize(ctr, size)
						evals++
						fromCS++
						if !r.IsValid() || r.IsEmpty() || !r.ContainsPoint(ctr) {
							c.Violate(sub, "wrong-answer", "r2 RectFromCenterSize is invalid, empty or does not contain its centre", cas, det("got=", c19R2Str(r)))
							return
						}
						half := F(0.5)
						for ax, t := range []struct{ c, s, lo, hi float64 }{{cx, sx, r.X.Lo, r.X.Hi}, {cy, sy, r.Y.Lo, r.Y.Hi}} {
							h := F(t.s).Mul(half)
							wl, wh := F(t.c).Sub(h), F(t.c).Add(h)
							// one rounding of the half size (only when it is subnormal) and one of the sum
							slack := func(w exact.S) exact.S {
								return c19CovAbsS(w).Mul(F(math.Ldexp(1, -52))).Add(F(math.Ldexp(1, -1073)))
							}
							if c19CovAbsS(F(t.lo).Sub(wl)).Cmp(slack(wl)) > 0 || c19CovAbsS(F(t.hi).Sub(wh)).Cmp(slack(wh)) > 0 {
								c.Violate(sub, "wrong-answer", "r2 RectFromCenterSize: a side is not at centre ∓ size/2", cas, det("axis=", ax, " got=", c19R2Str(r)))
							}
						}
					})
				}
			}
		}
	}
	// RectFromPoints with 0, 1 and 3 points
	if !c.Skip(sub, c19TF, 2, -1) {
		c.Guard(sub, []int{c19TF, 2, -1}, nil, func() {
			evals++
			if r := r2.RectFromPoints(); !r.IsValid() {
				c.Violate(sub, "wrong-answer", "r2 RectFromPoints() with no points returns an invalid rectangle", []int{c19TF, 2, -1}, map[string]any{"got": c19R2Str(r)})
			}
		})
	}
	var pts []r2.Point
	for _, x := range fs {
		for _, y := range fs {
			pts = append(pts, r2.Point{X: x, Y: y})
		}
	}
	stride := 1
	if len(pts) > 40 {
		stride = 2 // thorough: every other third point keeps the cube small; all first/second points
	}
	var triples int64
	for i, p := range pts {
		if c.Skip(sub, c19TF, 3, i) {
			continue
		}
		cas := []int{c19TF, 3, i}
		c.Guard(sub, cas, func() any { return map[string]any{"p": pstr(p)} }, func() {
			if r := r2.RectFromPoints(p); r.X.Lo != p.X || r.X.Hi != p.X || r.Y.Lo != p.Y || r.Y.Hi != p.Y {
				c.Violate(sub, "wrong-answer", "r2 RectFromPoints of one point is not the point rectangle", cas, map[string]any{"p": pstr(p), "got": c19R2Str(r)})
			}
			for _, q := range pts {
				for l := 0; l < len(pts); l += stride {
					s := pts[l]
					r := r2.RectFromPoints(p, q, s)
					triples++
					if r.X.Lo != math.Min(p.X, math.Min(q.X, s.X)) || r.X.Hi != math.Max(p.X, math.Max(q.X, s.X)) ||
						r.Y.Lo != math.Min(p.Y, math.Min(q.Y, s.Y)) || r.Y.Hi != math.Max(p.Y, math.Max(q.Y, s.Y)) {
						c.Violate(sub, "wrong-answer", "r2 RectFromPoints of three points is not their bounding rectangle", cas,
							map[string]any{"p": pstr(p), "q": pstr(q), "s": pstr(s), "got": c19R2Str(r)})
					}
				}
			}
		})
	}
	evals += triples
	c.Eval(int(evals))
	c.Nontrivial(int(nonEmpty + fromCS))
	c.Count(sub+"/rectangles", int64(len(rects)))
	c.Count(sub+"/rectangles_non_empty", nonEmpty)
	c.Count(sub+"/expanded_by_negative_margin_to_empty", shrunkEmpty)
	c.Count(sub+"/from_center_size_cases", fromCS)
	c.Count(sub+"/from_points_triples", triples)
}

// ---- COV-LL: s2.Rect accessors and point distance ----------------------------------------------------

type c19V3 [3]float64

func c19CovVec(lat, lng float64) c19V3 {
	cl := math.Cos(lat)
	return c19V3{cl * math.Cos(lng), cl * math.Sin(lng), math.Sin(lat)}
}

func c19CovAng(u, v c19V3) float64 {
	x := u[1]*v[2] - u[2]*v[1]
	y := u[2]*v[0] - u[0]*v[2]
	z := u[0]*v[1] - u[1]*v[0]
	return math.Atan2(math.Sqrt(x*x+y*y+z*z), u[0]*v[0]+u[1]*v[1]+u[2]*v[2])
}

// c19CovMeridianDist is the distance from the point (lat,lng) to the meridian segment of longitude mlng
// spanning the latitudes [lo,hi]: in the frame of that meridian's great circle the point projects to the
// circle parameter ψ, the nearest point of the segment is ψ clamped (circularly) into [lo,hi].
func c19CovMeridianDist(lat, lng, mlng, lo, hi float64) float64 {
	d := lng - mlng
	cl := math.Cos(lat)
	u := c19V3{cl * math.Cos(d), cl * math.Sin(d), math.Sin(lat)}
	psi := math.Atan2(u[2], u[0])
	phi := psi
	if !(lo <= psi && psi <= hi) {
		if c19CovCirc(psi, lo) <= c19CovCirc(psi, hi) {
			phi = lo
		} else {
			phi = hi
		}
	}
	return c19CovAng(u, c19V3{math.Cos(phi), 0, math.Sin(phi)})
}

// c19CovRectDist is the reference distance from a valid point to a non-empty rectangle: inside the longitude
// range it is the latitude excess (no point of the rectangle is closer than the latitude difference);
// outside, moving any point of the rectangle to the nearer end of the longitude range at the same latitude
// brings it closer, so the minimum lies on one of the two meridian sides: the smaller of both is taken.
func c19CovRectDist(r s2.Rect, lat, lng float64) float64 {
	if c19CovIn(r.Lng.Lo, r.Lng.Hi, lng) {
		return math.Max(0, math.Max(lat-r.Lat.Hi, r.Lat.Lo-lat))
	}
	return math.Min(c19CovMeridianDist(lat, lng, r.Lng.Lo, r.Lat.Lo, r.Lat.Hi), c19CovMeridianDist(lat, lng, r.Lng.Hi, r.Lat.Lo, r.Lat.Hi))
}

// c19CovDistTol: the library measures through squared chord lengths; the doc comment of s1.ChordAngle
// bounds the resulting angle error near π by min(1e-15/tan(x/2), sqrt(2e-15)) for the angle π-x.
func c19CovDistTol(d float64) float64 {
	return 2e-13 + math.Min(1e-14/math.Max(math.Pi-d, 1e-300), 1e-7)
}

func c19CovLLRects(latF, lngF []float64, c *core.Ctx) []s2.Rect {
	var lngIn []float64
	for _, f := range lngF {
		if f != -math.Pi {
			lngIn = append(lngIn, f)
		}
	}
	circ := c19Circle{c19Vals(lngIn)}
	lngs := c19S1Intervals(c, lngF, circ)
	var rects []s2.Rect
	seen := map[[4]uint64]bool{}
	add := func(r s2.Rect) {
		k := [4]uint64{math.Float64bits(r.Lat.Lo), math.Float64bits(r.Lat.Hi), math.Float64bits(r.Lng.Lo), math.Float64bits(r.Lng.Hi)}
		if !seen[k] {
			seen[k] = true
			rects = append(rects, r)
		}
	}
	for _, lo := range latF {
		for _, hi := range latF {
			lat := r1.Interval{Lo: lo, Hi: hi}
			for _, g := range lngs {
				if lat.IsEmpty() == (g.in == 0) {
					add(s2.Rect{Lat: lat, Lng: g.v})
				}
			}
		}
	}
	add(s2.EmptyRect())
	add(s2.FullRect())
	return rects
}

func c19CovLLAlphabets() (latF, lngF []float64) {
	pi := math.Pi
	negZero := math.Copysign(0, -1)
	latF = []float64{-pi / 2, c19Ulp(-pi/2, 1), negZero, 0, c19Ulp(pi/2, -1), pi / 2}
	lngF = []float64{-pi, c19Ulp(-pi, 1), -pi / 2, negZero, 0, pi / 2, c19Ulp(pi, -1), pi}
	if c19Big() {
		latF = append(latF, 1, -1)
		lngF = append(lngF, 3, -3, 5e-324)
	}
	return
}

func c19CovLL(c *core.Ctx) {
	const sub = "COV-LL"
	pi := math.Pi
	latF, lngF := c19CovLLAlphabets()
	rects := c19CovLLRects(latF, lngF, c)
	// probes: the alphabets plus generic values
	type probe struct {
		lat, lng float64
		v        c19V3
	}
	var probes []probe
	for _, la := range append(append([]float64(nil), latF...), -1.1, -0.3, 0.7, 1.3) {
		for _, ln := range append(append([]float64(nil), lngF...), -2.5, -1, 0.6, 2.2) {
			probes = append(probes, probe{la, ln, c19CovVec(la, ln)})
		}
	}
	var evals, inside, outside, nearPi atomic.Int64
	llstr := func(l s2.LatLng) string { return "(" + c19F(float64(l.Lat)) + "," + c19F(float64(l.Lng)) + ")" }
	c.ParallelFor(len(rects), func(ai int) {
		a := rects[ai]
		if c.Skip(sub, c19TF, ai) {
			return
		}
		cas := []int{c19TF, ai}
		det := func(extra ...any) any { return map[string]any{"a": c19LLStr(a), "more": fmt.Sprint(extra...)} }
		c.Guard(sub, cas, func() any { return det() }, func() {
			var ev, in, out, np int64
			empty := a.Lat.Lo > a.Lat.Hi
			want := [4]s2.LatLng{
				{Lat: s1.Angle(a.Lat.Lo), Lng: s1.Angle(a.Lng.Lo)}, {Lat: s1.Angle(a.Lat.Lo), Lng: s1.Angle(a.Lng.Hi)},
				{Lat: s1.Angle(a.Lat.Hi), Lng: s1.Angle(a.Lng.Hi)}, {Lat: s1.Angle(a.Lat.Hi), Lng: s1.Angle(a.Lng.Lo)}}
			for k := 0; k < 4; k++ {
				if v := a.Vertex(k); v != want[k] {
					c.Violate(sub, "wrong-answer", "s2.Rect Vertex(k) is not lower-left, lower-right, upper-right, upper-left", cas, det("k=", k, " got=", llstr(v)))
				}
			}
			if a.Lo() != want[0] || a.Hi() != want[2] {
				c.Violate(sub, "wrong-answer", "s2.Rect Lo/Hi are not the (low lat, low lng) / (high lat, high lng) corners", cas, det("lo=", llstr(a.Lo()), " hi=", llstr(a.Hi())))
			}
			sz := a.Size()
			ev += 7
			if empty {
				if !(sz.Lat < 0 && sz.Lng < 0) {
					c.Violate(sub, "wrong-answer", "s2.Rect Size of the empty rectangle is not negative", cas, det("got=", llstr(sz)))
				}
				ev_ := ev
				evals.Add(ev_)
				return
			}
			L := c19CovArcLen(a.Lng.Lo, a.Lng.Hi)
			if float64(sz.Lat) != a.Lat.Hi-a.Lat.Lo || math.Abs(float64(sz.Lng)-L) > 2e-15 {
				c.Violate(sub, "wrong-answer", "s2.Rect Size is not (latitude extent, longitude arc length)", cas, det("got=", llstr(sz), " want_lng=", L))
			}
			ctr := a.Center()
			if !a.Lng.IsFull() { // s1 Center is undefined for the full interval
				wl := c19CovWrap(c19CovNorm(a.Lng.Lo) + L/2)
				if math.Abs(float64(ctr.Lat)-0.5*(a.Lat.Lo+a.Lat.Hi)) > 2.3e-16 || c19CovCirc(float64(ctr.Lng), wl) > 4e-15 || !(math.Abs(float64(ctr.Lng)) <= pi) {
					c.Violate(sub, "wrong-answer", "s2.Rect Center is not the (latitude midpoint, longitude arc midpoint)", cas, det("got=", llstr(ctr), " want_lng=", wl))
				} else if L > 1e-14 && !a.ContainsLatLng(ctr) {
					c.Violate(sub, "wrong-answer", "s2.Rect does not contain its Center", cas, det("got=", llstr(ctr)))
				}
			}
			for k := 0; k < 4; k++ {
				if !a.ContainsLatLng(a.Vertex(k)) {
					c.Violate(sub, "wrong-answer", "s2.Rect does not contain its own vertex", cas, det("k=", k))
				}
			}
			// sample points of the rectangle: vertices, centre and every probe inside it
			var samples []c19V3
			for k := 0; k < 4; k++ {
				samples = append(samples, c19CovVec(float64(want[k].Lat), float64(want[k].Lng)))
			}
			if !a.Lng.IsFull() {
				samples = append(samples, c19CovVec(0.5*(a.Lat.Lo+a.Lat.Hi), c19CovWrap(c19CovNorm(a.Lng.Lo)+L/2)))
			}
			memb := make([]bool, len(probes))
			for i, p := range probes {
				memb[i] = a.Lat.Lo <= p.lat && p.lat <= a.Lat.Hi && c19CovIn(a.Lng.Lo, a.Lng.Hi, p.lng)
				if memb[i] {
					samples = append(samples, p.v)
				}
			}
			for i, p := range probes {
				ll := s2.LatLng{Lat: s1.Angle(p.lat), Lng: s1.Angle(p.lng)}
				got := float64(a.DistanceToLatLng(ll))
				ev++
				ref := c19CovRectDist(a, p.lat, p.lng)
				tol := c19CovDistTol(ref)
				if ref > pi-1e-3 {
					np++
				}
				pd := func(extra ...any) any { return det(append([]any{"p=", llstr(ll), " got=", got, " "}, extra...)...) }
				switch {
				case memb[i]:
					in++
					if got != 0 {
						c.Violate(sub, "wrong-answer", "s2.Rect DistanceToLatLng of a point of the rectangle is not 0", cas, pd())
					}
					continue
				case math.IsNaN(got) || got < 0:
					c.Violate(sub, "wrong-answer", "s2.Rect DistanceToLatLng is negative or NaN", cas, pd())
					continue
				}
				out++
				if math.Abs(got-ref) > tol {
					c.Violate(sub, "wrong-answer", "s2.Rect DistanceToLatLng differs from the reference distance (latitude excess inside the longitude range, nearer meridian side outside)", cas, pd("want=", ref))
					continue
				}
				if ref > tol && got == 0 {
					c.Violate(sub, "wrong-answer", "s2.Rect DistanceToLatLng is 0 for a point outside the rectangle", cas, pd("want=", ref))
				}
				for _, s := range samples {
					if d := c19CovAng(p.v, s); got > d+c19CovDistTol(d) {
						c.Violate(sub, "wrong-answer", "s2.Rect DistanceToLatLng is larger than the distance to a point of the rectangle", cas, pd("sample=", s, " distance_to_sample=", d))
						break
					}
				}
			}
			evals.Add(ev)
			inside.Add(in)
			outside.Add(out)
			nearPi.Add(np)
		})
	})
	c.Eval(int(evals.Load()))
	c.Nontrivial(int(outside.Load()))
	c.Count(sub+"/rectangles", int64(len(rects)))
	c.Count(sub+"/probe_points", int64(len(probes)))
	c.Count(sub+"/distance_probes_inside", inside.Load())
	c.Count(sub+"/distance_probes_outside", outside.Load())
	c.Count(sub+"/distance_probes_within_1e-3_of_π", nearPi.Load())
}

// ---- COV-HAUSDORFF ------------------------------------------------------------------------------------

// c19CovHausdorffBB brackets h(A,B) = max over p in A of the reference distance from p to B by branch and
// bound over A's (latitude, longitude offset) box: the distance to B is 1-Lipschitz on the sphere, so on a
// box it is at most its value at the centre plus the half extents; a box inside B contributes 0.
func c19CovHausdorffBB(A, B s2.Rect, delta float64, maxEval int) (lb, ub float64, evals int, capped bool) {
	LA := c19CovArcLen(A.Lng.Lo, A.Lng.Hi)
	LB := c19CovArcLen(B.Lng.Lo, B.Lng.Hi)
	a0 := c19CovNorm(A.Lng.Lo)
	lngAt := func(t float64) float64 { return c19CovWrap(a0 + t) }
	f := func(lat, t float64) float64 {
		evals++
		return c19CovRectDist(B, lat, lngAt(t))
	}
	type box struct{ la0, la1, t0, t1, ub float64 }
	inB := func(b box) bool {
		if !(B.Lat.Lo <= b.la0 && b.la1 <= B.Lat.Hi) {
			return false
		}
		if B.Lng.IsFull() {
			return true
		}
		s := lngAt(b.t0)
		if !c19CovIn(B.Lng.Lo, B.Lng.Hi, s) {
			return false
		}
		return c19Arc(c19CovNorm(B.Lng.Lo), s)+(b.t1-b.t0) <= LB-1e-12
	}
	for _, la := range []float64{A.Lat.Lo, A.Lat.Hi, 0.5 * (A.Lat.Lo + A.Lat.Hi)} {
		for _, t := range []float64{0, LA, LA / 2} {
			if v := f(la, t); v > lb {
				lb = v
			}
		}
	}
	queue := []box{{A.Lat.Lo, A.Lat.Hi, 0, LA, 0}}
	done := 0.0
	for len(queue) > 0 {
		level := queue[:0:0]
		for _, b := range queue {
			if inB(b) {
				continue
			}
			v := f(0.5*(b.la0+b.la1), 0.5*(b.t0+b.t1))
			if v > lb {
				lb = v
			}
			b.ub = v + 0.5*(b.la1-b.la0) + 0.5*(b.t1-b.t0)
			level = append(level, b)
		}
		queue = queue[:0]
		if evals > maxEval {
			capped = true
			for _, b := range level {
				done = math.Max(done, b.ub)
			}
			break
		}
		for _, b := range level {
			dl, dt := b.la1-b.la0, b.t1-b.t0
			if b.ub <= lb+delta || 0.5*(dl+dt) <= delta/2 {
				done = math.Max(done, b.ub)
				continue
			}
			if dl >= dt {
				m := 0.5 * (b.la0 + b.la1)
				queue = append(queue, box{b.la0, m, b.t0, b.t1, 0}, box{m, b.la1, b.t0, b.t1, 0})
			} else {
				m := 0.5 * (b.t0 + b.t1)
				queue = append(queue, box{b.la0, b.la1, b.t0, m, 0}, box{b.la0, b.la1, m, b.t1, 0})
			}
		}
	}
	return lb, math.Max(lb, done), evals, capped
}

func c19CovHausdorff(c *core.Ctx) {
	const sub = "COV-HAUSDORFF"
	pi := math.Pi
	latF, lngF := c19CovLLAlphabets()
	rects := c19CovLLRects(latF, lngF, c)
	contains := func(a, b s2.Rect) bool { // b ⊆ a in latitude-longitude space, both non-empty
		if !(a.Lat.Lo <= b.Lat.Lo && b.Lat.Hi <= a.Lat.Hi) {
			return false
		}
		if a.Lng.IsFull() {
			return true
		}
		if b.Lng.IsFull() {
			return false
		}
		if !c19CovIn(a.Lng.Lo, a.Lng.Hi, b.Lng.Lo) || !c19CovIn(a.Lng.Lo, a.Lng.Hi, b.Lng.Hi) {
			return false
		}
		// both ends of b lie in a: b stays inside a iff its high end comes after its low end along a
		alo := c19CovNorm(a.Lng.Lo)
		key := func(p float64) (int, float64) {
			p = c19CovNorm(p)
			if p >= alo {
				return 0, p
			}
			return 1, p
		}
		c1, v1 := key(b.Lng.Lo)
		c2, v2 := key(b.Lng.Hi)
		return c1 < c2 || (c1 == c2 && v1 <= v2)
	}
	var evals, positive, zero, withEmpty atomic.Int64
	judge := func(cas []int, a, b s2.Rect, bb bool, delta float64, maxEval int, k *c19CovCounters) {
		det := func(extra ...any) any {
			return map[string]any{"a": c19LLStr(a), "b": c19LLStr(b), "more": fmt.Sprint(extra...)}
		}
		c.Guard(sub, cas, func() any { return det() }, func() {
			d := float64(a.DirectedHausdorffDistance(b))
			evals.Add(1)
			if math.IsNaN(d) || d < 0 || d > pi+4e-15 {
				c.Violate(sub, "wrong-answer", "s2.Rect DirectedHausdorffDistance is negative, NaN or larger than π", cas, det("got=", d))
				return
			}
			aE, bE := a.Lat.Lo > a.Lat.Hi, b.Lat.Lo > b.Lat.Hi
			if cas[len(cas)-2] <= cas[len(cas)-1] {
				h, back := float64(a.HausdorffDistance(b)), float64(b.DirectedHausdorffDistance(a))
				if h != math.Max(d, back) {
					c.Violate(sub, "wrong-answer", "s2.Rect HausdorffDistance is not the larger of the two directed distances", cas, det("got=", h, " directed=", d, " reverse=", back))
				}
			}
			if aE || bE {
				withEmpty.Add(1)
				return
			}
			if contains(b, a) {
				zero.Add(1)
				if d != 0 {
					c.Violate(sub, "wrong-answer", "s2.Rect DirectedHausdorffDistance to a rectangle that contains the receiver is not 0", cas, det("got=", d))
				}
				return
			}
			// lower bounds: the distance of sample points of a to b
			L := c19CovArcLen(a.Lng.Lo, a.Lng.Hi)
			lower := 0.0
			for _, la := range []float64{a.Lat.Lo, a.Lat.Hi, 0.5 * (a.Lat.Lo + a.Lat.Hi)} {
				for _, t := range []float64{0, L, L / 2} {
					if v := c19CovRectDist(b, la, c19CovWrap(c19CovNorm(a.Lng.Lo)+t)); v > lower {
						lower = v
					}
				}
			}
			upper := pi
			if bb {
				var n int
				var capped bool
				lower, upper, n, capped = c19CovHausdorffBB(a, b, delta, maxEval)
				k.add("branch_and_bound_pairs", 1)
				k.add("branch_and_bound_reference_evaluations", int64(n))
				if capped {
					k.add("branch_and_bound_pairs_cut_at_the_evaluation_cap(upper bound looser)", 1)
				}
				if upper-lower <= 2*delta {
					k.add("branch_and_bound_pairs_bracketed_within_2delta", 1)
				}
			}
			if lower > 1e-9 {
				positive.Add(1)
			}
			if d < lower-c19CovDistTol(lower) {
				c.Violate(sub, "wrong-answer", "s2.Rect DirectedHausdorffDistance is smaller than the distance of a point of the receiver to the argument", cas, det("got=", d, " lower_bound=", lower))
			} else if d > upper+c19CovDistTol(upper) {
				c.Violate(sub, "wrong-answer", "s2.Rect DirectedHausdorffDistance is larger than every point of the receiver is far from the argument (branch-and-bound upper bound)", cas, det("got=", d, " upper_bound=", upper, " lower_bound=", lower))
			} else if d == 0 && lower > c19CovDistTol(lower) {
				c.Violate(sub, "wrong-answer", "s2.Rect DirectedHausdorffDistance is 0 although the receiver is not contained in the argument", cas, det("lower_bound=", lower))
			}
		})
	}
	var k c19CovCounters
	c.ParallelFor(len(rects), func(ai int) {
		for bi := range rects {
			if c.Skip(sub, c19TF, 0, ai, bi) {
				continue
			}
			judge([]int{c19TF, 0, ai, bi}, rects[ai], rects[bi], false, 0, 0, &k)
		}
	})
	// branch-and-bound sub-lattice: generic rectangles
	lats := []float64{-pi / 2, -0.6, 0.3, pi / 2}
	lngs := []float64{-2.2, 0, 1.3, pi}
	delta := 4e-3
	if c19Big() {
		lats = []float64{-pi / 2, -0.6, 0, 0.3, pi / 2}
		lngs = []float64{-2.2, -0.4, 0, 0.9, 1.3, pi}
		delta = 2e-3
	}
	var gen []s2.Rect
	for i, lo := range lats {
		for _, hi := range lats[i:] {
			for _, gl := range lngs {
				for _, gh := range lngs {
					gen = append(gen, s2.Rect{Lat: r1.Interval{Lo: lo, Hi: hi}, Lng: s1.IntervalFromEndpoints(gl, gh)})
				}
			}
			gen = append(gen, s2.Rect{Lat: r1.Interval{Lo: lo, Hi: hi}, Lng: s1.FullInterval()})
		}
	}
	ng := len(gen)
	c.ParallelFor(ng*ng, func(idx int) {
		ai, bi := idx/ng, idx%ng
		if c.Skip(sub, c19TF, 1, ai, bi) {
			return
		}
		judge([]int{c19TF, 1, ai, bi}, gen[ai], gen[bi], true, delta, 60000, &k)
	})
	c.Eval(int(evals.Load()))
	c.Nontrivial(int(positive.Load()))
	c.Count(sub+"/alphabet_rectangles", int64(len(rects)))
	c.Count(sub+"/generic_rectangles", int64(len(gen)))
	c.Count(sub+"/pairs_with_positive_lower_bound", positive.Load())
	c.Count(sub+"/pairs_receiver_contained(distance 0 asserted)", zero.Load())
	c.Count(sub+"/pairs_with_an_empty_operand(range only)", withEmpty.Load())
	c.Note(sub, fmt.Sprintf("branch-and-bound resolution delta=%g rad", delta))
	k.flush(c, sub)
}

// ---- COV-ANGLE: s1.Angle and s1.ChordAngle ---------------------------------------------------------------

// c19CovEquivalent reports whether a and r differ by a whole number of turns over the reals, allowing the
// representation error of 2π per turn and one rounding unit of a.
func c19CovEquivalent(a, r float64) (bool, float64) {
	k := math.Round((a - r) / (2 * math.Pi))
	twoPi := exact.HPMul(exact.HPInt(2), exact.HPPi())
	res := exact.HPAbs(exact.HPSub(exact.HPSub(exact.HP(a), exact.HP(r)), exact.HPMul(exact.HP(k), twoPi)))
	tol := math.Abs(k)*3e-16 + math.Abs(a)*2.3e-16 + 1e-300
	return exact.HPFloat64(res) <= tol, k
}

func c19CovAngle(c *core.Ctx) {
	const sub = "COV-ANGLE"
	pi := math.Pi
	negZero := math.Copysign(0, -1)
	var evals, nontriv int64
	viol := func(cas []int, desc string, d map[string]any) { c.Violate(sub, "wrong-answer", desc, cas, d) }
	// Normalized: "returns an equivalent angle in (-π, π]"; Abs
	angles := []float64{0, negZero, 5e-324, 1e-300, 1, pi / 2, c19Ulp(pi, -1), pi, c19Ulp(pi, 1), 3 * pi / 2, c19Ulp(2*pi, -1), 2 * pi, c19Ulp(2*pi, 1), 3 * pi, c19Ulp(3*pi, 1), c19Ulp(3*pi, -1), 5 * pi, 7, 100, 1e6, 1e15}
	if c19Big() {
		for k := 1; k <= 40; k++ {
			angles = append(angles, float64(k)*pi, float64(k)*pi/2+0.25, c19Ulp(float64(k)*pi, 1), c19Ulp(float64(k)*pi, -1))
		}
	}
	for i, x := range angles {
		for s, a := range []float64{x, -x} {
			cas := []int{c19TF, 0, i, s}
			if c.Skip(sub, cas...) {
				continue
			}
			c.Guard(sub, cas, func() any { return map[string]any{"a": c19F(a)} }, func() {
				evals += 2
				r := float64(s1.Angle(a).Normalized())
				eq, k := c19CovEquivalent(a, r)
				if k != 0 {
					nontriv++
				}
				if !(r > -pi && r <= pi) || !eq {
					viol(cas, "s1.Angle Normalized is not an equivalent angle in (-π, π]", map[string]any{"a": c19F(a), "got": c19F(r)})
				}
				if ab := float64(s1.Angle(a).Abs()); ab != math.Abs(a) || math.Signbit(ab) {
					viol(cas, "s1.Angle Abs is not the absolute value", map[string]any{"a": c19F(a), "got": c19F(ab)})
				}
			})
		}
	}
	// E5 / E6 / E7: the angle in 1e-5 / 1e-6 / 1e-7 degrees, rounded to nearest
	type unit struct {
		name  string
		scale float64
		u     s1.Angle
		f     func(s1.Angle) int32
	}
	units := []unit{{"E5", 1e5, s1.E5, s1.Angle.E5}, {"E6", 1e6, s1.E6, s1.Angle.E6}, {"E7", 1e7, s1.E7, s1.Angle.E7}}
	ks := []float64{0, 1, 2, 3, 7, 10, 99, 12345, 4500000, 9000000, 18000000, 123456789, 179999999, 180000000, 0.5, 1.5, 2.5, 0.49, 0.51, 1234.5}
	deg := exact.HPQuo(exact.HPInt(180), exact.HPPi())
	for ui, un := range units {
		for ki, kv := range ks {
			for s, sg := range []float64{1, -1} {
				cas := []int{c19TF, 1, ui, ki, s}
				if c.Skip(sub, cas...) {
					continue
				}
				for v, a := range []s1.Angle{s1.Angle(sg*kv) * un.u, s1.Angle(sg * kv / un.scale * (pi / 180)), s1.Angle(sg * kv * 1e-3)} {
					real := exact.HPMul(exact.HPMul(exact.HP(float64(a)), deg), exact.HP(un.scale))
					rv := exact.HPFloat64(real)
					if math.Abs(rv) >= 2147483647 {
						continue // outside int32: undocumented
					}
					c.Guard(sub, cas, func() any { return map[string]any{"a": c19F(float64(a)), "unit": un.name} }, func() {
						got := un.f(a)
						evals++
						if v == 0 && kv == math.Trunc(kv) {
							nontriv++
							if float64(got) != sg*kv {
								viol(cas, "s1.Angle "+un.name+"() of k·"+un.name+" is not k", map[string]any{"k": sg * kv, "got": got})
							}
						}
						if math.Abs(float64(got)-rv) > 0.5+4e-15*math.Abs(rv)+1e-9 {
							viol(cas, "s1.Angle "+un.name+"() is not the angle in its unit rounded to the nearest integer", map[string]any{"a": c19F(float64(a)), "got": got, "exact": rv})
						}
					})
				}
			}
		}
	}
	// ApproxEqual: "the same up to a small tolerance" (the package's ε = 1e-15)
	bases := []float64{0, 1e-15, 1, -pi, 100}
	offs := []float64{0, 5e-324, 2.3e-16, 5e-16, 9e-16, 1.1e-15, 2e-15, 1e-8}
	var av []float64
	for _, b := range bases {
		for _, o := range offs {
			av = append(av, b+o, b-o)
		}
	}
	for i, a := range av {
		for j, b := range av {
			cas := []int{c19TF, 2, i, j}
			if c.Skip(sub, cas...) {
				continue
			}
			evals++
			got := s1.Angle(a).ApproxEqual(s1.Angle(b))
			diff := exact.HPFloat64(exact.HPAbs(exact.HPSub(exact.HP(a), exact.HP(b))))
			w := 2.3e-16*math.Max(math.Abs(a), math.Abs(b))*0 + 1e-17 + 1.2e-16*diff
			d := map[string]any{"a": c19F(a), "b": c19F(b), "difference": diff}
			if diff <= 1e-15-w && !got {
				viol(cas, "s1.Angle ApproxEqual is false for angles closer than ε", d)
			} else if diff >= 1e-15+w && got {
				viol(cas, "s1.Angle ApproxEqual is true for angles further apart than ε", d)
			}
			if diff > 0 && diff < 1e-14 {
				nontriv++
			}
			if got != s1.Angle(b).ApproxEqual(s1.Angle(a)) {
				viol(cas, "s1.Angle ApproxEqual is not symmetric", d)
			}
		}
	}
	// conversions between Angle and ChordAngle, including the special values
	inf := math.Inf(1)
	if !c.Skip(sub, c19TF, 3, -1) {
		cas := []int{c19TF, 3, -1}
		evals++
		if ia := s1.InfAngle(); !(ia > s1.Angle(math.MaxFloat64)) || !(float64(ia) > 0) {
			viol(cas, "s1 InfAngle is not larger than every finite angle", nil)
		}
		if !s1.ChordAngleFromAngle(s1.InfAngle()).IsInfinity() || s1.ChordAngleFromAngle(s1.InfAngle()) != s1.InfChordAngle() {
			viol(cas, "ChordAngleFromAngle(InfAngle) is not the infinite chord angle", nil)
		}
		if a := s1.InfChordAngle().Angle(); !(a > s1.Angle(math.MaxFloat64)) {
			viol(cas, "InfChordAngle.Angle is not larger than every finite angle", map[string]any{"got": float64(a)})
		}
		if a := s1.NegativeChordAngle.Angle(); !(a < 0) {
			viol(cas, "NegativeChordAngle.Angle is not smaller than the zero angle", map[string]any{"got": float64(a)})
		}
		if s1.InfChordAngle().IsInfinity() != true || s1.StraightChordAngle.IsInfinity() || s1.NegativeChordAngle.IsInfinity() {
			viol(cas, "ChordAngle IsInfinity is wrong for a special value", nil)
		}
	}
	conv := []float64{-inf, -100, -1, -5e-324, negZero, 0, 5e-324, 1e-160, 1e-8, 0.5, 1, pi / 2, 2, 3, c19Ulp(pi, -1), pi, c19Ulp(pi, 1), 4, 100, math.MaxFloat64, inf}
	prev := s1.ChordAngle(math.Inf(-1))
	for i, a := range conv {
		cas := []int{c19TF, 4, i}
		if c.Skip(sub, cas...) {
			continue
		}
		c.Guard(sub, cas, func() any { return map[string]any{"a": c19F(a)} }, func() {
			evals++
			ca := s1.ChordAngleFromAngle(s1.Angle(a))
			d := map[string]any{"angle": c19F(a), "got": c19F(float64(ca))}
			switch {
			case a < 0:
				nontriv++
				if !(ca < 0) {
					viol(cas, "ChordAngleFromAngle of a negative angle is not smaller than the zero chord angle", d)
				}
			case math.IsInf(a, 1):
				if !ca.IsInfinity() {
					viol(cas, "ChordAngleFromAngle of the infinite angle is not infinite", d)
				}
			case a >= pi:
				nontriv++
				if ca != s1.StraightChordAngle {
					viol(cas, "ChordAngleFromAngle of a finite angle >= π is not the straight chord angle", d)
				}
			default:
				s := 2 * math.Sin(a/2)
				if math.Abs(float64(ca)-s*s) > 2e-15 || ca < 0 || ca > 4 {
					viol(cas, "ChordAngleFromAngle of an angle in [0,π] is not 4 sin²(angle/2)", d)
				}
			}
			if i > 0 && ca < prev {
				viol(cas, "ChordAngleFromAngle does not preserve the order of angles", d)
			}
			prev = ca
			// back again: sign class and order class survive the round trip
			back := ca.Angle()
			if (a < 0) != (back < 0) || math.IsInf(a, 1) != math.IsInf(float64(back), 1) || (a >= 0 && a <= pi && math.Abs(float64(back)-a) > 1e-15+3e-8*b2f(a > 3)) {
				viol(cas, "ChordAngleFromAngle(a).Angle() does not return to the angle (sign, infinity, or value in [0,π])", map[string]any{"angle": c19F(a), "got": c19F(float64(back))})
			}
		})
	}
	// ChordAngleFromSquaredLength: "automatically clamped to a maximum of 4", "must be non-negative"
	for i, x := range []float64{0, 5e-324, 1, c19Ulp(4, -1), 4, c19Ulp(4, 1), 5, 1e300, inf} {
		cas := []int{c19TF, 6, i}
		if c.Skip(sub, cas...) {
			continue
		}
		evals++
		if got := float64(s1.ChordAngleFromSquaredLength(x)); got != math.Min(x, 4) {
			viol(cas, "ChordAngleFromSquaredLength is not the squared length clamped to 4", map[string]any{"length2": c19F(x), "got": c19F(got)})
		}
		if x > 4 {
			nontriv++
		}
	}
	chords := []float64{0, 5e-324, 1e-30, 1e-14, 1e-6, 0.25, 1, c19Ulp(2, -1), 2, c19Ulp(2, 1), 3, 3.5, c19Ulp(4, -1), 4}
	prevA := s1.Angle(-1)
	for i, x := range chords {
		cas := []int{c19TF, 5, i}
		if c.Skip(sub, cas...) {
			continue
		}
		c.Guard(sub, cas, func() any { return map[string]any{"chord2": c19F(x)} }, func() {
			evals += 5
			nontriv++
			ca := s1.ChordAngle(x)
			th := 2 * math.Atan2(math.Sqrt(x), math.Sqrt(4-x))
			d := map[string]any{"chord2": c19F(x), "angle": th}
			ang := ca.Angle()
			tolA := 1e-15
			if x > 3.9 {
				tolA = 3e-8 // doc comment of ChordAngle: conversion error near π
			}
			if math.Abs(float64(ang)-th) > tolA || ang < prevA || ang < 0 || float64(ang) > pi {
				d["got"] = float64(ang)
				viol(cas, "ChordAngle.Angle is not the angle of the chord, or is not monotone / not in [0,π]", d)
			}
			prevA = ang
			near := func(got, want float64) bool { return math.Abs(got-want) <= 1e-15+1e-15*math.Abs(want) }
			if s2v := ca.Sin2(); !near(s2v, math.Sin(th)*math.Sin(th)) {
				d["got"] = s2v
				viol(cas, "ChordAngle.Sin2 is not sin² of the angle", d)
			}
			if sv := ca.Sin(); !near(sv, math.Sin(th)) {
				d["got"] = sv
				viol(cas, "ChordAngle.Sin is not the sine of the angle", d)
			}
			cv := ca.Cos()
			if !near(cv, math.Cos(th)) {
				d["got"] = cv
				viol(cas, "ChordAngle.Cos is not the cosine of the angle", d)
			}
			if sv := ca.Sin(); math.Abs(sv*sv+cv*cv-1) > 2e-15 {
				viol(cas, "ChordAngle Sin² + Cos² is not 1", d)
			}
			tv := ca.Tan()
			if math.Abs(cv) > 1e-3 {
				if math.Abs(tv-math.Tan(th)) > 1e-14*(1+math.Abs(math.Tan(th))) {
					d["got"] = tv
					viol(cas, "ChordAngle.Tan is not the tangent of the angle", d)
				}
			} else if !(math.Abs(tv) > 1e15) {
				d["got"] = tv
				viol(cas, "ChordAngle.Tan of (nearly) a right angle is not huge", d)
			}
		})
	}
	c.Eval(int(evals))
	c.Nontrivial(int(nontriv))
	c.Count(sub+"/evaluations", evals)
	c.Note(sub+"/unreachable", "s1.ChordAngle.isValid is unexported and has no caller outside the library's own tests: no exported path reaches it")
}

func b2f(b bool) float64 {
	if b {
		return 1
	}
	return 0
}

// ---- COV-LATLNG ----------------------------------------------------------------------------------------------

func c19CovLatLng(c *core.Ctx) {
	const sub = "COV-LATLNG"
	pi := math.Pi
	negZero := math.Copysign(0, -1)
	var evals, nontriv int64
	viol := func(cas []int, desc string, d any) { c.Violate(sub, "wrong-answer", desc, cas, d) }
	// Normalized: "Lat clamped to [-π/2,π/2] and Lng wrapped in [-π,π]"
	lats := []float64{-100, -2, c19Ulp(-pi/2, -1), -pi / 2, -1, negZero, 0, 1, pi / 2, c19Ulp(pi/2, 1), 2, 100}
	lngs := []float64{-100, -7, -2 * pi, c19Ulp(-pi, -1), -pi, c19Ulp(-pi, 1), -1, negZero, 0, 5e-324, 1, c19Ulp(pi, -1), pi, c19Ulp(pi, 1), 2 * pi, 3 * pi, 7, 100, 1e6}
	for i, la := range lats {
		for j, ln := range lngs {
			cas := []int{c19TF, 0, i, j}
			if c.Skip(sub, cas...) {
				continue
			}
			c.Guard(sub, cas, func() any { return map[string]any{"lat": c19F(la), "lng": c19F(ln)} }, func() {
				evals++
				in := s2.LatLng{Lat: s1.Angle(la), Lng: s1.Angle(ln)}
				r := in.Normalized()
				d := map[string]any{"lat": c19F(la), "lng": c19F(ln), "got_lat": c19F(float64(r.Lat)), "got_lng": c19F(float64(r.Lng))}
				eq, k := c19CovEquivalent(ln, float64(r.Lng))
				if k != 0 || math.Abs(la) > pi/2 {
					nontriv++
				}
				switch {
				case !r.IsValid() || !(math.Abs(float64(r.Lat)) <= pi/2) || !(math.Abs(float64(r.Lng)) <= pi):
					viol(cas, "s2.LatLng Normalized is not valid", d)
				case float64(r.Lat) != math.Max(-pi/2, math.Min(pi/2, la)):
					viol(cas, "s2.LatLng Normalized: the latitude is not clamped to [-π/2,π/2]", d)
				case !eq:
					viol(cas, "s2.LatLng Normalized: the longitude is not equivalent to the argument's modulo 2π", d)
				case in.IsValid() && r != in:
					viol(cas, "s2.LatLng Normalized changes a valid LatLng", d)
				}
			})
		}
	}
	// Distance against the angle between the unit vectors (valid arguments)
	dl := []float64{-pi / 2, -1, negZero, 0, 1e-8, 0.3, 1, c19Ulp(pi/2, -1), pi / 2}
	dg := []float64{-pi, -2, negZero, 0, 5e-324, 1e-8, 0.5, 2, c19Ulp(pi, -1), pi}
	if c19Big() {
		dl = append(dl, -0.3, 1.5, -1.5)
		dg = append(dg, -0.5, 3, -3, pi/2)
	}
	type pt struct {
		ll s2.LatLng
		v  exact.V
	}
	var pts []pt
	for _, la := range dl {
		for _, ln := range dg {
			u := c19CovVec(la, ln)
			var p s2.Point
			p.X, p.Y, p.Z = u[0], u[1], u[2]
			pts = append(pts, pt{s2.LatLng{Lat: s1.Angle(la), Lng: s1.Angle(ln)}, exact.FromVector(p.Vector)})
		}
	}
	var mu sync.Mutex
	c.ParallelFor(len(pts), func(i int) {
		var ev, nt int64
		for j := range pts {
			cas := []int{c19TF, 1, i, j}
			if c.Skip(sub, cas...) {
				continue
			}
			a, b := pts[i], pts[j]
			c.Guard(sub, cas, func() any { return map[string]any{"a": fmt.Sprint(a.ll), "b": fmt.Sprint(b.ll)} }, func() {
				ev++
				got := float64(a.ll.Distance(b.ll))
				want := exact.HPFloat64(exact.HPAngle(a.v, b.v))
				if want > 1e-9 {
					nt++
				}
				d := map[string]any{"a_lat": c19F(float64(a.ll.Lat)), "a_lng": c19F(float64(a.ll.Lng)), "b_lat": c19F(float64(b.ll.Lat)), "b_lng": c19F(float64(b.ll.Lng)), "got": got, "want": want}
				if math.IsNaN(got) || got < 0 || got > pi || math.Abs(got-want) > 1e-14+math.Min(1e-14/math.Max(pi-want, 1e-300), 1e-7) {
					viol(cas, "s2.LatLng Distance differs from the angle between the two points", d)
				} else if i == j && got != 0 {
					viol(cas, "s2.LatLng Distance of a point to itself is not 0", d)
				}
				// ApproxEqual: componentwise within ε
				ae := a.ll.ApproxEqual(b.ll)
				dla := math.Abs(float64(a.ll.Lat) - float64(b.ll.Lat))
				dln := math.Abs(float64(a.ll.Lng) - float64(b.ll.Lng))
				if m := math.Max(dla, dln); (m <= 9.9e-16 && !ae) || (m >= 1.01e-15 && ae) {
					viol(cas, "s2.LatLng ApproxEqual disagrees with 'latitude and longitude within ε'", d)
				}
			})
		}
		mu.Lock()
		evals += ev
		nontriv += nt
		mu.Unlock()
	})
	// LatLngFromPoint: poles, antimeridian, signed zeros
	comps := []float64{-1, -0.5, negZero, 0, 5e-324, -5e-324, 1e-8, 0.5, 1}
	var fromPoint, atPole, antimeridian int64
	for i, x := range comps {
		for j, y := range comps {
			for k, z := range comps {
				n2 := x*x + y*y + z*z
				if n2 < 0.2 || n2 > 4 {
					continue // direction vectors of moderate length only
				}
				cas := []int{c19TF, 2, i*100 + j, k}
				if c.Skip(sub, cas...) {
					continue
				}
				var p s2.Point
				p.X, p.Y, p.Z = x, y, z
				c.Guard(sub, cas, func() any { return map[string]any{"p": []string{c19F(x), c19F(y), c19F(z)}} }, func() {
					evals++
					fromPoint++
					ll := s2.LatLngFromPoint(p)
					d := map[string]any{"p": []string{c19F(x), c19F(y), c19F(z)}, "got_lat": c19F(float64(ll.Lat)), "got_lng": c19F(float64(ll.Lng))}
					if !ll.IsValid() || !(math.Abs(float64(ll.Lat)) <= pi/2) || !(math.Abs(float64(ll.Lng)) <= pi) {
						viol(cas, "s2 LatLngFromPoint returns an invalid LatLng", d)
						return
					}
					hx, hy, hz := exact.HP(x), exact.HP(y), exact.HP(z)
					wlat := exact.HPFloat64(exact.HPAtan2(hz, exact.HPSqrt(exact.HPAdd(exact.HPMul(hx, hx), exact.HPMul(hy, hy)))))
					if math.Abs(float64(ll.Lat)-wlat) > 1e-15 {
						d["want_lat"] = wlat
						viol(cas, "s2 LatLngFromPoint: the latitude is not the elevation of the vector above the xy-plane", d)
					}
					if x == 0 && y == 0 {
						atPole++
						return // the longitude of a pole is arbitrary
					}
					if y == 0 && x < 0 {
						antimeridian++
					}
					wlng := exact.HPFloat64(exact.HPAtan2(hy, hx))
					if c19CovCirc(float64(ll.Lng), wlng) > 1e-15 {
						d["want_lng"] = wlng
						viol(cas, "s2 LatLngFromPoint: the longitude is not the azimuth of the vector (modulo 2π)", d)
					}
					// round trip to the unit vector
					q := s2.PointFromLatLng(ll)
					n := math.Sqrt(n2)
					if math.Abs(q.X-x/n) > 4e-16 || math.Abs(q.Y-y/n) > 4e-16 || math.Abs(q.Z-z/n) > 4e-16 {
						d["back"] = []float64{q.X, q.Y, q.Z}
						viol(cas, "s2 PointFromLatLng(LatLngFromPoint(p)) is not p normalised", d)
					}
				})
			}
		}
	}
	nontriv += fromPoint
	c.Eval(int(evals))
	c.Nontrivial(int(nontriv))
	c.Count(sub+"/normalized_cases", int64(len(lats)*len(lngs)))
	c.Count(sub+"/distance_pairs", int64(len(pts)*len(pts)))
	c.Count(sub+"/from_point_vectors", fromPoint)
	c.Count(sub+"/from_point_at_a_pole", atPole)
	c.Count(sub+"/from_point_on_the_antimeridian", antimeridian)
}
