package checks

// Concurrent-use panels: for every property, its own operations issued by 2-3 goroutines at once.
//
// Two kinds per property (see util_fresh.go for the engine: every schedule up to the preemption bound,
// each execution in a new process, worker = the memory-instrumented binary):
//
//	<cxx>-concurrent-use   every goroutine works on inputs of its own, built inside the goroutine from
//	                       plain numbers, as the first use of golang/geo in the process: what is shared
//	                       is the library's package-level state (tables, lazily computed values, a
//	                       "last result" cache somebody might add);
//	<cxx>-shared-geometry  (properties about Loop / Polygon / ShapeIndex values) the goroutines query one
//	                       shared value, which the documentation allows for read-only queries.
//
// Oracle: every goroutine's answer equals the answer of the same call made alone (computed by the
// parent process), no panic, no deadlock, and no pair of conflicting accesses to any memory of package
// s2 that is not ordered by happens-before.

import (
	"bytes"
	"fmt"
	"strings"

	"github.com/golang/geo/r1"
	"github.com/golang/geo/r2"
	"github.com/golang/geo/s1"
	"github.com/golang/geo/s2"

	"verif/mc/core"
)

func pll(lat, lng float64) s2.Point { return s2.PointFromLatLng(s2.LatLngFromDegrees(lat, lng)) }

// threadVariants builds the three per-thread ops of a private-input panel from one body that takes
// the thread number (used only to vary the inputs).
func threadVariants(name string, body func(k int) string) func() []freshOp {
	return func() []freshOp {
		var ops []freshOp
		for k := 0; k < 3; k++ {
			k := k
			ops = append(ops, freshOp{fmt.Sprintf("%s [inputs %d]", name, k), func() string { return body(k) }})
		}
		return ops
	}
}

func regPanel(name string, ops func() []freshOp) {
	freshPanels[name] = &freshPanel{Name: name, Ops: ops}
}

func init() {
	f := func(k int) float64 { return float64(k) }

	regPanel("c02-concurrent-use", threadVariants("RobustSign / CompareDistances / OrderedCCW", func(k int) string {
		a, b := pll(10+f(k), 20), pll(-30, 40+3*f(k))
		mid := s2.Point{Vector: a.Add(b.Vector).Normalize()}
		anti := s2.Point{Vector: a.Mul(-1)}
		c := pll(50, -70+f(k))
		return fmt.Sprint(s2.RobustSign(a, b, mid), s2.RobustSign(a, anti, b), s2.RobustSign(a, b, c), s2.RobustSign(a, a, b), s2.Sign(a, b, c),
			s2.CompareDistances(mid, a, b), s2.CompareDistance(a, b, s1.ChordAngleFromAngle(s1.Angle(0.7))), s2.OrderedCCW(a, b, c, mid))
	}))

	regPanel("c03-concurrent-use", threadVariants("EdgeCrosser chain / CrossingSign / VertexCrossing", func(k int) string {
		a, b := pll(0, -10-f(k)), pll(0, 10+f(k))
		chain := []s2.Point{pll(5, -5), pll(-5, 0), pll(5, 5+f(k)), b, pll(-5, 12), a}
		cr := s2.NewChainEdgeCrosser(a, b, chain[0])
		var sb strings.Builder
		for _, p := range chain[1:] {
			fmt.Fprint(&sb, cr.ChainCrossingSign(p), ",")
		}
		cr.RestartAt(chain[0])
		for _, p := range chain[1:] {
			fmt.Fprint(&sb, cr.EdgeOrVertexChainCrossing(p), ",")
		}
		fmt.Fprint(&sb, s2.CrossingSign(a, b, chain[0], chain[1]), s2.VertexCrossing(a, b, b, chain[4]), s2.EdgeOrVertexCrossing(a, b, chain[2], b))
		return sb.String()
	}))

	regPanel("c04-concurrent-use", threadVariants("Loop / Polygon / ContainsPointQuery containment on private geometry", func(k int) string {
		ctr := pll(10+5*f(k), 20)
		big := s2.RegularLoop(ctr, 6*s1.Degree, 40)
		small := s2.RegularLoop(ctr, 2*s1.Degree, 8)
		hole := s2.RegularLoop(ctr, 1*s1.Degree, 36)
		pg := s2.PolygonFromLoops([]*s2.Loop{s2.RegularLoop(ctr, 6*s1.Degree, 40), hole})
		ix := s2.NewShapeIndex()
		ix.Add(pg)
		q := s2.NewContainsPointQuery(ix, s2.VertexModelSemiOpen)
		ps := []s2.Point{ctr, pll(10+5*f(k), 23), pll(-40, 100), big.Vertex(3)}
		var sb strings.Builder
		for _, p := range ps {
			fmt.Fprint(&sb, big.ContainsPoint(p), small.ContainsPoint(p), pg.ContainsPoint(p), q.Contains(p), ";")
		}
		big.Invert()
		fmt.Fprint(&sb, big.ContainsPoint(ctr), big.ContainsPoint(pll(-40, 100)))
		return sb.String()
	}))
	regPanel("c04-shared-geometry", func() []freshOp {
		ctr := pll(10, 20)
		l := s2.RegularLoop(ctr, 6*s1.Degree, 40)
		pg := s2.PolygonFromLoops([]*s2.Loop{s2.RegularLoop(ctr, 6*s1.Degree, 40), s2.RegularLoop(ctr, 1*s1.Degree, 36)})
		mk := func(ps ...s2.Point) func() string {
			return func() string {
				var sb strings.Builder
				for _, p := range ps {
					fmt.Fprint(&sb, l.ContainsPoint(p), pg.ContainsPoint(p), ";")
				}
				return sb.String()
			}
		}
		return []freshOp{
			{"shared loop+polygon ContainsPoint (centre, ring)", mk(ctr, pll(10, 23))},
			{"shared loop+polygon ContainsPoint (far, ring 2)", mk(pll(-40, 100), pll(13, 20))},
			{"shared loop+polygon ContainsPoint (vertex, outside near)", mk(l.Vertex(7), pll(10, 27))},
		}
	})

	regPanel("c05-concurrent-use", threadVariants("RegionCoverer coverings of private regions", func(k int) string {
		rc := &s2.RegionCoverer{MinLevel: 1, MaxLevel: 12, LevelMod: 1 + k%2, MaxCells: 6 + k}
		c := s2.CapFromCenterAngle(pll(35, 1+f(k)), 10*s1.Degree)
		r := s2.RectFromLatLng(s2.LatLngFromDegrees(30, -8)).AddPoint(s2.LatLngFromDegrees(50, 8+f(k)))
		l := s2.RegularLoop(pll(-20, 60+f(k)), 7*s1.Degree, 12)
		return fmt.Sprint(rc.Covering(c), rc.InteriorCovering(c), rc.FastCovering(c), rc.Covering(r), rc.InteriorCovering(r), rc.Covering(l), rc.InteriorCovering(l), c.CellUnionBound())
	}))

	regPanel("c06-concurrent-use", threadVariants("private index: ContainsPointQuery / CrossingEdgeQuery", func(k int) string {
		ix := s2.NewShapeIndex()
		pl := s2.Polyline{pll(-5, -5), pll(0, 1+f(k)), pll(5, -3), pll(9, 4)}
		ix.Add(&pl)
		ix.Add(s2.PolygonFromLoops([]*s2.Loop{s2.RegularLoop(pll(2, 2), 3*s1.Degree, 36)}))
		pv := s2.PointVector{pll(2, 2), pll(0, 1+f(k))}
		ix.Add(&pv)
		var sb strings.Builder
		for _, m := range []s2.VertexModel{s2.VertexModelOpen, s2.VertexModelSemiOpen, s2.VertexModelClosed} {
			q := s2.NewContainsPointQuery(ix, m)
			fmt.Fprint(&sb, q.Contains(pll(2, 2)), q.Contains(pll(0, 1+f(k))), len(q.ContainingShapes(pll(2, 3))), ";")
		}
		cq := s2.NewCrossingEdgeQuery(ix)
		fmt.Fprint(&sb, cq.Crossings(pll(-6, 0), pll(8, 0), ix.Shape(0), s2.CrossingTypeAll), cq.Crossings(pll(-6, 0), pll(8, 0), ix.Shape(1), s2.CrossingTypeInterior))
		return sb.String()
	}))
	regPanel("c06-shared-geometry", func() []freshOp {
		ix := s2.NewShapeIndex()
		pl := s2.Polyline{pll(-5, -5), pll(0, 1), pll(5, -3), pll(9, 4)}
		ix.Add(&pl)
		poly := s2.PolygonFromLoops([]*s2.Loop{s2.RegularLoop(pll(2, 2), 3*s1.Degree, 36)})
		ix.Add(poly)
		return []freshOp{
			{"shared unbuilt index: ContainsPointQuery", func() string {
				q := s2.NewContainsPointQuery(ix, s2.VertexModelSemiOpen)
				return fmt.Sprint(q.Contains(pll(2, 2)), q.Contains(pll(30, 30)), q.ShapeContains(poly, pll(2, 4)))
			}},
			{"shared unbuilt index: CrossingEdgeQuery", func() string {
				return fmt.Sprint(s2.NewCrossingEdgeQuery(ix).Crossings(pll(-6, 0), pll(8, 0), &pl, s2.CrossingTypeAll))
			}},
			{"shared unbuilt index: CrossingsEdgeMap + iterator", func() string {
				m := s2.NewCrossingEdgeQuery(ix).CrossingsEdgeMap(pll(2, -3), pll(2, 8), s2.CrossingTypeAll)
				n := 0
				for _, e := range m {
					n += len(e)
				}
				it := ix.Iterator()
				cells := 0
				for ; !it.Done(); it.Next() {
					cells++
				}
				return fmt.Sprint(n, cells)
			}},
		}
	})

	regPanel("c07-concurrent-use", threadVariants("Loop / Polygon relations on private geometry", func(k int) string {
		ctr := pll(-15, 120+f(k))
		a := s2.RegularLoop(ctr, 12*s1.Degree, 40)
		b := s2.RegularLoop(ctr, 4*s1.Degree, 36)
		c := s2.RegularLoop(pll(-15, 131+f(k)), 9*s1.Degree, 40)
		pa := s2.PolygonFromLoops([]*s2.Loop{s2.RegularLoop(ctr, 12*s1.Degree, 40), s2.RegularLoop(ctr, 2*s1.Degree, 34)})
		pb := s2.PolygonFromLoops([]*s2.Loop{s2.RegularLoop(ctr, 4*s1.Degree, 36)})
		return fmt.Sprint(a.Contains(b), b.Contains(a), a.Intersects(c), c.Contains(b), a.Contains(a), pa.Contains(pb), pa.Intersects(pb), pb.Contains(pa))
	}))
	regPanel("c07-shared-geometry", func() []freshOp {
		ctr := pll(-15, 120)
		a := s2.RegularLoop(ctr, 12*s1.Degree, 40)
		b := s2.RegularLoop(ctr, 4*s1.Degree, 36)
		c := s2.RegularLoop(pll(-15, 131), 9*s1.Degree, 40)
		return []freshOp{
			{"shared loops: A.Contains(B), A.Intersects(C)", func() string { return fmt.Sprint(a.Contains(b), a.Intersects(c)) }},
			{"shared loops: C.Intersects(A), B.Contains(A)", func() string { return fmt.Sprint(c.Intersects(a), b.Contains(a)) }},
			{"shared loops: C.Contains(B), A.Contains(C)", func() string { return fmt.Sprint(c.Contains(b), a.Contains(c)) }},
		}
	})

	regPanel("c08-concurrent-use", threadVariants("private index: closest / furthest edge queries with point, edge, cell and index targets", func(k int) string {
		ix := s2.NewShapeIndex()
		ix.Add(s2.PolygonFromLoops([]*s2.Loop{s2.RegularLoop(pll(0, 0), 5*s1.Degree, 40)}))
		pl := s2.Polyline{pll(-3, -8), pll(-2, -5+f(k)), pll(0, 7), pll(4, 9)}
		ix.Add(&pl)
		tix := s2.NewShapeIndex()
		tpl := s2.Polyline{pll(20, 30), pll(7, 12+f(k))}
		tix.Add(&tpl)
		cell := s2.CellFromCellID(s2.CellFromPoint(pll(4, 4.5+f(k))).ID().Parent(10))
		res := func(rs []s2.EdgeQueryResult) string {
			var s []string
			for _, r := range rs {
				s = append(s, fmt.Sprint(r.ShapeID(), "/", r.EdgeID(), "@", float64(r.Distance())))
			}
			return strings.Join(s, ",")
		}
		cq := s2.NewClosestEdgeQuery(ix, s2.NewClosestEdgeQueryOptions().MaxResults(3).IncludeInteriors(false))
		fq := s2.NewFurthestEdgeQuery(ix, s2.NewFurthestEdgeQueryOptions().MaxResults(2))
		return fmt.Sprint(res(cq.FindEdges(s2.NewMinDistanceToPointTarget(pll(2, 3+f(k))))), "|", res(cq.FindEdges(s2.NewMinDistanceToEdgeTarget(s2.Edge{V0: pll(9, 9), V1: pll(12, 14)}))), "|",
			res(cq.FindEdges(s2.NewMinDistanceToCellTarget(cell))), "|", res(cq.FindEdges(s2.NewMinDistanceToShapeIndexTarget(tix))), "|",
			res(fq.FindEdges(s2.NewMaxDistanceToPointTarget(pll(2, 3)))), "|", res(fq.FindEdges(s2.NewMaxDistanceToCellTarget(cell))))
	}))
	regPanel("c08-shared-geometry", func() []freshOp {
		ix := s2.NewShapeIndex()
		ix.Add(s2.PolygonFromLoops([]*s2.Loop{s2.RegularLoop(pll(0, 0), 5*s1.Degree, 40)}))
		pl := s2.Polyline{pll(-3, -8), pll(-2, -5), pll(0, 7), pll(4, 9)}
		ix.Add(&pl)
		mk := func(p s2.Point, lv int) func() string {
			return func() string {
				cq := s2.NewClosestEdgeQuery(ix, s2.NewClosestEdgeQueryOptions().MaxResults(2))
				cell := s2.CellFromCellID(s2.CellFromPoint(p).ID().Parent(lv))
				r1 := cq.FindEdges(s2.NewMinDistanceToPointTarget(p))
				r2 := cq.FindEdges(s2.NewMinDistanceToCellTarget(cell))
				var sb strings.Builder
				for _, r := range append(r1, r2...) {
					fmt.Fprint(&sb, r.ShapeID(), "/", r.EdgeID(), "@", float64(r.Distance()), ",")
				}
				return sb.String()
			}
		}
		return []freshOp{{"shared index: closest edges to point/cell A", mk(pll(2, 3), 9)}, {"shared index: closest edges to point/cell B", mk(pll(-7, 12), 11)}, {"shared index: closest edges to point/cell C", mk(pll(40, -60), 6)}}
	})

	regPanel("c09-concurrent-use", threadVariants("encode / decode of private values", func(k int) string {
		var pts []s2.Point
		base := s2.CellIDFromFacePosLevel(1+k, 0x123456789abcde>>3, 12+k)
		for j, id := 0, base; j < 70; j, id = j+1, id.Next().Next() {
			pts = append(pts, id.Point())
		}
		snapped := s2.LoopFromPoints(pts[:6])
		snapped.Normalize()
		var sb strings.Builder
		enc := func(name string, e func(*bytes.Buffer) error, d func(*bytes.Reader) error) {
			var buf bytes.Buffer
			err := e(&buf)
			err2 := d(bytes.NewReader(buf.Bytes()))
			fmt.Fprintf(&sb, "%s:%v,%v,%x;", name, err, err2, buf.Bytes())
		}
		pg := s2.PolygonFromLoops([]*s2.Loop{snapped})
		var pg2 s2.Polygon
		enc("polygon", func(b *bytes.Buffer) error { return pg.Encode(b) }, func(r *bytes.Reader) error { return pg2.Decode(r) })
		lp := s2.RegularLoop(pll(10, 10+f(k)), 3*s1.Degree, 9)
		var lp2 s2.Loop
		enc("loop", func(b *bytes.Buffer) error { return lp.Encode(b) }, func(r *bytes.Reader) error { return lp2.Decode(r) })
		cp := s2.CapFromCenterAngle(pll(1, 2+f(k)), 3*s1.Degree)
		var cp2 s2.Cap
		enc("cap", func(b *bytes.Buffer) error { return cp.Encode(b) }, func(r *bytes.Reader) error { return cp2.Decode(r) })
		cu := s2.CellUnion{base, base.Next().Parent(5)}
		var cu2 s2.CellUnion
		enc("cellunion", func(b *bytes.Buffer) error { return cu.Encode(b) }, func(r *bytes.Reader) error { return cu2.Decode(r) })
		pl := s2.Polyline(pts[:5])
		var pl2 s2.Polyline
		enc("polyline", func(b *bytes.Buffer) error { return pl.Encode(b) }, func(r *bytes.Reader) error { return pl2.Decode(r) })
		fmt.Fprint(&sb, pg2.NumEdges(), lp2.NumVertices(), cp2.Radius(), len(cu2), len(pl2))
		return sb.String()
	}))

	regPanel("c10-concurrent-use", threadVariants("bounds of private regions", func(k int) string {
		l := s2.RegularLoop(pll(80, 10+f(k)), 15*s1.Degree, 40) // contains the pole
		pl := s2.Polyline{pll(-5, 170), pll(3, -175+f(k)), pll(8, 178)}
		rb := s2.NewRectBounder()
		for _, p := range pl {
			rb.AddPoint(p)
		}
		h := s2.NewConvexHullQuery()
		h.AddPolyline(&pl)
		h.AddPoint(pll(0, 160+f(k)))
		hull := h.ConvexHull()
		cu := s2.CellUnion{s2.CellFromPoint(pll(1, 2+f(k))).ID().Parent(7)}
		return fmt.Sprint(l.RectBound(), l.CapBound(), pl.RectBound(), pl.CapBound(), rb.RectBound(), hull.NumVertices(), hull.RectBound(), h.CapBound(), cu.RectBound(), cu.CapBound(),
			s2.ExpandForSubregions(l.RectBound()), s2.CellFromCellID(cu[0]).RectBound(), s2.CellFromCellID(cu[0]).CapBound())
	}))

	regPanel("c11-concurrent-use", threadVariants("CellUnion algebra / CellIndex on private values", func(k int) string {
		base := s2.CellIDFromFacePosLevel(2+k, 0x0fedcba987654321>>4, 6)
		var a, b s2.CellUnion
		for j, id := 0, base.ChildBeginAtLevel(8); j < 20; j, id = j+1, id.Next() {
			a = append(a, id)
			if j%3 != 0 {
				b = append(b, id.Children()[j%4])
			}
		}
		a.Normalize()
		b.Normalize()
		u := s2.CellUnionFromUnion(a, b)
		x := s2.CellUnionFromIntersection(a, b)
		d := s2.CellUnionFromDifference(a, b)
		ci := &s2.CellIndex{}
		ci.AddCellUnion(a, 1)
		ci.AddCellUnion(b, 2)
		ci.Build()
		n := 0
		for it := s2.NewCellIndexRangeIterator(ci); !it.Done(); it.Next() {
			n++
		}
		return fmt.Sprint(a, b, u, x, d, a.Contains(b), a.Intersects(b), a.LeafCellsCovered(), u.LeafCellsCovered(), n, s2.CellUnionFromRange(base.RangeMin(), base.RangeMax().Next()))
	}))

	regPanel("c12-concurrent-use", threadVariants("Cell geometry and distances of private cells", func(k int) string {
		id := s2.CellFromPoint(pll(4+3*f(k), 4.5)).ID().Parent(8 + k)
		c := s2.CellFromCellID(id)
		o := s2.CellFromCellID(id.Next().Next().Parent(6))
		e0, e1 := pll(4, 3), pll(9, 6+f(k))
		ch, _ := c.Children()
		return fmt.Sprint(float64(c.Distance(e0)), float64(c.MaxDistance(e0)), float64(c.BoundaryDistance(e0)), float64(c.DistanceToEdge(e0, e1)), float64(c.MaxDistanceToEdge(e0, e1)),
			float64(c.DistanceToCell(o)), float64(c.MaxDistanceToCell(o)), c.RectBound(), c.CapBound(), c.ContainsPoint(e0), c.ContainsCell(ch[2]), c.IntersectsCell(o), ch[1].ID(),
			c.Vertex(2), c.Edge(1), c.ExactArea(), c.Center(), id.EdgeNeighbors(), id.VertexNeighbors(5))
	}))

	regPanel("c13-concurrent-use", threadVariants("private index: add / build / query / reset histories", func(k int) string {
		ix := s2.NewShapeIndex()
		a := s2.PolygonFromLoops([]*s2.Loop{s2.RegularLoop(pll(10, 10+f(k)), 8*s1.Degree, 40)})
		ix.Add(a)
		q := s2.NewContainsPointQuery(ix, s2.VertexModelSemiOpen)
		r1 := q.Contains(pll(10, 10+f(k)))
		pl := s2.Polyline{pll(0, 0), pll(20, 20+f(k))}
		ix.Add(&pl)
		ix.Build()
		eq := s2.NewClosestEdgeQuery(ix, s2.NewClosestEdgeQueryOptions())
		d1 := eq.Distance(s2.NewMinDistanceToPointTarget(pll(30, 30)))
		d2 := eq.Distance(s2.NewMinDistanceToPointTarget(pll(10, 10)))
		a.Invert()
		ix.Reset()
		ix.Add(a)
		return fmt.Sprint(r1, float64(d1), float64(d2), s2.NewContainsPointQuery(ix, s2.VertexModelSemiOpen).Contains(pll(-50, -100)), ix.Len(), ix.NumEdges())
	}))

	regPanel("c15-concurrent-use", threadVariants("decoding valid and damaged encodings", func(k int) string {
		lp := s2.RegularLoop(pll(10, 10+f(k)), 3*s1.Degree, 9)
		var buf bytes.Buffer
		lp.Encode(&buf)
		b := buf.Bytes()
		var sb strings.Builder
		for cut := len(b); cut >= 0; cut -= 1 + len(b)/12 {
			var l2 s2.Loop
			err := l2.Decode(bytes.NewReader(b[:cut]))
			fmt.Fprint(&sb, err == nil, ",")
			var pg s2.Polygon
			err = pg.Decode(bytes.NewReader(b[:cut]))
			fmt.Fprint(&sb, err == nil, ";")
		}
		bad := append([]byte(nil), b...)
		bad[len(bad)/2] ^= 0x5a
		var l3 s2.Loop
		fmt.Fprint(&sb, l3.Decode(bytes.NewReader(bad)) == nil)
		return sb.String()
	}))

	regPanel("c16-concurrent-use", threadVariants("Intersection of crossing edges (stable and exact paths)", func(k int) string {
		a0, a1 := pll(-1, -1-f(k)), pll(1, 1+f(k))
		b0, b1 := pll(-1, 1+f(k)), pll(1, -1-f(k))
		x := s2.Intersection(a0, a1, b0, b1)
		// a nearly parallel pair: the exact path
		c0, c1 := pll(0, 0), pll(0, 10)
		d0 := s2.Point{Vector: c0.Add(s2.Point{Vector: c0.Cross(c1.Vector)}.Mul(1e-15)).Normalize()}
		d1 := s2.Point{Vector: c1.Sub(s2.Point{Vector: c0.Cross(c1.Vector)}.Mul(1e-15)).Normalize()}
		y := s2.Intersection(c0, c1, d0, d1)
		return fmt.Sprint(x, s2.Intersection(b0, b1, a0, a1) == x, y, s2.Intersection(d1, d0, c1, c0) == y)
	}))

	regPanel("c17-concurrent-use", threadVariants("edge distance / projection / interpolation", func(k int) string {
		a, b := pll(0, -40), pll(0, 40+f(k))
		x := pll(1+f(k), 5)
		d, _ := s2.UpdateMinDistance(x, a, b, s1.InfChordAngle())
		md, _ := s2.UpdateMaxDistance(x, a, b, s1.NegativeChordAngle)
		p0, p1 := s2.EdgePairClosestPoints(a, b, pll(1, 0), pll(2, 5+f(k)))
		pl := s2.Polyline{a, pll(5, 0), b}
		pp, nv := pl.Project(x)
		return fmt.Sprint(float64(d), float64(md), s2.DistanceFromSegment(x, a, b), s2.Project(x, a, b), s2.Interpolate(0.3, a, b), s2.DistanceFraction(s2.Interpolate(0.3, a, b), a, b), p0, p1, pp, nv, pl.Length())
	}))

	regPanel("c18-concurrent-use", threadVariants("area / turning angle / centroid of private loops and polygons", func(k int) string {
		l := s2.RegularLoop(pll(20, 30+f(k)), 10*s1.Degree, 20+k)
		sl := s2.LoopFromPoints([]s2.Point{pll(0, 0), pll(0, 40+f(k)), pll(1e-9, 20)})
		pg := s2.PolygonFromLoops([]*s2.Loop{s2.RegularLoop(pll(20, 30), 10*s1.Degree, 20), s2.RegularLoop(pll(20, 30), 2*s1.Degree, 10)})
		return fmt.Sprint(l.Area(), l.TurningAngle(), l.Centroid(), l.IsNormalized(), sl.Area(), sl.TurningAngle(), pg.Area(), pg.Centroid(),
			s2.PointArea(pll(0, 0), pll(0, 90), pll(90, 0)), s2.GirardArea(pll(0, 0), pll(0, 1), pll(1, 0)), s2.TrueCentroid(pll(0, 0), pll(0, 90), pll(90, 0)))
	}))

	regPanel("c19-concurrent-use", threadVariants("interval / rectangle / cap algebra", func(k int) string {
		a := s1.IntervalFromEndpoints(3, -3+0.1*f(k))
		b := s1.IntervalFromEndpoints(-1, 2)
		r := r1.Interval{Lo: 0, Hi: 1 + f(k)}
		rr := r2.RectFromPoints(r2.Point{X: 0, Y: 0}, r2.Point{X: 1 + f(k), Y: 2})
		ra := s2.RectFromLatLng(s2.LatLngFromDegrees(10, 170)).AddPoint(s2.LatLngFromDegrees(20, -170+f(k)))
		rb := s2.RectFromLatLng(s2.LatLngFromDegrees(15, 175)).AddPoint(s2.LatLngFromDegrees(40, 179))
		ca := s2.CapFromCenterAngle(pll(10, 10), s1.Angle(0.3+0.1*f(k)))
		cb := s2.CapFromCenterAngle(pll(20, 20), 0.2)
		return fmt.Sprint(a.Union(b), a.Intersection(b), a.Contains(3.1), a.Expanded(0.5), a.Complement(), r.Union(r1.Interval{Lo: 3, Hi: 4}), r.Expanded(1), rr.Expanded(r2.Point{X: 1, Y: 1}), rr.ContainsPoint(r2.Point{X: 1, Y: 1}),
			ra.Union(rb), ra.Intersection(rb), ra.Intersects(rb), ra.Contains(rb), ca.Union(cb), ca.Intersects(cb), ca.Contains(cb), ca.Expanded(0.1), ca.Complement(), ca.AddPoint(pll(50, 50)))
	}))

	regPanel("c20-concurrent-use", threadVariants("tessellation / subsampling / snapping", func(k int) string {
		var sb strings.Builder
		for _, proj := range []s2.Projection{s2.NewPlateCarreeProjection(180), s2.NewMercatorProjection(180)} {
			t := s2.NewEdgeTessellator(proj, s1.Angle(0.01+0.005*f(k)))
			pts := t.AppendProjected(pll(10, -120), pll(60, 100+f(k)), nil)
			back := t.AppendUnprojected(r2.Point{X: -170, Y: 10}, r2.Point{X: 150 + f(k), Y: 40}, nil)
			fmt.Fprint(&sb, len(pts), pts[len(pts)/2], len(back), back[len(back)/2], ";")
		}
		pl := s2.Polyline{pll(0, 0), pll(0.001, 1), pll(0, 2), pll(1+f(k), 3), pll(0, 4)}
		fmt.Fprint(&sb, pl.SubsampleVertices(s1.Angle(0.01)), s2.NewCellIDSnapper().SnapPoint(pll(1.2345, 6.789+f(k))), s2.NewIntLatLngSnapper(5).SnapPoint(pll(1.2345, 6.789)))
		return sb.String()
	}))
}

// RunWithConcurrentUse runs a property's check and then, unless a single case is being replayed, the
// property's concurrent-use panels.
func RunWithConcurrentUse(ck *Check, c *core.Ctx) {
	const sub = "concurrent-use"
	if c.OnlySub == sub {
		freshReplay(c, sub)
		return
	}
	ck.Run(c)
	if c.OnlySub != "" {
		return
	}
	lc := strings.ToLower(c.Prop)
	var table []freshStats
	for _, name := range []string{lc + "-concurrent-use", lc + "-shared-geometry"} {
		p := freshPanels[name]
		if p == nil {
			continue
		}
		// the bound is chosen from the size of the panel (scheduling points of one execution, measured
		// by the bound-0 exploration, which is a function of the code only): executions grow like
		// points^bound
		capExec := int64(core.Pick(c, 6000, 60000))
		probe := freshExplore(c, sub, name, 2, 0, capExec)
		b2, b3 := core.Pick(c, 2, 3), core.Pick(c, 1, 2)
		switch {
		case probe.MaxPoints > 1500:
			b2, b3 = core.Pick(c, 0, 1), 0
		case probe.MaxPoints > 120:
			b2, b3 = 1, core.Pick(c, 0, 1)
		case probe.MaxPoints > 30:
			b2, b3 = core.Pick(c, 1, 2), core.Pick(c, 0, 1)
		}
		table = append(table, freshExplore(c, sub, name, 2, b2, capExec))
		table = append(table, freshExplore(c, sub, name, 3, b3, capExec))
	}
	if len(table) > 0 {
		c.Note("concurrent_use_fresh_process_exploration", table)
	}
}
