package checks

import (
	"github.com/golang/geo/s2"

	"verif/mc/core"
)

// Sub-check "hull-nested-polygons": ConvexHullQuery.AddPolygon of multi-shell polygons in which shells
// other than the last one (in the polygon's depth-first loop order) have holes and islands
// (util_nested.go), given in several loop orders, also after Invert twice.  The hull must be convex
// and contain (or have as vertex) every vertex of every loop of the polygon — the existing hull
// oracle c10CheckHull — and its bounds must contain those vertices.
func init() {
	ck := Registry["C10"]
	run := ck.Run
	ck.Run = func(c *core.Ctx) {
		run(c)
		c10HullNestedPolygons(c)
	}
}

func c10HullNestedPolygons(c *core.Ctx) {
	sub := "hull-nested-polygons"
	st := &c10Stats{}
	fams := nestedFamilies(core.Pick(c, []int{4, 12}, []int{3, 4, 12, 36}))
	var n int64
	for fi, fm := range fams {
		k := len(fm.Loops())
		for oi, ord := range loopOrders(k) {
			for variant := 0; variant < 2; variant++ {
				cas := []int{fi, oi, variant}
				if c.Skip(sub, cas...) {
					continue
				}
				detail := func() any {
					return map[string]any{"family": fm.Name, "loop_order": ord, "inverted_twice_first": variant == 1}
				}
				c.Guard(sub, cas, detail, func() {
					base := fm.Loops()
					var in []*s2.Loop
					var pts []s2.Point
					for _, i := range ord {
						in = append(in, base[i])
					}
					for _, l := range base {
						pts = append(pts, l.Vertices()...)
					}
					pts = append([]s2.Point(nil), pts...)
					p := s2.PolygonFromLoops(in)
					if variant == 1 {
						p.Invert()
						p.Invert()
					}
					q := s2.NewConvexHullQuery()
					q.AddPolygon(p)
					n++
					c10CheckHull(c, sub, cas, pts, q.ConvexHull(), st, "AddPolygon of a multi-shell polygon with nested loops under a shell that is not the last")
				})
			}
		}
	}
	c.Eval(int(n))
	c.Count(sub+"/polygons", n)
}
