package checks

import (
	"fmt"

	"github.com/golang/geo/s2"

	"verif/mc/core"
	"verif/mc/lattice"
	"verif/mc/refmodel"
)

// C04 — point containment is a crossing parity and partitions the sphere.

func init() {
	Registry["C04"] = &Check{Level: "exploration", QuickBudget: 200, ThoroughBudget: 1500, Run: runC04}
}

type c04Tiling struct {
	name  string
	tiles []lattice.NamedLoop
}

func c04Tilings(c *core.Ctx) []c04Tiling {
	ts := []c04Tiling{
		{"faces", lattice.CellLoops(0)},
		{"cells-level-1", lattice.CellLoops(1)},
		{"cells-level-2", lattice.CellLoops(2)},
		{"wedges-3x42", lattice.Wedges(3, 20)},
		{"wedges-4x42", lattice.Wedges(4, 20)},
		{"wedges-7x66", lattice.Wedges(7, 32)},
	}
	ts = append(ts, c04Tiling{"cells-level-3", lattice.CellLoops(3)}, c04Tiling{"wedges-5x102", lattice.Wedges(5, 50)})
	if !c.Quick() {
		ts = append(ts, c04Tiling{"cells-level-4", lattice.CellLoops(4)}, c04Tiling{"wedges-9x42", lattice.Wedges(9, 20)}, c04Tiling{"wedges-2x82", lattice.Wedges(2, 40)})
	}
	return ts
}

func c04Catalogue(c *core.Ctx) []lattice.NamedLoop {
	ns := core.Pick(c, []int{3, 4, 8, 32, 33, 40, 64}, []int{3, 4, 5, 8, 16, 31, 32, 33, 34, 40, 64, 100, 200})
	centres := core.Pick(c, []string{"face-centre", "face-edge", "cube-corner", "north-pole", "generic"}, []string{"face-centre", "face-edge", "cube-corner", "north-pole", "generic", "south-ish"})
	radii := core.Pick(c, []float64{1e-7, 1e-3, 0.5, 1.5707963267948966 - 1e-3, 2}, []float64{1e-9, 1e-7, 1e-5, 1e-3, 0.1, 1, 1.5707963267948966 - 1e-3, 1.5707963267948966, 1.5707963267948966 + 1e-3, 2, 3})
	cat := lattice.RegularLoops(ns, centres, radii)
	cat = append(cat, lattice.Wedges(4, 20)[:2]...)
	cat = append(cat, lattice.CellLoops(1)[:6]...)
	return cat
}

func runC04(c *core.Ctx) {
	c.Rule = "(a) for every tiling (six faces; all cells of levels 1-2(3); 3/4/5/7 meridian wedges with 42-102 vertices; every catalogue loop with its inverse; every catalogue polygon with its complement) every probe (all tile vertices, edge mid/third points, 1-ulp neighbours of vertices, structural points) must be contained by exactly one tile; (a') the vertex rule on every cyclic ray configuration; (b) on every catalogue loop and probe the brute-force path, ContainsPoint before and after the index exists, ContainsPointQuery(SemiOpen) and the one-loop Polygon must agree with the exact crossing-parity reference; (c) containsCenter of every index cell equals the reference at the cell centre; non-trivial = probes that are a vertex of, or lie within 1e-9 of an edge of, the shape asked"
	c.Assume = []string{
		"reference containment = parity of exact edge crossings from the fixed origin with the documented vertex rule (refmodel)",
		"vertex counts are explored below and above the 32-vertex brute-force threshold, not at 10^4 (DESIGN L2)",
	}
	structural := lattice.PStruct(core.Pick(c, 1, 2))
	// (a) tilings
	for _, t := range c04Tilings(c) {
		t := t
		loops := make([]*s2.Loop, len(t.tiles))
		for i, nl := range t.tiles {
			loops[i] = nl.Make()
		}
		var probes []s2.Point
		for i, l := range loops {
			ulp := 0
			if i < 6 {
				ulp = 2
			}
			probes = append(probes, lattice.LoopProbes(l, ulp)...)
		}
		probes = append(probes, structural...)
		probes = lattice.Dedup(probes)
		for pass := 0; pass < 2; pass++ { // pass 0: before any index exists (fresh loops); pass 1: after
			if pass == 1 {
				for _, l := range loops {
					l.VerifIndex().Build()
				}
			}
			sub := fmt.Sprintf("tiling/%s/pass%d", t.name, pass)
			c.ParallelFor(len(probes), func(pi int) {
				if c.Skip(sub, pi) {
					return
				}
				p := probes[pi]
				c.Guard(sub, []int{pi}, func() any { return map[string]any{"p": ptStr(p)} }, func() {
					n := 0
					var who []string
					for i, l := range loops {
						var in bool
						if pass == 0 {
							in = l.VerifBruteForceContainsPoint(p) // never touches the index, safe concurrently
						} else {
							in = l.ContainsPoint(p)
						}
						if in {
							n++
							who = append(who, t.tiles[i].Name)
						}
					}
					if n != 1 {
						c.Violate("tiling", "wrong-answer", fmt.Sprintf("a point is contained by %d tiles of a tiling of the sphere (tiling %s)", n, t.name), []int{pi}, map[string]any{"p": ptStr(p), "tiles": who, "pass": pass})
					}
				})
			})
			c.Eval(len(probes) * len(loops))
			c.Nontrivial(len(probes))
			c.Count("tiling/probes", int64(len(probes)))
		}
	}
	c.Sample(map[string]any{"sub": "tiling", "tiling": "cells-level-1", "probe": ptStr(structural[3])})

	cat := c04Catalogue(c)
	c.Note("catalogue_loops", len(cat))
	// (a, cont.) loop + inverse, (b) path agreement, (c) containsCenter
	c.ParallelFor(len(cat), func(li int) {
		if c.Expired() {
			return
		}
		nl := cat[li]
		l := nl.Make()
		inv := nl.Make()
		inv.Invert()
		ref := refmodel.LoopOf(l)
		refInv := refmodel.LoopOf(inv)
		probes := lattice.LoopProbes(l, 3)
		probes = append(probes, structural[:len(structural)/3]...)
		poly := s2.PolygonFromLoops([]*s2.Loop{nl.Make()})
		polyInv := s2.PolygonFromLoops([]*s2.Loop{nl.Make()})
		polyInv.Invert()
		// history variants (the property says "before or after the index exists"): a loop whose index was
		// forced and used and which was then inverted must answer like its inverse
		invAfterUse := nl.Make()
		invAfterUse.VerifIndex().Build()
		_ = invAfterUse.ContainsPoint(probes[0])
		invAfterUse.Invert()
		twiceInverted := nl.Make()
		_ = twiceInverted.ContainsPoint(probes[0])
		twiceInverted.Invert()
		_ = twiceInverted.ContainsPoint(probes[len(probes)/2])
		twiceInverted.Invert()
		// ... and the very first query after the inversion matters (it is answered before anything has
		// rebuilt the index): a fresh history per probe for a few probes far from the loop
		for k := 0; k < 6 && k < len(structural); k++ {
			p := structural[(k*37+li)%len(structural)]
			h := nl.Make()
			h.VerifIndex().Build()
			_ = h.ContainsPoint(probes[0])
			h.Invert()
			if got := h.ContainsPoint(p); got != refInv.Contains(p) {
				c.Violate("paths", "wrong-answer", "the first query after inverting a loop whose index had been built and used differs from the exact parity of the inverse loop", []int{li, -1 - k}, map[string]any{"loop": nl.Name, "p": ptStr(p)})
			}
		}
		fresh := nl.Make() // never indexed explicitly; ContainsPoint may build its index lazily
		built := nl.Make()
		built.VerifIndex().Build()
		ix := s2.NewShapeIndex()
		ixLoop := nl.Make()
		ix.Add(ixLoop)
		q := s2.NewContainsPointQuery(ix, s2.VertexModelSemiOpen)
		var evals, nontriv int64
		for pi, p := range probes {
			if c.Skip("paths", li, pi) {
				continue
			}
			evals++
			cas := []int{li, pi}
			detail := func() any { return map[string]any{"loop": nl.Name, "p": ptStr(p)} }
			c.Guard("paths", cas, detail, func() {
				want := ref.Contains(p)
				if wi := refInv.Contains(p); wi == want {
					c.Violate("reference", "wrong-answer", "harness: the reference model says a loop and its inverse both (or neither) contain a point", cas, detail())
					return
				}
				check := func(path string, got bool) {
					if got != want {
						c.Violate("paths", "wrong-answer", fmt.Sprintf("%s differs from the exact crossing parity", path), cas, detail())
					}
				}
				check("Loop.bruteForceContainsPoint", l.VerifBruteForceContainsPoint(p))
				check("Loop.ContainsPoint (index not forced)", fresh.ContainsPoint(p))
				check("Loop.ContainsPoint (index built)", built.ContainsPoint(p))
				check("ContainsPointQuery(SemiOpen).Contains", q.Contains(p))
				check("ContainsPointQuery(SemiOpen).ShapeContains", q.ShapeContains(ixLoop, p))
				check("one-loop Polygon.ContainsPoint", poly.ContainsPoint(p))
				check("containsBruteForce(shape)", s2.VerifContainsBruteForce(l, p))
				if cs := q.ContainingShapes(p); (len(cs) == 1) != want {
					c.Violate("paths", "wrong-answer", "ContainsPointQuery.ContainingShapes differs from the exact crossing parity", cas, detail())
				}
				// loop and inverse, polygon and complement: exactly one contains p
				if invAfterUse.ContainsPoint(p) == want {
					c.Violate("paths", "wrong-answer", "a loop inverted after its index had been built and used does not answer like the inverse loop", cas, detail())
				}
				if twiceInverted.ContainsPoint(p) != want {
					c.Violate("paths", "wrong-answer", "a loop inverted twice (with queries in between) does not answer like the original loop", cas, detail())
				}
				if inv.ContainsPoint(p) == want {
					c.Violate("tiling", "wrong-answer", "a loop and its inverse do not contain a point exactly once", cas, detail())
				}
				if polyInv.ContainsPoint(p) == want {
					c.Violate("tiling", "wrong-answer", "a polygon and its complement do not contain a point exactly once", cas, detail())
				}
				if pi < 3*l.NumVertices() {
					nontriv++
				}
			})
		}
		// (c) containsCenter of every index cell
		dump := built.VerifIndex().VerifIndexDump()
		for ci, cell := range dump.Cells {
			evals++
			ctr := cell.ID.Point()
			want := ref.Contains(ctr)
			got := false
			for _, sh := range cell.Shapes {
				if sh.ShapeID == 0 {
					got = sh.ContainsCenter
				}
			}
			if got != want {
				c.Violate("contains-center", "wrong-answer", "containsCenter of an index cell differs from the exact containment of the cell centre", []int{li, ci}, map[string]any{"loop": nl.Name, "cell": cell.ID.String()})
			}
		}
		c.Count("index_cells_checked", int64(len(dump.Cells)))
		c.Eval(int(evals))
		c.Nontrivial(int(nontriv))
	})
	if c.Expired() {
		c.CapHit("catalogue sweep: wall budget reached")
	}
	c.Sample(map[string]any{"sub": "paths", "loop": cat[0].Name})

	c04Polygons(c, structural)
	c04VertexRule(c)
}

// c04Polygons: polygons with holes / several shells and their complements.
func c04Polygons(c *core.Ctx, structural []s2.Point) {
	type np struct {
		name string
		mk   func() *s2.Polygon
	}
	ctr := lattice.LL(20, 30)
	var polys []np
	for _, n := range core.Pick(c, []int{8, 40}, []int{4, 8, 33, 40, 64}) {
		n := n
		polys = append(polys,
			np{fmt.Sprintf("shell+hole(n=%d)", n), func() *s2.Polygon {
				return s2.PolygonFromLoops([]*s2.Loop{s2.RegularLoop(ctr, lattice.Deg(10), n), s2.RegularLoop(ctr, lattice.Deg(4), n)})
			}},
			np{fmt.Sprintf("nested-depth-4(n=%d)", n), func() *s2.Polygon {
				return s2.PolygonFromLoops([]*s2.Loop{s2.RegularLoop(ctr, lattice.Deg(20), n), s2.RegularLoop(ctr, lattice.Deg(15), n), s2.RegularLoop(ctr, lattice.Deg(10), n), s2.RegularLoop(ctr, lattice.Deg(5), n)})
			}},
			np{fmt.Sprintf("two-shells(n=%d)", n), func() *s2.Polygon {
				return s2.PolygonFromLoops([]*s2.Loop{s2.RegularLoop(ctr, lattice.Deg(5), n), s2.RegularLoop(lattice.LL(-40, 100), lattice.Deg(8), n)})
			}},
		)
	}
	polys = append(polys,
		np{"13-islands", func() *s2.Polygon {
			var ls []*s2.Loop
			for i := 0; i < 13; i++ {
				ls = append(ls, s2.RegularLoop(lattice.LL(-60+10*float64(i), 25*float64(i)-150), lattice.Deg(3), 5))
			}
			return s2.PolygonFromLoops(ls)
		}},
		np{"shared-vertex-cells", func() *s2.Polygon {
			// two cells that touch at one corner only (diagonal neighbours): shared vertex
			f := s2.CellIDFromFace(2)
			a := f.Children()[0]
			cc := f.Children()[2]
			return s2.PolygonFromLoops([]*s2.Loop{s2.LoopFromCell(s2.CellFromCellID(a)), s2.LoopFromCell(s2.CellFromCellID(cc))})
		}},
		np{"empty", func() *s2.Polygon { return s2.PolygonFromLoops(nil) }},
		np{"full", func() *s2.Polygon { return s2.FullPolygon() }},
	)
	c.ParallelFor(len(polys), func(k int) {
		p := polys[k].mk()
		comp := polys[k].mk()
		comp.Invert()
		var refs []*refmodel.Loop
		for _, l := range p.Loops() {
			refs = append(refs, refmodel.LoopOf(l))
		}
		var probes []s2.Point
		for _, l := range p.Loops() {
			if l.NumVertices() >= 3 {
				probes = append(probes, lattice.LoopProbes(l, 2)...)
			}
		}
		probes = append(probes, structural[:len(structural)/4]...)
		ix := s2.NewShapeIndex()
		pShape := polys[k].mk()
		ix.Add(pShape)
		q := s2.NewContainsPointQuery(ix, s2.VertexModelSemiOpen)
		var evals int64
		for pi, pt := range probes {
			if c.Skip("polygons", k, pi) {
				continue
			}
			evals++
			cas := []int{k, pi}
			detail := func() any { return map[string]any{"polygon": polys[k].name, "p": ptStr(pt)} }
			c.Guard("polygons", cas, detail, func() {
				want := refmodel.PolygonContains(refs, pt)
				if p.IsFull() {
					want = true
				}
				if got := p.ContainsPoint(pt); got != want {
					c.Violate("polygons", "wrong-answer", "Polygon.ContainsPoint differs from the XOR of exact loop containments", cas, detail())
				}
				if got := q.Contains(pt); got != want {
					c.Violate("polygons", "wrong-answer", "ContainsPointQuery on an indexed polygon differs from the XOR of exact loop containments", cas, detail())
				}
				if comp.ContainsPoint(pt) == want {
					c.Violate("tiling", "wrong-answer", "a polygon and its complement do not contain a point exactly once", cas, detail())
				}
			})
		}
		c.Eval(int(evals))
		c.Nontrivial(int(evals))
	})
	c.Count("polygons", int64(len(polys)))
}

// c04VertexRule: for every centre b and every cyclically ordered set of 3-6
// rays around b, AngleContainsVertex(v[i+1], b, v[i]) holds for exactly one i.
func c04VertexRule(c *core.Ctx) {
	centres := lattice.Centres()
	var total int64
	for name, b := range centres {
		// 8 directions around b, including the reference direction itself and its neighbours
		ref := s2.Ortho(b)
		frame := s2.Point{Vector: b.Cross(ref.Vector).Normalize()}
		var rays []s2.Point
		for k := 0; k < 8; k++ {
			ang := float64(k) * 3.141592653589793 / 4
			dir := ref.Mul(cosf(ang)).Add(frame.Mul(sinf(ang)))
			rays = append(rays, s2.Point{Vector: b.Add(dir.Mul(0.1)).Normalize()})
		}
		rays[0] = ref // exactly the reference direction
		rays = append(rays, lattice.PUlp(ref, 1)[0], lattice.PUlp(ref, 1)[26])
		// order all rays CCW around b with the exact reference, starting anywhere
		n := len(rays)
		order := make([]int, n)
		for i := range order {
			order[i] = i
		}
		// insertion sort by "CCW from rays[0]" using exact OrderedCCW
		less := func(i, j int) bool { // ray i comes before ray j when sweeping CCW from rays[0]
			if i == 0 {
				return true
			}
			if j == 0 {
				return false
			}
			return refmodel.OrderedCCW(rays[0], rays[i], rays[j], b) && rays[i] != rays[j]
		}
		for i := 1; i < n; i++ {
			for j := i; j > 0 && less(order[j], order[j-1]); j-- {
				order[j], order[j-1] = order[j-1], order[j]
			}
		}
		// all subsets of size 3..6 of the ordered rays
		for mask := 0; mask < 1<<uint(n); mask++ {
			var v []s2.Point
			for k := 0; k < n; k++ {
				if mask&(1<<uint(k)) != 0 {
					v = append(v, rays[order[k]])
				}
			}
			if len(v) < 3 || len(v) > 6 {
				continue
			}
			total++
			cnt := 0
			for i := range v {
				if s2.AngleContainsVertex(v[(i+1)%len(v)], b, v[i]) {
					cnt++
				}
			}
			if cnt != 1 {
				c.Violate("vertex-rule", "wrong-answer", fmt.Sprintf("for rays ordered CCW around a vertex, AngleContainsVertex(v[i+1], b, v[i]) holds for %d values of i instead of exactly one", cnt), nil, map[string]any{"centre": name, "rays": ptsStr(v)})
			}
			q := s2.NewContainsVertexQuery(b)
			for i := range v {
				q.AddEdge(v[(i+1)%len(v)], -1)
				q.AddEdge(v[i], 1)
			}
			_ = q
		}
	}
	c.Eval(int(total))
	c.Nontrivial(int(total))
	c.Count("vertex_rule/ray_configurations", total)
}
