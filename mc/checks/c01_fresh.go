package checks

import (
	"fmt"
	"strings"

	"github.com/golang/geo/s2"

	"verif/mc/core"
)

// Sub-check "first-use": the cell-id conversions of C01 as the first use of golang/geo in a new
// process, issued by 2-3 goroutines at once (see util_fresh.go).  Every schedule up to the preemption
// bound is executed, each in its own process; every answer must be the serial answer: a valid leaf
// that contains its point together with all its ancestors, the same neighbours, the same face/i/j.
func init() {
	freshPanels["c01-first-use"] = &freshPanel{Name: "c01-first-use", Ops: func() []freshOp {
		// only plain numbers here: nothing of golang/geo may run before the controlled execution
		conv := func(lat, lng float64) func() string {
			return func() string {
				ll := s2.LatLngFromDegrees(lat, lng)
				p := s2.PointFromLatLng(ll)
				id := s2.CellIDFromLatLng(ll)
				var sb strings.Builder
				fmt.Fprintf(&sb, "%x valid=%v leaf=%v", uint64(id), id.IsValid(), id.IsLeaf())
				ok := true
				for lv := 0; lv <= 30; lv++ {
					if !s2.CellFromCellID(id.Parent(lv)).ContainsPoint(p) {
						ok = false
					}
				}
				fmt.Fprintf(&sb, " ancestors-contain=%v again=%x frompoint=%x", ok, uint64(s2.CellIDFromLatLng(ll)), uint64(s2.CellFromPoint(p).ID()))
				return sb.String()
			}
		}
		nbrs := func(tok string, lv int) func() string {
			return func() string {
				id := s2.CellIDFromToken(tok)
				var sb strings.Builder
				cell := s2.CellFromCellID(id)
				fmt.Fprintf(&sb, "face=%d centre=%v v0=%v v2=%v edge=", id.Face(), id.Point(), cell.Vertex(0), cell.Vertex(2))
				for _, n := range id.EdgeNeighbors() {
					sb.WriteString(n.ToToken() + ",")
				}
				sb.WriteString(" vertex=")
				for _, n := range id.VertexNeighbors(lv) {
					sb.WriteString(n.ToToken() + ",")
				}
				sb.WriteString(" all=")
				for _, n := range id.AllNeighbors(id.Level()) {
					sb.WriteString(n.ToToken() + ",")
				}
				fmt.Fprintf(&sb, " latlng=%v bound=%v", id.LatLng(), s2.CellFromCellID(id).RectBound())
				return sb.String()
			}
		}
		return []freshOp{
			{"CellIDFromLatLng(-75,-170) + 31 ancestors", conv(-75, -170)},
			{"EdgeNeighbors/VertexNeighbors/AllNeighbors of a level-12 cell at a face edge", nbrs("1000000b", 5)},
			{"CellIDFromLatLng(35.26,45) at a cube corner + 31 ancestors", conv(35.264389682754654, 45)},
		}
	}}
}

func c01FirstUse(c *core.Ctx) {
	sub := "first-use"
	var table []freshStats
	table = append(table, freshExplore(c, sub, "c01-first-use", 2, core.Pick(c, 2, 4), 20000))
	table = append(table, freshExplore(c, sub, "c01-first-use", 3, core.Pick(c, 1, 2), 20000))
	c.Note("first_use_fresh_process_exploration", table)
}
