package checks

import (
	"math"
	"sort"

	"verif/mc/core"
	"verif/mc/lattice"
)

// The boundary-hunting point lattice of C01 (unit vectors whose uv quotient is a chosen number of
// ulps from a cell boundary); shared with C12's ancestor-containment sub-check.

func c01HuntBoundaries(c *core.Ctx) []int {
	set := map[int]bool{}
	L := core.Pick(c, 11, 13)
	for k := 0; k <= 1<<uint(L); k++ {
		set[k<<uint(30-L)] = true
	}
	M := core.Pick(c, 128, 512)
	for _, u := range []float64{0, 0.25, -0.25, 1 / 3., -1 / 3., 0.5, -0.5, 1, -1} {
		var s float64
		if u >= 0 {
			s = 0.5 * math.Sqrt(1+3*u)
		} else {
			s = 1 - 0.5*math.Sqrt(1-3*u)
		}
		b0 := int(math.Round(s * (1 << 30)))
		for m := -M; m <= M; m++ {
			set[b0+m] = true
		}
	}
	K := core.Pick(c, 2, 5)
	for l := 4; l <= 30; l++ {
		for k := 1; k <= K; k++ {
			set[k<<uint(30-l)] = true
			set[1<<30-k<<uint(30-l)] = true
			set[1<<29+k<<uint(30-l)] = true
			set[3<<28+k<<uint(30-l)] = true
			set[1<<28+k<<uint(30-l)] = true
		}
	}
	var out []int
	for i := range set {
		if i >= 0 && i <= 1<<30 {
			out = append(out, i)
		}
	}
	sort.Ints(out)
	return out
}

const c01Eps = 2.220446049250313e-16 // dblEpsilon, the documented margin of Cell.ContainsPoint

// c01Targets returns the u-values examined next to the boundary value ub: the
// floats within D ulps, and the first three floats outside ub±dblEpsilon (the
// tightest values the documented margin no longer covers).
func c01Targets(ub float64, D int) []float64 {
	var t []float64
	for d := -D; d <= D; d++ {
		t = append(t, lattice.Ulp(ub, d))
	}
	for _, side := range []float64{-1, 1} {
		u := ub + side*c01Eps
		for k := 0; k < 3; k++ {
			u = math.Nextafter(u, side*2)
			t = append(t, u)
		}
	}
	sort.Float64s(t)
	out := t[:0]
	for i, u := range t {
		if u >= -1 && u <= 1 && (i == 0 || u != t[i-1]) {
			out = append(out, u)
		}
	}
	return out
}

// c01UnitWithRatio returns unit vectors (x,y,z) in face coordinates (w=x) whose
// float quotient y/x is exactly u and whose z/x is (about) w: x is taken within
// 1 ulp of 1/sqrt(1+u²+w²), y = fl(u·x).
func c01UnitWithRatio(u, w float64, max int) [][3]float64 {
	var out [][3]float64
	x0 := 1 / math.Sqrt(1+u*u+w*w)
	for _, k := range []int{0, -1, 1, -2, 2} {
		x := lattice.Ulp(x0, k)
		y := u * x
		if y/x == u {
			out = append(out, [3]float64{y, w * x, x})
			if len(out) >= max {
				break
			}
		}
	}
	return out
}

func c01ST2UV(s float64) float64 {
	if s >= 0.5 {
		return (1 / 3.) * (4*s*s - 1)
	}
	return (1 / 3.) * (1 - 4*(1-s)*(1-s))
}
