package checks

import (
	"fmt"
	"math"

	"github.com/golang/geo/r1"
	"github.com/golang/geo/r2"
	"github.com/golang/geo/s1"
	"github.com/golang/geo/s2"

	"verif/mc/core"
)

// A two-dimensional probe set is the product of two one-dimensional ones; a set of
// probes is stored as one row mask (over the second coordinate's positions) per
// position of the first coordinate.

type c19Grid [32]uint64

func c19Prod(rows int, rowSel, colMask uint64) (g c19Grid) {
	for i := 0; i < rows; i++ {
		if rowSel>>uint(i)&1 == 1 {
			g[i] = colMask
		}
	}
	return
}

func (g c19Grid) and(h c19Grid) (r c19Grid) {
	for i := range g {
		r[i] = g[i] & h[i]
	}
	return
}

func (g c19Grid) or(h c19Grid) (r c19Grid) {
	for i := range g {
		r[i] = g[i] | h[i]
	}
	return
}

func (g c19Grid) andNot(h c19Grid) (r c19Grid) {
	for i := range g {
		r[i] = g[i] &^ h[i]
	}
	return
}

func (g c19Grid) empty() bool {
	for _, x := range g {
		if x != 0 {
			return false
		}
	}
	return true
}

// ---- R2: r2.Rect ------------------------------------------------------------------------------------

type c19R2 struct {
	v                  r2.Rect
	in, intr           c19Grid
	xin, yin, xit, yit uint64
}

func c19R2Str(r r2.Rect) string {
	return "X[" + c19F(r.X.Lo) + "," + c19F(r.X.Hi) + "] Y[" + c19F(r.Y.Lo) + "," + c19F(r.Y.Hi) + "]"
}

func c19RunR2(c *core.Ctx) {
	const sub = "R2-r2.Rect"
	negZero := math.Copysign(0, -1)
	fs := []float64{-1, negZero, 0, c19Ulp(1, -1), 1, c19Ulp(1, 1)}
	if c19Big() {
		fs = append(fs, 5e-324, 2, -2)
	}
	line := c19Line{c19Vals(fs)}
	np := line.npos()
	type iv1 struct {
		v        r1.Interval
		in, intr uint64
	}
	var ne, em []iv1
	for _, lo := range fs {
		for _, hi := range fs {
			x := iv1{v: r1.Interval{Lo: lo, Hi: hi}}
			x.in, _ = line.memb(lo, hi, false)
			x.intr, _ = line.memb(lo, hi, true)
			if lo > hi {
				em = append(em, x)
			} else {
				ne = append(ne, x)
			}
		}
	}
	// empty rectangles: the canonical one and a few non-canonical representations
	if len(em) > 4 {
		em = []iv1{em[0], em[len(em)/2], em[len(em)-1]}
	}
	var rects []c19R2
	mk := func(x, y iv1) {
		rects = append(rects, c19R2{v: r2.Rect{X: x.v, Y: y.v}, in: c19Prod(np, x.in, y.in), intr: c19Prod(np, x.intr, y.intr),
			xin: x.in, yin: y.in, xit: x.intr, yit: y.intr})
	}
	for _, x := range ne {
		for _, y := range ne {
			mk(x, y)
		}
	}
	for _, x := range em {
		for _, y := range em {
			mk(x, y)
		}
	}
	rects = append(rects, c19R2{v: r2.EmptyRect()})
	gridOf := func(r r2.Rect) (in, out c19Grid, det bool) {
		xi, xo := line.memb(r.X.Lo, r.X.Hi, false)
		yi, yo := line.memb(r.Y.Lo, r.Y.Hi, false)
		det = xi|xo == line.all() && yi|yo == line.all()
		in = c19Prod(np, xi, yi)
		// outside: x outside or y outside
		for i := 0; i < np; i++ {
			if xo>>uint(i)&1 == 1 {
				out[i] = line.all()
			} else {
				out[i] = yo
			}
		}
		return
	}
	hull := func(g c19Grid) c19Grid {
		var rs, cs uint64
		for i := 0; i < np; i++ {
			if g[i] != 0 {
				rs |= 1 << uint(i)
				cs |= g[i]
			}
		}
		return c19Prod(np, c19Hull(rs), c19Hull(cs))
	}
	var st c19Stats
	margins := []r2.Point{{X: 0, Y: 0}, {X: 5e-324, Y: 1}, {X: 1, Y: 1}, {X: 3, Y: 0.5}, {X: -0.5, Y: -0.5}, {X: -3, Y: -1}, {X: -5e-324, Y: 0}, {X: 1, Y: -3}}
	for ai, A := range rects {
		if c.Skip(sub, c19TF, ai, -1) {
			continue
		}
		cas := []int{c19TF, ai, -1}
		det := func(extra ...any) any { return map[string]any{"a": c19R2Str(A.v), "more": fmt.Sprint(extra...)} }
		c.Guard(sub, cas, func() any { return det() }, func() {
			a := A.v
			st.evals++
			if !a.IsValid() {
				panic(core.HarnessError("C19 R2: invalid input rectangle"))
			}
			if a.IsEmpty() != A.in.empty() {
				c.Violate(sub, "wrong-answer", "r2 IsEmpty disagrees with membership", cas, det())
			}
			for i, px := range line.vals {
				for j, py := range line.vals {
					p := r2.Point{X: px, Y: py}
					pi, pj := 2*i+1, 2*j+1
					if a.ContainsPoint(p) != (A.in[pi]>>uint(pj)&1 == 1) {
						c.Violate(sub, "wrong-answer", "r2 ContainsPoint disagrees with membership", cas, det("p=", p))
					}
					if a.InteriorContainsPoint(p) != (A.intr[pi]>>uint(pj)&1 == 1) {
						c.Violate(sub, "wrong-answer", "r2 InteriorContainsPoint disagrees with membership", cas, det("p=", p))
					}
					r := a.AddPoint(p)
					rin, _, d := gridOf(r)
					var pt c19Grid
					pt[pi] = 1 << uint(pj)
					if !r.IsValid() || !d || rin != hull(A.in.or(pt)) {
						c.Violate(sub, "wrong-answer", "r2 AddPoint is not the smallest rectangle containing the rectangle and the point", cas, det("p=", p, " got=", c19R2Str(r)))
					}
					if !a.IsEmpty() {
						q := a.ClampPoint(p)
						if !a.ContainsPoint(q) || (a.ContainsPoint(p) && q != p) {
							c.Violate(sub, "wrong-answer", "r2 ClampPoint lands outside the rectangle or moves an inside point", cas, det("p=", p, " got=", q))
						}
					}
					st.evals += 4
				}
			}
			for _, m := range margins {
				r := a.Expanded(m)
				rin, rout, _ := gridOf(r)
				switch {
				case !r.IsValid():
					c.Violate(sub, "wrong-answer", "r2 Expanded returns an invalid rectangle", cas, det("margin=", m, " got=", c19R2Str(r)))
				case a.IsEmpty() && !r.IsEmpty():
					c.Violate(sub, "wrong-answer", "r2 Expanded of an empty rectangle is not empty", cas, det("margin=", m, " got=", c19R2Str(r)))
				case m.X >= 0 && m.Y >= 0 && !A.in.and(rout).empty():
					c.Violate(sub, "wrong-answer", "r2 Expanded(margin >= 0) loses a point of the rectangle", cas, det("margin=", m, " got=", c19R2Str(r)))
				case m.X <= 0 && m.Y <= 0 && !rin.andNot(A.in).empty():
					c.Violate(sub, "wrong-answer", "r2 Expanded(margin <= 0) contains a point outside the rectangle", cas, det("margin=", m, " got=", c19R2Str(r)))
				}
				st.evals++
			}
			if !a.ApproxEqual(a) {
				c.Violate(sub, "wrong-answer", "r2 ApproxEqual is not reflexive", cas, det())
			}
		})
	}
	lock := make(chan struct{}, 1)
	lock <- struct{}{}
	c.ParallelFor(len(rects), func(ai int) {
		A := rects[ai]
		var ev, nt int64
		for bi, B := range rects {
			if c.Skip(sub, c19TF, ai, bi) {
				continue
			}
			cas := []int{c19TF, ai, bi}
			det := func(extra ...any) any {
				return map[string]any{"a": c19R2Str(A.v), "b": c19R2Str(B.v), "more": fmt.Sprint(extra...)}
			}
			ev += 7
			common := A.in.and(B.in)
			if !common.empty() && !A.in.andNot(B.in).empty() && !B.in.andNot(A.in).empty() {
				nt++
			}
			c.Guard(sub, cas, func() any { return det() }, func() {
				a, b := A.v, B.v
				if got, want := a.Contains(b), B.in.andNot(A.in).empty(); got != want {
					c.Violate(sub, "wrong-answer", fmt.Sprintf("r2 Contains=%v but membership says %v", got, want), cas, det())
				}
				if got, want := a.InteriorContains(b), B.in.andNot(A.intr).empty(); got != want {
					c.Violate(sub, "wrong-answer", fmt.Sprintf("r2 InteriorContains=%v but membership says %v", got, want), cas, det())
				}
				if got, want := a.Intersects(b), !common.empty(); got != want {
					c.Violate(sub, "wrong-answer", fmt.Sprintf("r2 Intersects=%v but membership says %v", got, want), cas, det())
				}
				if got, want := a.InteriorIntersects(b), !A.intr.and(B.in).empty(); got != want {
					c.Violate(sub, "wrong-answer", fmt.Sprintf("r2 InteriorIntersects=%v but membership says %v", got, want), cas, det())
				}
				for k, u := range []r2.Rect{a.Union(b), a.AddRect(b)} {
					uin, uout, d := gridOf(u)
					name := []string{"Union", "AddRect"}[k]
					if !u.IsValid() {
						c.Violate(sub, "wrong-answer", "r2 "+name+" returns an invalid rectangle", cas, det("got=", c19R2Str(u)))
					} else if !A.in.or(B.in).and(uout).empty() {
						c.Violate(sub, "wrong-answer", "r2 "+name+" misses a point of an operand", cas, det("got=", c19R2Str(u)))
					} else if d && uin != hull(A.in.or(B.in)) {
						c.Violate(sub, "wrong-answer", "r2 "+name+" is not the smallest rectangle containing both operands", cas, det("got=", c19R2Str(u)))
					}
				}
				x := a.Intersection(b)
				xin, xout, _ := gridOf(x)
				if !x.IsValid() {
					c.Violate(sub, "wrong-answer", "r2 Intersection returns an invalid rectangle", cas, det("got=", c19R2Str(x)))
				} else if !common.and(xout).empty() {
					c.Violate(sub, "wrong-answer", "r2 Intersection misses a common point", cas, det("got=", c19R2Str(x)))
				} else if !xin.andNot(common).empty() {
					c.Violate(sub, "wrong-answer", "r2 Intersection contains a point that is not common to both operands", cas, det("got=", c19R2Str(x)))
				}
				if a.ApproxEqual(b) != b.ApproxEqual(a) {
					c.Violate(sub, "wrong-answer", "r2 ApproxEqual is not symmetric", cas, det())
				}
			})
		}
		<-lock
		st.evals += ev
		st.nontriv += nt
		lock <- struct{}{}
	})
	// RectFromPoints on all point pairs
	for i, px := range line.vals {
		for j, py := range line.vals {
			for k, qx := range line.vals {
				for l, qy := range line.vals {
					if c.Skip(sub, c19TF, -2, i*1000+j, k*1000+l) {
						continue
					}
					r := r2.RectFromPoints(r2.Point{X: px, Y: py}, r2.Point{X: qx, Y: qy})
					rin, _, _ := gridOf(r)
					var pts c19Grid
					pts[2*i+1] |= 1 << uint(2*j+1)
					pts[2*k+1] |= 1 << uint(2*l+1)
					st.evals++
					if !r.IsValid() || rin != hull(pts) {
						c.Violate(sub, "wrong-answer", "r2 RectFromPoints is not the bounding rectangle of its points", []int{c19TF, -2, i*1000 + j, k*1000 + l},
							map[string]any{"p": fmt.Sprint(px, py), "q": fmt.Sprint(qx, qy), "got": c19R2Str(r)})
					}
				}
			}
		}
	}
	c.Sample(map[string]any{"sub": sub, "a": c19R2Str(rects[len(rects)/3].v), "b": c19R2Str(rects[len(rects)/2+1].v), "probe_points": np * np})
	c.Eval(int(st.evals))
	c.Nontrivial(int(st.nontriv))
	c.Count("R2/rectangles", int64(len(rects)))
	c.Count("R2/ordered_pairs", int64(len(rects)*len(rects)))
	c.Count("R2/pairs_partially_overlapping", st.nontriv)
	c.Count("R2/probe_points", int64(np*np))
}

// ---- LL: s2.Rect -----------------------------------------------------------------------------------

type c19LL struct {
	v  s2.Rect
	in c19Grid // rows: latitude positions; columns: longitude positions
}

func c19LLStr(r s2.Rect) string {
	return "Lat[" + c19F(r.Lat.Lo) + "," + c19F(r.Lat.Hi) + "] Lng[" + c19F(r.Lng.Lo) + "," + c19F(r.Lng.Hi) + "]"
}

func c19RunLL(c *core.Ctx) {
	const sub = "LL-s2.Rect"
	pi := math.Pi
	negZero := math.Copysign(0, -1)
	latF := []float64{-pi / 2, c19Ulp(-pi/2, 1), negZero, 0, c19Ulp(pi/2, -1), pi / 2}
	lngF := []float64{-pi, c19Ulp(-pi, 1), -pi / 2, negZero, 0, pi / 2, c19Ulp(pi, -1), pi}
	if c19Big() {
		latF = append(latF, 1, -1)
		lngF = append(lngF, 3, -3, 5e-324)
	}
	line := c19Line{c19Vals(latF)}
	var lngIn []float64
	for _, f := range lngF {
		if f != -pi {
			lngIn = append(lngIn, f)
		}
	}
	circ := c19Circle{c19Vals(lngIn)}
	nr := line.npos()
	if nr > 32 || circ.npos() > 64 {
		panic(core.HarnessError("C19 LL: alphabet too large"))
	}
	lngs := c19S1Intervals(c, lngF, circ)
	var rects []c19LL
	for _, lo := range latF {
		for _, hi := range latF {
			lat := r1.Interval{Lo: lo, Hi: hi}
			latIn, _ := line.memb(lo, hi, false)
			for _, g := range lngs {
				if lat.IsEmpty() != (g.in == 0) {
					continue
				}
				rects = append(rects, c19LL{v: s2.Rect{Lat: lat, Lng: g.v}, in: c19Prod(nr, latIn, g.in)})
			}
		}
	}
	rects = append(rects, c19LL{v: s2.EmptyRect()}, c19LL{v: s2.FullRect(), in: c19Prod(nr, func() uint64 { m, _ := line.memb(-pi/2, pi/2, false); return m }(), circ.all())})
	gridOf := func(r s2.Rect) (in, out c19Grid) {
		xi, xo := line.memb(r.Lat.Lo, r.Lat.Hi, false)
		yi, yo := circ.memb(r.Lng.Lo, r.Lng.Hi, false)
		in = c19Prod(nr, xi, yi)
		for i := 0; i < nr; i++ {
			if xo>>uint(i)&1 == 1 {
				out[i] = circ.all()
			} else {
				out[i] = yo
			}
		}
		return
	}
	valid := func(r s2.Rect) bool {
		return math.Abs(r.Lat.Lo) <= pi/2 && math.Abs(r.Lat.Hi) <= pi/2 && c19S1Valid(r.Lng.Lo, r.Lng.Hi) &&
			(r.Lat.Lo > r.Lat.Hi) == c19S1Empty(r.Lng.Lo, r.Lng.Hi) && r.IsValid()
	}
	lngPos := func(p float64) uint {
		if p == -pi {
			p = pi
		}
		for k, v := range circ.vals {
			if v == p {
				return uint(2*k + 1)
			}
		}
		panic(core.HarnessError("C19 LL: probe not in alphabet"))
	}
	var st c19Stats
	for ai, A := range rects {
		if c.Skip(sub, c19TF, ai, -1) {
			continue
		}
		cas := []int{c19TF, ai, -1}
		det := func(extra ...any) any { return map[string]any{"a": c19LLStr(A.v), "more": fmt.Sprint(extra...)} }
		c.Guard(sub, cas, func() any { return det() }, func() {
			a := A.v
			st.evals++
			if !valid(a) {
				c.Violate(sub, "wrong-answer", "s2.Rect IsValid rejects a rectangle that satisfies the documented validity rule", cas, det())
				return
			}
			fullLat, _ := line.memb(-pi/2, pi/2, false)
			if a.IsEmpty() != A.in.empty() || a.IsFull() != (A.in == c19Prod(nr, fullLat, circ.all())) {
				c.Violate(sub, "wrong-answer", "s2.Rect IsEmpty/IsFull disagrees with membership", cas, det())
			}
			for i, lat := range line.vals {
				for _, lng := range lngF {
					ll := s2.LatLng{Lat: s1.Angle(lat), Lng: s1.Angle(lng)}
					pi2, pj := 2*i+1, lngPos(lng)
					inA := A.in[pi2]>>pj&1 == 1
					if a.ContainsLatLng(ll) != inA {
						c.Violate(sub, "wrong-answer", "s2.Rect ContainsLatLng disagrees with membership", cas, det("p=", ll))
					}
					r := a.AddPoint(ll)
					_, rout := gridOf(r)
					var pt c19Grid
					pt[pi2] = 1 << pj
					if !valid(r) {
						c.Violate(sub, "wrong-answer", "s2.Rect AddPoint returns an invalid rectangle", cas, det("p=", ll, " got=", c19LLStr(r)))
					} else if !A.in.or(pt).and(rout).empty() {
						c.Violate(sub, "wrong-answer", "s2.Rect AddPoint loses the point or a point of the rectangle", cas, det("p=", ll, " got=", c19LLStr(r)))
					} else if inA && r != a {
						c.Violate(sub, "wrong-answer", "s2.Rect AddPoint of a contained point changes the rectangle", cas, det("p=", ll, " got=", c19LLStr(r)))
					}
					st.evals += 2
				}
			}
			pc := a.PolarClosure()
			pin, pout := gridOf(pc)
			touches := !a.IsEmpty() && (a.Lat.Lo == -pi/2 || a.Lat.Hi == pi/2)
			switch {
			case !valid(pc):
				c.Violate(sub, "wrong-answer", "s2.Rect PolarClosure returns an invalid rectangle", cas, det("got=", c19LLStr(pc)))
			case !A.in.and(pout).empty():
				c.Violate(sub, "wrong-answer", "s2.Rect PolarClosure loses a point", cas, det("got=", c19LLStr(pc)))
			case touches && !pc.Lng.IsFull():
				c.Violate(sub, "wrong-answer", "s2.Rect PolarClosure of a rectangle touching a pole does not span all longitudes", cas, det("got=", c19LLStr(pc)))
			case !touches && pin != A.in:
				c.Violate(sub, "wrong-answer", "s2.Rect PolarClosure changes a rectangle that does not touch a pole", cas, det("got=", c19LLStr(pc)))
			}
			if !a.ApproxEqual(a) {
				c.Violate(sub, "wrong-answer", "s2.Rect ApproxEqual is not reflexive", cas, det())
			}
			st.evals += 2
		})
	}
	// RectFromLatLng / RectFromCenterSize
	sizes := []float64{0, 5e-324, 1e-15, 1, pi, c19Ulp(2*pi, -1), 2 * pi, 7}
	for i, lat := range latF {
		for j, lng := range lngF {
			ll := s2.LatLng{Lat: s1.Angle(lat), Lng: s1.Angle(lng)}
			for k, sl := range sizes {
				for l, sg := range sizes {
					if c.Skip(sub, c19TF, -2-i*100-j, k*100+l) {
						continue
					}
					r := s2.RectFromCenterSize(ll, s2.LatLng{Lat: s1.Angle(sl), Lng: s1.Angle(sg)})
					st.evals++
					if !valid(r) || !r.ContainsLatLng(ll) || (sg >= 2*pi && !r.Lng.IsFull()) {
						c.Violate(sub, "wrong-answer", "s2 RectFromCenterSize (expansion of a point rectangle) is invalid, loses its centre, or is not full in longitude for a size >= 2π",
							[]int{c19TF, -2 - i*100 - j, k*100 + l}, map[string]any{"center": fmt.Sprint(ll), "size": fmt.Sprint(sl, sg), "got": c19LLStr(r)})
					}
				}
			}
			if c.Skip(sub, c19TF, -2-i*100-j, -1) {
				continue
			}
			r := s2.RectFromLatLng(ll)
			if !valid(r) || !r.IsPoint() || !r.ContainsLatLng(ll) {
				family := ""
				if lng == -pi {
					family = " [longitude -π]"
				}
				c.Violate(sub, "wrong-answer", "s2 RectFromLatLng is not a valid point rectangle containing the point"+family, []int{c19TF, -2 - i*100 - j, -1},
					map[string]any{"p": fmt.Sprint(ll), "got": c19LLStr(r), "valid": r.IsValid(), "contains_p": r.ContainsLatLng(ll)})
			}
		}
	}
	lock := make(chan struct{}, 1)
	lock <- struct{}{}
	var superset int64
	c.ParallelFor(len(rects), func(ai int) {
		A := rects[ai]
		var ev, nt, sup int64
		for bi, B := range rects {
			if c.Skip(sub, c19TF, ai, bi) {
				continue
			}
			cas := []int{c19TF, ai, bi}
			det := func(extra ...any) any {
				return map[string]any{"a": c19LLStr(A.v), "b": c19LLStr(B.v), "more": fmt.Sprint(extra...)}
			}
			ev += 4
			common := A.in.and(B.in)
			if !common.empty() && !A.in.andNot(B.in).empty() && !B.in.andNot(A.in).empty() {
				nt++
			}
			c.Guard(sub, cas, func() any { return det() }, func() {
				a, b := A.v, B.v
				if got, want := a.Contains(b), B.in.andNot(A.in).empty(); got != want {
					c.Violate(sub, "wrong-answer", fmt.Sprintf("s2.Rect Contains=%v but membership says %v", got, want), cas, det())
				}
				if got, want := a.Intersects(b), !common.empty(); got != want {
					c.Violate(sub, "wrong-answer", fmt.Sprintf("s2.Rect Intersects=%v but membership says %v", got, want), cas, det())
				}
				u := a.Union(b)
				_, uout := gridOf(u)
				if !valid(u) {
					c.Violate(sub, "wrong-answer", "s2.Rect Union returns an invalid rectangle", cas, det("got=", c19LLStr(u)))
				} else if !A.in.or(B.in).and(uout).empty() {
					c.Violate(sub, "wrong-answer", "s2.Rect Union misses a point of an operand", cas, det("got=", c19LLStr(u)))
				}
				x := a.Intersection(b)
				xin, xout := gridOf(x)
				if !valid(x) {
					c.Violate(sub, "wrong-answer", "s2.Rect Intersection returns an invalid rectangle", cas, det("got=", c19LLStr(x)))
				} else if !common.and(xout).empty() {
					c.Violate(sub, "wrong-answer", "s2.Rect Intersection misses a common point", cas, det("got=", c19LLStr(x)))
				} else if !xin.andNot(A.in.or(B.in)).empty() {
					c.Violate(sub, "wrong-answer", "s2.Rect Intersection contains a point that lies in neither operand", cas, det("got=", c19LLStr(x)))
				} else if xin != common {
					sup++
				}
			})
		}
		<-lock
		st.evals += ev
		st.nontriv += nt
		superset += sup
		lock <- struct{}{}
	})
	c.Sample(map[string]any{"sub": sub, "a": c19LLStr(rects[len(rects)/3].v), "b": c19LLStr(rects[len(rects)/2+1].v), "probe_points": nr * circ.npos()})
	c.Eval(int(st.evals))
	c.Nontrivial(int(st.nontriv))
	c.Count("LL/rectangles", int64(len(rects)))
	c.Count("LL/ordered_pairs", int64(len(rects)*len(rects)))
	c.Count("LL/pairs_partially_overlapping", st.nontriv)
	c.Count("LL/probe_points", int64(nr*circ.npos()))
	c.Count("LL/intersection_superset_of_common_points(documented two-piece case, not asserted)", superset)
}
