package checks

import (
	"fmt"
	"math"
	"math/big"
	"math/bits"
	"sort"
	"sync"
	"sync/atomic"
	"time"

	"github.com/golang/geo/r3"
	"github.com/golang/geo/s1"
	"github.com/golang/geo/s2"

	"verif/mc/core"
	"verif/mc/exact"
	"verif/mc/lattice"
	"verif/mc/refmodel"
)

// C01 coverage extension: lattices for library code behind property C01 that the
// statement-coverage measurement showed no check ever executed (or executed only on
// one branch).  Same technique as the rest of C01: exhaustive walk of an explicitly
// stated finite lattice against an independent oracle.
//
// Sub-checks
//   cov-advance    Advance / AdvanceWrap on every level: a lattice of start positions (first, last, End,
//                  both sides of every face boundary, mid-curve patterns) x a lattice of step counts
//                  (0, ±small, ±4^k and neighbours, ±(m·6·4^L) and neighbours, ±distance to the ends and
//                  neighbours, MinInt64/MaxInt64 and neighbours) against the integer model (position in
//                  [0, 6·4^L], clamp resp. modulo) and against iterated Next/Prev/NextWrap/PrevWrap
//   cov-cellgeom   Cell.SizeST, Cell.BoundUV, Cell.Children (centerUV), CellID.Point / Cell.Center,
//                  Cell.ContainsPoint on other faces, Cell.ContainsCell / IntersectsCell, ExactArea /
//                  ApproxArea / AverageArea against the cube model's exact rational bounds and centre and
//                  a 320-bit spherical-excess reference
//   cov-siti       xyzToFaceSiTi (hook VerifXYZToFaceSiTi -> stToSiTi, siTiToST, faceSiTiToXYZ): every cell
//                  centre and its axis 1-ulp neighbours, the structural (face,si,ti) grid including si,ti in
//                  {0, maxSiTi}, and unit vectors whose s-coordinate is 0..D ulps from an exact half-way
//                  value (k+1/2)/2^31 where the rounding of stToSiTi decides
//   cov-latlng     LatLng.Normalized (exact IEEE-remainder model in rational arithmetic), LatLng.Distance
//                  (320-bit reference), LatLng.ApproxEqual, PointFromLatLng (documented 1.5·dblEpsilon) and
//                  the LatLngFromPoint round trip, on an alphabet built from the poles, ±π, ±0, k·π, 1-ulp
//                  neighbours
//   cov-rectbound  Cell.RectBound (Cell.latitude / Cell.longitude): contains the LatLng of every vertex, of the
//                  children's vertices, of the centre and of an interior (u,v) grid; cells that contain a pole
//                  contain the pole at every longitude
//
// Code behind C01 for which NO exported path exists (not forced): CellID.distanceFromBegin, centerST,
// boundST, boundUV, centerFaceSiTi, expandEndpoint, expandedByDistanceUV (no caller in the package),
// unitNorm (no caller), the `si > maxSiTi` branch of siTiToST and the `s < 0` branch of stToSiTi (every
// caller passes values in range), the `default: panic` arms of Cell.latitude / Cell.longitude.

func init() {
	ck := Registry["C01"]
	if ck == nil {
		panic("c01_cov.go: C01 is not registered (file initialisation order changed)")
	}
	run := ck.Run
	ck.Run = func(c *core.Ctx) {
		run(c)
		c01Cov(c)
	}
}

func c01Cov(c *core.Ctx) {
	if c.OnlySub != "" && (len(c.OnlySub) < 4 || c.OnlySub[:4] != "cov-") {
		return
	}
	c01Tier = c.Tier
	c.Rule += "; coverage lattices (c01_cov.go): Advance/AdvanceWrap on every level for start positions {0..3, N-3..N, both sides of each face boundary, N/2, N/3, bit patterns} x steps {0, ±small, ±4^k±1, ±(mN)±1, ±distance-to-end±1, Min/MaxInt64 and neighbours}, non-trivial when the clamp or the wrap-around engages; " +
		"every enumerated cell (level <= L plus deep families) for SizeST/BoundUV/Children/centre/areas and for the (face,si,ti) of its centre; unit vectors 0..D ulps either side of a half-way value of the si rounding (every one is non-trivial); " +
		"lat-lng alphabet {0, -0, denormal, ±π/2, ±π, k·π, 1-ulp neighbours, huge} for Normalized, all pairs of the valid sub-alphabet for Distance/ApproxEqual, non-trivial when the input is not already normalized resp. the two points differ; " +
		"RectBound on every enumerated cell, non-trivial per distinct cell"
	t0Note := func(name string, f func()) {
		if c.OnlySub != "" && c.OnlySub != name {
			return
		}
		t0 := time.Now()
		f()
		c.Note("wall_s_"+name, math.Round(time.Since(t0).Seconds()*10)/10)
	}
	t0Note("cov-advance", func() { c01CovAdvance(c) })
	specs := c01Cells(core.Pick(c, 3, 5), core.Pick(c, 1, 2), 2)
	c.Note("cov_cells_enumerated", len(specs))
	t0Note("cov-cellgeom", func() { c01CovCellGeom(c, specs) })
	t0Note("cov-siti", func() { c01CovSiTi(c, specs) })
	t0Note("cov-latlng", func() { c01CovLatLng(c) })
	t0Note("cov-rectbound", func() { c01CovRectBound(c, specs) })
}

func c01CovDet(extra ...any) map[string]any {
	d := map[string]any{"tier": c01Tier}
	for i := 0; i+1 < len(extra); i += 2 {
		d[fmt.Sprint(extra[i])] = extra[i+1]
	}
	return d
}

func c01CovBits(p r3.Vector) [3]string {
	return [3]string{fmt.Sprintf("%#x", math.Float64bits(p.X)), fmt.Sprintf("%#x", math.Float64bits(p.Y)), fmt.Sprintf("%#x", math.Float64bits(p.Z))}
}

// ---------------------------------------------------------------- cov-advance

func c01CovAdvance(c *core.Ctx) {
	const sub = "cov-advance"
	v := c01Viol{c, sub}
	var cases, clamped, wrapped, beyond, iter, fromEnd atomic.Int64
	K := core.Pick(c, 6, 12)     // iterated Next/Prev depth
	spread := core.Pick(c, 2, 4) // positions either side of a face boundary
	mult := core.Pick(c, 2, 4)   // multiples of the curve length
	small := core.Pick(c, 7, 17) // ±0..small
	c.ParallelFor(31, func(L int) {
		N := refmodel.CellsAtLevel(L)
		per := uint64(1) << uint(2*L)
		begin := refmodel.IDFromGlobal(L, 0)
		end := refmodel.IDFromGlobal(L, N)
		// ---- start positions
		startSet := map[uint64]bool{}
		addStart := func(n uint64) {
			if n <= N {
				startSet[n] = true
			}
		}
		for d := uint64(0); d <= uint64(spread)+1; d++ {
			addStart(d)
			if N >= d {
				addStart(N - d)
			}
		}
		for f := uint64(1); f <= 5; f++ {
			for d := -spread; d < spread; d++ {
				n := int64(f*per) + int64(d)
				if n >= 0 {
					addStart(uint64(n))
				}
			}
		}
		addStart(N / 2)
		addStart(N / 3)
		addStart(0x5555555555555555 % N)
		addStart(0x3333333333333333 % N)
		addStart(0x0123456789abcdef % N)
		if !c.Quick() {
			addStart(N / 7)
			addStart(N - N/7)
			addStart(0x6db6db6db6db6db6 % N)
			addStart(0x1111111111111111 % N)
		}
		var starts []uint64
		for n := range startSet {
			starts = append(starts, n)
		}
		sort.Slice(starts, func(i, j int) bool { return starts[i] < starts[j] })
		// ---- step counts common to all starts of the level
		stepSet := map[int64]bool{}
		addB := func(b *big.Int) {
			if b.IsInt64() {
				stepSet[b.Int64()] = true
			}
			nb := new(big.Int).Neg(b)
			if nb.IsInt64() {
				stepSet[nb.Int64()] = true
			}
		}
		addU := func(u uint64, d int64) {
			b := new(big.Int).SetUint64(u)
			addB(b.Add(b, big.NewInt(d)))
		}
		for s := 0; s <= small; s++ {
			addB(big.NewInt(int64(s)))
		}
		for k := 1; k <= 31; k++ {
			p := new(big.Int).Lsh(big.NewInt(1), uint(2*k))
			for d := int64(-1); d <= 1; d++ {
				addB(new(big.Int).Add(p, big.NewInt(d)))
			}
		}
		bn := new(big.Int).SetUint64(N)
		for m := 1; m <= mult; m++ {
			mn := new(big.Int).Mul(bn, big.NewInt(int64(m)))
			for d := int64(-2); d <= 2; d++ {
				addB(new(big.Int).Add(mn, big.NewInt(d)))
			}
		}
		addU(N/2, 0)
		addU(N/2, 7)
		addU(per, 0)
		addU(per, -1)
		for d := int64(0); d <= 3; d++ {
			stepSet[math.MinInt64+d] = true
			stepSet[math.MaxInt64-d] = true
		}
		var steps []int64
		for s := range stepSet {
			steps = append(steps, s)
		}
		sort.Slice(steps, func(i, j int) bool { return steps[i] < steps[j] })

		for si, n := range starts {
			n := n
			// per-start steps: exactly to / one short of / one past either end
			extra := map[int64]bool{}
			addE := func(u uint64, d int64) {
				b := new(big.Int).SetUint64(u)
				b.Add(b, big.NewInt(d))
				for _, x := range []*big.Int{b, new(big.Int).Neg(b)} {
					if x.IsInt64() && !stepSet[x.Int64()] {
						extra[x.Int64()] = true
					}
				}
			}
			for d := int64(-2); d <= 2; d++ {
				addE(n, d)
				addE(N-n, d)
			}
			var ex []int64
			for s := range extra {
				ex = append(ex, s)
			}
			sort.Slice(ex, func(i, j int) bool { return ex[i] < ex[j] })
			all := append(append([]int64{}, steps...), ex...)
			id := s2.CellID(refmodel.IDFromGlobal(L, n))
			det := func(extra ...any) any {
				return c01CovDet(append([]any{"level", L, "position", n, "curve_length", N, "id", fmt.Sprintf("%#x", uint64(id))}, extra...)...)
			}
			c.Guard(sub, []int{L, si}, func() any { return det() }, func() {
				for ti, s := range all {
					if c.Skip(sub, L, si, ti) {
						continue
					}
					cas := []int{L, si, ti}
					wantN := c01ClampSteps(n, s, N)
					if got := id.Advance(s); uint64(got) != refmodel.IDFromGlobal(L, wantN) {
						v.bad(cas, "Advance(steps) differs from the clamped model position", det("steps", s, "got", fmt.Sprintf("%#x", uint64(got)), "want_position", wantN))
					}
					nt := false
					var raw big.Int // n + steps, unbounded
					raw.SetUint64(n)
					raw.Add(&raw, big.NewInt(s))
					if raw.Sign() < 0 || raw.Cmp(bn) > 0 {
						clamped.Add(1) // the position is pinned at Begin or End
						nt = true
					}
					if n == N {
						fromEnd.Add(1)
					}
					if n < N {
						wantW := c01WrapSteps(n, s, N)
						got := id.AdvanceWrap(s)
						if uint64(got) != refmodel.IDFromGlobal(L, wantW) {
							v.bad(cas, "AdvanceWrap(steps) differs from the model position modulo the curve length", det("steps", s, "got", fmt.Sprintf("%#x", uint64(got)), "want_position", wantW))
						}
						if raw.Sign() < 0 || raw.Cmp(bn) >= 0 {
							wrapped.Add(1)
							nt = true
							var a big.Int
							a.Abs(big.NewInt(s))
							if a.Cmp(bn) >= 0 {
								beyond.Add(1)
							}
						}
						if s != math.MinInt64 {
							if back := got.AdvanceWrap(-s); back != id {
								v.bad(cas, "AdvanceWrap(s) followed by AdvanceWrap(-s) does not return to the cell", det("steps", s, "got", fmt.Sprintf("%#x", uint64(back))))
							}
						}
					}
					cases.Add(1)
					if nt {
						c.Nontrivial(1)
					}
				}
				// ---- iterated single steps
				if c.Skip(sub, L, si, -1) {
					return
				}
				cas := []int{L, si, -1}
				fw, bw := id, id
				fww, bww := id, id
				for k := 1; k <= K; k++ {
					if uint64(fw) != end {
						fw = fw.Next()
					}
					if uint64(bw) != begin {
						bw = bw.Prev()
					}
					if got := id.Advance(int64(k)); got != fw {
						v.bad(cas, "Advance(k) differs from k applications of Next (stopping at End)", det("k", k, "got", fmt.Sprintf("%#x", uint64(got)), "want", fmt.Sprintf("%#x", uint64(fw))))
					}
					if got := id.Advance(int64(-k)); got != bw {
						v.bad(cas, "Advance(-k) differs from k applications of Prev (stopping at Begin)", det("k", k, "got", fmt.Sprintf("%#x", uint64(got)), "want", fmt.Sprintf("%#x", uint64(bw))))
					}
					if n < N {
						fww, bww = fww.NextWrap(), bww.PrevWrap()
						if got := id.AdvanceWrap(int64(k)); got != fww {
							v.bad(cas, "AdvanceWrap(k) differs from k applications of NextWrap", det("k", k, "got", fmt.Sprintf("%#x", uint64(got)), "want", fmt.Sprintf("%#x", uint64(fww))))
						}
						if got := id.AdvanceWrap(int64(-k)); got != bww {
							v.bad(cas, "AdvanceWrap(-k) differs from k applications of PrevWrap", det("k", k, "got", fmt.Sprintf("%#x", uint64(got)), "want", fmt.Sprintf("%#x", uint64(bww))))
						}
					}
					iter.Add(1)
				}
			})
			if L == 30 && si == 3 {
				c.Sample(map[string]any{"sub": sub, "level": L, "position": n, "steps_examples": all[:4], "n_steps": len(all)})
			}
		}
	})
	c.Eval(int(cases.Load()))
	c.Count(sub+"/start_step_pairs", cases.Load())
	c.Count(sub+"/advance_pinned_at_begin_or_end", clamped.Load())
	c.Count(sub+"/advancewrap_wrapped_around", wrapped.Load())
	c.Count(sub+"/advancewrap_steps_at_least_one_full_turn", beyond.Load())
	c.Count(sub+"/advance_from_End", fromEnd.Load())
	c.Count(sub+"/iterated_single_step_comparisons", iter.Load())
	if c.OnlySub == "" && (clamped.Load() == 0 || wrapped.Load() == 0 || beyond.Load() == 0) {
		panic(core.HarnessError(sub + ": the clamp or the wrap-around never engaged"))
	}
}

// ---------------------------------------------------------------- exact helpers

// c01CovVec builds the exact vector with face coordinates (u,v,w) (documented axis assignment,
// the same permutation as refmodel.FloatFromUVW).
func c01CovVec(face int, u, v, w exact.S) exact.V {
	var x, y, z exact.S
	switch face {
	case 0:
		x, y, z = w, u, v
	case 1:
		x, y, z = u.Neg(), w, v
	case 2:
		x, y, z = u.Neg(), v.Neg(), w
	case 3:
		x, y, z = w.Neg(), v.Neg(), u.Neg()
	case 4:
		x, y, z = v, w.Neg(), u.Neg()
	default:
		x, y, z = v, u, w.Neg()
	}
	e := x.E
	for _, s := range []exact.S{y, z} {
		if s.E < e {
			e = s.E
		}
	}
	sh := func(s exact.S) *big.Int { return new(big.Int).Lsh(s.M, uint(s.E-e)) }
	return exact.V{X: sh(x), Y: sh(y), Z: sh(z), E: e}
}

func c01CovAbs(s exact.S) exact.S {
	if s.Sign() < 0 {
		return s.Neg()
	}
	return s
}

// c01CovQuadArea: spherical excess of the quadrilateral v0..v3 (CCW), 320-bit.
func c01CovQuadArea(vs [4]s2.Point) *big.Float {
	var ev [4]exact.V
	for k := range vs {
		ev[k] = exact.FromVector(vs[k].Vector)
	}
	sum := exact.HPInt(0)
	for k := 0; k < 4; k++ {
		b, a, d := ev[k], ev[(k+3)&3], ev[(k+1)&3]
		sum = exact.HPAdd(sum, exact.HPAngle(b.Cross(a), b.Cross(d)))
	}
	return exact.HPSub(sum, exact.HPMul(exact.HPInt(2), exact.HPPi()))
}

// ---------------------------------------------------------------- cov-cellgeom

func c01CovCellGeom(c *core.Ctx, specs []c01Spec) {
	const sub = "cov-cellgeom"
	v := c01Viol{c, sub}
	var family []refmodel.CubeCell
	for _, f := range []int{0, 2, 3, 5} {
		for _, sp := range []c01Spec{{f, 0, 0}, {f, 1, 2}, {f, 2, 7}, {f, 30, 0}, {f, 30, 1<<60 - 1}, {f, 12, 0x333333}, {f, 29, 1 << 57}} {
			family = append(family, refmodel.CubeCellFromIdx(sp.face, sp.level, sp.idx))
		}
	}
	var famCells []s2.Cell
	for _, o := range family {
		famCells = append(famCells, s2.CellFromCellID(s2.CellID(o.ID())))
	}
	axis := [6]s2.Point{}
	for f := 0; f < 6; f++ {
		axis[f] = s2.Point{Vector: refmodel.FloatFromUVW(f, 0, 0, 1)}
	}
	dirLim := exact.HP(1.5 * c01Eps)
	nLo := exact.FromFloat(1 - 2*c01Eps)
	nLo = nLo.Mul(nLo)
	nHi := exact.FromFloat(1 + 2*c01Eps)
	nHi = nHi.Mul(nHi)
	tolUV := exact.FromFloat(3e-15)
	var done, children, leaves, areaCells, boundsExact, cut atomic.Int64
	var maxDir atomic.Uint64 // max directional error of the centre, float bits
	var worstApprox [31]atomic.Uint64
	block := 64
	nb := (len(specs) + block - 1) / block
	var once sync.Once
	c.ParallelFor(nb, func(bi int) {
		if c.Expired() {
			once.Do(func() { c.CapHit(sub + ": wall budget reached") })
			cut.Add(1)
			return
		}
		for i := bi * block; i < (bi+1)*block && i < len(specs); i++ {
			if c.Skip(sub, i) {
				continue
			}
			sp := specs[i]
			m := refmodel.CubeCellFromIdx(sp.face, sp.level, sp.idx)
			cas := []int{i}
			det := func(extra ...any) any {
				return c01CovDet(append([]any{"cell", m.String(), "id", fmt.Sprintf("%#x", m.ID())}, extra...)...)
			}
			c.Guard(sub, cas, func() any { return det() }, func() {
				L, size := m.Level, m.Size()
				id := s2.CellID(m.ID())
				cell := s2.CellFromCellID(id)
				// --- SizeST: the unit (s,t) square is cut into 2^L x 2^L cells
				if got := cell.SizeST(); got != math.Ldexp(1, -L) {
					v.bad(cas, "Cell.SizeST is not 2^-level", det("got", got))
				}
				// --- BoundUV against the exact rational image of the (i,j) square
				b := cell.BoundUV()
				for k, bc := range [4]struct {
					got float64
					i   int
				}{{b.X.Lo, m.I0}, {b.X.Hi, m.I0 + size}, {b.Y.Lo, m.J0}, {b.Y.Hi, m.J0 + size}} {
					d := c01CovAbs(exact.FromFloat(bc.got).Mul(exact.Int(3)).Sub(refmodel.UV3(bc.i)))
					if d.Cmp(tolUV) > 0 {
						v.bad(cas, "Cell.BoundUV is more than 1e-15 from the exact (u,v) of the cell's (i,j) boundary", det("bound", k, "got", bc.got, "exact", refmodel.UVFloat(bc.i)))
					}
					if bc.got == refmodel.UVFloat(bc.i) {
						boundsExact.Add(1)
					}
				}
				if !(b.X.Lo < b.X.Hi && b.Y.Lo < b.Y.Hi) {
					v.bad(cas, "Cell.BoundUV is empty or degenerate", det("got", fmt.Sprint(b)))
				}
				// --- Children (midpoint from centerUV) describe the same cells as CellFromCellID(child id)
				ch, ok := cell.Children()
				if L == 30 {
					leaves.Add(1)
					if ok {
						v.bad(cas, "Cell.Children of a leaf cell reports ok", det())
					}
				} else if !ok {
					v.bad(cas, "Cell.Children of a non-leaf cell reports !ok", det())
				} else {
					ids := id.Children()
					for k := 0; k < 4; k++ {
						want := s2.CellFromCellID(ids[k])
						if ch[k] != want {
							v.bad(cas, "Cell.Children()[k] is not the cell CellFromCellID(id.Children()[k])", det("k", k, "got_id", ch[k].ID().String(), "got_bound", fmt.Sprint(ch[k].BoundUV()), "want_bound", fmt.Sprint(want.BoundUV()),
								"got_face_level", []int{ch[k].Face(), ch[k].Level()}))
						}
					}
					children.Add(1)
				}
				// --- centre: documented directional error 1.5*dblEpsilon, length error 2*dblEpsilon
				si, ti := int64(2*m.I0+size), int64(2*m.J0+size)
				dir := c01CovVec(m.Face, refmodel.SiTi3(si), refmodel.SiTi3(ti), exact.Int(3))
				pts := []s2.Point{id.Point()}
				if ctr := cell.Center(); ctr != pts[0] {
					pts = append(pts, ctr)
				}
				for k, p := range pts {
					ep := exact.FromVector(p.Vector)
					ang := exact.HPAngle(ep, dir)
					if ang.Cmp(dirLim) > 0 {
						v.bad(cas, "the cell centre (CellID.Point / Cell.Center) is more than 1.5*dblEpsilon radians from the exact centre direction", det("which", k, "got", [3]float64{p.X, p.Y, p.Z}, "angle", exact.HPFloat64(ang)))
					}
					n2 := ep.Norm2()
					if n2.Cmp(nLo) < 0 || n2.Cmp(nHi) > 0 {
						v.bad(cas, "the cell centre's length differs from 1 by more than 2*dblEpsilon", det("which", k, "got", [3]float64{p.X, p.Y, p.Z}))
					}
					a := math.Float64bits(exact.HPFloat64(ang))
					for {
						old := maxDir.Load()
						if a <= old || maxDir.CompareAndSwap(old, a) {
							break
						}
					}
				}
				// --- ContainsPoint: own centre yes, antipode and the centres of the other faces no
				ctr := pts[0]
				if !cell.ContainsPoint(ctr) {
					v.bad(cas, "Cell.ContainsPoint(own centre) is false", det())
				}
				if cell.ContainsPoint(s2.Point{Vector: ctr.Mul(-1)}) {
					v.bad(cas, "Cell.ContainsPoint(antipode of the centre) is true", det())
				}
				for f := 0; f < 6; f++ {
					if f != m.Face && cell.ContainsPoint(axis[f]) {
						v.bad(cas, "Cell.ContainsPoint(centre of another face) is true", det("face", f))
					}
				}
				// --- ContainsCell / IntersectsCell against the model squares
				for k, o := range family {
					wantC, wantI := m.ContainsCell(o), m.ContainsCell(o) || o.ContainsCell(m)
					if cell.ContainsCell(famCells[k]) != wantC || cell.IntersectsCell(famCells[k]) != wantI || famCells[k].IntersectsCell(cell) != wantI || famCells[k].ContainsCell(cell) != o.ContainsCell(m) {
						v.bad(cas, "Cell.ContainsCell/IntersectsCell differ from the model squares", det("other", o.String()))
					}
				}
				// --- areas
				var vs [4]s2.Point
				for k := 0; k < 4; k++ {
					vs[k] = cell.Vertex(k)
				}
				ref := exact.HPFloat64(c01CovQuadArea(vs))
				if !(ref > 0) {
					panic(core.HarnessError(fmt.Sprintf("%s: reference area of %s is not positive", sub, m.String())))
				}
				if got := cell.ExactArea(); !(math.Abs(got-ref) <= 2e-14 && math.Abs(got-ref) <= 1e-3*ref) {
					v.bad(cas, "Cell.ExactArea differs from the spherical excess of the cell's vertices (documented error about 5e-15 per triangle, accurate for small triangles)", det("got", got, "reference", ref))
				}
				tolA := 0.03
				if L >= 5 {
					tolA = 0.001
				}
				ga := cell.ApproxArea()
				if !(math.Abs(ga-ref) <= tolA*ref) {
					v.bad(cas, "Cell.ApproxArea is outside the documented accuracy (3% all levels, 0.1% from level 5)", det("got", ga, "reference", ref))
				}
				rel := math.Float64bits(math.Abs(ga-ref) / ref)
				for {
					old := worstApprox[L].Load()
					if rel <= old || worstApprox[L].CompareAndSwap(old, rel) {
						break
					}
				}
				avg := cell.AverageArea()
				wantAvg := 4 * math.Pi / 6 * math.Ldexp(1, -2*L)
				if !(math.Abs(avg/wantAvg-1) <= 1e-14) {
					v.bad(cas, "Cell.AverageArea is not 4*pi / (6*4^level)", det("got", avg, "want", wantAvg))
				}
				if r := ref / avg; !(r <= 1.7 && r >= 1/1.7) {
					v.bad(cas, "the cell's area is not within the documented factor 1.7 of AverageArea", det("average", avg, "reference", ref))
				}
				areaCells.Add(1)
			})
			done.Add(1)
			if i%3001 == 5 {
				c.Sample(map[string]any{"sub": sub, "cell": m.String()})
			}
		}
	})
	c.Eval(int(done.Load()))
	c.Nontrivial(int(done.Load()))
	c.Count(sub+"/cells", done.Load())
	c.Count(sub+"/non_leaf_cells_with_children_compared", children.Load())
	c.Count(sub+"/leaf_cells", leaves.Load())
	c.Count(sub+"/cells_with_area_reference", areaCells.Load())
	c.Count(sub+"/uv_bounds_equal_to_the_nearest_float_of_the_exact_value", boundsExact.Load())
	c.Note("cov_cellgeom_max_centre_direction_error_in_dblEpsilon", math.Float64frombits(maxDir.Load())/c01Eps)
	wa := map[string]float64{}
	for l := range worstApprox {
		if x := math.Float64frombits(worstApprox[l].Load()); x > 0 {
			wa[fmt.Sprintf("level_%02d", l)] = x
		}
	}
	c.Note("cov_cellgeom_worst_relative_error_of_ApproxArea", wa)
	if c.OnlySub == "" && cut.Load() == 0 && (children.Load() == 0 || leaves.Load() == 0) {
		panic(core.HarnessError(sub + ": no leaf or no non-leaf cell was examined"))
	}
}

// ---------------------------------------------------------------- cov-siti

// c01CovU3 returns 3*u exactly for s = n/2^51 (the quadratic transform).
func c01CovU3(n int64) exact.S {
	one := new(big.Int).Lsh(big.NewInt(1), 102)
	if n >= 1<<50 {
		m := new(big.Int).Mul(big.NewInt(n), big.NewInt(n))
		m.Lsh(m, 2)
		return exact.S{M: m.Sub(m, one), E: -102}
	}
	k := int64(1<<51) - n
	m := new(big.Int).Mul(big.NewInt(k), big.NewInt(k))
	m.Lsh(m, 2)
	return exact.S{M: m.Sub(one, m), E: -102}
}

// c01CovNearestSiTi reports whether si is a correct "nearest si" for the exact coordinate q/w (w > 0,
// |q| <= w): |si - 2^31*s(q/w)| <= 1/2 + 2^-19, where s() is the exact inverse quadratic transform.
// The slack 2^-19 (in units of si) covers the rounding of uvToST (a few 1e-16 in s, i.e. below 1e-6
// units) so that both neighbours are accepted next to an exact half-way value.  decided reports whether
// the coordinate is more than that slack away from both half-way values (only one si is acceptable).
func c01CovNearestSiTi(si uint32, q, w float64) (ok, decided bool) {
	lhs := exact.FromFloat(q).Mul(exact.Int(3))
	ew := exact.FromFloat(w)
	cmp := func(n int64) int { // sign(s(q/w) - n/2^51)
		if n <= 0 {
			if n == 0 && lhs.Cmp(c01CovU3(0).Mul(ew)) == 0 {
				return 0
			}
			return 1
		}
		if n >= 1<<51 {
			if n == 1<<51 && lhs.Cmp(c01CovU3(1<<51).Mul(ew)) == 0 {
				return 0
			}
			return -1
		}
		return lhs.Cmp(c01CovU3(n).Mul(ew))
	}
	c0 := int64(si) << 20
	ok = cmp(c0-1<<19-2) >= 0 && cmp(c0+1<<19+2) <= 0
	decided = cmp(c0-1<<19+2) > 0 && cmp(c0+1<<19-2) < 0
	return
}

func c01CovSiTiLevel(si uint32) int {
	return 30 - bits.TrailingZeros64(uint64(si)|1<<31)
}

// c01CovCheckSiTi judges one call of xyzToFaceSiTi on a point of known provenance.
// wantFace >= 0: the point is strictly inside that face.  It returns the level reported.
func c01CovCheckSiTi(c *core.Ctx, sub string, cas []int, p s2.Point, wantFace int, st *c01CovSiTiStats) int {
	v := c01Viol{c, sub}
	face, si, ti, level := s2.VerifXYZToFaceSiTi(p)
	det := func(extra ...any) any {
		return c01CovDet(append([]any{"p", [3]float64{p.X, p.Y, p.Z}, "bits", c01CovBits(p.Vector), "got", []int64{int64(face), int64(si), int64(ti), int64(level)}}, extra...)...)
	}
	if face < 0 || face > 5 || !refmodel.OnFace(face, p.Vector) || (wantFace >= 0 && face != wantFace) {
		v.bad(cas, "xyzToFaceSiTi: the face is not a face of the point's direction", det("want_face", wantFace))
		return level
	}
	if si > 1<<31 || ti > 1<<31 {
		v.bad(cas, "xyzToFaceSiTi: si or ti outside [0, 2^31] for a point of the face", det())
		return level
	}
	qu, qv, qw := refmodel.FloatToUVW(face, p.Vector)
	okS, decS := c01CovNearestSiTi(si, qu, qw)
	okT, decT := c01CovNearestSiTi(ti, qv, qw)
	if !okS || !okT {
		v.bad(cas, "xyzToFaceSiTi: si/ti is not the nearest discrete coordinate of the exact (s,t) of the point", det())
	}
	if !decS || !decT {
		st.tie.Add(1)
	}
	if si == 0 || ti == 0 || si == 1<<31 || ti == 1<<31 {
		st.edge.Add(1)
	}
	// level: p is a cell centre iff it is the value CellID.Point() returns for the cell centred at (si,ti)
	want := -1
	ambiguous := false
	if l := c01CovSiTiLevel(si); l >= 0 && l == c01CovSiTiLevel(ti) {
		size := 1 << uint(30-l)
		m := refmodel.CubeCellFromIJ(face, l, (int(si)-size)/2, (int(ti)-size)/2)
		ctr := s2.CellID(m.ID()).Point()
		if ctr.Vector == p.Vector {
			if c01CovBits(ctr.Vector) == c01CovBits(p.Vector) {
				want = l
			} else {
				ambiguous = true // differs in the sign of a zero only
			}
		}
	}
	if !ambiguous && level != want {
		v.bad(cas, "xyzToFaceSiTi: the level is not the level of the cell centred at the point (-1 when the point is no cell centre)", det("want_level", want))
	}
	if level >= 0 {
		st.centre.Add(1)
	}
	return level
}

type c01CovSiTiStats struct{ centre, tie, edge, pts, up, down atomic.Int64 }

func c01CovSiTi(c *core.Ctx, specs []c01Spec) {
	const sub = "cov-siti"
	v := c01Viol{c, sub}
	var st c01CovSiTiStats
	var once sync.Once
	// ---- part 0: every cell centre and its six axis neighbours
	block := 128
	nb := (len(specs) + block - 1) / block
	var perLevel [31]atomic.Int64
	c.ParallelFor(nb, func(bi int) {
		if c.Expired() {
			once.Do(func() { c.CapHit(sub + ": wall budget reached") })
			return
		}
		for i := bi * block; i < (bi+1)*block && i < len(specs); i++ {
			sp := specs[i]
			m := refmodel.CubeCellFromIdx(sp.face, sp.level, sp.idx)
			p := s2.CellID(m.ID()).Point()
			size := m.Size()
			for j := 0; j < 7; j++ {
				if c.Skip(sub, 0, i, j) {
					continue
				}
				q := p
				switch j {
				case 1:
					q.X = lattice.Ulp(p.X, 1)
				case 2:
					q.X = lattice.Ulp(p.X, -1)
				case 3:
					q.Y = lattice.Ulp(p.Y, 1)
				case 4:
					q.Y = lattice.Ulp(p.Y, -1)
				case 5:
					q.Z = lattice.Ulp(p.Z, 1)
				case 6:
					q.Z = lattice.Ulp(p.Z, -1)
				}
				cas := []int{0, i, j}
				c.Guard(sub, cas, func() any { return c01CovDet("cell", m.String(), "neighbour", j) }, func() {
					level := c01CovCheckSiTi(c, sub, cas, q, m.Face, &st)
					face, si, ti, _ := s2.VerifXYZToFaceSiTi(q)
					if face != m.Face || int(si) != 2*m.I0+size || int(ti) != 2*m.J0+size {
						v.bad(cas, "xyzToFaceSiTi of a cell centre (or a 1-ulp neighbour) is not the centre's (face,si,ti)", c01CovDet("cell", m.String(), "neighbour", j, "got", []int64{int64(face), int64(si), int64(ti)}, "want", []int{m.Face, 2*m.I0 + size, 2*m.J0 + size}))
					}
					if j == 0 && level != m.Level {
						v.bad(cas, "xyzToFaceSiTi of CellID.Point() does not report the cell's level", c01CovDet("cell", m.String(), "got", level))
					}
					if j == 0 && level == m.Level {
						perLevel[m.Level].Add(1)
					}
				})
				st.pts.Add(1)
			}
		}
	})
	levelsSeen := 0
	for l := range perLevel {
		if perLevel[l].Load() > 0 {
			levelsSeen++
		}
	}
	c.Count(sub+"/centres_recognised_at_distinct_levels", int64(levelsSeen))
	// ---- part 1: structural (face, si, ti) grid, including the face edges si,ti in {0, 2^31}
	grid := lattice.SiTiGrid(core.Pick(c, 2, 4))
	c.ParallelFor(6*len(grid), func(k int) {
		f, a := k/len(grid), k%len(grid)
		for b2, ti := range grid {
			p := lattice.FaceSiTiPoint(f, grid[a], ti)
			wantFace := -1
			if grid[a] > 0 && grid[a] < 1<<31 && ti > 0 && ti < 1<<31 {
				wantFace = f
			}
			for j, q := range lattice.PUlp(p, 1) {
				if c.Skip(sub, 1, k, b2, j) {
					continue
				}
				cas := []int{1, k, b2, j}
				c.Guard(sub, cas, func() any { return c01CovDet("face", f, "si", grid[a], "ti", ti, "neighbour", j) }, func() {
					c01CovCheckSiTi(c, sub, cas, q, wantFace, &st)
				})
				st.pts.Add(1)
			}
		}
	})
	// ---- part 2: s within D ulps (of u) of an exact half-way value (2k+1)/2^32
	kset := map[uint32]bool{}
	for d := uint32(0); d <= 3; d++ {
		kset[d] = true
		kset[1<<31-1-d] = true
		kset[1<<30+d] = true
		kset[1<<30-1-d] = true
		kset[1<<29+d] = true
		kset[3<<29-d] = true
	}
	for j := uint(2); j <= 30; j++ {
		kset[1<<j-1] = true
		kset[1<<j] = true
		kset[1<<j+1] = true
		kset[1<<31-1<<j] = true
	}
	for j := uint32(1); j < uint32(core.Pick(c, 32, 512)); j++ {
		step := uint32(1<<31) / uint32(core.Pick(c, 32, 512))
		kset[j*step] = true
		kset[j*step-1] = true
		kset[j*step+0x12345] = true
	}
	var ks []uint32
	for k := range kset {
		if k <= 1<<31-1 { // the half-way value (2k+1)/2^32 must lie inside [0,1]
			ks = append(ks, k)
		}
	}
	sort.Slice(ks, func(i, j int) bool { return ks[i] < ks[j] })
	D := core.Pick(c, 3, 6)
	var cross []float64
	crossJ := []uint32{1 << 30, 3 << 29, 1<<29 + 1<<20 + 1}
	if !c.Quick() {
		crossJ = append(crossJ, 1, 1<<31-1, 5<<28)
	}
	for _, j := range crossJ {
		cross = append(cross, c01ST2UV(float64(j)/(1<<31)))
	}
	c.Note("cov_siti_halfway_values", len(ks))
	c.ParallelFor(len(ks), func(ki int) {
		k := ks[ki]
		sh := float64(2*uint64(k)+1) / (1 << 32)
		uh := c01ST2UV(sh)
		j := 0
		for d := -D; d <= D; d++ {
			u := lattice.Ulp(uh, d)
			if !(u > -1 && u < 1) {
				continue
			}
			for _, w := range cross {
				for _, t := range c01UnitWithRatio(u, w, 2) {
					for f := 0; f < 6; f++ {
						for swap := 0; swap < 2; swap++ {
							j++
							if c.Skip(sub, 2, ki, j) {
								continue
							}
							a, b := t[0], t[1]
							if swap == 1 {
								a, b = b, a
							}
							p := s2.Point{Vector: refmodel.FloatFromUVW(f, a, b, t[2])}
							cas := []int{2, ki, j}
							c.Guard(sub, cas, func() any { return c01CovDet("halfway_k", k, "ulps", d, "face", f) }, func() {
								level := c01CovCheckSiTi(c, sub, cas, p, f, &st)
								if level != -1 {
									v.bad(cas, "xyzToFaceSiTi reports a level for a point half a step away from every cell centre", c01CovDet("p", [3]float64{p.X, p.Y, p.Z}, "bits", c01CovBits(p.Vector), "got", level))
								}
								_, si, ti, _ := s2.VerifXYZToFaceSiTi(p)
								x := si
								if swap == 1 {
									x = ti
								}
								if x == k+1 {
									st.up.Add(1)
								} else if x == k {
									st.down.Add(1)
								}
							})
							st.pts.Add(1)
							c.Nontrivial(1)
						}
					}
				}
			}
		}
	})
	c.Eval(int(st.pts.Load()))
	c.Nontrivial(int(st.centre.Load()))
	c.Count(sub+"/points", st.pts.Load())
	c.Count(sub+"/points_recognised_as_cell_centres", st.centre.Load())
	c.Count(sub+"/points_within_2^-19_of_a_half-way_value", st.tie.Load())
	c.Count(sub+"/points_with_si_or_ti_on_a_face_edge", st.edge.Load())
	c.Count(sub+"/half-way_points_rounded_up", st.up.Load())
	c.Count(sub+"/half-way_points_rounded_down", st.down.Load())
	c.Sample(map[string]any{"sub": sub, "halfway_k_examples": ks[:6]})
	if c.OnlySub == "" && !c.Expired() && (st.centre.Load() == 0 || st.up.Load() == 0 || st.down.Load() == 0 || st.edge.Load() == 0 || levelsSeen < 31) {
		panic(core.HarnessError(fmt.Sprintf("%s: vacuous (centres=%d up=%d down=%d edge=%d levels=%d)", sub, st.centre.Load(), st.up.Load(), st.down.Load(), st.edge.Load(), levelsSeen)))
	}
}

// ---------------------------------------------------------------- cov-latlng

// c01CovSinCos returns sin x and cos x at 320 bits (argument halving + Taylor + double-angle).
func c01CovSinCos(x float64) (s, co *big.Float) {
	y := exact.HP(x)
	k := 0
	lim := exact.HPPow2(-10)
	for exact.HPAbs(y).Cmp(lim) > 0 {
		y = exact.HPQuo(y, exact.HPInt(2))
		k++
	}
	y2 := exact.HPMul(y, y)
	s = exact.HP(0).Set(y)
	co = exact.HPInt(1)
	ts := exact.HP(0).Set(y)
	tc := exact.HPInt(1)
	if y.Sign() != 0 {
		for n := int64(1); n < 200; n++ {
			tc = exact.HPNeg(exact.HPQuo(exact.HPMul(tc, y2), exact.HPInt((2*n-1)*(2*n))))
			ts = exact.HPNeg(exact.HPQuo(exact.HPMul(ts, y2), exact.HPInt((2*n)*(2*n+1))))
			co = exact.HPAdd(co, tc)
			s = exact.HPAdd(s, ts)
			if tc.Sign() == 0 || (tc.MantExp(nil) < -exact.HPPrec-16 && ts.MantExp(nil) < s.MantExp(nil)-exact.HPPrec-16) {
				break
			}
		}
	}
	for i := 0; i < k; i++ {
		s, co = exact.HPMul(exact.HPInt(2), exact.HPMul(s, co)), exact.HPSub(exact.HPMul(co, co), exact.HPMul(s, s))
	}
	return
}

// c01CovRemainder is the IEEE remainder x - n*y, n = x/y rounded to nearest (ties to even), in exact
// rational arithmetic.  The result is always representable; ok=false otherwise (harness error).
func c01CovRemainder(x, y float64) (r float64, tie bool, ok bool) {
	rx, ry := new(big.Rat).SetFloat64(x), new(big.Rat).SetFloat64(y)
	q := new(big.Rat).Quo(rx, ry)
	// n = floor(q + 1/2), corrected to even on ties
	h := new(big.Rat).Add(q, big.NewRat(1, 2))
	n := new(big.Int).Div(h.Num(), h.Denom()) // Euclidean division: floor for positive denominators
	if h.IsInt() {
		tie = true
		if n.Bit(0) == 1 {
			n.Sub(n, big.NewInt(1))
		}
	}
	rr := new(big.Rat).Sub(rx, new(big.Rat).Mul(new(big.Rat).SetInt(n), ry))
	r, ok = rr.Float64()
	return
}

type c01CovLL struct {
	lat, lng float64
	p        [3]*big.Float // exact point, 320 bits
}

func c01CovLatLng(c *core.Ctx) {
	const sub = "cov-latlng"
	v := c01Viol{c, sub}
	pi := math.Pi
	nUlp := core.Pick(c, 1, 3)
	addUlps := func(set map[uint64]bool, x float64, n int) {
		for d := -n; d <= n; d++ {
			y := lattice.Ulp(x, d)
			set[math.Float64bits(y)] = true
			set[math.Float64bits(-y)] = true
		}
	}
	// ---- alphabets (radians)
	latSet, lngSet := map[uint64]bool{}, map[uint64]bool{}
	for _, x := range []float64{0, 5e-324, 1e-300, 1e-15, 1e-8, 0.1, pi / 6, pi / 4, 0.6154797086703874, 1, pi / 3, 1.5} {
		addUlps(latSet, x, 0)
	}
	addUlps(latSet, pi/2, nUlp+1)
	addUlps(latSet, pi/4, nUlp)
	for _, x := range []float64{2, pi, 1.5 * pi, 2 * pi, 100, 1e15, 1e300, math.MaxFloat64} {
		addUlps(latSet, x, 0)
	}
	for _, x := range []float64{0, 5e-324, 1e-300, 1e-15, 1e-8, 0.5, 1, pi / 4, 2, 3, 0.75 * pi} {
		addUlps(lngSet, x, 0)
	}
	addUlps(lngSet, pi/2, nUlp)
	addUlps(lngSet, pi, nUlp+1)
	three := 3.0
	for k := 2; k <= core.Pick(c, 8, 33); k++ {
		addUlps(lngSet, float64(k)*pi, nUlp)
		addUlps(lngSet, float64(k)*pi/2, 0)
	}
	for _, x := range []float64{three * pi, 4, 7, 100, 100 * pi, 1e15, 1e15 * pi, 1 << 52, 1e300, math.MaxFloat64} {
		addUlps(lngSet, x, 0)
	}
	toList := func(set map[uint64]bool) []float64 {
		var out []float64
		for b := range set {
			out = append(out, math.Float64frombits(b))
		}
		sort.Slice(out, func(i, j int) bool {
			if out[i] != out[j] {
				return out[i] < out[j]
			}
			return math.Signbit(out[i]) && !math.Signbit(out[j])
		})
		return out
	}
	lats, lngs := toList(latSet), toList(lngSet)
	c.Note("cov_latlng_alphabet", []int{len(lats), len(lngs)})

	// ---- Normalized
	var nNorm, nChanged, nTie atomic.Int64
	twoPi := 2 * math.Pi
	c.ParallelFor(len(lats), func(i int) {
		for j, lng := range lngs {
			if c.Skip(sub, 0, i, j) {
				continue
			}
			lat := lats[i]
			cas := []int{0, i, j}
			ll := s2.LatLng{Lat: s1.Angle(lat), Lng: s1.Angle(lng)}
			det := func(extra ...any) any {
				return c01CovDet(append([]any{"lat", lat, "lng", lng, "lat_bits", fmt.Sprintf("%#x", math.Float64bits(lat)), "lng_bits", fmt.Sprintf("%#x", math.Float64bits(lng))}, extra...)...)
			}
			c.Guard(sub, cas, func() any { return det() }, func() {
				got := ll.Normalized()
				gl, gn := got.Lat.Radians(), got.Lng.Radians()
				if !got.IsValid() || !(math.Abs(gl) <= pi/2) || !(math.Abs(gn) <= pi) {
					v.bad(cas, "LatLng.Normalized() is not valid (Lat in [-pi/2,pi/2], Lng in [-pi,pi])", det("got", [2]float64{gl, gn}))
				}
				wantLat := math.Max(-pi/2, math.Min(pi/2, lat))
				if gl != wantLat {
					v.bad(cas, "LatLng.Normalized(): the latitude is not clamped to [-pi/2, pi/2]", det("got", gl, "want", wantLat))
				}
				r, tie, ok := c01CovRemainder(lng, twoPi)
				if !ok {
					panic(core.HarnessError("cov-latlng: exact remainder not representable"))
				}
				if tie {
					nTie.Add(1)
				}
				if !(gn == r || (math.Abs(r) == pi && gn == -r)) {
					v.bad(cas, "LatLng.Normalized(): the longitude is not the input wrapped by a whole number of turns into [-pi, pi]", det("got", gn, "want", r))
				}
				valid := math.Abs(lat) <= pi/2 && math.Abs(lng) <= pi
				if ll.IsValid() != valid {
					v.bad(cas, "LatLng.IsValid() differs from Lat in [-pi/2,pi/2] && Lng in [-pi,pi]", det())
				}
				if valid && (gl != lat || gn != lng) {
					v.bad(cas, "LatLng.Normalized() changes a LatLng that is already normalized", det("got", [2]float64{gl, gn}))
				}
				if again := got.Normalized(); again != got {
					v.bad(cas, "LatLng.Normalized() is not idempotent", det("got", [2]float64{gl, gn}))
				}
				if !valid {
					nChanged.Add(1)
					c.Nontrivial(1)
				}
			})
			nNorm.Add(1)
		}
	})
	c.Eval(int(nNorm.Load()))
	c.Count(sub+"/normalized_inputs", nNorm.Load())
	c.Count(sub+"/normalized_inputs_not_already_normalized", nChanged.Load())
	c.Count(sub+"/normalized_longitude_exactly_half_a_turn_from_a_multiple", nTie.Load())

	// ---- valid points with exact references
	type trig struct{ s, c *big.Float }
	tcache := map[uint64]trig{}
	get := func(x float64) trig {
		b := math.Float64bits(x)
		if t, ok := tcache[b]; ok {
			return t
		}
		s, co := c01CovSinCos(x)
		tcache[b] = trig{s, co}
		return tcache[b]
	}
	var pts []c01CovLL
	for _, lat := range lats {
		if math.Abs(lat) > pi/2 {
			continue
		}
		for _, lng := range lngs {
			if math.Abs(lng) > pi {
				continue
			}
			a, b := get(lat), get(lng)
			pts = append(pts, c01CovLL{lat, lng, [3]*big.Float{exact.HPMul(a.c, b.c), exact.HPMul(a.c, b.s), a.s}})
		}
	}
	c.Note("cov_latlng_valid_points", len(pts))
	// self-test of the reference: sin^2+cos^2 = 1, sin(pi_float) = pi - pi_float
	{
		s, co := c01CovSinCos(pi)
		e := exact.HPAbs(exact.HPSub(exact.HPAdd(exact.HPMul(s, s), exact.HPMul(co, co)), exact.HPInt(1)))
		dl := exact.HPSub(exact.HPPi(), exact.HP(pi)) // sin(pi_float) = sin(dl) = dl - dl^3/6 + dl^5/120 - ...
		d2 := exact.HPMul(dl, dl)
		ser := exact.HPMul(dl, exact.HPAdd(exact.HPSub(exact.HPInt(1), exact.HPQuo(d2, exact.HPInt(6))), exact.HPQuo(exact.HPMul(d2, d2), exact.HPInt(120))))
		d := exact.HPAbs(exact.HPSub(s, ser))
		if e.Cmp(exact.HPPow2(-280)) > 0 || d.Cmp(exact.HPPow2(-280)) > 0 {
			panic(core.HarnessError("cov-latlng: high-precision sin/cos self-test failed"))
		}
	}
	// ---- PointFromLatLng (documented maximum error 1.5*dblEpsilon) and the round trip
	lim2 := exact.HP(1.5 * c01Eps)
	lim2 = exact.HPMul(lim2, lim2)
	var nPole, nAnti atomic.Int64
	var worstPt atomic.Uint64
	c.ParallelFor(len(pts), func(i int) {
		if c.Skip(sub, 1, i) {
			return
		}
		q := pts[i]
		cas := []int{1, i}
		ll := s2.LatLng{Lat: s1.Angle(q.lat), Lng: s1.Angle(q.lng)}
		det := func(extra ...any) any {
			return c01CovDet(append([]any{"lat", q.lat, "lng", q.lng, "lat_bits", fmt.Sprintf("%#x", math.Float64bits(q.lat)), "lng_bits", fmt.Sprintf("%#x", math.Float64bits(q.lng))}, extra...)...)
		}
		c.Guard(sub, cas, func() any { return det() }, func() {
			p := s2.PointFromLatLng(ll)
			e2 := exact.HPInt(0)
			for k, x := range [3]float64{p.X, p.Y, p.Z} {
				d := exact.HPSub(exact.HP(x), q.p[k])
				e2 = exact.HPAdd(e2, exact.HPMul(d, d))
			}
			if e2.Cmp(lim2) > 0 {
				v.bad(cas, "PointFromLatLng is more than the documented 1.5*dblEpsilon from the exact point", det("got", [3]float64{p.X, p.Y, p.Z}, "error", math.Sqrt(exact.HPFloat64(e2))))
			}
			eb := math.Float64bits(math.Sqrt(exact.HPFloat64(e2)))
			for {
				old := worstPt.Load()
				if eb <= old || worstPt.CompareAndSwap(old, eb) {
					break
				}
			}
			back := s2.LatLngFromPoint(p)
			if !back.IsValid() {
				v.bad(cas, "LatLngFromPoint(PointFromLatLng(ll)) is not valid", det("got", [2]float64{back.Lat.Radians(), back.Lng.Radians()}))
				return
			}
			p2 := s2.PointFromLatLng(back)
			if d := p2.Sub(p.Vector); !(math.Abs(d.X) <= 1e-15 && math.Abs(d.Y) <= 1e-15 && math.Abs(d.Z) <= 1e-15) {
				v.bad(cas, "PointFromLatLng(LatLngFromPoint(p)) is more than 1e-15 from p", det("p", [3]float64{p.X, p.Y, p.Z}, "back", [2]float64{back.Lat.Radians(), back.Lng.Radians()}, "p2", [3]float64{p2.X, p2.Y, p2.Z}))
			}
			if !(math.Abs(back.Lat.Radians()-q.lat) <= 1e-15) {
				v.bad(cas, "the latitude does not survive PointFromLatLng / LatLngFromPoint within 1e-15", det("back", [2]float64{back.Lat.Radians(), back.Lng.Radians()}))
			}
			if math.Cos(q.lat) > 1e-3 {
				dl := math.Abs(back.Lng.Radians() - q.lng)
				if dl > pi {
					dl = 2*pi - dl // ±pi are the same meridian
				}
				if !(dl <= 1e-12) {
					v.bad(cas, "the longitude does not survive PointFromLatLng / LatLngFromPoint (away from the poles, modulo a full turn)", det("back", [2]float64{back.Lat.Radians(), back.Lng.Radians()}))
				}
			}
			if math.Abs(q.lat) == pi/2 {
				nPole.Add(1)
			}
			if math.Abs(q.lng) == pi {
				nAnti.Add(1)
			}
		})
	})
	// exact poles and the antimeridian as raw vectors, with zeros of either sign
	nz := math.Copysign(0, -1)
	for k, tc := range []struct {
		p        r3.Vector
		lat, lng float64 // lng: absolute value expected; -1 = any valid
	}{
		{r3.Vector{X: 0, Y: 0, Z: 1}, pi / 2, -1}, {r3.Vector{X: nz, Y: 0, Z: 1}, pi / 2, -1}, {r3.Vector{X: nz, Y: nz, Z: 1}, pi / 2, -1}, {r3.Vector{X: 0, Y: nz, Z: 1}, pi / 2, -1},
		{r3.Vector{X: 0, Y: 0, Z: -1}, -pi / 2, -1}, {r3.Vector{X: nz, Y: nz, Z: -1}, -pi / 2, -1},
		{r3.Vector{X: -1, Y: 0, Z: 0}, 0, pi}, {r3.Vector{X: -1, Y: nz, Z: 0}, 0, pi}, {r3.Vector{X: -1, Y: 0, Z: nz}, 0, pi}, {r3.Vector{X: -1, Y: nz, Z: nz}, 0, pi},
		{r3.Vector{X: 1, Y: 0, Z: 0}, 0, 0}, {r3.Vector{X: 1, Y: nz, Z: nz}, 0, 0}, {r3.Vector{X: 0, Y: 1, Z: 0}, 0, pi / 2}, {r3.Vector{X: nz, Y: -1, Z: nz}, 0, pi / 2},
		{r3.Vector{X: -2, Y: 0, Z: 0}, 0, pi}, {r3.Vector{X: 0, Y: 0, Z: 3}, pi / 2, -1}, {r3.Vector{X: -1e-300, Y: nz, Z: 0}, 0, pi}, {r3.Vector{X: 0, Y: 0, Z: -5e-324}, -pi / 2, -1},
	} {
		if c.Skip(sub, 2, k) {
			continue
		}
		ll := s2.LatLngFromPoint(s2.Point{Vector: tc.p})
		if !ll.IsValid() || ll.Lat.Radians() != tc.lat || (tc.lng >= 0 && math.Abs(ll.Lng.Radians()) != tc.lng) {
			v.bad([]int{2, k}, "LatLngFromPoint of an exact pole / axis / antimeridian vector is not that pole / axis / meridian", c01CovDet("p", [3]float64{tc.p.X, tc.p.Y, tc.p.Z}, "bits", c01CovBits(tc.p), "got", [2]float64{ll.Lat.Radians(), ll.Lng.Radians()}))
		}
		c.Eval(1)
	}
	c.Eval(len(pts))
	c.Count(sub+"/points_converted_and_back", int64(len(pts)))
	c.Count(sub+"/points_at_a_pole", nPole.Load())
	c.Count(sub+"/points_on_the_antimeridian", nAnti.Load())
	c.Note("cov_latlng_worst_PointFromLatLng_error_in_dblEpsilon", math.Float64frombits(worstPt.Load())/c01Eps)

	// ---- Distance and ApproxEqual on pairs
	stride := core.Pick(c, 7, 1) // second coordinate of the pair lattice (the diagonal is always included)
	// the antipode (-lat, lng -+ pi) of every point: x of the haversine formula is 1 up to rounding there,
	// on either side, which is what the clamp of 1-x at 0 is for
	anti := make([]c01CovLL, len(pts))
	for i, q := range pts {
		lng := q.lng - pi
		if q.lng <= 0 && !(q.lng == 0 && !math.Signbit(q.lng)) {
			lng = q.lng + pi
		}
		a, b := get(-q.lat), get(lng)
		anti[i] = c01CovLL{-q.lat, lng, [3]*big.Float{exact.HPMul(a.c, b.c), exact.HPMul(a.c, b.s), a.s}}
	}
	var nPairs, nDiff, nNearAnti, nApproxTrue, nApproxFalse atomic.Int64
	var worstD atomic.Uint64
	var once sync.Once
	c.ParallelFor(len(pts), func(i int) {
		if c.Expired() {
			once.Do(func() { c.CapHit(sub + ": wall budget reached") })
			return
		}
		a := pts[i]
		la := s2.LatLng{Lat: s1.Angle(a.lat), Lng: s1.Angle(a.lng)}
		for j := 0; j <= len(pts); j++ {
			if j != i && j != len(pts) && (i+j)%stride != 0 {
				continue
			}
			if c.Skip(sub, 3, i, j) {
				continue
			}
			b := anti[i] // j == len(pts): the antipode of a
			if j < len(pts) {
				b = pts[j]
			}
			lb := s2.LatLng{Lat: s1.Angle(b.lat), Lng: s1.Angle(b.lng)}
			cas := []int{3, i, j}
			det := func(extra ...any) any {
				return c01CovDet(append([]any{"a", [2]float64{a.lat, a.lng}, "b", [2]float64{b.lat, b.lng},
					"a_bits", [2]string{fmt.Sprintf("%#x", math.Float64bits(a.lat)), fmt.Sprintf("%#x", math.Float64bits(a.lng))},
					"b_bits", [2]string{fmt.Sprintf("%#x", math.Float64bits(b.lat)), fmt.Sprintf("%#x", math.Float64bits(b.lng))}}, extra...)...)
			}
			c.Guard(sub, cas, func() any { return det() }, func() {
				// reference angle between the exact points
				cx := exact.HPSub(exact.HPMul(a.p[1], b.p[2]), exact.HPMul(a.p[2], b.p[1]))
				cy := exact.HPSub(exact.HPMul(a.p[2], b.p[0]), exact.HPMul(a.p[0], b.p[2]))
				cz := exact.HPSub(exact.HPMul(a.p[0], b.p[1]), exact.HPMul(a.p[1], b.p[0]))
				cn := exact.HPSqrt(exact.HPAdd(exact.HPAdd(exact.HPMul(cx, cx), exact.HPMul(cy, cy)), exact.HPMul(cz, cz)))
				dot := exact.HPAdd(exact.HPAdd(exact.HPMul(a.p[0], b.p[0]), exact.HPMul(a.p[1], b.p[1])), exact.HPMul(a.p[2], b.p[2]))
				ref := math.Atan2(exact.HPFloat64(cn), exact.HPFloat64(dot))
				got := la.Distance(lb).Radians()
				// haversine: d = 2 atan2(sqrt x, sqrt(1-x)); a relative error of a few dblEpsilon in x is an
				// error of (that) * tan(d/2) in d, and x rounding to 1 when 1-x is about dblEpsilon caps the
				// error near the antipode at about 2*sqrt(dblEpsilon)
				tol := 2e-15 + math.Min(1e-7, 64*c01Eps*math.Tan(ref/2))
				if math.IsNaN(tol) || ref > pi-1e-7 {
					tol = 1e-7
				}
				if !(got >= 0 && got <= pi) {
					v.bad(cas, "LatLng.Distance is not in [0, pi]", det("got", got))
				} else if !(math.Abs(got-ref) <= tol) {
					v.bad(cas, "LatLng.Distance differs from the angle between the two points", det("got", got, "reference", ref, "tolerance", tol))
				}
				if back := lb.Distance(la).Radians(); !(math.Abs(back-got) <= tol) {
					v.bad(cas, "LatLng.Distance is not symmetric", det("got", got, "reverse", back))
				}
				if i == j && got != 0 {
					v.bad(cas, "LatLng.Distance(ll, ll) is not zero", det("got", got))
				}
				if ref > 0 {
					e := math.Float64bits(math.Abs(got-ref) / tol)
					for {
						old := worstD.Load()
						if e <= old || worstD.CompareAndSwap(old, e) {
							break
						}
					}
				}
				if ref > 2e-15 {
					nDiff.Add(1)
				}
				if ref > pi-1e-6 {
					nNearAnti.Add(1)
				}
				// ApproxEqual: "the same up to a small tolerance" per coordinate
				dLat, dLng := math.Abs(a.lat-b.lat), math.Abs(a.lng-b.lng)
				ae := la.ApproxEqual(lb)
				if ae != lb.ApproxEqual(la) {
					v.bad(cas, "LatLng.ApproxEqual is not symmetric", det())
				}
				if dLat <= 5e-16 && dLng <= 5e-16 {
					nApproxTrue.Add(1)
					if !ae {
						v.bad(cas, "LatLng.ApproxEqual is false for coordinates that differ by at most 5e-16", det())
					}
				} else if dLat >= 1e-12 || dLng >= 1e-12 {
					nApproxFalse.Add(1)
					if ae {
						v.bad(cas, "LatLng.ApproxEqual is true although a coordinate differs by 1e-12 or more", det())
					}
				}
			})
			nPairs.Add(1)
		}
	})
	c.Eval(int(nPairs.Load()))
	c.Nontrivial(int(nDiff.Load()))
	c.Count(sub+"/distance_pairs", nPairs.Load())
	c.Count(sub+"/distance_pairs_of_different_points", nDiff.Load())
	c.Count(sub+"/distance_pairs_within_1e-6_of_antipodal", nNearAnti.Load())
	c.Count(sub+"/approxequal_pairs_required_true", nApproxTrue.Load())
	c.Count(sub+"/approxequal_pairs_required_false", nApproxFalse.Load())
	c.Note("cov_latlng_worst_distance_error_as_fraction_of_tolerance", math.Float64frombits(worstD.Load()))
	c.Sample(map[string]any{"sub": sub, "lat_examples": lats[:4], "lng_examples": lngs[len(lngs)-4:]})
	if c.OnlySub == "" && (nChanged.Load() == 0 || nPole.Load() == 0 || nAnti.Load() == 0 || nNearAnti.Load() == 0 || nApproxTrue.Load() <= int64(len(pts)) || nApproxFalse.Load() == 0) {
		panic(core.HarnessError(sub + ": vacuous lattice"))
	}
}

// ---------------------------------------------------------------- cov-rectbound

func c01CovRectBound(c *core.Ctx, specs []c01Spec) {
	const sub = "cov-rectbound"
	v := c01Viol{c, sub}
	var done, probes, poleCells, fullLng, inverted, face25 atomic.Int64
	fr := []float64{0.25, 0.5, 0.75}
	if !c.Quick() {
		fr = []float64{0.0625, 0.25, 0.5, 0.75, 0.9375}
	}
	block := 64
	nb := (len(specs) + block - 1) / block
	var once sync.Once
	c.ParallelFor(nb, func(bi int) {
		if c.Expired() {
			once.Do(func() { c.CapHit(sub + ": wall budget reached") })
			return
		}
		for i := bi * block; i < (bi+1)*block && i < len(specs); i++ {
			if c.Skip(sub, i) {
				continue
			}
			sp := specs[i]
			m := refmodel.CubeCellFromIdx(sp.face, sp.level, sp.idx)
			cas := []int{i}
			det := func(extra ...any) any {
				return c01CovDet(append([]any{"cell", m.String(), "id", fmt.Sprintf("%#x", m.ID())}, extra...)...)
			}
			c.Guard(sub, cas, func() any { return det() }, func() {
				cell := s2.CellFromCellID(s2.CellID(m.ID()))
				rect := cell.RectBound()
				if !rect.IsValid() || rect.IsEmpty() {
					v.bad(cas, "Cell.RectBound is not a valid non-empty rectangle", det("rect", rect.String()))
					return
				}
				var ps []s2.Point
				var what []string
				for k := 0; k < 4; k++ {
					ps = append(ps, cell.Vertex(k))
					what = append(what, fmt.Sprintf("vertex %d", k))
				}
				ps = append(ps, cell.Center(), s2.CellID(m.ID()).Point())
				what = append(what, "Center()", "CellID.Point()")
				if ch, ok := cell.Children(); ok {
					for a := range ch {
						for k := 0; k < 4; k++ {
							ps = append(ps, ch[a].Vertex(k))
							what = append(what, fmt.Sprintf("vertex %d of child %d", k, a))
						}
					}
				}
				b := cell.BoundUV()
				for _, fu := range fr {
					for _, fv := range fr {
						u := b.X.Lo + fu*(b.X.Hi-b.X.Lo)
						w := b.Y.Lo + fv*(b.Y.Hi-b.Y.Lo)
						ps = append(ps, s2.Point{Vector: refmodel.FloatFromUVW(m.Face, u, w, 1).Normalize()})
						what = append(what, fmt.Sprintf("interior point at (%v,%v) of the (u,v) bound", fu, fv))
					}
				}
				for k, p := range ps {
					ll := s2.LatLngFromPoint(p)
					if !rect.ContainsLatLng(ll) {
						v.bad(cas, "Cell.RectBound does not contain the LatLng of a point of the cell", det("point", what[k], "p", [3]float64{p.X, p.Y, p.Z}, "latlng", [2]float64{ll.Lat.Radians(), ll.Lng.Radians()}, "rect", rect.String(),
							"rect_lat", [2]float64{rect.Lat.Lo, rect.Lat.Hi}, "rect_lng", [2]float64{rect.Lng.Lo, rect.Lng.Hi}))
						break
					}
				}
				probes.Add(int64(len(ps)))
				// a cell containing a pole contains it at every longitude
				half := 1 << 29
				if (m.Face == 2 || m.Face == 5) && m.I0 <= half && half <= m.I0+m.Size() && m.J0 <= half && half <= m.J0+m.Size() {
					poleCells.Add(1)
					lat := math.Pi / 2
					if m.Face == 5 {
						lat = -lat
					}
					for _, lng := range []float64{0, 1, math.Pi / 2, math.Pi, -math.Pi, -math.Pi / 2, -3} {
						if !rect.ContainsLatLng(s2.LatLng{Lat: s1.Angle(lat), Lng: s1.Angle(lng)}) {
							v.bad(cas, "Cell.RectBound of a cell containing a pole does not contain the pole at every longitude", det("lng", lng, "rect", rect.String()))
							break
						}
					}
				}
				if rect.Lng.IsFull() {
					fullLng.Add(1)
				} else if rect.Lng.IsInverted() {
					inverted.Add(1)
				}
				if m.Face == 2 || m.Face == 5 {
					face25.Add(1)
				}
			})
			done.Add(1)
		}
	})
	c.Eval(int(done.Load()))
	c.Nontrivial(int(done.Load()))
	c.Count(sub+"/cells", done.Load())
	c.Count(sub+"/points_tested_for_containment", probes.Load())
	c.Count(sub+"/cells_containing_a_pole", poleCells.Load())
	c.Count(sub+"/cells_on_the_polar_faces", face25.Load())
	c.Count(sub+"/bounds_with_full_longitude", fullLng.Load())
	c.Count(sub+"/bounds_crossing_the_antimeridian", inverted.Load())
	if c.OnlySub == "" && !c.Expired() && (poleCells.Load() == 0 || inverted.Load() == 0 || face25.Load() == 0) {
		panic(core.HarnessError(sub + ": no pole cell / no cell across the antimeridian was examined"))
	}
}
