package checks

import (
	"fmt"
	"math"

	"github.com/golang/geo/s2"

	"verif/mc/core"
	"verif/mc/exact"
	"verif/mc/refmodel"
)

// Primitive laws of check C18 (s2/point_measures.go), over all ordered triples
// of distinct points of P-deg:
//   TurnAngle(a,b,c) == -TurnAngle(c,b,a) exactly ("for all distinct a,b,c"),
//   Angle(a,b,c) == Angle(c,b,a) exactly,
//   the sign of TurnAngle and of SignedArea is the exact perturbed orientation,
//   PointArea >= 0,
//   |TurnAngle - exact exterior angle| <= 9.25 dblEpsilon (the per-vertex budget
//   documented in turningAngleMaxError: 3 + 3 for the two cross products, 3.25
//   for the angle).
// Triples in which b is antipodal to a or c are skipped (edges of length pi are
// not allowed); triples in which two points are different floats of exactly the
// same direction are judged in the sub-check "primitives-coincident".

func runC18Primitives(c *core.Ctx, r *c18Run, thorough bool) {
	pd := c18PDegPoints(thorough)
	n := len(pd)
	rel := make([][]int, n)
	for i := range pd {
		rel[i] = make([]int, n)
		for j := range pd {
			if i != j {
				rel[i][j] = c18DirRelation(pd[i], pd[j])
			}
		}
	}
	c.ParallelFor(n, func(i int) {
		if c.Expired() {
			return
		}
		for j := 0; j < n; j++ {
			if j == i || rel[i][j] < 0 {
				continue
			}
			for k := 0; k < n; k++ {
				if k == i || k == j || rel[j][k] < 0 {
					continue
				}
				sub := "primitives"
				coincident := rel[i][j] > 0 || rel[j][k] > 0 || rel[i][k] > 0
				if coincident {
					sub = "primitives-coincident"
				}
				if c.Skip(sub, i, j, k) {
					continue
				}
				a, b, cc := pd[i], pd[j], pd[k]
				det := func() any {
					return map[string]any{"a": [3]float64{a.X, a.Y, a.Z}, "b": [3]float64{b.X, b.Y, b.Z}, "c": [3]float64{cc.X, cc.Y, cc.Z}}
				}
				c.Guard(sub, []int{i, j, k}, det, func() {
					t1 := float64(s2.TurnAngle(a, b, cc))
					t2 := float64(s2.TurnAngle(cc, b, a))
					a1 := float64(s2.Angle(a, b, cc))
					a2 := float64(s2.Angle(cc, b, a))
					c.Eval(1)
					sos := refmodel.SoSSign(a, b, cc)
					if t1 != -t2 {
						c.Violate(sub, "wrong-answer", "TurnAngle(a,b,c) != -TurnAngle(c,b,a) for distinct a, b, c", []int{i, j, k}, map[string]any{"points": det(), "TurnAngle(a,b,c)": t1, "TurnAngle(c,b,a)": t2})
					}
					if a1 != a2 {
						c.Violate(sub, "wrong-answer", "Angle(a,b,c) != Angle(c,b,a)", []int{i, j, k}, map[string]any{"points": det(), "Angle(a,b,c)": a1, "Angle(c,b,a)": a2})
					}
					if (sos > 0 && t1 < 0) || (sos < 0 && t1 > 0) {
						c.Violate(sub, "wrong-answer", "the sign of TurnAngle is not the exact perturbed orientation of (a,b,c)", []int{i, j, k}, map[string]any{"points": det(), "TurnAngle": t1, "orientation": sos})
					}
					if rel[i][k] >= 0 { // no antipodal pair at all: a triangle
						sa := s2.SignedArea(a, b, cc)
						pa := s2.PointArea(a, b, cc)
						if pa < 0 || math.IsNaN(pa) {
							c.Violate(sub, "wrong-answer", "PointArea is negative or NaN", []int{i, j, k}, map[string]any{"points": det(), "PointArea": pa})
						}
						if (sos > 0 && sa < 0) || (sos < 0 && sa > 0) {
							c.Violate(sub, "wrong-answer", "the sign of SignedArea is not the exact perturbed orientation of (a,b,c)", []int{i, j, k}, map[string]any{"points": det(), "SignedArea": sa, "orientation": sos})
						}
					}
					if !coincident {
						// exact exterior angle at b
						ea, eb, ec := exact.FromVector(a.Vector), exact.FromVector(b.Vector), exact.FromVector(cc.Vector)
						n1, n2 := ea.Cross(eb), eb.Cross(ec)
						y := c18sqrtS(n1.Cross(n2).Norm2())
						x := n1.Dot(n2).Big(c18Prec)
						ang := c18atan2(y, x)
						if sos < 0 {
							ang.Neg(ang)
						}
						d := c18DiffF(t1, ang)
						tol := 9.25 * c18Eps
						r.m.obs("TurnAngle_vs_exact_exterior_angle (allowed 9.25 dblEpsilon)", d/tol, fmt.Sprintf("pdeg(%d,%d,%d)", i, j, k))
						if d > tol {
							c.Violate(sub, "bound-exceeded", "TurnAngle differs from the exact exterior angle by more than the documented 9.25 dblEpsilon", []int{i, j, k}, map[string]any{"points": det(), "TurnAngle": t1, "exact": c18Float(ang), "error": d})
						}
						if refmodel.ExactDetSign(a, b, cc) == 0 {
							c.Count("primitive_triples_exactly_coplanar", 1)
						}
					}
				})
				c.Count("primitive_triples:"+sub, 1)
			}
		}
	})
}
