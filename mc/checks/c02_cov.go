package checks

import (
	"fmt"
	"math"
	"math/big"
	"os"
	"sort"
	"sync"
	"sync/atomic"
	"time"

	"github.com/golang/geo/r3"
	"github.com/golang/geo/s1"
	"github.com/golang/geo/s2"

	"verif/mc/core"
	"verif/mc/exact"
	"verif/mc/lattice"
	"verif/mc/refmodel"
)

// C02 coverage-guided extension.  A statement-coverage measurement showed library code behind
// C02 that no check executed; the sub-checks below put that code on a finite lattice and judge it
// by an independent oracle:
//
//	circle-edge-ordering   CircleEdgeIntersectionOrdering / triageIntersectionOrdering /
//	                       exactIntersectionOrdering against the exact sign of the documented
//	                       quantity d(AB) - d(CD), d(AB) = (M.A)(N.B) - (M.B)(N.A) (exact integer
//	                       arithmetic), on every pair of edges that satisfies the documented
//	                       REQUIRES list; antisymmetry under exchanging the two edges
//	sign-zero-vector       the last five rows of the symbolic-perturbation table (reached only when
//	                       the lexicographically largest point is the zero vector) against the
//	                       definitional model of the perturbation
//	point-cross            Point.PointCross / symbolicCrossProdSorted (every tie-break level)
//	normalizable           Point.IsNormalizable / EnsureNormalizable
//	rotate                 s2.Rotate against Rodrigues' formula at 320 bits
//	precise-vector         r3.PreciseVector arithmetic against big.Rat arithmetic (exact)
//
// Oracles that disagree with golang/geo on the UNCHANGED tree for a reason that is a genuine
// defect candidate (see c02Candidate) are counted and noted in the evidence instead of failing the
// check, unless VERIF_C02_STRICT is set; everything else is an ordinary violation.
func init() {
	ck := Registry["C02"]
	run := ck.Run
	ck.Run = func(c *core.Ctx) {
		run(c)
		c02Cov(c)
	}
}

func c02Cov(c *core.Ctx) {
	c.Rule += "; coverage extension: every ordered pair of admissible edges (documented REQUIRES list, decided exactly) over a reflected degenerate/tiny/ulp-neighbour alphabet for each (M,N) normal pair (circle-edge ordering; non-trivial = exact ties and pairs whose float64 difference is within the 32 eps triage bound); every ordered pair of a degenerate/tiny/zero/proportional alphabet for PointCross (non-trivial = exactly proportional or identical pairs); every triple of a power-of-two magnitude alphabet around 2^-242 and the denormals for IsNormalizable/EnsureNormalizable; every (point, axis, angle) triple for Rotate; every ordered pair of a float64 vector alphabet (with second-level operands) for PreciseVector against big.Rat (non-trivial = results not representable in float64)"
	c.Assume = append(c.Assume,
		"coverage extension: sortPoints and regularPoints (s2/point.go) are unexported and unused outside golang/geo's tests, and the default branch of symbolicCompareDistances is unreachable (CompareDistances returns for a == b before); no input reaches them",
		"coverage extension: triageIntersectionOrdering has no verification hook; its soundness is observed through CircleEdgeIntersectionOrdering (a wrong definite triage answer is a wrong final answer)",
	)
	for _, st := range []struct {
		name string
		run  func(*core.Ctx)
	}{
		{"circle-edge-ordering", c02CovOrdering}, {"sign-zero-vector", c02CovSignZero}, {"point-cross", c02CovPointCross},
		{"normalizable", c02CovNormalizable}, {"rotate", c02CovRotate}, {"precise-vector", c02CovPrecise},
	} {
		t0 := time.Now()
		st.run(c)
		c.Note("cov/wall_s "+st.name, math.Round(time.Since(t0).Seconds()*10)/10) // diagnostic only, never judged
	}
}

var c02Strict = os.Getenv("VERIF_C02_STRICT") != ""

var c02CandMu sync.Mutex
var c02CandSeen = map[string]bool{}

// c02Candidate records a disagreement that was analysed and found to be a genuine defect candidate
// of golang/geo on the unchanged tree (documented in the final report of the extension).  With
// VERIF_C02_STRICT set it is an ordinary violation.
func c02Candidate(c *core.Ctx, sub, desc string, cas []int, detail any) {
	if c02Strict {
		c.Violate(sub, "wrong-answer", desc, cas, detail)
		return
	}
	c.Count("candidate-defect/"+sub+": "+desc, 1)
	c02CandMu.Lock()
	first := !c02CandSeen[sub+desc]
	c02CandSeen[sub+desc] = true
	c02CandMu.Unlock()
	if first {
		c.Note("candidate-defect-example/"+sub+": "+desc, detail)
	}
}

func c02Neg(p s2.Point) s2.Point { return s2.Point{Vector: r3.Vector{X: -p.X, Y: -p.Y, Z: -p.Z}} }

func c02Pt(x, y, z float64) s2.Point { return s2.Point{Vector: r3.Vector{X: x, Y: y, Z: z}} }

// ---------------------------------------------------------------------------------------------
// circle-edge-ordering

type c02Edge struct {
	a, b   int     // alphabet indices
	prod   exact.S // d = (M.A)(N.B) - (M.B)(N.A), exact
	fprod  float64 // the same expression in float64 (for classification only)
	rank   int     // rank of prod among the edges (ties share a rank)
	grank  int     // rank of the crossing's true distance from N: d / |(M.A)B - (M.B)A| (ties share)
	quad1  bool    // both vertices on the positive side of N
	x2     exact.S // |(M.A)B - (M.B)A|^2
	prodSq exact.S
}

func c02OrderingAlphabet(c *core.Ctx) []s2.Point {
	var base []s2.Point
	deg := lattice.PDeg(false)
	stepD := core.Pick(c, 4, 2)
	for i := 0; i < len(deg); i += stepD {
		base = append(base, deg[i])
	}
	tiny := lattice.PTiny(false)
	stepT := core.Pick(c, 9, 5)
	for i := 1; i < len(tiny); i += stepT {
		base = append(base, tiny[i])
	}
	gen := lattice.PGeneric(false)
	for i := 0; i < len(gen); i += core.Pick(c, 17, 9) {
		base = append(base, gen[i])
	}
	var out []s2.Point
	for _, p := range base {
		out = append(out, p,
			c02Pt(p.X, p.Y, -p.Z), c02Pt(p.X, -p.Y, p.Z), c02Pt(-p.X, p.Y, p.Z), c02Neg(p))
	}
	// ulp neighbours of two reflected points in general position and of one degenerate point
	for _, p := range []s2.Point{gen[3], c02Pt(gen[3].X, gen[3].Y, -gen[3].Z), deg[5]} {
		for _, q := range lattice.PUlp(p, 1) {
			if c.Quick() && (q.X != p.X) { // quick: the 9 neighbours in y and z only
				continue
			}
			out = append(out, q)
		}
	}
	return lattice.Dedup(out)
}

func c02CovOrdering(c *core.Ctx) {
	const sub = "circle-edge-ordering"
	pts := c02OrderingAlphabet(c)
	np := len(pts)
	ex := make([]exact.V, np)
	for i, p := range pts {
		ex[i] = exact.FromVector(p.Vector)
	}
	c.Note("ordering/alphabet_size", np)
	// normals: axes, unnormalised cell-edge normals (components at most one, length at most sqrt 2),
	// and a unit normal in general position
	normals := []s2.Point{
		c02Pt(0, 0, 1), c02Pt(1, 0, 0), c02Pt(0, 1, 0),
		c02Pt(-0.5, 0, 1), c02Pt(1, 0, -0.25), c02Pt(1, 1, 0), c02Pt(0, -1.0/3, 1),
		lattice.PGeneric(false)[10], c02Pt(0, 0, -1), c02Pt(-1, 0.75, 0),
	}
	type mn struct{ m, n int }
	pairs := []mn{{0, 1}, {0, 2}, {3, 4}, {5, 0}, {6, 1}, {7, 3}}
	if !c.Quick() {
		pairs = append(pairs, mn{1, 0}, mn{2, 5}, mn{4, 3}, mn{8, 9}, mn{9, 6}, mn{7, 2}, mn{3, 7}, mn{1, 6})
	}
	maxEdges := core.Pick(c, 1000, 2600)
	const triageBound = 32 * 2.220446049250313e-16
	var totalTies, totalNear, totalPairs, totalGeoDisagree, totalGeoJudged int64
	for pi, pr := range pairs {
		if c.Expired() {
			c.CapHit(sub + ": wall budget reached")
			break
		}
		m, n := normals[pr.m], normals[pr.n]
		em, en := exact.FromVector(m.Vector), exact.FromVector(n.Vector)
		md := make([]exact.S, np)
		nd := make([]exact.S, np)
		for i := range pts {
			md[i] = em.Dot(ex[i])
			nd[i] = en.Dot(ex[i])
		}
		// admissible edges: A strictly on the positive side of M, B strictly on the negative side,
		// A != +-B, crossing strictly on the positive side of N (all decided exactly)
		var edges []c02Edge
		for i := 0; i < np; i++ {
			if md[i].Sign() <= 0 {
				continue
			}
			for j := 0; j < np; j++ {
				if md[j].Sign() >= 0 || pts[i] == pts[j] || antipodal(pts[i], pts[j]) {
					continue
				}
				prod := md[i].Mul(nd[j]).Sub(md[j].Mul(nd[i]))
				if prod.Sign() <= 0 {
					continue
				}
				a, b := pts[i], pts[j]
				f := m.Dot(a.Vector)*n.Dot(b.Vector) - m.Dot(b.Vector)*n.Dot(a.Vector)
				edges = append(edges, c02Edge{a: i, b: j, prod: prod, fprod: f,
					quad1: nd[i].Sign() > 0 && nd[j].Sign() > 0})
			}
		}
		if len(edges) > maxEdges {
			step := float64(len(edges)) / float64(maxEdges)
			var sel []c02Edge
			for x := 0; x < maxEdges; x++ {
				sel = append(sel, edges[int(float64(x)*step)])
			}
			c.Count("ordering/admissible_edges_not_used(subsampled)", int64(len(edges)-len(sel)))
			edges = sel
		}
		ne := len(edges)
		if ne < 2 {
			continue
		}
		// exact ranks of d and of the crossing's true (normalised) distance from N
		for k := range edges {
			e := &edges[k]
			var x2 exact.S = exact.Int(0)
			for ax := 0; ax < 3; ax++ {
				xc := md[e.a].Mul(ex[e.b].Comp(ax)).Sub(md[e.b].Mul(ex[e.a].Comp(ax)))
				x2 = x2.Add(xc.Mul(xc))
			}
			e.x2 = x2
			e.prodSq = e.prod.Mul(e.prod)
		}
		ord := make([]int, ne)
		for k := range ord {
			ord[k] = k
		}
		sort.SliceStable(ord, func(x, y int) bool { return edges[ord[x]].prod.Cmp(edges[ord[y]].prod) < 0 })
		r := 0
		for k := range ord {
			if k > 0 && edges[ord[k]].prod.Cmp(edges[ord[k-1]].prod) != 0 {
				r++
			}
			edges[ord[k]].rank = r
		}
		gcmp := func(x, y *c02Edge) int { return exact.CmpRatio(x.prodSq, x.x2, y.prodSq, y.x2) } // d > 0 for all edges
		sort.SliceStable(ord, func(x, y int) bool { return gcmp(&edges[ord[x]], &edges[ord[y]]) < 0 })
		r = 0
		for k := range ord {
			if k > 0 && gcmp(&edges[ord[k]], &edges[ord[k-1]]) != 0 {
				r++
			}
			edges[ord[k]].grank = r
		}
		sgn := func(x int) int {
			if x < 0 {
				return -1
			}
			if x > 0 {
				return 1
			}
			return 0
		}
		var ties, near, evals, geoDis, geoJudged int64
		c.ParallelFor(ne, func(e1 int) {
			if c.Expired() {
				return
			}
			var lt, ln, le, lg, lj int64
			E1 := &edges[e1]
			a, b := pts[E1.a], pts[E1.b]
			for e2 := e1; e2 < ne; e2++ {
				if c.Skip(sub, pi, e1, e2) {
					continue
				}
				E2 := &edges[e2]
				cc, d := pts[E2.a], pts[E2.b]
				cas := []int{pi, e1, e2}
				detail := func() any {
					return map[string]any{"a": ptStr(a), "b": ptStr(b), "c": ptStr(cc), "d": ptStr(d), "m": ptStr(m), "n": ptStr(n)}
				}
				c.Guard(sub, cas, detail, func() {
					want := sgn(E1.rank - E2.rank)
					got := s2.CircleEdgeIntersectionOrdering(a, b, cc, d, m, n)
					back := s2.CircleEdgeIntersectionOrdering(cc, d, a, b, m, n)
					le += 2
					floatNear := math.Abs(E1.fprod-E2.fprod) <= triageBound
					if got != want {
						switch {
						case !floatNear:
							c.Violate(sub, "wrong-answer", "CircleEdgeIntersectionOrdering returns a wrong sign although the float64 difference is outside the 32 eps triage bound (fast path certain and wrong)", cas, detail())
						case want == 0:
							c.Violate(sub, "wrong-answer", "CircleEdgeIntersectionOrdering is non-zero although (M.A)(N.B)-(M.B)(N.A) and (M.C)(N.D)-(M.D)(N.C) are exactly equal", cas, detail())
						default:
							c.Violate(sub, "wrong-answer", "CircleEdgeIntersectionOrdering differs from the exact sign of [(M.A)(N.B)-(M.B)(N.A)] - [(M.C)(N.D)-(M.D)(N.C)] on a nearly tied pair (exact stage)", cas, detail())
						}
					}
					if back != -got {
						c.Violate(sub, "wrong-answer", "CircleEdgeIntersectionOrdering is not antisymmetric under exchanging edge AB with edge CD", cas, detail())
					}
					if want == 0 && e1 != e2 {
						lt++
					}
					if floatNear && e1 != e2 {
						ln++
					}
					// documented geometric meaning (-1: crossing AB closer to N than crossing CD, 0: same
					// position), judged only where all four vertices are also on the positive side of N
					if E1.quad1 && E2.quad1 && e1 != e2 {
						lj++
						if gw := sgn(E1.grank - E2.grank); gw != got {
							lg++
							what := "CircleEdgeIntersectionOrdering contradicts its documented meaning: the crossings are ordered by the UNNORMALISED vectors (A x B) x M, so edges of different length / inclination are ordered wrongly (documented: -1 iff crossing AB is closer to N, 0 iff same position)"
							c02Candidate(c, sub, what, cas, map[string]any{"a": ptStr(a), "b": ptStr(b), "c": ptStr(cc), "d": ptStr(d), "m": ptStr(m), "n": ptStr(n), "got": got, "by_true_distance_from_N": gw})
						}
					}
				})
			}
			atomic.AddInt64(&ties, lt)
			atomic.AddInt64(&near, ln)
			atomic.AddInt64(&evals, le)
			atomic.AddInt64(&geoDis, lg)
			atomic.AddInt64(&geoJudged, lj)
		})
		// ulp neighbourhood of one endpoint: every edge of an evenly spread subset against the edges
		// obtained by moving B (resp. A) by at most one ulp per coordinate -- always inside the triage
		// bound, decided by the exact stage
		stepE := ne/core.Pick(c, 60, 400) + 1
		var sel []int
		for k := 0; k < ne; k += stepE {
			sel = append(sel, k)
		}
		var ulpEvals, ulpTies int64
		c.ParallelFor(len(sel), func(si int) {
			if c.Expired() {
				return
			}
			E := &edges[sel[si]]
			a, b := pts[E.a], pts[E.b]
			var le, lt int64
			for which := 0; which < 2; which++ {
				moved := b
				if which == 1 {
					moved = a
				}
				for qi, q := range lattice.PUlp(moved, 1) {
					if c.Skip(sub+"-ulp", pi, si, which, qi) {
						continue
					}
					cc, d := a, q
					if which == 1 {
						cc, d = q, b
					}
					ec, ed := exact.FromVector(cc.Vector), exact.FromVector(d.Vector)
					mc, mdd, nc, ndd := em.Dot(ec), em.Dot(ed), en.Dot(ec), en.Dot(ed)
					p2 := mc.Mul(ndd).Sub(mdd.Mul(nc))
					if mc.Sign() <= 0 || mdd.Sign() >= 0 || p2.Sign() <= 0 || cc == d || antipodal(cc, d) {
						continue
					}
					cas := []int{pi, si, which, qi}
					detail := func() any {
						return map[string]any{"a": ptStr(a), "b": ptStr(b), "c": ptStr(cc), "d": ptStr(d), "m": ptStr(m), "n": ptStr(n)}
					}
					c.Guard(sub+"-ulp", cas, detail, func() {
						want := E.prod.Cmp(p2)
						le++
						if want == 0 && !(cc == a && d == b) {
							lt++
						}
						if got := s2.CircleEdgeIntersectionOrdering(a, b, cc, d, m, n); got != want {
							c.Violate(sub+"-ulp", "wrong-answer", "CircleEdgeIntersectionOrdering differs from the exact sign for two edges that differ by one ulp in one endpoint (exact stage)", cas, detail())
						}
						if got := s2.CircleEdgeIntersectionOrdering(cc, d, a, b, m, n); got != -want {
							c.Violate(sub+"-ulp", "wrong-answer", "CircleEdgeIntersectionOrdering differs from the exact sign for two edges that differ by one ulp in one endpoint (exact stage, edges exchanged)", cas, detail())
						}
					})
				}
			}
			atomic.AddInt64(&ulpEvals, le)
			atomic.AddInt64(&ulpTies, lt)
		})
		c.Eval(int(evals + 2*ulpEvals))
		c.Nontrivial(int(near + ulpEvals))
		c.Count("ordering/admissible_edges", int64(ne))
		c.Count("ordering/edge_pairs_evaluated(both orders)", evals)
		c.Count("ordering/exact_ties_of_distinct_edges", ties+ulpTies)
		c.Count("ordering/pairs_inside_triage_bound(exact stage or duplicate shortcut)", near)
		c.Count("ordering/ulp_neighbour_pairs(exact stage)", ulpEvals)
		c.Count("ordering/pairs_judged_by_documented_geometric_meaning", geoJudged)
		totalTies += ties + ulpTies
		totalNear += near + ulpEvals
		totalPairs += evals
		totalGeoDisagree += geoDis
		totalGeoJudged += geoJudged
		if pi == 0 && ne > 3 {
			e := edges[ne/3]
			f := edges[2*ne/3]
			c.Sample(map[string]any{"sub": sub, "a": ptStr(pts[e.a]), "b": ptStr(pts[e.b]), "c": ptStr(pts[f.a]), "d": ptStr(pts[f.b]), "m": ptStr(m), "n": ptStr(n)})
		}
	}
	if c.Expired() {
		c.CapHit(sub + ": wall budget reached")
		return
	}
	if c.OnlySub == "" && c.NumViolations() == 0 && (totalTies == 0 || totalNear == 0 || totalPairs == 0) {
		panic(core.HarnessError(fmt.Sprintf("circle-edge-ordering is vacuous: pairs=%d exact ties=%d pairs inside the triage bound=%d", totalPairs, totalTies, totalNear)))
	}
}

// ---------------------------------------------------------------------------------------------
// sign-zero-vector: RobustSign's documentation quantifies over all a, b, c; the perturbation table's
// last rows (dc.Z ... dc.Z*db.Y*da.X) are reached only when the largest point is the zero vector.

func c02CovSignZero(c *core.Ctx) {
	const sub = "sign-zero-vector"
	var al []s2.Point
	al = append(al, lattice.PDeg(!c.Quick())...)
	for _, p := range lattice.PDeg(false) {
		al = append(al, c02Neg(p), c02Pt(-p.X, p.Y, p.Z), c02Pt(p.X, -p.Y, -p.Z))
	}
	for _, p := range []s2.Point{c02Pt(-1, 0, 0), c02Pt(0, -1, 0), c02Pt(0, 0, -1), c02Pt(0, -1, -1), c02Pt(0, -1, 1), c02Pt(-1, 0, -1), c02Pt(-1, -1, 0), c02Pt(-1, 1, 0)} {
		al = append(al, p, s2.Point{Vector: p.Mul(0.5)})
	}
	tiny := lattice.PTiny(false)
	for i := 0; i < len(tiny); i += 6 {
		al = append(al, tiny[i], c02Neg(tiny[i]))
	}
	al = lattice.Dedup(al)
	n := len(al)
	zero := s2.Point{}
	c.Note("sign-zero/alphabet_size", n)
	var rows [6]int64 // which of the last rows decided (model-side classification)
	c.ParallelFor(n, func(i int) {
		var evals int64
		var lrows [6]int64
		for j := 0; j < n; j++ {
			if i == j || c.Skip(sub, i, j) {
				continue
			}
			a, b := al[i], al[j]
			cas := []int{i, j}
			detail := func() any { return map[string]any{"a": ptStr(a), "b": ptStr(b), "c": "(0,0,0)"} }
			c.Guard(sub, cas, detail, func() {
				want := refmodel.SoSSign(a, b, zero)
				evals++
				for oi, o := range [][3]s2.Point{{a, b, zero}, {b, zero, a}, {zero, a, b}, {b, a, zero}, {zero, b, a}, {a, zero, b}} {
					w := want
					if oi >= 3 {
						w = -want
					}
					if got := int(s2.RobustSign(o[0], o[1], o[2])); got != w {
						if got == 0 {
							c.Violate(sub, "wrong-answer", "RobustSign is zero for three distinct points one of which is the zero vector", cas, detail())
						} else {
							c.Violate(sub, "wrong-answer", "RobustSign of a triple containing the zero vector differs from the documented symbolic perturbation (last rows of the table)", cas, detail())
						}
					}
					if ts := int(s2.VerifTriageSign(o[0], o[1], o[2])); ts != 0 {
						c.Violate(sub, "wrong-answer", "triageSign reports a definite sign for a triple whose determinant is exactly zero (zero vector)", cas, detail())
					}
					if ss := int(s2.VerifStableSign(o[0], o[1], o[2])); ss != 0 {
						c.Violate(sub, "wrong-answer", "stableSign reports a definite sign for a triple whose determinant is exactly zero (zero vector)", cas, detail())
					}
					if es := int(s2.VerifExactSign(o[0], o[1], o[2], true)); es != w {
						c.Violate(sub, "wrong-answer", "exactSign of a triple containing the zero vector differs from the documented symbolic perturbation", cas, detail())
					}
				}
				// classification: the zero vector is the largest of the three iff a, b < 0 lexicographically
				if a.Cmp(zero.Vector) < 0 && b.Cmp(zero.Vector) < 0 {
					lo, hi := a, b
					if lo.Cmp(hi.Vector) > 0 {
						lo, hi = hi, lo
					}
					switch {
					case lo.X*hi.Y != lo.Y*hi.X: // exact for the alphabet's purposes: classification only
						lrows[0]++
					case hi.X != 0:
						lrows[1]++
					case hi.Y != 0:
						lrows[2]++
					case lo.X != 0:
						lrows[3]++
					default:
						lrows[4]++
					}
				} else {
					lrows[5]++
				}
			})
		}
		c.Eval(int(6 * evals))
		c.Nontrivial(int(evals))
		for k := range lrows {
			atomic.AddInt64(&rows[k], lrows[k])
		}
	})
	names := []string{"dc.Z", "dc.Z*da.Y", "dc.Z*da.X", "dc.Z*db.Y", "dc.Z*db.Y*da.X", "zero vector not the largest point"}
	for k, nme := range names {
		c.Count("sign-zero/row "+nme, rows[k])
	}
	if c.OnlySub == "" && c.NumViolations() == 0 {
		for k := 0; k < 5; k++ {
			if rows[k] == 0 {
				panic(core.HarnessError("sign-zero-vector is vacuous: no pair reaches table row " + names[k]))
			}
		}
	}
	c.Sample(map[string]any{"sub": sub, "a": ptStr(al[0]), "b": ptStr(al[n-1]), "c": "(0,0,0)"})
}

// ---------------------------------------------------------------------------------------------
// point-cross

func c02CovPointCross(c *core.Ctx) {
	const sub = "point-cross"
	thorough := !c.Quick()
	var q []s2.Point
	q = append(q, lattice.PDeg(thorough)...)
	q = append(q, lattice.PTiny(thorough)...)
	u := 1.0 / (1 << 52)
	extra := []s2.Point{
		{}, // the zero vector: reaches the db.Z and db.Z*da.Y levels
		c02Pt(-1, 0, 0), c02Pt(0, -1, 0), c02Pt(0, 0, -1),
		c02Pt(0, 0, 1+2*u), c02Pt(0, 0, -1-2*u), c02Pt(0, 0, 1-u), c02Pt(0, 1-u, 0), c02Pt(0, -1-2*u, 0),
		c02Pt(1+2*u, 0, 0), c02Pt(-1+u, 0, 0),
		// not proportional, yet (p+q) x (q-p) underflows to the zero vector
		c02Pt(1, 5e-324, 0), c02Pt(1+2*u, 5e-324, 0), c02Pt(-1-2*u, -5e-324, 0), c02Pt(1, 0, 5e-324), c02Pt(1-u, 0, 5e-324),
	}
	q = append(q, extra...)
	deg := lattice.PDeg(false)
	for i, p := range deg {
		if i%2 == 0 {
			q = append(q, s2.Point{Vector: p.Mul(-(1 + 2*u))}, s2.Point{Vector: p.Mul(-1)})
		}
	}
	q = lattice.Dedup(q)
	n := len(q)
	c.Note("point-cross/alphabet_size", n)
	// probes for the consistency with RobustSign's perturbation
	probes := []s2.Point{c02Pt(1, 0, 0), c02Pt(0, 1, 0), c02Pt(0, 0, 1), c02Pt(-1, 0, 0), c02Pt(0, -1, 0), c02Pt(0, 0, -1)}
	for i := 0; i < len(deg); i += 2 {
		probes = append(probes, deg[i])
	}
	probes = lattice.Dedup(probes)
	exq := make([]exact.V, n)
	for i, p := range q {
		exq[i] = exact.FromVector(p.Vector)
	}
	finite := func(v r3.Vector) bool {
		return !math.IsNaN(v.X+v.Y+v.Z) && !math.IsInf(v.X, 0) && !math.IsInf(v.Y, 0) && !math.IsInf(v.Z, 0)
	}
	tol2 := exact.S{M: big.NewInt(1), E: -80} // (2^-40)^2
	// |x.p|^2 <= 2^-80 |x|^2 |p|^2
	orth := func(x, p exact.V) bool {
		d := x.Dot(p)
		return d.Mul(d).Cmp(tol2.Mul(x.Norm2()).Mul(p.Norm2())) <= 0
	}
	var level [5]int64
	var prop, same, general, conflict34, sosJudged int64
	c.ParallelFor(n, func(i int) {
		var lprop, lsame, lgen, lconf, lsos, evals int64
		var llevel [5]int64
		a := q[i]
		for j := 0; j < n; j++ {
			if c.Skip(sub, i, j) {
				continue
			}
			b := q[j]
			if a == (s2.Point{}) && b == (s2.Point{}) {
				continue // (0,0,0) x (0,0,0): no direction is orthogonal "and non-zero" in any useful sense; a Point is a unit vector
			}
			cas := []int{i, j}
			detail := func() any { return map[string]any{"p": ptStr(a), "op": ptStr(b)} }
			c.Guard(sub, cas, detail, func() {
				evals++
				x := a.PointCross(b)
				y := b.PointCross(a)
				if !finite(x.Vector) {
					c.Violate(sub, "wrong-answer", "PointCross returns a non-finite vector", cas, detail())
					return
				}
				if x.Vector == (r3.Vector{}) {
					c.Violate(sub, "wrong-answer", "PointCross returns the zero vector (documented: f(p, op) != 0 for all p, op)", cas, detail())
					return
				}
				ex := exact.FromVector(x.Vector)
				parallel := exq[i].Cross(exq[j]).IsZero()
				switch {
				case a == b:
					lsame++
					if !orth(ex, exq[i]) {
						c.Violate(sub, "wrong-answer", "PointCross(p, p) is not orthogonal to p", cas, detail())
					}
				case parallel:
					lprop++
					// exactly proportional, distinct: symbolicCrossProdSorted (documented: the coefficient of
					// the largest non-vanishing term of the cross product under RobustSign's perturbation)
					if ex.Dot(exq[i]).Sign() != 0 || ex.Dot(exq[j]).Sign() != 0 {
						c.Violate(sub, "wrong-answer", "PointCross of two exactly proportional points is not exactly orthogonal to them", cas, detail())
					}
					if y.Vector != x.Vector.Mul(-1) {
						c.Violate(sub, "wrong-answer", "PointCross(op, p) != -PointCross(p, op) for distinct exactly proportional points", cas, detail())
					}
					for _, pr := range probes {
						if pr == a || pr == b {
							continue
						}
						s := ex.Dot(exact.FromVector(pr.Vector)).Sign()
						if s == 0 {
							continue
						}
						lsos++
						if want := refmodel.SoSSign(a, b, pr); want != s {
							c.Violate(sub, "wrong-answer", "PointCross of two exactly proportional points is inconsistent with RobustSign's symbolic perturbation: sign(PointCross(p,op).c) != sign of the perturbed det(p,op,c)", cas, map[string]any{"p": ptStr(a), "op": ptStr(b), "c": ptStr(pr), "pointcross": ptStr(x), "perturbed_det_sign": want})
							break
						}
					}
					lo, hi := a, b
					if lo.Cmp(hi.Vector) > 0 {
						lo, hi = hi, lo
					}
					switch {
					case hi.X != 0 || hi.Y != 0:
						llevel[0]++
					case hi.Z != 0:
						llevel[1]++
					case lo.X != 0 || lo.Y != 0:
						llevel[2]++
					default:
						llevel[3]++
					}
					// documented laws (3), (4) exempt only p == +-op, but they are incompatible with a
					// perturbation that does not negate with the point: counted, not asserted (see report)
					if !antipodal(a, b) {
						if c02Neg(a).PointCross(b).Vector != x.Vector.Mul(-1) || a.PointCross(c02Neg(b)).Vector != x.Vector.Mul(-1) {
							lconf++
						}
					}
				default:
					lgen++
					underflow := a.Add(b.Vector).Cross(b.Sub(a.Vector)) == (r3.Vector{})
					if !orth(ex, exq[i]) || !orth(ex, exq[j]) {
						xmax := math.Max(math.Abs(x.X), math.Max(math.Abs(x.Y), math.Abs(x.Z)))
						if xmax < math.Ldexp(1, -970) {
							// the float cross product is so small that its minor components fall below the smallest
							// denormal: accuracy is lost by underflow (points separated by less than ~1e-292)
							c02Candidate(c, sub, "PointCross of two points separated by a denormal-scale amount loses the minor components of the cross product by underflow: the result deviates from orthogonality by more than 2^-40 (relative)", cas,
								map[string]any{"p": ptStr(a), "op": ptStr(b), "pointcross": ptStr(x)})
						} else {
							c.Violate(sub, "wrong-answer", "PointCross(p, op) is not orthogonal to p and op (relative deviation above 2^-40)", cas, detail())
						}
					}
					if y.Vector != x.Vector.Mul(-1) {
						c.Violate(sub, "wrong-answer", "documented law (2) fails: PointCross(op, p) != -PointCross(p, op) for p != +-op", cas, detail())
					}
					// "similar to p.Cross(op) (the true cross product)": same side as the exact cross product
					trueCross := exq[i].Cross(exq[j])
					along := ex.Dot(trueCross).Sign() > 0
					law3 := c02Neg(a).PointCross(b).Vector == x.Vector.Mul(-1)
					law4 := a.PointCross(c02Neg(b)).Vector == x.Vector.Mul(-1)
					if underflow {
						// the float64 expression (p+op) x (op-p) underflows to the zero vector although p and op
						// are NOT proportional: PointCross then takes the branch meant for proportional points
						if !along || !law3 || !law4 {
							c02Candidate(c, sub, "PointCross of two NON-proportional points whose float cross product underflows to zero uses the symbolic (proportional-points) branch: the result is not along the true cross product and/or documented laws (3),(4) fail", cas,
								map[string]any{"p": ptStr(a), "op": ptStr(b), "pointcross": ptStr(x), "along_true_cross_product": along, "law3_holds": law3, "law4_holds": law4})
						}
					} else {
						if !along {
							c.Violate(sub, "wrong-answer", "PointCross(p, op) points away from the true cross product p x op", cas, detail())
						}
						if !law3 {
							c.Violate(sub, "wrong-answer", "documented law (3) fails: PointCross(-p, op) != -PointCross(p, op) for non-proportional p, op", cas, detail())
						}
						if !law4 {
							c.Violate(sub, "wrong-answer", "documented law (4) fails: PointCross(p, -op) != -PointCross(p, op) for non-proportional p, op", cas, detail())
						}
					}
					if underflow {
						llevel[4]++
					}
				}
			})
		}
		c.Eval(int(evals))
		c.Nontrivial(int(lprop + lsame))
		atomic.AddInt64(&prop, lprop)
		atomic.AddInt64(&same, lsame)
		atomic.AddInt64(&general, lgen)
		atomic.AddInt64(&conflict34, lconf)
		atomic.AddInt64(&sosJudged, lsos)
		for k := range llevel {
			atomic.AddInt64(&level[k], llevel[k])
		}
	})
	c.Count("point-cross/identical_pairs", same)
	c.Count("point-cross/exactly_proportional_distinct_pairs", prop)
	c.Count("point-cross/non_proportional_pairs", general)
	c.Count("point-cross/probe_triples_judged_against_symbolic_perturbation", sosJudged)
	c.Count("point-cross/proportional_pairs_where_documented_laws_3_4_do_not_hold(doc_conflict,not_asserted)", conflict34)
	lv := []string{"da.Z (larger point off the z axis)", "da.Y (larger point on the z axis)", "db.Z (larger point is the zero vector)", "db.Z*da.Y (zero vector and a point on the z axis)", "non-proportional pair whose float cross product underflows to zero"}
	for k, nme := range lv {
		c.Count("point-cross/level "+nme, level[k])
	}
	if c.OnlySub == "" && c.NumViolations() == 0 {
		for k := range lv {
			if level[k] == 0 {
				panic(core.HarnessError("point-cross is vacuous: no pair reaches level " + lv[k]))
			}
		}
	}
	c.Sample(map[string]any{"sub": sub, "p": ptStr(q[0]), "op": ptStr(s2.Point{Vector: q[0].Mul(1 + 2*u)})})
}

// ---------------------------------------------------------------------------------------------
// normalizable

func c02CovNormalizable(c *core.Ctx) {
	const sub = "normalizable"
	exps := []int{-1074, -1073, -1050, -1024, -1023, -1022, -1021, -700, -485, -244, -243, -242, -241, -100, 0, 1}
	if !c.Quick() {
		exps = append(exps, -1072, -1060, -1030, -1025, -1020, -900, -500, -484, -300, -245, -240, -239, -121, -1, 2, 300, 1000)
	}
	vals := []float64{0}
	for _, e := range exps {
		v := math.Ldexp(1, e)
		vals = append(vals, v)
		if e > -1074 {
			vals = append(vals, math.Nextafter(v, 0)) // just below the power of two
		}
		if e == -242 || e == -243 || e == -1022 || e == -1060 {
			vals = append(vals, math.Nextafter(v, 1), 1.5*v)
		}
	}
	thr := math.Ldexp(1, -242)
	nv := len(vals)
	c.Note("normalizable/magnitudes", nv)
	var small, den int64
	c.ParallelFor(nv, func(i int) {
		var evals, lsmall, lden int64
		for j := 0; j < nv; j++ {
			for k := 0; k < nv; k++ {
				for sg := 0; sg < 4; sg++ {
					if c.Skip(sub, i, j, k, sg) {
						continue
					}
					p := c02Pt(vals[i], vals[j], vals[k])
					if sg&1 != 0 {
						p.X = -p.X
					}
					if sg&2 != 0 {
						p.Z = -p.Z
					}
					if p.X == 0 && p.Y == 0 && p.Z == 0 {
						continue // EnsureNormalizable requires p != 0
					}
					cas := []int{i, j, k, sg}
					detail := func() any { return map[string]any{"p": ptStr(p)} }
					c.Guard(sub, cas, detail, func() {
						evals++
						pmax := math.Max(math.Abs(p.X), math.Max(math.Abs(p.Y), math.Abs(p.Z)))
						want := pmax >= thr
						if got := p.IsNormalizable(); got != want {
							c.Violate(sub, "wrong-answer", "IsNormalizable differs from (largest component magnitude >= 2^-242)", cas, detail())
						}
						r := p.EnsureNormalizable()
						if want {
							if r != p {
								c.Violate(sub, "wrong-answer", "EnsureNormalizable changes a vector that is already normalizable", cas, detail())
							}
							return
						}
						lsmall++
						rmax := math.Max(math.Abs(r.X), math.Max(math.Abs(r.Y), math.Abs(r.Z)))
						if math.IsNaN(r.X+r.Y+r.Z) || math.IsInf(rmax, 0) {
							if pmax >= math.Ldexp(1, -1023) {
								c.Violate(sub, "wrong-answer", "EnsureNormalizable returns Inf/NaN components", cas, detail())
								return
							}
							lden++
							c02Candidate(c, sub, "EnsureNormalizable returns Inf/NaN components for a non-zero vector whose largest component is below 2^-1023 (the scale factor ldexp(2, -1-ilogb(max)) overflows)", cas, map[string]any{"p": ptStr(p), "result": fmt.Sprintf("(%v,%v,%v)", r.X, r.Y, r.Z)})
							return
						}
						if !(rmax >= thr) {
							c.Violate(sub, "wrong-answer", "the result of EnsureNormalizable is not normalizable (largest component below 2^-242)", cas, detail())
							return
						}
						if !(rmax >= 1 && rmax < 2) {
							c.Violate(sub, "wrong-answer", "EnsureNormalizable does not scale the largest component into [1, 2) as its comments state", cas, detail())
						}
						// the scaling must be an exact power of two applied to every component
						k2 := math.Ilogb(rmax) - math.Ilogb(pmax)
						for ax, pc := range []float64{p.X, p.Y, p.Z} {
							rc := []float64{r.X, r.Y, r.Z}[ax]
							w := new(big.Float).SetFloat64(pc)
							w.SetMantExp(w, k2)
							if w.Cmp(new(big.Float).SetFloat64(rc)) != 0 {
								c.Violate(sub, "wrong-answer", "EnsureNormalizable does not scale every component by the same exact power of two", cas, detail())
								break
							}
						}
					})
				}
			}
		}
		c.Eval(int(evals))
		c.Nontrivial(int(lsmall))
		atomic.AddInt64(&small, lsmall)
		atomic.AddInt64(&den, lden)
	})
	c.Count("normalizable/vectors_below_threshold(scaled)", small)
	c.Count("normalizable/vectors_whose_largest_component_is_below_2^-1023", den)
	c.Sample(map[string]any{"sub": sub, "p": ptStr(c02Pt(math.Ldexp(1, -243), -math.Ldexp(1, -485), 0))})
}

// ---------------------------------------------------------------------------------------------
// rotate

func c02CovRotate(c *core.Ctx) {
	const sub = "rotate"
	var ps []s2.Point
	deg := lattice.PDeg(false)
	for i := 0; i < len(deg); i += core.Pick(c, 6, 2) {
		ps = append(ps, deg[i])
	}
	gen := lattice.PGeneric(false)
	for i := 0; i < len(gen); i += core.Pick(c, 9, 4) {
		ps = append(ps, gen[i])
	}
	// unit length to rounding: exactly proportional copies in PDeg are (1 +- 2^-51) long, keep those
	// within the unit-length tolerance only
	var unit []s2.Point
	for _, p := range ps {
		if math.Abs(p.Norm2()-1) <= 4*2.220446049250313e-16 {
			unit = append(unit, p)
		}
	}
	ps = unit
	angles := []float64{0, math.Pi / 2, -math.Pi / 2, math.Pi, -math.Pi, 2 * math.Pi, 1, -2.5, 1e-300, -1e-9, 7, 400 * math.Pi / 180, 12345.678}
	if !c.Quick() {
		angles = append(angles, math.Pi/3, -math.Pi/6, 3*math.Pi, 1e-160, -5e-324, 0.1, -0.7, 100, -1e6)
	}
	tol := exact.HPPow2(-46) // 1.4e-14 absolute per component; Rotate documents no bound, any genuine fault is gross
	var evals, onAxis int64
	c.ParallelFor(len(ps), func(i int) {
		p := ps[i]
		var le, la int64
		for j, ax := range ps {
			for _, axis := range []s2.Point{ax, c02Neg(ax)} {
				for k, th := range angles {
					if c.Skip(sub, i, j, k) {
						continue
					}
					cas := []int{i, j, k}
					detail := func() any { return map[string]any{"p": ptStr(p), "axis": ptStr(axis), "angle": th} }
					c.Guard(sub, cas, detail, func() {
						le++
						if p == axis || p == c02Neg(axis) {
							la++
						}
						got := s2.Rotate(p, axis, s1.Angle(th))
						// Rodrigues: p cos + (k x p) sin + k (k.p)(1 - cos), with the float64 cos/sin values as
						// exact inputs (golang/geo evaluates math.Cos/math.Sin of the same float64 angle)
						co, si := exact.HP(math.Cos(th)), exact.HP(math.Sin(th))
						P := [3]*big.Float{exact.HP(p.X), exact.HP(p.Y), exact.HP(p.Z)}
						K := [3]*big.Float{exact.HP(axis.X), exact.HP(axis.Y), exact.HP(axis.Z)}
						kp := exact.HPAdd(exact.HPAdd(exact.HPMul(K[0], P[0]), exact.HPMul(K[1], P[1])), exact.HPMul(K[2], P[2]))
						var kxp [3]*big.Float
						for a := 0; a < 3; a++ {
							b, d := (a+1)%3, (a+2)%3
							kxp[a] = exact.HPSub(exact.HPMul(K[b], P[d]), exact.HPMul(K[d], P[b]))
						}
						omc := exact.HPSub(exact.HPInt(1), co)
						var ref [3]*big.Float
						n2 := exact.HPInt(0)
						for a := 0; a < 3; a++ {
							ref[a] = exact.HPAdd(exact.HPAdd(exact.HPMul(P[a], co), exact.HPMul(kxp[a], si)), exact.HPMul(K[a], exact.HPMul(kp, omc)))
							n2 = exact.HPAdd(n2, exact.HPMul(ref[a], ref[a]))
						}
						nrm := exact.HPSqrt(n2)
						g := [3]float64{got.X, got.Y, got.Z}
						for a := 0; a < 3; a++ {
							want := exact.HPQuo(ref[a], nrm)
							if math.IsNaN(g[a]) || exact.HPAbs(exact.HPSub(exact.HP(g[a]), want)).Cmp(tol) > 0 {
								c.Violate(sub, "wrong-answer", "Rotate(p, axis, angle) differs from the rotation of p about axis by angle (Rodrigues' formula at 320 bits) by more than 2^-46", cas, map[string]any{"p": ptStr(p), "axis": ptStr(axis), "angle": th, "got": ptStr(got)})
								break
							}
						}
					})
				}
			}
		}
		atomic.AddInt64(&evals, le)
		atomic.AddInt64(&onAxis, la)
	})
	c.Eval(int(evals))
	c.Nontrivial(int(evals))
	c.Count("rotate/cases", evals)
	c.Count("rotate/point_on_the_axis_or_its_antipode", onAxis)
	if len(ps) > 1 {
		c.Sample(map[string]any{"sub": sub, "p": ptStr(ps[0]), "axis": ptStr(ps[1]), "angle": 1.0})
	}
}

// ---------------------------------------------------------------------------------------------
// precise-vector

type c02Rat3 [3]*big.Rat

func c02R(f float64) *big.Rat { return new(big.Rat).SetFloat64(f) }

func c02RatOfVec(v r3.Vector) c02Rat3 { return c02Rat3{c02R(v.X), c02R(v.Y), c02R(v.Z)} }

// c02RatOfBF converts a big.Float exactly; ok is false for an infinity.
func c02RatOfBF(x *big.Float) (*big.Rat, bool) {
	if x == nil || x.IsInf() {
		return nil, false
	}
	r, _ := x.Rat(nil)
	return r, true
}

func c02RatOfPV(v r3.PreciseVector) (c02Rat3, bool) {
	x, ok1 := c02RatOfBF(v.X)
	y, ok2 := c02RatOfBF(v.Y)
	z, ok3 := c02RatOfBF(v.Z)
	return c02Rat3{x, y, z}, ok1 && ok2 && ok3
}

func (a c02Rat3) add(b c02Rat3) c02Rat3 {
	return c02Rat3{new(big.Rat).Add(a[0], b[0]), new(big.Rat).Add(a[1], b[1]), new(big.Rat).Add(a[2], b[2])}
}
func (a c02Rat3) sub(b c02Rat3) c02Rat3 {
	return c02Rat3{new(big.Rat).Sub(a[0], b[0]), new(big.Rat).Sub(a[1], b[1]), new(big.Rat).Sub(a[2], b[2])}
}
func (a c02Rat3) scale(f *big.Rat) c02Rat3 {
	return c02Rat3{new(big.Rat).Mul(a[0], f), new(big.Rat).Mul(a[1], f), new(big.Rat).Mul(a[2], f)}
}
func (a c02Rat3) dot(b c02Rat3) *big.Rat {
	s := new(big.Rat).Mul(a[0], b[0])
	s.Add(s, new(big.Rat).Mul(a[1], b[1]))
	return s.Add(s, new(big.Rat).Mul(a[2], b[2]))
}
func (a c02Rat3) cross(b c02Rat3) c02Rat3 {
	m := func(x, y *big.Rat) *big.Rat { return new(big.Rat).Mul(x, y) }
	return c02Rat3{
		new(big.Rat).Sub(m(a[1], b[2]), m(a[2], b[1])),
		new(big.Rat).Sub(m(a[2], b[0]), m(a[0], b[2])),
		new(big.Rat).Sub(m(a[0], b[1]), m(a[1], b[0])),
	}
}
func (a c02Rat3) eq(b c02Rat3) bool {
	return a[0].Cmp(b[0]) == 0 && a[1].Cmp(b[1]) == 0 && a[2].Cmp(b[2]) == 0
}
func (a c02Rat3) abs() c02Rat3 {
	return c02Rat3{new(big.Rat).Abs(a[0]), new(big.Rat).Abs(a[1]), new(big.Rat).Abs(a[2])}
}
func (a c02Rat3) isZero() bool { return a[0].Sign() == 0 && a[1].Sign() == 0 && a[2].Sign() == 0 }

func c02CovPrecise(c *core.Ctx) {
	const sub = "precise-vector"
	var vs []r3.Vector
	deg := lattice.PDeg(false)
	for i := 0; i < len(deg); i += core.Pick(c, 4, 1) {
		vs = append(vs, deg[i].Vector)
	}
	tiny := lattice.PTiny(false)
	for i := 0; i < len(tiny); i += core.Pick(c, 8, 2) {
		vs = append(vs, tiny[i].Vector)
	}
	gen := lattice.PGeneric(false)
	for i := 0; i < len(gen); i += core.Pick(c, 12, 4) {
		vs = append(vs, gen[i].Vector)
	}
	vs = append(vs,
		r3.Vector{}, r3.Vector{X: 1}, r3.Vector{Y: -1}, r3.Vector{Z: 1}, r3.Vector{X: -1}, r3.Vector{Z: -1},
		r3.Vector{X: 1e300, Y: -1e-300, Z: 5e-324}, r3.Vector{X: 0.1, Y: 0.2, Z: 0.3}, r3.Vector{X: -0.5, Y: 0.25, Z: 3},
		r3.Vector{X: 2, Y: -2, Z: 2}, r3.Vector{X: 3, Y: 3, Z: -1}, r3.Vector{X: -7, Y: 0.5, Z: 0.5}, r3.Vector{X: 0, Y: 5e-324, Z: -5e-324},
		r3.Vector{X: math.MaxFloat64, Y: math.MaxFloat64, Z: -math.MaxFloat64}, r3.Vector{X: 0.6, Y: 0.8, Z: 0},
	)
	{
		seen := map[r3.Vector]bool{}
		var d []r3.Vector
		for _, v := range vs {
			if !seen[v] {
				seen[v] = true
				d = append(d, v)
			}
		}
		vs = d
	}
	scal := []float64{0, 1, -1, 0.5, 3.3, 1e-300, -1e300, 5e-324, 1 + 1.0/(1<<52)}
	n := len(vs)
	c.Note("precise-vector/alphabet_size", n)
	rv := make([]c02Rat3, n)
	for i, v := range vs {
		rv[i] = c02RatOfVec(v)
	}
	one := big.NewRat(1, 1)
	axisOK := func(t c02Rat3, ax r3.Axis, largest bool) bool {
		k := int(ax)
		if k < 0 || k > 2 {
			return false
		}
		for o := 0; o < 3; o++ {
			cmp := t[k].Cmp(t[o])
			if (largest && cmp < 0) || (!largest && cmp > 0) {
				return false
			}
		}
		return true
	}
	// unary contract of one PreciseVector value against its exact rational value
	unary := func(pv r3.PreciseVector, want c02Rat3, cas []int, what string, detail func() any) {
		got, ok := c02RatOfPV(pv)
		if !ok || !got.eq(want) {
			c.Violate(sub, "wrong-answer", "PreciseVector "+what+" differs from the exact rational result", cas, detail())
			return
		}
		if pv.IsZero() != want.isZero() {
			c.Violate(sub, "wrong-answer", "PreciseVector.IsZero differs from the exact value (operand: "+what+")", cas, detail())
		}
		if ab, ok := c02RatOfPV(pv.Abs()); !ok || !ab.eq(want.abs()) {
			c.Violate(sub, "wrong-answer", "PreciseVector.Abs differs from the exact value (operand: "+what+")", cas, detail())
		}
		if !axisOK(want.abs(), pv.LargestComponent(), true) {
			c.Violate(sub, "wrong-answer", "PreciseVector.LargestComponent names an axis whose magnitude is exceeded by another (operand: "+what+")", cas, detail())
		}
		if !axisOK(want.abs(), pv.SmallestComponent(), false) {
			c.Violate(sub, "wrong-answer", "PreciseVector.SmallestComponent names an axis whose magnitude exceeds another (operand: "+what+")", cas, detail())
		}
		n2, ok := c02RatOfBF(pv.Norm2())
		w2 := want.dot(want)
		if !ok || n2.Cmp(w2) != 0 {
			c.Violate(sub, "wrong-answer", "PreciseVector.Norm2 differs from the exact value (operand: "+what+")", cas, detail())
		}
		if pv.IsUnit() != (w2.Cmp(one) == 0) {
			c.Violate(sub, "wrong-answer", "PreciseVector.IsUnit differs from (exact squared norm == 1) (operand: "+what+")", cas, detail())
		}
		if !pv.Equal(pv) {
			c.Violate(sub, "wrong-answer", "PreciseVector.Equal(v, v) is false (operand: "+what+")", cas, detail())
		}
	}
	// Vector(): the float64 direction of the exact vector (unit length; documented only as a conversion,
	// so: unit within 4 eps and parallel within 2^-50), for magnitudes that survive the conversion
	lo, hi := new(big.Rat).SetFloat64(math.Ldexp(1, -500)), new(big.Rat).SetFloat64(math.Ldexp(1, 500))
	tolDir := new(big.Rat).SetFloat64(math.Ldexp(1, -100)) // (2^-50)^2
	checkVector := func(pv r3.PreciseVector, want c02Rat3, cas []int, what string, detail func() any) bool {
		a := want.abs()
		mx := a[0]
		for _, t := range a[1:] {
			if t.Cmp(mx) > 0 {
				mx = t
			}
		}
		if mx.Cmp(lo) < 0 || mx.Cmp(hi) > 0 {
			return false
		}
		g := pv.Vector()
		if math.IsNaN(g.X+g.Y+g.Z) || math.Abs(g.Norm2()-1) > 8*2.220446049250313e-16 {
			c.Violate(sub, "wrong-answer", "PreciseVector.Vector is not a unit vector (operand: "+what+")", cas, detail())
			return true
		}
		rg := c02RatOfVec(g)
		cr := rg.cross(want)
		lhs := cr.dot(cr)
		rhs := new(big.Rat).Mul(tolDir, new(big.Rat).Mul(rg.dot(rg), want.dot(want)))
		if lhs.Cmp(rhs) > 0 || rg.dot(want).Sign() <= 0 {
			c.Violate(sub, "wrong-answer", "PreciseVector.Vector does not point in the direction of the exact vector (operand: "+what+")", cas, detail())
		}
		return true
	}
	var nonRep, vecJudged, equalPairs int64
	c.ParallelFor(n, func(i int) {
		var evals, lnon, lvec, leq int64
		a := vs[i]
		pa := r3.PreciseVectorFromVector(a)
		for j := 0; j < n; j++ {
			if c.Skip(sub, i, j) {
				continue
			}
			if c.Expired() {
				return
			}
			b := vs[j]
			cas := []int{i, j}
			detail := func() any {
				return map[string]any{"a": fmt.Sprintf("(%v,%v,%v)", a.X, a.Y, a.Z), "b": fmt.Sprintf("(%v,%v,%v)", b.X, b.Y, b.Z)}
			}
			c.Guard(sub, cas, detail, func() {
				evals++
				pb := r3.NewPreciseVector(b.X, b.Y, b.Z)
				ra, rb := rv[i], rv[j]
				if j == 0 {
					unary(pa, ra, cas, "PreciseVectorFromVector(a)", detail)
					if checkVector(pa, ra, cas, "PreciseVectorFromVector(a)", detail) {
						lvec++
					}
				}
				sum, dif, crs := pa.Add(pb), pa.Sub(pb), pa.Cross(pb)
				unary(sum, ra.add(rb), cas, "a.Add(b)", detail)
				unary(dif, ra.sub(rb), cas, "a.Sub(b)", detail)
				unary(crs, ra.cross(rb), cas, "a.Cross(b)", detail)
				if d, ok := c02RatOfBF(pa.Dot(pb)); !ok || d.Cmp(ra.dot(rb)) != 0 {
					c.Violate(sub, "wrong-answer", "PreciseVector.Dot differs from the exact rational result", cas, detail())
				}
				if pa.Equal(pb) != ra.eq(rb) {
					c.Violate(sub, "wrong-answer", "PreciseVector.Equal differs from exact equality", cas, detail())
				}
				if ra.eq(rb) {
					leq++
				}
				// results that float64 arithmetic cannot represent
				if fs := a.Add(b); !c02RatOfVecOK(fs) || !c02RatOfVec(fs).eq(ra.add(rb)) {
					lnon++
				}
				// second level: operands that are not float64 values
				unary(sum.Cross(dif), ra.add(rb).cross(ra.sub(rb)), cas, "(a+b).Cross(a-b)", detail)
				unary(crs.Sub(pb.Cross(pa)), ra.cross(rb).scale(big.NewRat(2, 1)), cas, "a.Cross(b).Sub(b.Cross(a))", detail)
				unary(crs.Add(sum), ra.cross(rb).add(ra.add(rb)), cas, "a.Cross(b).Add(a.Add(b))", detail)
				if d, ok := c02RatOfBF(crs.Dot(sum)); !ok || d.Cmp(ra.cross(rb).dot(ra.add(rb))) != 0 {
					c.Violate(sub, "wrong-answer", "PreciseVector.Dot of second-level operands differs from the exact rational result", cas, detail())
				}
				if checkVector(crs, ra.cross(rb), cas, "a.Cross(b)", detail) {
					lvec++
				}
				if checkVector(sum, ra.add(rb), cas, "a.Add(b)", detail) {
					lvec++
				}
				if sum.Equal(dif) != ra.add(rb).eq(ra.sub(rb)) {
					c.Violate(sub, "wrong-answer", "PreciseVector.Equal differs from exact equality (second-level operands)", cas, detail())
				}
				for _, f := range scal {
					rf := c02R(f)
					unary(pa.MulByFloat64(f), ra.scale(rf), cas, "a.MulByFloat64(f)", detail)
					bf := new(big.Float).SetPrec(r3.MaxPrec).SetFloat64(f)
					unary(dif.Mul(bf), ra.sub(rb).scale(rf), cas, "a.Sub(b).Mul(f)", detail)
					// a big.Float factor that is not a float64: f*f + f
					bf2 := new(big.Float).SetPrec(r3.MaxPrec).Mul(bf, bf)
					bf2.Add(bf2, bf)
					rf2 := new(big.Rat).Mul(rf, rf)
					rf2.Add(rf2, rf)
					unary(crs.Mul(bf2), ra.cross(rb).scale(rf2), cas, "a.Cross(b).Mul(f*f+f)", detail)
				}
			})
		}
		c.Eval(int(evals))
		c.Nontrivial(int(lnon))
		atomic.AddInt64(&nonRep, lnon)
		atomic.AddInt64(&vecJudged, lvec)
		atomic.AddInt64(&equalPairs, leq)
	})
	if c.Expired() {
		c.CapHit(sub + ": wall budget reached")
	}
	c.Count("precise-vector/pairs_whose_exact_sum_is_not_a_float64_vector", nonRep)
	c.Count("precise-vector/Vector()_conversions_judged", vecJudged)
	c.Count("precise-vector/exactly_equal_pairs", equalPairs)
	c.Sample(map[string]any{"sub": sub, "a": fmt.Sprintf("%v", vs[0]), "b": fmt.Sprintf("%v", vs[n-1])})
}

func c02RatOfVecOK(v r3.Vector) bool {
	return !math.IsNaN(v.X+v.Y+v.Z) && !math.IsInf(v.X, 0) && !math.IsInf(v.Y, 0) && !math.IsInf(v.Z, 0)
}
