package checks

import (
	"encoding/json"
	"fmt"
	"sort"
	"strconv"
	"strings"
	"sync"
	"time"

	"github.com/golang/geo/s1"
	"github.com/golang/geo/s2"
	"github.com/golang/geo/verifshim/vsched"

	"verif/mc/core"
	"verif/mc/lattice"
)

// C13 — answers depend on current geometry and options only (engine E2:
// explicit-state search over operation histories; every transition calls the
// real method; states are identified by the implementation's own internal state
// so that merging two histories is sound by construction).

func init() {
	Registry["C13"] = &Check{Level: "model_checking", QuickBudget: 120, ThoroughBudget: 1200, Run: runC13}
	workers["c13job"] = c13JobWorker
}

// machine is one explicit-state search problem.
type machine struct {
	name  string
	nOps  int
	opStr func(op int) string
	// run executes the history on fresh objects.  It returns the canonical key of
	// the reached state and, for the last operation, a violation descriptor ("" if
	// the oracle holds).  enabled reports whether op may follow the history.
	run     func(hist []int) (canon string, bad string, obs string)
	enabled func(hist []int, op int) bool
}

type runOut struct {
	canon, bad, obs string
	kind            string
}

// execHistory runs a history as the single thread of a controlled execution, so
// that a self-deadlock is detected structurally and an endless loop hits the step
// horizon instead of hanging the check.
func execHistory(m *machine, hist []int) runOut {
	var out runOut
	body := func() { out.canon, out.bad, out.obs = m.run(hist) }
	r := vsched.Run(nil, []func(){body}, false, 2000000)
	if r.Panics[0] != "" {
		first := r.Panics[0]
		if i := strings.Index(first, "\n"); i > 0 {
			first = first[:i]
		}
		return runOut{kind: "panic", bad: "panic: " + first + " at " + core.GeoFrame(r.Panics[0])}
	}
	if r.Deadlock {
		return runOut{kind: "deadlock", bad: "deadlock: " + canonDesc("deadlock", r.DeadInfo)}
	}
	if r.Livelock {
		return runOut{kind: "nontermination", bad: "step horizon exceeded"}
	}
	if out.bad != "" {
		out.kind = "wrong-answer"
	}
	return out
}

func histStr(m *machine, h []int) []string {
	var s []string
	for _, o := range h {
		s = append(s, m.opStr(o))
	}
	return s
}

// searchDedup is a breadth-first search with state merging on the canonical key.
func searchDedup(c *core.Ctx, m *machine, maxDepth int) {
	type node struct{ hist []int }
	seen := map[string]bool{}
	init := execHistory(m, nil)
	seen[init.canon] = true
	frontier := []node{{nil}}
	var states, trans, terminal int64 = 1, 0, 0
	obsSet := map[string]bool{}
	depthDone := 0
	for d := 0; d < maxDepth && len(frontier) > 0; d++ {
		if c.Expired() {
			c.CapHit(fmt.Sprintf("%s: wall budget reached after depth %d", m.name, d))
			break
		}
		type job struct {
			hist []int
			out  runOut
		}
		var jobs []job
		for _, n := range frontier {
			for op := 0; op < m.nOps; op++ {
				if m.enabled != nil && !m.enabled(n.hist, op) {
					continue
				}
				h := append(append([]int(nil), n.hist...), op)
				jobs = append(jobs, job{hist: h})
			}
		}
		// vsched runs one controlled execution at a time per process, so the
		// transitions are executed sequentially.
		for i := range jobs {
			jobs[i].out = execHistory(m, jobs[i].hist)
		}
		var next []node
		for _, j := range jobs {
			trans++
			if j.out.bad != "" {
				terminal++
				c.Violate(m.name, j.out.kind, j.out.bad, nil, map[string]any{"machine": m.name, "history": histStr(m, j.hist), "ops": j.hist})
				continue
			}
			obsSet[j.out.obs] = true
			if !seen[j.out.canon] {
				seen[j.out.canon] = true
				states++
				next = append(next, node{j.hist})
				if states%97 == 3 {
					c.Sample(map[string]any{"machine": m.name, "history": histStr(m, j.hist)})
				}
			}
		}
		frontier = next
		depthDone = d + 1
	}
	c.MC(states, trans, trans)
	c.Eval(int(trans))
	c.Nontrivial(int(states))
	c.Count(m.name+"/states", states)
	c.Count(m.name+"/transitions", trans)
	c.Count(m.name+"/terminal_states_pruned_after_violation", terminal)
	c.Count(m.name+"/distinct_observations", int64(len(obsSet)))
	c.Count(m.name+"/depth_completed", int64(depthDone))
	if len(frontier) == 0 {
		c.Count(m.name+"/fixpoint_reached", 1)
	}
}

// searchAll enumerates every history up to the depth without merging states.
func searchAll(c *core.Ctx, m *machine, maxDepth int) {
	var trans, bad int64
	obsSet := map[string]bool{}
	stop := false
	var rec func(h []int)
	rec = func(h []int) {
		if stop || len(h) >= maxDepth {
			return
		}
		for op := 0; op < m.nOps; op++ {
			if m.enabled != nil && !m.enabled(h, op) {
				continue
			}
			if trans%256 == 0 && c.Expired() {
				if !stop {
					c.CapHit(fmt.Sprintf("%s: wall budget reached during depth-%d enumeration", m.name, maxDepth))
				}
				stop = true
				return
			}
			nh := append(append([]int(nil), h...), op)
			out := execHistory(m, nh)
			trans++
			if out.bad != "" {
				bad++
				c.Violate(m.name, out.kind, out.bad, nil, map[string]any{"machine": m.name, "history": histStr(m, nh), "ops": nh})
				continue // terminal
			}
			obsSet[out.obs] = true
			if trans%1009 == 5 {
				c.Sample(map[string]any{"machine": m.name, "history": histStr(m, nh), "observation": trunc(out.obs, 200)})
			}
			rec(nh)
		}
	}
	rec(nil)
	c.MC(trans, trans, trans)
	c.Eval(int(trans))
	c.Nontrivial(len(obsSet))
	c.Count(m.name+"/histories", trans)
	c.Count(m.name+"/violating_histories", bad)
	c.Count(m.name+"/distinct_observations", int64(len(obsSet)))
	c.Count(m.name+"/depth", int64(maxDepth))
}

// ---- machine 1: ShapeIndex add / build / reset / query ---------------------------

func c13Shapes() []func() s2.Shape {
	ctr := s2.PointFromLatLng(s2.LatLngFromDegrees(10, 10))
	return []func() s2.Shape{
		func() s2.Shape { return s2.PolygonFromLoops([]*s2.Loop{s2.RegularLoop(ctr, s1.Degree*8, 40)}) },
		func() s2.Shape {
			var ll []s2.LatLng
			for i := 0; i < 14; i++ {
				ll = append(ll, s2.LatLngFromDegrees(-2+2*float64(i), 1+1.5*float64(i)))
			}
			return s2.PolylineFromLatLngs(ll)
		},
		func() s2.Shape {
			pv := s2.PointVector{ctr, s2.PointFromLatLng(s2.LatLngFromDegrees(40, -70)), s2.PointFromLatLng(s2.LatLngFromDegrees(10, 18))}
			return &pv
		},
		func() s2.Shape {
			return s2.LaxPolygonFromPolygon(s2.PolygonFromLoops([]*s2.Loop{s2.RegularLoop(s2.PointFromLatLng(s2.LatLngFromDegrees(12, 14)), s1.Degree*5, 12)}))
		},
		// a shape without edges that nevertheless occupies every index cell: the full polygon
		func() s2.Shape { return s2.FullPolygon() },
	}
}

func c13Panel(ix *s2.ShapeIndex, shapes []s2.Shape) string {
	var sb strings.Builder
	id := map[s2.Shape]int{}
	for i, s := range shapes {
		id[s] = i
	}
	probes := []s2.Point{
		s2.PointFromLatLng(s2.LatLngFromDegrees(10, 10)),
		s2.PointFromLatLng(s2.LatLngFromDegrees(12, 14)),
		s2.PointFromLatLng(s2.LatLngFromDegrees(10, 18)),
		s2.PointFromLatLng(s2.LatLngFromDegrees(40, -70)),
		s2.PointFromLatLng(s2.LatLngFromDegrees(-30, 100)),
	}
	for _, model := range []s2.VertexModel{s2.VertexModelOpen, s2.VertexModelSemiOpen, s2.VertexModelClosed} {
		q := s2.NewContainsPointQuery(ix, model)
		for _, p := range probes {
			var ids []int
			for _, s := range q.ContainingShapes(p) {
				ids = append(ids, id[s])
			}
			sort.Ints(ids)
			fmt.Fprintf(&sb, "%v%v;", q.Contains(p), ids)
		}
	}
	sb.WriteString("|X:")
	cq := s2.NewCrossingEdgeQuery(ix)
	a, b := s2.PointFromLatLng(s2.LatLngFromDegrees(0, 0)), s2.PointFromLatLng(s2.LatLngFromDegrees(20, 20))
	em := cq.CrossingsEdgeMap(a, b, s2.CrossingTypeAll)
	var parts []string
	for s, es := range em {
		e2 := append([]int(nil), es...)
		sort.Ints(e2)
		parts = append(parts, fmt.Sprintf("%d:%v", id[s], e2))
	}
	sort.Strings(parts)
	sb.WriteString(strings.Join(parts, ","))
	sb.WriteString("|E:")
	for _, t := range []s2.Point{probes[2], probes[4]} {
		eq := s2.NewClosestEdgeQuery(ix, s2.NewClosestEdgeQueryOptions().MaxResults(3))
		for _, r := range eq.FindEdges(s2.NewMinDistanceToPointTarget(t)) {
			fmt.Fprintf(&sb, "%d/%d@%v,", r.ShapeID(), r.EdgeID(), float64(r.Distance()))
		}
		sb.WriteString(";")
	}
	sb.WriteString("|I:")
	n := 0
	for it := ix.Iterator(); !it.Done(); it.Next() {
		n++
		fmt.Fprintf(&sb, "%x,", uint64(it.CellID()))
	}
	fmt.Fprintf(&sb, "n=%d len=%d edges=%d", n, ix.Len(), ix.NumEdges())
	return sb.String()
}

// c13ReusedPanel asks long-lived query objects (created once, reused across index growth) the
// containment and crossing questions of the panel.
type c13Reused struct {
	pq [3]*s2.ContainsPointQuery
	cq *s2.CrossingEdgeQuery
}

func c13ReusedPanelStr(ix *s2.ShapeIndex, shapes []s2.Shape, r *c13Reused) string {
	var sb strings.Builder
	id := map[s2.Shape]int{}
	for i, s := range shapes {
		id[s] = i
	}
	probes := []s2.Point{
		s2.PointFromLatLng(s2.LatLngFromDegrees(10, 10)),
		s2.PointFromLatLng(s2.LatLngFromDegrees(12, 14)),
		s2.PointFromLatLng(s2.LatLngFromDegrees(10, 18)),
		s2.PointFromLatLng(s2.LatLngFromDegrees(40, -70)),
		s2.PointFromLatLng(s2.LatLngFromDegrees(12.3, 14.1)),
		s2.PointFromLatLng(s2.LatLngFromDegrees(9.5, 10.5)),
	}
	models := []s2.VertexModel{s2.VertexModelOpen, s2.VertexModelSemiOpen, s2.VertexModelClosed}
	for mi := range models {
		if r.pq[mi] == nil {
			r.pq[mi] = s2.NewContainsPointQuery(ix, models[mi])
		}
		for _, p := range probes {
			var ids []int
			for _, s := range r.pq[mi].ContainingShapes(p) {
				ids = append(ids, id[s])
			}
			sort.Ints(ids)
			fmt.Fprintf(&sb, "%v%v;", r.pq[mi].Contains(p), ids)
		}
	}
	if r.cq == nil {
		r.cq = s2.NewCrossingEdgeQuery(ix)
	}
	a, b := s2.PointFromLatLng(s2.LatLngFromDegrees(0, 0)), s2.PointFromLatLng(s2.LatLngFromDegrees(20, 20))
	var parts []string
	for s, es := range r.cq.CrossingsEdgeMap(a, b, s2.CrossingTypeAll) {
		e2 := append([]int(nil), es...)
		sort.Ints(e2)
		parts = append(parts, fmt.Sprintf("%d:%v", id[s], e2))
	}
	sort.Strings(parts)
	sb.WriteString(strings.Join(parts, ","))
	return sb.String()
}

func c13IndexMachine() *machine {
	mk := c13Shapes()
	nS := len(mk)
	const (
		opBuild = iota
		opReset
		opQuery
		opReused // long-lived query objects; legal only while the index is fresh
		opAdd0
	)
	m := &machine{name: "M1-ShapeIndex", nOps: opAdd0 + nS}
	m.opStr = func(op int) string {
		switch op {
		case opBuild:
			return "Build"
		case opReset:
			return "Reset"
		case opQuery:
			return "QueryPanel"
		case opReused:
			return "ReusedQueriesPanel"
		}
		return fmt.Sprintf("Add(shape%d)", op-opAdd0)
	}
	current := func(hist []int) []int {
		var cur []int
		for _, o := range hist {
			if o == opReset {
				cur = nil
			} else if o >= opAdd0 {
				cur = append(cur, o-opAdd0)
			}
		}
		return cur
	}
	m.enabled = func(hist []int, op int) bool {
		if op == opReused {
			// a long-lived query may only be asked while no update is pending (its iterator does not
			// apply updates): the previous operation must have built the index
			if len(hist) == 0 {
				return false
			}
			last := hist[len(hist)-1]
			if last != opBuild && last != opQuery && last != opReused {
				return false
			}
			// and Reset invalidates every query object: no Reset since the first reused panel
			seen := false
			for _, o := range hist {
				if o == opReused {
					seen = true
				}
				if o == opReset && seen {
					return false
				}
			}
			return true
		}
		if op >= opAdd0 {
			for _, k := range current(hist) {
				if k == op-opAdd0 {
					return false // a shape is added at most once
				}
			}
		}
		return true
	}
	expCache := map[string]string{}
	m.run = func(hist []int) (string, string, string) {
		ix := s2.NewShapeIndex()
		var shapes []s2.Shape
		var kinds []int
		obs := ""
		bad := ""
		reused := &c13Reused{}
		reusedCreated := "" // the long-lived query objects are harness-side state: part of the key
		for i, o := range hist {
			switch {
			case o == opReused:
				if reused.cq == nil {
					reusedCreated = fmt.Sprintf("created-with-shapes%v", kinds)
				}
				reusedCreated += fmt.Sprintf(";asked-with%v", kinds)
				p := c13ReusedPanelStr(ix, shapes, reused)
				if i == len(hist)-1 {
					fx := s2.NewShapeIndex()
					var fs []s2.Shape
					for _, k := range kinds {
						s := mk[k]()
						fs = append(fs, s)
						fx.Add(s)
					}
					exp := c13ReusedPanelStr(fx, fs, &c13Reused{})
					obs = p
					if p != exp {
						bad = fmt.Sprintf("long-lived ContainsPointQuery / CrossingEdgeQuery objects reused after the index grew give answers that differ from fresh queries on an index holding the same shapes %v (first difference at byte %d)", kinds, firstDiff(p, exp))
					}
				}
			case o == opBuild:
				ix.Build()
			case o == opReset:
				ix.Reset()
				shapes, kinds = nil, nil
			case o == opQuery:
				p := c13Panel(ix, shapes)
				if i == len(hist)-1 {
					key := fmt.Sprint(kinds)
					exp, ok := expCache[key]
					if !ok {
						fx := s2.NewShapeIndex()
						var fs []s2.Shape
						for _, k := range kinds {
							s := mk[k]()
							fs = append(fs, s)
							fx.Add(s)
						}
						exp = c13Panel(fx, fs)
						expCache[key] = exp
					}
					obs = p
					if p != exp {
						bad = fmt.Sprintf("query panel after a history differs from the panel of a fresh index holding the same shapes %v (first difference at byte %d)", kinds, firstDiff(p, exp))
					}
				}
			default:
				s := mk[o-opAdd0]()
				shapes = append(shapes, s)
				kinds = append(kinds, o-opAdd0)
				ix.Add(s)
			}
		}
		d := ix.VerifIndexDump()
		return fmt.Sprintf("%v|%s", kinds, dumpKey(d)) + fmt.Sprintf("|next=%d n=%d|reused:%s|deep:%s", d.NextID, d.NumShapes, reusedCreated, deepKey(ix, shapes, reused)), bad, obs
	}
	return m
}

// ---- machine 2: Loop invert / query ------------------------------------------------

func c13LoopMachine(nv int) *machine { return c13LoopMachineAt(nv, -15, 120) }

// c13LoopMachineAt: the loop machine for a loop centred at (lat, lng); a loop around a pole takes
// the bound-recomputing branch of Invert.
func c13LoopMachineAt(nv int, lat, lng float64) *machine {
	ctr := s2.PointFromLatLng(s2.LatLngFromDegrees(lat, lng))
	mkLoop := func() *s2.Loop { return s2.RegularLoop(ctr, s1.Degree*12, nv) }
	other := s2.RegularLoop(ctr, s1.Degree*4, 36)
	otherBig := s2.RegularLoop(s2.Point{Vector: ctr.Add(s2.Ortho(ctr).Mul(0.14)).Normalize()}, s1.Degree*9, 40)
	pIn := ctr
	pOut := s2.PointFromLatLng(s2.LatLngFromDegrees(60, -60))
	pEdge := mkLoop().Vertex(3)
	cell := s2.CellFromCellID(s2.CellFromPoint(ctr).ID().Parent(8))
	ops := []struct {
		name string
		f    func(l *s2.Loop) string
	}{
		{"Invert", nil},
		{"ContainsPoint(center)", func(l *s2.Loop) string { return fmt.Sprint(l.ContainsPoint(pIn)) }},
		{"ContainsPoint(far)", func(l *s2.Loop) string { return fmt.Sprint(l.ContainsPoint(pOut)) }},
		{"ContainsPoint(vertex)", func(l *s2.Loop) string { return fmt.Sprint(l.ContainsPoint(pEdge)) }},
		{"ContainsCell", func(l *s2.Loop) string { return fmt.Sprint(l.ContainsCell(cell), l.IntersectsCell(cell)) }},
		{"Contains(small)", func(l *s2.Loop) string { return fmt.Sprint(l.Contains(other), l.Intersects(other)) }},
		{"Intersects(overlapping)", func(l *s2.Loop) string { return fmt.Sprint(l.Intersects(otherBig), l.Contains(otherBig)) }},
		{"Area+RectBound", func(l *s2.Loop) string { return fmt.Sprint(l.Area(), l.RectBound(), l.ContainsOrigin()) }},
	}
	m := &machine{name: fmt.Sprintf("M2-Loop(%d vertices at %g,%g)", nv, lat, lng), nOps: len(ops)}
	m.opStr = func(op int) string { return ops[op].name }
	m.run = func(hist []int) (string, string, string) {
		l := mkLoop()
		bad, obs := "", ""
		for i, o := range hist {
			if ops[o].f == nil {
				l.Invert()
				continue
			}
			got := ops[o].f(l)
			if i == len(hist)-1 {
				fresh := s2.LoopFromPoints(append([]s2.Point(nil), l.Vertices()...))
				exp := ops[o].f(fresh)
				obs = got
				if got != exp {
					bad = fmt.Sprintf("%s returned %s after a history; a fresh loop with the same vertices returns %s", ops[o].name, got, exp)
				}
			}
		}
		d := l.VerifIndex().VerifIndexDump()
		// the canonical key must cover every field of the implementation that a later answer can depend
		// on: vertex order, origin flag, the cached bound, and the index state
		return fmt.Sprintf("v0=%v inside=%v bound=%v|%s|deep:%s", l.Vertex(0), l.ContainsOrigin(), l.RectBound(), dumpKey(d), deepKey(l)), bad, obs
	}
	return m
}

// ---- machine 3: Polygon invert / query ----------------------------------------------

func c13PolygonMachine(variant int) *machine {
	ctr := s2.PointFromLatLng(s2.LatLngFromDegrees(35, -20))
	mk := func() *s2.Polygon {
		if variant == 0 {
			shell := s2.RegularLoop(ctr, s1.Degree*10, 40)
			hole := s2.RegularLoop(ctr, s1.Degree*3, 36)
			hole.Invert()
			return s2.PolygonFromOrientedLoops([]*s2.Loop{shell, hole})
		}
		if variant == 2 {
			// 14 loops (above the 12-loop linear-search threshold: the polygon keeps its cumulative edge
			// table), of differing vertex counts; the largest shell has holes AND sibling shells, and is
			// not given first, so that Invert reorders the loops
			var ls []*s2.Loop
			for i := 0; i < 10; i++ {
				ls = append(ls, s2.RegularLoop(s2.PointFromLatLng(s2.LatLngFromDegrees(-10, 10*float64(i))), s1.Degree*2, 4+i))
			}
			ls = append(ls, s2.RegularLoop(ctr, s1.Degree*10, 40))
			for i, ll := range [][2]float64{{38, -24}, {32, -24}, {31, -17}} {
				ls = append(ls, s2.RegularLoop(s2.PointFromLatLng(s2.LatLngFromDegrees(ll[0], ll[1])), s1.Degree*1, 5+i))
			}
			return s2.PolygonFromLoops(ls)
		}
		a := s2.RegularLoop(ctr, s1.Degree*5, 36)
		b := s2.RegularLoop(s2.PointFromLatLng(s2.LatLngFromDegrees(35, 10)), s1.Degree*6, 40)
		return s2.PolygonFromLoops([]*s2.Loop{a, b})
	}
	other := s2.PolygonFromLoops([]*s2.Loop{s2.RegularLoop(s2.PointFromLatLng(s2.LatLngFromDegrees(35, -13)), s1.Degree*2, 34)})
	otherFar := s2.PolygonFromLoops([]*s2.Loop{s2.RegularLoop(s2.PointFromLatLng(s2.LatLngFromDegrees(-50, 150)), s1.Degree*7, 40)})
	ring := s2.PointFromLatLng(s2.LatLngFromDegrees(35, -13))
	cell := s2.CellFromCellID(s2.CellFromPoint(ring).ID().Parent(9))
	ops := []struct {
		name string
		f    func(p *s2.Polygon) string
	}{
		{"Invert", nil},
		{"ContainsPoint(ring,center,far)", func(p *s2.Polygon) string {
			return fmt.Sprint(p.ContainsPoint(ring), p.ContainsPoint(ctr), p.ContainsPoint(s2.PointFromLatLng(s2.LatLngFromDegrees(-50, 150))))
		}},
		{"Contains/Intersects(small)", func(p *s2.Polygon) string { return fmt.Sprint(p.Contains(other), p.Intersects(other)) }},
		{"Contains/Intersects(far)", func(p *s2.Polygon) string { return fmt.Sprint(p.Contains(otherFar), p.Intersects(otherFar)) }},
		{"Cell relations", func(p *s2.Polygon) string { return fmt.Sprint(p.ContainsCell(cell), p.IntersectsCell(cell)) }},
		{"Area", func(p *s2.Polygon) string { return fmt.Sprint(p.Area(), p.NumLoops(), p.RectBound()) }},
		{"Edges/Chains", func(p *s2.Polygon) string {
			// the shape interface: every edge by id, by (chain, offset), and ChainPosition; as a sorted
			// multiset so that the comparison with a fresh polygon does not depend on the loop order
			var es []string
			for e := 0; e < p.NumEdges(); e++ {
				ed := p.Edge(e)
				cp := p.ChainPosition(e)
				ce := p.ChainEdge(cp.ChainID, cp.Offset)
				es = append(es, fmt.Sprint(ed.V0, ed.V1, ce == ed))
			}
			sort.Strings(es)
			return fmt.Sprint(p.NumEdges(), p.NumChains(), es)
		}},
	}
	m := &machine{name: fmt.Sprintf("M3-Polygon(variant %d)", variant), nOps: len(ops)}
	m.opStr = func(op int) string { return ops[op].name }
	m.run = func(hist []int) (string, string, string) {
		p := mk()
		bad, obs := "", ""
		inv := 0
		for i, o := range hist {
			if ops[o].f == nil {
				p.Invert()
				inv++
				continue
			}
			got := ops[o].f(p)
			if i == len(hist)-1 {
				// shortest history reaching the same geometry: a fresh polygon inverted inv mod 2 times
				fresh := mk()
				if inv%2 == 1 {
					fresh.Invert()
				}
				exp := ops[o].f(fresh)
				obs = got
				if got != exp {
					bad = fmt.Sprintf("%s returned %s after a history with %d inversions; a fresh polygon inverted %d time(s) returns %s", ops[o].name, got, inv, inv%2, exp)
				}
			}
		}
		var sb strings.Builder
		fmt.Fprintf(&sb, "inv=%d bound=%v|", inv%2, p.RectBound())
		for _, l := range p.Loops() {
			fmt.Fprintf(&sb, "%v%v%v%v;%s#", l.Vertex(0), l.ContainsOrigin(), l.IsHole(), l.RectBound(), dumpKey(l.VerifIndex().VerifIndexDump()))
		}
		if ix := p.VerifIndex(); ix != nil {
			sb.WriteString(dumpKey(ix.VerifIndexDump()))
		}
		sb.WriteString("|deep:" + deepKey(p))
		return sb.String(), bad, obs
	}
	return m
}

// ---- machine 4: reuse of query objects ------------------------------------------------

func c13QueryMachine(furthest bool) *machine {
	mkIndex := func() (*s2.ShapeIndex, []s2.Shape) {
		ix := s2.NewShapeIndex()
		var shapes []s2.Shape
		for _, f := range c13Shapes()[:3] {
			s := f()
			shapes = append(shapes, s)
			ix.Add(s)
		}
		return ix, shapes
	}
	pts := []s2.Point{
		s2.PointFromLatLng(s2.LatLngFromDegrees(10, 18)),
		s2.PointFromLatLng(s2.LatLngFromDegrees(10, 10)),
		s2.PointFromLatLng(s2.LatLngFromDegrees(-40, 170)),
	}
	type target = interface{}
	mkTarget := func(i int) (t1 func(q *s2.EdgeQuery, f func(q *s2.EdgeQuery, t any) string) string) { return nil }
	_ = mkTarget
	lim := s1.ChordAngleFromAngle(s1.Degree * 3)
	resStr := func(rs []s2.EdgeQueryResult) string {
		var s []string
		for _, r := range rs {
			s = append(s, fmt.Sprintf("%d/%d@%v", r.ShapeID(), r.EdgeID(), float64(r.Distance())))
		}
		return strings.Join(s, ",")
	}
	type opT struct {
		name string
		f    func(q *s2.EdgeQuery) string
	}
	var ops []opT
	for ti, p := range pts {
		p := p
		if furthest {
			ops = append(ops,
				opT{fmt.Sprintf("FindEdges(t%d)", ti), func(q *s2.EdgeQuery) string { return resStr(q.FindEdges(s2.NewMaxDistanceToPointTarget(p))) }},
				opT{fmt.Sprintf("Distance(t%d)", ti), func(q *s2.EdgeQuery) string {
					return fmt.Sprint(float64(q.Distance(s2.NewMaxDistanceToPointTarget(p))))
				}},
				opT{fmt.Sprintf("IsDistanceGreater(t%d,3deg)", ti), func(q *s2.EdgeQuery) string {
					return fmt.Sprint(q.IsDistanceGreater(s2.NewMaxDistanceToPointTarget(p), lim))
				}},
			)
		} else {
			ops = append(ops,
				opT{fmt.Sprintf("FindEdges(t%d)", ti), func(q *s2.EdgeQuery) string { return resStr(q.FindEdges(s2.NewMinDistanceToPointTarget(p))) }},
				opT{fmt.Sprintf("Distance(t%d)", ti), func(q *s2.EdgeQuery) string {
					return fmt.Sprint(float64(q.Distance(s2.NewMinDistanceToPointTarget(p))))
				}},
				opT{fmt.Sprintf("IsDistanceLess(t%d,3deg)", ti), func(q *s2.EdgeQuery) string {
					return fmt.Sprint(q.IsDistanceLess(s2.NewMinDistanceToPointTarget(p), lim))
				}},
			)
		}
	}
	if !furthest {
		ops = append(ops, opT{"IsConservativeDistanceLessOrEqual(t0,3deg)", func(q *s2.EdgeQuery) string {
			return fmt.Sprint(q.IsConservativeDistanceLessOrEqual(s2.NewMinDistanceToPointTarget(pts[0]), lim))
		}})
	}
	mkQuery := func(ix *s2.ShapeIndex) *s2.EdgeQuery {
		if furthest {
			return s2.NewFurthestEdgeQuery(ix, s2.NewFurthestEdgeQueryOptions().MaxResults(4))
		}
		return s2.NewClosestEdgeQuery(ix, s2.NewClosestEdgeQueryOptions().MaxResults(4).DistanceLimit(s1.ChordAngleFromAngle(s1.Degree*40)))
	}
	name := "M4-ClosestEdgeQuery-reuse"
	if furthest {
		name = "M4-FurthestEdgeQuery-reuse"
	}
	m := &machine{name: name, nOps: len(ops)}
	m.opStr = func(op int) string { return ops[op].name }
	exp := map[int]string{}
	m.run = func(hist []int) (string, string, string) {
		ix, _ := mkIndex()
		q := mkQuery(ix)
		bad, obs := "", ""
		for i, o := range hist {
			got := ops[o].f(q)
			if i == len(hist)-1 {
				e, ok := exp[o]
				if !ok {
					fx, _ := mkIndex()
					e = ops[o].f(mkQuery(fx))
					exp[o] = e
				}
				obs = got
				if got != e {
					bad = fmt.Sprintf("%s on a reused query returned [%s]; a fresh query with the same user options returns [%s]", ops[o].name, trunc(got, 120), trunc(e, 120))
				}
			}
		}
		return fmt.Sprintf("%+v", q.VerifOptions()), bad, obs
	}
	return m
}

// c13IndexTargetMachine: one closest / furthest EdgeQuery configured with MaxError > 0 and
// MaxResults > 1 on an index large enough for the optimized search, asked about ShapeIndex targets
// (the only targets that take advantage of MaxError, which makes the query keep a set of already
// tested edges) as well as point targets, in every order.
func c13IndexTargetMachine(furthest bool) *machine {
	mkIndex := func() *s2.ShapeIndex {
		ix := s2.NewShapeIndex()
		ix.Add(s2.PolygonFromLoops([]*s2.Loop{s2.RegularLoop(lattice.LL(10, 10), lattice.Deg(8), 96)}))
		var ll []s2.LatLng
		for i := 0; i < 20; i++ {
			ll = append(ll, s2.LatLngFromDegrees(-2+1.4*float64(i), 1+1.1*float64(i)))
		}
		ix.Add(s2.PolylineFromLatLngs(ll))
		return ix
	}
	mkTargetIndex := func(k int) *s2.ShapeIndex {
		t := s2.NewShapeIndex()
		if k == 0 {
			pl := s2.Polyline{lattice.LL(11, 32), lattice.LL(14, 30), lattice.LL(9, 27)}
			t.Add(&pl)
		} else {
			pv := s2.PointVector{lattice.LL(-5, -9), lattice.LL(30, 40)}
			t.Add(&pv)
		}
		return t
	}
	pt := lattice.LL(12, 21)
	lim := s1.ChordAngleFromAngle(lattice.Deg(15))
	resStr := func(rs []s2.EdgeQueryResult) string {
		var s []string
		for _, r := range rs {
			s = append(s, fmt.Sprintf("%d/%d@%v", r.ShapeID(), r.EdgeID(), float64(r.Distance())))
		}
		return strings.Join(s, ",")
	}
	type opT struct {
		name string
		f    func(q *s2.EdgeQuery) string
	}
	var ops []opT
	if furthest {
		ops = []opT{
			{"FindEdges(indexTarget0)", func(q *s2.EdgeQuery) string {
				return resStr(q.FindEdges(s2.NewMaxDistanceToShapeIndexTarget(mkTargetIndex(0))))
			}},
			{"FindEdges(indexTarget1)", func(q *s2.EdgeQuery) string {
				return resStr(q.FindEdges(s2.NewMaxDistanceToShapeIndexTarget(mkTargetIndex(1))))
			}},
			{"FindEdges(point)", func(q *s2.EdgeQuery) string { return resStr(q.FindEdges(s2.NewMaxDistanceToPointTarget(pt))) }},
			{"Distance(indexTarget0)", func(q *s2.EdgeQuery) string {
				return fmt.Sprint(float64(q.Distance(s2.NewMaxDistanceToShapeIndexTarget(mkTargetIndex(0)))))
			}},
			{"IsDistanceGreater(indexTarget1)", func(q *s2.EdgeQuery) string {
				return fmt.Sprint(q.IsDistanceGreater(s2.NewMaxDistanceToShapeIndexTarget(mkTargetIndex(1)), lim))
			}},
		}
	} else {
		ops = []opT{
			{"FindEdges(indexTarget0)", func(q *s2.EdgeQuery) string {
				return resStr(q.FindEdges(s2.NewMinDistanceToShapeIndexTarget(mkTargetIndex(0))))
			}},
			{"FindEdges(indexTarget1)", func(q *s2.EdgeQuery) string {
				return resStr(q.FindEdges(s2.NewMinDistanceToShapeIndexTarget(mkTargetIndex(1))))
			}},
			{"FindEdges(point)", func(q *s2.EdgeQuery) string { return resStr(q.FindEdges(s2.NewMinDistanceToPointTarget(pt))) }},
			{"Distance(indexTarget0)", func(q *s2.EdgeQuery) string {
				return fmt.Sprint(float64(q.Distance(s2.NewMinDistanceToShapeIndexTarget(mkTargetIndex(0)))))
			}},
			{"IsDistanceLess(indexTarget1)", func(q *s2.EdgeQuery) string {
				return fmt.Sprint(q.IsDistanceLess(s2.NewMinDistanceToShapeIndexTarget(mkTargetIndex(1)), lim))
			}},
		}
	}
	me := s1.ChordAngleFromAngle(lattice.Deg(0.05))
	mkQuery := func(ix *s2.ShapeIndex) *s2.EdgeQuery {
		if furthest {
			return s2.NewFurthestEdgeQuery(ix, s2.NewFurthestEdgeQueryOptions().MaxResults(3).MaxError(me))
		}
		return s2.NewClosestEdgeQuery(ix, s2.NewClosestEdgeQueryOptions().MaxResults(3).MaxError(me))
	}
	name := "M4-ClosestEdgeQuery-index-targets-MaxError"
	if furthest {
		name = "M4-FurthestEdgeQuery-index-targets-MaxError"
	}
	m := &machine{name: name, nOps: len(ops)}
	m.opStr = func(op int) string { return ops[op].name }
	exp := map[int]string{}
	m.run = func(hist []int) (string, string, string) {
		q := mkQuery(mkIndex())
		bad, obs := "", ""
		for i, o := range hist {
			got := ops[o].f(q)
			if i == len(hist)-1 {
				e, ok := exp[o]
				if !ok {
					e = ops[o].f(mkQuery(mkIndex()))
					exp[o] = e
				}
				obs = got
				if got != e {
					bad = fmt.Sprintf("%s on a reused query (MaxError > 0, MaxResults > 1) returned [%s]; a fresh query with the same user options returns [%s]", ops[o].name, trunc(got, 120), trunc(e, 120))
				}
			}
		}
		return fmt.Sprintf("%+v", q.VerifOptions()), bad, obs
	}
	return m
}

// c13ReusedTargetMachine: one long-lived ShapeIndex distance target (which holds an inner query of its
// own) handed to a fresh query in every operation: searches with a small distance limit, unlimited
// searches, Distance and threshold tests in every order.  The answer must be the one a fresh target
// gives: nothing an earlier query wrote into the target may narrow a later one.
func c13ReusedTargetMachine(furthest bool) *machine {
	mkIndex := func() *s2.ShapeIndex {
		ix := s2.NewShapeIndex()
		var ll []s2.LatLng
		for i := 0; i < 40; i++ {
			ll = append(ll, s2.LatLngFromDegrees(-2+0.7*float64(i), 1+0.55*float64(i)))
		}
		ix.Add(s2.PolylineFromLatLngs(ll))
		pl := s2.Polyline{lattice.LL(11.5, 31), lattice.LL(12, 31.5)}
		ix.Add(&pl)
		return ix
	}
	mkTargetIndex := func() *s2.ShapeIndex {
		t := s2.NewShapeIndex()
		pl := s2.Polyline{lattice.LL(11, 32), lattice.LL(14, 30), lattice.LL(9, 27)}
		t.Add(&pl)
		pv := s2.PointVector{lattice.LL(-5, -9)}
		t.Add(&pv)
		return t
	}
	resStr := func(rs []s2.EdgeQueryResult) string {
		var s []string
		for _, r := range rs {
			s = append(s, fmt.Sprintf("%d/%d@%v", r.ShapeID(), r.EdgeID(), float64(r.Distance())))
		}
		return strings.Join(s, ",")
	}
	small, big := s1.ChordAngleFromAngle(lattice.Deg(1)), s1.ChordAngleFromAngle(lattice.Deg(25))
	if furthest {
		small, big = s1.ChordAngleFromAngle(lattice.Deg(60)), s1.ChordAngleFromAngle(lattice.Deg(5))
	}
	type env struct {
		min *s2.MinDistanceToShapeIndexTarget
		max *s2.MaxDistanceToShapeIndexTarget
	}
	mkEnv := func() *env {
		return &env{s2.NewMinDistanceToShapeIndexTarget(mkTargetIndex()), s2.NewMaxDistanceToShapeIndexTarget(mkTargetIndex())}
	}
	query := func(limited bool, lim s1.ChordAngle) *s2.EdgeQuery {
		if furthest {
			o := s2.NewFurthestEdgeQueryOptions().MaxResults(4)
			if limited {
				o = o.DistanceLimit(lim)
			}
			return s2.NewFurthestEdgeQuery(mkIndex(), o)
		}
		o := s2.NewClosestEdgeQueryOptions().MaxResults(4)
		if limited {
			o = o.DistanceLimit(lim)
		}
		return s2.NewClosestEdgeQuery(mkIndex(), o)
	}
	type opT struct {
		name string
		f    func(e *env) string
	}
	find := func(limited bool, lim s1.ChordAngle) func(e *env) string {
		return func(e *env) string {
			if furthest {
				return resStr(query(limited, lim).FindEdges(e.max))
			}
			return resStr(query(limited, lim).FindEdges(e.min))
		}
	}
	ops := []opT{
		{"FindEdges(target, tight limit)", find(true, small)},
		{"FindEdges(target, loose limit)", find(true, big)},
		{"FindEdges(target, no limit)", find(false, 0)},
		{"Distance(target)", func(e *env) string {
			if furthest {
				return fmt.Sprint(float64(query(false, 0).Distance(e.max)))
			}
			return fmt.Sprint(float64(query(false, 0).Distance(e.min)))
		}},
		{"threshold(target, tight)", func(e *env) string {
			if furthest {
				return fmt.Sprint(query(false, 0).IsDistanceGreater(e.max, small))
			}
			return fmt.Sprint(query(false, 0).IsDistanceLess(e.min, small))
		}},
		{"threshold(target, loose)", func(e *env) string {
			if furthest {
				return fmt.Sprint(query(false, 0).IsDistanceGreater(e.max, big))
			}
			return fmt.Sprint(query(false, 0).IsDistanceLess(e.min, big))
		}},
	}
	name := "M4-reused-ShapeIndex-target-closest"
	if furthest {
		name = "M4-reused-ShapeIndex-target-furthest"
	}
	m := &machine{name: name, nOps: len(ops)}
	m.opStr = func(op int) string { return ops[op].name }
	exp := map[int]string{}
	m.run = func(hist []int) (string, string, string) {
		e := mkEnv()
		bad, obs := "", ""
		for i, o := range hist {
			got := ops[o].f(e)
			if i == len(hist)-1 {
				x, ok := exp[o]
				if !ok {
					x = ops[o].f(mkEnv())
					exp[o] = x
				}
				obs = got
				if got != x {
					bad = fmt.Sprintf("%s with a target object that earlier queries used returned [%s]; with a fresh target object it returns [%s]", ops[o].name, trunc(got, 120), trunc(x, 120))
				}
			}
		}
		return "", bad, obs
	}
	return m
}

// c13ResetMachine: one long-lived EdgeQuery on an index that grows.  EdgeQuery.Reset is the documented
// step after modifying the index, so the legal histories are: queries, then (Add ...; Reset), then
// queries again.  The index is above the brute-force threshold and its top-level covering changes
// shape when clusters are added.
func c13ResetMachine() *machine {
	cluster := func(lat, lng float64, n int, step float64) func() s2.Shape {
		return func() s2.Shape {
			var pl s2.Polyline
			for i := 0; i <= n; i++ {
				pl = append(pl, lattice.LL(lat+step*float64(i%3), lng+step*float64(i)))
			}
			return &pl
		}
	}
	initial := []func() s2.Shape{cluster(10, 10, 8, 0.01), cluster(10, 40, 8, 0.01), cluster(40, 10, 8, 0.01), cluster(40, 40, 8, 0.01)}
	extra := []func() s2.Shape{cluster(10.2, 10.2, 40, 0.002), cluster(40.3, 39.7, 40, 0.002), cluster(-20, -100, 30, 0.5)}
	targets := []s2.Point{lattice.LL(10.1, 10.1), lattice.LL(25, 25), lattice.LL(40.31, 39.71)}
	resStr := func(rs []s2.EdgeQueryResult) string {
		var s []string
		for _, r := range rs {
			s = append(s, fmt.Sprintf("%d/%d@%v", r.ShapeID(), r.EdgeID(), float64(r.Distance())))
		}
		return strings.Join(s, ",")
	}
	const (
		opFind0 = iota
		opFind1
		opFind2
		opDist0
		opReset
		opAdd0
	)
	nOps := opAdd0 + len(extra)
	m := &machine{name: "M5-EdgeQuery-Reset-after-index-growth", nOps: nOps}
	m.opStr = func(op int) string {
		switch {
		case op <= opFind2:
			return fmt.Sprintf("FindEdges(target%d)", op)
		case op == opDist0:
			return "Distance(target0)"
		case op == opReset:
			return "Reset"
		}
		return fmt.Sprintf("Add(cluster%d)", op-opAdd0)
	}
	m.enabled = func(hist []int, op int) bool {
		dirty := false // index modified since the last Reset (or creation of the query)
		added := map[int]bool{}
		for _, o := range hist {
			switch {
			case o >= opAdd0:
				dirty = true
				added[o] = true
			case o == opReset:
				dirty = false
			}
		}
		if op >= opAdd0 {
			return !added[op]
		}
		if op == opReset {
			return true
		}
		return !dirty // a query on a modified index needs a Reset first
	}
	m.run = func(hist []int) (string, string, string) {
		build := func(adds []int) *s2.ShapeIndex {
			ix := s2.NewShapeIndex()
			for _, f := range initial {
				ix.Add(f())
			}
			for _, a := range adds {
				ix.Add(extra[a]())
			}
			return ix
		}
		ix := build(nil)
		mkq := func(x *s2.ShapeIndex) *s2.EdgeQuery {
			return s2.NewClosestEdgeQuery(x, s2.NewClosestEdgeQueryOptions().MaxResults(200))
		}
		q := mkq(ix)
		ask := func(q *s2.EdgeQuery, op int) string {
			if op == opDist0 {
				return fmt.Sprint(float64(q.Distance(s2.NewMinDistanceToPointTarget(targets[0]))))
			}
			return resStr(q.FindEdges(s2.NewMinDistanceToPointTarget(targets[op])))
		}
		var adds []int
		bad, obs := "", ""
		for i, o := range hist {
			switch {
			case o >= opAdd0:
				ix.Add(extra[o-opAdd0]())
				adds = append(adds, o-opAdd0)
			case o == opReset:
				q.Reset()
			default:
				got := ask(q, o)
				if i == len(hist)-1 {
					exp := ask(mkq(build(adds)), o)
					obs = got
					if got != exp {
						bad = fmt.Sprintf("%s on a long-lived EdgeQuery (Reset after the index grew) differs from a fresh query on an index holding the same shapes: %d vs %d characters of results", m.opStr(o), len(got), len(exp))
					}
				}
			}
		}
		return "", bad, obs
	}
	return m
}

func c13OtherQueriesMachine() *machine {
	// One CrossingEdgeQuery and one ContainsPointQuery reused across different arguments.
	mkIndex := func() (*s2.ShapeIndex, []s2.Shape) {
		ix := s2.NewShapeIndex()
		var shapes []s2.Shape
		for _, f := range c13Shapes()[:4] {
			s := f()
			shapes = append(shapes, s)
			ix.Add(s)
		}
		return ix, shapes
	}
	ll := func(a, b float64) s2.Point { return s2.PointFromLatLng(s2.LatLngFromDegrees(a, b)) }
	edges := [][2]s2.Point{{ll(0, 0), ll(20, 20)}, {ll(10, 0), ll(10, 30)}, {ll(-60, 100), ll(-50, 120)}}
	pts := []s2.Point{ll(10, 10), ll(12, 14), ll(50, 50)}
	return c13QueriesMachineOn("M4-Crossing+ContainsPoint-query-reuse", mkIndex, edges, pts, 0, 3)
}

// c13SmallIndexQueriesMachine: the same alphabet on an index so small that it is one index cell
// holding two shapes (a square loop and a polyline): every query edge resolves to that single cell,
// whose edge lists a query must not disturb.
func c13SmallIndexQueriesMachine() *machine {
	ll := func(a, b float64) s2.Point { return s2.PointFromLatLng(s2.LatLngFromDegrees(a, b)) }
	mkIndex := func() (*s2.ShapeIndex, []s2.Shape) {
		ix := s2.NewShapeIndex()
		loop := s2.LoopFromPoints([]s2.Point{ll(1, 1), ll(1, 2), ll(2, 2), ll(2, 1)})
		line := s2.Polyline{ll(3, 1), ll(3, 2), ll(4, 2)}
		shapes := []s2.Shape{loop, &line}
		for _, s := range shapes {
			ix.Add(s)
		}
		return ix, shapes
	}
	edges := [][2]s2.Point{{ll(0.5, 1.5), ll(1.5, 1.5)}, {ll(1.5, 1.5), ll(2.5, 1.5)}, {ll(1.5, 0.5), ll(1.5, 1.5)}, {ll(1.5, 1.5), ll(1.5, 2.5)},
		{ll(0.5, 1.5), ll(2.5, 1.5)}, {ll(2.5, 1.5), ll(3.5, 1.5)}}
	pts := []s2.Point{ll(1.5, 1.5), ll(0.5, 1.5), ll(1.1, 1.9)}
	return c13QueriesMachineOn("M4-small-index-Crossing+ContainsPoint-query-reuse", mkIndex, edges, pts, 0, 1)
}

func c13QueriesMachineOn(name string, mkIndex func() (*s2.ShapeIndex, []s2.Shape), edges [][2]s2.Point, pts []s2.Point, shapeA, shapeB int) *machine {
	type env struct {
		ix     *s2.ShapeIndex
		shapes []s2.Shape
		cq     *s2.CrossingEdgeQuery
		pq     *s2.ContainsPointQuery
	}
	mkEnv := func() *env {
		ix, sh := mkIndex()
		return &env{ix, sh, s2.NewCrossingEdgeQuery(ix), s2.NewContainsPointQuery(ix, s2.VertexModelSemiOpen)}
	}
	type opT struct {
		name string
		f    func(e *env) string
	}
	var ops []opT
	for i, ed := range edges {
		ed := ed
		ops = append(ops, opT{fmt.Sprintf("Crossings(e%d,polygon)", i), func(e *env) string {
			return fmt.Sprint(e.cq.Crossings(ed[0], ed[1], e.shapes[shapeA], s2.CrossingTypeAll))
		}})
		ops = append(ops, opT{fmt.Sprintf("CrossingsEdgeMap(e%d,All)", i), func(e *env) string {
			em := e.cq.CrossingsEdgeMap(ed[0], ed[1], s2.CrossingTypeAll)
			var parts []string
			for s, es := range em {
				for k, sh := range e.shapes {
					if sh == s {
						parts = append(parts, fmt.Sprintf("%d:%v", k, es))
					}
				}
			}
			sort.Strings(parts)
			return strings.Join(parts, ",")
		}})
		ops = append(ops, opT{fmt.Sprintf("CrossingsEdgeMap(e%d)", i), func(e *env) string {
			em := e.cq.CrossingsEdgeMap(ed[0], ed[1], s2.CrossingTypeInterior)
			var parts []string
			for s, es := range em {
				for k, sh := range e.shapes {
					if sh == s {
						e2 := append([]int(nil), es...)
						sort.Ints(e2)
						parts = append(parts, fmt.Sprintf("%d:%v", k, e2))
					}
				}
			}
			sort.Strings(parts)
			return strings.Join(parts, ",")
		}})
	}
	for i, p := range pts {
		p := p
		ops = append(ops, opT{fmt.Sprintf("Contains(p%d)", i), func(e *env) string { return fmt.Sprint(e.pq.Contains(p), len(e.pq.ContainingShapes(p))) }})
		ops = append(ops, opT{fmt.Sprintf("ShapeContains(p%d)", i), func(e *env) string {
			return fmt.Sprint(e.pq.ShapeContains(e.shapes[shapeA], p), e.pq.ShapeContains(e.shapes[shapeB], p))
		}})
	}
	m := &machine{name: name, nOps: len(ops)}
	m.opStr = func(op int) string { return ops[op].name }
	exp := map[int]string{}
	m.run = func(hist []int) (string, string, string) {
		e := mkEnv()
		bad, obs := "", ""
		for i, o := range hist {
			got := ops[o].f(e)
			if i == len(hist)-1 {
				x, ok := exp[o]
				if !ok {
					x = ops[o].f(mkEnv())
					exp[o] = x
				}
				obs = got
				if got != x {
					bad = fmt.Sprintf("%s on reused query objects returned [%s]; fresh query objects return [%s]", ops[o].name, trunc(got, 120), trunc(x, 120))
				}
			}
		}
		return "", bad, obs
	}
	return m
}

func runC13(c *core.Ctx) {
	c.Rule = "breadth-first search over operation histories of four machines (ShapeIndex add/build/reset/query; Loop and Polygon invert/query; reused EdgeQuery / CrossingEdgeQuery / ContainsPointQuery objects); states are merged only when the implementation's own internal state (index dump, option values, vertices) is identical; every transition executes the whole history on fresh objects and compares the last answer with the same question asked of fresh objects holding the same geometry; non-trivial = distinct reached states (M1-M3) / distinct observations (M4)"
	c.Assume = []string{
		"Remove is outside the property's operation alphabet and is not explored",
		"each history is executed as the single thread of a controlled execution (sync shim), so self-deadlock and endless loops are detected structurally",
		"a state reached by a violating transition is terminal",
	}
	if c.OnlySub != "" {
		c13Replay(c)
		return
	}
	// The controlled scheduler allows one execution at a time per process, and the machines are
	// independent of each other: each one is searched in its own worker process.
	jobs := c13Jobs(c)
	outs := make([]*core.CtxDump, len(jobs))
	errs := make([]string, len(jobs))
	sem := make(chan struct{}, c.Workers)
	var wg sync.WaitGroup
	remaining := 0
	if !c.Deadline.IsZero() {
		remaining = int(time.Until(c.Deadline).Seconds())
	}
	for i := range jobs {
		wg.Add(1)
		go func(i int) {
			defer wg.Done()
			sem <- struct{}{}
			defer func() { <-sem }()
			so, se, err := runWorkerProc("c13job", strconv.Itoa(i), c.Tier, strconv.Itoa(remaining))
			for _, l := range strings.Split(so, "\n") {
				if strings.HasPrefix(l, "C13OUT ") {
					var d core.CtxDump
					if json.Unmarshal([]byte(l[7:]), &d) == nil {
						outs[i] = &d
					}
				}
			}
			if outs[i] == nil {
				errs[i] = fmt.Sprintf("worker for machine job %d failed: %v\n%s\n%s", i, err, tail(so, 1500), tail(se, 3000))
			}
		}(i)
	}
	wg.Wait()
	for i := range jobs {
		if errs[i] != "" {
			panic(core.HarnessError(errs[i]))
		}
		c.Import(outs[i])
	}
}

type c13Job struct {
	dedup bool
	m     *machine
	depth int
}

// c13Jobs lists the machines with their search mode and depth for the tier.
func c13Jobs(c *core.Ctx) []c13Job {
	jobs := []c13Job{{true, c13IndexMachine(), core.Pick(c, 6, 8)}}
	for _, nv := range []int{8, 40, 100} {
		jobs = append(jobs, c13Job{true, c13LoopMachine(nv), core.Pick(c, 5, 7)})
	}
	jobs = append(jobs, c13Job{true, c13LoopMachineAt(40, 90, 0), core.Pick(c, 5, 7)}, c13Job{true, c13LoopMachineAt(64, -90, 0), core.Pick(c, 4, 7)})
	for v := 0; v < 3; v++ {
		jobs = append(jobs, c13Job{true, c13PolygonMachine(v), core.Pick(c, 4, 6)})
	}
	jobs = append(jobs,
		c13Job{false, c13QueryMachine(false), core.Pick(c, 3, 4)},
		c13Job{false, c13QueryMachine(true), core.Pick(c, 3, 4)},
		c13Job{false, c13OtherQueriesMachine(), core.Pick(c, 3, 4)},
		c13Job{false, c13SmallIndexQueriesMachine(), core.Pick(c, 3, 4)},
		c13Job{false, c13IndexTargetMachine(false), core.Pick(c, 3, 5)},
		c13Job{false, c13IndexTargetMachine(true), core.Pick(c, 3, 5)},
		c13Job{false, c13ReusedTargetMachine(false), core.Pick(c, 3, 4)},
		c13Job{false, c13ReusedTargetMachine(true), core.Pick(c, 3, 4)},
		c13Job{false, c13ResetMachine(), core.Pick(c, 5, 7)})
	return jobs
}

// c13JobWorker: vcheck worker c13job <index> <tier> <seconds-left>
func c13JobWorker(args []string) int {
	if len(args) < 3 {
		return 2
	}
	i, _ := strconv.Atoi(args[0])
	secs, _ := strconv.Atoi(args[2])
	c := core.NewCtx("C13", args[1], "model_checking", 0)
	if secs > 0 {
		c.Deadline = time.Now().Add(time.Duration(secs) * time.Second)
	}
	jobs := c13Jobs(c)
	if i < 0 || i >= len(jobs) {
		return 2
	}
	installAccessHook()
	if jobs[i].dedup {
		searchDedup(c, jobs[i].m, jobs[i].depth)
	} else {
		searchAll(c, jobs[i].m, jobs[i].depth)
	}
	b, _ := json.Marshal(c.Export())
	fmt.Println("C13OUT " + string(b))
	return 0
}

func c13Machines() []*machine {
	ms := []*machine{c13IndexMachine(), c13QueryMachine(false), c13QueryMachine(true), c13OtherQueriesMachine(), c13SmallIndexQueriesMachine(), c13IndexTargetMachine(false), c13IndexTargetMachine(true), c13ReusedTargetMachine(false), c13ReusedTargetMachine(true), c13ResetMachine()}
	for _, nv := range []int{8, 40, 100} {
		ms = append(ms, c13LoopMachine(nv))
	}
	ms = append(ms, c13LoopMachineAt(40, 90, 0), c13LoopMachineAt(64, -90, 0))
	for v := 0; v < 2; v++ {
		ms = append(ms, c13PolygonMachine(v))
	}
	return ms
}

func c13Replay(c *core.Ctx) {
	d, _ := c.ReplayDetail.(map[string]any)
	if d == nil {
		panic(core.HarnessError("replay file has no detail"))
	}
	name, _ := d["machine"].(string)
	var hist []int
	for _, x := range d["ops"].([]any) {
		hist = append(hist, int(x.(float64)))
	}
	for _, m := range c13Machines() {
		if m.name != name {
			continue
		}
		fmt.Println("history:", histStr(m, hist))
		first := ""
		for k := 0; k < 5; k++ {
			out := execHistory(m, hist)
			if k == 0 {
				first = out.bad
				if out.bad != "" {
					c.Violate(m.name, out.kind, out.bad, nil, nil)
				}
			} else if out.bad != first {
				panic(core.HarnessError("replay is not deterministic"))
			}
		}
		fmt.Println("replayed 5x with identical observations:", first)
	}
}
