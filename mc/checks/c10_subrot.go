package checks

import (
	"fmt"
	"math"

	"github.com/golang/geo/r1"
	"github.com/golang/geo/s1"
	"github.com/golang/geo/s2"

	"verif/mc/core"
)

// Sub-check "subregion-bound-rotation": ExpandForSubregions depends on the longitude interval of the
// bound only through its LENGTH (the sphere is symmetric under rotation about the polar axis), so
// for a fixed latitude range and a fixed longitude width the result must have the same latitude
// range, the same longitude length and the same "is it full in longitude" answer wherever the
// interval sits — in particular when it crosses the antimeridian and its representation is inverted
// (Lo > Hi).  A differential oracle without a reference value; it also asserts the two facts the
// function's own comments state: the result contains the bound, and a bound wide enough to contain
// two nearly antipodal points of a sub-region gives the full rectangle.  The "subregions" sub-check
// builds its containing pairs from bounds that RectFromLatLng / AddPoint produce, which are never
// wider than 180 degrees and were never inverted AND wide at once (seed C10-r7).
func init() {
	ck := Registry["C10"]
	run := ck.Run
	ck.Run = func(c *core.Ctx) {
		run(c)
		c10SubregionRotation(c)
	}
}

func c10SubregionRotation(c *core.Ctx) {
	sub := "subregion-bound-rotation"
	deg := math.Pi / 180
	lats := [][2]float64{{-1, 1}, {-0.1, 0.1}, {10, 30}, {-60, -20}, {0, 0}, {-45, 45}, {5, 85}, {-89, -70}}
	widths := []float64{0, 1e-9, 1, 45, 90, 170, 179, 179.999999, 180, 180.000001, 181, 200, 270, 359, 359.999999}
	centres := []float64{0, 30, 90, 135, 170, 179, 179.999999, 180, -179.999999, -179, -135, -90, -1e-9}
	if !c.Quick() {
		for k := -180; k < 180; k += 7 {
			centres = append(centres, float64(k)+0.5)
		}
	}
	type res struct {
		latLo, latHi, lngLen float64
		full                 bool
		ctr                  float64
	}
	var evals, inverted int64
	for li, lt := range lats {
		for wi, w := range widths {
			cas := []int{li, wi}
			if c.Skip(sub, cas...) {
				continue
			}
			detail := func() any { return map[string]any{"lat_deg": lt, "lng_width_deg": w} }
			c.Guard(sub, cas, detail, func() {
				var first *res
				for _, ctr := range centres {
					lo := math.Remainder((ctr-w/2)*deg, 2*math.Pi)
					hi := math.Remainder((ctr+w/2)*deg, 2*math.Pi)
					if w >= 360 {
						continue
					}
					lng := s1.IntervalFromEndpoints(lo, hi)
					if lng.IsEmpty() || lng.IsFull() || math.Abs(lng.Length()-w*deg) > 1e-9 {
						continue // the endpoints rounded into another representation
					}
					if lng.IsInverted() {
						inverted++
					}
					b := s2.Rect{Lat: r1.Interval{Lo: lt[0] * deg, Hi: lt[1] * deg}, Lng: lng}
					if !b.IsValid() {
						continue
					}
					e := s2.ExpandForSubregions(b)
					evals++
					if !e.IsValid() || !e.Contains(b) {
						c.Violate(sub, "wrong-answer", "ExpandForSubregions returns an invalid rectangle or one that does not contain the bound it expands", cas,
							map[string]any{"bound": fmt.Sprint(b), "got": fmt.Sprint(e)})
						return
					}
					r := &res{e.Lat.Lo, e.Lat.Hi, e.Lng.Length(), e.Lng.IsFull(), ctr}
					if first == nil {
						first = r
						continue
					}
					if r.full != first.full || math.Abs(r.lngLen-first.lngLen) > 1e-13 || math.Abs(r.latLo-first.latLo) > 1e-14 || math.Abs(r.latHi-first.latHi) > 1e-14 {
						c.Violate(sub, "wrong-answer", "ExpandForSubregions of two bounds that differ only by a rotation about the polar axis gives results that differ by more than that rotation (one of the bounds crosses the antimeridian)", cas,
							map[string]any{"lat_deg": lt, "lng_width_deg": w, "centre_a_deg": first.ctr, "centre_b_deg": ctr,
								"a": fmt.Sprintf("lat [%v,%v] lng length %v full %v", first.latLo, first.latHi, first.lngLen, first.full),
								"b": fmt.Sprintf("lat [%v,%v] lng length %v full %v", r.latLo, r.latHi, r.lngLen, r.full)})
						return
					}
				}
			})
		}
	}
	c.Eval(int(evals))
	c.Nontrivial(int(inverted))
	c.Count(sub+"/bounds", evals)
	c.Count(sub+"/bounds_crossing_the_antimeridian", inverted)
}
