package checks

import (
	"bytes"
	"fmt"

	"github.com/golang/geo/s1"
	"github.com/golang/geo/s2"

	"verif/mc/core"
)

// Scenario family F: first use.  Each goroutine works on geometry of its own (nothing is shared on
// purpose), as the first use of golang/geo in a new process; what the goroutines do share is every
// package-level table and lazily computed constant of the library.  See util_fresh.go.
func init() {
	freshPanels["c14-first-use"] = &freshPanel{Name: "c14-first-use", Ops: func() []freshOp {
		ll := func(lat, lng float64) s2.Point { return s2.PointFromLatLng(s2.LatLngFromDegrees(lat, lng)) }
		return []freshOp{
			{"own loop: ContainsPoint / cell relations / Area / exact RobustSign", func() string {
				ctr := ll(10, 20)
				l := s2.RegularLoop(ctr, 5*s1.Degree, 40)
				cell := s2.CellFromCellID(s2.CellFromPoint(ctr).ID().Parent(9))
				a, b := s2.Point{Vector: ctr.Vector}, s2.Point{Vector: ctr.Mul(-1)}
				return fmt.Sprint(l.ContainsPoint(ctr), l.ContainsPoint(ll(-40, 100)), l.ContainsCell(cell), l.IntersectsCell(cell), l.Area(),
					s2.RobustSign(a, b, ll(0, 0)), s2.RobustSign(a, a, b), s2.CellIDFromLatLng(s2.LatLngFromDegrees(10, 20)).ToToken())
			}},
			{"own polygon: compressed encode / decode / covering / cell union", func() string {
				var pts []s2.Point
				base := s2.CellIDFromFacePosLevel(3, 0x123456789abcde>>3, 14)
				for k, id := 0, base; k < 6; k, id = k+1, id.Next().Next().Next() {
					pts = append(pts, id.Point())
				}
				lp := s2.LoopFromPoints(pts)
				lp.Normalize()
				pg := s2.PolygonFromLoops([]*s2.Loop{lp})
				var buf bytes.Buffer
				err := pg.Encode(&buf)
				var back s2.Polygon
				err2 := back.Decode(bytes.NewReader(buf.Bytes()))
				rc := &s2.RegionCoverer{MinLevel: 2, MaxLevel: 12, LevelMod: 1, MaxCells: 8}
				cov := rc.Covering(s2.CapFromCenterAngle(ll(-30, 60), 3*s1.Degree))
				cu := s2.CellUnion(append([]s2.CellID(nil), cov...))
				cu.Normalize()
				return fmt.Sprint(err, err2, buf.Len(), fmt.Sprintf("%x", buf.Bytes()), back.NumEdges(), back.Loop(0).Vertex(0) == lp.Vertex(0), len(cov), cov, cu.LeafCellsCovered())
			}},
			{"own index: closest edge, crossing edges, intersection point", func() string {
				ix := s2.NewShapeIndex()
				pl := s2.Polyline{ll(-5, -5), ll(0, 1), ll(5, -3), ll(9, 4)}
				ix.Add(&pl)
				ix.Add(s2.PolygonFromLoops([]*s2.Loop{s2.RegularLoop(ll(2, 2), 3*s1.Degree, 36)}))
				q := s2.NewClosestEdgeQuery(ix, s2.NewClosestEdgeQueryOptions().MaxResults(3))
				res := q.FindEdges(s2.NewMinDistanceToPointTarget(ll(1, 1)))
				var rs []string
				for _, r := range res {
					rs = append(rs, fmt.Sprint(r.ShapeID(), r.EdgeID(), float64(r.Distance())))
				}
				cq := s2.NewCrossingEdgeQuery(ix)
				cr := cq.Crossings(ll(-6, 0), ll(8, 0), ix.Shape(0), s2.CrossingTypeAll)
				x := s2.Intersection(ll(-1, -1), ll(1, 1), ll(-1, 1), ll(1, -1))
				return fmt.Sprint(rs, cr, x, s2.NewContainsPointQuery(ix, s2.VertexModelSemiOpen).Contains(ll(2, 2)))
			}},
		}
	}}
}

func c14FirstUse(c *core.Ctx) {
	sub := "F-first-use"
	var table []freshStats
	table = append(table, freshExplore(c, sub, "c14-first-use", 2, core.Pick(c, 2, 3), int64(core.Pick(c, 3000, 30000))))
	table = append(table, freshExplore(c, sub, "c14-first-use", 3, core.Pick(c, 1, 2), int64(core.Pick(c, 3000, 30000))))
	c.Note("first_use_fresh_process_exploration", table)
}
