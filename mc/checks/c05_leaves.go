package checks

import (
	"fmt"

	"github.com/golang/geo/s1"
	"github.com/golang/geo/s2"

	"verif/mc/core"
	"verif/mc/refmodel"
)

// Sub-check "index-cell-corner-leaves": Loop / Polygon ContainsCell and IntersectsCell start by locating
// the query cell among the cells of the region's ShapeIndex.  The deciding inputs of that lookup are
// the query cells whose id is exactly the first or the last leaf (RangeMin / RangeMax) of an index
// cell, and their ancestors down to the index cell; a covering only meets them when it reaches leaf
// level exactly there, a generic query never does (seed C05-r7).  For every index cell of every region
// of a small catalogue: the first / last leaf, their ancestors at levels 29, 28, 25 and the index cell's
// own level + 1, and the leaf neighbours just outside the range.  Oracle: C05's one-sided claims against
// exact crossing parity on probes inside each query cell.
func init() {
	ck := Registry["C05"]
	run := ck.Run
	ck.Run = func(c *core.Ctx) {
		run(c)
		c05IndexCellCornerLeaves(c)
	}
}

func c05IndexCellCornerLeaves(c *core.Ctx) {
	sub := "index-cell-corner-leaves"
	ll := func(lat, lng float64) s2.Point { return s2.PointFromLatLng(s2.LatLngFromDegrees(lat, lng)) }
	type region struct {
		name  string
		loops func() []*s2.Loop
	}
	regions := []region{
		{"40-gon, radius 5 deg", func() []*s2.Loop { return []*s2.Loop{s2.RegularLoop(ll(10, 20), 5*s1.Degree, 40)} }},
		{"24-gon, radius 1e-7 rad", func() []*s2.Loop { return []*s2.Loop{s2.RegularLoop(ll(-33, 151), 1e-7, 24)} }},
		{"36-gon with a 33-gon hole", func() []*s2.Loop {
			return []*s2.Loop{s2.RegularLoop(ll(35.26, 45), 3*s1.Degree, 36), s2.RegularLoop(ll(35.26, 45), 1*s1.Degree, 33)}
		}},
	}
	if !c.Quick() {
		regions = append(regions,
			region{"100-gon, radius 1e-5 rad at a pole", func() []*s2.Loop { return []*s2.Loop{s2.RegularLoop(ll(89.9999, 0), 1e-5, 100)} }},
			region{"64-gon, radius 40 deg", func() []*s2.Loop { return []*s2.Loop{s2.RegularLoop(ll(0, -90), 40*s1.Degree, 64)} }})
	}
	var judged, cLast, cFirst, contained, disjoint int64
	for ri, rg := range regions {
		cas := []int{ri}
		if c.Skip(sub, cas...) {
			continue
		}
		detail := func() any { return map[string]any{"region": rg.name} }
		c.Guard(sub, cas, detail, func() {
			loops := rg.loops()
			var rl []*refmodel.Loop
			for _, l := range loops {
				rl = append(rl, refmodel.NewLoop(append([]s2.Point(nil), l.Vertices()...)))
			}
			pg := s2.PolygonFromLoops(rg.loops())
			var lp *s2.Loop
			if len(loops) == 1 {
				lp = rg.loops()[0]
			}
			var ids []s2.CellID
			for it := pg.VerifIndex().Iterator(); !it.Done(); it.Next() {
				ids = append(ids, it.CellID())
			}
			if lp != nil {
				for it := lp.VerifIndex().Iterator(); !it.Done(); it.Next() {
					ids = append(ids, it.CellID())
				}
			}
			seen := map[s2.CellID]bool{}
			var targets []s2.CellID
			add := func(id s2.CellID) {
				if id.IsValid() && !seen[id] {
					seen[id] = true
					targets = append(targets, id)
				}
			}
			for _, id := range ids {
				first, last := id.RangeMin(), id.RangeMax()
				for _, leaf := range []s2.CellID{first, last} {
					add(leaf)
					for _, lv := range []int{29, 28, 25, id.Level() + 1, id.Level()} {
						if lv >= id.Level() && lv <= 30 {
							add(leaf.Parent(lv))
						}
					}
				}
				add(first.Prev())
				add(last.Next())
				add(first.Next())
				add(last.Prev())
			}
			for _, t := range targets {
				cell := s2.CellFromCellID(t)
				ctr := cell.Center()
				probes := []s2.Point{ctr}
				for k := 0; k < 4; k++ {
					probes = append(probes, s2.Point{Vector: ctr.Mul(0.2).Add(cell.Vertex(k).Mul(0.8)).Normalize()})
				}
				all, none := true, true
				for _, q := range probes {
					if refmodel.PolygonContains(rl, q) {
						none = false
					} else {
						all = false
					}
				}
				if t.IsLeaf() {
					for _, id := range ids {
						if t == id.RangeMax() {
							cLast++
						}
						if t == id.RangeMin() {
							cFirst++
						}
					}
				}
				type pred struct {
					name               string
					contains, intersec bool
				}
				preds := []pred{{"Polygon", pg.ContainsCell(cell), pg.IntersectsCell(cell)}}
				if lp != nil {
					preds = append(preds, pred{"Loop", lp.ContainsCell(cell), lp.IntersectsCell(cell)})
				}
				for _, p := range preds {
					judged++
					if p.contains {
						contained++
						if !all {
							c.Violate(sub, "wrong-answer", p.name+".ContainsCell is true for a cell with a point outside the region (query cell at the first / last leaf of an index cell, or an ancestor of it)", cas,
								map[string]any{"region": rg.name, "cell": t.ToToken(), "level": t.Level()})
							return
						}
					}
					if !p.intersec {
						disjoint++
						if !none {
							c.Violate(sub, "wrong-answer", p.name+".IntersectsCell is false for a cell with a point inside the region (query cell at the first / last leaf of an index cell, or an ancestor of it)", cas,
								map[string]any{"region": rg.name, "cell": t.ToToken(), "level": t.Level()})
							return
						}
					}
				}
			}
		})
	}
	c.Eval(int(judged))
	c.Nontrivial(int(cLast + cFirst))
	c.Count(sub+"/predicate_calls_judged", judged)
	c.Count(sub+"/query_cells_that_are_the_last_leaf_of_an_index_cell", cLast)
	c.Count(sub+"/query_cells_that_are_the_first_leaf_of_an_index_cell", cFirst)
	c.Count(sub+"/ContainsCell_true", contained)
	c.Count(sub+"/IntersectsCell_false", disjoint)
	if c.OnlySub == "" && c.CapsHit() == 0 && (cLast == 0 || cFirst == 0) {
		panic(core.HarnessError(fmt.Sprintf("index-cell-corner-leaves is vacuous: last leaves %d, first leaves %d", cLast, cFirst)))
	}
}
