package checks

import (
	"fmt"
	"strconv"

	"github.com/golang/geo/verifshim/vsched"
)

func init() { workers["c14keys"] = c14KeysWorker }

// c14KeysWorker runs the default schedule of a scenario twice with state hashing on and reports the
// first point at which the state keys differ (a source of nondeterminism that is not owned).
func c14KeysWorker(args []string) int {
	name := args[0]
	threads, _ := strconv.Atoi(args[1])
	installAccessHook()
	for _, s := range c14Scenarios() {
		if s.Name != name {
			continue
		}
		sc, _ := s.buildSched(threads)
		c14InstallStateFns()
		var runs [][]uint64
		for k := 0; k < 3; k++ {
			bodies, _ := sc.Make()
			r := vsched.Run(nil, bodies, true, 0)
			var keys []uint64
			for _, p := range r.Points {
				keys = append(keys, p.Key)
			}
			runs = append(runs, keys)
			if k > 0 {
				n := len(runs[0])
				if len(keys) < n {
					n = len(keys)
				}
				diff := -1
				for i := 0; i < n; i++ {
					if runs[0][i] != keys[i] {
						diff = i
						break
					}
				}
				fmt.Printf("run %d: %d points (run 0: %d), first differing key at point %d\n", k, len(keys), len(runs[0]), diff)
				if diff >= 0 {
					lo := diff - 3
					if lo < 0 {
						lo = 0
					}
					for i := lo; i < diff+3 && i < len(r.Events); i++ {
						fmt.Println("   ", i, r.Events[i])
					}
				}
			}
		}
	}
	return 0
}
