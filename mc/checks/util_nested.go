package checks

import (
	"fmt"

	"github.com/golang/geo/s1"
	"github.com/golang/geo/s2"
)

// nestedFamily is a multi-shell polygon in which shells OTHER than the largest one have nested loops
// (holes, islands in holes): the structures that the loop-order bookkeeping of Polygon (depth-first
// order, Invert's reordering, "shells first" assumptions) must get right, and that polygons made of
// one shell with holes, or of several plain shells, never exercise.
type nestedFamily struct {
	Name  string
	Loops func() []*s2.Loop // fresh loops, all counter-clockwise around their own interior
}

func nestedFamilies(sizes []int) []nestedFamily {
	ll := func(lat, lng float64) s2.Point { return s2.PointFromLatLng(s2.LatLngFromDegrees(lat, lng)) }
	ring := func(lat, lng, r float64, n int) *s2.Loop {
		return s2.RegularLoop(ll(lat, lng), s1.Angle(r)*s1.Degree, n)
	}
	var out []nestedFamily
	for _, n := range sizes {
		n := n
		out = append(out,
			nestedFamily{fmt.Sprintf("shell(hole(island)) + larger plain shell, %d-gons", n), func() []*s2.Loop {
				return []*s2.Loop{ring(10, 10, 8, n), ring(10, 10, 5, n+1), ring(10, 10, 2, n+2), ring(10, 45, 12, n)}
			}},
			nestedFamily{fmt.Sprintf("small shell(hole) + large shell(hole(island)), %d-gons", n), func() []*s2.Loop {
				return []*s2.Loop{ring(-20, 100, 6, n), ring(-20, 100, 3, n+1), ring(-20, 135, 12, n), ring(-20, 135, 7, n+2), ring(-20, 135, 2, n+1)}
			}},
			nestedFamily{fmt.Sprintf("three shells, two of them with holes, %d-gons", n), func() []*s2.Loop {
				return []*s2.Loop{ring(60, -30, 5, n), ring(60, -30, 2, n+1), ring(40, -30, 7, n), ring(40, -30, 3, n+2), ring(20, -30, 9, n)}
			}},
			nestedFamily{fmt.Sprintf("two equal shells each with a hole, %d-gons", n), func() []*s2.Loop {
				return []*s2.Loop{ring(0, 170, 6, n), ring(0, 170, 3, n), ring(0, -170, 6, n), ring(0, -170, 3, n)}
			}},
			// families nested around s2.OriginPoint() (0.6 degrees from the north pole): two, three
			// and one of the loops contain the point that every crossing-parity computation starts from
			nestedFamily{fmt.Sprintf("polar ring: shell and hole both contain the origin point, %d-gons", n), func() []*s2.Loop {
				return []*s2.Loop{ring(90, 0, 20, n), ring(90, 0, 5, n+1)}
			}},
			nestedFamily{fmt.Sprintf("polar shell(hole(island)): all three contain the origin point, %d-gons", n), func() []*s2.Loop {
				return []*s2.Loop{ring(90, 0, 20, n), ring(90, 0, 12, n+1), ring(90, 0, 5, n+2), ring(-40, 60, 9, n)}
			}},
			nestedFamily{fmt.Sprintf("polar shell with a hole beside the origin point + second shell, %d-gons", n), func() []*s2.Loop {
				return []*s2.Loop{ring(90, 0, 20, n), ring(89.9, 180, 0.3, n+1), ring(30, 60, 9, n)}
			}},
		)
	}
	return out
}

// loopOrders returns a few input orders of k loops: identity, reversed, and every rotation.
func loopOrders(k int) [][]int {
	var out [][]int
	for r := 0; r < k; r++ {
		var o, rev []int
		for i := 0; i < k; i++ {
			o = append(o, (i+r)%k)
		}
		for i := k - 1; i >= 0; i-- {
			rev = append(rev, o[i])
		}
		out = append(out, o, rev)
	}
	return out
}
